//! A dynamically shaped encoder tree that implements `Values` by delegating
//! to bcder's real combinators (tuples of every arity, Option, Vec, slices,
//! Iter, Slice, Choice2/3, Constructed, sequence/set[_as], explicit,
//! Captured, the string encoders, encode_wrapped, typed primitives).

use bcder::encode::{self, PrimitiveContent, Values};
use bcder::{BitString, Captured, Mode, OctetString, Oid, Tag};
use crate::c12::{mk_tag, ref_ident};
use crate::gen::ref_len_octets;
use std::io;

#[derive(Clone, Debug)]
pub enum Dyn {
    Prim(u8, u32, Vec<u8>),
    Cons(u8, u32, u8, Box<Dyn>),            // rep: 0 Constructed::new, 1 sequence_as, 2 set_as, 3 explicit
    Seq(u8, Vec<Dyn>),                      // rep: 0 Vec, 1 slice, 2 tuple, 3 iter, 4 Slice
    Opt(Option<Box<Dyn>>),
    Choice(u8, Box<Dyn>),
    Nothing,
    Captured(u8, Vec<u8>),
    OctStr(u8, u32, u8, Vec<u8>),           // tag, decode mode, TLV to decode the OctetString from
    OctSlice(u8, u32, Vec<u8>),
    BitSlice(u8, u32, u8, Vec<u8>),
    Wrapped(u8, Box<Dyn>),
    Int(u8, u32, u8, bool, u128),           // tag, type index, negative, magnitude
    Bool(u8, u32, bool),
    Null(u8, u32),
    Bits(u8, u32, u8, Vec<u8>),
}

struct Raw<'a>(&'a [u8]);
impl<'a> Values for Raw<'a> {
    fn encoded_len(&self, _: Mode) -> usize { self.0.len() }
    fn write_encoded<W: io::Write>(&self, _: Mode, t: &mut W) -> Result<(), io::Error> { t.write_all(self.0) }
}

pub fn modeof(m: u8) -> Mode { match m { 0 => Mode::Ber, 1 => Mode::Cer, _ => Mode::Der } }

macro_rules! with_int {
    ($ty:expr, $neg:expr, $mag:expr, $tag:expr, |$v:ident| $body:expr) => {
        match $ty {
            0 => { let x: i8 = if $neg { (0i8).wrapping_sub($mag as i8) } else { $mag as i8 }; let $v = x.encode_as($tag); $body }
            1 => { let x: i16 = if $neg { (0i16).wrapping_sub($mag as i16) } else { $mag as i16 }; let $v = x.encode_as($tag); $body }
            2 => { let x: i32 = if $neg { (0i32).wrapping_sub($mag as i32) } else { $mag as i32 }; let $v = x.encode_as($tag); $body }
            3 => { let x: i64 = if $neg { (0i64).wrapping_sub($mag as i64) } else { $mag as i64 }; let $v = x.encode_as($tag); $body }
            4 => { let x: i128 = if $neg { (0i128).wrapping_sub($mag as i128) } else { $mag as i128 }; let $v = x.encode_as($tag); $body }
            5 => { let $v = ($mag as u8).encode_as($tag); $body }
            6 => { let $v = ($mag as u16).encode_as($tag); $body }
            7 => { let $v = ($mag as u32).encode_as($tag); $body }
            8 => { let $v = ($mag as u64).encode_as($tag); $body }
            _ => { let $v = ($mag as u128).encode_as($tag); $body }
        }
    };
}

macro_rules! tuple_of {
    ($v:expr, $f:expr) => {{
        let v: &Vec<Dyn> = $v;
        match v.len() {
            1 => $f(&(&v[0],)), 2 => $f(&(&v[0], &v[1])), 3 => $f(&(&v[0], &v[1], &v[2])),
            4 => $f(&(&v[0], &v[1], &v[2], &v[3])), 5 => $f(&(&v[0], &v[1], &v[2], &v[3], &v[4])),
            6 => $f(&(&v[0], &v[1], &v[2], &v[3], &v[4], &v[5])),
            7 => $f(&(&v[0], &v[1], &v[2], &v[3], &v[4], &v[5], &v[6])),
            8 => $f(&(&v[0], &v[1], &v[2], &v[3], &v[4], &v[5], &v[6], &v[7])),
            9 => $f(&(&v[0], &v[1], &v[2], &v[3], &v[4], &v[5], &v[6], &v[7], &v[8])),
            10 => $f(&(&v[0], &v[1], &v[2], &v[3], &v[4], &v[5], &v[6], &v[7], &v[8], &v[9])),
            11 => $f(&(&v[0], &v[1], &v[2], &v[3], &v[4], &v[5], &v[6], &v[7], &v[8], &v[9], &v[10])),
            12 => $f(&(&v[0], &v[1], &v[2], &v[3], &v[4], &v[5], &v[6], &v[7], &v[8], &v[9], &v[10], &v[11])),
            _ => $f(v),
        }
    }};
}

impl Dyn {
    /// run `f` on the real bcder encoder this node stands for
    fn with<R>(&self, f: &mut dyn FnMut(&dyn DynValues) -> R) -> R {
        match self {
            Dyn::Prim(c, n, b) => f(&b.as_slice().encode_as(mk_tag(*c, *n))),
            Dyn::Cons(c, n, rep, inner) => {
                let t = mk_tag(*c, *n);
                match rep {
                    0 => f(&encode::Constructed::new(t, &**inner)),
                    1 => f(&encode::sequence_as(t, &**inner)),
                    2 => f(&encode::set_as(t, &**inner)),
                    _ => f(&(&**inner).explicit(t)),
                }
            }
            Dyn::Seq(rep, v) => match rep {
                0 => f(v),
                1 => f(&SliceV(v.as_slice())),
                2 => tuple_of!(v, |t: &dyn DynValues| f(t)),
                3 => f(&encode::iter(v.iter())),
                _ => f(&encode::slice(v.as_slice(), |x: &Dyn| x.clone())),
            },
            Dyn::Opt(o) => f(&o.as_ref().map(|b| &**b)),
            Dyn::Choice(w, e) => match w {
                0 => f(&encode::Choice2::<&Dyn, encode::Nothing>::One(&**e)),
                1 => f(&encode::Choice2::<encode::Nothing, &Dyn>::Two(&**e)),
                2 => f(&encode::Choice3::<&Dyn, encode::Nothing, encode::Nothing>::One(&**e)),
                3 => f(&encode::Choice3::<encode::Nothing, &Dyn, encode::Nothing>::Two(&**e)),
                _ => f(&encode::Choice3::<encode::Nothing, encode::Nothing, &Dyn>::Three(&**e)),
            },
            Dyn::Nothing => f(&encode::Nothing),
            Dyn::Captured(cm, b) => f(&Captured::from_values(modeof(*cm), Raw(b))),
            Dyn::OctStr(c, n, dm, tlv) => {
                let os = crate::c16::take_os(*dm, Tag::OCTET_STRING, tlv).expect("generator produces decodable octet strings");
                let r = { let e = os.encode_ref_as(mk_tag(*c, *n)); f(&e) };
                r
            }
            Dyn::OctSlice(c, n, b) => f(&OctetString::encode_slice_as(b.as_slice(), mk_tag(*c, *n))),
            Dyn::BitSlice(c, n, u, b) => f(&BitString::encode_slice_as(b.as_slice(), *u, mk_tag(*c, *n))),
            Dyn::Wrapped(wm, e) => f(&OctetString::encode_wrapped(modeof(*wm), &**e)),
            Dyn::Int(c, n, ty, neg, mag) => { let t = mk_tag(*c, *n); with_int!(*ty, *neg, *mag, t, |v| f(&v)) }
            Dyn::Bool(c, n, b) => f(&b.encode_as(mk_tag(*c, *n))),
            Dyn::Null(c, n) => f(&().encode_as(mk_tag(*c, *n))),
            Dyn::Bits(c, n, u, b) => f(&BitString::new(*u, bytes::Bytes::copy_from_slice(b)).encode_as(mk_tag(*c, *n))),
        }
    }
}

/// the unsized `[V]: Values` impl, reached through a slice reference
struct SliceV<'a>(&'a [Dyn]);
impl<'a> Values for SliceV<'a> {
    fn encoded_len(&self, mode: Mode) -> usize { <[Dyn] as Values>::encoded_len(self.0, mode) }
    fn write_encoded<W: io::Write>(&self, mode: Mode, t: &mut W) -> Result<(), io::Error> { <[Dyn] as Values>::write_encoded(self.0, mode, t) }
}

/// object-safe view of `Values` (writes straight into the caller's target, whatever it is)
pub trait DynValues {
    fn dyn_len(&self, mode: Mode) -> usize;
    fn dyn_write(&self, mode: Mode, out: &mut dyn io::Write) -> Result<(), io::Error>;
}
impl<T: Values> DynValues for T {
    fn dyn_len(&self, mode: Mode) -> usize { self.encoded_len(mode) }
    fn dyn_write(&self, mode: Mode, out: &mut dyn io::Write) -> Result<(), io::Error> { let mut o = out; self.write_encoded(mode, &mut o) }
}

impl Values for Dyn {
    fn encoded_len(&self, mode: Mode) -> usize { self.with(&mut |v| v.dyn_len(mode)) }
    fn write_encoded<W: io::Write>(&self, mode: Mode, target: &mut W) -> Result<(), io::Error> {
        self.with(&mut |v| v.dyn_write(mode, &mut *target))
    }
}

// ---------- integer encoding of the tree (parse_enc in Streams.v) ----------
pub fn enc_dyn(d: &Dyn, out: &mut Vec<String>) {
    let mut p = |x: &dyn ToString| out.push(x.to_string());
    match d {
        Dyn::Prim(c, n, b) => { p(&0); p(c); p(n); p(&b.len()); for x in b { out.push(x.to_string()); } }
        Dyn::Cons(c, n, rep, e) => { p(&1); p(c); p(n); p(rep); enc_dyn(e, out); }
        Dyn::Seq(rep, v) => { p(&2); p(rep); p(&v.len()); for e in v { enc_dyn(e, out); } }
        Dyn::Opt(None) => { p(&3); p(&0); }
        Dyn::Opt(Some(e)) => { p(&3); p(&1); enc_dyn(e, out); }
        Dyn::Choice(w, e) => { p(&4); p(w); enc_dyn(e, out); }
        Dyn::Nothing => p(&5),
        Dyn::Captured(cm, b) => { p(&6); p(cm); p(&b.len()); for x in b { out.push(x.to_string()); } }
        Dyn::OctStr(c, n, dm, b) => { p(&7); p(c); p(n); p(dm); p(&b.len()); for x in b { out.push(x.to_string()); } }
        Dyn::OctSlice(c, n, b) => { p(&8); p(c); p(n); p(&b.len()); for x in b { out.push(x.to_string()); } }
        Dyn::BitSlice(c, n, u, b) => { p(&9); p(c); p(n); p(u); p(&b.len()); for x in b { out.push(x.to_string()); } }
        Dyn::Wrapped(wm, e) => { p(&10); p(wm); enc_dyn(e, out); }
        Dyn::Int(c, n, ty, neg, mag) => { p(&11); p(c); p(n); p(ty); out.push(crate::c14::val_string(*neg, *mag)); }
        Dyn::Bool(c, n, b) => { p(&12); p(c); p(n); p(&(*b as u8)); }
        Dyn::Null(c, n) => { p(&13); p(c); p(n); }
        Dyn::Bits(c, n, u, b) => { p(&15); p(c); p(n); p(u); p(&b.len()); for x in b { out.push(x.to_string()); } }
    }
}

// ---------- independent reference encoder ----------
/// None = a documented panic is expected (CER string encoders, incompatible
/// captured mode, content of 2^32 octets or more)
pub fn ref_encode(d: &Dyn, mode: u8) -> Option<Vec<u8>> {
    let tlv = |c: u8, n: u32, cons: bool, body: &[u8]| { let mut v = ref_ident(c, cons, n); v.extend(ref_len_octets(body.len())); v.extend_from_slice(body); v };
    Some(match d {
        Dyn::Prim(c, n, b) => tlv(*c, *n, false, b),
        Dyn::Cons(c, n, _, e) => {
            let body = ref_encode(e, mode)?;
            if mode == 1 { let mut v = ref_ident(*c, true, *n); v.push(0x80); v.extend(body); v.extend_from_slice(&[0, 0]); v } else { tlv(*c, *n, true, &body) }
        }
        Dyn::Seq(_, v) => { let mut o = Vec::new(); for e in v { o.extend(ref_encode(e, mode)?); } o }
        Dyn::Opt(None) | Dyn::Nothing => vec![],
        Dyn::Opt(Some(e)) | Dyn::Choice(_, e) => ref_encode(e, mode)?,
        Dyn::Captured(cm, b) => { if *cm != mode && mode != 0 { return None } b.clone() }
        Dyn::OctStr(c, n, _, t) => {
            if mode == 1 { return None }
            let (ts, _) = crate::gen::ref_parse_seq(0, t, crate::gen::Ctx::Top, 0)?;
            match (&ts[0], mode) {
                (crate::gen::RTlv::Prim(_, b), _) => tlv(*c, *n, false, b),
                (crate::gen::RTlv::Cons(..), 2) => { fn flat(t: &crate::gen::RTlv, o: &mut Vec<u8>) { match t { crate::gen::RTlv::Prim(_, b) => o.extend(b), crate::gen::RTlv::Cons(_, k) => for x in k { flat(x, o) } } } let mut o = Vec::new(); flat(&ts[0], &mut o); tlv(*c, *n, false, &o) }
                _ => {
                    // BER keeps the captured content: everything after the outer header
                    let hdr = 1 + if t[1] < 0x80 || t[1] == 0x80 { 1 } else { 1 + (t[1] & 0x7f) as usize };
                    tlv(*c, *n, true, &t[hdr..])
                }
            }
        }
        Dyn::OctSlice(c, n, b) => { if mode == 1 { return None } tlv(*c, *n, false, b) }
        Dyn::BitSlice(c, n, u, b) | Dyn::Bits(c, n, u, b) => {
            if mode == 1 && matches!(d, Dyn::BitSlice(..)) { return None }
            let mut body = vec![*u]; body.extend(b); tlv(*c, *n, false, &body) }
        Dyn::Wrapped(wm, e) => { if mode == 1 { return None } let body = ref_encode(e, *wm)?; tlv(0, 4, false, &body) }
        Dyn::Int(c, n, _, neg, mag) => tlv(*c, *n, false, &crate::c14::ref_tc_min(*neg, *mag)),
        Dyn::Bool(c, n, b) => tlv(*c, *n, false, &[if *b { 0xff } else { 0 }]),
        Dyn::Null(c, n) => tlv(*c, *n, false, &[]),
    })
}
