//! C10: skipping accepts exactly what reading accepts and advances identically.

use crate::common::*;
use crate::gen::*;
use crate::prog::*;
use bcder::decode::Constructed;
use crate::c02::{prog_case, wrap, in_ctx, ctx_ok};

/// preorder (identifier octets, depth) of a value
fn preorder(t: &RTlv, depth: i128, out: &mut Vec<i128>) -> i128 {
    match t {
        RTlv::Prim(id, _) => { out.push(id.len() as i128); for b in id { out.push(*b as i128); } out.push(depth); 1 }
        RTlv::Cons(id, kids) => {
            out.push(id.len() as i128); for b in id { out.push(*b as i128); } out.push(depth);
            let mut n = 1; for k in kids { n += preorder(k, depth + 1, out); } n
        }
    }
}

/// oracle: compare the skipping program with the corresponding reading program on the implementation
fn skip_vs_read(mode: u8, data: &[u8], ctx: Ctx, j: usize, variant: u8, obs: &[i128]) -> Oracle {
    let pre: Vec<Prog> = (0..j).map(|_| Prog::Take { opt: true, kind: 0, exp: None, body: Body::Generic }).collect();
    let mut rd = pre.clone();
    match variant {
        0 | 2 => rd.push(Prog::Take { opt: true, kind: 0, exp: None, body: Body::Generic }),
        1 => rd.push(Prog::Take { opt: false, kind: 0, exp: None, body: Body::Generic }),
        _ => {}
    }
    rd.push(Prog::ReadAll);
    let rd = in_ctx(ctx, rd);
    let r = run_slice(mode, &rd, data);
    if obs.first() == Some(&3) { return Oracle::Fail("panic".into()) }
    // independent of the library's own reader: a skipping program that ends with "read all" succeeds at
    // the top level only on input that is a sequence of well-formed values (reference parser)
    if ctx == Ctx::Top && obs.first() == Some(&0) {
        match ref_parse_seq(mode, data, Ctx::Top, 0) { Some((_, used)) if used == data.len() => {}, _ => return Oracle::Fail("skipping-accepts-malformed-input".into()) }
    }
    if r.first() != obs.first() { return Oracle::Fail("skip-and-read-disagree-on-acceptance".into()) }
    if r.first() == Some(&0) && r[1] != obs[1] { return Oracle::Fail("skip-and-read-advance-differently".into()) }
    if variant == 3 {
        // the program language spells skip_all as a loop of skip_one (to count); the library's own
        // skip_all must agree with reading as well
        let real = catch(|| {
            let mut src = bcder::decode::SliceSource::new(data);
            let body = |c: &mut Constructed<&mut bcder::decode::SliceSource>| -> Result<(), bcder::decode::DecodeError<std::convert::Infallible>> {
                let mut l = Vec::new(); exec(&pre, c, &mut l)?; c.skip_all()?; exec(&[Prog::ReadAll], c, &mut l) };
            let r = match ctx { Ctx::Top => Constructed::decode(&mut src, mode_of(mode), body),
                                _ => Constructed::decode(&mut src, mode_of(mode), |c| c.take_constructed_if(bcder::Tag::SEQUENCE, body)) };
            (r.is_ok(), src.len())
        });
        match real {
            None => return Oracle::Fail("skip_all-panics".into()),
            Some((ok, left)) => {
                if ok != (r.first() == Some(&0)) { return Oracle::Fail("skip_all-and-read-disagree-on-acceptance".into()) }
                if ok && left as i128 != r[1] { return Oracle::Fail("skip_all-and-read-advance-differently".into()) }
            }
        }
    }
    Oracle::Pass
}

pub fn run(em: &mut Emitter, rng: &mut Rng, thorough: bool) {
    let ctxs = [Ctx::Top, Ctx::Definite, Ctx::Indefinite];
    // after an explicit mode switch inside a value: skipping and reading still agree, value by value and at the
    // end of the value (the end-of-contents of an indefinite-length value read under DER rules included)
    for outer in 0..3u8 { for inner in 0..3u8 { for ctx in [Ctx::Definite, Ctx::Indefinite] {
        if !ctx_ok(outer, ctx) { continue }
        for members in [&[0x02u8, 0x01, 0x01, 0x30, 0x02, 0x05, 0x00][..], &[], &[0x04, 0x01, 0xaa], &[0x30, 0x80, 0x05, 0x00, 0x00, 0x00], &[0x02, 0x81, 0x01, 0x05]] {
            let data = wrap(ctx, members);
            for k in 0..4usize {
                let skipping: Vec<Prog> = std::iter::once(Prog::SetMode(inner)).chain((0..k).map(|_| Prog::Skip { variant: 2, fk: 0, fa: 0, fb: 0 })).chain(std::iter::once(Prog::Skip { variant: 3, fk: 0, fa: 0, fb: 0 })).collect();
                let reading: Vec<Prog> = std::iter::once(Prog::SetMode(inner)).chain((0..k).map(|_| Prog::Take { opt: true, kind: 0, exp: None, body: Body::Generic })).chain(std::iter::once(Prog::ReadAll)).collect();
                let (ps, pr) = (in_ctx(ctx, skipping), in_ctx(ctx, reading));
                let d2 = data.clone();
                prog_case(em, 1001, outer, &ps, &data, move |obs| {
                    let r = run_slice(outer, &pr, &d2);
                    if obs.first() == Some(&3) || r.first() == Some(&3) { Oracle::Fail("panic".into()) }
                    else if (obs.first() == Some(&0)) != (r.first() == Some(&0)) { Oracle::Fail("skipping-and-reading-disagree-after-a-mode-switch".into()) } else { Oracle::Pass }
                }, true);
            }
        }
    }}}
    for _ in 0..(if thorough { 240_000 } else { 6_000 }) {
        let mode = rng.below(3) as u8;
        let ctx = *rng.pick(&ctxs);
        if !ctx_ok(mode, ctx) { continue }
        let forest = random_forest(rng, mode, 3);
        let inner = encode_forest(&forest, mode, &mut Some(rng));
        let data = wrap(ctx, &inner);
        let ts = match ref_parse_seq(mode, &inner, Ctx::Top, 0) { Some((ts, u)) if u == inner.len() => ts, _ => continue };
        for j in 0..=ts.len() {
            for variant in 0..4u8 {
                let mut ps: Vec<Prog> = (0..j).map(|_| Prog::Take { opt: true, kind: 0, exp: None, body: Body::Generic }).collect();
                ps.push(Prog::Skip { variant, fk: 0, fa: 0, fb: 0 });
                ps.push(Prog::ReadAll);
                let ps = in_ctx(ctx, ps);
                let (d2, ts2) = (data.clone(), ts.clone());
                prog_case(em, 1001, mode, &ps, &data, move |obs| {
                    let o = skip_vs_read(mode, &d2, ctx, j, variant, obs);
                    if !matches!(o, Oracle::Pass) { return o }
                    // well-formed input: exact expected log
                    let mut w: Vec<i128> = vec![0, 0];
                    if ctx != Ctx::Top { w.extend_from_slice(&[1, 1, 0x30]); }
                    for t in &ts2[..j] { w.push(1); crate::c09::push_generic(t, &mut w); }
                    let next = ts2.get(j);
                    match variant {
                        0 | 1 => match next {
                            Some(t) => { w.push(1); let mut tr = Vec::new(); let n = preorder(t, 0, &mut tr); w.push(n); w.extend(tr); w.extend(rtlvs_to_log(&ts2[j + 1..])); }
                            None => { if variant == 1 { return if obs == [1] { Oracle::Pass } else { Oracle::Fail("mandatory-skip-at-end".into()) } } w.extend_from_slice(&[0, 0]); w.push(0); }
                        },
                        2 => match next { Some(_) => { w.push(1); w.extend(rtlvs_to_log(&ts2[j + 1..])); } None => { w.push(0); w.push(0); } },
                        _ => { w.push((ts2.len() - j) as i128); w.push(0); }
                    }
                    if obs == w.as_slice() { Oracle::Pass } else { Oracle::Fail("skip-trace-or-position-differs-from-reference".into()) }
                }, true);
            }
            // filters: only one tag accepted / depth limit / primitives only
            let (fk, fa, fb) = match rng.below(3) { 0 => { let (c, n) = random_tag(rng); (1u8, c as u32, n) }, 1 => (2, rng.below(3) as u32, 0), _ => (3, 0, 0) };
            let mut ps: Vec<Prog> = (0..j).map(|_| Prog::Take { opt: true, kind: 0, exp: None, body: Body::Generic }).collect();
            ps.push(Prog::Skip { variant: rng.below(2) as u8, fk, fa, fb });
            ps.push(Prog::ReadAll);
            let ps = in_ctx(ctx, ps);
            prog_case(em, 1001, mode, &ps, &data, |obs| if obs.first() == Some(&3) { Oracle::Fail("panic".into()) } else { Oracle::None }, true);
        }
        // malformed inputs: skip succeeds iff reading succeeds, same position
        for _ in 0..4 {
            let bad = mutate(rng, &data);
            let j = rng.below(2) as usize;
            let variant = rng.below(4) as u8;
            let mut ps: Vec<Prog> = (0..j).map(|_| Prog::Take { opt: true, kind: 0, exp: None, body: Body::Generic }).collect();
            ps.push(Prog::Skip { variant, fk: 0, fa: 0, fb: 0 });
            ps.push(Prog::ReadAll);
            let ps = in_ctx(ctx, ps);
            let b2 = bad.clone();
            prog_case(em, 1001, mode, &ps, &bad, move |obs| skip_vs_read(mode, &b2, ctx, j, variant, obs), true);
        }
    }
    // the classic divergences and short strings
    for mode in 0..3u8 {
        for d in [vec![0x20u8, 0], vec![0x30, 0], vec![0x30, 0x80, 0, 0], vec![0x30, 0x80, 0x20, 0, 0, 0], vec![0, 0], vec![], vec![0x30, 0x04, 0x02, 0x05, 0, 0],
                  vec![0x30, 0x0a, 0x30, 0x80, 2, 1, 0, 2, 1, 0, 0, 0], vec![0x30, 0x80, 0x30, 0x06, 2, 1, 0, 2, 1, 0, 0, 0], vec![0x30, 0x80, 0x30, 0x80, 0, 0, 0, 0],
                  vec![0x30, 0x02, 0x30, 0x00], vec![0x30, 0x03, 0x30, 0x00, 0x00], vec![0x04, 0x80], vec![0x30, 0x81, 0x00], vec![0x30, 0x80, 0x00, 0x81, 0x00]] {
            for variant in 0..4u8 {
                let ps = vec![Prog::Skip { variant, fk: 0, fa: 0, fb: 0 }, Prog::ReadAll];
                let d2 = d.clone();
                prog_case(em, 1001, mode, &ps, &d, move |obs| skip_vs_read(mode, &d2, Ctx::Top, 0, variant, obs), true);
            }
        }
    }
    for _ in 0..(if thorough { 800_000 } else { 20_000 }) {
        let mode = rng.below(3) as u8;
        let n = rng.range(0, 10) as usize;
        let mut d = rng.bytes(n);
        for b in d.iter_mut() { if rng.chance(1, 2) { *b = *rng.pick(&[0x00u8, 0x01, 0x02, 0x04, 0x30, 0x80, 0x81, 0x1f, 0x20, 0x03]); } }
        let variant = rng.below(4) as u8;
        let ps = vec![Prog::Skip { variant, fk: 0, fa: 0, fb: 0 }, Prog::ReadAll];
        let d2 = d.clone();
        prog_case(em, 1001, mode, &ps, &d, move |obs| skip_vs_read(mode, &d2, Ctx::Top, 0, variant, obs), !d.is_empty());
    }
    // deep nesting on a small stack: no call-stack space proportional to depth
    for &depth in &(if thorough { vec![1000usize, 20_000, 100_000] } else { vec![1000usize, 20_000] }) {
        for form in 0..3u8 {
            let mode = if form == 1 { 0 } else { 0 };
            let mut d: Vec<u8> = Vec::new();
            let mut tail: Vec<u8> = Vec::new();
            if form == 0 {
                // definite nesting: build from the inside
                let mut cur: Vec<u8> = vec![5, 0];
                for _ in 0..depth.min(3000) { let mut v = vec![0x30]; v.extend(ref_len_octets(cur.len())); v.extend(cur); cur = v; }
                d = cur;
            } else {
                for i in 0..depth { if form == 2 && i % 2 == 1 && false { } d.extend_from_slice(&[0x30, 0x80]); tail.extend_from_slice(&[0, 0]); }
                d.extend_from_slice(&[5, 0]); d.extend(tail);
            }
            let dd = d.clone();
            em.case(1002, &[num_arg(form), num_arg(depth)], move || {
                let h = std::thread::Builder::new().stack_size(256 * 1024).spawn(move || {
                    use bcder::decode::{Constructed, IntoSource};
                    let r = Constructed::decode(dd.as_slice().into_source(), mode_of(mode), |cons| { let r = cons.skip_one()?; Ok(r.is_some()) });
                    matches!(r, Ok(true))
                }).unwrap();
                let ok = h.join().unwrap_or(false);
                (Ints::new().b(true), if ok { Oracle::Pass } else { Oracle::Fail("deep-nesting-skip".into()) }, true)
            });
        }
    }
}
