//! C13: length octets written minimally and read back exactly, per mode.

use crate::common::*;
use bcder::decode::{Constructed, IntoSource};
use bcder::{encode, Mode, Tag};

/// Independent reference: shortest definite form (X.690 8.1.3).
fn ref_min_len(n: u64) -> Vec<u8> {
    if n < 128 { return vec![n as u8] }
    let mut ds = Vec::new();
    let mut v = n;
    while v > 0 { ds.insert(0, (v & 0xff) as u8); v >>= 8; }
    let mut r = vec![0x80 | ds.len() as u8];
    r.extend(ds);
    r
}

/// Independent reference reader: Some(Some(n)) definite, Some(None)
/// indefinite, None rejected.
fn ref_read(mode: u8, d: &[u8]) -> Option<Option<u64>> {
    let b0 = *d.first()?;
    if b0 < 0x80 { return Some(Some(b0 as u64)) }
    if b0 == 0x80 { return Some(None) }
    let k = (b0 & 0x7f) as usize;
    if k > 4 || d.len() < 1 + k { return None }
    let mut v = 0u64;
    for &x in &d[1..1 + k] { v = (v << 8) | x as u64; }
    if mode != 0 && ref_min_len(v) != d[..1 + k] { return None }
    Some(Some(v))
}

/// What the implementation reads for the length octets `d` in `mode`:
/// (primitive closure invoked, remaining() seen, constructed closure invoked)
fn probe_read(mode: u8, d: &[u8]) -> Option<(bool, usize, bool)> {
    catch(|| {
        let mut p_inv = false;
        let mut p_rem = 0usize;
        let mut data = vec![0x04u8];
        data.extend_from_slice(d);
        let _ = Constructed::decode(data.as_slice().into_source(), mode_of(mode), |cons| {
            cons.take_opt_primitive(|_, prim| {
                p_inv = true;
                p_rem = prim.remaining();
                Ok(())
            })
        });
        let mut c_inv = false;
        let mut data = vec![0x30u8];
        data.extend_from_slice(d);
        let _ = Constructed::decode(data.as_slice().into_source(), mode_of(mode), |cons| {
            cons.take_opt_constructed(|_, _| {
                c_inv = true;
                Ok(())
            })
        });
        (p_inv, p_rem, c_inv)
    })
}

fn write_case(em: &mut Emitter, n: u64) {
    em.case(1301, &[num_arg(n)], || {
        let n = n as usize;
        let el = catch(|| encode::total_encoded_len(Tag::NULL, n));
        let wr = catch(|| {
            let mut v = Vec::new();
            encode::write_header(&mut v, Tag::NULL, false, n).unwrap();
            v
        });
        let mut obs = Ints::new();
        match el {
            Some(t) => { obs = obs.n(R_OK).n(t as i128 - 1 - n as i128); }
            None => { obs = obs.n(R_PANIC); }
        }
        let mut oracle = Oracle::Pass;
        match wr {
            Some(ref v) => {
                obs = obs.n(R_OK).bytes(&v[1..]);
                // direct oracle: minimal form, size reported, read back in every mode
                let lo = &v[1..];
                let awkward = awkward_targets(v, 1 + n % 3, &|t| { let mut t = t; encode::write_header(&mut t, Tag::NULL, false, n) });
                if lo != ref_min_len(n as u64).as_slice() {
                    oracle = Oracle::Fail("write-not-minimal".into());
                } else if let Some(what) = awkward {
                    oracle = Oracle::Fail(format!("header: {}", what));
                } else if el.map(|t| t - 1 - n) != Some(lo.len()) {
                    oracle = Oracle::Fail("reported-size".into());
                } else {
                    for m in 0..3u8 {
                        match probe_read(m, lo) {
                            Some((true, r, _)) if r == n => {}
                            _ => { oracle = Oracle::Fail(format!("read-back-mode{}", m)); }
                        }
                    }
                }
            }
            None => { obs = obs.n(R_PANIC); oracle = Oracle::Fail("write-panicked".into()); }
        }
        (obs, oracle, true)
    });
}

/// The length octets of an end-of-contents marker obey the same rules as any other length: `d` (an
/// encoding of zero) closes an indefinite SEQUENCE read by a closure that takes its one field and returns,
/// and by one that polls for a further value.
fn eoc_marker_accepted(mode: u8, d: &[u8]) -> Option<(bool, bool)> {
    catch(|| {
        let mut data = vec![0x30u8, 0x80, 0x02, 0x01, 0x05, 0x00]; data.extend_from_slice(d);
        let fixed = Constructed::decode(data.as_slice().into_source(), mode_of(mode), |cons| cons.take_sequence(|c| c.take_u8())).is_ok();
        let polled = Constructed::decode(data.as_slice().into_source(), mode_of(mode), |cons| cons.take_sequence(|c| {
            let v = c.take_u8()?; if c.take_opt_u8()?.is_some() { return Err(c.content_err("more")) } Ok(v) })).is_ok();
        (fixed, polled)
    })
}

fn read_case(em: &mut Emitter, mode: u8, d: &[u8]) {
    em.case(1302, &[num_arg(mode), bytes_arg(d)], || {
        let zero_form = match d { [0] => true, [b0, rest @ ..] if (0x81..=0x84).contains(b0) && rest.len() == (*b0 - 0x80) as usize && rest.iter().all(|&x| x == 0) => true, _ => false };
        if zero_form {
            let want = mode == 0 || (mode == 1 && d == [0]);
            if eoc_marker_accepted(mode, d) != Some((want, want)) {
                return (Ints::new().n(-7), Oracle::Fail("end-of-contents-length-octets-not-read-under-the-mode".into()), true)
            }
        } else if !d.is_empty() && !(d[0] == 0 || ((0x81..=0x84).contains(&d[0]) && d.len() > (d[0] - 0x80) as usize && d[1..=(d[0] - 0x80) as usize].iter().all(|&x| x == 0)))
                  && eoc_marker_accepted(mode, d) != Some((false, false)) {
            // anything that is not an encoding of zero (the indefinite form 0x80 included) never closes a value
            return (Ints::new().n(-7), Oracle::Fail("length-octets-other-than-zero-accepted-as-end-of-contents".into()), true)
        }
        let r = probe_read(mode, d);
        let (obs, oracle) = match r {
            Some((p, n, c)) => {
                let obs = Ints::new().b(p).n(if p { n } else { 0 }).b(c);
                let exp = ref_read(mode, d);
                let ok = match exp {
                    Some(Some(v)) => p && n as u64 == v && c == (mode != 1),
                    Some(None) => !p && c == (mode != 2),
                    None => !p && !c,
                };
                (obs, if ok { Oracle::Pass } else { Oracle::Fail("reader-table".into()) })
            }
            None => (Ints::new().n(-1), Oracle::Fail("panic".into())),
        };
        (obs, oracle, d.len() >= 1)
    });
}

const BND: [u8; 6] = [0x00, 0x01, 0x7f, 0x80, 0x81, 0xff];

fn all_tails(len: usize, f: &mut dyn FnMut(&[u8])) {
    let mut idx = vec![0usize; len];
    loop {
        let t: Vec<u8> = idx.iter().map(|&i| BND[i]).collect();
        f(&t);
        let mut k = 0;
        loop {
            if k == len { return }
            idx[k] += 1;
            if idx[k] < BND.len() { break }
            idx[k] = 0;
            k += 1;
        }
    }
}

pub fn run(em: &mut Emitter, rng: &mut Rng, thorough: bool) {
    // ---- writer ----
    let dense: u64 = if thorough { 1 << 24 } else { 1 << 17 };
    for n in 0..dense { write_case(em, n); }
    for &c in &[1u64 << 7, 1 << 8, 1 << 16, 1 << 24, 1 << 32] {
        for d in 0..=600u64 {
            let n = (c + d).saturating_sub(300);
            if n < (1u64 << 32) { write_case(em, n); }
        }
    }
    for _ in 0..(if thorough { 1_000_000 } else { 100_000 }) {
        let bits = rng.range(1, 32);
        write_case(em, rng.next() & ((1u64 << bits) - 1));
    }
    // ---- reader ----
    for mode in 0..3u8 {
        read_case(em, mode, &[]);
        for b0 in 0..=255u8 {
            let full = thorough || (0x81..=0x85).contains(&b0);
            for len in 0..=5usize {
                if full || len <= 2 {
                    all_tails(len, &mut |t| {
                        let mut d = vec![b0];
                        d.extend_from_slice(t);
                        read_case(em, mode, &d);
                    });
                } else {
                    for _ in 0..20 {
                        let mut d = vec![b0];
                        for _ in 0..len {
                            d.push(if rng.bool() { *rng.pick(&BND) } else { rng.byte() });
                        }
                        read_case(em, mode, &d);
                    }
                }
            }
        }
        // random long forms
        for _ in 0..(if thorough { 300_000 } else { 30_000 }) {
            let k = rng.range(1, 5) as u8;
            let mut d = vec![0x80 | k];
            let have = if rng.chance(1, 5) { rng.below(k as u64) as usize } else { k as usize + rng.below(2) as usize };
            for i in 0..have {
                d.push(if i == 0 && rng.chance(1, 3) { 0 } else { rng.byte() });
            }
            read_case(em, mode, &d);
        }
    }
}
