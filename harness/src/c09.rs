//! C09: optional and tag-selective reads consume nothing when the value is absent.

use crate::common::*;
use crate::gen::*;
use crate::prog::*;
use crate::c02::{prog_case, wrap, in_ctx, ctx_ok};
use crate::c12::ref_ident;

fn ident_of(t: &RTlv) -> (&Vec<u8>, bool) { match t { RTlv::Prim(id, _) => (id, false), RTlv::Cons(id, _) => (id, true) } }

/// expected observation of  [generic x j] ++ [op] ++ [ReadAll]  on a well-formed forest
fn expected(ts: &[RTlv], j: usize, opt: bool, kind: u8, exp: Option<(u8, u32)>, ctx: Ctx) -> Option<Vec<i128>> {
    // Some(log after header "0 left") or None = error expected
    let mut log: Vec<i128> = Vec::new();
    if ctx != Ctx::Top { log.extend_from_slice(&[1, 1, 0x30]); }
    if j > ts.len() { return None }  // not generated
    for t in &ts[..j] { log.push(1); push_generic(t, &mut log); }
    let next = ts.get(j);
    let mut rest_from = j;
    match next {
        None => { if opt { log.push(0); } else { return None } }
        Some(t) => {
            let (id, cons) = ident_of(t);
            let mut plain = id.clone(); plain[0] &= !0x20;
            let matches = match exp { None => true, Some((c, n)) => ref_ident(c, false, n) == plain };
            if !matches { if opt { log.push(0); } else { return None } }
            else {
                if (kind == 1 && cons) || (kind == 2 && !cons) { return None }
                log.push(1); push_generic(t, &mut log); rest_from = j + 1;
            }
        }
    }
    log.extend(rtlvs_to_log(&ts[rest_from..]));
    Some(log)
}
/// log of `Take generic` for one value: tag, then 0 bytes / 1 kids
pub fn push_generic(t: &RTlv, log: &mut Vec<i128>) {
    match t {
        RTlv::Prim(id, c) => { log.push(id.len() as i128); for b in id { log.push(*b as i128); } log.push(0); log.push(c.len() as i128); for b in c { log.push(*b as i128); } }
        RTlv::Cons(id, kids) => { log.push(id.len() as i128); for b in id { log.push(*b as i128); } log.push(1); log.extend(rtlvs_to_log(kids)); }
    }
}

/// 902: a typed reader where its value is ABSENT - the input or the enclosing SEQUENCE ends, or a value
/// with a foreign (private) tag stands there. The mandatory readers must fail; the optional ones must
/// report absence, and the foreign value is then still there to be read.
fn absent_case(em: &mut Emitter, which: u8, mode: u8, shape: u8, follower: bool) {
    use bcder::decode::{Constructed, IntoSource};
    let sib: &[u8] = if follower { &[0xdf, 0x7f, 0x01, 0x00] } else { &[] };
    let data: Vec<u8> = match shape {
        0 => sib.to_vec(),
        1 => { let mut v = vec![0x30, sib.len() as u8]; v.extend_from_slice(sib); v }
        _ => { let mut v = vec![0x30, 0x80]; v.extend_from_slice(sib); v.extend_from_slice(&[0, 0]); v }
    };
    em.case(902, &[num_arg(which), num_arg(mode), num_arg(shape), num_arg(follower as u8), bytes_arg(&data)], || {
        fn body<S: bcder::decode::Source>(which: u8, follower: bool, c: &mut Constructed<S>) -> Result<(), bcder::decode::DecodeError<S::Error>> {
            crate::c14::typed_leaf(which, c)?;
            if follower { c.take_primitive_if(bcder::Tag::private(127), |p| p.skip_all())?; }
            Ok(())
        }
        let r = catch(|| Constructed::decode(data.as_slice().into_source(), mode_of(mode), |c| {
            if shape == 0 { body(which, follower, c) } else { c.take_sequence(|k| body(which, follower, k)) }
        }).is_ok());
        let optional = (20..=22).contains(&which);
        let orc = match r {
            None => Oracle::Fail("panic".into()),
            Some(ok) if ok == optional => Oracle::Pass,
            Some(true) => Oracle::Fail("mandatory-read-of-an-absent-value-succeeds".into()),
            Some(false) => Oracle::Fail("optional-read-of-an-absent-value-fails-or-loses-what-follows".into()),
        };
        (Ints::new().n(1), orc, true)
    });
}

pub fn run(em: &mut Emitter, rng: &mut Rng, thorough: bool) {
    for which in 0..28u8 { for mode in 0..3u8 { for shape in 0..3u8 { for follower in [false, true] {
        if (shape == 2 && mode == 2) || (shape == 1 && mode == 1) { continue }   // DER: definite only; CER: indefinite only
        // the readers that take a value of any tag find the foreign value: not an absence
        if follower && (24..=27).contains(&which) { continue }
        absent_case(em, which, mode, shape, follower);
    }}}}
    let ctxs = [Ctx::Top, Ctx::Definite, Ctx::Indefinite];
    for _ in 0..(if thorough { 40_000 } else { 5_000 }) {
        let mode = rng.below(3) as u8;
        let ctx = *rng.pick(&ctxs);
        if !ctx_ok(mode, ctx) { continue }
        let forest = random_forest(rng, mode, 3);
        let inner = encode_forest(&forest, mode, &mut Some(rng));
        let data = wrap(ctx, &inner);
        let ts = match ref_parse_seq(mode, &inner, Ctx::Top, 0) { Some((ts, u)) if u == inner.len() => ts, _ => continue };
        for j in 0..=ts.len() {
            // expected-tag choices relative to the value at position j
            let mut exps: Vec<Option<(u8, u32)>> = vec![None, Some((0, 0)), Some(random_tag(rng))];
            if let Some(Node::Prim { cls, num, .. }) | Some(Node::Cons { cls, num, .. }) = forest.get(j) {
                exps.push(Some((*cls, *num)));
                exps.push(Some(((*cls + 1) % 4, *num)));
                exps.push(Some((*cls, if *num > 31 { *num ^ 1 } else { *num + 1 })));
                exps.push(Some((*cls, *num ^ 0x80)));
            }
            for exp in exps {
                for kind in 0..3u8 { for opt in [true, false] {
                    if !thorough && rng.chance(1, 2) { continue }
                    let mut ps: Vec<Prog> = (0..j).map(|_| Prog::Take { opt: true, kind: 0, exp: None, body: Body::Generic }).collect();
                    ps.push(Prog::Take { opt, kind, exp, body: Body::Generic });
                    ps.push(Prog::ReadAll);
                    let ps = in_ctx(ctx, ps);
                    let want = expected(&ts, j, opt, kind, exp, ctx);
                    let left = if ctx == Ctx::Top { 0 } else { 0 };
                    prog_case(em, 901, mode, &ps, &data, move |obs| {
                        match (obs.first(), want) {
                            (Some(0), Some(w)) => { let mut full = vec![0i128, left]; full.extend(w); if obs == full.as_slice() { Oracle::Pass } else { Oracle::Fail("absent-or-present-differs-from-reference".into()) } }
                            (Some(1), None) => Oracle::Pass,
                            (Some(0), None) => Oracle::Fail("success-where-error-expected".into()),
                            (Some(1), Some(_)) => Oracle::Fail("error-where-success-expected".into()),
                            _ => Oracle::Fail("panic".into()),
                        }
                    }, true);
                }}
            }
        }
        // after absence the same position can be read under another expectation
        if !ts.is_empty() {
            let j = rng.below(ts.len() as u64) as usize;
            let wrong = Some((3u8, 777u32));
            let mut ps: Vec<Prog> = (0..j).map(|_| Prog::Take { opt: true, kind: 0, exp: None, body: Body::Generic }).collect();
            for kind in 0..3u8 { ps.push(Prog::Take { opt: true, kind, exp: wrong, body: Body::Generic }); }
            ps.push(Prog::ReadAll);
            let ps = in_ctx(ctx, ps);
            let ts2 = ts.clone();
            prog_case(em, 901, mode, &ps, &data, move |obs| {
                let mut w: Vec<i128> = vec![0, 0];
                if ctx != Ctx::Top { w.extend_from_slice(&[1, 1, 0x30]); }
                for t in &ts2[..j] { w.push(1); push_generic(t, &mut w); }
                w.extend_from_slice(&[0, 0, 0]);
                w.extend(rtlvs_to_log(&ts2[j..]));
                if obs == w.as_slice() { Oracle::Pass } else { Oracle::Fail("absence-consumed-something".into()) }
            }, true);
        }
        // after the end of a parent has been observed (an untagged optional read reported absence -
        // inside an indefinite value that consumed its end-of-contents), tag-selective reads for
        // the tag of the parent's NEXT SIBLING must still report absence and leave the sibling alone
        if ctx != Ctx::Top {
            let (scls, snum) = random_tag(rng);
            let sib = Node::Prim { cls: scls, num: snum, content: vec![0xff] };
            let sib_enc = encode_forest(&[sib], mode, &mut None);
            let mut d2 = data.clone(); d2.extend_from_slice(&sib_enc);
            let sib_t = match ref_parse_seq(mode, &sib_enc, Ctx::Top, 0) { Some((v, _)) if v.len() == 1 => v[0].clone(), _ => continue };
            let mut inner_ps: Vec<Prog> = (0..ts.len()).map(|_| Prog::Take { opt: false, kind: 0, exp: None, body: Body::Generic }).collect();
            inner_ps.push(Prog::Take { opt: true, kind: 0, exp: None, body: Body::Generic });
            for kind in 0..3u8 { inner_ps.push(Prog::Take { opt: true, kind, exp: Some((scls, snum)), body: Body::Generic }); }
            inner_ps.push(Prog::Take { opt: true, kind: 1, exp: Some((scls, snum)), body: Body::Typed(10) });
            let ps = vec![Prog::Take { opt: false, kind: 2, exp: Some((0, 16)), body: Body::Prog(inner_ps) },
                          Prog::Take { opt: true, kind: 0, exp: None, body: Body::Generic }, Prog::ReadAll];
            let ts3 = ts.clone();
            prog_case(em, 901, mode, &ps, &d2, move |obs| {
                let mut w: Vec<i128> = vec![0, 0, 1, 1, 0x30];
                for t in &ts3 { w.push(1); push_generic(t, &mut w); }
                w.extend_from_slice(&[0, 0, 0, 0, 0]);
                w.push(1); push_generic(&sib_t, &mut w);
                w.push(0);
                if obs == w.as_slice() { Oracle::Pass } else { Oracle::Fail("absence-after-end-of-parent-touched-the-sibling".into()) }
            }, true);
        }
        // a damaged end-of-contents marker is not the end of the enclosing value, whichever optional read
        // polls for it (reference parser decides: 00 81 00 is a legal marker in BER only)
        if ctx == Ctx::Indefinite && mode != 2 {
            for term in [vec![0x00u8, 0x80], vec![0x20, 0x00], vec![0x00, 0x01, 0x00], vec![0x00, 0x81, 0x00], vec![0x00, 0x82, 0x00, 0x00]] {
                let mut v = data[..data.len() - 2].to_vec(); v.extend(&term);
                for last in [Prog::Take { opt: true, kind: 0, exp: None, body: Body::Generic }, Prog::Take { opt: true, kind: 1, exp: None, body: Body::Generic },
                             Prog::Take { opt: true, kind: 2, exp: None, body: Body::Generic }, Prog::Take { opt: true, kind: 0, exp: Some((2, 5)), body: Body::Generic },
                             Prog::Skip { variant: 0, fk: 0, fa: 0, fb: 0 }] {
                    let mut inner: Vec<Prog> = (0..ts.len()).map(|_| Prog::Take { opt: false, kind: 0, exp: None, body: Body::Generic }).collect();
                    inner.push(last);
                    let ps = in_ctx(ctx, inner);
                    let v2 = v.clone();
                    prog_case(em, 901, mode, &ps, &v, move |obs| {
                        let good = ref_parse_seq(mode, &v2, Ctx::Top, 0).map(|(_, u)| u == v2.len()).unwrap_or(false);
                        match obs.first() { Some(0) if !good => Oracle::Fail("damaged-end-of-contents-accepted-as-the-end".into()), Some(1) if good => Oracle::Fail("legal-end-of-contents-rejected".into()), Some(3) => Oracle::Fail("panic".into()), _ => Oracle::Pass }
                    }, true);
                }
            }
        }
        // at the top level only the end of the INPUT is the end of the values: an indefinite value whose
        // end-of-contents is missing is not "absent", whichever optional read meets it
        if ctx == Ctx::Indefinite && mode != 2 {
            let cut = data[..data.len() - 2].to_vec();
            for p in [Prog::Skip { variant: 0, fk: 0, fa: 0, fb: 0 }, Prog::Skip { variant: 2, fk: 0, fa: 0, fb: 0 }, Prog::Skip { variant: 3, fk: 0, fa: 0, fb: 0 },
                      Prog::Take { opt: true, kind: 0, exp: None, body: Body::Generic }, Prog::Take { opt: true, kind: 2, exp: Some((0, 16)), body: Body::Generic }, Prog::CaptureAll] {
                prog_case(em, 901, mode, &[p], &cut, |obs| match obs.first() { Some(1) => Oracle::Pass, Some(0) => Oracle::Fail("unterminated-value-reported-as-read-or-absent".into()), _ => Oracle::Fail("panic".into()) }, true);
            }
        }
        // the SEQUENCE / SET shortcuts are the tagged constructed reads with Tag::SEQUENCE / Tag::SET
        {
            use bcder::decode::{Constructed, IntoSource}; use bcder::Tag;
            let j = rng.below(ts.len() as u64 + 1) as usize;
            let d2 = data.clone();
            let run = |which: u8| -> Option<(bool, Option<bool>, usize)> { catch(|| {
                let mut src = bcder::decode::SliceSource::new(&d2);
                let mut present: Option<bool> = None;
                let body = |c: &mut Constructed<&mut bcder::decode::SliceSource>| -> Result<(), bcder::decode::DecodeError<std::convert::Infallible>> {
                    for _ in 0..j { c.take_opt_value(|_, ct| match ct { bcder::decode::Content::Primitive(p) => p.skip_all(), bcder::decode::Content::Constructed(k) => k.skip_all() })?; }
                    present = match which {
                        0 => c.take_opt_sequence(|k| k.skip_all())?.map(|_| true),
                        1 => c.take_opt_constructed_if(Tag::SEQUENCE, |k| k.skip_all())?.map(|_| true),
                        2 => c.take_opt_set(|k| k.skip_all())?.map(|_| true),
                        3 => c.take_opt_constructed_if(Tag::SET, |k| k.skip_all())?.map(|_| true),
                        4 => Some(c.take_sequence(|k| k.skip_all()).map(|_| true)?),
                        5 => Some(c.take_constructed_if(Tag::SEQUENCE, |k| k.skip_all()).map(|_| true)?),
                        6 => Some(c.take_set(|k| k.skip_all()).map(|_| true)?),
                        _ => Some(c.take_constructed_if(Tag::SET, |k| k.skip_all()).map(|_| true)?),
                    };
                    c.skip_all() };
                let r = match ctx { Ctx::Top => Constructed::decode(&mut src, mode_of(mode), body),
                                    _ => Constructed::decode(&mut src, mode_of(mode), |c| c.take_constructed_if(Tag::SEQUENCE, body)) };
                (r.is_ok(), present, src.len()) }) };
            let agree = run(0) == run(1) && run(2) == run(3) && run(4) == run(5) && run(6) == run(7);
            let ps = in_ctx(ctx, vec![Prog::ReadAll]);
            prog_case(em, 901, mode, &ps, &data, move |_| if agree { Oracle::Pass } else { Oracle::Fail("sequence-or-set-shortcut-disagrees-with-the-tagged-constructed-read".into()) }, true);
        }
        // typed optional reads (take_opt_bool, take_opt_u8 ... = take_opt_primitive_if + accessor)
        for (exp, ty) in [((0u8, 1u32), 10u8), ((0, 2), 5), ((0, 2), 2), ((0, 5), 11), ((0, 6), 12)] {
            let j = rng.below(ts.len() as u64 + 1) as usize;
            let mut ps: Vec<Prog> = (0..j).map(|_| Prog::Take { opt: true, kind: 0, exp: None, body: Body::Generic }).collect();
            ps.push(Prog::Take { opt: true, kind: 1, exp: Some(exp), body: Body::Typed(ty) });
            ps.push(Prog::ReadAll);
            let ps = in_ctx(ctx, ps);
            prog_case(em, 901, mode, &ps, &data, |obs| if obs.first() == Some(&3) { Oracle::Fail("panic".into()) } else { Oracle::None }, true);
        }
        // truncated and mutated inputs: model only + no panic
        for _ in 0..2 {
            let bad = mutate(rng, &data);
            let j = rng.below(3) as usize;
            let mut ps: Vec<Prog> = (0..j).map(|_| Prog::Take { opt: true, kind: 0, exp: None, body: Body::Generic }).collect();
            ps.push(Prog::Take { opt: rng.bool(), kind: rng.below(3) as u8, exp: if rng.bool() { None } else { Some(random_tag(rng)) }, body: Body::Generic });
            ps.push(Prog::ReadAll);
            let ps = in_ctx(ctx, ps);
            prog_case(em, 901, mode, &ps, &bad, |obs| if obs.first() == Some(&3) { Oracle::Fail("panic".into()) } else { Oracle::None }, true);
        }
    }
    // empty top-level input: every optional read reports absence, every mandatory one fails
    for mode in 0..3u8 { for kind in 0..3u8 { for exp in [None, Some((0u8, 2u32))] { for opt in [true, false] {
        let ps = vec![Prog::Take { opt, kind, exp, body: Body::Generic }, Prog::ReadAll];
        prog_case(em, 901, mode, &ps, &[], move |obs| {
            let ok = if opt { obs == [0, 0, 0, 0] } else { obs == [1] };
            if ok { Oracle::Pass } else { Oracle::Fail("end-of-top-level-input".into()) }
        }, true);
    }}}}
}
