//! C20: object identifiers round-trip between text, arcs and encoding.

use crate::common::*;
use crate::c19::tlv;
use bcder::decode::{Constructed, IntoSource};
use bcder::{Mode, Oid};

fn decode_case(em: &mut Emitter, mode: u8, c: &[u8]) {
    em.case(2001, &[bytes_arg(c), num_arg(mode)], || {
        let r = catch(|| {
            let t = tlv(0x06, c);
            let take = Constructed::decode(t.as_slice().into_source(), mode_of(mode), |cons| Oid::take_from(cons)).ok();
            let skip = Constructed::decode(t.as_slice().into_source(), mode_of(mode), |cons| Oid::skip_in(cons)).is_ok();
            // the optional variants and a lazily delivering source accept exactly the same contents
            let take_opt = Constructed::decode(t.as_slice().into_source(), mode_of(mode), |cons| Oid::take_opt_from(cons)).ok().map(|o| o.map(|o| o.0.to_vec()));
            let skip_opt = Constructed::decode(t.as_slice().into_source(), mode_of(mode), |cons| Oid::skip_opt_in(cons)).ok();
            let lazy_take = Constructed::decode(crate::sources::FlexSource::new(&t, crate::sources::Policy::Exact, None), mode_of(mode), |cons| Oid::take_from(cons)).ok().map(|o| o.0.to_vec());
            let lazy_skip = Constructed::decode(crate::sources::FlexSource::new(&t, crate::sources::Policy::Exact, None), mode_of(mode), |cons| Oid::skip_in(cons)).is_ok();
            let take = take.map(|o| o.0.to_vec());
            let mut same = take_opt == take.clone().map(Some) && skip_opt == (if skip { Some(Some(())) } else { None }) && lazy_take == take && lazy_skip == skip;
            // where no OBJECT IDENTIFIER is next: the mandatory readers fail, the optional ones report absence
            for foreign in [tlv(0x04, c), tlv(0x86, c), vec![]] {
                let f = foreign.as_slice();
                if Constructed::decode(f.into_source(), mode_of(mode), |cons| Oid::take_from(cons)).is_ok()
                   || Constructed::decode(f.into_source(), mode_of(mode), |cons| Oid::skip_in(cons)).is_ok()
                   || Constructed::decode(f.into_source(), mode_of(mode), |cons| Oid::take_opt_from(cons)).ok().map(|o| o.is_none()) != Some(true)
                   || Constructed::decode(f.into_source(), mode_of(mode), |cons| Oid::skip_opt_in(cons)).ok() != Some(None) { same = false; }
            }
            (if same { take } else { Some(vec![0xEE; 3]) }, if same { skip } else { false })
        });
        match r {
            Some((take, skip)) => {
                let exp = !c.is_empty() && c[c.len() - 1] < 0x80;
                let mut obs = Ints::new();
                match &take { Some(b) => { obs = obs.n(R_OK).bytes(b); } None => { obs = obs.n(R_CERR); } }
                obs = obs.n(if skip { R_OK } else { R_CERR });
                let ok = take.is_some() == exp && skip == exp && take.as_ref().map(|b| b == c).unwrap_or(true);
                (obs, if ok { Oracle::Pass } else { Oracle::Fail("acceptance".into()) }, !c.is_empty())
            }
            None => (Ints::new().n(R_PANIC), Oracle::Fail("panic".into()), true),
        }
    });
}

fn skipif_case(em: &mut Emitter, me: &[u8], c: &[u8]) {
    em.case(2002, &[bytes_arg(me), bytes_arg(c)], || {
        let r = catch(|| {
            let t = tlv(0x06, c);
            let o: Oid<Vec<u8>> = Oid(me.to_vec());
            let res = Constructed::decode(t.as_slice().into_source(), Mode::Der, |cons| o.skip_if(cons)).is_ok();
            // comparison and hashing are by content octets
            let o2: Oid<Vec<u8>> = Oid(c.to_vec());
            use std::hash::{Hash, Hasher};
            let h = |x: &Oid<Vec<u8>>| { let mut s = std::collections::hash_map::DefaultHasher::new(); x.hash(&mut s); s.finish() };
            (res, o == o2, h(&o) == h(&o2))
        });
        match r {
            Some((res, eq, heq)) => {
                let same = me == c;
                let ok = res == same && eq == same && (!same || heq);
                (Ints::new().n(if res { R_OK } else { R_CERR }), if ok { Oracle::Pass } else { Oracle::Fail("skip-if/eq/hash".into()) }, true)
            }
            None => (Ints::new().n(R_PANIC), Oracle::Fail("panic".into()), true),
        }
    });
}

/// reference X.690 8.19 encoding of arcs
pub fn ref_enc(arcs: &[u64]) -> Vec<u8> {
    let mut subs = vec![40 * arcs[0] + arcs[1]];
    subs.extend_from_slice(&arcs[2..]);
    let mut out = Vec::new();
    for s in subs {
        let mut ds = vec![(s & 0x7f) as u8];
        let mut x = s >> 7;
        while x > 0 { ds.insert(0, 0x80 | (x & 0x7f) as u8); x >>= 7; }
        out.extend(ds);
    }
    out
}

/// reference parser of dotted decimal text (u32 components, '+' allowed)
fn ref_parse(text: &str) -> Option<Vec<u64>> {
    let parts: Vec<&str> = text.split('.').collect();
    if parts.len() < 2 { return None }
    let mut arcs = Vec::new();
    for p in parts {
        let p = p.strip_prefix('+').unwrap_or(p);
        if p.is_empty() || !p.bytes().all(|b| b.is_ascii_digit()) { return None }
        let t = p.trim_start_matches('0');
        if t.len() > 10 { return None }
        let v: u64 = if t.is_empty() { 0 } else { t.parse().ok()? };
        if v > u32::MAX as u64 { return None }
        arcs.push(v);
    }
    if arcs[0] > 2 || (arcs[0] < 2 && arcs[1] >= 40) || 40 * arcs[0] + arcs[1] > u32::MAX as u64 { return None }
    Some(arcs)
}

fn fromstr_case(em: &mut Emitter, text: &str) {
    em.case(2003, &[bytes_arg(text.as_bytes())], || {
        let r = catch(|| text.parse::<Oid<Vec<u8>>>().ok().map(|o| o.0));
        let exp = ref_parse(text);
        match r {
            Some(Some(b)) => {
                let mut orc = Oracle::Pass;
                match &exp {
                    Some(arcs) => {
                        if b != ref_enc(arcs) { orc = Oracle::Fail("wrong-encoding".into()); }
                        else {
                            // displaying the parsed identifier gives back the canonical text
                            let canon: Vec<String> = arcs.iter().map(|a| a.to_string()).collect();
                            let shown = catch(|| Oid(b.clone()).to_string());
                            if shown != Some(canon.join(".")) { orc = Oracle::Fail("display-of-parsed".into()); }
                        }
                    }
                    None => orc = Oracle::Fail("accepts-invalid-text".into()),
                }
                (Ints::new().n(R_OK).bytes(&b), orc, true)
            }
            Some(None) => (Ints::new().n(R_CERR), if exp.is_none() { Oracle::Pass } else { Oracle::Fail("rejects-valid-text".into()) }, true),
            None => (Ints::new().n(R_PANIC), Oracle::Fail("from-str-panic".into()), true),
        }
    });
}

fn display_case(em: &mut Emitter, c: &[u8]) {
    em.case(2004, &[bytes_arg(c)], || {
        let r = catch(|| {
            let o: Oid<Vec<u8>> = Oid(c.to_vec());
            let comps: Vec<Option<u32>> = o.iter().map(|x| x.to_u32()).collect();
            (comps, o.to_string())
        });
        match r {
            Some((comps, shown)) => {
                let mut obs = Ints::new().n(R_OK).n(comps.len());
                for x in &comps { match x { Some(v) => obs.push(v), None => obs.push(-1) } }
                let parts: Vec<&str> = if shown.is_empty() { vec![] } else { shown.split('.').collect() };
                obs.push(parts.len());
                for p in &parts { if *p == "(very large component)" { obs.push(-1) } else { obs.push(p) } }
                // oracle: decode sub-identifiers independently
                let mut subs: Vec<Option<u64>> = Vec::new();
                let mut cur: Vec<u8> = Vec::new();
                for &b in c { cur.push(b); if b < 0x80 {
                    // minimal length and value
                    let sig: Vec<u8> = cur.iter().cloned().skip_while(|&x| x == 0x80).collect();
                    let mut v: u128 = 0; for &x in &cur { v = (v << 7) | (x & 0x7f) as u128; if v > (1u128 << 100) { v = 1u128 << 100; } }
                    let _ = sig;
                    subs.push(if v <= u32::MAX as u128 { Some(v as u64) } else { None });
                    cur.clear();
                } }
                let mut orc = Oracle::Pass;
                if !subs.is_empty() {
                    let mut exp: Vec<Option<u64>> = Vec::new();
                    match subs[0] {
                        Some(s) => { let a = if s < 40 { 0 } else if s < 80 { 1 } else { 2 }; exp.push(Some(a)); exp.push(Some(s - 40 * a)); }
                        None => { exp.push(None); exp.push(None); }
                    }
                    exp.extend_from_slice(&subs[1..]);
                    // only identifiers whose minimally encoded sub-identifiers fit are required to be exact;
                    // larger ones must be reported as too large, never as a wrong number
                    let minimal = { let mut ok = true; let mut start = true; for &b in c { if start && b == 0x80 { ok = false; } start = b < 0x80; } ok };
                    for (k, e) in exp.iter().enumerate() {
                        match (e, comps.get(k)) {
                            (Some(v), Some(Some(g))) if *v == *g as u64 => {}
                            (Some(_), Some(None)) if !minimal => {}
                            (None, Some(None)) => {}
                            _ => { orc = Oracle::Fail("arcs".into()); }
                        }
                    }
                    if comps.len() != exp.len() { orc = Oracle::Fail("arc-count".into()); }
                }
                (obs, orc, !c.is_empty())
            }
            None => (Ints::new().n(R_PANIC), Oracle::Fail("panic".into()), true),
        }
    });
}

const ARCB: [u64; 30] = [0, 1, 39, 40, 47, 79, 80, 127, 128, 16383, 16384, 2097151, 2097152,
    (1 << 25) - 1, 1 << 25, (1 << 25) + 1, (1 << 28) - 1, 1 << 28, (1 << 28) + 1, 4294967215, 4294967216,
    4294967294, 4294967295, 4294967296, 1 << 40, 33554432, 268435456, 4294967295 - 80, 4294967295 - 79, 129];

pub fn run(em: &mut Emitter, rng: &mut Rng, thorough: bool) {
    // ---- contents ----
    for mode in 0..3u8 {
        decode_case(em, mode, &[]);
        for a in 0..=255u8 { decode_case(em, mode, &[a]); if mode == 0 || thorough { for b in 0..=255u8 { decode_case(em, mode, &[a, b]); } } }
        for _ in 0..2000 { let n = rng.range(3, 12) as usize; let mut c = rng.bytes(n); if rng.bool() { c[n - 1] &= 0x7f; } decode_case(em, mode, &c); }
    }
    for _ in 0..(if thorough { 200_000 } else { 5000 }) {
        let n = rng.range(1, 8) as usize; let mut a = rng.bytes(n); a[n - 1] &= 0x7f;
        let mut b = a.clone();
        match rng.below(4) { 0 => {}, 1 => { let k = rng.below(n as u64) as usize; b[k] ^= 1 << rng.below(7); }, 2 => { b.push(1); }, _ => { b.pop(); } }
        skipif_case(em, &a, &b);
    }
    // ---- texts ----
    for a in 0..=3u64 { for &b in &ARCB {
        fromstr_case(em, &format!("{}.{}", a, b));
        for &c in &ARCB { fromstr_case(em, &format!("{}.{}.{}", a, if b > 39 && a < 2 { b % 40 } else { b }, c)); }
    }}
    for t in ["", "1", "1.", ".1", "1..2", "+", "1.+5", "+1.+2.+3", "1.-1", "-1.2", "1.2a", "1.2.", "01.02.003", "2.999.1",
              "1.2.3.4.5.6.7.8.9.10", "2.4294967295", "2.4294967215", "2.4294967216", "0.39", "0.40", "1.39", "1.40", "2.40",
              "3.1", "1.2 .3", " 1.2", "1.2\n", "1,2", "1.2.4294967296", "1.2.99999999999999999999", "1.2.00000000000000000001",
              "\u{661}.2", "1.2.\u{663}", "é.1", "2.+", "2.100.+0"] { fromstr_case(em, t); }
    for _ in 0..(if thorough { 1_200_000 } else { 30000 }) {
        let n = rng.range(2, 6);
        let mut parts: Vec<String> = Vec::new();
        for k in 0..n {
            let v = if k == 0 { rng.below(3) } else if rng.chance(1, 2) { *rng.pick(&ARCB) } else { rng.next() >> rng.range(30, 63) };
            let v = if k == 1 && rng.chance(1, 2) { v % 40 } else { v };
            parts.push(if rng.chance(1, 20) { format!("+{}", v) } else if rng.chance(1, 20) { format!("0{}", v) } else { v.to_string() });
        }
        let mut t = parts.join(".");
        if rng.chance(1, 25) { let k = rng.below(t.len() as u64 + 1) as usize; t.insert(k, *rng.pick(&['.', 'x', '-', ' ', '+'])); }
        fromstr_case(em, &t);
    }
    // ---- sub-identifier encodings of 1..12, 15, 19, 20 octets (beyond 32, 64 and 128 bits): conversion and display ----
    let tops: [u8; 8] = [0x01, 0x07, 0x08, 0x0f, 0x10, 0x7f, 0x00, 0x40];
    for len in (1..=12usize).chain([15, 19, 20]) { for &top in &tops { for pat in 0..3 {
        let mut sub = vec![top | 0x80];
        for _ in 1..len { sub.push(0x80 | match pat { 0 => 0x7f, 1 => 0, _ => rng.byte() & 0x7f }); }
        let l = sub.len(); sub[l - 1] &= 0x7f;
        for first in [vec![0x2au8], vec![0x81, 0x00], vec![0x7f]] {
            let mut c = first.clone(); c.extend(&sub); display_case(em, &c);
            let mut c2 = sub.clone(); c2.extend(&first); display_case(em, &c2);
            let mut c3 = first.clone(); c3.extend(&sub); c3.extend(&sub); display_case(em, &c3);
        }
    }}}
    for a in 0..=127u8 { display_case(em, &[a]); for b in [0u8, 1, 0x7f] { display_case(em, &[a | 0x80, b]); display_case(em, &[a, b]); } }
    display_case(em, &[]);
    for _ in 0..(if thorough { 800_000 } else { 20000 }) {
        // arcs -> reference encoding -> display
        let n = rng.range(2, 6) as usize;
        let mut arcs: Vec<u64> = vec![rng.below(3)];
        for k in 1..n { let v = if rng.bool() { *rng.pick(&ARCB) } else { rng.next() >> rng.range(31, 63) }; arcs.push(if k == 1 && arcs[0] < 2 { v % 40 } else { v.min((1 << 33) - 1) }); }
        if arcs[0] == 2 { arcs[1] = arcs[1].min(u32::MAX as u64 - 80); }
        display_case(em, &ref_enc(&arcs));
    }
}
