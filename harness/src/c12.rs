//! C12: identifier octets and tags correspond one-to-one.

use crate::common::*;
use bcder::decode::{IntoSource, SliceSource};
use bcder::Tag;

pub fn mk_tag(cls: u8, n: u32) -> Tag {
    match cls { 0 => Tag::universal(n), 1 => Tag::application(n), 2 => Tag::ctx(n), _ => Tag::private(n) }
}
pub fn class_of(t: Tag) -> u8 {
    if t.is_universal() { 0 } else if t.is_application() { 1 } else if t.is_context_specific() { 2 } else { 3 }
}
pub fn tag_bytes(t: Tag, c: bool) -> Vec<u8> {
    let mut v = Vec::new();
    t.write_encoded(c, &mut v).unwrap();
    v
}

/// Independent reference: X.690 8.1.2 minimal identifier octets.
pub fn ref_ident(cls: u8, c: bool, n: u32) -> Vec<u8> {
    let first = (cls << 6) | if c { 0x20 } else { 0 };
    if n < 31 { return vec![first | n as u8] }
    let mut v = vec![first | 31];
    let mut ds = vec![(n & 0x7f) as u8];
    let mut x = n >> 7;
    while x > 0 { ds.insert(0, 0x80 | (x & 0x7f) as u8); x >>= 7; }
    v.extend(ds);
    v
}

/// Independent reference parser: Some((cls, cons, number, used)) if `d`
/// starts with a minimal identifier of at most 4 octets.
pub fn ref_parse(d: &[u8]) -> Option<(u8, bool, u32, usize)> {
    let b = *d.first()?;
    let cls = b >> 6;
    let c = b & 0x20 != 0;
    if b & 0x1f != 0x1f { return Some((cls, c, (b & 0x1f) as u32, 1)) }
    let mut n: u32 = 0;
    for i in 1..=3 {
        let x = *d.get(i)?;
        if i == 1 && x == 0x80 { return None }
        n = (n << 7) | (x & 0x7f) as u32;
        if x & 0x80 == 0 {
            if n < 31 { return None }
            return Some((cls, c, n, i + 1))
        }
    }
    None
}

fn new_case(em: &mut Emitter, cls: u8, n: u32) {
    em.case(1201, &[num_arg(cls), num_arg(n)], || {
        let r = catch(|| {
            let t = mk_tag(cls, n);
            (t, tag_bytes(t, false), tag_bytes(t, true), t.encoded_len(), t.number(), class_of(t))
        });
        match r {
            Some((t, w0, w1, el, num, c)) => {
                let obs = Ints::new().n(R_OK).bytes(&w0).bytes(&w1).n(el).n(num)
                    .b(c == 0).b(c == 1).b(c == 2).b(c == 3);
                let mut oracle = Oracle::Pass;
                if w0 != ref_ident(cls, false, n) || w1 != ref_ident(cls, true, n) {
                    oracle = Oracle::Fail("write-not-minimal".into());
                } else if el != w0.len() { oracle = Oracle::Fail("encoded-len".into()); }
                else if num != n || c != cls { oracle = Oracle::Fail("number-class".into()); }
                else if [t.is_universal(), t.is_application(), t.is_context_specific(), t.is_private()] != [cls == 0, cls == 1, cls == 2, cls == 3] { oracle = Oracle::Fail("class-predicates".into()); }
                else if let Some(what) = awkward_targets(&w1, 1 + (n as usize) % 3, &|tg| { let mut tg = tg; t.write_encoded(true, &mut tg) }) { oracle = Oracle::Fail(format!("identifier: {}", what)); }
                else {
                    for (w, cons) in [(&w0, false), (&w1, true)] {
                        let mut data = w.clone(); data.push(0x55);
                        let mut src = data.as_slice().into_source();
                        match Tag::take_from(&mut src) {
                            Ok((t2, c2)) if t2 == t && c2 == cons && src.len() == 1 => {}
                            _ => oracle = Oracle::Fail("read-back".into()),
                        }
                        let mut src = data.as_slice().into_source();
                        match t.take_from_if(&mut src) {
                            Ok(Some(c2)) if c2 == cons && src.len() == 1 => {}
                            _ => oracle = Oracle::Fail("take-if-self".into()),
                        }
                    }
                }
                (obs, oracle, true)
            }
            None => (Ints::new().n(R_PANIC),
                     if n <= 0x1f_ffff { Oracle::Fail("panic".into()) } else { Oracle::Pass }, false),
        }
    });
}

fn read_case(em: &mut Emitter, d: &[u8]) {
    em.case(1202, &[bytes_arg(d)], || {
        let r = catch(|| {
            let mut src = SliceSource::new(d);
            let r = Tag::take_from(&mut src);
            let used = d.len() - src.len();
            let mut src2 = SliceSource::new(d);
            let ro = Tag::take_opt_from(&mut src2);
            (r.ok(), used, ro.ok())
        });
        let exp = ref_parse(d);
        match r {
            Some((r, used, ro)) => {
                let mut obs = Ints::new();
                let mut oracle = Oracle::Pass;
                match r {
                    Some((t, c)) => {
                        let canon = catch(|| mk_tag(class_of(t), t.number()));
                        let eq = canon.map(|t2| t2 == t).unwrap_or(false);
                        obs = obs.n(R_OK).bytes(&tag_bytes(t, c)).b(c).n(t.number()).n(class_of(t)).b(eq).n(used);
                        match exp {
                            Some((ecls, ec, en, eused)) => {
                                if !(ecls == class_of(t) && ec == c && en == t.number() && eused == used && eq
                                     && tag_bytes(t, c) == d[..used]) {
                                    oracle = Oracle::Fail("decoded-differs-from-reference".into());
                                }
                            }
                            None => oracle = Oracle::Fail("accepts-non-minimal-or-malformed".into()),
                        }
                    }
                    None => {
                        obs = obs.n(R_CERR);
                        if exp.is_some() { oracle = Oracle::Fail("rejects-valid-identifier".into()); }
                    }
                }
                match ro {
                    Some(None) => { obs = obs.n(R_OK).n(0); if !d.is_empty() { oracle = Oracle::Fail("opt-none-on-data".into()); } }
                    Some(Some(_)) => { obs = obs.n(R_OK).n(1); }
                    None => { obs = obs.n(R_CERR); }
                }
                (obs, oracle, !d.is_empty())
            }
            None => (Ints::new().n(R_PANIC), Oracle::Fail("panic".into()), true),
        }
    });
}

fn takeif_case(em: &mut Emitter, cls: u8, n: u32, d: &[u8]) {
    em.case(1203, &[num_arg(cls), num_arg(n), bytes_arg(d)], || {
        let r = catch(|| {
            let e = mk_tag(cls, n);
            let mut src = SliceSource::new(d);
            let r = e.take_from_if(&mut src);
            // the same conditional read on a source that shows only what was requested
            let mut lazy = crate::sources::FlexSource::new(d, crate::sources::Policy::Exact, None);
            let rl = e.take_from_if(&mut lazy).ok();
            let r = r.ok();
            if rl != r || lazy.left() != src.len() { return (r, usize::MAX) }
            (r, d.len() - src.len())
        });
        match r {
            Some((r, used)) if used == usize::MAX => { let _ = r; (Ints::new().n(-2), Oracle::Fail("conditional-read-depends-on-how-the-source-delivers".into()), true) }
            Some((r, used)) => {
                let exp = ref_parse(d);
                let mut oracle = Oracle::Pass;
                let obs = match r {
                    Some(None) => {
                        if used != 0 { oracle = Oracle::Fail("absent-but-consumed".into()); }
                        if let Some((ecls, _, en, _)) = exp {
                            if ecls == cls && en == n { oracle = Oracle::Fail("absent-on-equal-tag".into()); }
                        }
                        Ints::new().n(R_OK).n(0).n(used)
                    }
                    Some(Some(c)) => {
                        match exp {
                            Some((ecls, ec, en, eused)) if ecls == cls && en == n && ec == c && eused == used => {}
                            _ => oracle = Oracle::Fail("match-on-different-identifier".into()),
                        }
                        Ints::new().n(R_OK).n(1).b(c).n(used)
                    }
                    None => {
                        if used != 0 { oracle = Oracle::Fail("error-but-consumed".into()); }
                        Ints::new().n(R_CERR).n(used)
                    }
                };
                (obs, oracle, !d.is_empty())
            }
            None => (Ints::new().n(-1), Oracle::Fail("panic".into()), true),
        }
    });
}

const BND: [u8; 11] = [0x00, 0x01, 0x1e, 0x1f, 0x20, 0x7f, 0x80, 0x81, 0x9f, 0xfe, 0xff];

fn tails(len: usize, f: &mut dyn FnMut(&[u8])) {
    let mut idx = vec![0usize; len];
    loop {
        let t: Vec<u8> = idx.iter().map(|&i| BND[i]).collect();
        f(&t);
        let mut k = 0;
        loop {
            if k == len { return }
            idx[k] += 1;
            if idx[k] < BND.len() { break }
            idx[k] = 0;
            k += 1;
        }
    }
}

pub fn run(em: &mut Emitter, rng: &mut Rng, thorough: bool) {
    // ---- constructor / writer ----
    let bands: [u32; 7] = [0, 31, 128, 1 << 14, 1 << 21, 0x7f, 0x3fff];
    for cls in 0..4u8 {
        if thorough {
            for n in 0..=0x1f_ffffu32 { new_case(em, cls, n); }
        } else {
            for &c in &bands {
                for d in 0..=128u32 {
                    let n = (c + d).saturating_sub(64);
                    new_case(em, cls, n);
                }
            }
            for _ in 0..5000 {
                let bits = rng.range(1, 21);
                new_case(em, cls, (rng.next() as u32) & ((1u32 << bits) - 1));
            }
        }
        for n in [0x20_0000u32, 0x20_0001, 0xffff_ffff] { new_case(em, cls, n); }
    }
    // ---- reader ----
    read_case(em, &[]);
    for b0 in 0..=255u8 {
        let high = b0 & 0x1f == 0x1f;
        let maxlen = if high { 4 } else { 1 };
        for len in 0..=maxlen {
            if !thorough && len == 4 {
                for _ in 0..300 {
                    let mut d = vec![b0];
                    for _ in 0..4 { d.push(if rng.bool() { *rng.pick(&BND) } else { rng.byte() }); }
                    read_case(em, &d);
                }
                continue
            }
            tails(len, &mut |t| {
                let mut d = vec![b0];
                d.extend_from_slice(t);
                read_case(em, &d);
            });
        }
        if high {
            // every second octet
            for b1 in 0..=255u8 {
                read_case(em, &[b0, b1]);
                read_case(em, &[b0, b1, 0x05]);
                read_case(em, &[b0, b1, 0x85, 0x05]);
            }
        }
    }
    for _ in 0..(if thorough { 500_000 } else { 50_000 }) {
        let n = rng.range(1, 6) as usize;
        let mut d = rng.bytes(n);
        if rng.chance(2, 3) { d[0] |= 0x1f; }
        read_case(em, &d);
    }
    // ---- conditional read: (expected, identifier octets) pairs ----
    let numbers: [u32; 14] = [0, 1, 5, 30, 31, 32, 37, 127, 128, 129, 16383, 16384, 0x1f_fffe, 0x1f_ffff];
    for cls in 0..4u8 {
        for &n in &numbers {
            takeif_case(em, cls, n, &[]);
            for c2 in 0..4u8 {
                for &n2 in &numbers {
                    for cons in [false, true] {
                        let mut d = ref_ident(c2, cons, n2);
                        // complete, with trailing octet, and every truncation
                        takeif_case(em, cls, n, &d);
                        for k in 1..d.len() { takeif_case(em, cls, n, &d[..k]); }
                        d.push(0x80);
                        takeif_case(em, cls, n, &d);
                    }
                }
            }
            // same first octet, different later octet; non-minimal forms; over-long
            let base = ref_ident(cls, false, n);
            for i in 0..base.len() {
                for x in [0x00u8, 0x01, 0x80, 0xff] {
                    let mut d = base.clone();
                    d[i] ^= x;
                    takeif_case(em, cls, n, &d);
                }
            }
            takeif_case(em, cls, n, &[(cls << 6) | 0x1f, n as u8 & 0x7f]);
            takeif_case(em, cls, n, &[(cls << 6) | 0x1f, 0x80, n as u8 & 0x7f]);
            takeif_case(em, cls, n, &[(cls << 6) | 0x1f, 0x81, 0x82, 0x83, 0x04]);
        }
    }
    for _ in 0..(if thorough { 300_000 } else { 30_000 }) {
        let cls = rng.below(4) as u8;
        let bits = rng.range(1, 21);
        let n = (rng.next() as u32) & ((1u32 << bits) - 1);
        let d = if rng.chance(1, 2) {
            let mut d = ref_ident(if rng.chance(3, 4) { cls } else { rng.below(4) as u8 }, rng.bool(),
                                  if rng.chance(1, 2) { n } else { n ^ (1 << rng.below(21)) });
            if rng.chance(1, 4) { let k = rng.below(d.len() as u64) as usize; d.truncate(k); }
            d
        } else {
            let k = rng.range(1, 5) as usize; rng.bytes(k)
        };
        takeif_case(em, cls, n, &d);
    }
}
