//! C06: announced encoded length equals octets written, for every encoder composition.

use crate::common::*;
use crate::dynenc::*;
use crate::gen::random_tag;
use crate::c16::{random_os, os_encode};
use bcder::encode::Values;

pub fn random_dyn(rng: &mut Rng, depth: u32, typed_only: bool) -> Dyn {
    let (c, n) = random_tag(rng);
    let size = |rng: &mut Rng| -> usize { match rng.below(10) { 0 => 0, 1..=5 => rng.range(1, 6) as usize, 6 => rng.range(120, 135) as usize, 7 => rng.range(250, 260) as usize, _ => rng.range(7, 40) as usize } };
    let leaf = depth == 0 || rng.chance(2, 5);
    if leaf {
        match rng.below(if typed_only { 5 } else { 11 }) {
            0 => { let ty = rng.below(10) as u8; let bits = [7u32, 15, 31, 63, 127, 8, 16, 32, 64, 128][ty as usize];
                   let mag = rng.u128() >> (128 - rng.range(1, bits as u64) as u32); let neg = ty < 5 && rng.bool(); Dyn::Int(c, n, ty, neg && mag != 0, mag) }
            1 => Dyn::Bool(c, n, rng.bool()),
            2 => Dyn::Null(c, n),
            3 => { let k = size(rng); let b = rng.bytes(k); Dyn::Bits(c, n, if b.is_empty() { 0 } else { rng.below(8) as u8 }, b) }
            4 => { let k = size(rng); Dyn::Prim(c, n, rng.bytes(k)) }
            5 => { let k = size(rng); Dyn::OctSlice(c, n, rng.bytes(k)) }
            6 => { let k = size(rng); let b = rng.bytes(k); Dyn::BitSlice(c, n, rng.below(8) as u8, b) }
            7 => { let o = random_os(rng, 2, &[0x61, 0x62], 4); let mut t = Vec::new(); os_encode(&o, 0x04, &mut t); Dyn::OctStr(c, n, 0, t) }
            8 => { let k = size(rng); Dyn::Captured(rng.below(3) as u8, rng.bytes(k)) }
            9 => Dyn::Nothing,
            _ => Dyn::Opt(None),
        }
    } else {
        match rng.below(if typed_only { 3 } else { 6 }) {
            0 => Dyn::Cons(c, n, rng.below(4) as u8, Box::new(random_dyn(rng, depth - 1, typed_only))),
            1 => { let k = if rng.chance(1, 6) { rng.range(7, 13) as usize } else { rng.below(5) as usize };
                   Dyn::Seq(rng.below(5) as u8, (0..k).map(|_| random_dyn(rng, depth - 1, typed_only)).collect()) }
            2 => Dyn::Opt(Some(Box::new(random_dyn(rng, depth - 1, typed_only)))),
            3 => Dyn::Choice(rng.below(5) as u8, Box::new(random_dyn(rng, depth - 1, typed_only))),
            4 => Dyn::Wrapped(rng.below(3) as u8, Box::new(random_dyn(rng, depth - 1, typed_only))),
            _ => Dyn::Cons(0, 16, 1, Box::new(random_dyn(rng, depth - 1, typed_only))),
        }
    }
}

pub fn tree_case(em: &mut Emitter, mode: u8, d: &Dyn) {
    let mut code: Vec<String> = Vec::new(); enc_dyn(d, &mut code);
    let code_len = code.len();
    em.case(601, &[num_arg(mode), Ints(code)], || {
        let l = catch(|| d.encoded_len(modeof(mode)));
        let w = catch(|| { let mut v = Vec::new(); d.write_encoded(modeof(mode), &mut v).unwrap(); v });
        let mut obs = Ints::new();
        match l { Some(n) => { obs = obs.n(R_OK).n(n); } None => { obs = obs.n(R_PANIC); } }
        match &w { Some(v) => { obs = obs.n(R_OK).bytes(v); } None => { obs = obs.n(R_PANIC); } }
        let exp = ref_encode(d, mode);
        let awkward = match (&w, &exp) { (Some(v), Some(_)) => awkward_targets(v, 1 + code_len % 4, &|t| { let mut t = t; d.write_encoded(modeof(mode), &mut t) }), _ => None };
        // the same encoder through the Captured builders: from_values, builder + extend (twice), into_builder + extend
        let built = match (&w, &exp) { (Some(v), Some(_)) => catch(|| {
            use bcder::Captured;
            let one = Captured::from_values(modeof(mode), d);
            let mut b = Captured::builder(modeof(mode)); b.extend(d); b.extend(d); let two = b.freeze();
            let mut b3 = two.clone().into_builder(); b3.extend(d); let three = b3.freeze();
            let vv: Vec<u8> = [v.as_slice(), v.as_slice()].concat(); let vvv: Vec<u8> = [v.as_slice(), v.as_slice(), v.as_slice()].concat();
            one.as_slice() == v.as_slice() && two.as_slice() == vv.as_slice() && three.as_slice() == vvv.as_slice()
              && Captured::empty(modeof(mode)).as_slice().is_empty() && one.len() == v.len()
        }), _ => Some(true) };
        let orc = match (l, &w, &exp) {
            (Some(_), Some(_), Some(_)) if built != Some(true) => Oracle::Fail("captured-builder-output-differs-from-the-encoder-output".into()),
            (Some(_), Some(_), Some(_)) if awkward.is_some() => Oracle::Fail(awkward.unwrap().into()),
            (Some(n), Some(v), Some(e)) => if n != v.len() { Oracle::Fail("announced-length-differs-from-written".into()) } else if v != e { Oracle::Fail("written-octets-differ-from-reference".into()) } else { Oracle::Pass },
            (None, None, None) => Oracle::Pass,
            (None, _, Some(_)) | (_, None, Some(_)) => Oracle::Fail("undocumented-panic".into()),
            _ => Oracle::Fail("documented-panic-missing".into()),
        };
        (obs, orc, exp.is_some())
    });
}

pub fn run(em: &mut Emitter, rng: &mut Rng, thorough: bool) {
    for _ in 0..(if thorough { 320_000 } else { 8_000 }) {
        let d = random_dyn(rng, 4, false);
        for mode in 0..3u8 { tree_case(em, mode, &d); }
    }
    // sizes straddling every length-octet boundary, at two nesting depths, every arity
    for n in [0usize, 1, 126, 127, 128, 129, 254, 255, 256, 257, 65534, 65535, 65536, 65537] {
        if !thorough && n > 70000 { continue }
        let leaf = Dyn::Prim(0, 4, vec![0x5a; n]);
        for mode in 0..3u8 {
            tree_case(em, mode, &leaf);
            tree_case(em, mode, &Dyn::Cons(0, 16, 0, Box::new(leaf.clone())));
            tree_case(em, mode, &Dyn::Cons(2, 0x1f_ffff, 3, Box::new(Dyn::Cons(0, 17, 2, Box::new(leaf.clone())))));
            tree_case(em, mode, &Dyn::Wrapped(2, Box::new(leaf.clone())));
        }
    }
    // octet strings decoded from segmented BER whose flattened and stored lengths straddle a length-octet threshold
    for n in (120usize..=130).chain(250..=258) {
        let bytes: Vec<u8> = (0..n).map(|i| i as u8).collect(); let k = n / 2;
        for o in [crate::c16::Os::Cons(false, vec![crate::c16::Os::Prim(bytes.clone())]),
                  crate::c16::Os::Cons(false, vec![crate::c16::Os::Prim(bytes[..k].to_vec()), crate::c16::Os::Prim(bytes[k..].to_vec())])] {
            let mut t = Vec::new(); os_encode(&o, 0x04, &mut t);
            let leaf = Dyn::OctStr(0, 4, 0, t);
            for mode in [0u8, 2] { tree_case(em, mode, &leaf); tree_case(em, mode, &Dyn::Cons(0, 16, 0, Box::new(leaf.clone()))); }
        }
    }
    // integers at the powers of two where the octet count changes, both signs, every width, alone and nested
    for ty in 0..10u8 { let bits = [7u32, 15, 31, 63, 127, 8, 16, 32, 64, 128][ty as usize];
        for sh in (7..=bits).step_by(8).chain([bits, bits.saturating_sub(1)]) { for delta in [-1i32, 0, 1] { for neg in [false, true] {
            if neg && ty >= 5 { continue }
            let p = if sh >= 128 { u128::MAX } else { 1u128 << sh };
            let mag = if delta < 0 { p.wrapping_sub(1) } else if delta > 0 { p.wrapping_add(1) } else { p };
            let lim = if ty < 5 { if neg { 1u128 << bits } else { (1u128 << bits) - 1 } } else if bits == 128 { u128::MAX } else { (1u128 << bits) - 1 };
            if mag > lim || (neg && mag == 0) { continue }
            let leaf = Dyn::Int(0, 2, ty, neg, mag);
            for mode in [0u8, 2] { tree_case(em, mode, &leaf); tree_case(em, mode, &Dyn::Cons(0, 16, 0, Box::new(leaf.clone()))); }
        }}}
    }
    for k in 0..=13usize { for rep in 0..5u8 {
        let d = Dyn::Cons(0, 16, 1, Box::new(Dyn::Seq(rep, (0..k).map(|i| Dyn::Int(0, 2, 2, false, i as u128 * 50)).collect())));
        for mode in 0..3u8 { tree_case(em, mode, &d); }
    }}
}
