//! C11: captured data is exactly the encoding of the values advanced over.

use crate::common::*;
use crate::gen::*;
use crate::prog::*;
use crate::c02::{prog_case, wrap, in_ctx, ctx_ok, ints_of};
use bcder::decode::{Constructed, IntoSource};
use bcder::encode::Values;

/// byte ranges of the top-level values of a well-formed `inner`
fn value_ranges(mode: u8, inner: &[u8]) -> Option<Vec<(usize, usize)>> {
    let mut out = Vec::new(); let mut pos = 0;
    while pos < inner.len() {
        let n = ref_first_value_len(mode, &inner[pos..])?;
        out.push((pos, pos + n)); pos += n;
    }
    Some(out)
}

/// decode / decode_partial / re-encoding of captured data, on the implementation
fn later_use(mode: u8, data: &[u8], ctx: Ctx, j: usize, k: usize) -> Option<String> {
    let pre: Vec<Prog> = (0..j).map(|_| Prog::Take { opt: true, kind: 0, exp: None, body: Body::Generic }).collect();
    let body: Vec<Prog> = (0..k).map(|_| Prog::Take { opt: false, kind: 0, exp: None, body: Body::Generic }).collect();
    // the same decode twice: plainly, and with a capture attempt first whose closure reads to the end of the
    // enclosing value and then fails - a failed capture consumes nothing and changes nothing
    let mut results: Vec<(Option<bcder::Captured>, Vec<i128>)> = Vec::new();
    for probe in [false, true] {
        let mut captured = None;
        let mut inplace: Vec<i128> = Vec::new();
        let run = |cons: &mut Constructed<bcder::decode::SliceSource>| -> Result<(), bcder::decode::DecodeError<std::convert::Infallible>> {
            if probe { let p = cons.capture(|c| { c.skip_all()?; Err(c.content_err("probe")) }); if p.is_ok() { return Err(cons.content_err("probe succeeded")) } }
            let mut l = Vec::new();
            exec(&pre, cons, &mut l)?;
            let cap = cons.capture(|c| { let mut l2 = Vec::new(); exec_with::<_, CapNo>(&body, c, &mut l2)?; inplace = l2; Ok(()) })?;
            captured = Some(cap);
            Ok(())
        };
        let r = match ctx {
            Ctx::Top => Constructed::decode(data.into_source(), mode_of(mode), run),
            _ => Constructed::decode(data.into_source(), mode_of(mode), |c| c.take_sequence(run)),
        };
        // the enclosing decode may fail afterwards (unread values in a definite parent); we only need the capture
        let _ = r;
        results.push((captured, inplace));
    }
    let (captured_probe, inplace_probe) = results.pop().unwrap();
    let (captured, inplace) = results.pop().unwrap();
    if captured.as_ref().map(|c| c.as_slice().to_vec()) != captured_probe.as_ref().map(|c| c.as_slice().to_vec()) || inplace != inplace_probe {
        return Some("a-failed-capture-changes-what-follows".into())
    }
    let cap = captured?;
    let bytes = cap.as_slice().to_vec();
    // a captured value remembers the mode it was captured in, also through into_builder / extend / freeze
    if captured_mode(&cap) != mode { return Some("captured-value-forgets-its-mode".into()) }
    { let rebuilt = cap.clone().into_builder().freeze();
      if captured_mode(&rebuilt) != mode || rebuilt.as_slice() != bytes.as_slice() { return Some("rebuilt-captured-value-differs".into()) }
      let mut b = cap.clone().into_builder(); b.extend(&cap); let twice = b.freeze();
      if captured_mode(&twice) != mode || twice.as_slice() != [bytes.as_slice(), bytes.as_slice()].concat().as_slice() { return Some("extended-captured-value-differs".into()) } }
    // full decode later = decoding in place
    let mut later: Vec<i128> = Vec::new();
    if cap.clone().decode(|c| exec(&body, c, &mut later)).is_err() { return Some("later-decode-fails".into()) }
    if later != inplace { return Some("later-decode-differs-from-in-place".into()) }
    // successive partial decodes partition the data
    let mut c2 = cap.clone();
    let mut seen: Vec<u8> = Vec::new();
    for _ in 0..k {
        let before = c2.as_slice().to_vec();
        let mut l = Vec::new();
        // a probe for a value that is not there fails without consuming: nothing of the data may be lost
        { let probe = c2.decode_partial(|c| c.take_value_if(bcder::Tag::private(0x1f_fffe), |_| Ok(())));
          if probe.is_ok() { return Some("probe-for-a-foreign-tag-succeeds".into()) }
          if c2.as_slice() != before.as_slice() { return Some("failed-partial-decode-loses-data".into()) } }
        if c2.decode_partial(|c| exec(&[Prog::Take { opt: false, kind: 0, exp: None, body: Body::Generic }], c, &mut l)).is_err() { return Some("partial-decode-fails".into()) }
        if captured_mode(&c2) != mode { return Some("partial-decode-changes-the-mode-of-what-is-left".into()) }
        let after = c2.as_slice().to_vec();
        if !before.ends_with(&after) { return Some("partial-decode-overlap".into()) }
        seen.extend_from_slice(&before[..before.len() - after.len()]);
    }
    if seen != bytes || !c2.as_slice().is_empty() { return Some("partial-decodes-do-not-partition".into()) }
    // writing it back out reproduces it
    let mut w = Vec::new();
    if catch(|| cap.write_encoded(mode_of(mode), &mut w).unwrap()).is_none() { return Some("reencode-panics".into()) }
    if w != bytes || cap.encoded_len(mode_of(mode)) != bytes.len() { return Some("reencode-differs".into()) }
    if let Some(what) = awkward_targets(&bytes, 1 + bytes.len() % 4, &|t| { let mut t = t; cap.write_encoded(mode_of(mode), &mut t) }) { return Some(format!("reencode: {}", what)) }
    None
}

/// The mode a captured value carries, observed through the documented assertion of its encoder:
/// it can be written in its own mode and in BER only.
pub fn captured_mode(c: &bcder::Captured) -> u8 {
    use bcder::encode::Values;
    if catch(|| c.encoded_len(bcder::Mode::Der)).is_some() && catch(|| c.encoded_len(bcder::Mode::Cer)).is_none() { 2 }
    else if catch(|| c.encoded_len(bcder::Mode::Cer)).is_some() && catch(|| c.encoded_len(bcder::Mode::Der)).is_none() { 1 }
    else if catch(|| c.encoded_len(bcder::Mode::Der)).is_none() && catch(|| c.encoded_len(bcder::Mode::Cer)).is_none() { 0 }
    else { 9 }
}

pub fn run(em: &mut Emitter, rng: &mut Rng, thorough: bool) {
    let ctxs = [Ctx::Top, Ctx::Definite, Ctx::Indefinite];
    // a mode switch made inside a capture stays inside it: what follows the captured value is read under the
    // rules of the enclosing decoder (a BOOLEAN 0x01 and a non-minimal length are BER-only)
    for mode in 0..3u8 { for inner_mode in 0..3u8 { for ctx in ctxs {
        if !ctx_ok(mode, ctx) { continue }
        for tail in [&[0x01u8, 0x01, 0x01][..], &[0x01, 0x01, 0xff], &[0x01, 0x81, 0x01, 0xff]] {
            let mut inner = vec![0x04u8, 0x01, 0xaa]; inner.extend_from_slice(tail);
            let data = wrap(ctx, &inner);
            for body in [vec![Prog::SetMode(inner_mode), Prog::Take { opt: false, kind: 0, exp: None, body: Body::Generic }], vec![Prog::SetMode(inner_mode)]] {
                let first_read = body.len() == 2;
                let mut ps = vec![Prog::Capture(body)];
                if !first_read { ps.push(Prog::Take { opt: false, kind: 0, exp: None, body: Body::Generic }); }
                ps.push(Prog::Take { opt: false, kind: 1, exp: Some((0, 1)), body: Body::Typed(10) });
                ps.push(Prog::ReadAll);
                let ps = in_ctx(ctx, ps);
                let strict_ok = tail == [0x01, 0x01, 0xff];
                prog_case(em, 1101, mode, &ps, &data, move |obs| {
                    let accepted = obs.first() == Some(&0);
                    if accepted == (mode == 0 || strict_ok) { Oracle::Pass } else { Oracle::Fail("what-follows-a-capture-is-read-under-the-mode-set-inside-it".into()) }
                }, true);
            }
        }
    }}}
    // the rules of the mode in force hold inside a capture as well: BER-only forms (a non-minimal length, an
    // indefinite length under DER, a definite-length constructed value under CER) are refused by a read inside
    // `capture`, by `capture_one` and by `capture_all` exactly when a plain read refuses them
    let members: [&[u8]; 6] = [&[0x04, 0x01, 0x61], &[0x04, 0x81, 0x01, 0x61], &[0x30, 0x80, 0x02, 0x01, 0x05, 0x00, 0x00], &[0x30, 0x03, 0x02, 0x01, 0x05],
        &[0x30, 0x04, 0x02, 0x81, 0x01, 0x05], &[0x30, 0x80, 0x04, 0x81, 0x01, 0x61, 0x00, 0x00]];
    let cross = |em: &mut Emitter, mode: u8, ctx: Ctx, inner: &[u8]| {
        let data = wrap(ctx, inner);
        let valid = value_ranges(mode, inner).is_some();
        let n_any = value_ranges(0, inner).map(|r| r.len()).unwrap_or(0);
        for which in 0..4u8 {
            if ctx == Ctx::Indefinite && which != 0 && which != 3 { continue }
            let mut ps = vec![match which { 0 => Prog::CaptureOne, 1 => Prog::CaptureAll, 2 => Prog::Capture(vec![Prog::ReadAll]),
                _ => Prog::Capture(vec![Prog::Take { opt: false, kind: 0, exp: None, body: Body::Generic }]) }];
            ps.push(Prog::ReadAll);
            let ps = in_ctx(ctx, ps);
            let need_one = which == 0 || which == 3;
            prog_case(em, 1101, mode, &ps, &data, move |obs| {
                let accepted = obs.first() == Some(&0);
                if accepted == (valid && (!need_one || n_any > 0)) { Oracle::Pass } else { Oracle::Fail("capturing-applies-other-rules-than-the-mode-in-force".into()) }
            }, true);
        }
    };
    for mode in 0..3u8 { for ctx in ctxs { if !ctx_ok(mode, ctx) { continue }
        for m in members { cross(em, mode, ctx, m); let mut two = vec![0x05u8, 0x00]; two.extend_from_slice(m); cross(em, mode, ctx, &two); let mut t3 = m.to_vec(); t3.extend_from_slice(&[0x05, 0x00]); cross(em, mode, ctx, &t3); }
    }}
    for _ in 0..(if thorough { 40_000 } else { 1_500 }) {
        let mode = rng.below(3) as u8; let ctx = *rng.pick(&ctxs);
        if !ctx_ok(mode, ctx) { continue }
        // values encoded under the rules of another mode, with random BER length forms
        let emode = rng.below(3) as u8;
        let forest = random_forest(rng, emode, 3);
        let inner = encode_forest(&forest, emode, &mut Some(rng));
        if value_ranges(0, &inner).is_none() { continue }
        cross(em, mode, ctx, &inner);
    }
    for _ in 0..(if thorough { 200_000 } else { 5_000 }) {
        let mode = rng.below(3) as u8;
        let ctx = *rng.pick(&ctxs);
        if !ctx_ok(mode, ctx) { continue }
        let forest = random_forest(rng, mode, 4);
        let inner = encode_forest(&forest, mode, &mut Some(rng));
        let data = wrap(ctx, &inner);
        let ranges = match value_ranges(mode, &inner) { Some(r) => r, None => continue };
        let n = ranges.len();
        let hdr = data.len() - inner.len() - if ctx == Ctx::Indefinite { 2 } else { 0 };
        for j in 0..=n {
            // capture with a body reading k values
            for k in 0..=(n - j) {
                let mut ps: Vec<Prog> = (0..j).map(|_| Prog::Take { opt: true, kind: 0, exp: None, body: Body::Generic }).collect();
                ps.push(Prog::Capture((0..k).map(|_| Prog::Take { opt: false, kind: 0, exp: None, body: Body::Generic }).collect()));
                ps.push(Prog::ReadAll);
                let ps = in_ctx(ctx, ps);
                let (d2, r2) = (data.clone(), ranges.clone());
                prog_case(em, 1101, mode, &ps, &data, move |obs| {
                    if obs.first() != Some(&0) { return Oracle::Fail("capture-of-complete-values-fails".into()) }
                    let want: &[u8] = if k == 0 { &[] } else { &d2[hdr + r2[j].0..hdr + r2[j + k - 1].1] };
                    // the captured octets appear in the log as  len b0 b1 ...  after the body's log; search from the end:
                    // log = ... body-log, captured, read-all-log. Compare via an implementation-only run instead.
                    let got = capture_bytes(mode, &d2, ctx, j, k);
                    match got {
                        Some(g) if g == want => match later_use(mode, &d2, ctx, j, k) { None => Oracle::Pass, Some(t) => Oracle::Fail(t) },
                        Some(_) => Oracle::Fail("captured-range-differs".into()),
                        None => Oracle::Fail("capture-failed".into()),
                    }
                }, k > 0);
            }
            // capture_one / capture_all / a body that reads until absent
            for which in 0..3u8 {
                let mut ps: Vec<Prog> = (0..j).map(|_| Prog::Take { opt: true, kind: 0, exp: None, body: Body::Generic }).collect();
                ps.push(match which { 0 => Prog::CaptureOne, 1 => Prog::CaptureAll, _ => Prog::Capture(vec![Prog::ReadAll]) });
                ps.push(Prog::ReadAll);
                let ps = in_ctx(ctx, ps);
                let (d2, r2) = (data.clone(), ranges.clone());
                prog_case(em, 1101, mode, &ps, &data, move |obs| {
                    if which == 0 && j == n { return if obs == [1] { Oracle::Pass } else { Oracle::Fail("capture-one-at-end".into()) } }
                    if obs.first() != Some(&0) { return Oracle::Fail("capture-fails".into()) }
                    let (a, b) = if which == 0 { (r2[j].0, r2[j].1) } else if j == n { (inner_end(&r2), inner_end(&r2)) } else { (r2[j].0, inner_end(&r2)) };
                    let want = &d2[hdr + a..hdr + b];
                    let got = capture_bytes_which(mode, &d2, ctx, j, which);
                    match got {
                        Some(g) if g == want => Oracle::Pass,
                        Some(g) if which != 0 && ctx == Ctx::Indefinite && g.len() == want.len() + 2 && g.starts_with(want) && g.ends_with(&[0, 0]) =>
                            Oracle::Fail("D18-capture-body-consumed-enclosing-end-of-contents".into()),
                        Some(_) => Oracle::Fail("captured-range-differs".into()),
                        None => Oracle::Fail("capture-failed".into()),
                    }
                }, true);
            }
        }
        for _ in 0..2 {
            let bad = mutate(rng, &data);
            let j = rng.below(2) as usize;
            let mut ps: Vec<Prog> = (0..j).map(|_| Prog::Take { opt: true, kind: 0, exp: None, body: Body::Generic }).collect();
            ps.push(match rng.below(3) { 0 => Prog::CaptureOne, 1 => Prog::CaptureAll, _ => Prog::Capture(vec![Prog::Take { opt: true, kind: 0, exp: None, body: Body::Generic }]) });
            ps.push(Prog::ReadAll);
            let ps = in_ctx(ctx, ps);
            prog_case(em, 1101, mode, &ps, &bad, |obs| if obs.first() == Some(&3) { Oracle::Fail("panic".into()) } else { Oracle::None }, true);
        }
    }
    let _ = ints_of;
}

fn inner_end(r: &[(usize, usize)]) -> usize { r.last().map(|x| x.1).unwrap_or(0) }

fn capture_bytes(mode: u8, data: &[u8], ctx: Ctx, j: usize, k: usize) -> Option<Vec<u8>> {
    let body: Vec<Prog> = (0..k).map(|_| Prog::Take { opt: false, kind: 0, exp: None, body: Body::Generic }).collect();
    capture_with(mode, data, ctx, j, move |cons| cons.capture(|c| { let mut l = Vec::new(); exec_with::<_, CapNo>(&body, c, &mut l) }))
}
fn capture_bytes_which(mode: u8, data: &[u8], ctx: Ctx, j: usize, which: u8) -> Option<Vec<u8>> {
    capture_with(mode, data, ctx, j, move |cons| match which {
        0 => cons.capture_one(),
        1 => cons.capture_all(),
        _ => cons.capture(|c| { let mut l = Vec::new(); exec_with::<_, CapNo>(&[Prog::ReadAll], c, &mut l) }),
    })
}
fn capture_with(
    mode: u8, data: &[u8], ctx: Ctx, j: usize,
    f: impl FnOnce(&mut Constructed<bcder::decode::SliceSource>) -> Result<bcder::Captured, bcder::decode::DecodeError<std::convert::Infallible>>,
) -> Option<Vec<u8>> {
    let pre: Vec<Prog> = (0..j).map(|_| Prog::Take { opt: true, kind: 0, exp: None, body: Body::Generic }).collect();
    let mut out = None;
    let run = |cons: &mut Constructed<bcder::decode::SliceSource>| -> Result<(), bcder::decode::DecodeError<std::convert::Infallible>> {
        let mut l = Vec::new();
        exec(&pre, cons, &mut l)?;
        out = Some(f(cons)?.as_slice().to_vec());
        Ok(())
    };
    let _ = match ctx {
        Ctx::Top => Constructed::decode(data.into_source(), mode_of(mode), run),
        _ => Constructed::decode(data.into_source(), mode_of(mode), |c| c.take_sequence(run)),
    };
    out
}
