//! Correspondence harness for the bcder verification.
//!
//! usage: harness <PROPERTY> <quick|thorough> <seed> <shard> <nshards>
//!
//! Prints one line per case: `sid|args|observation|oracle|nontrivial`
//! (see /verif/ocaml/driver.ml). The observation is what the *real* bcder
//! crate (built from /repo's working tree) does on the case's input.

mod common;
mod c01;
mod c02;
mod c03;
mod c04;
mod c05;
mod c06;
mod c07;
mod c09;
mod c10;
mod c11;
mod c12;
mod c13;
mod c14;
mod c15;
mod c16;
mod c18;
mod c19;
mod c20;
mod dynenc;
mod gen;
mod prog;
mod sources;

use common::*;

#[global_allocator]
static ALLOC: Counting = Counting;

fn main() {
    let a: Vec<String> = std::env::args().collect();
    if a.len() < 6 {
        eprintln!("usage: harness <PROPERTY> <quick|thorough> <seed> <shard> <nshards>");
        std::process::exit(2);
    }
    let prop = a[1].as_str();
    let thorough = a[2] == "thorough";
    let seed: u64 = a[3].parse().unwrap();
    let shard: u64 = a[4].parse().unwrap();
    let nshards: u64 = a[5].parse().unwrap();
    std::panic::set_hook(Box::new(|_| {}));
    // hang watchdog: a case running longer than the limit ends the process with status 97
    let hang_ms: u64 = std::env::var("VERIF_HANG_MS").ok().and_then(|v| v.parse().ok()).unwrap_or(60_000);
    std::thread::spawn(move || loop {
        std::thread::sleep(std::time::Duration::from_millis(250));
        let st = CASE_START.load(std::sync::atomic::Ordering::Relaxed);
        if st != 0 && now_ms() > st + hang_ms { eprintln!("HANG: a case ran longer than {} ms", hang_ms); std::process::exit(97); }
    });
    let mut em = Emitter::new(shard, nshards);
    let mut rng = Rng::new(seed);
    match prop {
        "C01" => c01::run(&mut em, &mut rng, thorough),
        "C02" => c02::run(&mut em, &mut rng, thorough),
        "C03" => c03::run(&mut em, &mut rng, thorough),
        "C11" => c11::run(&mut em, &mut rng, thorough),
        "C04" => c04::run(&mut em, &mut rng, thorough),
        "C05" => c05::run(&mut em, &mut rng, thorough),
        "C06" => c06::run(&mut em, &mut rng, thorough),
        "C07" => c07::run(&mut em, &mut rng, thorough),
        "C08" => c07::run08(&mut em, &mut rng, thorough),
        "C09" => c09::run(&mut em, &mut rng, thorough),
        "C10" => c10::run(&mut em, &mut rng, thorough),
        "C12" => c12::run(&mut em, &mut rng, thorough),
        "C13" => c13::run(&mut em, &mut rng, thorough),
        "C14" => c14::run(&mut em, &mut rng, thorough),
        "C15" => c15::run(&mut em, &mut rng, thorough),
        "C16" => c16::run16(&mut em, &mut rng, thorough),
        "C17" => c16::run17(&mut em, &mut rng, thorough),
        "C18" => c18::run(&mut em, &mut rng, thorough),
        "C19" => c19::run(&mut em, &mut rng, thorough),
        "C20" => c20::run(&mut em, &mut rng, thorough),
        _ => { eprintln!("unknown property {}", prop); std::process::exit(2); }
    }
    em.finish();
}
