//! C04 / C05: encode-decode round trips of typed records; DER canonicity.

use crate::common::*;
use crate::dynenc::*;
use crate::prog::*;
use crate::c02::{ints_of, prog_case};
use crate::c12::ref_ident;
use crate::gen::mutate;
use bcder::encode::Values;

fn log_tag(log: &mut Vec<i128>, c: u8, n: u32, cons: bool) { let id = ref_ident(c, cons, n); log.push(id.len() as i128); for b in id { log.push(b as i128); } }
fn log_bytes(log: &mut Vec<i128>, b: &[u8]) { log.push(b.len() as i128); for x in b { log.push(*x as i128); } }

static OUTER_MODE: std::sync::atomic::AtomicU8 = std::sync::atomic::AtomicU8::new(0);

/// a field: (encoder, decoding step, expected log of that step, tag)
struct Field { enc: Dyn, dec: Prog, log: Vec<i128>, tag: (u8, u32) }

fn random_field(rng: &mut Rng, depth: u32, used: &mut Vec<(u8, u32)>, der: bool) -> Field {
    // a tag not used by a neighbouring optional field, so that decoding is deterministic
    let mut tag;
    loop { tag = if rng.chance(1, 2) { (2u8, rng.below(40) as u32) } else { (*rng.pick(&[0u8, 1, 2, 3]), *rng.pick(&[1u32, 2, 5, 30, 31, 127, 128, 16383, 16384, 0x1f_ffff])) }; if !used.contains(&tag) && tag != (0, 0) { break } }
    used.push(tag);
    let (c, n) = tag;
    let mut log = vec![1i128];
    let outer = OUTER_MODE.load(std::sync::atomic::Ordering::Relaxed);
    let mut kind = if depth == 0 { rng.below(7) } else { rng.below(11) };
    if kind == 10 && (outer == 1 || used.iter().filter(|t| **t == (0, 4)).count() > 0 || tag == (0, 4)) { kind = 8; }
    match kind {
        10 => { // OCTET STRING wrapping the encoding (in its own mode) of further values
               used.pop(); used.push((0, 4));
               let wm = rng.below(3) as u8;
               let mut u2 = Vec::new(); let inner = random_field(rng, depth - 1, &mut u2, der);
               let (inner_enc, body) = match ref_encode(&inner.enc, wm) { Some(b) => (inner.enc, b), None => { let e = Dyn::Bool(2, 1, true); let b = ref_encode(&e, wm).unwrap(); (e, b) } };
               log_tag(&mut log, 0, 4, false); log.push(0); log_bytes(&mut log, &body);
               Field { enc: Dyn::Wrapped(wm, Box::new(inner_enc)), dec: Prog::Take { opt: false, kind: 1, exp: Some((0, 4)), body: Body::Generic }, log, tag: (0, 4) } }
        0 => { let ty = rng.below(10) as u8; let bits = [7u32, 15, 31, 63, 126, 8, 16, 32, 64, 126][ty as usize];
               let mut mag = rng.u128() >> (128 - rng.range(1, bits as u64) as u32); let mut neg = ty < 5 && rng.bool() && mag != 0;
               // often a value next to a power of two where the number of content octets changes, either sign
               if rng.chance(1, 3) { let sh = 7 + 8 * rng.below((bits as u64 + 1) / 8) as u32; neg = ty < 5 && rng.bool();
                   let p = 1u128 << sh.min(bits); let cand = match rng.below(3) { 0 => p - 1, 1 => p, _ => p + 1 };
                   mag = cand.min(if neg { 1u128 << bits } else { (1u128 << bits) - 1 }); if mag == 0 { neg = false; } }
               log_tag(&mut log, c, n, false); log.push(if neg { -(mag as i128) } else { mag as i128 });
               Field { enc: Dyn::Int(c, n, ty, neg, mag), dec: Prog::Take { opt: false, kind: 1, exp: Some(tag), body: Body::Typed(ty) }, log, tag } }
        1 => { let b = rng.bool(); log_tag(&mut log, c, n, false); log.push(b as i128);
               Field { enc: Dyn::Bool(c, n, b), dec: Prog::Take { opt: false, kind: 1, exp: Some(tag), body: Body::Typed(10) }, log, tag } }
        2 => { log_tag(&mut log, c, n, false);
               Field { enc: Dyn::Null(c, n), dec: Prog::Take { opt: false, kind: 1, exp: Some(tag), body: Body::Typed(11) }, log, tag } }
        3 => { let k = rng.below(6) as usize; let mut o = rng.bytes(k + 1); let l = o.len(); o[l - 1] &= 0x7f; log_tag(&mut log, c, n, false); log_bytes(&mut log, &o);
               Field { enc: Dyn::Prim(c, n, o), dec: Prog::Take { opt: false, kind: 1, exp: Some(tag), body: Body::Typed(12) }, log, tag } }
        4 => { let k = *rng.pick(&[0usize, 1, 2, 5, 127, 128, 200, 998, 999]); let b = rng.bytes(k); let u = if k == 0 { 0 } else { rng.below(8) as u8 };
               log_tag(&mut log, c, n, false); log.push(u as i128); log_bytes(&mut log, &b);
               Field { enc: Dyn::Bits(c, n, u, b), dec: Prog::Take { opt: false, kind: 0, exp: Some(tag), body: Body::Typed(14) }, log, tag } }
        5 => { // sizes that put this value, or the record around it, next to a length-octet boundary
               let k = match rng.below(4) { 0 => rng.range(118, 132) as usize, 1 => rng.range(246, 260) as usize, _ => *rng.pick(&[0usize, 1, 3, 127, 128, 255, 256, 300]) }; let b = rng.bytes(k); log_tag(&mut log, c, n, false); log.push(0); log_bytes(&mut log, &b);
               Field { enc: Dyn::Prim(c, n, b), dec: Prog::Take { opt: false, kind: 1, exp: Some(tag), body: Body::Generic }, log, tag } }
        6 => { // arbitrary-size Integer content kept verbatim
               let v = crate::c14::ref_tc_min(rng.bool(), rng.u128() >> rng.below(120)); log_tag(&mut log, c, n, false); log_bytes(&mut log, &v);
               Field { enc: Dyn::Prim(c, n, v), dec: Prog::Take { opt: false, kind: 1, exp: Some(tag), body: Body::Typed(16) }, log, tag } }
        7 => { // explicitly tagged field
               let mut u2 = Vec::new(); let inner = random_field(rng, depth - 1, &mut u2, der);
               log_tag(&mut log, c, n, true); log.extend(inner.log.clone());
               Field { enc: Dyn::Cons(c, n, 3, Box::new(inner.enc)), dec: Prog::Take { opt: false, kind: 2, exp: Some(tag), body: Body::Prog(vec![inner.dec]) }, log, tag } }
        8 => { // nested SEQUENCE / SET with its own fields (tuple of arity k)
               let (e, d, l) = random_fields(rng, depth - 1, der);
               log_tag(&mut log, c, n, true); log.extend(l);
               Field { enc: Dyn::Cons(c, n, rng.below(3) as u8, Box::new(e)), dec: Prog::Take { opt: false, kind: 2, exp: Some(tag), body: Body::Prog(d) }, log, tag } }
        _ => { // SET OF i16 through Vec / slice / iter / Slice
               let k = rng.below(5) as usize; let vals: Vec<i16> = (0..k).map(|_| rng.next() as i16).collect();
               log_tag(&mut log, c, n, true);
               let mut decs = Vec::new();
               for v in &vals { log.push(1); log_tag(&mut log, 0, 2, false); log.push(*v as i128); decs.push(Prog::Take { opt: false, kind: 1, exp: Some((0, 2)), body: Body::Typed(1) }); }
               let rep = *rng.pick(&[0u8, 1, 3, 4]);
               let seq = Dyn::Seq(rep, vals.iter().map(|v| Dyn::Int(0, 2, 1, *v < 0, (*v as i32).unsigned_abs() as u128)).collect());
               Field { enc: Dyn::Cons(c, n, 2, Box::new(seq)), dec: Prog::Take { opt: false, kind: 2, exp: Some(tag), body: Body::Prog(decs) }, log, tag } }
    }
}

/// a list of fields, some of them OPTIONAL (present or absent)
fn random_fields(rng: &mut Rng, depth: u32, der: bool) -> (Dyn, Vec<Prog>, Vec<i128>) {
    let k = if rng.chance(1, 8) { rng.range(7, 12) as usize } else { rng.below(5) as usize };
    let mut used = Vec::new();
    let mut encs = Vec::new(); let mut decs = Vec::new(); let mut log = Vec::new();
    for _ in 0..k {
        let f = random_field(rng, depth, &mut used, der);
        if rng.chance(1, 4) {
            // OPTIONAL
            let present = rng.bool();
            let dec = match f.dec { Prog::Take { kind, exp, body, .. } => Prog::Take { opt: true, kind, exp, body }, d => d };
            if present { encs.push(Dyn::Opt(Some(Box::new(f.enc)))); log.extend(f.log); } else { encs.push(Dyn::Opt(None)); log.push(0); }
            decs.push(dec);
        } else { encs.push(f.enc); decs.push(f.dec); log.extend(f.log); }
        let _ = f.tag;
    }
    (Dyn::Seq(2, encs), decs, log)
}

/// 402: the string types, which the encoder-tree language does not carry as typed fields: a value built
/// from text (or octets), written by its own encoder in a mode and read back by its own reader in the same
/// mode (and DER output in BER mode) is the same value; the octets are a well-formed encoding.
fn string_roundtrip(em: &mut Emitter, cs: u8, m: u8, text: &str) {
    use bcder::{Ia5String, NumericString, OctetString, PrintableString, Utf8String, Mode};
    use bcder::decode::{Constructed, IntoSource};
    use std::str::FromStr;
    em.case(402, &[num_arg(cs), num_arg(m), bytes_arg(&text.as_bytes()[..text.len().min(60)]), num_arg(text.len())], || {
        let mode = modeof(m);
        macro_rules! rt { ($t:ty) => {{
            let s = match <$t>::from_str(text) { Ok(s) => s, Err(_) => return false };
            let mut w = Vec::new(); s.encode_ref().write_encoded(mode, &mut w).unwrap();
            let l = s.encode_ref().encoded_len(mode);
            let mut ok = l == w.len() && crate::gen::ref_parse_seq(m, &w, crate::gen::Ctx::Top, 0).map(|(_, u)| u == w.len()).unwrap_or(false);
            let mut dms = vec![mode]; if m == 2 { dms.push(Mode::Ber); }
            for dm in dms { match Constructed::decode(w.as_slice().into_source(), dm, |c| <$t>::take_from(c)) {
                Ok(back) => { if back.to_string() != text || back != s { ok = false; } } Err(_) => ok = false } }
            ok
        }}; }
        let r = catch(|| match cs { 0 => rt!(Utf8String), 1 => rt!(NumericString), 2 => rt!(PrintableString), 3 => rt!(Ia5String),
            _ => { let s = OctetString::new(bytes::Bytes::copy_from_slice(text.as_bytes()));
                   let mut w = Vec::new(); s.encode_ref().write_encoded(mode, &mut w).unwrap();
                   let mut ok = s.encode_ref().encoded_len(mode) == w.len();
                   let mut dms = vec![mode]; if m == 2 { dms.push(Mode::Ber); }
                   for dm in dms { match Constructed::decode(w.as_slice().into_source(), dm, |c| OctetString::take_from(c)) { Ok(b) => if b != s { ok = false }, Err(_) => ok = false } }
                   ok } });
        (Ints::new().n(1), match r { Some(true) => Oracle::Pass, Some(false) => Oracle::Fail("string-does-not-round-trip".into()), None => Oracle::Fail("string-codec-panics".into()) }, true)
    });
}

pub fn run(em: &mut Emitter, rng: &mut Rng, thorough: bool) {
    // ---- 402: strings ----
    let planes: [char; 16] = ['a', '\u{7f}', '\u{80}', '\u{7ff}', '\u{800}', '\u{d7ff}', '\u{e000}', '\u{ffff}', '\u{10000}', '\u{3ffff}', '\u{40000}', '\u{fffff}', '\u{100000}', '\u{10ffff}', '€', '😀'];
    for _ in 0..(if thorough { 20_000 } else { 1_500 }) {
        let cs = rng.below(5) as u8;
        let n = match rng.below(8) { 0 => 0, 1 => 1, 2 => 127, 3 => 128, 4 => rng.range(250, 260) as usize, _ => rng.range(2, 30) as usize };
        let text: String = (0..n).map(|_| match cs { 0 | 4 => *rng.pick(&planes), 1 => *rng.pick(&['0', '5', '9', ' ']), 2 => *rng.pick(&['A', 'z', '0', '\'', '(', ')', '+', ',', '-', '.', '/', ':', '=', '?', ' ']), _ => (rng.below(128) as u8) as char }).collect();
        for m in [0u8, 2] { string_roundtrip(em, cs, m, &text); }
    }
    for &c in &planes { for m in [0u8, 2] { string_roundtrip(em, 0, m, &c.to_string()); string_roundtrip(em, 4, m, &c.to_string()); } }

    for _ in 0..(if thorough { 240_000 } else { 6_000 }) {
        let m = rng.below(3) as u8;
        OUTER_MODE.store(m, std::sync::atomic::Ordering::Relaxed);
        let (e, d, l) = random_fields(rng, 3, m == 2);
        let rec = Dyn::Cons(0, 16, 1, Box::new(e));
        let prog = vec![Prog::Take { opt: false, kind: 2, exp: Some((0, 16)), body: Body::Prog(d) }];
        let mut want = vec![1i128]; log_tag(&mut want, 0, 16, true); want.extend(l);
        let mut dms = vec![m]; if m == 2 { dms.push(0); }
        for dm in dms {
            let mut code: Vec<String> = Vec::new(); enc_dyn(&rec, &mut code);
            let mut pcode = Vec::new(); enc_progs(&prog, &mut pcode);
            let (rec2, prog2, want2) = (rec.clone(), prog.clone(), want.clone());
            em.case(401, &[num_arg(m), Ints(code), ints_of(&pcode), num_arg(dm)], move || {
                let w = catch(|| { let mut v = Vec::new(); rec2.write_encoded(modeof(m), &mut v).unwrap(); v });
                match w {
                    Some(bytes) => {
                        let obs = run_slice(dm, &prog2, &bytes);
                        let mut o = Ints::new().n(R_OK).bytes(&bytes); for x in &obs { o.push(x); }
                        // oracle: decoding succeeds, consumes everything, yields the same values;
                        // the octets are well-formed for the mode (reference parser)
                        let mut full = vec![0i128, 0]; full.extend(want2.clone());
                        let orc = if obs != full { Oracle::Fail("decode-of-encode-differs".into()) }
                                  else if crate::gen::ref_parse_seq(m, &bytes, crate::gen::Ctx::Top, 0).map(|(_, u)| u != bytes.len()).unwrap_or(true) { Oracle::Fail("encoding-not-well-formed".into()) }
                                  else { Oracle::Pass };
                        (o, orc, true)
                    }
                    None => (Ints::new().n(R_PANIC), Oracle::Fail("encode-panics".into()), true),
                }
            });
        }
        // C05: single-point non-canonical variants of the DER encoding must be rejected
        // or decode to different values
        if m == 2 {
            let bytes = { let mut v = Vec::new(); rec.write_encoded(modeof(2), &mut v).unwrap(); v };
            for _ in 0..3 {
                let bad = der_variant(rng, &bytes);
                if bad == bytes { continue }
                let want3 = want.clone();
                prog_case(em, 502, 2, &prog, &bad, move |obs| {
                    let mut full = vec![0i128, 0]; full.extend(want3);
                    if obs == full.as_slice() { Oracle::Fail("two-der-encodings-decode-to-equal-values".into()) }
                    else if obs.first() == Some(&3) { Oracle::Fail("panic".into()) } else { Oracle::Pass }
                }, true);
            }
        }
    }
}

/// targeted non-canonical variants: long-form lengths, padded integers,
/// BOOLEAN != 00/FF, indefinite form, plus generic mutations
fn der_variant(rng: &mut Rng, d: &[u8]) -> Vec<u8> {
    let mut v = d.to_vec();
    match rng.below(5) {
        0 => { // find a short-form length octet following a one-octet identifier and make it long form
               for i in 0..v.len().saturating_sub(1) { if v[i] & 0x1f != 0x1f && v[i + 1] < 0x80 && rng.chance(1, 3) { let l = v[i + 1]; v.insert(i + 1, 0x81); let _ = l; break } } v }
        1 => { for i in 0..v.len().saturating_sub(2) { if v[i] == 0x01 && v[i + 1] == 0x01 && v[i + 2] == 0xff { v[i + 2] = 0x01; break } } v }
        2 => { for i in 0..v.len().saturating_sub(2) { if v[i] == 0x02 && v[i + 1] >= 1 && v[i + 1] < 0x7f && rng.chance(1, 2) { let pad = if v[i + 2] >= 0x80 { 0xff } else { 0 }; v[i + 1] += 1; v.insert(i + 2, pad); break } } v }
        3 => { if v.len() >= 2 && v[0] == 0x30 && v[1] < 0x80 { let mut w = vec![0x30, 0x80]; w.extend_from_slice(&v[2..]); w.extend_from_slice(&[0, 0]); w } else { v } }
        _ => mutate(rng, d),
    }
}
