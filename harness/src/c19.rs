//! C19: bit strings expose exactly the encoded bits.

use crate::common::*;
use bcder::decode::{Constructed, IntoSource};
use bcder::encode::{PrimitiveContent, Values};
use bcder::{BitString, Mode};

/// TLV with a minimal definite length.
pub fn tlv(tag: u8, c: &[u8]) -> Vec<u8> {
    let mut v = vec![tag];
    let n = c.len();
    if n < 128 { v.push(n as u8); }
    else if n < 256 { v.extend_from_slice(&[0x81, n as u8]); }
    else if n < 65536 { v.extend_from_slice(&[0x82, (n >> 8) as u8, n as u8]); }
    else { v.extend_from_slice(&[0x83, (n >> 16) as u8, (n >> 8) as u8, n as u8]); }
    v.extend_from_slice(c);
    v
}

fn ref_accept(mode: u8, c: &[u8]) -> bool {
    !c.is_empty() && c[0] <= 7 && !(c.len() == 1 && c[0] != 0) && !(mode == 1 && c.len() > 1000)
}
fn ref_bit(unused: u8, bits: &[u8], i: usize) -> bool {
    let blen = bits.len() * 8 - unused as usize;
    if i >= blen { return false }
    (bits[i / 8] >> (7 - (i % 8))) & 1 == 1
}

fn decode_case(em: &mut Emitter, mode: u8, c: &[u8]) {
    em.case(1901, &[num_arg(mode), bytes_arg(c)], || {
        let r = catch(|| {
            let t = tlv(0x03, c);
            let take = Constructed::decode(t.as_slice().into_source(), mode_of(mode), |cons| BitString::take_from(cons)).ok();
            let skip = Constructed::decode(t.as_slice().into_source(), mode_of(mode), |cons| BitString::skip_in(cons)).is_ok();
            // constructed form is never accepted (BER/CER: not implemented, DER: forbidden)
            let t2 = if mode == 1 { let mut v = vec![0x23, 0x80]; v.extend_from_slice(c); v.extend_from_slice(&[0, 0]); v } else { tlv(0x23, c) };
            let ctake = Constructed::decode(t2.as_slice().into_source(), mode_of(mode), |cons| BitString::take_from(cons)).is_ok();
            let cskip = Constructed::decode(t2.as_slice().into_source(), mode_of(mode), |cons| BitString::skip_in(cons)).is_ok();
            // the same through a source that shows exactly what was requested
            let lazy_take = { let mut src = crate::sources::FlexSource::new(&t, crate::sources::Policy::Exact, None);
                              Constructed::decode(&mut src, mode_of(mode), |cons| BitString::take_from(cons)).ok().map(|b| (b.unused(), b.octet_bytes().to_vec())) };
            let lazy_skip = { let mut src = crate::sources::FlexSource::new(&t, crate::sources::Policy::Exact, None);
                              Constructed::decode(&mut src, mode_of(mode), |cons| BitString::skip_in(cons)).is_ok() };
            let mut lazy_same = lazy_take == take.as_ref().map(|b| (b.unused(), b.octet_bytes().to_vec())) && lazy_skip == skip;
            // where no BIT STRING is next (another tag with the same content, nothing at all, the end of a
            // SEQUENCE) taking and skipping alike are errors
            for foreign in [tlv(0x04, c), tlv(0x83, c), vec![], vec![0x05, 0x00]] {
                let ft = Constructed::decode(foreign.as_slice().into_source(), mode_of(mode), |cons| BitString::take_from(cons)).is_ok();
                let fs = Constructed::decode(foreign.as_slice().into_source(), mode_of(mode), |cons| BitString::skip_in(cons)).is_ok();
                if ft || fs { lazy_same = false; }
            }
            // cut short by the end of the input (alone and inside a SEQUENCE announcing the full size): both fail
            if !c.is_empty() {
                for cut in [t.len() - 1, t.len() - c.len().min(2), t.len() - c.len()] {
                    let short = &t[..cut];
                    let tt = Constructed::decode(short.into_source(), mode_of(mode), |cons| BitString::take_from(cons)).is_ok();
                    let ts = Constructed::decode(short.into_source(), mode_of(mode), |cons| BitString::skip_in(cons)).is_ok();
                    if tt || ts { lazy_same = false; }
                    if mode != 1 && t.len() < 120 {
                        let mut w = vec![0x30u8, t.len() as u8]; w.extend_from_slice(short);
                        let wt = Constructed::decode(w.as_slice().into_source(), mode_of(mode), |cons| cons.take_sequence(|k| BitString::take_from(k).map(|_| ()))).is_ok();
                        let ws = Constructed::decode(w.as_slice().into_source(), mode_of(mode), |cons| cons.take_sequence(|k| BitString::skip_in(k))).is_ok();
                        if wt || ws { lazy_same = false; }
                    }
                }
            }
            // equality is by unused-bit count AND octets: the same data octets under another count are another value
            if let Some(a) = &take {
                if c.len() >= 2 {
                    let mut c2 = c.to_vec(); c2[0] = (c[0] + 1) % 8;
                    let t3 = tlv(0x03, &c2);
                    if let Ok(b) = Constructed::decode(t3.as_slice().into_source(), mode_of(mode), |cons| BitString::take_from(cons)) {
                        if *a == b || !(*a != b) { lazy_same = false; }
                    }
                    let mut c3 = c.to_vec(); let l = c3.len(); c3[l - 1] ^= 0x80;
                    let t4 = tlv(0x03, &c3);
                    if let Ok(b) = Constructed::decode(t4.as_slice().into_source(), mode_of(mode), |cons| BitString::take_from(cons)) {
                        if *a == b { lazy_same = false; }
                    }
                }
                if *a != a.clone() || *a != BitString::new(a.unused(), a.octet_bytes()) { lazy_same = false; }
            }
            if mode != 1 {
                let es = Constructed::decode([0x30u8, 0x00].as_ref().into_source(), mode_of(mode), |cons| cons.take_sequence(|k| BitString::skip_in(k))).is_ok();
                let et = Constructed::decode([0x30u8, 0x00].as_ref().into_source(), mode_of(mode), |cons| cons.take_sequence(|k| BitString::take_from(k).map(|_| ()))).is_ok();
                if es || et { lazy_same = false; }
            }
            (take, skip, ctake, cskip, lazy_same)
        });
        match r {
            Some((take, skip, ctake, cskip, lazy_same)) => {
                let exp = ref_accept(mode, c);
                let mut obs = Ints::new();
                let mut orc = if lazy_same { Oracle::Pass } else { Oracle::Fail("bit-string-take-and-skip-disagree-across-sources-or-accept-where-no-complete-bit-string-is-or-equality-is-not-by-count-and-octets".into()) };
                match &take {
                    Some(bs) => {
                        let oct = bs.octet_bytes();
                        obs = obs.n(R_OK).n(bs.unused()).bytes(&oct).n(bs.bit_len()).n(bs.octet_len());
                        if !exp { orc = Oracle::Fail("accepts-invalid".into()); }
                        else if bs.unused() != c[0] || oct.as_ref() != &c[1..] || bs.octet_slice() != Some(&c[1..])
                            || bs.octets().collect::<Vec<u8>>() != c[1..]
                            || bs.bit_len() != (c.len() - 1) * 8 - c[0] as usize { orc = Oracle::Fail("views".into()); }
                        else {
                            for i in 0..bs.bit_len() + 16 {
                                if bs.bit(i) != ref_bit(c[0], &c[1..], i) { orc = Oracle::Fail("bit".into()); break }
                            }
                            // re-encoding reproduces the content
                            if bs.to_encoded_bytes(Mode::Der).as_ref() != c { orc = Oracle::Fail("reencode".into()); }
                        }
                    }
                    None => { obs = obs.n(R_CERR); if exp { orc = Oracle::Fail("rejects-valid".into()); } }
                }
                obs = obs.n(if skip { R_OK } else { R_CERR }).n(if ctake { R_OK } else { R_CERR }).n(if cskip { R_OK } else { R_CERR });
                if skip != exp { orc = Oracle::Fail("skip-differs".into()); }
                if ctake || cskip { orc = Oracle::Fail("constructed-accepted".into()); }
                (obs, orc, !c.is_empty())
            }
            None => (Ints::new().n(R_PANIC), Oracle::Fail("panic".into()), true),
        }
    });
}

fn bit_case(em: &mut Emitter, unused: u8, bits: &[u8], i: usize) {
    em.case(1902, &[num_arg(unused), bytes_arg(bits), num_arg(i)], || {
        let valid = unused <= 7 && (!bits.is_empty() || unused == 0);
        let r = catch(|| {
            let bs = BitString::new(unused, bytes::Bytes::copy_from_slice(bits));
            (bs.bit(i), bs.bit_len())
        });
        match r {
            Some((b, bl)) => {
                let ok = valid && b == ref_bit(unused, bits, i) && bl == bits.len() * 8 - unused as usize;
                (Ints::new().n(R_OK).b(b).n(bl), if ok { Oracle::Pass } else { Oracle::Fail("bit".into()) }, true)
            }
            None => (Ints::new().n(R_PANIC), if valid { Oracle::Fail("panic".into()) } else { Oracle::Pass }, false),
        }
    });
}

fn enc_case(em: &mut Emitter, unused: u8, bits: &[u8]) {
    em.case(1903, &[num_arg(unused), bytes_arg(bits)], || {
        let r = catch(|| {
            let bs = BitString::new(unused, bytes::Bytes::copy_from_slice(bits));
            let content = bs.to_encoded_bytes(Mode::Der).to_vec();
            let el = PrimitiveContent::encoded_len(&bs, Mode::Ber);
            // full TLV through both encoders
            let mut w1 = Vec::new(); bs.encode_ref().write_encoded(Mode::Der, &mut w1).unwrap();
            let mut w2 = Vec::new(); BitString::encode_slice(bits, unused).write_encoded(Mode::Ber, &mut w2).unwrap();
            let l1 = bs.encode_ref().encoded_len(Mode::Der);
            let l2 = BitString::encode_slice(bits, unused).encoded_len(Mode::Ber);
            // nested in a SEQUENCE the announced size of either encoder becomes the parent's length octets
            let mut s1 = Vec::new(); bcder::encode::sequence((BitString::encode_slice(bits, unused), bs.encode_ref())).write_encoded(Mode::Der, &mut s1).unwrap();
            let inner_len = 2 * w1.len();
            let mut want = vec![0x30u8]; want.extend(crate::gen::ref_len_octets(inner_len)); want.extend_from_slice(&w1); want.extend_from_slice(&w1);
            let mut l1 = if s1 == want { l1 } else { usize::MAX };
            // the same under other tags, with one to four identifier octets: announced = written = reference
            for (cls, num) in [(2u8, 0u32), (2, 30), (2, 31), (1, 127), (3, 128), (2, 16383), (2, 16384), (0, 0x1f_ffff)] {
                let tag = crate::c12::mk_tag(cls, num);
                let mut id = Vec::new(); tag.write_encoded(false, &mut id).unwrap();
                let mut want_t = id.clone(); want_t.extend_from_slice(&w1[1..]);
                let e1 = BitString::encode_slice_as(bits, unused, tag); let e2 = bs.encode_ref_as(tag);
                let mut a = Vec::new(); e1.write_encoded(Mode::Der, &mut a).unwrap();
                let mut b = Vec::new(); e2.write_encoded(Mode::Ber, &mut b).unwrap();
                if a != want_t || b != want_t || e1.encoded_len(Mode::Der) != want_t.len() || e2.encoded_len(Mode::Ber) != want_t.len() { l1 = usize::MAX; }
            }
            (content, el, w1, w2, l1, l2)
        });
        match r {
            Some((content, el, w1, w2, l1, l2)) => {
                let mut exp = vec![unused]; exp.extend_from_slice(bits);
                let t = tlv(0x03, &exp);
                let ok = content == exp && el == exp.len() && w1 == t && w2 == t && l1 == t.len() && l2 == t.len();
                let bs = BitString::new(unused, bytes::Bytes::copy_from_slice(bits));
                let awkward = awkward_targets(&t, 1 + bits.len() % 3, &|tg| { let mut tg = tg; bs.encode_ref().write_encoded(Mode::Der, &mut tg) })
                    .or_else(|| awkward_targets(&t, 1 + bits.len() % 2, &|tg| { let mut tg = tg; BitString::encode_slice(bits, unused).write_encoded(Mode::Ber, &mut tg) }));
                (Ints::new().n(R_OK).bytes(&content).n(el), if !ok { Oracle::Fail("encode".into()) } else if let Some(what) = awkward { Oracle::Fail(what.into()) } else { Oracle::Pass }, true)
            }
            None => (Ints::new().n(R_PANIC), Oracle::Pass, false),
        }
    });
}

const DATA: [u8; 6] = [0x00, 0x01, 0x7f, 0x80, 0xaa, 0xff];

pub fn run(em: &mut Emitter, rng: &mut Rng, thorough: bool) {
    for mode in 0..3u8 {
        decode_case(em, mode, &[]);
        for u in 0..=255u8 {
            decode_case(em, mode, &[u]);
            for &a in &DATA {
                decode_case(em, mode, &[u, a]);
                for &b in &DATA {
                    decode_case(em, mode, &[u, a, b]);
                    if thorough || u < 12 { for &c in &DATA { decode_case(em, mode, &[u, a, b, c]); } }
                }
            }
        }
        for n in [998usize, 999, 1000, 1001, 1002, 1003] {
            for u in [0u8, 3, 7, 8] {
                let mut c = vec![u]; c.extend(rng.bytes(n - 1));
                decode_case(em, mode, &c);
            }
        }
        for _ in 0..(if thorough { 80_000 } else { 2000 }) {
            let n = rng.range(1, 40) as usize;
            let mut c = rng.bytes(n); if rng.chance(3, 4) { c[0] &= 7; }
            decode_case(em, mode, &c);
        }
    }
    // bit(i) for every index, including values whose unused trailing bits are not zero
    for u in 0..=8u8 {
        for nb in 0..=3usize {
            for pat in 0..4 {
                let bits: Vec<u8> = (0..nb).map(|k| match pat { 0 => 0xff, 1 => 0x00, 2 => 0xaa ^ (k as u8), _ => rng.byte() }).collect();
                let top = nb * 8 + 18;
                for i in 0..top { bit_case(em, u, &bits, i); }
                for i in [usize::MAX, usize::MAX - 7, 1 << 32, (1 << 61) + 3, usize::MAX >> 3] { bit_case(em, u, &bits, i); }
                enc_case(em, u, &bits);
            }
        }
    }
    for n in (120usize..=132).chain(250..=260).chain([65533, 65534, 65535, 65536]) { for u in [0u8, 3, 7] { enc_case(em, u, &rng.bytes(n)); } }
}
