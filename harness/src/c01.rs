//! C01: decoding untrusted octets never panics, aborts, hangs or overflows.
//!
//! 101 c01.entry    - decoding programs over hostile inputs (every truncation,
//!                    every single-octet substitution from a boundary alphabet,
//!                    oversized declared lengths), compared with the model, with
//!                    unwinding, allocation and (process-wide) hang/abort watch
//! 102 c01.access   - every typed decoder on hostile contents and, on
//!                    acceptance, every accessor/iterator/comparison/formatter
//! 103 c01.deep     - nesting up to 10^5 levels on a 256 KiB stack

use crate::common::*;
use crate::gen::*;
use crate::prog::*;
use crate::c02::{ints_of, wrap, in_ctx, ctx_ok};
use crate::c07::{random_program, segment};
use crate::c16::{os_encode, os_encode_forms};
use bcder::decode::{Constructed, IntoSource, Source};
use bcder::encode::Values;
use bcder::{BitString, Captured, Ia5String, Integer, Mode, NumericString, OctetString, Oid, PrintableString, Tag, Unsigned, Utf8String};
use std::cell::Cell;
use std::collections::hash_map::DefaultHasher;
use std::hash::{Hash, Hasher};

thread_local! { static STAGE: Cell<&'static str> = Cell::new("-"); }
fn stage(s: &'static str) { STAGE.with(|c| c.set(s)); }
fn cur_stage() -> &'static str { STAGE.with(|c| c.get()) }

/// allocation allowed for one case: generous multiple of the input plus slack
fn alloc_bound(n: usize) -> usize { 256 * n + 64 * 1024 }

const ALPHABET: [u8; 12] = [0x00, 0x01, 0x1f, 0x20, 0x30, 0x7f, 0x80, 0x81, 0x84, 0x85, 0xbf, 0xff];

fn entry_case(em: &mut Emitter, mode: u8, ps: &[Prog], data: &[u8]) {
    let mut code = Vec::new(); enc_progs(ps, &mut code);
    em.case(101, &[num_arg(mode), ints_of(&code), bytes_arg(data)], || {
        let (obs, peak) = alloc_scope(|| run_slice(mode, ps, data));
        let orc = if obs.first() == Some(&3) { Oracle::Fail("panic-while-decoding".into()) }
            else if peak > alloc_bound(data.len()) { Oracle::Fail("allocation-out-of-proportion".into()) }
            else { Oracle::Pass };
        (ints_of(&obs), orc, !data.is_empty())
    });
}

fn hash_of<T: Hash>(t: &T) -> u64 { let mut h = DefaultHasher::new(); t.hash(&mut h); h.finish() }

fn enc_both<V: Values>(v: V) -> usize {
    let mut n = 0;
    for m in [Mode::Ber, Mode::Der] {
        let l = v.encoded_len(m); let mut out = Vec::new(); v.write_encoded(m, &mut out).unwrap(); n += l + out.len();
    }
    n
}

fn touch_octets(os: &OctetString) -> usize {
    let mut n = 0usize;
    stage("OctetString::iter"); for s in os.iter() { n += s.len(); }
    stage("OctetString::octets"); for b in os.octets() { n += b as usize; }
    stage("OctetString::len"); n += os.len(); n += os.is_empty() as usize;
    stage("OctetString::to_bytes"); let flat = os.to_bytes(); n += flat.len();
    stage("OctetString::as_slice"); n += os.as_slice().map(|s| s.len()).unwrap_or(0);
    stage("OctetString::eq"); let other = OctetString::new(flat.clone()); n += (*os == other) as usize; n += (os == &flat.as_ref()) as usize; n += (other == *os) as usize;
    // against every shorter, one longer and one differing slice: comparisons are total
    { let f = flat.as_ref(); for k in 0..f.len().min(24) { n += (os == &&f[..k]) as usize; }
      let mut longer = f.to_vec(); longer.push(0); n += (os == &longer) as usize;
      if let Some(l) = longer.iter_mut().rev().nth(1) { *l ^= 0x55; n += (os == &longer) as usize; }
      for k in 0..f.len().min(24) { n += os.partial_cmp(&&f[..k]).is_some() as usize; } }
    stage("OctetString::cmp"); n += os.cmp(&other) as i8 as usize & 1; n += other.cmp(os) as i8 as usize & 1; n += os.partial_cmp(&flat.as_ref()).is_some() as usize;
    stage("OctetString::hash"); n += (hash_of(os) == hash_of(&other)) as usize;
    stage("OctetString::debug"); n += format!("{:?}", os).len();
    stage("OctetString::encode"); n += enc_both(os.encode_ref());
    stage("OctetString::into_source"); { let mut src = os.clone().into_source(); loop { let g = src.request(1 << 20).unwrap(); if g == 0 { break } n += src.slice().len().min(1); let k = src.slice().len(); src.advance(k.max(1).min(g)); } }
    stage("OctetString::decode-inside"); { let r = Constructed::decode(os.clone().into_source(), Mode::Ber, |c| c.skip_all()); n += r.is_ok() as usize; }
    stage("OctetString::into_bytes"); n += os.clone().into_bytes().len();
    n
}

macro_rules! touch_restricted { ($t:ty, $cons:expr, $n:ident) => {{
    stage(concat!(stringify!($t), "::take_from"));
    if let Ok(s) = <$t>::take_from($cons) {
        stage(concat!(stringify!($t), "::chars")); for c in s.chars() { $n += c as usize & 1; }
        stage(concat!(stringify!($t), "::display")); $n += format!("{}", s).len(); $n += format!("{:?}", s).len();
        stage(concat!(stringify!($t), "::eq-cmp-hash")); let t = s.clone(); $n += (s == t) as usize; $n += s.cmp(&t) as i8 as usize & 1; $n += hash_of(&s) as usize & 1;
        stage(concat!(stringify!($t), "::octets")); $n += touch_octets(&s);
        stage(concat!(stringify!($t), "::encode")); $n += enc_both(s.encode_ref());
        stage(concat!(stringify!($t), "::into_bytes")); $n += s.into_bytes().len();
    }
}}}

/// decode `data` with every typed reader; on acceptance touch everything
fn touch_all(mode: u8, data: &[u8]) -> usize {
    let m = mode_of(mode);
    let mut n = 0usize;
    let dec = |f: &mut dyn FnMut(&mut Constructed<bcder::decode::SliceSource>) -> Result<(), bcder::decode::DecodeError<std::convert::Infallible>>| {
        let _ = Constructed::decode(data.into_source(), m, |c| f(c));
    };
    dec(&mut |c| { stage("OctetString::take_from"); let os = OctetString::take_from(c)?; n += touch_octets(&os); Ok(()) });
    dec(&mut |c| { stage("BitString::take_from"); let b = BitString::take_from(c)?;
        stage("BitString::accessors"); n += b.unused() as usize + b.bit_len() + b.octet_len();
        for i in 0..(b.bit_len().min(64)) { n += b.bit(i) as usize; }
        if b.bit_len() > 0 { n += b.bit(b.bit_len() - 1) as usize; }
        for o in b.octets() { n += o as usize; }
        n += b.octet_slice().map(|s| s.len()).unwrap_or(0) + b.octet_bytes().len();
        stage("BitString::debug-eq"); n += format!("{:?}", b).len(); n += (b == b.clone()) as usize;
        stage("BitString::encode"); n += enc_both(bcder::encode::PrimitiveContent::encode(b.clone()));
        Ok(()) });
    dec(&mut |c| { stage("BitString::skip_in"); BitString::skip_in(c) });
    dec(&mut |c| { stage("Oid::take_from"); let o = Oid::take_from(c)?;
        stage("Oid::iter"); for comp in o.iter() { n += comp.to_u32().unwrap_or(1) as usize & 1; n += format!("{}", comp).len(); }
        stage("Oid::display"); n += format!("{}", o).len(); n += format!("{:?}", o).len();
        stage("Oid::eq-hash"); n += (o == o.clone()) as usize; n += hash_of(&o) as usize & 1;
        stage("Oid::encode"); n += enc_both(bcder::encode::PrimitiveContent::encode(o.clone()));
        Ok(()) });
    dec(&mut |c| { stage("Oid::skip_in"); Oid::skip_in(c) });
    dec(&mut |c| { stage("Integer::take_from"); let i = Integer::take_from(c)?;
        stage("Integer::predicates"); n += i.is_zero() as usize + i.is_positive() as usize + i.is_negative() as usize + i.as_slice().len();
        stage("Integer::cmp"); let j = i.clone(); n += (i == j) as usize; n += i.cmp(&j) as i8 as usize & 1; n += hash_of(&i) as usize & 1;
        let k = Integer::from(-129i64); n += i.cmp(&k) as i8 as usize & 1; n += k.cmp(&i) as i8 as usize & 1;
        stage("Integer::try_from"); n += i8::try_from(&i).is_ok() as usize + i16::try_from(&i).is_ok() as usize + i32::try_from(&i).is_ok() as usize + i64::try_from(&i).is_ok() as usize + i128::try_from(&i).is_ok() as usize
            + u8::try_from(&i).is_ok() as usize + u16::try_from(&i).is_ok() as usize + u32::try_from(&i).is_ok() as usize + u64::try_from(&i).is_ok() as usize + u128::try_from(&i).is_ok() as usize;
        stage("Integer::debug-encode"); n += format!("{:?}", i).len(); n += enc_both(bcder::encode::PrimitiveContent::encode(&i));
        Ok(()) });
    dec(&mut |c| { stage("Unsigned::take_from"); let u = Unsigned::take_from(c)?;
        stage("Unsigned::accessors"); n += u.is_zero() as usize + u.as_slice().len(); n += (u == u.clone()) as usize; n += hash_of(&u) as usize & 1;
        n += u8::try_from(&u).is_ok() as usize + u16::try_from(&u).is_ok() as usize + u32::try_from(&u).is_ok() as usize + u64::try_from(&u).is_ok() as usize + u128::try_from(&u).is_ok() as usize;
        stage("Unsigned::from_bytes"); n += Unsigned::from_slice(u.as_slice()).is_ok() as usize;
        stage("Unsigned::debug-encode"); n += format!("{:?}", u).len(); n += enc_both(bcder::encode::PrimitiveContent::encode(&u));
        Ok(()) });
    dec(&mut |c| { stage("builtin-integers"); let _ = c.take_opt_primitive_if(Tag::INTEGER, |p| { let _ = p.slice_all().map(|s| s.len()); Ok(()) });
        Ok(()) });
    for w in 0..10u8 { dec(&mut |c| { stage("take_<int>"); match w {
        0 => { c.take_u8()?; } 1 => { c.take_u16()?; } 2 => { c.take_u32()?; } 3 => { c.take_u64()?; }
        4 => { c.take_primitive_if(Tag::INTEGER, |p| p.to_u128())?; } 5 => { c.take_primitive_if(Tag::INTEGER, |p| p.to_i8())?; }
        6 => { c.take_primitive_if(Tag::INTEGER, |p| p.to_i16())?; } 7 => { c.take_primitive_if(Tag::INTEGER, |p| p.to_i32())?; }
        8 => { c.take_primitive_if(Tag::INTEGER, |p| p.to_i64())?; } _ => { c.take_primitive_if(Tag::INTEGER, |p| p.to_i128())?; } }
        Ok(()) }); }
    dec(&mut |c| { stage("take_bool/null"); let _ = c.take_opt_bool(); let _ = c.take_opt_null(); let _ = c.skip_u8_if(7); Ok(()) });
    dec(&mut |c| { touch_restricted!(Utf8String, c, n); Ok(()) });
    dec(&mut |c| { touch_restricted!(NumericString, c, n); Ok(()) });
    dec(&mut |c| { touch_restricted!(PrintableString, c, n); Ok(()) });
    dec(&mut |c| { touch_restricted!(Ia5String, c, n); Ok(()) });
    dec(&mut |c| { stage("capture_all"); let cap = c.capture_all()?;
        stage("Captured::accessors"); n += cap.as_slice().len() + cap.len() + format!("{:?}", cap).len();
        stage("Captured::decode"); n += cap.clone().decode(|c| c.skip_all()).is_ok() as usize;
        stage("Captured::decode_partial"); let mut c2 = cap.clone(); n += c2.decode_partial(|c| c.skip_one().map(|_| ())).is_ok() as usize; n += c2.len();
        n += c2.decode_partial(|c| c.take_opt_value(|_, content| { match content { bcder::decode::Content::Primitive(p) => p.skip_all(), bcder::decode::Content::Constructed(k) => k.skip_all() } }).map(|_| ())).is_ok() as usize; n += c2.len();
        stage("Captured::encode"); let l = cap.encoded_len(m); let mut out = Vec::new(); cap.write_encoded(m, &mut out).unwrap(); n += l + out.len();
        stage("Captured::into_source"); n += Constructed::decode(cap.clone().into_source(), m, |c| c.skip_all()).is_ok() as usize;
        stage("Captured::into_bytes"); n += cap.into_bytes().len();
        Ok(()) });
    dec(&mut |c| { stage("capture_one"); let cap = c.capture_one()?; stage("Captured::decode"); n += cap.decode(|c| c.skip_all()).is_ok() as usize; Ok(()) });
    dec(&mut |c| { stage("take_value/Tag-accessors"); c.take_value(|tag, content| {
        n += tag.number() as usize + tag.encoded_len() + tag.is_universal() as usize + format!("{:?} {}", tag, tag).len();
        match content { bcder::decode::Content::Primitive(p) => { n += p.remaining(); p.skip_all() } bcder::decode::Content::Constructed(k) => k.skip_all() } }) });
    stage("-");
    n
}

fn access_case(em: &mut Emitter, mode: u8, data: &[u8]) {
    em.case(102, &[num_arg(mode), bytes_arg(data)], || {
        let (r, peak) = alloc_scope(|| catch(|| touch_all(mode, data)));
        let orc = match r {
            None => Oracle::Fail(format!("panic-in-{}", cur_stage())),
            Some(_) if peak > alloc_bound(data.len()) => Oracle::Fail("allocation-out-of-proportion".into()),
            Some(_) => Oracle::Pass,
        };
        (Ints::new().n(1), orc, !data.is_empty())
    });
}

fn tlv(tag: u8, c: &[u8]) -> Vec<u8> { let mut v = vec![tag]; v.extend(ref_len_octets(c.len())); v.extend_from_slice(c); v }

fn hostile_content(rng: &mut Rng, n: usize) -> Vec<u8> {
    let mut c = rng.bytes(n);
    for b in c.iter_mut() { if rng.chance(1, 2) { *b = *rng.pick(&[0x00u8, 0x01, 0x07, 0x08, 0x7f, 0x80, 0x81, 0xff, 0xc0, 0xc2, 0xe0, 0xed, 0xa0, 0xf0, 0xf4, 0xf7, 0xbf, 0x30, 0x39, 0x41, 0x20, 0x2a, 0x2b]); } }
    c
}

/// nesting built from the outside in (linear time): form 0 definite, 1 indefinite, 2 alternating
pub fn deep_nest(depth: usize, form: u8, outer: u8, inner_tag: u8, leaf: &[u8]) -> Vec<u8> {
    let indef = |i: usize| match form { 0 => false, 1 => true, _ => i % 2 == 0 };
    // content length of every level, innermost first
    let mut lens = vec![0usize; depth + 1];
    lens[depth] = leaf.len();
    for i in (0..depth).rev() {
        let inner = lens[i + 1];
        lens[i] = if indef(i) { 2 + inner + 2 } else { 1 + ref_len_octets(inner).len() + inner };
    }
    let mut d = Vec::with_capacity(lens[0]);
    for i in 0..depth {
        d.push(if i == 0 { outer } else { inner_tag });
        if indef(i) { d.push(0x80) } else { d.extend(ref_len_octets(lens[i + 1])) }
    }
    d.extend_from_slice(leaf);
    for i in (0..depth).rev() { if indef(i) { d.extend_from_slice(&[0, 0]) } }
    d
}

fn deep_case(em: &mut Emitter, depth: usize, form: u8, op: u8) {
    em.case(103, &[num_arg(depth), num_arg(form), num_arg(op)], move || {
        let d = if op >= 4 { deep_nest(depth, form, 0x24, 0x24, &[0x04, 0x01, 0x55]) } else { deep_nest(depth, form, 0x30, 0x30, &[0x05, 0x00]) };
        let dl = d.len();
        let t0 = std::time::Instant::now();
        let (r, peak) = alloc_scope(move || {
            let h = std::thread::Builder::new().stack_size(256 * 1024).spawn(move || {
                let src = d.as_slice().into_source();
                let r: Result<usize, _> = match op {
                    0 => Constructed::decode(src, Mode::Ber, |c| { c.skip_all()?; Ok(1) }),
                    1 => Constructed::decode(src, Mode::Ber, |c| { let cap = c.capture_all()?; Ok(cap.len()) }),
                    2 => Constructed::decode(src, Mode::Ber, |c| { let cap = c.capture_one()?; let n = cap.len(); cap.decode(|c| c.skip_all())?; Ok(n) }),
                    3 => Constructed::decode(src, Mode::Ber, |c| { c.skip_opt(|_, _, _| Ok(()))?; Ok(1) }),
                    _ => Constructed::decode(src, Mode::Ber, |c| { let os = OctetString::take_from(c)?; Ok(touch_octets(&os)) }),
                };
                r.is_ok()
            }).unwrap();
            h.join().ok()
        });
        let ms = t0.elapsed().as_millis();
        let orc = match r {
            None => Oracle::Fail("panic-on-deep-nesting".into()),
            Some(false) => Oracle::Fail("deep-nesting-rejected".into()),
            Some(true) if peak > 3 * alloc_bound(dl) => Oracle::Fail("allocation-out-of-proportion".into()),
            Some(true) if ms > 15_000 => Oracle::Fail("superlinear-time-on-deep-nesting".into()),
            Some(true) => Oracle::Pass,
        };
        (Ints::new().n(1), orc, true)
    });
}

pub fn run(em: &mut Emitter, rng: &mut Rng, thorough: bool) {
    let ctxs = [Ctx::Top, Ctx::Definite, Ctx::Indefinite];
    // ---- 101: programs over systematically damaged encodings
    for _ in 0..(if thorough { 6_000 } else { 150 }) {
        let mode = rng.below(3) as u8;
        let ctx = *rng.pick(&ctxs);
        if !ctx_ok(mode, ctx) { continue }
        let forest = random_forest(rng, mode, 3);
        let inner = encode_forest(&forest, mode, &mut Some(rng));
        let data = wrap(ctx, &inner);
        if data.len() > 120 { continue }
        let ps = in_ctx(ctx, random_program(rng, forest.len()));
        entry_case(em, mode, &ps, &data);
        // every truncation
        for k in 0..data.len() { entry_case(em, mode, &ps, &data[..k]); }
        // every position x boundary alphabet
        for k in 0..data.len() { for &b in ALPHABET.iter() { if data[k] != b { let mut v = data.clone(); v[k] = b; entry_case(em, mode, &ps, &v); } } }
        // oversized declared lengths spliced in at every position
        for k in 1..data.len() { for big in [&[0x84u8, 0xff, 0xff, 0xff, 0xff][..], &[0x84, 0x7f, 0xff, 0xff, 0xff], &[0x83, 0xff, 0xff, 0xff], &[0x88, 1, 0, 0, 0, 0, 0, 0, 0]] {
            if rng.chance(1, 3) { let mut v = data[..k].to_vec(); v.extend_from_slice(big); v.extend_from_slice(&data[k + 1..]); entry_case(em, mode, &ps, &v); } } }
    }
    // random garbage with structure octets
    for _ in 0..(if thorough { 1_200_000 } else { 20_000 }) {
        let mode = rng.below(3) as u8;
        let n = rng.range(0, 14) as usize;
        let mut d = rng.bytes(n);
        for b in d.iter_mut() { if rng.chance(2, 3) { *b = *rng.pick(&[0x00u8, 0x01, 0x02, 0x03, 0x04, 0x05, 0x06, 0x0c, 0x24, 0x30, 0x80, 0x81, 0x84, 0x1f, 0x3f, 0xff]); } }
        let ps = random_program(rng, 2);
        entry_case(em, mode, &ps, &d);
    }
    // ---- 102: typed decoders and accessors on hostile contents
    let tags = [0x01u8, 0x02, 0x03, 0x04, 0x05, 0x06, 0x0c, 0x12, 0x13, 0x16, 0x23, 0x24, 0x2c, 0x30];
    for _ in 0..(if thorough { 1_600_000 } else { 30_000 }) {
        let mode = rng.below(3) as u8;
        let tag = *rng.pick(&tags);
        let n = rng.range(0, 9) as usize;
        let mut d = if tag & 0x20 != 0 && tag != 0x30 {
            // constructed string: a random segmentation (valid or damaged)
            let c = hostile_content(rng, n); let o = segment(rng, &c, 3); let mut t = Vec::new(); if rng.bool() { os_encode(&o, tag & 0x1f, &mut t) } else { os_encode_forms(&o, tag & 0x1f, &mut t, rng) };
            if let crate::c16::Os::Prim(_) = o { t[0] |= 0x20; }
            t
        } else { let c = hostile_content(rng, n); tlv(tag, &c) };
        if rng.chance(1, 3) { d = mutate(rng, &d); }
        if rng.chance(1, 8) { d.extend_from_slice(&[0x05, 0x00]); }
        access_case(em, mode, &d);
    }
    // constructed strings (octet, bit, restricted) with a foreign value among the segments: every
    // form of foreign value (primitive, definite, indefinite, nested, empty), every position, both outer forms
    {
        let foreign: [&[u8]; 9] = [&[0x02, 0x01, 0x61], &[0x30, 0x03, 0x04, 0x01, 0x61], &[0x30, 0x80, 0x04, 0x01, 0x61, 0x00, 0x00], &[0x30, 0x80, 0x00, 0x00],
            &[0xa0, 0x80, 0x04, 0x00, 0x00, 0x00], &[0x24, 0x80, 0x30, 0x80, 0x00, 0x00, 0x00, 0x00], &[0x24, 0x04, 0x30, 0x80, 0x00, 0x00], &[0x30, 0x00], &[0x05, 0x00]];
        let good: [&[u8]; 3] = [&[0x04, 0x01, 0x61], &[0x04, 0x00], &[0x24, 0x80, 0x04, 0x01, 0x62, 0x00, 0x00]];
        for &outer in &[0x24u8, 0x23, 0x2c, 0x32, 0x33, 0x36] { for indef in [false, true] { for f in &foreign { for pos in 0..3usize { for g in &good {
            let seg_tag = |b: &[u8]| -> Vec<u8> { let mut v = b.to_vec(); if v[0] & 0x1f == 0x04 { v[0] = (v[0] & 0x20) | (outer & 0x1f); } v };
            let mut body: Vec<u8> = Vec::new();
            for i in 0..3 { if i == pos { body.extend_from_slice(f) } else { body.extend(seg_tag(g)) } }
            let mut d = vec![outer];
            if indef { d.push(0x80); d.extend(&body); d.extend_from_slice(&[0, 0]); } else { d.push(body.len() as u8); d.extend(&body); }
            for mode in [0u8, 1] { access_case(em, mode, &d); }
        }}}}}
    }
    // all one- and two-octet contents of every primitive type (exhaustive)
    for &tag in &[0x01u8, 0x02, 0x03, 0x06, 0x0c, 0x12, 0x13, 0x16] {
        for a in 0..=255u8 { access_case(em, 2, &tlv(tag, &[a])); }
        if thorough { for a in 0..=255u8 { for b in 0..=255u8 { access_case(em, 0, &tlv(tag, &[a, b])); } } }
        else { for a in ALPHABET { for b in 0..=255u8 { access_case(em, 0, &tlv(tag, &[a, b])); } } }
    }
    // ---- 103: deep nesting on a small stack
    let depths: &[usize] = if thorough { &[1, 10, 1000, 20_000, 100_000] } else { &[1, 1000, 20_000] };
    for &depth in depths { for form in 0..3u8 { for op in 0..5u8 { deep_case(em, depth, form, op); } } }
}
