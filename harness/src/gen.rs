//! Generators of structured inputs (TLV trees and their encodings per mode,
//! targeted malformations) and an independent reference X.690 parser used by
//! the direct oracles. Nothing here is derived from the Coq model.

use crate::common::*;
use crate::c12::ref_ident;

#[derive(Clone, Debug, PartialEq)]
pub enum Node {
    Prim { cls: u8, num: u32, content: Vec<u8> },
    Cons { cls: u8, num: u32, indefinite: bool, kids: Vec<Node> },
}

pub fn ref_len_octets(n: usize) -> Vec<u8> {
    if n < 128 { return vec![n as u8] }
    let mut ds = Vec::new(); let mut v = n;
    while v > 0 { ds.insert(0, v as u8); v >>= 8; }
    let mut r = vec![0x80 | ds.len() as u8]; r.extend(ds); r
}
/// a (possibly non-minimal) BER long form with `extra` leading zero octets
pub fn ber_len_octets(n: usize, extra: usize) -> Vec<u8> {
    let mut ds = Vec::new(); let mut v = n;
    while v > 0 { ds.insert(0, v as u8); v >>= 8; }
    for _ in 0..extra { ds.insert(0, 0); }
    if ds.is_empty() { ds.push(0); }
    if ds.len() > 4 { return ref_len_octets(n) }
    let mut r = vec![0x80 | ds.len() as u8]; r.extend(ds); r
}

pub fn random_tag(rng: &mut Rng) -> (u8, u32) {
    let cls = if rng.chance(2, 3) { 0 } else { rng.below(4) as u8 };
    let num = match rng.below(10) {
        0..=5 => rng.range(1, 30) as u32,
        6 => rng.range(31, 127) as u32,
        7 => rng.range(128, 16383) as u32,
        8 => rng.range(16384, 0x1f_ffff) as u32,
        _ => *rng.pick(&[2u32, 4, 5, 6, 16, 17, 31, 127, 128, 16383, 16384, 0x1f_ffff]),
    };
    // universal 0 is end-of-contents, never a value
    if cls == 0 && num == 0 { (0, 1) } else { (cls, num) }
}

/// random tree; mode: 0 BER (either form), 1 CER (constructed indefinite), 2 DER (definite)
pub fn random_node(rng: &mut Rng, mode: u8, depth: u32, budget: &mut i32) -> Node {
    *budget -= 1;
    let (cls, num) = random_tag(rng);
    if depth == 0 || *budget <= 0 || rng.chance(3, 5) {
        let n = match rng.below(8) { 0 => 0, 1..=5 => rng.range(1, 6) as usize, 6 => rng.range(7, 40) as usize, _ => *rng.pick(&[127usize, 128, 129, 255, 256]) };
        Node::Prim { cls, num, content: rng.bytes(n) }
    } else {
        let nk = rng.below(4) as usize;
        let kids = (0..nk).map(|_| random_node(rng, mode, depth - 1, budget)).collect();
        let indefinite = match mode { 0 => rng.bool(), 1 => true, _ => false };
        Node::Cons { cls, num, indefinite, kids }
    }
}
pub fn random_forest(rng: &mut Rng, mode: u8, max: usize) -> Vec<Node> {
    let n = rng.below(max as u64 + 1) as usize;
    let mut budget = 12;
    (0..n).map(|_| random_node(rng, mode, 3, &mut budget)).collect()
}

/// encode; in BER mode `rng` (if given) picks random non-minimal length forms
pub fn encode_node(n: &Node, mode: u8, rng: &mut Option<&mut Rng>, out: &mut Vec<u8>) {
    match n {
        Node::Prim { cls, num, content } => {
            out.extend(ref_ident(*cls, false, *num));
            out.extend(len_form(content.len(), mode, rng));
            out.extend(content);
        }
        Node::Cons { cls, num, indefinite, kids } => {
            out.extend(ref_ident(*cls, true, *num));
            let mut body = Vec::new();
            for k in kids { encode_node(k, mode, rng, &mut body); }
            if *indefinite {
                out.push(0x80); out.extend(body);
                out.push(0);
                // BER: the EOC length may use any form denoting zero
                let fancy = match rng { Some(r) => mode == 0 && r.chance(1, 8), None => false };
                match rng { Some(r) if fancy => out.extend(ber_len_octets(0, r.below(2) as usize)), _ => out.push(0) }
            } else {
                out.extend(len_form(body.len(), mode, rng)); out.extend(body);
            }
        }
    }
}
fn len_form(n: usize, mode: u8, rng: &mut Option<&mut Rng>) -> Vec<u8> {
    let fancy = match rng { Some(r) => mode == 0 && r.chance(1, 5), None => false };
    match rng {
        Some(r) if fancy => ber_len_octets(n, r.below(3) as usize),
        _ => ref_len_octets(n),
    }
}
pub fn encode_forest(f: &[Node], mode: u8, rng: &mut Option<&mut Rng>) -> Vec<u8> {
    let mut out = Vec::new();
    for n in f { encode_node(n, mode, rng, &mut out); }
    out
}

// ---------- reference parser (X.690 as the property states it) ----------
#[derive(Clone, Debug, PartialEq)]
pub enum RTlv { Prim(Vec<u8>, Vec<u8>), Cons(Vec<u8>, Vec<RTlv>) }   // identifier octets (with constructed bit), content/kids

fn ref_ident_parse(d: &[u8]) -> Option<(bool, usize)> {
    crate::c12::ref_parse(d).map(|(_, c, _, used)| (c, used))
}
/// Some(Some(n)) definite, Some(None) indefinite
fn ref_length(mode: u8, d: &[u8]) -> Option<(Option<usize>, usize)> {
    let b0 = *d.first()?;
    if b0 < 0x80 { return Some((Some(b0 as usize), 1)) }
    if b0 == 0x80 { return Some((None, 1)) }
    let k = (b0 & 0x7f) as usize;
    if k > 4 || d.len() < 1 + k { return None }
    let mut v = 0usize; for &x in &d[1..1 + k] { v = (v << 8) | x as usize; }
    if mode != 0 && ref_len_octets(v) != d[..1 + k] { return None }
    Some((Some(v), 1 + k))
}

#[derive(Clone, Copy, PartialEq, Debug)]
pub enum Ctx { Top, Definite, Indefinite }

/// Parse a sequence of values from `d` in context `ctx`. Returns the values
/// and the number of octets consumed (including a closing EOC for Indefinite).
/// In Definite context all of `d` must be consumed. `depth` guards recursion.
pub fn ref_parse_seq(mode: u8, d: &[u8], ctx: Ctx, depth: u32) -> Option<(Vec<RTlv>, usize)> {
    if depth > 200 { return None }
    let mut pos = 0; let mut out = Vec::new();
    loop {
        if pos == d.len() {
            return match ctx { Ctx::Indefinite => None, _ => Some((out, pos)) }
        }
        let (cons, iu) = ref_ident_parse(&d[pos..])?;
        let ident = d[pos..pos + iu].to_vec();
        let (len, lu) = ref_length(mode, &d[pos + iu..])?;
        let is_eoc = ident.len() == 1 && (ident[0] & !0x20) == 0;
        if is_eoc {
            if ctx != Ctx::Indefinite || cons || len != Some(0) { return None }
            return Some((out, pos + iu + lu));
        }
        let body_start = pos + iu + lu;
        match len {
            Some(n) => {
                if body_start + n > d.len() { return None }
                let body = &d[body_start..body_start + n];
                if cons {
                    if mode == 1 { return None }
                    let (kids, used) = ref_parse_seq(mode, body, Ctx::Definite, depth + 1)?;
                    if used != n { return None }
                    out.push(RTlv::Cons(ident, kids));
                } else { out.push(RTlv::Prim(ident, body.to_vec())); }
                pos = body_start + n;
            }
            None => {
                if !cons || mode == 2 { return None }
                let (kids, used) = ref_parse_seq(mode, &d[body_start..], Ctx::Indefinite, depth + 1)?;
                out.push(RTlv::Cons(ident, kids));
                pos = body_start + used;
            }
        }
    }
}

/// byte length of the first complete value in `d` (top-level context), if any
pub fn ref_first_value_len(mode: u8, d: &[u8]) -> Option<usize> {
    // parse greedily one value: try every prefix end via a single-step parse
    let (cons, iu) = ref_ident_parse(d)?;
    let (len, lu) = ref_length(mode, &d[iu..])?;
    if (d[0] & !0x20) == 0 && iu == 1 { return None }
    match len {
        Some(n) => {
            if iu + lu + n > d.len() { return None }
            if cons { if mode == 1 { return None } let (_, used) = ref_parse_seq(mode, &d[iu + lu..iu + lu + n], Ctx::Definite, 1)?; if used != n { return None } }
            Some(iu + lu + n)
        }
        None => {
            if !cons || mode == 2 { return None }
            let (_, used) = ref_parse_seq(mode, &d[iu + lu..], Ctx::Indefinite, 1)?;
            Some(iu + lu + used)
        }
    }
}

// ---------- malformations ----------
pub fn mutate(rng: &mut Rng, d: &[u8]) -> Vec<u8> {
    let mut v = d.to_vec();
    if v.is_empty() { return vec![rng.byte()] }
    match rng.below(9) {
        0 => { let k = rng.below(v.len() as u64) as usize; v.truncate(k); }
        1 => { let k = rng.below(v.len() as u64) as usize; v[k] = v[k].wrapping_add(1); }
        2 => { let k = rng.below(v.len() as u64) as usize; v[k] = v[k].wrapping_sub(1); }
        3 => { let k = rng.below(v.len() as u64) as usize; v[k] ^= 0x20; }
        4 => { let k = rng.below(v.len() as u64 + 1) as usize; v.insert(k, 0); v.insert(k, 0); }
        5 => { let k = rng.below(v.len() as u64) as usize; v.remove(k); }
        6 => { let k = rng.below(v.len() as u64) as usize; v[k] = *rng.pick(&[0x00u8, 0x80, 0x81, 0x1f, 0x20, 0x30, 0xff, 0x84, 0x85]); }
        7 => { let k = rng.below(v.len() as u64 + 1) as usize; v.insert(k, rng.byte()); }
        _ => { v.push(rng.byte()); }
    }
    v
}

pub fn rtlv_to_log(t: &RTlv, log: &mut Vec<i128>) {
    match t {
        RTlv::Prim(id, c) => { log.push(0); log.push(id.len() as i128); for b in id { log.push(*b as i128); } log.push(c.len() as i128); for b in c { log.push(*b as i128); } }
        RTlv::Cons(id, kids) => { log.push(1); log.push(id.len() as i128); for b in id { log.push(*b as i128); } log.push(kids.len() as i128); for k in kids { rtlv_to_log(k, log); } }
    }
}
pub fn rtlvs_to_log(ts: &[RTlv]) -> Vec<i128> { let mut l = vec![ts.len() as i128]; for t in ts { rtlv_to_log(t, &mut l); } l }
