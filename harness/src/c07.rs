//! C07 / C08: results do not depend on how the source delivers its data;
//! source failures surface as that source error.

use crate::common::*;
use crate::gen::*;
use crate::prog::*;
use crate::sources::*;
use crate::c02::{ints_of, wrap, in_ctx, ctx_ok};
use crate::c16::{Os, os_encode, take_os};
use bcder::decode::{BytesSource, Constructed, Source, SliceSource};
use bcder::Tag;

/// run a program on any source; returns (kind, log) with kind 0 ok / 1 content error / 2 source error
fn run_on<S: Source>(mode: u8, ps: &[Prog], src: &mut S) -> (u8, Vec<i128>, Option<String>) {
    let mut log: Log = Vec::new();
    let r = Constructed::decode(&mut *src, mode_of(mode), |cons| exec(ps, cons, &mut log));
    match r {
        Ok(()) => (0, log, None),
        Err(e) => if is_source_err(&e) { (2, vec![], Some(format!("{}", e))) } else { (1, vec![], None) },
    }
}

fn observe<S: Source>(mode: u8, ps: &[Prog], mut src: S, left: impl FnOnce(&mut S) -> usize) -> Vec<i128> {
    match catch(|| { let (k, log, _) = run_on(mode, ps, &mut src); let l = left(&mut src); (k, log, l) }) {
        Some((0, log, l)) => { let mut v = vec![0, l as i128]; v.extend(log); v }
        Some((k, _, _)) => vec![k as i128],
        None => vec![3],
    }
}

/// a random segmentation of `data` as a (possibly nested, possibly indefinite) BER octet string
fn segment(rng: &mut Rng, data: &[u8], depth: u32) -> Os {
    if depth == 0 || data.len() < 2 || rng.chance(1, 3) { return Os::Prim(data.to_vec()) }
    let mut parts = Vec::new(); let mut i = 0;
    while i < data.len() { let n = rng.range(1, (data.len() - i).min(7) as u64) as usize; parts.push(segment(rng, &data[i..i + n], depth - 1)); if rng.chance(1, 5) { parts.push(Os::Prim(vec![])); } i += n; }
    Os::Cons(rng.bool(), parts)
}

pub fn source_case(em: &mut Emitter, rng: &mut Rng, mode: u8, ps: &[Prog], data: &[u8], kind: u8) {
    let param = rng.next() % 1000 + 1;
    let mut code = Vec::new(); enc_progs(ps, &mut code);
    let base = run_slice(mode, ps, data);
    let seg = if kind == 7 { let o = segment(rng, data, 2); let mut t = Vec::new(); os_encode(&o, 0x04, &mut t); Some(t) } else { None };
    em.case(701, &[num_arg(mode), ints_of(&code), bytes_arg(data), num_arg(kind), num_arg(param)], || {
        let obs = match kind {
            0 => observe(mode, ps, SliceSource::new(data), |s| s.len()),
            1 => observe(mode, ps, BytesSource::new(bytes::Bytes::copy_from_slice(data)), |s| s.len()),
            2 => { let mut inner = SliceSource::new(data); let o = observe(mode, ps, &mut inner, |s| s.len()); o }
            3 => observe(mode, ps, FlexSource::new(data, Policy::Exact, None), |s| s.left()),
            4 => observe(mode, ps, FlexSource::new(data, Policy::Chunk((param % 9 + 1) as usize), None), |s| s.left()),
            5 => observe(mode, ps, FlexSource::new(data, Policy::Random(param), None), |s| s.left()),
            6 => { use bcder::decode::IntoSource; let os = bcder::OctetString::new(bytes::Bytes::copy_from_slice(data)); observe(mode, ps, os.into_source(), |s| drain(s)) }
            _ => { use bcder::decode::IntoSource; let os = take_os(0, Tag::OCTET_STRING, seg.as_ref().unwrap()).expect("valid segmentation"); observe(mode, ps, os.into_source(), |s| drain(s)) }
        };
        let orc = if obs == base { Oracle::Pass } else if obs.first() == Some(&3) { Oracle::Fail("contract-violation-or-panic".into()) } else { Oracle::Fail("outcome-depends-on-source".into()) };
        (ints_of(&obs), orc, !data.is_empty())
    });
}

/// programs exercising every decode routine
pub fn random_program(rng: &mut Rng, nvals: usize) -> Vec<Prog> {
    let mut ps = Vec::new();
    let j = rng.below(nvals as u64 + 1) as usize;
    for _ in 0..j { ps.push(Prog::Take { opt: true, kind: 0, exp: None, body: Body::Generic }); }
    ps.push(match rng.below(9) {
        0 => Prog::Skip { variant: rng.below(4) as u8, fk: 0, fa: 0, fb: 0 },
        1 => Prog::CaptureOne, 2 => Prog::CaptureAll,
        3 => Prog::Capture(vec![Prog::Take { opt: true, kind: 0, exp: None, body: Body::Generic }]),
        4 => Prog::Take { opt: true, kind: rng.below(3) as u8, exp: Some(random_tag(rng)), body: Body::Generic },
        5 => Prog::Take { opt: true, kind: 1, exp: None, body: Body::Typed(rng.below(14) as u8) },
        6 => Prog::Take { opt: true, kind: 1, exp: None, body: Body::Script(vec![Sop::Request(3), Sop::Slice, Sop::Advance(1), Sop::TakeOptU8, Sop::SkipAll]) },
        7 => Prog::Take { opt: true, kind: 0, exp: None, body: Body::Typed(14) },
        _ => Prog::ReadAll,
    });
    ps.push(Prog::ReadAll);
    ps
}

pub fn run(em: &mut Emitter, rng: &mut Rng, thorough: bool) {
    let ctxs = [Ctx::Top, Ctx::Definite, Ctx::Indefinite];
    for _ in 0..(if thorough { 30_000 } else { 3_500 }) {
        let mode = rng.below(3) as u8;
        let ctx = *rng.pick(&ctxs);
        if !ctx_ok(mode, ctx) { continue }
        let forest = random_forest(rng, mode, 4);
        let inner = encode_forest(&forest, mode, &mut Some(rng));
        let mut data = wrap(ctx, &inner);
        if rng.chance(1, 4) { data = mutate(rng, &data); }
        let ps = in_ctx(ctx, random_program(rng, forest.len()));
        for kind in 0..8u8 { source_case(em, rng, mode, &ps, &data, kind); }
    }
    // typed leaves with two-octet peeks (INTEGER check_head) under exact grants
    for _ in 0..(if thorough { 20_000 } else { 2_000 }) {
        let n = rng.range(0, 5) as usize; let mut c = rng.bytes(n); if n > 0 && rng.bool() { c[0] = *rng.pick(&[0u8, 0xff, 0x7f, 0x80]); }
        let mut data = vec![0x02, n as u8]; data.extend(&c); data.extend_from_slice(&[0x05, 0x00]);
        let ps = vec![Prog::Take { opt: true, kind: 1, exp: Some((0, 2)), body: Body::Typed(rng.below(10) as u8) }, Prog::ReadAll];
        let m = rng.below(3) as u8;
        for kind in 0..8u8 { source_case(em, rng, m, &ps, &data, kind); }
    }
}

// ---------------- C08 ----------------
pub fn run08(em: &mut Emitter, rng: &mut Rng, thorough: bool) {
    let ctxs = [Ctx::Top, Ctx::Definite, Ctx::Indefinite];
    for _ in 0..(if thorough { 8_000 } else { 1_200 }) {
        let mode = rng.below(3) as u8;
        let ctx = *rng.pick(&ctxs);
        if !ctx_ok(mode, ctx) { continue }
        let forest = random_forest(rng, mode, 3);
        let inner = encode_forest(&forest, mode, &mut Some(rng));
        let mut data = wrap(ctx, &inner);
        if rng.chance(1, 5) { data = mutate(rng, &data); }
        let ps = in_ctx(ctx, random_program(rng, forest.len()));
        let policy = if rng.bool() { Policy::All } else { Policy::Exact };
        // number of requests of the fault-free run
        let (n, clean) = { let mut s = FlexSource::new(&data, policy, None); let (k, log, _) = run_on(mode, &ps, &mut s); (s.reqs, (k, log, s.left())) };
        let mut code = Vec::new(); enc_progs(&ps, &mut code);
        for k in 1..=(n + 1) {
            let (ps2, data2, clean2) = (ps.clone(), data.clone(), clean.clone());
            em.case(801, &[num_arg(mode), ints_of(&code), bytes_arg(&data), num_arg(k), num_arg(n)], move || {
                let r = catch(|| { let mut s = FlexSource::new(&data2, policy, Some(k)); let (kind, log, msg) = run_on(mode, &ps2, &mut s); (kind, log, msg, s.left()) });
                match r {
                    Some((kind, log, msg, left)) => {
                        let obs: Vec<i128> = if kind == 0 { let mut v = vec![0, left as i128]; v.extend(log.clone()); v } else { vec![kind as i128] };
                        let orc = if k <= n {
                            if kind == 2 && msg.as_deref() == Some(&format!("injected source failure #{}", k)) { Oracle::Pass }
                            else if kind == 2 { Oracle::Fail("a-different-source-error".into()) }
                            else if kind == 1 { Oracle::Fail("source-failure-reported-as-content-error".into()) }
                            else { Oracle::Fail("source-failure-swallowed".into()) }
                        } else if (kind, log, left) == clean2 { Oracle::Pass } else { Oracle::Fail("fault-beyond-last-request-changes-outcome".into()) };
                        (ints_of(&obs), orc, true)
                    }
                    None => (Ints::new().n(3), Oracle::Fail("panic-on-source-failure".into()), true),
                }
            });
        }
    }
}
