//! C07 / C08: results do not depend on how the source delivers its data;
//! source failures surface as that source error.

use crate::common::*;
use crate::gen::*;
use crate::prog::*;
use crate::sources::*;
use crate::c02::{ints_of, wrap, in_ctx, ctx_ok};
use crate::c16::{Os, os_encode_forms, take_os};
use bcder::decode::{BytesSource, Constructed, Source, SliceSource};
use bcder::Tag;

/// run a program on any source; returns (kind, log) with kind 0 ok / 1 content error / 2 source error
fn run_on<S: Source>(mode: u8, ps: &[Prog], src: &mut S) -> (u8, Vec<i128>, Option<String>) {
    let mut log: Log = Vec::new();
    let r = Constructed::decode(&mut *src, mode_of(mode), |cons| exec(ps, cons, &mut log));
    match r {
        Ok(()) => (0, log, None),
        Err(e) => if is_source_err(&e) { (2, vec![], Some(format!("{}", e))) } else { (1, vec![], None) },
    }
}

fn observe<S: Source>(mode: u8, ps: &[Prog], mut src: S, left: impl FnOnce(&mut S) -> usize) -> Vec<i128> {
    match catch(|| { let (k, log, _) = run_on(mode, ps, &mut src); let l = left(&mut src); (k, log, l) }) {
        Some((0, log, l)) => { let mut v = vec![0, l as i128]; v.extend(log); v }
        Some((k, _, _)) => vec![k as i128],
        None => vec![3],
    }
}

/// a random segmentation of `data` as a (possibly nested, possibly indefinite) BER octet string
pub fn segment(rng: &mut Rng, data: &[u8], depth: u32) -> Os {
    if depth == 0 || data.len() < 2 || rng.chance(1, 3) { return Os::Prim(data.to_vec()) }
    let mut parts = Vec::new(); let mut i = 0;
    while i < data.len() { let n = rng.range(1, (data.len() - i).min(7) as u64) as usize; parts.push(segment(rng, &data[i..i + n], depth - 1)); if rng.chance(1, 5) { parts.push(Os::Prim(vec![])); } i += n; }
    Os::Cons(rng.bool(), parts)
}

pub fn source_case(em: &mut Emitter, rng: &mut Rng, mode: u8, ps: &[Prog], data: &[u8], kind: u8) {
    let param = rng.next() % 1000 + 1;
    let mut code = Vec::new(); enc_progs(ps, &mut code);
    let base = run_slice(mode, ps, data);
    let seg = if kind == 7 { let o = segment(rng, data, 2); let mut t = Vec::new(); os_encode_forms(&o, 0x04, &mut t, rng); Some(t) } else { None };
    em.case(701, &[num_arg(mode), ints_of(&code), bytes_arg(data), num_arg(kind), num_arg(param)], || {
        let obs = match kind {
            0 => observe(mode, ps, SliceSource::new(data), |s| s.len()),
            1 => observe(mode, ps, BytesSource::new(bytes::Bytes::copy_from_slice(data)), |s| s.len()),
            2 => { let mut inner = SliceSource::new(data); let o = observe(mode, ps, &mut inner, |s| s.len()); o }
            3 => observe(mode, ps, FlexSource::new(data, Policy::Exact, None), |s| s.left()),
            4 => observe(mode, ps, FlexSource::new(data, Policy::Chunk((param % 9 + 1) as usize), None), |s| s.left()),
            5 => observe(mode, ps, FlexSource::new(data, Policy::Random(param), None), |s| s.left()),
            8 => observe(mode, ps, FlexSource::read_ahead(data, Policy::Exact, (param % 5 + 1) as usize), |s| s.left()),
            9 => observe(mode, ps, FlexSource::read_ahead(data, Policy::Chunk((param % 4 + 1) as usize), 64), |s| s.left()),
            6 => { use bcder::decode::IntoSource; let os = bcder::OctetString::new(bytes::Bytes::copy_from_slice(data)); observe(mode, ps, os.into_source(), |s| drain(s)) }
            _ => { use bcder::decode::IntoSource; let os = take_os(0, Tag::OCTET_STRING, seg.as_ref().unwrap()).expect("valid segmentation"); observe(mode, ps, os.into_source(), |s| drain(s)) }
        };
        let orc = if obs == base { Oracle::Pass } else if obs.first() == Some(&3) { Oracle::Fail("contract-violation-or-panic".into()) } else { Oracle::Fail("outcome-depends-on-source".into()) };
        (ints_of(&obs), orc, !data.is_empty())
    });
}

/// programs exercising every decode routine
pub fn random_program(rng: &mut Rng, nvals: usize) -> Vec<Prog> {
    let mut ps = Vec::new();
    let j = rng.below(nvals as u64 + 1) as usize;
    for _ in 0..j { ps.push(Prog::Take { opt: true, kind: 0, exp: None, body: Body::Generic }); }
    ps.push(match rng.below(9) {
        0 => Prog::Skip { variant: rng.below(4) as u8, fk: 0, fa: 0, fb: 0 },
        1 => Prog::CaptureOne, 2 => Prog::CaptureAll,
        3 => Prog::Capture(vec![Prog::Take { opt: true, kind: 0, exp: None, body: Body::Generic }]),
        4 => Prog::Take { opt: true, kind: rng.below(3) as u8, exp: Some(random_tag(rng)), body: Body::Generic },
        5 => Prog::Take { opt: true, kind: 1, exp: None, body: Body::Typed(rng.below(14) as u8) },
        6 => Prog::Take { opt: true, kind: 1, exp: None, body: Body::Script(vec![Sop::Request(3), Sop::Slice, Sop::Advance(1), Sop::TakeOptU8, Sop::SkipAll]) },
        7 => Prog::Take { opt: true, kind: 0, exp: None, body: Body::Typed(14) },
        _ => Prog::ReadAll,
    });
    ps.push(Prog::ReadAll);
    ps
}

pub fn run(em: &mut Emitter, rng: &mut Rng, thorough: bool) {
    let ctxs = [Ctx::Top, Ctx::Definite, Ctx::Indefinite];
    for _ in 0..(if thorough { 120_000 } else { 3_500 }) {
        let mode = rng.below(3) as u8;
        let ctx = *rng.pick(&ctxs);
        if !ctx_ok(mode, ctx) { continue }
        let forest = random_forest(rng, mode, 4);
        let inner = encode_forest(&forest, mode, &mut Some(rng));
        let mut data = wrap(ctx, &inner);
        if rng.chance(1, 4) { data = mutate(rng, &data); }
        let ps = in_ctx(ctx, random_program(rng, forest.len()));
        for kind in 0..10u8 { source_case(em, rng, mode, &ps, &data, kind); }
    }
    run_grants(em, rng, thorough);
    // every typed leaf reader (incl. the skipping variants) and random content scripts on a value of its own type
    for _ in 0..(if thorough { 80_000 } else { 2_500 }) {
        let ty = rng.below(19) as u8;
        let n = rng.range(0, 6) as usize; let mut c = rng.bytes(n);
        if n > 0 && rng.bool() { c[0] = *rng.pick(&[0u8, 1, 3, 7, 0xff, 0x7f, 0x80, 0x2a]); }
        if n > 0 && matches!(ty, 12 | 13) { c[n - 1] &= 0x7f; }
        let tag = match ty { 10 => 1u8, 11 => 5, 12 | 13 => 6, 14 | 15 => 3, 18 => 4, _ => 2 };
        let mut data = vec![tag, n as u8]; data.extend(&c); data.extend_from_slice(&[0x05, 0x00]);
        let body = if ty == 18 { Body::Script((0..rng.range(1, 5)).map(|_| crate::c03::random_sop(rng, n)).collect()) } else { Body::Typed(ty) };
        let ps = vec![Prog::Take { opt: true, kind: if ty == 14 || ty == 15 { 0 } else { 1 }, exp: None, body }, Prog::ReadAll];
        let m = rng.below(3) as u8;
        for kind in 0..10u8 { source_case(em, rng, m, &ps, &data, kind); }
    }
    // typed leaves with two-octet peeks (INTEGER check_head) under exact grants
    for _ in 0..(if thorough { 80_000 } else { 2_000 }) {
        let n = rng.range(0, 5) as usize; let mut c = rng.bytes(n); if n > 0 && rng.bool() { c[0] = *rng.pick(&[0u8, 0xff, 0x7f, 0x80]); }
        let mut data = vec![0x02, n as u8]; data.extend(&c); data.extend_from_slice(&[0x05, 0x00]);
        let ps = vec![Prog::Take { opt: true, kind: 1, exp: Some((0, 2)), body: Body::Typed(rng.below(10) as u8) }, Prog::ReadAll];
        let m = rng.below(3) as u8;
        for kind in 0..10u8 { source_case(em, rng, m, &ps, &data, kind); }
    }
}

// ---------------- C07 Level A: raw operation scripts, request counts ----------------
#[derive(Clone, Debug)]
enum Aop { TakeU8, TakeOpt, Skip(usize), TakeAll, SkipAll, SetLim(Option<usize>), Request(usize), Tag, Exhausted, TagIf(u8, u32), Look(usize) }

fn enc_aops(ops: &[Aop]) -> Vec<i128> {
    let mut v = Vec::new();
    for o in ops { match o {
        Aop::TakeU8 => v.push(0), Aop::TakeOpt => v.push(1), Aop::Skip(n) => { v.push(2); v.push(*n as i128) }
        Aop::TakeAll => v.push(3), Aop::SkipAll => v.push(4), Aop::SetLim(Some(n)) => { v.push(5); v.push(*n as i128) }
        Aop::SetLim(None) => v.push(6), Aop::Request(n) => { v.push(7); v.push(*n as i128) } Aop::Tag => v.push(8), Aop::Exhausted => v.push(9),
        Aop::TagIf(c, n) => { let t = crate::c12::mk_tag(*c, *n); let mut buf = Vec::new(); t.write_encoded(false, &mut buf).unwrap(); buf.resize(4, 0); v.push(10); for b in buf { v.push(b as i128); } }
        Aop::Look(n) => { v.push(11); v.push(*n as i128) }
    } }
    v
}

/// (code, log): runs until the first error
fn run_aops<S: Source>(ops: &[Aop], src: &mut bcder::decode::LimitedSource<S>) -> (i128, Vec<i128>) {
    let mut log = Vec::new();
    for o in ops {
        let r: Result<Vec<i128>, bool> = match o {
            Aop::TakeU8 => src.take_u8().map(|b| vec![b as i128]).map_err(|e| is_source_err(&e)),
            Aop::TakeOpt => src.take_opt_u8().map(|b| vec![b.map(|b| b as i128).unwrap_or(-1)]).map_err(|_| true),
            Aop::Skip(n) => src.skip(*n).map(|m| vec![m as i128]).map_err(|_| true),
            Aop::TakeAll => src.take_all().map(|b| { let mut v = vec![b.len() as i128]; v.extend(b.iter().map(|x| *x as i128)); v }).map_err(|e| is_source_err(&e)),
            Aop::SkipAll => src.skip_all().map(|_| vec![0]).map_err(|e| is_source_err(&e)),
            Aop::SetLim(l) => { src.set_limit(*l); Ok(vec![]) }
            Aop::Request(n) => src.request(*n).map(|g| vec![g as i128]).map_err(|_| true),
            // request(n), then the first n octets slice() shows (the access of Integer::check_head)
            Aop::Look(n) => src.request(*n).map(|_| { let sl = src.slice(); let k = (*n).min(sl.len()); let mut v = vec![k as i128]; v.extend(sl[..k].iter().map(|x| *x as i128)); v }).map_err(|_| true),
            Aop::Exhausted => src.exhausted().map(|_| vec![0]).map_err(|e| is_source_err(&e)),
            Aop::TagIf(c, n) => crate::c12::mk_tag(*c, *n).take_from_if(src).map(|o| match o { Some(k) => vec![1, k as i128], None => vec![0] }).map_err(|e| is_source_err(&e)),
            Aop::Tag => Tag::take_opt_from(src).map(|o| match o {
                Some((t, c)) => { let mut buf = Vec::new(); t.write_encoded(false, &mut buf).unwrap(); buf.resize(4, 0); let mut v = vec![1]; v.extend(buf.iter().map(|x| *x as i128)); v.push(c as i128); v }
                None => vec![0] }).map_err(|e| is_source_err(&e)),
        };
        match r { Ok(l) => log.extend(l), Err(true) => return (2, log), Err(false) => return (1, log) }
    }
    (0, log)
}

pub fn run_grants(em: &mut Emitter, rng: &mut Rng, thorough: bool) {
    for _ in 0..(if thorough { 1_600_000 } else { 40_000 }) {
        let n = rng.below(12) as usize;
        let mut data = rng.bytes(n);
        // make multi-octet identifiers likely
        for i in 0..n { if rng.chance(1, 4) { data[i] = *rng.pick(&[0x1fu8, 0x3f, 0x9f, 0x80, 0x81, 0xff, 0x1e, 0x7f]); } }
        let nops = rng.range(1, 6) as usize;
        let mut ops = Vec::new();
        if rng.chance(3, 4) { ops.push(Aop::SetLim(Some(rng.below(n as u64 + 3) as usize))); }
        for _ in 0..nops {
            ops.push(match rng.below(14) {
                10 => Aop::Exhausted,
                13 => Aop::Look(rng.below(n as u64 + 3) as usize),
                // a conditional tag read: often for the tag that is there (taken from the data), else random
                11 | 12 => { match (rng.bool(), crate::c12::ref_parse(&data)) { (true, Some((cls, _, num, _))) => Aop::TagIf(cls, num), _ => { let (c, n) = random_tag(rng); Aop::TagIf(c, n) } } }
                0 => Aop::TakeU8, 1 => Aop::TakeOpt, 2 => Aop::Skip(rng.below(5) as usize),
                3 => Aop::TakeAll, 4 => Aop::SkipAll,
                5 | 6 => Aop::SetLim(Some(rng.below(n as u64 + 3) as usize)),
                7 => Aop::Request(rng.below(n as u64 + 3) as usize),
                8 => Aop::Tag,
                _ => if rng.chance(1, 2) { Aop::SetLim(None) } else { Aop::Tag },
            });
        }
        let kind = rng.below(4) as u8; let param = rng.range(1, 5);
        let tl = rng.range(1, 8) as usize; let mut table = [0u16; 8];
        for t in table.iter_mut().take(tl) { *t = rng.below(n as u64 + 2) as u16; }
        let policy = match kind { 0 => Policy::All, 1 => Policy::Exact, 2 => Policy::Chunk(param as usize), _ => Policy::Table(table, tl) };
        let tab: Vec<i128> = table[..tl].iter().map(|x| *x as i128).collect();
        let (ops2, data2) = (ops.clone(), data.clone());
        em.case(702, &[num_arg(kind), num_arg(param), ints_of(&tab), ints_of(&enc_aops(&ops)), bytes_arg(&data)], move || {
            let r = catch(|| {
                let mut src = bcder::decode::LimitedSource::new(FlexSource::new(&data2, policy, None));
                let (code, log) = run_aops(&ops2, &mut src);
                let inner = src.unwrap();
                (code, log, data2.len() - inner.left(), inner.reqs)
            });
            // the same script on a slice source: outcome, values and consumption must agree
            // (Request reports a source-specific amount, so it is left out of the comparison)
            let base = catch(|| {
                let mut src = bcder::decode::LimitedSource::new(SliceSource::new(&data2));
                let (code, log) = run_aops(&ops2, &mut src);
                let inner = src.unwrap();
                (code, log, data2.len() - inner.len())
            });
            let has_req = ops2.iter().any(|o| matches!(o, Aop::Request(_)));
            match r {
                Some((code, log, used, reqs)) => {
                    let mut obs = vec![code, used as i128, reqs as i128]; obs.extend(log.clone());
                    let orc = match base {
                        Some((bc, bl, bu)) => if has_req || (bc, &bl, bu) == (code, &log, used) { Oracle::Pass } else { Oracle::Fail("outcome-depends-on-source".into()) },
                        None => Oracle::None,   // documented misuse panic (take_all/skip_all without a limit)
                    };
                    (ints_of(&obs), orc, true)
                }
                None => {
                    let orc = if base.is_some() { Oracle::Fail("contract-violation-or-panic".into()) } else { Oracle::None };
                    (Ints::new().n(3), orc, true)
                }
            }
        });
    }
}

// ---------------- C08 ----------------
fn fault_cases(em: &mut Emitter, mode: u8, ps: &[Prog], data: &[u8], policy: Policy) {
    // number of requests of the fault-free run
    let (n, clean) = { let mut s = FlexSource::new(data, policy, None); let (k, log, _) = run_on(mode, ps, &mut s); (s.reqs, (k, log, s.left())) };
    let mut code = Vec::new(); enc_progs(ps, &mut code);
    for k in 1..=(n + 1) {
        let (ps2, data2, clean2) = (ps.to_vec(), data.to_vec(), clean.clone());
        em.case(801, &[num_arg(mode), ints_of(&code), bytes_arg(data), num_arg(k), num_arg(n)], move || {
            let r = catch(|| { let mut s = FlexSource::new(&data2, policy, Some(k)); let (kind, log, msg) = run_on(mode, &ps2, &mut s); (kind, log, msg, s.left()) });
            match r {
                Some((kind, log, msg, left)) => {
                    let obs: Vec<i128> = if kind == 0 { let mut v = vec![0, left as i128]; v.extend(log.clone()); v } else { vec![kind as i128] };
                    let orc = if k <= n {
                        if kind == 2 && msg.as_deref() == Some(&format!("injected source failure #{}", k)) { Oracle::Pass }
                        else if kind == 2 { Oracle::Fail("a-different-source-error".into()) }
                        else if kind == 1 { Oracle::Fail("source-failure-reported-as-content-error".into()) }
                        else { Oracle::Fail("source-failure-swallowed".into()) }
                    } else if (kind, log, left) == clean2 { Oracle::Pass } else { Oracle::Fail("fault-beyond-last-request-changes-outcome".into()) };
                    (ints_of(&obs), orc, true)
                }
                None => (Ints::new().n(3), Oracle::Fail("panic-on-source-failure".into()), true),
            }
        });
    }
}

/// 802: the typed value readers of the crate (strings, identifiers, arbitrary-size integers - the
/// routines the program language does not cover) on a source failing at request k, for every k.
fn typed_reader_faults(em: &mut Emitter, which: u8, mode: u8, data: &[u8], policy: Policy) {
    use bcder::{BitString, Ia5String, Integer, NumericString, OctetString, Oid, PrintableString, Unsigned, Utf8String};
    fn go<'a>(which: u8, mode: u8, src: &mut FlexSource<'a>) -> Result<(), bcder::decode::DecodeError<TestErr>> {
        let m = mode_of(mode);
        match which {
            0 => Constructed::decode(src, m, |c| OctetString::take_from(c).map(|_| ())),
            1 => Constructed::decode(src, m, |c| BitString::take_from(c).map(|_| ())),
            2 => Constructed::decode(src, m, |c| Utf8String::take_from(c).map(|_| ())),
            3 => Constructed::decode(src, m, |c| PrintableString::take_from(c).map(|_| ())),
            4 => Constructed::decode(src, m, |c| Ia5String::take_from(c).map(|_| ())),
            5 => Constructed::decode(src, m, |c| NumericString::take_from(c).map(|_| ())),
            6 => Constructed::decode(src, m, |c| Oid::take_from(c).map(|_| ())),
            7 => Constructed::decode(src, m, |c| Integer::take_from(c).map(|_| ())),
            8 => Constructed::decode(src, m, |c| Unsigned::take_from(c).map(|_| ())),
            9 => Constructed::decode(src, m, |c| BitString::skip_in(c)),
            10 => Constructed::decode(src, m, |c| Oid::skip_in(c)),
            11 => Constructed::decode(src, m, |c| OctetString::take_opt_from(c).map(|_| ())),
            12 => Constructed::decode(src, m, |c| c.capture_all().map(|_| ())),
            _ => Constructed::decode(src, m, |c| { let os = OctetString::take_from(c)?; let _ = os.len(); Ok(()) }),
        }
    }
    let outcome = |r: &Result<(), bcder::decode::DecodeError<TestErr>>| -> (u8, Option<String>) { match r {
        Ok(()) => (0, None), Err(e) => if is_source_err(e) { (2, Some(format!("{}", e))) } else { (1, None) } } };
    let (n, clean) = { let mut s = FlexSource::new(data, policy, None); let r = go(which, mode, &mut s); (s.reqs, outcome(&r).0) };
    for k in 1..=(n + 1) {
        let data2 = data.to_vec();
        em.case(802, &[num_arg(which), num_arg(mode), bytes_arg(&data[..data.len().min(40)]), num_arg(data.len()), num_arg(k)], move || {
            let r = catch(|| { let mut s = FlexSource::new(&data2, policy, Some(k)); let r = go(which, mode, &mut s); outcome(&r) });
            let orc = match r {
                None => Oracle::Fail("panic-on-source-failure".into()),
                Some((kind, msg)) => if k <= n {
                    if kind == 2 && msg.as_deref() == Some(&format!("injected source failure #{}", k)) { Oracle::Pass }
                    else if kind == 2 { Oracle::Fail("a-different-source-error".into()) }
                    else if kind == 1 { Oracle::Fail("source-failure-reported-as-content-error".into()) }
                    else { Oracle::Fail("source-failure-swallowed".into()) }
                } else if kind == clean { Oracle::Pass } else { Oracle::Fail("fault-beyond-last-request-changes-outcome".into()) },
            };
            (Ints::new().n(1), orc, true)
        });
    }
}

pub fn run08(em: &mut Emitter, rng: &mut Rng, thorough: bool) {
    // ---- 802: typed value readers ----
    // long primitive contents skipped in one go (skip_all of thousands of octets)
    for &n in &[4095usize, 4096, 4097, 5000, 9000] { for mode in [0u8, 2] { for which in [9u8, 1, 12] {
        let mut content = vec![0u8; n]; for (i, b) in content.iter_mut().enumerate().skip(1) { *b = (i % 251) as u8; }
        let mut t = vec![0x03u8]; t.extend(ref_len_octets(content.len())); t.extend(&content);
        for policy in [Policy::Exact, Policy::Chunk(700), Policy::Chunk(4096), Policy::All] { typed_reader_faults(em, which, mode, &t, policy); }
    }}}
    for _ in 0..(if thorough { 6_000 } else { 400 }) {
        let which = rng.below(14) as u8;
        let mode = rng.below(3) as u8;
        let tag: u8 = match which { 0 | 11 | 12 | 13 => 0x04, 1 | 9 => 0x03, 2 => 0x0c, 3 => 0x13, 4 => 0x16, 5 => 0x12, 6 | 10 => 0x06, _ => 0x02 };
        let n = match rng.below(6) { 0 => 0, 1 => 1, 2 => rng.range(2, 6) as usize, 3 => rng.range(6, 40) as usize, 4 => 1000, _ => rng.range(1001, 2100) as usize };
        let content: Vec<u8> = (0..n).map(|i| match tag { 0x12 => b'0' + (i % 10) as u8, 0x03 if i == 0 => 0, 0x06 | 0x02 => 0x2a, _ => b'a' + (i % 26) as u8 }).collect();
        // the encoding the mode asks for: primitive, or (CER, more than 1000 octets of a string) 1000-octet segments
        let stringy = matches!(tag, 0x04 | 0x0c | 0x13 | 0x16 | 0x12);
        let data: Vec<u8> = if mode == 1 && stringy && content.len() > 1000 {
            let o = Os::Cons(true, content.chunks(1000).map(|c| Os::Prim(c.to_vec())).collect()); let mut t = Vec::new(); crate::c16::os_encode(&o, tag, &mut t); t
        } else if mode == 0 && stringy && rng.bool() {
            let o = segment(rng, &content, 2); let mut t = Vec::new(); os_encode_forms(&o, tag, &mut t, rng); if let Os::Prim(_) = o { } t
        } else { let mut t = vec![tag]; t.extend(ref_len_octets(content.len())); t.extend(&content); t };
        let policy = match rng.below(3) { 0 => Policy::All, 1 => Policy::Exact, _ => Policy::Chunk(rng.range(1, 700) as usize) };
        typed_reader_faults(em, which, mode, &data, policy);
    }

    let ctxs = [Ctx::Top, Ctx::Definite, Ctx::Indefinite];
    for _ in 0..(if thorough { 32_000 } else { 1_200 }) {
        let mode = rng.below(3) as u8;
        let ctx = *rng.pick(&ctxs);
        if !ctx_ok(mode, ctx) { continue }
        let forest = random_forest(rng, mode, 3);
        let inner = encode_forest(&forest, mode, &mut Some(rng));
        let mut data = wrap(ctx, &inner);
        if rng.chance(1, 5) { data = mutate(rng, &data); }
        let policy = if rng.bool() { Policy::All } else { Policy::Exact };
        let ps = in_ctx(ctx, random_program(rng, forest.len()));
        fault_cases(em, mode, &ps, &data, policy);
        // closures that read exactly the values a parent holds and return, so that the parent's own
        // end check (exhausted / end-of-contents) issues the last requests; typed and generic reads
        if ctx != Ctx::Top {
            let n = forest.len();
            let k = if rng.chance(1, 4) { n.saturating_sub(1) } else { n };
            let inner_ps: Vec<Prog> = (0..k).map(|_| match rng.below(4) {
                0 => Prog::Take { opt: false, kind: 0, exp: None, body: Body::Generic },
                1 => Prog::Take { opt: true, kind: 0, exp: None, body: Body::Generic },
                2 => Prog::Skip { variant: 1, fk: 0, fa: 0, fb: 0 },
                _ => Prog::CaptureOne,
            }).collect();
            fault_cases(em, mode, &in_ctx(ctx, inner_ps), &data, policy);
        }
    }
    // typed leaves inside each kind of parent
    for _ in 0..(if thorough { 40_000 } else { 4_000 }) {
        let mode = rng.below(3) as u8;
        let ctx = *rng.pick(&ctxs);
        if !ctx_ok(mode, ctx) { continue }
        let ty = rng.below(18) as u8;
        let n = rng.range(0, 4) as usize; let mut c = rng.bytes(n); if n > 0 && rng.bool() { c[0] = *rng.pick(&[0u8, 1, 0xff, 0x7f, 0x80, 0x2a]); } if n > 1 && c[0] == 0 && rng.bool() { c[1] |= 0x80; }
        let tag = match ty { 10 => 1u8, 11 => 5, 12 | 13 => 6, 14 | 15 => 3, _ => 2 };
        let mut inner = vec![tag, n as u8]; inner.extend(&c);
        let data = wrap(ctx, &inner);
        let ps = in_ctx(ctx, vec![Prog::Take { opt: rng.bool(), kind: if ty == 14 || ty == 15 { 0 } else { 1 }, exp: None, body: Body::Typed(ty) }]);
        let policy = if rng.bool() { Policy::All } else { Policy::Exact };
        fault_cases(em, mode, &ps, &data, policy);
    }
}
