//! C15: arbitrary-size integers behave like the numbers they encode.

use crate::common::*;
use crate::c14::{ref_minimal, ref_value, ref_in_range, val_string, ref_tc_min, value_grid, HEADS};
use bcder::decode::{Constructed, IntoSource, Primitive};
use bcder::{Integer, Mode, Unsigned};
use std::cmp::Ordering;
use std::collections::hash_map::DefaultHasher;
use std::convert::TryFrom;
use std::hash::{Hash, Hasher};

fn tlv(c: &[u8]) -> Vec<u8> {
    let mut v = vec![0x02, c.len() as u8];
    v.extend_from_slice(c);
    v
}
pub fn mk_integer(c: &[u8]) -> Option<Integer> {
    let t = tlv(c);
    Constructed::decode(t.as_slice().into_source(), Mode::Ber, |cons| Integer::take_from(cons)).ok()
}
pub fn mk_unsigned(c: &[u8]) -> Option<Unsigned> {
    let t = tlv(c);
    Constructed::decode(t.as_slice().into_source(), Mode::Ber, |cons| Unsigned::take_from(cons)).ok()
}

/// reference order of two minimal two's complement contents
fn ref_cmp(a: &[u8], b: &[u8]) -> Ordering {
    let n = a.len().max(b.len());
    let ext = |c: &[u8]| {
        let mut v = vec![if c[0] >= 0x80 { 0xffu8 } else { 0 }; n - c.len()];
        v.extend_from_slice(c);
        v
    };
    let (ea, eb) = (ext(a), ext(b));
    match (ea[0] as i8).cmp(&(eb[0] as i8)) { Ordering::Equal => ea[1..].cmp(&eb[1..]), o => o }
}
fn ord_num(o: Ordering) -> i32 { match o { Ordering::Less => -1, Ordering::Equal => 0, Ordering::Greater => 1 } }
fn hash_of<T: Hash>(t: &T) -> u64 { let mut h = DefaultHasher::new(); t.hash(&mut h); h.finish() }

fn cmp_case(em: &mut Emitter, a: &[u8], b: &[u8]) {
    em.case(1501, &[bytes_arg(a), bytes_arg(b)], || {
        let r = catch(|| {
            let (ia, ib) = (mk_integer(a).unwrap(), mk_integer(b).unwrap());
            // an Integer against an Unsigned (where b is non-negative): equal exactly when the numbers are
            let cross = match mk_unsigned(b) { Some(ub) => Some((ia == ub, Unsigned::cmp(&ub, &ub) == Ordering::Equal && ub == ub)), None => None };
            let eq = ia == ib;
            if let Some((x, refl)) = cross { if x != eq || !refl { return (ia.cmp(&ib), !eq, false, None) } }
            (ia.cmp(&ib), eq, hash_of(&ia) == hash_of(&ib), ia.partial_cmp(&ib))
        });
        match r {
            Some((o, eq, heq, po)) => {
                let exp = ref_cmp(a, b);
                let mut orc = Oracle::Pass;
                if o != exp || po != Some(exp) { orc = Oracle::Fail("cmp".into()); }
                else if eq != (exp == Ordering::Equal) { orc = Oracle::Fail("eq".into()); }
                else if eq && !heq { orc = Oracle::Fail("hash".into()); }
                (Ints::new().n(R_OK).n(ord_num(o)).b(eq).b(heq), orc, true)
            }
            None => (Ints::new().n(R_PANIC).n(0).n(0), Oracle::Fail("panic".into()), true),
        }
    });
}

fn pred_case(em: &mut Emitter, a: &[u8]) {
    em.case(1502, &[bytes_arg(a)], || {
        let r = catch(|| { let i = mk_integer(a).unwrap(); (i.is_zero(), i.is_positive(), i.is_negative()) });
        match r {
            Some((z, p, n)) => {
                let neg = a[0] >= 0x80;
                let zero = a.iter().all(|&b| b == 0);
                let ok = z == zero && n == neg && p == (!neg && !zero);
                (Ints::new().n(R_OK).b(z).n(R_OK).b(p).n(R_OK).b(n),
                 if ok { Oracle::Pass } else { Oracle::Fail("predicates".into()) }, true)
            }
            None => (Ints::new().n(R_PANIC), Oracle::Fail("panic".into()), true),
        }
    });
}

macro_rules! tf {
    ($t:ty, $i:expr) => { <$t>::try_from($i).ok().map(|v| v.to_string()) };
}
fn try_from_int(ty: u8, i: &Integer) -> Option<String> {
    match ty { 0 => tf!(i8, i), 1 => tf!(i16, i), 2 => tf!(i32, i), 3 => tf!(i64, i), 4 => tf!(i128, i),
               5 => tf!(u8, i), 6 => tf!(u16, i), 7 => tf!(u32, i), 8 => tf!(u64, i), _ => tf!(u128, i) }
}
fn try_from_uns(ty: u8, i: &Unsigned) -> Option<String> {
    match ty { 0 => tf!(i8, i), 1 => tf!(i16, i), 2 => tf!(i32, i), 3 => tf!(i64, i), 4 => tf!(i128, i),
               5 => tf!(u8, i), 6 => tf!(u16, i), 7 => tf!(u32, i), 8 => tf!(u64, i), _ => tf!(u128, i) }
}

fn tryfrom_case(em: &mut Emitter, ty: u8, a: &[u8]) {
    em.case(1503, &[num_arg(ty), bytes_arg(a)], || {
        let r = catch(|| {
            let i = mk_integer(a).unwrap();
            let u = mk_unsigned(a);
            (try_from_int(ty, &i), u.map(|u| try_from_uns(ty, &u)))
        });
        match r {
            Some((ri, ru)) => {
                let exp = match ref_value(a) { Some((n, m)) if ref_in_range(ty, n, m) => Some(val_string(n, m)), _ => None };
                let mut obs = Ints::new();
                match &ri { Some(v) => { obs = obs.n(R_OK).n(v); } None => { obs = obs.n(R_CERR); } }
                let mut orc = if ri == exp { Oracle::Pass } else { Oracle::Fail("try-from-integer".into()) };
                match &ru {
                    Some(Some(v)) => { obs = obs.n(R_OK).n(v); if Some(v) != exp.as_ref() { orc = Oracle::Fail("try-from-unsigned".into()); } }
                    Some(None) => { obs = obs.n(R_CERR); if exp.is_some() { orc = Oracle::Fail("try-from-unsigned".into()); } }
                    None => { obs = obs.n(9); if a[0] < 0x80 { orc = Oracle::Fail("unsigned-rejects-nonnegative".into()); } }
                }
                (obs, orc, true)
            }
            None => (Ints::new().n(R_PANIC), Oracle::Fail("panic".into()), true),
        }
    });
}

macro_rules! fr {
    ($t:ty, $neg:expr, $mag:expr, $uns:expr) => {{
        let v: $t = if $neg { (0 as $t).wrapping_sub($mag as $t) } else { $mag as $t };
        let i = Integer::from(v);
        (i.as_slice().to_vec(), None::<Vec<u8>>)
    }};
}
macro_rules! fru {
    ($t:ty, $mag:expr) => {{
        let v: $t = $mag as $t;
        (Integer::from(v).as_slice().to_vec(), Some(Unsigned::from(v).as_slice().to_vec()))
    }};
}
fn from_case(em: &mut Emitter, ty: u8, neg: bool, mag: u128) {
    if !ref_in_range(ty, neg, mag) { return }
    em.case(1504, &[num_arg(ty), num_arg(val_string(neg, mag))], || {
        let r = catch(|| match ty {
            0 => fr!(i8, neg, mag, false), 1 => fr!(i16, neg, mag, false), 2 => fr!(i32, neg, mag, false),
            3 => fr!(i64, neg, mag, false), 4 => fr!(i128, neg, mag, false),
            5 => fru!(u8, mag), 6 => fru!(u16, mag), 7 => fru!(u32, mag), 8 => fru!(u64, mag), _ => fru!(u128, mag),
        });
        match r {
            Some((bi, bu)) => {
                let exp = ref_tc_min(neg, mag);
                let ok = bi == exp && bu.as_ref().map(|b| *b == exp).unwrap_or(true);
                (Ints::new().bytes(&bi), if ok { Oracle::Pass } else { Oracle::Fail("from-builtin".into()) }, true)
            }
            None => (Ints::new().n(-1), Oracle::Fail("panic".into()), true),
        }
    });
}

fn frombytes_case(em: &mut Emitter, mag: &[u8]) {
    em.case(1505, &[bytes_arg(mag)], || {
        let r = catch(|| {
            let a = Unsigned::from_slice(mag).ok().map(|u| u.as_slice().to_vec());
            let b = Unsigned::from_bytes(bytes::Bytes::copy_from_slice(mag)).ok().map(|u| u.as_slice().to_vec());
            let c = Unsigned::try_from(bytes::Bytes::copy_from_slice(mag)).ok().map(|u| u.as_slice().to_vec());
            (a, b, c)
        });
        match r {
            Some((a, b, c)) => {
                // reference: strip zeros, add sign octet if needed
                let exp = if mag.is_empty() { None } else {
                    let mut s = 0; while s + 1 < mag.len() && mag[s] == 0 { s += 1; }
                    let mut v = mag[s..].to_vec();
                    if v[0] >= 0x80 { v.insert(0, 0); }
                    Some(v)
                };
                let ok = a == exp && b == exp && c == exp;
                let obs = match &a { Some(v) => Ints::new().n(R_OK).bytes(v), None => Ints::new().n(R_CERR) };
                (obs, if ok { Oracle::Pass } else { Oracle::Fail("from-bytes".into()) }, !mag.is_empty())
            }
            None => (Ints::new().n(R_PANIC), Oracle::Fail("from-bytes-panic".into()), true),
        }
    });
}

fn decode_case(em: &mut Emitter, c: &[u8]) {
    em.case(1506, &[bytes_arg(c)], || {
        let r = catch(|| {
            let i = Primitive::decode_slice(c, Mode::Der, |p| Integer::from_primitive(p)).ok().map(|i| i.as_slice().to_vec());
            let u = Primitive::decode_slice(c, Mode::Der, |p| Unsigned::from_primitive(p)).ok().map(|i| i.as_slice().to_vec());
            (i, u)
        });
        match r {
            Some((i, u)) => {
                let min = ref_minimal(c);
                let ok = i.is_some() == min && u.is_some() == (min && c[0] < 0x80)
                    && i.as_ref().map(|v| v == c).unwrap_or(true) && u.as_ref().map(|v| v == c).unwrap_or(true);
                let mut obs = Ints::new();
                match &i { Some(v) => { obs = obs.n(R_OK).bytes(v); } None => { obs = obs.n(R_CERR); } }
                match &u { Some(v) => { obs = obs.n(R_OK).bytes(v); } None => { obs = obs.n(R_CERR); } }
                (obs, if ok { Oracle::Pass } else { Oracle::Fail("integer-decode".into()) }, true)
            }
            None => (Ints::new().n(R_PANIC), Oracle::Fail("panic".into()), true),
        }
    });
}

/// valid (minimal) integer contents around every sign/length boundary
fn valid_contents(rng: &mut Rng, maxlen: usize) -> Vec<Vec<u8>> {
    let mut out: Vec<Vec<u8>> = Vec::new();
    for a in [0u8, 1, 0x7f, 0x80, 0x81, 0xfe, 0xff] { out.push(vec![a]); }
    for len in 2..=maxlen {
        for &a in &[0u8, 1, 0x7f, 0x80, 0x81, 0xfe, 0xff] { for &b in &[0u8, 1, 0x7f, 0x80, 0xff] {
            for pat in 0..4 {
                let mut c = vec![a, b];
                for i in 2..len { c.push(match pat { 0 => 0, 1 => 0xff, 2 => if i == len - 1 { 1 } else { 0 }, _ => rng.byte() }); }
                c.truncate(len);
                if ref_minimal(&c) { out.push(c); }
            }
        }}
    }
    out.sort(); out.dedup();
    out
}

pub fn run(em: &mut Emitter, rng: &mut Rng, thorough: bool) {
    let lens: usize = if thorough { 18 } else { 10 };
    let mut vals = valid_contents(rng, lens);
    if !thorough { for l in [16usize, 17, 18] { for c in valid_contents(rng, l) { if c.len() == l { vals.push(c); } } } }
    // all 1-octet and a band of 2-octet contents
    for a in 0..=255u8 { vals.push(vec![a]); }
    vals.sort(); vals.dedup();
    // ---- comparison, equality, hashing: all pairs ----
    let step = if thorough { 1 } else { 2 };
    for (i, a) in vals.iter().enumerate() {
        for (j, b) in vals.iter().enumerate() {
            if thorough || (i + j) % step == 0 || a.len() == b.len() { cmp_case(em, a, b); }
        }
    }
    // exhaustive 16-bit pairs, sampled
    for _ in 0..(if thorough { 1_000_000 } else { 100_000 }) {
        let mk = |rng: &mut Rng| { let v = rng.next() as i16; ref_tc_min(v < 0, (v as i32).unsigned_abs() as u128) };
        let (a, b) = (mk(rng), mk(rng));
        cmp_case(em, &a, &b);
    }
    // ---- predicates / TryFrom ----
    for a in 0..=255u8 { for b in 0..=255u8 { let c = [a, b]; if ref_minimal(&c) { pred_case(em, &c); for ty in 0..10u8 { tryfrom_case(em, ty, &c); } } } }
    for c in &vals { pred_case(em, c); for ty in 0..10u8 { tryfrom_case(em, ty, c); } }
    // ---- From ----
    let mut grid: Vec<(bool, u128)> = Vec::new();
    value_grid(rng, false, &mut |n, m| grid.push((n, m)));
    for (k, &(n, m)) in grid.iter().enumerate() {
        if thorough || m > 0xffff || k % 8 == 0 || m < 0x300 || m > 0xfe00 { for ty in 0..10u8 { from_case(em, ty, n, m); } }
    }
    // ---- magnitudes ----
    frombytes_case(em, &[]);
    for a in 0..=255u8 { frombytes_case(em, &[a]); for b in 0..=255u8 { frombytes_case(em, &[a, b]); } }
    for zeros in 0..=3usize { for &top in &HEADS { for len in 0..=20usize {
        let mut m = vec![0u8; zeros];
        if len > 0 { m.push(top); for _ in 1..len { m.push(rng.byte()); } }
        frombytes_case(em, &m);
        let mut z = vec![0u8; zeros + len]; frombytes_case(em, &z); z.push(0);
    }}}
    // ---- decoding into Integer / Unsigned ----
    decode_case(em, &[]);
    for a in 0..=255u8 { decode_case(em, &[a]); for b in 0..=255u8 { decode_case(em, &[a, b]); } }
    for c in &vals { decode_case(em, c); let mut d = vec![0u8]; d.extend(c); decode_case(em, &d); let mut e = vec![0xffu8]; e.extend(c); decode_case(em, &e); }
}
