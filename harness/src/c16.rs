//! C16/C17: octet strings - content is the concatenation of the primitive segments;
//! comparison and hashing depend on content only.

use crate::common::*;
use crate::gen::*;
use bcder::decode::{Constructed, IntoSource};
use bcder::encode::Values;
use bcder::{Mode, OctetString, Tag};
use std::collections::hash_map::DefaultHasher;
use std::hash::{Hash, Hasher};

#[derive(Clone, Debug)]
pub enum Os { Prim(Vec<u8>), Cons(bool, Vec<Os>) }

pub fn os_encode(o: &Os, tag: u8, out: &mut Vec<u8>) {
    match o {
        Os::Prim(b) => { out.push(tag); out.extend(ref_len_octets(b.len())); out.extend(b); }
        Os::Cons(indef, kids) => {
            out.push(tag | 0x20);
            let mut body = Vec::new(); for k in kids { os_encode(k, 0x04, &mut body); }
            if *indef { out.push(0x80); out.extend(body); out.extend_from_slice(&[0, 0]); }
            else { out.extend(ref_len_octets(body.len())); out.extend(body); }
        }
    }
}
/// as os_encode, with randomly chosen (possibly non-minimal) BER length forms on every header
pub fn os_encode_forms(o: &Os, tag: u8, out: &mut Vec<u8>, rng: &mut Rng) {
    let lenf = |n: usize, rng: &mut Rng| if rng.chance(1, 2) { ref_len_octets(n) } else { ber_len_octets(n, rng.below(3) as usize) };
    match o {
        Os::Prim(b) => { out.push(tag); out.extend(lenf(b.len(), rng)); out.extend(b); }
        Os::Cons(indef, kids) => {
            out.push(tag | 0x20);
            let mut body = Vec::new(); for k in kids { os_encode_forms(k, 0x04, &mut body, rng); }
            if *indef { out.push(0x80); out.extend(body); out.extend_from_slice(&[0, 0]); }
            else { out.extend(lenf(body.len(), rng)); out.extend(body); }
        }
    }
}
pub fn os_content(o: &Os) -> Vec<u8> { match o { Os::Prim(b) => b.clone(), Os::Cons(_, k) => k.iter().flat_map(os_content).collect() } }
fn os_prims(o: &Os, out: &mut Vec<Vec<u8>>) { match o { Os::Prim(b) => out.push(b.clone()), Os::Cons(_, k) => for x in k { os_prims(x, out) } } }

/// expected acceptance of an Os (always a well-formed OCTET STRING tree) in `mode`
fn ref_accept(o: &Os, mode: u8) -> bool {
    match (mode, o) {
        (2, Os::Prim(_)) => true,
        (2, _) => false,
        (1, Os::Prim(b)) => b.len() <= 1000,
        (1, Os::Cons(indef, kids)) => *indef && {
            let mut ok = true; let mut short = false;
            for k in kids { match k { Os::Prim(b) => { if b.len() > 1000 || short { ok = false } if b.len() < 1000 { short = true } } _ => ok = false } }
            ok },
        (_, Os::Prim(_)) => true,
        (_, Os::Cons(_, kids)) => kids.iter().all(|k| ref_accept(k, 0)),
    }
}

pub fn random_os(rng: &mut Rng, depth: u32, alphabet: &[u8], maxlen: usize) -> Os {
    if depth == 0 || rng.chance(1, 2) {
        let n = rng.below(maxlen as u64 + 1) as usize;
        Os::Prim((0..n).map(|_| *rng.pick(alphabet)).collect())
    } else {
        let k = rng.below(4) as usize;
        Os::Cons(rng.bool(), (0..k).map(|_| random_os(rng, depth - 1, alphabet, maxlen)).collect())
    }
}

pub fn take_os(mode: u8, tag: Tag, data: &[u8]) -> Option<OctetString> {
    Constructed::decode(data.into_source(), mode_of(mode), |cons| cons.take_value_if(tag, OctetString::from_content)).ok()
}

fn views(os: &OctetString) -> Ints {
    let mut o = Ints::new().n(if os.as_slice().is_some() { 0 } else { 1 });
    let segs: Vec<Vec<u8>> = os.iter().map(|s| s.to_vec()).collect();
    o = o.n(R_OK).n(segs.len()); for s in &segs { o = o.bytes(s); }
    o = o.n(R_OK).bytes(os.to_bytes().as_ref());
    o = o.n(R_OK).n(os.len());
    o.n(R_OK).b(os.is_empty())
}

fn decode_case(em: &mut Emitter, mode: u8, data: &[u8], exp: Option<(bool, Vec<u8>, Vec<Vec<u8>>)>) {
    em.case(1601, &[num_arg(mode), bytes_arg(data)], || {
        let r = catch(|| take_os(mode, Tag::OCTET_STRING, data).map(|os| {
            let v = views(&os);
            let octs: Vec<u8> = os.octets().collect();
            let segs: Vec<Vec<u8>> = os.iter().map(|s| s.to_vec()).collect();
            let ib = os.clone().into_bytes().to_vec();
            // the value as a decoding source: everything it hands out, in order
            let mut src = { use bcder::decode::IntoSource; os.clone().into_source() };
            let mut sv = Vec::new();
            loop { use bcder::decode::Source; let g = src.request(3).unwrap(); if g == 0 { break } let k = g.min(3); sv.extend_from_slice(&src.slice()[..k]); src.advance(k); }
            (v, octs, segs, os.to_bytes().to_vec(), ib, os.len(), os.is_empty(), sv)
        }));
        // the same string as a member of a SEQUENCE of definite and of indefinite length, followed by a NULL: the
        // verdict and the content are those of the string standing alone, and the NULL is still there
        let alone: Option<Vec<u8>> = match &r { Some(Some(x)) => Some(x.3.clone()), _ => None };
        let mut nested_same = true;
        if r.is_some() && exp.is_some() && data.len() < 3000 {
            for indef in [false, true] {
                if (indef && mode == 2) || (!indef && mode == 1) { continue }
                let mut inner = data.to_vec(); inner.extend_from_slice(&[0x05, 0x00]);
                let mut w = vec![0x30u8]; if indef { w.push(0x80); w.extend_from_slice(&inner); w.extend_from_slice(&[0, 0]); } else { w.extend(crate::gen::ref_len_octets(inner.len())); w.extend_from_slice(&inner); }
                let got = catch(|| Constructed::decode(w.as_slice().into_source(), mode_of(mode), |c| c.take_sequence(|k| { let os = OctetString::take_from(k)?; k.take_null()?; Ok(os.to_bytes().to_vec()) })).ok());
                if got != Some(alone.clone()) { nested_same = false; }
            }
        }
        if !nested_same { return (Ints::new().n(-6), Oracle::Fail("octet-string-inside-a-sequence-differs-from-the-string-alone".into()), true) }
        match r {
            Some(Some((v, octs, segs, tb, ib, l, e, sv))) => {
                let orc = match &exp {
                    Some((true, content, prims)) => {
                        let nonempty: Vec<Vec<u8>> = prims.clone();
                        if octs != *content || tb != *content || ib != *content || l != content.len() || e != content.is_empty() { Oracle::Fail("views-differ-from-concatenation".into()) }
                        else if sv != *content { Oracle::Fail("source-view-differs-from-concatenation".into()) }
                        else if segs.concat() != *content { Oracle::Fail("segments".into()) }
                        else if segs.len() > nonempty.len() { Oracle::Fail("segment-count".into()) }
                        else { Oracle::Pass }
                    }
                    Some((false, _, _)) => Oracle::Fail("accepts-what-the-mode-forbids".into()),
                    None => Oracle::None,
                };
                (Ints::new().n(R_OK).ext(v), orc, true)
            }
            Some(None) => (Ints::new().n(R_CERR), match &exp { Some((true, _, _)) => Oracle::Fail("rejects-valid".into()), _ => Oracle::Pass }, true),
            None => (Ints::new().n(R_PANIC), Oracle::Fail("panic".into()), true),
        }
    });
}

fn encode_case(em: &mut Emitter, mode: u8, data: &[u8], m2: u8, outer_indef: bool, content: &[u8]) {
    em.case(1602, &[num_arg(mode), bytes_arg(data), num_arg(m2)], || {
        let os = match catch(|| take_os(mode, Tag::OCTET_STRING, data)) { Some(Some(o)) => o, Some(None) => return (Ints::new().n(R_CERR), Oracle::None, false), None => return (Ints::new().n(R_PANIC), Oracle::Fail("panic".into()), true) };
        let w = catch(|| { let mut v = Vec::new(); os.encode_ref().write_encoded(mode_of(m2), &mut v).unwrap(); v });
        let l = catch(|| os.encode_ref().encoded_len(mode_of(m2)));
        let mut obs = Ints::new().n(R_OK);
        match &w { Some(v) => { obs = obs.n(R_OK).bytes(v); } None => { obs = obs.n(R_PANIC); } }
        match &l { Some(n) => { obs = obs.n(R_OK).n(*n); } None => { obs = obs.n(R_PANIC); } }
        let orc = if m2 == 1 { Oracle::None } else { match (&w, &l) {
            (Some(v), Some(n)) => {
                if *n != v.len() { Oracle::Fail("encoded-len".into()) }
                else if let Some(what) = awkward_targets(v, 1 + v.len() % 4, &|tg| { let mut tg = tg; os.encode_ref().write_encoded(mode_of(m2), &mut tg) }) { Oracle::Fail(what.into()) }
                else {
                    // the output must be a well-formed encoding of the same content
                    match catch(|| take_os(m2, Tag::OCTET_STRING, v)) {
                        Some(Some(back)) if back.to_bytes().as_ref() == content => {
                            if m2 == 2 { let mut e = vec![0x04]; e.extend(ref_len_octets(content.len())); e.extend_from_slice(content); if *v != e { Oracle::Fail("der-not-flattened".into()) } else { Oracle::Pass } } else { Oracle::Pass }
                        }
                        _ => if m2 == 0 && outer_indef { Oracle::Fail("D17-ber-reencoding-of-indefinite-form-includes-end-of-contents".into()) } else { Oracle::Fail("reencoding-not-well-formed".into()) },
                    }
                }
            }
            _ => Oracle::Fail("encode-panics".into()),
        } };
        (obs, orc, true)
    });
}

fn hash_of<T: Hash>(t: &T) -> u64 { let mut h = DefaultHasher::new(); t.hash(&mut h); h.finish() }
/// a hasher that records every call: a Hash impl must feed equal values identically,
/// whatever the hasher does with the chunking of its input
#[derive(Default)]
struct RecHasher(Vec<Vec<u8>>);
impl Hasher for RecHasher { fn finish(&self) -> u64 { 0 } fn write(&mut self, b: &[u8]) { self.0.push(b.to_vec()); } }
fn hash_calls<T: Hash>(t: &T) -> Vec<Vec<u8>> { let mut h = RecHasher::default(); t.hash(&mut h); h.0 }

fn cmp_case(em: &mut Emitter, a: &[u8], b: &[u8], ca: &[u8], cb: &[u8]) {
    em.case(1701, &[bytes_arg(a), bytes_arg(b)], || {
        let r = catch(|| {
            let (x, y) = (take_os(0, Tag::OCTET_STRING, a)?, take_os(0, Tag::OCTET_STRING, b)?);
            // the same pair decoded in CER mode, where both encodings are accepted there
            let cer = match (take_os(1, Tag::OCTET_STRING, a), take_os(1, Tag::OCTET_STRING, b)) {
                (Some(p), Some(q)) => Some((p == q, p.cmp(&q), hash_calls(&p) == hash_calls(&q), p == y, x == q)),
                _ => None };
            // the same two values as restricted character strings (when their octets are IA5): the wrapper's
            // comparison and hashing are by content, too
            if let (Ok(p), Ok(q)) = (bcder::Ia5String::new(x.clone()), bcder::Ia5String::new(y.clone())) {
                let same = ca == cb;
                let hp = { let mut h = DefaultHasher::new(); p.hash(&mut h); h.finish() }; let hq = { let mut h = DefaultHasher::new(); q.hash(&mut h); h.finish() };
                if (p == q) != same || p.cmp(&q) != ca.cmp(cb) || p.partial_cmp(&q) != Some(ca.cmp(cb)) || (same && hp != hq) { return Some((x == y, x.cmp(&y), false, None, cer)) }
            }
            Some((x == y, x.cmp(&y), hash_of(&x) == hash_of(&y) && hash_calls(&x) == hash_calls(&y), x.partial_cmp(&y), cer))
        });
        match r {
            Some(Some((eq, ord, heq, pord, cer))) => {
                let e = ca.cmp(cb);
                let orc = if eq != (ca == cb) { Oracle::Fail("eq".into()) } else if ord != e || pord != Some(e) { Oracle::Fail("cmp".into()) }
                          else if ca == cb && !heq { Oracle::Fail("hash".into()) }
                          else if let Some((ceq, cord, cheq, m1, m2)) = cer {
                              if ceq != (ca == cb) || m1 != (ca == cb) || m2 != (ca == cb) { Oracle::Fail("eq-of-cer-decoded-strings".into()) }
                              else if cord != e { Oracle::Fail("cmp-of-cer-decoded-strings".into()) }
                              else if ca == cb && !cheq { Oracle::Fail("hash-of-cer-decoded-strings".into()) } else { Oracle::Pass } }
                          else { Oracle::Pass };
                let o = match ord { std::cmp::Ordering::Less => -1, std::cmp::Ordering::Equal => 0, _ => 1 };
                (Ints::new().n(R_OK).n(R_OK).b(eq).n(R_OK).n(o).n(R_OK).b(heq), orc, true)
            }
            Some(None) => (Ints::new().n(R_CERR), Oracle::Fail("valid-rejected".into()), true),
            None => (Ints::new().n(R_PANIC), Oracle::Fail("panic".into()), true),
        }
    });
}
fn slice_case(em: &mut Emitter, a: &[u8], ca: &[u8], sl: &[u8]) {
    em.case(1702, &[bytes_arg(a), bytes_arg(sl)], || {
        let r = catch(|| { let x = take_os(0, Tag::OCTET_STRING, a)?; Some((x == sl.to_vec(), x.partial_cmp(&sl.to_vec()))) });
        match r {
            Some(Some((eq, pord))) => {
                let e = ca.cmp(sl);
                let orc = if eq != (ca == sl) { Oracle::Fail("eq-slice".into()) } else if pord != Some(e) { Oracle::Fail("partial-cmp-slice".into()) } else { Oracle::Pass };
                let o = match pord { Some(std::cmp::Ordering::Less) => -1, Some(std::cmp::Ordering::Equal) => 0, _ => 1 };
                (Ints::new().n(R_OK).n(R_OK).b(eq).n(R_OK).n(o), orc, true)
            }
            Some(None) => (Ints::new().n(R_CERR), Oracle::Fail("valid-rejected".into()), true),
            None => (Ints::new().n(R_PANIC), Oracle::Fail("panic".into()), true),
        }
    });
}

/// 1603: the value used as a decoding source under a script of request(n) / advance(k): the amount each
/// request reports and everything slice() shows afterwards. Oracle: the Source contract against the content -
/// a request grants at least min(n, what is left) and at most what is left, the view is a prefix of what is
/// left, and nothing is lost.
fn source_case(em: &mut Emitter, mode: u8, data: &[u8], script: &[(u8, usize)], content: Option<Vec<u8>>) {
    let flat: Vec<u8> = Vec::new(); let _ = flat;
    let sc: Vec<i128> = script.iter().flat_map(|(o, n)| [*o as i128, *n as i128]).collect();
    em.case(1603, &[num_arg(mode), bytes_arg(data), crate::c02::ints_of(&sc)], || {
        let r = catch(|| take_os(mode, Tag::OCTET_STRING, data).map(|os| {
            use bcder::decode::{IntoSource, Source};
            let mut src = os.into_source();
            let mut log: Vec<i128> = Vec::new(); let mut violated: Option<&'static str> = None;
            let mut left: Option<Vec<u8>> = content.clone();
            for (op, n) in script {
                if *op == 0 {
                    let g = src.request(*n).unwrap();
                    let sl = src.slice().to_vec();
                    log.push(g as i128); log.push(sl.len() as i128); log.extend(sl.iter().map(|x| *x as i128));
                    if let Some(l) = &left {
                        if g < (*n).min(l.len()) { violated = Some("request-grants-less-than-asked-and-available"); }
                        if g > l.len() || sl.len() > l.len() || sl[..] != l[..sl.len().min(l.len())] { violated = Some("view-is-not-a-prefix-of-the-remaining-content"); }
                        if g != sl.len() { violated = Some("reported-amount-differs-from-the-view"); }
                    }
                } else {
                    let k = (*n).min(src.slice().len());
                    src.advance(k); log.push(k as i128);
                    if let Some(l) = &mut left { l.drain(..k.min(l.len())); }
                }
            }
            (log, violated)
        }));
        match r {
            Some(Some((log, violated))) => { let mut o = Ints::new().n(0); for x in &log { o.push(x); }
                (o, match violated { Some(w) => Oracle::Fail(w.into()), None => if content.is_some() { Oracle::Pass } else { Oracle::None } }, true) }
            Some(None) => (Ints::new().n(1), if content.is_some() { Oracle::Fail("well-formed-string-rejected".into()) } else { Oracle::None }, false),
            None => (Ints::new().n(-3), Oracle::Fail("panic".into()), true),
        }
    });
}

pub fn run16(em: &mut Emitter, rng: &mut Rng, thorough: bool) {
    let alpha0 = [0x61u8, 0x62, 0x00, 0xff];
    for _ in 0..(if thorough { 120_000 } else { 6_000 }) {
        let o = random_os(rng, 3, &alpha0, 4);
        let mut data = Vec::new(); if rng.bool() { os_encode(&o, 0x04, &mut data); } else { os_encode_forms(&o, 0x04, &mut data, rng); }
        let content = os_content(&o);
        let nops = rng.range(1, 8) as usize;
        let script: Vec<(u8, usize)> = (0..nops).map(|_| if rng.chance(3, 5) { (0u8, match rng.below(6) { 0 => 0, 1 => 1, 2 => content.len(), 3 => content.len() + 1, _ => rng.below(content.len() as u64 + 3) as usize }) } else { (1u8, rng.below(content.len() as u64 + 2) as usize) }).collect();
        source_case(em, 0, &data, &script, Some(content));
    }
    let alpha = [0x61u8, 0x62, 0x00, 0xff];
    for _ in 0..(if thorough { 240_000 } else { 8_000 }) {
        let o = random_os(rng, 3, &alpha, 4);
        let mut data = Vec::new(); os_encode(&o, 0x04, &mut data);
        let content = os_content(&o);
        let mut prims = Vec::new(); os_prims(&o, &mut prims);
        for mode in 0..3u8 {
            decode_case(em, mode, &data, Some((ref_accept(&o, mode), content.clone(), prims.clone())));
        }
        // the same tree under random (non-minimal) BER length forms on every header
        { let mut df = Vec::new(); os_encode_forms(&o, 0x04, &mut df, rng);
          decode_case(em, 0, &df, Some((true, content.clone(), prims.clone())));
          if df != data { for mode in [1u8, 2] { decode_case(em, mode, &df, None); } } }
        let outer_indef = matches!(o, Os::Cons(true, _));
        for m2 in 0..3u8 { encode_case(em, 0, &data, m2, outer_indef, &content); }
        if matches!(o, Os::Prim(_)) { encode_case(em, 2, &data, 2, false, &content); }
        // malformed: foreign tag inside, mutation
        let bad = mutate(rng, &data);
        decode_case(em, rng.below(3) as u8, &bad, None);
        if let Os::Cons(indef, kids) = &o {
            let mut v = vec![0x24u8];
            let mut body = Vec::new(); for k in kids { os_encode(k, 0x04, &mut body); }
            body.extend_from_slice(&[0x02, 0x01, 0x00]);
            if *indef { v.push(0x80); v.extend(body); v.extend_from_slice(&[0, 0]); } else { v.extend(ref_len_octets(body.len())); v.extend(body); }
            decode_case(em, 0, &v, Some((false, vec![], vec![])));
        }
    }
    // re-encoding where the flattened content and the stored segmentation fall on different sides of a
    // length-octet threshold (127/128, 255/256, 65535/65536)
    let mut ns: Vec<usize> = (118..=131).chain(244..=259).collect();
    if thorough { ns.extend(65520..=65537usize); }
    for n in ns {
        let bytes: Vec<u8> = (0..n).map(|i| (i * 7 + 1) as u8).collect();
        let k = n / 3;
        let layouts = [Os::Cons(false, vec![Os::Prim(bytes.clone())]),
                       Os::Cons(false, vec![Os::Prim(bytes[..k].to_vec()), Os::Prim(bytes[k..].to_vec())]),
                       Os::Cons(false, vec![Os::Prim(bytes[..1].to_vec()), Os::Cons(false, vec![Os::Prim(bytes[1..k].to_vec()), Os::Prim(vec![])]), Os::Prim(bytes[k..].to_vec())]),
                       Os::Cons(false, vec![Os::Cons(true, vec![Os::Prim(bytes[..k].to_vec())]), Os::Prim(bytes[k..].to_vec())])];
        for o in &layouts {
            let mut data = Vec::new(); os_encode(o, 0x04, &mut data);
            for m2 in 0..3u8 { encode_case(em, 0, &data, m2, false, &bytes); }
        }
    }
    // CER shapes: segment sizes from {0, 1, 999, 1000, 1001}, up to 3 segments, all orders
    let sizes = [0usize, 1, 999, 1000, 1001];
    let mut shapes: Vec<Vec<usize>> = vec![vec![]];
    for &a in &sizes { shapes.push(vec![a]); for &b in &sizes { shapes.push(vec![a, b]); for &c in &sizes { shapes.push(vec![a, b, c]); } } }
    for sh in &shapes {
        let o = Os::Cons(true, sh.iter().map(|&n| Os::Prim(vec![0x55; n])).collect());
        let mut data = Vec::new(); os_encode(&o, 0x04, &mut data);
        let content = os_content(&o); let mut prims = Vec::new(); os_prims(&o, &mut prims);
        for mode in [0u8, 1] { decode_case(em, mode, &data, Some((ref_accept(&o, mode), content.clone(), prims.clone()))); }
    }
    for n in [999usize, 1000, 1001] {
        let o = Os::Prim(vec![7; n]); let mut data = Vec::new(); os_encode(&o, 0x04, &mut data);
        for mode in 0..3u8 { decode_case(em, mode, &data, Some((ref_accept(&o, mode), os_content(&o), vec![os_content(&o)]))); }
    }
}

pub fn run17(em: &mut Emitter, rng: &mut Rng, thorough: bool) {
    // all contents over a 2-letter alphabet of length <= 3 (4 thorough), a set of segmentations each
    let maxl = if thorough { 4 } else { 3 };
    let mut contents: Vec<Vec<u8>> = vec![vec![]];
    let mut cur: Vec<Vec<u8>> = vec![vec![]];
    for _ in 0..maxl { let mut nx = Vec::new(); for c in &cur { for l in [0x61u8, 0x62] { let mut d = c.clone(); d.push(l); nx.push(d); } } contents.extend(nx.clone()); cur = nx; }
    // segmentations: split points + optional empty segments + nesting
    let seg = |c: &[u8], rng: &mut Rng| -> Vec<Vec<u8>> {
        let mut out: Vec<Vec<u8>> = Vec::new();
        let mut d = Vec::new(); os_encode(&Os::Prim(c.to_vec()), 0x04, &mut d); out.push(d);
        for _ in 0..6 {
            let mut parts: Vec<Os> = Vec::new(); let mut i = 0;
            while i < c.len() { let n = rng.range(1, (c.len() - i) as u64) as usize; if rng.chance(1, 3) { parts.push(Os::Prim(vec![])); } parts.push(Os::Prim(c[i..i + n].to_vec())); i += n; }
            if rng.chance(1, 3) { parts.push(Os::Prim(vec![])); }
            if rng.chance(1, 4) && !parts.is_empty() { let k = rng.below(parts.len() as u64) as usize; let p = parts.remove(k); parts.insert(k, Os::Cons(rng.bool(), vec![p])); }
            if rng.chance(1, 6) { parts.push(Os::Cons(false, vec![])); }
            let mut d = Vec::new(); os_encode(&Os::Cons(rng.bool(), parts), 0x04, &mut d); out.push(d);
        }
        out
    };
    let segd: Vec<(Vec<u8>, Vec<Vec<u8>>)> = contents.iter().map(|c| (c.clone(), seg(c, rng))).collect();
    for (ca, sa) in &segd { for (cb, sb) in &segd {
        for a in sa { for b in sb { if thorough || rng.chance(1, 6) || ca == cb { cmp_case(em, a, b, ca, cb); } } }
        for a in sa { if thorough || rng.chance(1, 3) { slice_case(em, a, ca, cb); } }
    }}
    // the encodings CER accepts for one content: with and without an empty final segment, the two empty forms
    {
        let enc = |o: &Os| { let mut d = Vec::new(); os_encode(o, 0x04, &mut d); d };
        let full = |k: usize, tail: Option<usize>, x: u8| { let mut v: Vec<Os> = (0..k).map(|_| Os::Prim(vec![x; 1000])).collect(); if let Some(n) = tail { v.push(Os::Prim(vec![x; n])); } Os::Cons(true, v) };
        let mut forms: Vec<Os> = vec![Os::Cons(true, vec![]), Os::Cons(true, vec![Os::Prim(vec![])]), Os::Prim(vec![]), Os::Prim(vec![0x55; 3]), Os::Prim(vec![0x55; 1000])];
        for k in 1..=2usize { for x in [0x55u8, 0x56] { forms.push(full(k, None, x)); forms.push(full(k, Some(0), x)); forms.push(full(k, Some(1), x)); } }
        let forms: Vec<(Vec<u8>, Vec<u8>)> = forms.iter().map(|o| (enc(o), os_content(o))).collect();
        for (a, ca) in &forms { for (b, cb) in &forms { cmp_case(em, a, b, ca, cb); } }
    }
    for _ in 0..(if thorough { 400_000 } else { 10_000 }) {
        let a = random_os(rng, 3, &[0x61, 0x62, 0x00], 5); let b = if rng.chance(1, 3) { random_os(rng, 3, &[0x61, 0x62, 0x00], 5) } else {
            // same content, different segmentation
            let c = os_content(&a); let k = rng.below(c.len() as u64 + 1) as usize;
            Os::Cons(rng.bool(), vec![Os::Prim(c[..k].to_vec()), Os::Prim(vec![]), Os::Prim(c[k..].to_vec())]) };
        let (mut da, mut db) = (Vec::new(), Vec::new());
        if rng.bool() { os_encode(&a, 0x04, &mut da); os_encode(&b, 0x04, &mut db); } else { os_encode_forms(&a, 0x04, &mut da, rng); os_encode_forms(&b, 0x04, &mut db, rng); }
        cmp_case(em, &da, &db, &os_content(&a), &os_content(&b));
        slice_case(em, &da, &os_content(&a), &os_content(&b));
    }
}
