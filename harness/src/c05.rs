//! C05: DER decoding is canonical - typed leaves: decode, re-encode, compare.

use crate::common::*;
use crate::c14::{decode_int, encode_int, HEADS, long_contents};
use crate::c19::tlv;
use bcder::decode::{Constructed, IntoSource, Primitive};
use bcder::encode::PrimitiveContent;
use bcder::{BitString, Integer, Mode, Oid, Unsigned};

fn parse_val(s: &str) -> (bool, u128) { if let Some(r) = s.strip_prefix('-') { (true, r.parse().unwrap()) } else { (false, s.parse().unwrap()) } }

/// decode content `c` with leaf type `ty` in DER, re-encode the value in DER
fn roundtrip(ty: u8, c: &[u8]) -> Option<Option<Vec<u8>>> {
    catch(|| match ty {
        0..=9 => decode_int(ty, Mode::Der, c).unwrap().map(|v| { let (n, m) = parse_val(&v); encode_int(ty, n, m).unwrap().0 }),
        10 => Primitive::decode_slice(c, Mode::Der, |p| p.to_bool()).ok().map(|b| b.to_encoded_bytes(Mode::Der).to_vec()),
        11 => Primitive::decode_slice(c, Mode::Der, |p| p.to_null()).ok().map(|_| ().to_encoded_bytes(Mode::Der).to_vec()),
        12 => Primitive::decode_slice(c, Mode::Der, |p| Oid::from_primitive(p)).ok().map(|o| o.to_encoded_bytes(Mode::Der).to_vec()),
        14 => { let t = tlv(0x03, c); Constructed::decode(t.as_slice().into_source(), Mode::Der, |cons| BitString::take_from(cons)).ok().map(|b| b.to_encoded_bytes(Mode::Der).to_vec()) }
        16 => Primitive::decode_slice(c, Mode::Der, |p| Integer::from_primitive(p)).ok().map(|i| (&i).to_encoded_bytes(Mode::Der).to_vec()),
        _ => Primitive::decode_slice(c, Mode::Der, |p| Unsigned::from_primitive(p)).ok().map(|i| (&i).to_encoded_bytes(Mode::Der).to_vec()),
    })
}

/// INTEGER-as-u8 has many entry points (match-and-skip on Constructed and on Content, mandatory and
/// optional): whichever of them accepts an encoding must accept the DER encoding of the value it matched.
fn u8_matchers_canonical(c: &[u8]) -> bool {
    if c.len() > 100 { return true }
    let t = tlv(0x02, c);
    for expected in [0u8, 1, 0x7f, 0x80, 0x81, 0xff, c.last().copied().unwrap_or(0), c.first().copied().unwrap_or(0)] {
        let canon = tlv(0x02, &expected.to_encoded_bytes(Mode::Der));
        let accepts = [
            Constructed::decode(t.as_slice().into_source(), Mode::Der, |cons| cons.skip_u8_if(expected)).is_ok(),
            Constructed::decode(t.as_slice().into_source(), Mode::Der, |cons| cons.skip_opt_u8_if(expected)).is_ok(),
            Constructed::decode(t.as_slice().into_source(), Mode::Der, |cons| cons.take_value_if(bcder::Tag::INTEGER, |content| content.skip_u8_if(expected))).is_ok(),
            Constructed::decode(t.as_slice().into_source(), Mode::Der, |cons| cons.take_u8()).ok() == Some(expected),
            Constructed::decode(t.as_slice().into_source(), Mode::Der, |cons| cons.take_opt_u8()).ok() == Some(Some(expected)),
            Constructed::decode(t.as_slice().into_source(), Mode::Der, |cons| cons.take_value_if(bcder::Tag::INTEGER, |content| content.to_u8())).ok() == Some(expected),
        ];
        if accepts.iter().any(|&a| a) && t != canon { return false }
        if t == canon && !accepts.iter().all(|&a| a) { return false }
    }
    true
}

/// Match-and-skip of an OBJECT IDENTIFIER is by the whole content: an identifier does not match a
/// proper prefix, suffix or extension of itself (two different encodings would decode alike).
fn oid_match_canonical(c: &[u8]) -> bool {
    if c.is_empty() || c.len() > 40 || c[c.len() - 1] >= 0x80 { return true }
    let me = Oid(c.to_vec());
    let mut others: Vec<Vec<u8>> = vec![c[..c.len() - 1].to_vec(), c[1..].to_vec(), { let mut v = c.to_vec(); v.push(1); v }, { let mut v = vec![0x2a]; v.extend_from_slice(c); v }, vec![]];
    others.retain(|o| o != c);
    let skip = |content: &[u8]| Constructed::decode(tlv(0x06, content).as_slice().into_source(), Mode::Der, |cons| me.skip_if(cons)).is_ok();
    skip(c) && others.iter().all(|o| !skip(o))
}

/// A BOOLEAN captured in DER mode keeps being judged by the DER rules after the captured value has gone
/// through into_builder / freeze: the verdict on its content is the verdict of a plain DER decode.
fn bool_through_rebuilt_capture(c: &[u8]) -> bool {
    let t = tlv(0x01, c);
    let cap = match Constructed::decode(t.as_slice().into_source(), Mode::Der, |cons| cons.capture_all()) { Ok(cap) => cap, Err(_) => return true };
    let plain = Primitive::decode_slice(c, Mode::Der, |p| p.to_bool()).ok();
    let direct = cap.clone().decode(|cons| cons.take_primitive(|_, p| p.to_bool())).ok();
    let rebuilt = cap.into_builder().freeze().decode(|cons| cons.take_primitive(|_, p| p.to_bool())).ok();
    plain == direct && plain == rebuilt
}

fn leaf_case(em: &mut Emitter, ty: u8, c: &[u8]) {
    em.case(501, &[num_arg(ty), bytes_arg(c)], || {
        if ty == 10 && catch(|| bool_through_rebuilt_capture(c)) != Some(true) {
            return (Ints::new().n(-9), Oracle::Fail("a-captured-der-value-is-judged-by-other-rules-after-rebuilding".into()), true)
        }
        if ty == 12 && catch(|| oid_match_canonical(c)) != Some(true) {
            return (Ints::new().n(-9), Oracle::Fail("object-identifier-match-accepts-a-different-encoding".into()), true)
        }
        if ty == 5 && catch(|| u8_matchers_canonical(c)) != Some(true) {
            return (Ints::new().n(-9), Oracle::Fail("a-u8-entry-point-accepts-a-non-canonical-encoding-or-rejects-the-canonical-one".into()), true)
        }
        match roundtrip(ty, c) {
            Some(Some(w)) => (Ints::new().n(R_OK).bytes(&w), if w == c { Oracle::Pass } else { Oracle::Fail("der-reencoding-differs-from-accepted-input".into()) }, true),
            Some(None) => (Ints::new().n(R_CERR), Oracle::Pass, !c.is_empty()),
            None => (Ints::new().n(R_PANIC), Oracle::Fail("panic".into()), true),
        }
    });
}

/// every definite length form of n (short form when n < 128, long forms with 1..=5 length octets)
fn length_forms(n: usize) -> Vec<Vec<u8>> {
    let mut v = Vec::new();
    if n < 128 { v.push(vec![n as u8]); }
    for k in 1..=5usize {
        if k < 8 && (n as u64) >> (8 * k as u32).min(63) != 0 && k < 5 { continue }
        let mut f = vec![0x80 | k as u8];
        for i in (0..k).rev() { f.push(((n as u64) >> (8 * i)) as u8); }
        v.push(f);
    }
    v
}

/// an OCTET STRING of n octets under every length form, decoded in DER and re-encoded in DER
fn length_case(em: &mut Emitter, n: usize, fill: u8, form: &[u8]) {
    em.case(503, &[num_arg(n), num_arg(fill), bytes_arg(form)], || {
        let mut d = vec![0x04u8]; d.extend_from_slice(form); d.resize(d.len() + n, fill);
        let r = catch(|| Constructed::decode(d.as_slice().into_source(), Mode::Der, |cons| bcder::OctetString::take_from(cons)).ok().map(|os| {
            let mut out = Vec::new(); bcder::encode::Values::write_encoded(&os.encode_ref(), Mode::Der, &mut out).unwrap(); out }));
        match r {
            Some(Some(w)) => (Ints::new().n(R_OK).b(w == d), if w == d { Oracle::Pass } else { Oracle::Fail("der-reencoding-differs-from-accepted-input".into()) }, true),
            Some(None) => (Ints::new().n(R_CERR), Oracle::Pass, true),
            None => (Ints::new().n(R_PANIC), Oracle::Fail("panic".into()), true),
        }
    });
}


/// 504: an OCTET STRING or character string in any of its BER shapes (primitive, constructed with definite or
/// indefinite length, nested, empty) offered to the DER decoder: whatever is accepted re-encodes to itself.
fn string_case(em: &mut Emitter, kind: u8, data: &[u8]) {
    em.case(504, &[num_arg(kind), bytes_arg(data)], || {
        macro_rules! rt { ($t:ty) => {{ Constructed::decode(data.into_source(), Mode::Der, |cons| <$t>::take_from(cons)).ok().map(|v| {
            let mut out = Vec::new(); bcder::encode::Values::write_encoded(&v.encode_ref(), Mode::Der, &mut out).unwrap(); out }) }}; }
        let r = catch(|| match kind { 0 => rt!(bcder::OctetString), 1 => rt!(bcder::Utf8String), 2 => rt!(bcder::Ia5String), 3 => rt!(bcder::PrintableString), _ => rt!(bcder::NumericString) });
        (Ints::new().n(1), match r {
            Some(Some(w)) => if w == data { Oracle::Pass } else { Oracle::Fail("der-reencoding-differs-from-accepted-input".into()) },
            Some(None) => if data[0] & 0x20 == 0 && data.len() == 2 + data[1] as usize && data[1] < 0x80 && data[2..].iter().all(|&b| b == b'1') { Oracle::Fail("rejects-a-der-string".into()) } else { Oracle::Pass },
            None => Oracle::Fail("panic".into()) }, true)
    });
}

pub fn run(em: &mut Emitter, rng: &mut Rng, thorough: bool) {
    for &n in &[0usize, 1, 2, 126, 127, 128, 129, 200, 255, 256, 257, 1000, 4095, 4096, 4097, 5000, 32768, 65534, 65535, 65536, 70000] {
        for f in length_forms(n) { length_case(em, n, rng.byte(), &f); }
    }
    for _ in 0..(if thorough { 1_200 } else { 60 }) {
        let n = match rng.below(4) { 0 => rng.range(0, 300), 1 => rng.range(3000, 5000), 2 => rng.range(60000, 70000), _ => rng.range(0, 70000) } as usize;
        for f in length_forms(n) { length_case(em, n, rng.byte(), &f); }
    }
    let tys: [u8; 16] = [0, 1, 2, 3, 4, 5, 6, 7, 8, 9, 10, 11, 12, 14, 16, 17];
    for &ty in &tys {
        leaf_case(em, ty, &[]);
        for a in 0..=255u8 { leaf_case(em, ty, &[a]); for b in 0..=255u8 { if thorough || ty >= 10 || b % 3 == 0 || HEADS.contains(&b) { leaf_case(em, ty, &[a, b]); } } }
    }
    let mut longs: Vec<Vec<u8>> = Vec::new();
    long_contents(rng, 18, &mut |c| longs.push(c.to_vec()));
    for c in &longs { for &ty in &tys { leaf_case(em, ty, c); } }
    // ---- 504: strings in every BER shape under DER ----
    let stags: [u8; 5] = [0x04, 0x0c, 0x16, 0x13, 0x12];
    for kind in 0..5u8 {
        let t = stags[kind as usize];
        let shapes: Vec<crate::c16::Os> = {
            use crate::c16::Os::*;
            let p = |n: usize| Prim(vec![b'1'; n]);
            vec![p(0), p(1), p(5), p(127), p(128), Cons(false, vec![]), Cons(true, vec![]), Cons(false, vec![p(1)]), Cons(true, vec![p(1)]), Cons(false, vec![p(0)]),
                 Cons(false, vec![p(2), p(3)]), Cons(true, vec![p(2), p(3)]), Cons(false, vec![Cons(false, vec![p(1)])]), Cons(false, vec![Cons(true, vec![p(1)]), p(1)]),
                 Cons(true, vec![Cons(false, vec![p(1)])]), Cons(false, vec![p(1000), p(1)])]
        };
        for o in &shapes { let mut d = Vec::new(); crate::c16::os_encode(o, t, &mut d); string_case(em, kind, &d);
                           let mut d2 = Vec::new(); crate::c16::os_encode_forms(o, t, &mut d2, rng); string_case(em, kind, &d2); }
        for _ in 0..(if thorough { 20_000 } else { 400 }) {
            let n = rng.below(6) as usize; let b = vec![b'1'; n];
            let o = crate::c18::split_os(rng, &b, 2);
            let mut d = Vec::new(); if rng.bool() { crate::c16::os_encode(&o, t, &mut d); } else { crate::c16::os_encode_forms(&o, t, &mut d, rng); }
            string_case(em, kind, &d);
        }
    }
    // the typed-record variants are produced by the C04 generator (stream 502)
    crate::c04::run(em, rng, false);
}
