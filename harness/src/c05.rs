//! C05: DER decoding is canonical - typed leaves: decode, re-encode, compare.

use crate::common::*;
use crate::c14::{decode_int, encode_int, HEADS, long_contents};
use crate::c19::tlv;
use bcder::decode::{Constructed, IntoSource, Primitive};
use bcder::encode::PrimitiveContent;
use bcder::{BitString, Integer, Mode, Oid, Unsigned};

fn parse_val(s: &str) -> (bool, u128) { if let Some(r) = s.strip_prefix('-') { (true, r.parse().unwrap()) } else { (false, s.parse().unwrap()) } }

/// decode content `c` with leaf type `ty` in DER, re-encode the value in DER
fn roundtrip(ty: u8, c: &[u8]) -> Option<Option<Vec<u8>>> {
    catch(|| match ty {
        0..=9 => decode_int(ty, Mode::Der, c).unwrap().map(|v| { let (n, m) = parse_val(&v); encode_int(ty, n, m).unwrap().0 }),
        10 => Primitive::decode_slice(c, Mode::Der, |p| p.to_bool()).ok().map(|b| b.to_encoded_bytes(Mode::Der).to_vec()),
        11 => Primitive::decode_slice(c, Mode::Der, |p| p.to_null()).ok().map(|_| ().to_encoded_bytes(Mode::Der).to_vec()),
        12 => Primitive::decode_slice(c, Mode::Der, |p| Oid::from_primitive(p)).ok().map(|o| o.to_encoded_bytes(Mode::Der).to_vec()),
        14 => { let t = tlv(0x03, c); Constructed::decode(t.as_slice().into_source(), Mode::Der, |cons| BitString::take_from(cons)).ok().map(|b| b.to_encoded_bytes(Mode::Der).to_vec()) }
        16 => Primitive::decode_slice(c, Mode::Der, |p| Integer::from_primitive(p)).ok().map(|i| (&i).to_encoded_bytes(Mode::Der).to_vec()),
        _ => Primitive::decode_slice(c, Mode::Der, |p| Unsigned::from_primitive(p)).ok().map(|i| (&i).to_encoded_bytes(Mode::Der).to_vec()),
    })
}

fn leaf_case(em: &mut Emitter, ty: u8, c: &[u8]) {
    em.case(501, &[num_arg(ty), bytes_arg(c)], || {
        match roundtrip(ty, c) {
            Some(Some(w)) => (Ints::new().n(R_OK).bytes(&w), if w == c { Oracle::Pass } else { Oracle::Fail("der-reencoding-differs-from-accepted-input".into()) }, true),
            Some(None) => (Ints::new().n(R_CERR), Oracle::Pass, !c.is_empty()),
            None => (Ints::new().n(R_PANIC), Oracle::Fail("panic".into()), true),
        }
    });
}

pub fn run(em: &mut Emitter, rng: &mut Rng, thorough: bool) {
    let tys: [u8; 16] = [0, 1, 2, 3, 4, 5, 6, 7, 8, 9, 10, 11, 12, 14, 16, 17];
    for &ty in &tys {
        leaf_case(em, ty, &[]);
        for a in 0..=255u8 { leaf_case(em, ty, &[a]); for b in 0..=255u8 { if thorough || ty >= 10 || b % 3 == 0 || HEADS.contains(&b) { leaf_case(em, ty, &[a, b]); } } }
    }
    let mut longs: Vec<Vec<u8>> = Vec::new();
    long_contents(rng, 18, &mut |c| longs.push(c.to_vec()));
    for c in &longs { for &ty in &tys { leaf_case(em, ty, c); } }
    // the typed-record variants are produced by the C04 generator (stream 502)
    crate::c04::run(em, rng, false);
}
