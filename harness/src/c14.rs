//! C14: BOOLEAN, NULL and fixed-width INTEGER codecs are exact.

use crate::common::*;
use bcder::decode::{Constructed, IntoSource, Primitive};
use bcder::encode::PrimitiveContent;
use bcder::{Mode, Tag};

/// Independent reference: is `c` a minimal two's complement content?
pub fn ref_minimal(c: &[u8]) -> bool {
    match c.len() {
        0 => false,
        1 => true,
        _ => !((c[0] == 0 && c[1] < 0x80) || (c[0] == 0xff && c[1] >= 0x80)),
    }
}

/// Reference value of a content of at most 17 octets as (negative, magnitude).
/// None if it does not fit into 128 bits of magnitude.
pub fn ref_value(c: &[u8]) -> Option<(bool, u128)> {
    if c.is_empty() { return None }
    let neg = c[0] >= 0x80;
    // sign-extend to 17 octets
    if c.len() > 17 { return None }
    let mut ext = vec![if neg { 0xffu8 } else { 0 }; 17 - c.len()];
    ext.extend_from_slice(c);
    // 136-bit two's complement -> magnitude
    if !neg {
        if ext[0] != 0 { return None }
        let mut m = 0u128;
        for &b in &ext[1..] { m = (m << 8) | b as u128; }
        Some((false, m))
    } else {
        // magnitude = 2^136 - value; compute by inverting and adding one
        let mut inv: Vec<u8> = ext.iter().map(|b| !b).collect();
        let mut i = 16isize;
        loop {
            if i < 0 { break }
            let (v, carry) = inv[i as usize].overflowing_add(1);
            inv[i as usize] = v;
            if !carry { break }
            i -= 1;
        }
        if inv[0] != 0 { return None }
        let mut m = 0u128;
        for &b in &inv[1..] { m = (m << 8) | b as u128; }
        Some((true, m))
    }
}

/// (negative, magnitude) within the range of type `ty`?
pub fn ref_in_range(ty: u8, neg: bool, mag: u128) -> bool {
    let bits = [8u32, 16, 32, 64, 128][(ty % 5) as usize];
    if ty < 5 {
        if neg { mag <= 1u128 << (bits - 1) } else { mag < 1u128 << (bits - 1) }
    } else if neg { mag == 0 } else if bits == 128 { true } else { mag < 1u128 << bits }
}

pub fn val_string(neg: bool, mag: u128) -> String {
    if neg && mag != 0 { format!("-{}", mag) } else { format!("{}", mag) }
}

macro_rules! dec_as {
    ($c:expr, $m:expr, $f:ident) => {
        Primitive::decode_slice($c, $m, |p| p.$f()).map(|v| v.to_string()).ok()
    };
}

pub fn decode_int(ty: u8, mode: Mode, c: &[u8]) -> Option<Option<String>> {
    catch(|| match ty {
        0 => dec_as!(c, mode, to_i8), 1 => dec_as!(c, mode, to_i16), 2 => dec_as!(c, mode, to_i32),
        3 => dec_as!(c, mode, to_i64), 4 => dec_as!(c, mode, to_i128), 5 => dec_as!(c, mode, to_u8),
        6 => dec_as!(c, mode, to_u16), 7 => dec_as!(c, mode, to_u32), 8 => dec_as!(c, mode, to_u64),
        _ => dec_as!(c, mode, to_u128),
    })
}

macro_rules! dec_lazy {
    ($d:expr, $m:expr, $f:ident) => {{
        let mut src = crate::sources::FlexSource::new($d, crate::sources::Policy::Exact, None);
        bcder::decode::Constructed::decode(&mut src, $m, |cons| cons.take_primitive_if(bcder::Tag::INTEGER, |p| p.$f())).map(|v| v.to_string()).ok()
    }};
}
/// the same accessor on the same content, delivered by a source that shows exactly what was requested
pub fn decode_int_lazy(ty: u8, mode: Mode, c: &[u8]) -> Option<Option<String>> {
    let mut d = vec![0x02u8]; d.extend(crate::gen::ref_len_octets(c.len())); d.extend_from_slice(c);
    catch(|| match ty {
        0 => dec_lazy!(&d, mode, to_i8), 1 => dec_lazy!(&d, mode, to_i16), 2 => dec_lazy!(&d, mode, to_i32),
        3 => dec_lazy!(&d, mode, to_i64), 4 => dec_lazy!(&d, mode, to_i128), 5 => dec_lazy!(&d, mode, to_u8),
        6 => dec_lazy!(&d, mode, to_u16), 7 => dec_lazy!(&d, mode, to_u32), 8 => dec_lazy!(&d, mode, to_u64),
        _ => dec_lazy!(&d, mode, to_u128),
    })
}

/// The convenience readers of one type (Constructed::take_uN / take_opt_uN, Content::to_uN, the
/// bool and null shortcuts) are the same codec as Primitive::to_*: whatever `r` says, they all say.
fn family_agrees(ty: u8, mode: Mode, c: &[u8], r: &Option<Option<String>>) -> bool {
    if c.len() > 20 { return true }
    let want: Option<String> = match r { Some(Some(v)) => Some(v.clone()), Some(None) => None, None => return true };
    let mut d = vec![0x02u8]; d.extend(crate::gen::ref_len_octets(c.len())); d.extend_from_slice(c);
    let dec = |f: &dyn Fn(&mut Constructed<bcder::decode::SliceSource>) -> Result<String, bcder::decode::DecodeError<std::convert::Infallible>>| -> Option<String> {
        Constructed::decode(d.as_slice().into_source(), mode, |cons| f(cons)).ok() };
    let got: Vec<Option<String>> = match ty {
        5 => vec![dec(&|k| k.take_u8().map(|v| v.to_string())), dec(&|k| k.take_opt_u8().map(|v| v.unwrap().to_string())), dec(&|k| k.take_value_if(Tag::INTEGER, |ct| ct.to_u8()).map(|v| v.to_string()))],
        6 => vec![dec(&|k| k.take_u16().map(|v| v.to_string())), dec(&|k| k.take_opt_u16().map(|v| v.unwrap().to_string())), dec(&|k| k.take_value_if(Tag::INTEGER, |ct| ct.to_u16()).map(|v| v.to_string()))],
        7 => vec![dec(&|k| k.take_u32().map(|v| v.to_string())), dec(&|k| k.take_opt_u32().map(|v| v.unwrap().to_string())), dec(&|k| k.take_value_if(Tag::INTEGER, |ct| ct.to_u32()).map(|v| v.to_string()))],
        8 => vec![dec(&|k| k.take_u64().map(|v| v.to_string())), dec(&|k| k.take_opt_u64().map(|v| v.unwrap().to_string())), dec(&|k| k.take_value_if(Tag::INTEGER, |ct| ct.to_u64()).map(|v| v.to_string()))],
        _ => vec![],
    };
    got.iter().all(|g| *g == want)
}

fn dec_case(em: &mut Emitter, ty: u8, mode: u8, c: &[u8]) {
    em.case(1401, &[num_arg(ty), num_arg(mode), bytes_arg(c)], || {
        let r = decode_int(ty, mode_of(mode), c);
        if catch(|| family_agrees(ty, mode_of(mode), c, &r)) != Some(true) {
            return (Ints::new().n(-8), Oracle::Fail("convenience-readers-of-the-type-disagree-with-the-primitive-accessor".into()), true)
        }
        // boundary contents also through an incremental source: the codec must not depend on delivery
        if c.len() >= 2 && c.len() < 120 && (c[0] == 0 || c[0] == 0xff || c[1] & 0x7f == 0) {
            let rl = decode_int_lazy(ty, mode_of(mode), c);
            if rl != r { return (Ints::new().n(match &r { Some(Some(_)) => R_OK, Some(None) => R_CERR, None => R_PANIC }), Oracle::Fail("integer-codec-depends-on-how-the-source-delivers".into()), true) }
        }
        let exp = if ref_minimal(c) {
            match ref_value(c) { Some((n, m)) if ref_in_range(ty, n, m) => Some(val_string(n, m)), _ => None }
        } else { None };
        match r {
            Some(Some(v)) => {
                let o = if Some(&v) == exp.as_ref() { Oracle::Pass } else { Oracle::Fail("wrong-or-nonminimal-accepted".into()) };
                (Ints::new().n(R_OK).n(v), o, true)
            }
            Some(None) => (Ints::new().n(R_CERR),
                           if exp.is_none() { Oracle::Pass } else { Oracle::Fail("valid-rejected".into()) }, !c.is_empty()),
            None => (Ints::new().n(R_PANIC), Oracle::Fail("panic".into()), true),
        }
    });
}

fn bool_case(em: &mut Emitter, mode: u8, c: &[u8]) {
    em.case(1402, &[num_arg(mode), bytes_arg(c)], || {
        let r = catch(|| Primitive::decode_slice(c, mode_of(mode), |p| p.to_bool()).ok());
        // Constructed::take_bool / take_opt_bool are the same codec
        if c.len() < 20 { if let Some(rv) = &r {
            let mut d = vec![0x01u8, c.len() as u8]; d.extend_from_slice(c);
            let a = catch(|| bcder::decode::Constructed::decode(d.as_slice().into_source(), mode_of(mode), |k| k.take_bool()).ok());
            let b = catch(|| bcder::decode::Constructed::decode(d.as_slice().into_source(), mode_of(mode), |k| k.take_opt_bool()).ok().map(|v| v.unwrap()));
            if a != Some(*rv) || b != Some(*rv) { return (Ints::new().n(-8), Oracle::Fail("take_bool-disagrees-with-to_bool".into()), true) }
        } }
        let exp = if c.len() != 1 { None } else if mode == 0 { Some(c[0] != 0) }
                  else if c[0] == 0 { Some(false) } else if c[0] == 0xff { Some(true) } else { None };
        match r {
            Some(Some(v)) => (Ints::new().n(R_OK).b(v),
                              if exp == Some(v) { Oracle::Pass } else { Oracle::Fail("bool".into()) }, true),
            Some(None) => (Ints::new().n(R_CERR),
                           if exp.is_none() { Oracle::Pass } else { Oracle::Fail("bool-rejected".into()) }, true),
            None => (Ints::new().n(R_PANIC), Oracle::Fail("panic".into()), true),
        }
    });
}

fn null_case(em: &mut Emitter, c: &[u8]) {
    em.case(1403, &[bytes_arg(c)], || {
        let r = catch(|| Primitive::decode_slice(c, Mode::Ber, |p| p.to_null()).is_ok());
        // Constructed::take_null / take_opt_null / Content::to_null are the same codec, in every mode
        if c.len() < 20 { if let Some(rv) = r { for m in [Mode::Ber, Mode::Cer, Mode::Der] {
            let mut d = vec![0x05u8, c.len() as u8]; d.extend_from_slice(c);
            let a = catch(|| Constructed::decode(d.as_slice().into_source(), m, |k| k.take_null()).is_ok());
            let b = catch(|| Constructed::decode(d.as_slice().into_source(), m, |k| k.take_opt_null()).is_ok());
            let e = catch(|| Constructed::decode(d.as_slice().into_source(), m, |k| k.take_value_if(Tag::NULL, |ct| ct.to_null())).is_ok());
            if a != Some(rv) || b != Some(rv) || e != Some(rv) { return (Ints::new().n(-8), Oracle::Fail("take_null-disagrees-with-to_null".into()), true) }
        } } }
        match r {
            Some(ok) => (Ints::new().n(if ok { R_OK } else { R_CERR }),
                         if ok == c.is_empty() { Oracle::Pass } else { Oracle::Fail("null".into()) }, true),
            None => (Ints::new().n(R_PANIC), Oracle::Fail("panic".into()), true),
        }
    });
}

/// Reference minimal two's complement octets of (neg, mag).
pub fn ref_tc_min(neg: bool, mag: u128) -> Vec<u8> {
    // 17-octet two's complement then strip
    let mut ext = vec![0u8; 17];
    let mut m = mag;
    for i in (1..17).rev() { ext[i] = m as u8; m >>= 8; }
    if neg && mag != 0 {
        for b in ext.iter_mut() { *b = !*b; }
        let mut i = 16isize;
        loop {
            let (v, carry) = ext[i as usize].overflowing_add(1);
            ext[i as usize] = v;
            if !carry || i == 0 { break }
            i -= 1;
        }
    }
    let mut s = 0;
    while s + 1 < ext.len()
        && ((ext[s] == 0 && ext[s + 1] < 0x80) || (ext[s] == 0xff && ext[s + 1] >= 0x80)) { s += 1; }
    ext[s..].to_vec()
}

macro_rules! enc_as {
    ($t:ty, $neg:expr, $mag:expr) => {{
        let v: $t = if $neg { (0 as $t).wrapping_sub($mag as $t) } else { $mag as $t };
        (v.to_encoded_bytes(Mode::Der).to_vec(), v.encoded_len(Mode::Der), v.to_string())
    }};
}

pub fn encode_int(ty: u8, neg: bool, mag: u128) -> Option<(Vec<u8>, usize, String)> {
    catch(|| match ty {
        0 => enc_as!(i8, neg, mag), 1 => enc_as!(i16, neg, mag), 2 => enc_as!(i32, neg, mag),
        3 => enc_as!(i64, neg, mag), 4 => enc_as!(i128, neg, mag), 5 => enc_as!(u8, neg, mag),
        6 => enc_as!(u16, neg, mag), 7 => enc_as!(u32, neg, mag), 8 => enc_as!(u64, neg, mag),
        _ => enc_as!(u128, neg, mag),
    })
}

fn enc_case(em: &mut Emitter, ty: u8, neg: bool, mag: u128) {
    if !ref_in_range(ty, neg, mag) { return }
    let vs = val_string(neg, mag);
    em.case(1404, &[num_arg(ty), num_arg(&vs)], || {
        match encode_int(ty, neg, mag) {
            Some((bytes, el, _)) => {
                let mut o = Oracle::Pass;
                if bytes != ref_tc_min(neg, mag) { o = Oracle::Fail("not-minimal-twos-complement".into()); }
                else if el != bytes.len() { o = Oracle::Fail("encoded-len".into()); }
                else if decode_int(ty, Mode::Der, &bytes) != Some(Some(vs.clone())) { o = Oracle::Fail("round-trip".into()); }
                (Ints::new().bytes(&bytes).n(el), o, true)
            }
            None => (Ints::new().n(-1), Oracle::Fail("panic".into()), true),
        }
    });
}

fn encbool_cases(em: &mut Emitter) {
    for v in [false, true] {
        em.case(1404, &[num_arg(10), num_arg(v as u8)], || {
            let b = v.to_encoded_bytes(Mode::Der).to_vec();
            let ok = b == [if v { 0xffu8 } else { 0 }] && v.encoded_len(Mode::Cer) == 1;
            (Ints::new().bytes(&b).n(v.encoded_len(Mode::Ber)),
             if ok { Oracle::Pass } else { Oracle::Fail("bool-enc".into()) }, true)
        });
    }
    em.case(1404, &[num_arg(11), num_arg(0)], || {
        let b = ().to_encoded_bytes(Mode::Der).to_vec();
        (Ints::new().bytes(&b).n(().encoded_len(Mode::Ber)),
         if b.is_empty() { Oracle::Pass } else { Oracle::Fail("null-enc".into()) }, true)
    });
}

fn skipif_case(em: &mut Emitter, expected: u8, c: &[u8]) {
    if c.len() > 100 { return }
    em.case(1406, &[num_arg(expected), bytes_arg(c)], || {
        let mut tlv = vec![0x02, c.len() as u8];
        tlv.extend_from_slice(c);
        let r = catch(|| {
            let a = Constructed::decode(tlv.as_slice().into_source(), Mode::Der, |cons| cons.skip_u8_if(expected)).is_ok();
            let b = Constructed::decode(tlv.as_slice().into_source(), Mode::Der,
                |cons| cons.take_value_if(Tag::INTEGER, |content| content.skip_u8_if(expected))).is_ok();
            let c2 = Constructed::decode(tlv.as_slice().into_source(), Mode::Der, |cons| cons.skip_opt_u8_if(expected)).is_ok();
            (a, b, c2)
        });
        let exp = ref_minimal(c) && ref_value(c) == Some((false, expected as u128));
        match r {
            Some((a, b, c2)) => {
                let enc = |x: bool| if x { R_OK } else { R_CERR };
                (Ints::new().n(enc(a)).n(enc(b)).n(enc(c2)),
                 if a == exp && b == exp && c2 == exp { Oracle::Pass } else { Oracle::Fail("skip-u8-if".into()) }, true)
            }
            None => (Ints::new().n(R_PANIC), Oracle::Fail("panic".into()), true),
        }
    });
}

pub const HEADS: [u8; 9] = [0x00, 0x01, 0x7f, 0x80, 0x81, 0xc8, 0xfe, 0xff, 0x38];

/// long contents: boundary first two octets, patterned tails
pub fn long_contents(rng: &mut Rng, maxlen: usize, f: &mut dyn FnMut(&[u8])) {
    for len in 3..=maxlen {
        for &a in &HEADS { for &b in &HEADS {
            for pat in 0..4 {
                let mut c = vec![a, b];
                for i in 2..len {
                    c.push(match pat { 0 => 0, 1 => 0xff, 2 => if i == len - 1 { 1 } else { 0 }, _ => rng.byte() });
                }
                f(&c);
            }
        }}
    }
}

pub fn value_grid(rng: &mut Rng, thorough: bool, f: &mut dyn FnMut(bool, u128)) {
    for v in 0..=0xffffu128 { f(false, v); f(true, v); }
    for k in 0..=127u32 {
        for d in [0u128, 1, 2] {
            let p = 1u128 << k;
            f(false, p.wrapping_add(d)); f(false, p.wrapping_sub(d));
            f(true, p.wrapping_add(d)); f(true, p.wrapping_sub(d));
        }
    }
    f(false, u128::MAX); f(false, u128::MAX - 1); f(true, 1u128 << 127);
    for _ in 0..(if thorough { 2_000_000 } else { 60_000 }) {
        let bits = rng.range(1, 128) as u32;
        let m = rng.u128() >> (128 - bits);
        f(rng.bool(), m);
    }
}

pub fn typed_leaf<S: bcder::decode::Source>(which: u8, c: &mut Constructed<S>) -> Result<(), bcder::decode::DecodeError<S::Error>> {
    use bcder::{BitString, Integer, OctetString, Oid, Unsigned, Utf8String};

    match which {
        0 => c.take_bool().map(|_| ()), 1 => c.take_null(), 2 => c.take_u8().map(|_| ()), 3 => c.take_u16().map(|_| ()),
        4 => c.take_u32().map(|_| ()), 5 => c.take_u64().map(|_| ()),
        6 => c.take_primitive_if(Tag::INTEGER, |p| p.to_i8()).map(|_| ()), 7 => c.take_primitive_if(Tag::INTEGER, |p| p.to_i16()).map(|_| ()),
        8 => c.take_primitive_if(Tag::INTEGER, |p| p.to_i32()).map(|_| ()), 9 => c.take_primitive_if(Tag::INTEGER, |p| p.to_i64()).map(|_| ()),
        10 => c.take_primitive_if(Tag::INTEGER, |p| p.to_i128()).map(|_| ()), 11 => c.take_primitive_if(Tag::INTEGER, |p| p.to_u128()).map(|_| ()),
        12 => Integer::take_from(c).map(|_| ()), 13 => Unsigned::take_from(c).map(|_| ()), 14 => Oid::take_from(c).map(|_| ()),
        15 => Oid::skip_in(c), 16 => BitString::take_from(c).map(|_| ()), 17 => BitString::skip_in(c),
        18 => OctetString::take_from(c).map(|_| ()), 19 => Utf8String::take_from(c).map(|_| ()),
        20 => c.take_opt_bool().map(|_| ()), 21 => c.take_opt_null().map(|_| ()), 22 => c.take_opt_u8().map(|_| ()),
        23 => c.skip_u8_if(5), 24 => c.take_primitive(|_, p| p.skip_all()), 25 => c.take_primitive(|_, p| p.take_all().map(|_| ())),
        26 => c.take_primitive(|_, p| p.slice_all().map(|_| ())), _ => c.take_primitive(|_, p| { use bcder::decode::Source; p.take_u8()?; p.skip_all() }),
    }
}

/// 1407: every typed reader on a value whose header announces more content than the input holds
/// (the input ends inside the value, alone or inside over-announced SEQUENCEs): always an error.
fn truncated_case(em: &mut Emitter, which: u8, mode: u8, full: &[u8], cut: usize, wrap: u8) {
    let mut data = full[..cut].to_vec();
    // wrap in `wrap` definite SEQUENCEs whose lengths are those of the FULL value (over-announced)
    let mut fl = full.len();
    for _ in 0..wrap { let mut v = vec![0x30u8]; v.extend(crate::gen::ref_len_octets(fl)); fl += v.len(); v.extend(&data); data = v; }
    em.case(1407, &[num_arg(which), num_arg(mode), bytes_arg(&data), num_arg(wrap)], || {
        fn nest<S: bcder::decode::Source>(which: u8, wrap: u8, c: &mut Constructed<S>) -> Result<(), bcder::decode::DecodeError<S::Error>> {
            if wrap == 0 { typed_leaf(which, c) } else { c.take_sequence(|k| nest(which, wrap - 1, k)) }
        }
        let r = catch(|| Constructed::decode(data.as_slice().into_source(), mode_of(mode), |c| nest(which, wrap, c)).is_ok());
        (Ints::new().n(1), match r { Some(false) => Oracle::Pass, Some(true) => Oracle::Fail("value-cut-short-by-the-end-of-input-accepted".into()), None => Oracle::Fail("panic".into()) }, true)
    });
}

/// 1408: a typed reader accepts a valid value of its type wherever the value stands: alone, inside a
/// definite or indefinite SEQUENCE (two levels), followed by a sibling that is then read intact.
fn context_case(em: &mut Emitter, which: u8, mode: u8, full: &[u8], shape: u8) {
    let seq = |indef: bool, inner: &[u8]| -> Vec<u8> { let mut v = vec![0x30u8]; if indef { v.push(0x80); v.extend_from_slice(inner); v.extend_from_slice(&[0, 0]); } else { v.extend(crate::gen::ref_len_octets(inner.len())); v.extend_from_slice(inner); } v };
    let mut with_sib = full.to_vec(); with_sib.extend_from_slice(&[0x05, 0x00]);
    // shapes: 0 alone+sibling at top level, 1 definite, 2 indefinite, 3 definite in indefinite, 4 indefinite in definite
    let (data, depth): (Vec<u8>, u8) = match shape { 0 => (with_sib.clone(), 0), 1 => (seq(false, &with_sib), 1), 2 => (seq(true, &with_sib), 1),
        3 => (seq(true, &seq(false, &with_sib)), 2), _ => (seq(false, &seq(true, &with_sib)), 2) };
    em.case(1408, &[num_arg(which), num_arg(mode), bytes_arg(&data), num_arg(shape)], || {
        fn nest<S: bcder::decode::Source>(which: u8, depth: u8, c: &mut Constructed<S>) -> Result<(), bcder::decode::DecodeError<S::Error>> {
            if depth == 0 { typed_leaf(which, c)?; c.take_null() } else { c.take_sequence(|k| nest(which, depth - 1, k)) }
        }
        // only values the reader accepts when they stand alone are required to be accepted in context
        let alone = catch(|| Constructed::decode(full.into_source(), mode_of(mode), |c| typed_leaf(which, c)).is_ok());
        if alone != Some(true) { return (Ints::new().n(1), Oracle::None, false) }
        let r = catch(|| { let mut src = bcder::decode::SliceSource::new(&data); let r = Constructed::decode(&mut src, mode_of(mode), |c| nest(which, depth, c)); (r.is_ok(), src.len()) });
        (Ints::new().n(1), match r { Some((true, 0)) => Oracle::Pass, Some(_) => Oracle::Fail("valid-value-rejected-or-sibling-disturbed-in-this-context".into()), None => Oracle::Fail("panic".into()) }, true)
    });
}

pub fn run(em: &mut Emitter, rng: &mut Rng, thorough: bool) {
    // ---- 1407: values cut short by the end of the input ----
    {
        let fulls: [(&[u8], &[u8]); 12] = [
            (&[0, 20], &[0x01, 0x01, 0xff]), (&[0, 20], &[0x01, 0x02, 0xff, 0x00]), (&[1, 21], &[0x05, 0x01, 0x00]), (&[1, 21], &[0x05, 0x02, 0x00, 0x00]),
            (&[2, 3, 4, 5, 6, 7, 8, 9, 10, 11, 12, 13, 22, 23, 24, 25, 26, 27], &[0x02, 0x01, 0x05]), (&[2, 3, 4, 5, 6, 7, 8, 9, 10, 11, 12, 13, 22, 23, 24, 25, 26, 27], &[0x02, 0x02, 0x05, 0x06]),
            (&[3, 4, 5, 7, 8, 9, 10, 11, 12, 13, 24, 25, 26], &[0x02, 0x04, 0x01, 0x02, 0x03, 0x04]), (&[14, 15, 24, 25, 26], &[0x06, 0x03, 0x2a, 0x86, 0x48]),
            (&[16, 17, 24, 25, 26], &[0x03, 0x03, 0x04, 0xab, 0xc0]), (&[16, 17], &[0x03, 0x01, 0x00]), (&[18, 19, 24, 25, 26, 27], &[0x04, 0x03, b'a', b'b', b'c']), (&[19], &[0x0c, 0x02, 0xc3, 0xa9]),
        ];
        for (whiches, full) in fulls.iter() { for &which in whiches.iter() { for mode in 0..3u8 { for wrap in 0..3u8 {
            if mode == 1 && wrap > 0 { continue }
            for cut in 2..full.len() { truncated_case(em, which, mode, full, cut, wrap); }
            // 1408 (once per reader/value/mode): the complete value in every context the mode allows; the
            // over-long BOOLEAN/NULL values are not valid and are left out
            if wrap == 0 && !(full[0] == 0x01 && full[1] != 1) && !(full[0] == 0x05 && full[1] != 0) && which != 23 && which != 27 {
                for shape in 0..5u8 {
                    let has_def = matches!(shape, 1 | 3 | 4); let has_indef = matches!(shape, 2 | 3 | 4);
                    if (mode == 1 && has_def) || (mode == 2 && has_indef) { continue }
                    context_case(em, which, mode, full, shape);
                }
            }
            // the same with a tag the reader does not ask for left out: header only
        }}}}
        let _ = (&rng, thorough);
    }

    // ---- decoding: every content of 0..2 octets x 10 accessors ----
    for ty in 0..10u8 {
        dec_case(em, ty, 0, &[]);
        for a in 0..=255u8 {
            dec_case(em, ty, (a % 3) as u8, &[a]);
            for b in 0..=255u8 { dec_case(em, ty, 0, &[a, b]); }
        }
    }
    let mut longs: Vec<Vec<u8>> = Vec::new();
    long_contents(rng, 18, &mut |c| longs.push(c.to_vec()));
    for c in &longs { for ty in 0..10u8 { dec_case(em, ty, 2, c); } }
    for _ in 0..(if thorough { 2_000_000 } else { 50_000 }) {
        let len = rng.range(1, 18) as usize;
        let mut c = rng.bytes(len);
        if rng.chance(1, 3) { c[0] = *rng.pick(&HEADS); }
        if len > 1 && rng.chance(1, 3) { c[1] = *rng.pick(&HEADS); }
        let ty = rng.below(10) as u8;
        dec_case(em, ty, rng.below(3) as u8, &c);
    }
    // ---- BOOLEAN / NULL ----
    for mode in 0..3u8 {
        bool_case(em, mode, &[]);
        for a in 0..=255u8 { bool_case(em, mode, &[a]); bool_case(em, mode, &[a, 0]); bool_case(em, mode, &[0xff, a]); }
    }
    null_case(em, &[]);
    for a in 0..=255u8 { null_case(em, &[a]); }
    null_case(em, &[0, 0]);
    // ---- encoding ----
    let mut grid: Vec<(bool, u128)> = Vec::new();
    value_grid(rng, thorough, &mut |n, m| grid.push((n, m)));
    for &(n, m) in &grid { for ty in 0..10u8 { enc_case(em, ty, n, m); } }
    if thorough {
        // exhaustive 24-bit slices of the 32-bit types
        for v in 0..(1u128 << 24) { enc_case(em, 7, false, v); enc_case(em, 2, false, v); enc_case(em, 2, true, v); }
    }
    encbool_cases(em);
    // ---- value matching helpers ----
    for a in 0..=255u8 {
        for e in [a, 0, 200, 255, a.wrapping_add(1)] { skipif_case(em, e, &[a]); }
        for b in 0..=255u8 {
            for e in [b, 200] { skipif_case(em, e, &[a, b]); }
        }
        skipif_case(em, a, &[0, 0, a]);
    }
    skipif_case(em, 0, &[]);
}
