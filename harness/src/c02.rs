//! C02: generic decoding accepts exactly well-formed X.690 structure.

use crate::common::*;
use crate::gen::*;
use crate::prog::*;

pub fn ints_of(v: &[i128]) -> Ints { let mut i = Ints::new(); for x in v { i.push(x); } i }

/// Emit one program case on stream `sid`.
pub fn prog_case(em: &mut Emitter, sid: u32, mode: u8, ps: &[Prog], data: &[u8],
                 oracle: impl FnOnce(&[i128]) -> Oracle, nt: bool) {
    let mut code = Vec::new(); enc_progs(ps, &mut code);
    em.case(sid, &[num_arg(mode), ints_of(&code), bytes_arg(data)], || {
        let obs = run_slice(mode, ps, data);
        let mut o = oracle(&obs);
        // the same program on sources that hand out only what was asked for / grow in small chunks
        if matches!(o, Oracle::Pass) {
            let k = 1 + (data.len() + code.len()) % 5;
            if run_flex(mode, ps, data, crate::sources::Policy::Exact) != obs || run_flex(mode, ps, data, crate::sources::Policy::Chunk(k)) != obs
               || run_octet_string_source(mode, ps, data, k) != obs {
                o = Oracle::Fail("outcome-depends-on-how-the-source-delivers".into());
            }
        }
        // the same program one level further in: the whole input inside one more SEQUENCE of definite and of
        // indefinite length (whichever the mode allows). Where the plain run succeeded and used up the input, the
        // run inside the SEQUENCE succeeds with the same log behind the SEQUENCE's own entry.
        let d18 = matches!(&o, Oracle::Fail(t) if t.starts_with("D18-"));   // known finding of C11: the run itself is fine to build on
        if (matches!(o, Oracle::Pass) || d18) && obs.len() >= 2 && obs[0] == 0 && obs[1] == 0 && data.len() < 2000 {
            let ps2 = vec![Prog::Take { opt: false, kind: 2, exp: Some((0, 16)), body: Body::Prog(ps.to_vec()) }];
            let mut want = vec![0i128, 0, 1, 1, 0x30]; want.extend_from_slice(&obs[2..]);
            for ctx in [Ctx::Definite, Ctx::Indefinite] {
                if !ctx_ok(mode, ctx) { continue }
                // a capture at the outermost level of the program would meet the new SEQUENCE's end-of-contents: known finding D18 (C11)
                if ctx == Ctx::Indefinite && ps.iter().any(|p| matches!(p, Prog::Capture(_) | Prog::CaptureAll)) { continue }
                if run_slice(mode, &ps2, &wrap(ctx, data)) != want { o = Oracle::Fail("outcome-changes-inside-one-more-enclosing-sequence".into()); break }
            }
        }
        (ints_of(&obs), o, nt)
    });
}

pub fn wrap(ctx: Ctx, inner: &[u8]) -> Vec<u8> {
    match ctx {
        Ctx::Top => inner.to_vec(),
        Ctx::Definite => { let mut v = vec![0x30]; v.extend(ref_len_octets(inner.len())); v.extend_from_slice(inner); v }
        Ctx::Indefinite => { let mut v = vec![0x30, 0x80]; v.extend_from_slice(inner); v.extend_from_slice(&[0, 0]); v }
    }
}
pub fn in_ctx(ctx: Ctx, ps: Vec<Prog>) -> Vec<Prog> {
    match ctx {
        Ctx::Top => ps,
        _ => vec![Prog::Take { opt: false, kind: 2, exp: Some((0, 16)), body: Body::Prog(ps) }],
    }
}
pub fn ctx_ok(mode: u8, ctx: Ctx) -> bool {
    match (mode, ctx) { (1, Ctx::Definite) | (2, Ctx::Indefinite) => false, _ => true }
}

/// oracle for "read everything": success iff the reference parser accepts
/// the whole input, and then the tree in the log is the reference tree.
fn read_all_oracle(mode: u8, ctx: Ctx, data: &[u8], obs: &[i128]) -> Oracle {
    // expected: (children, octets left)
    let exp: Option<(Vec<RTlv>, usize)> = match ctx {
        Ctx::Top => ref_parse_seq(mode, data, Ctx::Top, 0).filter(|(_, used)| *used == data.len()).map(|(ts, _)| (ts, 0)),
        _ => ref_first_value_len(mode, data).and_then(|n| {
            match ref_parse_seq(mode, &data[..n], Ctx::Top, 0) {
                Some((ts, used)) if used == n => match ts.as_slice() {
                    [RTlv::Cons(id, kids)] if id == &[0x30] => Some((kids.clone(), data.len() - n)),
                    _ => None,
                },
                _ => None,
            }
        }),
    };
    match (obs.first(), exp) {
        (Some(0), Some((ts, left))) => {
            let mut want: Vec<i128> = vec![0, left as i128];
            if ctx != Ctx::Top { want.extend_from_slice(&[1, 1, 0x30]); }
            want.extend(rtlvs_to_log(&ts));
            if obs == want.as_slice() { Oracle::Pass } else { Oracle::Fail("tree-differs-from-reference".into()) }
        }
        (Some(0), None) => Oracle::Fail("accepts-malformed".into()),
        (Some(1), None) => Oracle::Pass,
        (Some(1), Some(_)) => Oracle::Fail("rejects-well-formed".into()),
        _ => Oracle::Fail("panic".into()),
    }
}

pub fn run(em: &mut Emitter, rng: &mut Rng, thorough: bool) {
    let n_valid = if thorough { 240_000 } else { 6_000 };
    let ctxs = [Ctx::Top, Ctx::Definite, Ctx::Indefinite];
    for _ in 0..n_valid {
        let mode = rng.below(3) as u8;
        let forest = random_forest(rng, mode, 4);
        let inner = encode_forest(&forest, mode, &mut Some(rng));
        let ctx = *rng.pick(&ctxs);
        if !ctx_ok(mode, ctx) { continue }
        let data = wrap(ctx, &inner);
        // (a) read everything
        let ps = in_ctx(ctx, vec![Prog::ReadAll]);
        let d2 = data.clone();
        prog_case(em, 201, mode, &ps, &data, move |obs| read_all_oracle(mode, ctx, &d2, obs), !forest.is_empty());
        // decode the same octets in another mode (DER output is valid BER, etc.)
        let m2 = rng.below(3) as u8;
        if m2 != mode && ctx_ok(m2, ctx) {
            let d3 = data.clone();
            prog_case(em, 201, m2, &ps, &data, move |obs| read_all_oracle(m2, ctx, &d3, obs), true);
        }
        // (b) read only k values: the source stays at the end of the k-th
        if ctx == Ctx::Top && !forest.is_empty() {
            let k = rng.range(1, forest.len() as u64) as usize;
            let ps: Vec<Prog> = (0..k).map(|_| Prog::Take { opt: true, kind: 0, exp: None, body: Body::Generic }).collect();
            let exp_left = { let first_k = encode_forest(&forest[..k], mode, &mut None); let _ = first_k; () };
            let _ = exp_left;
            let d2 = data.clone();
            prog_case(em, 201, mode, &ps, &data, move |obs| {
                // consumed prefix must itself be k well-formed values
                match obs.first() {
                    Some(0) => { let left = obs[1] as usize; match ref_parse_seq(mode, &d2[..d2.len() - left], Ctx::Top, 0) {
                        Some((ts, used)) if ts.len() == k && used == d2.len() - left => Oracle::Pass,
                        _ => Oracle::Fail("k-values-prefix".into()) } }
                    Some(1) => if ref_parse_seq(mode, &d2, Ctx::Top, 0).is_some() { Oracle::Fail("rejects-well-formed".into()) } else { Oracle::Pass },
                    _ => Oracle::Fail("panic".into()),
                }
            }, true);
        }
        // (b'') value by value, each announced by its own tag (tagged reads of well-formed input succeed,
        // whatever the identifier length and however the source delivers)
        if ctx == Ctx::Top && !forest.is_empty() && forest.len() <= 6 {
            let ps: Vec<Prog> = forest.iter().map(|n| { let (c, t) = match n { Node::Prim { cls, num, .. } => (*cls, *num), Node::Cons { cls, num, .. } => (*cls, *num) };
                Prog::Take { opt: rng.bool(), kind: 0, exp: Some((c, t)), body: Body::Generic } }).collect();
            prog_case(em, 201, mode, &ps, &data, move |obs| match obs.first() {
                Some(0) => if obs[1] == 0 { Oracle::Pass } else { Oracle::Fail("tagged-reads-left-octets-behind".into()) },
                Some(1) => Oracle::Fail("rejects-well-formed".into()),
                _ => Oracle::Fail("panic".into()),
            }, true);
        }
        // (b') inside a parent: read exactly the k values it contains and return, without
        // polling for a further value - the parent's own end check (exhausted / end-of-contents)
        // decides; also with fewer than all values (must fail), and with a damaged terminator
        if ctx != Ctx::Top {
            let n = forest.len();
            for k in [n, n.saturating_sub(1)] {
                let inner_ps: Vec<Prog> = (0..k).map(|_| Prog::Take { opt: false, kind: 0, exp: None, body: Body::Generic }).collect();
                let ps = in_ctx(ctx, inner_ps);
                let mut variants: Vec<Vec<u8>> = vec![data.clone()];
                if ctx == Ctx::Indefinite {
                    let l = data.len();
                    for term in [vec![0x20u8, 0x00], vec![0x00, 0x01, 0x00], vec![0x00, 0x81, 0x00], vec![0x00, 0x80], vec![0x00], vec![], vec![0x01, 0x00], vec![0x00, 0x00, 0x00, 0x00]] {
                        let mut v = data[..l - 2].to_vec(); v.extend(term); variants.push(v);
                    }
                }
                for v in variants {
                    let v2 = v.clone();
                    prog_case(em, 201, mode, &ps, &v, move |obs| {
                        // reference: the first value must be a well-formed SEQUENCE with exactly k children
                        let exp = ref_first_value_len(mode, &v2).and_then(|n1| match ref_parse_seq(mode, &v2[..n1], Ctx::Top, 0) {
                            Some((ts, used)) if used == n1 => match ts.as_slice() { [RTlv::Cons(id, kids)] if id == &[0x30] && kids.len() == k => Some(v2.len() - n1), _ => None },
                            _ => None });
                        match (obs.first(), exp) {
                            (Some(0), Some(left)) => if obs[1] as usize == left { Oracle::Pass } else { Oracle::Fail("position-after-k-values".into()) },
                            (Some(1), None) => Oracle::Pass,
                            (Some(0), None) => Oracle::Fail("accepts-malformed".into()),
                            (Some(1), Some(_)) => Oracle::Fail("rejects-well-formed".into()),
                            _ => Oracle::Fail("panic".into()),
                        }
                    }, true);
                }
            }
        }
        // (c) mode switch at a nested level: the subtree is read under the new mode
        if ctx != Ctx::Top {
            let m2 = rng.below(3) as u8;
            let ps = vec![Prog::Take { opt: false, kind: 2, exp: Some((0, 16)), body: Body::Prog(vec![Prog::SetMode(m2), Prog::ReadAll]) }];
            let inner2 = inner.clone();
            prog_case(em, 201, mode, &ps, &data, move |obs| {
                // the children must be well-formed under m2 (enclosing header under mode)
                let ok = match ctx {
                    Ctx::Definite => ref_parse_seq(m2, &inner2, Ctx::Top, 0).map(|(_, u)| u == inner2.len()).unwrap_or(false),
                    _ => { let mut x = inner2.clone(); x.extend_from_slice(&[0, 0]); ref_parse_seq(m2, &x, Ctx::Indefinite, 0).map(|(_, u)| u == x.len()).unwrap_or(false) }
                };
                match obs.first() { Some(0) if ok => Oracle::Pass, Some(1) if !ok => Oracle::Pass, Some(3) => Oracle::Fail("panic".into()), _ => Oracle::Fail("mode-switch".into()) }
            }, true);
        }
        // (d) malformed variants of this encoding
        for _ in 0..3 {
            let bad = mutate(rng, &data);
            let ps = in_ctx(ctx, vec![Prog::ReadAll]);
            let b2 = bad.clone();
            prog_case(em, 201, mode, &ps, &bad, move |obs| read_all_oracle(mode, ctx, &b2, obs), true);
        }
    }
    // boundary lengths and child/parent length relations
    for mode in 0..3u8 {
        for n in [0usize, 1, 0x7f, 0x80, 0xff, 0x100, 0x3ff] {
            let node = Node::Prim { cls: 0, num: 4, content: vec![0xab; n] };
            let data = encode_forest(&[node], mode, &mut None);
            let d2 = data.clone();
            prog_case(em, 201, mode, &[Prog::ReadAll], &data, move |obs| read_all_oracle(mode, Ctx::Top, &d2, obs), true);
        }
        for delta in [-1i32, 0, 1] {
            // 30 L (02 01 00 02 01 00) with the first child's length off by delta
            let mut d = vec![0x30, 0x06, 0x02, (1 + delta) as u8, 0x00, 0x02, 0x01, 0x00];
            if delta == 1 { d[3] = 5; }
            let d2 = d.clone();
            prog_case(em, 201, mode, &[Prog::ReadAll], &d, move |obs| read_all_oracle(mode, Ctx::Top, &d2, obs), true);
        }
        // end-of-contents where it does not belong, constructed EOC, non-empty EOC
        for d in [vec![0u8, 0], vec![0x30, 0x02, 0, 0], vec![0x30, 0x80, 0x20, 0x00, 0, 0], vec![0x30, 0x80, 0x00, 0x01, 0x00, 0, 0],
                  vec![0x30, 0x80, 0, 0], vec![0x30, 0x80, 0x00, 0x81, 0x00], vec![0x30, 0x80], vec![0x30, 0x80, 0], vec![0x04, 0x80, 0, 0],
                  vec![0x1f, 0x05, 0x00], vec![0x1f, 0x80, 0x25, 0x00], vec![0x04, 0x85, 0, 0, 0, 0, 1, 0], vec![0x04, 0x84, 0, 0, 0, 1, 7],
                  vec![0x30, 0x84, 0xff, 0xff, 0xff, 0xff, 0], vec![0x3f, 0x81, 0x80, 0x80, 0x01, 0x00], vec![0x3f, 0xff, 0xff, 0x7f, 0x00]] {
            let d2 = d.clone();
            prog_case(em, 201, mode, &[Prog::ReadAll], &d, move |obs| read_all_oracle(mode, Ctx::Top, &d2, obs), true);
        }
    }
    // short random octet strings
    for _ in 0..(if thorough { 800_000 } else { 20_000 }) {
        let mode = rng.below(3) as u8;
        let n = rng.range(0, 10) as usize;
        let mut d = rng.bytes(n);
        for b in d.iter_mut() { if rng.chance(1, 2) { *b = *rng.pick(&[0x00u8, 0x01, 0x02, 0x04, 0x30, 0x80, 0x81, 0x1f, 0x20, 0x03]); } }
        let d2 = d.clone();
        prog_case(em, 201, mode, &[Prog::ReadAll], &d, move |obs| read_all_oracle(mode, Ctx::Top, &d2, obs), !d.is_empty());
    }
}
