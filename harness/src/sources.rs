//! Source implementations written for the harness: contract-checking
//! streaming sources with configurable grant policy, request counting and
//! fault injection.

use bcder::decode::{Pos, Source};
use bytes::Bytes;
use std::fmt;

#[derive(Debug, Clone, Copy, PartialEq, Eq)]
pub struct TestErr(pub u64);
impl fmt::Display for TestErr { fn fmt(&self, f: &mut fmt::Formatter) -> fmt::Result { write!(f, "injected source failure #{}", self.0) } }
impl std::error::Error for TestErr {}

#[derive(Clone, Copy, Debug)]
pub enum Policy {
    /// grants everything that is left (what SliceSource/BytesSource do)
    All,
    /// grants exactly min(requested, available)
    Exact,
    /// grows its buffer in chunks of the given size
    Chunk(usize),
    /// grants a pseudo-random amount between min(requested, available) and available
    Random(u64),
    /// the i-th request is offered table[i mod len] octets (clamped into the legal interval)
    Table([u16; 8], usize),
}

/// The least forgiving legal source: `slice()` shows only what the last
/// request granted, and `bytes`/`advance` beyond the grant panic.
pub struct FlexSource<'a> {
    data: &'a [u8],
    pos: usize,
    granted: usize,
    policy: Policy,
    pub reqs: u64,
    fail_at: Option<u64>,
    rng: u64,
    /// octets beyond the grant that `slice()` shows anyway ("it may be longer if more data is available")
    ahead: usize,
}

impl<'a> FlexSource<'a> {
    pub fn new(data: &'a [u8], policy: Policy, fail_at: Option<u64>) -> Self {
        let rng = match policy { Policy::Random(s) => s | 1, _ => 1 };
        FlexSource { data, pos: 0, granted: 0, policy, reqs: 0, fail_at, rng, ahead: 0 }
    }
    /// A read-ahead source: `slice()` shows up to `ahead` octets more than was granted; taking them
    /// (bytes/advance) without a request is still a contract violation.
    pub fn read_ahead(data: &'a [u8], policy: Policy, ahead: usize) -> Self { let mut s = Self::new(data, policy, None); s.ahead = ahead; s }
    pub fn left(&self) -> usize { self.data.len() - self.pos }
}

impl<'a> Source for FlexSource<'a> {
    type Error = TestErr;
    fn pos(&self) -> Pos { self.pos.into() }
    fn request(&mut self, len: usize) -> Result<usize, TestErr> {
        self.reqs += 1;
        if Some(self.reqs) == self.fail_at { return Err(TestErr(self.reqs)) }
        let avail = self.data.len() - self.pos;
        let want = len.min(avail);
        let g = match self.policy {
            Policy::All => avail,
            Policy::Exact => want,
            Policy::Chunk(c) => { let c = c.max(1); (((want + c - 1) / c) * c).min(avail) }
            Policy::Random(_) => {
                self.rng ^= self.rng << 13; self.rng ^= self.rng >> 7; self.rng ^= self.rng << 17;
                want + (self.rng as usize) % (avail - want + 1)
            }
            Policy::Table(t, n) => { if n == 0 { want } else { want.max((t[((self.reqs - 1) as usize) % n] as usize).min(avail)) } }
        };
        // data granted earlier stays available
        self.granted = self.granted.max(g);
        Ok(self.granted)
    }
    fn slice(&self) -> &[u8] { &self.data[self.pos..(self.pos + self.granted + self.ahead).min(self.data.len())] }
    fn bytes(&self, start: usize, end: usize) -> Bytes {
        assert!(start <= end && end <= self.granted, "bytes() beyond what request() granted");
        Bytes::copy_from_slice(&self.data[self.pos + start..self.pos + end])
    }
    fn advance(&mut self, len: usize) {
        assert!(len <= self.granted, "advance() beyond what request() granted");
        self.pos += len; self.granted -= len;
    }
}

/// how many octets a source still holds (consumes it)
pub fn drain<S: Source>(src: &mut S) -> usize {
    let mut n = 0;
    loop {
        match src.request(4096) { Ok(0) | Err(_) => return n, Ok(g) => { let k = g.min(4096); src.advance(k); n += k; } }
    }
}
