//! C18: a restricted character string only ever holds characters of its set.

use crate::common::*;
use crate::gen::ref_len_octets;
use crate::c16::{Os, os_encode, os_encode_forms};
use bcder::decode::{Constructed, IntoSource};
use bcder::string::{Ia5String, NumericString, PrintableString, Utf8String};
use bcder::OctetString;
use std::str::FromStr;

fn ref_ok(cs: u8, b: &[u8]) -> bool {
    match cs {
        0 => std::str::from_utf8(b).is_ok(),
        1 => b.iter().all(|&x| x == b' ' || x.is_ascii_digit()),
        2 => b.iter().all(|&x| x.is_ascii_alphanumeric() || b" '()+,-./:=?".contains(&x)),
        _ => b.iter().all(|&x| x < 0x80),
    }
}
fn ref_chars(cs: u8, b: &[u8]) -> Vec<u32> {
    if cs == 0 { std::str::from_utf8(b).unwrap().chars().map(|c| c as u32).collect() } else { b.iter().map(|&x| x as u32).collect() }
}
const TAGS: [u8; 4] = [0x0c, 0x12, 0x13, 0x16];

macro_rules! take_obs { ($t:ty, $mode:expr, $data:expr) => {{
    let r = Constructed::decode($data.into_source(), mode_of($mode), |cons| <$t>::take_from(cons));
    r.ok().map(|s| { let ch: Vec<u32> = s.chars().map(|c| c as u32).collect(); let shown = s.to_string(); (ch, s.to_bytes().to_vec(), shown) })
}}; }

fn decode_case(em: &mut Emitter, cs: u8, mode: u8, data: &[u8], content: Option<&[u8]>) {
    let content = content.map(|c| c.to_vec());
    em.case(1801, &[num_arg(cs), num_arg(mode), bytes_arg(data)], || {
        let r = catch(|| match cs { 0 => take_obs!(Utf8String, mode, data), 1 => take_obs!(NumericString, mode, data),
                                     2 => take_obs!(PrintableString, mode, data), _ => take_obs!(Ia5String, mode, data) });
        match r {
            Some(Some((ch, bytes, shown))) => {
                let mut obs = Ints::new().n(R_OK).n(R_OK).n(ch.len()); for c in &ch { obs.push(c); }
                obs = obs.n(R_OK).bytes(&bytes);
                let orc = if !ref_ok(cs, &bytes) { Oracle::Fail("accepts-invalid-characters".into()) }
                          else if ch != ref_chars(cs, &bytes) { Oracle::Fail("chars-differ".into()) }
                          else if ch.iter().any(|&c| char::from_u32(c).is_none()) { Oracle::Fail("invalid-char-value".into()) }
                          else if shown != ch.iter().map(|&c| char::from_u32(c).unwrap()).collect::<String>() { Oracle::Fail("display".into()) }
                          else if content.as_ref().map(|c| *c != bytes).unwrap_or(false) { Oracle::Fail("content".into()) } else { Oracle::Pass };
                (obs, orc, true)
            }
            Some(None) => (Ints::new().n(R_CERR), match &content { Some(c) if ref_ok(cs, c) => Oracle::Fail("rejects-valid-string".into()), _ => Oracle::Pass }, true),
            None => (Ints::new().n(R_PANIC), Oracle::Fail("panic".into()), true),
        }
    });
}

fn fromstr_case(em: &mut Emitter, cs: u8, text: &str) {
    em.case(1802, &[num_arg(cs), bytes_arg(text.as_bytes())], || {
        macro_rules! all { ($t:ty) => {{
            let a = <$t>::from_str(text).ok(); let b = <$t>::from_string(text.to_string()).ok();
            let c = <$t>::new(OctetString::new(bytes::Bytes::copy_from_slice(text.as_bytes()))).ok();
            let f = |x: Option<$t>| x.map(|s| (s.chars().map(|c| c as u32).collect::<Vec<u32>>(), s.to_string()));
            (f(a), f(b), f(c))
        }}; }
        let r = catch(|| match cs { 0 => all!(Utf8String), 1 => all!(NumericString), 2 => all!(PrintableString), _ => all!(Ia5String) });
        match r {
            Some((a, b, c)) => {
                let exp = ref_ok(cs, text.as_bytes());
                let orc = if a.is_some() != exp || b.is_some() != exp || c.is_some() != exp { Oracle::Fail("constructors-disagree-with-character-set".into()) }
                          else if exp && (a.as_ref().unwrap().0 != ref_chars(cs, text.as_bytes()) || a.as_ref().unwrap().1 != text || b != a || c != a) { Oracle::Fail("chars-or-display".into()) } else { Oracle::Pass };
                let obs = match &a { Some((ch, _)) => { let mut o = Ints::new().n(R_OK).n(R_OK).n(ch.len()); for x in ch { o.push(x); } o } None => Ints::new().n(R_CERR) };
                (obs, orc, true)
            }
            None => (Ints::new().n(R_PANIC), Oracle::Fail("string-constructor-or-chars-panics".into()), true),
        }
    });
}

fn prim_tlv(tag: u8, c: &[u8]) -> Vec<u8> { let mut v = vec![tag]; v.extend(ref_len_octets(c.len())); v.extend_from_slice(c); v }

/// The octets `b` cut at random places into a random tree of segments: nested constructed segments
/// (definite or indefinite) may be followed by further segments at every level.
pub fn split_os(rng: &mut Rng, b: &[u8], depth: u32) -> Os {
    let k = rng.range(1, 4) as usize;
    let mut cuts: Vec<usize> = (0..k - 1).map(|_| rng.below(b.len() as u64 + 1) as usize).collect();
    cuts.push(0); cuts.push(b.len()); cuts.sort();
    let mut kids = Vec::new();
    for w in cuts.windows(2) {
        let part = &b[w[0]..w[1]];
        kids.push(if depth > 0 && rng.chance(1, 2) { split_os(rng, part, depth - 1) } else { Os::Prim(part.to_vec()) });
    }
    Os::Cons(rng.bool(), kids)
}

pub fn run(em: &mut Emitter, rng: &mut Rng, thorough: bool) {
    let cont: [u8; 8] = [0x7f, 0x80, 0x8f, 0x90, 0x9f, 0xa0, 0xbf, 0xc0];
    // all 1-octet strings for every set, all 2-octet strings for UTF-8
    for cs in 0..4u8 {
        decode_case(em, cs, 2, &prim_tlv(TAGS[cs as usize], &[]), Some(&[]));
        for a in 0..=255u8 { decode_case(em, cs, (a % 3) as u8, &prim_tlv(TAGS[cs as usize], &[a]), Some(&[a])); }
        if cs != 0 { for a in [0x20u8, 0x30, 0x41, 0x7f, 0x80, 0x2a] { for b in 0..=255u8 { decode_case(em, cs, 0, &prim_tlv(TAGS[cs as usize], &[a, b]), Some(&[a, b])); } } }
    }
    for a in (if thorough { 0u8 } else { 0x70 })..=255u8 { for b in 0..=255u8 { decode_case(em, 0, 0, &prim_tlv(0x0c, &[a, b]), Some(&[a, b])); } }
    for a in 0xe0..=0xefu8 { for &b in &cont { for &c in &cont { decode_case(em, 0, 2, &prim_tlv(0x0c, &[a, b, c]), Some(&[a, b, c])); } } }
    for a in 0xf0..=0xf8u8 { for &b in &cont { for &c in &cont { for &d in &cont { decode_case(em, 0, 2, &prim_tlv(0x0c, &[a, b, c, d]), Some(&[a, b, c, d])); } } } }
    // a character cut short at the end of the string: every proper prefix of a three- or four-octet form, alone and after another character
    for a in 0xf0..=0xf8u8 { for &b in &cont { for &c in &cont { for pre in [&b""[..], &b"a"[..], &[0xc3u8, 0xa9][..]] {
        let mut v = pre.to_vec(); v.extend_from_slice(&[a, b, c]); decode_case(em, 0, (a % 3) as u8, &prim_tlv(0x0c, &v), Some(&v));
        let mut data = vec![0x2c, 0x80]; data.extend(prim_tlv(0x04, &v[..v.len() - 2])); data.extend(prim_tlv(0x04, &v[v.len() - 2..])); data.extend_from_slice(&[0, 0]);
        decode_case(em, 0, 0, &data, Some(&v));
    } } } }
    for a in 0xc2..=0xf8u8 { for &b in &cont { for pre in [&b"a"[..], &[0xe2u8, 0x82, 0xac][..]] {
        let mut v = pre.to_vec(); v.push(a); decode_case(em, 0, 2, &prim_tlv(0x0c, &v), Some(&v));
        v.push(b); decode_case(em, 0, 2, &prim_tlv(0x0c, &v), Some(&v));
    } } }
    if thorough { for a in 0xe0..=0xefu8 { for b in 0..=255u8 { for c in [0x7fu8, 0x80, 0xbf, 0xc0] { decode_case(em, 0, 2, &prim_tlv(0x0c, &[a, b, c]), Some(&[a, b, c])); } } } }
    // primitive strings around the CER limit of 1000 content octets
    for cs in 0..4u8 { for n in [999usize, 1000, 1001] { for mode in 0..3u8 {
        let b: Vec<u8> = (0..n).map(|i| match cs { 1 => b'0' + (i % 10) as u8, _ => b'a' + (i % 26) as u8 }).collect();
        decode_case(em, cs, mode, &prim_tlv(TAGS[cs as usize], &b), if mode == 1 && n > 1000 { None } else { Some(&b) });
    }}}
    // segmented (constructed) strings: a multi-octet character straddling a segment boundary
    for _ in 0..(if thorough { 160_000 } else { 5_000 }) {
        let cs = rng.below(4) as u8;
        let text: String = (0..rng.below(5)).map(|_| match cs { 0 => *rng.pick(&['a', 'é', '€', '😀', '\u{7ff}', '\u{800}', '\u{ffff}', '\u{10000}', '\u{10ffff}', '\u{d7ff}', '\u{e000}']),
                                                                1 => *rng.pick(&['0', '9', ' ']), 2 => *rng.pick(&['A', 'z', '5', '?', '\'', ' ']), _ => *rng.pick(&['a', '\u{7f}', '\0', '~']) }).collect();
        let mut b = text.into_bytes();
        if rng.chance(1, 3) && !b.is_empty() { let k = rng.below(b.len() as u64) as usize; b[k] = if rng.bool() { rng.byte() } else { *rng.pick(&cont) }; }
        if rng.chance(1, 6) && !b.is_empty() { let k = rng.below(b.len() as u64) as usize; b.truncate(k); }
        let k1 = rng.below(b.len() as u64 + 1) as usize; let k2 = rng.range(k1 as u64, b.len() as u64) as usize;
        let o = if rng.bool() { Os::Cons(rng.bool(), vec![Os::Prim(b[..k1].to_vec()), Os::Prim(b[k1..k2].to_vec()), Os::Cons(rng.bool(), vec![Os::Prim(b[k2..].to_vec())])]) }
                else { split_os(rng, &b, 3) };
        // half of the time with random (non-minimal, BER-legal) length forms on every segment header
        let mut data = Vec::new(); if rng.bool() { os_encode(&o, TAGS[cs as usize], &mut data); } else { os_encode_forms(&o, TAGS[cs as usize], &mut data, rng); }
        // in BER mode every segmentation is legal: the string is accepted exactly when the assembled octets are valid
        let mode = if rng.chance(4, 5) { 0 } else { rng.below(3) as u8 };
        decode_case(em, cs, mode, &data, if mode == 0 { Some(&b) } else { None });
        decode_case(em, cs, rng.below(3) as u8, &prim_tlv(TAGS[cs as usize], &b), Some(&b));
    }
    // Rust strings for the string constructors
    let pool: Vec<char> = vec!['0', '9', ' ', 'A', 'z', '?', '*', '@', '\u{7f}', '\0', 'é', '€', '😀', '\u{80}', '\u{7ff}', '\u{800}', '\u{d7ff}', '\u{e000}', '\u{10ffff}', '\'', '(', '=', '_', '&',
        // characters whose low octet (or low seven bits) is a legal character of a restricted set
        '\u{120}', '\u{130}', '\u{139}', '\u{141}', '\u{17a}', '\u{2020}', '\u{430}', '\u{1f638}', '\u{a0}', '\u{b0}', '\u{c1}', '\u{ff41}'];
    for cs in 0..4u8 {
        fromstr_case(em, cs, "");
        for &c in &pool { fromstr_case(em, cs, &c.to_string()); for &d in &pool { fromstr_case(em, cs, &format!("{}{}", c, d)); } }
        for c in 0u8..128 { fromstr_case(em, cs, &(c as char).to_string()); }
        for _ in 0..(if thorough { 80_000 } else { 2_000 }) {
            let n = rng.range(1, 8); let t: String = (0..n).map(|_| *rng.pick(&pool)).collect(); fromstr_case(em, cs, &t);
        }
    }
}
