#![allow(dead_code)]
//! Shared machinery of the correspondence harness: PRNG, case emitter,
//! panic capture and canonical encodings of observations.

use std::io::Write;
use std::panic::{catch_unwind, AssertUnwindSafe};

/// splitmix64: every random choice of a run derives from one seed.
#[derive(Clone)]
pub struct Rng(pub u64);

impl Rng {
    pub fn new(seed: u64) -> Self { Rng(seed ^ 0x9E3779B97F4A7C15) }
    pub fn next(&mut self) -> u64 {
        self.0 = self.0.wrapping_add(0x9E3779B97F4A7C15);
        let mut z = self.0;
        z = (z ^ (z >> 30)).wrapping_mul(0xBF58476D1CE4E5B9);
        z = (z ^ (z >> 27)).wrapping_mul(0x94D049BB133111EB);
        z ^ (z >> 31)
    }
    pub fn below(&mut self, n: u64) -> u64 { if n == 0 { 0 } else { self.next() % n } }
    pub fn range(&mut self, lo: u64, hi: u64) -> u64 { lo + self.below(hi - lo + 1) }
    pub fn bool(&mut self) -> bool { self.next() & 1 == 1 }
    pub fn chance(&mut self, num: u64, den: u64) -> bool { self.below(den) < num }
    pub fn pick<'a, T>(&mut self, xs: &'a [T]) -> &'a T { &xs[self.below(xs.len() as u64) as usize] }
    pub fn byte(&mut self) -> u8 { self.next() as u8 }
    pub fn bytes(&mut self, n: usize) -> Vec<u8> { (0..n).map(|_| self.byte()).collect() }
    pub fn u128(&mut self) -> u128 { ((self.next() as u128) << 64) | self.next() as u128 }
}

/// Observation / argument builder: a flat list of integers.
#[derive(Clone, Default, Debug)]
pub struct Ints(pub Vec<String>);

impl Ints {
    pub fn new() -> Self { Ints(Vec::new()) }
    pub fn n<T: ToString>(mut self, v: T) -> Self { self.0.push(v.to_string()); self }
    pub fn push<T: ToString>(&mut self, v: T) { self.0.push(v.to_string()); }
    pub fn b(mut self, v: bool) -> Self { self.0.push(if v { "1" } else { "0" }.into()); self }
    /// a byte string with its length in front
    pub fn bytes(mut self, v: &[u8]) -> Self {
        self.0.push(v.len().to_string());
        for x in v { self.0.push(x.to_string()); }
        self
    }
    /// raw list of bytes, no length
    pub fn raw(mut self, v: &[u8]) -> Self {
        for x in v { self.0.push(x.to_string()); }
        self
    }
    pub fn ext(mut self, o: Ints) -> Self { self.0.extend(o.0); self }
    pub fn extend(&mut self, o: Ints) { self.0.extend(o.0); }
    pub fn join(&self) -> String { self.0.join(" ") }
}

pub fn bytes_arg(v: &[u8]) -> Ints { Ints::new().raw(v) }
pub fn num_arg<T: ToString>(v: T) -> Ints { Ints::new().n(v) }

/// Outcome classes of the model's `res` type.
pub const R_OK: u8 = 0;
pub const R_CERR: u8 = 1;
pub const R_SERR: u8 = 2;
pub const R_PANIC: u8 = 3;

// ---- counting allocator: peak live heap during one case ----
use std::alloc::{GlobalAlloc, Layout, System};
use std::sync::atomic::{AtomicUsize, AtomicU64, Ordering};
pub struct Counting;
static CUR: AtomicUsize = AtomicUsize::new(0);
static PEAK: AtomicUsize = AtomicUsize::new(0);
unsafe impl GlobalAlloc for Counting {
    unsafe fn alloc(&self, l: Layout) -> *mut u8 {
        let p = System.alloc(l);
        if !p.is_null() { let c = CUR.fetch_add(l.size(), Ordering::Relaxed) + l.size(); PEAK.fetch_max(c, Ordering::Relaxed); }
        p
    }
    unsafe fn dealloc(&self, p: *mut u8, l: Layout) { System.dealloc(p, l); CUR.fetch_sub(l.size(), Ordering::Relaxed); }
    unsafe fn realloc(&self, p: *mut u8, l: Layout, new: usize) -> *mut u8 {
        let q = System.realloc(p, l, new);
        if !q.is_null() {
            if new >= l.size() { let c = CUR.fetch_add(new - l.size(), Ordering::Relaxed) + (new - l.size()); PEAK.fetch_max(c, Ordering::Relaxed); }
            else { CUR.fetch_sub(l.size() - new, Ordering::Relaxed); }
        }
        q
    }
}
/// run `f`; returns its result and the peak growth of the live heap while it ran
pub fn alloc_scope<T>(f: impl FnOnce() -> T) -> (T, usize) {
    let base = CUR.load(Ordering::Relaxed);
    PEAK.store(base, Ordering::Relaxed);
    let r = f();
    let peak = PEAK.load(Ordering::Relaxed);
    (r, peak.saturating_sub(base))
}

// ---- hang watchdog and abort trace ----
/// milliseconds (since process start) at which the running case started; 0 = idle
pub static CASE_START: AtomicU64 = AtomicU64::new(0);
pub fn now_ms() -> u64 { use std::time::Instant; static T0: std::sync::OnceLock<Instant> = std::sync::OnceLock::new(); T0.get_or_init(Instant::now).elapsed().as_millis() as u64 + 1 }

/// Run `f`, mapping a panic to None.
pub fn catch<T>(f: impl FnOnce() -> T) -> Option<T> {
    catch_unwind(AssertUnwindSafe(f)).ok()
}

pub fn mode_of(i: u8) -> bcder::Mode {
    match i { 0 => bcder::Mode::Ber, 1 => bcder::Mode::Cer, _ => bcder::Mode::Der }
}

pub enum Oracle { None, Pass, Fail(String) }

pub struct Emitter {
    out: std::io::BufWriter<std::io::Stdout>,
    pub shard: u64,
    pub nshards: u64,
    counter: u64,
    pub emitted: u64,
    only: Option<String>,
    limit: Option<u64>,
    per_sid: std::collections::HashMap<u32, u64>,
    trace: Option<std::fs::File>,
}

impl Emitter {
    pub fn new(shard: u64, nshards: u64) -> Self {
        Emitter {
            out: std::io::BufWriter::with_capacity(1 << 16, std::io::stdout()),
            shard, nshards, counter: 0, emitted: 0,
            only: std::env::var("VERIF_ONLY").ok(),
            limit: std::env::var("VERIF_LIMIT").ok().and_then(|v| v.parse().ok()),
            per_sid: std::collections::HashMap::new(),
            trace: std::env::var("VERIF_TRACE").ok().and_then(|p| std::fs::OpenOptions::new().create(true).write(true).open(p).ok()),
        }
    }

    /// Emit one case. `run` is only evaluated for cases belonging to this
    /// shard; it returns (observation, oracle verdict, non-trivial flag).
    pub fn case(
        &mut self, sid: u32, args: &[Ints],
        run: impl FnOnce() -> (Ints, Oracle, bool),
    ) {
        self.counter += 1;
        let args_s: Vec<String> = args.iter().map(|a| a.join()).collect();
        // shard by content, so that equal cases land in the same shard and the
        // driver's distinct count is exact across shards
        let key = format!("{}|{}", sid, args_s.join(";"));
        let mut h: u64 = 0xcbf29ce484222325;
        for b in key.bytes() { h = (h ^ b as u64).wrapping_mul(0x100000001b3); }
        if (h >> 7) % self.nshards != self.shard { return }
        if let Some(ref only) = self.only {
            if *only != format!("{}|{}", sid, args_s.join(";")) { return }
        }
        if let Some(limit) = self.limit {
            let c = self.per_sid.entry(sid).or_insert(0);
            if *c >= limit { return }
            *c += 1;
        }
        if let Some(f) = self.trace.as_ref() {
            // the case about to run, so that an abort or hang can be attributed
            use std::os::unix::fs::FileExt;
            let rec = format!("{:010}\n{}\n", key.len(), key);
            let _ = f.write_all_at(rec.as_bytes(), 0);
        }
        CASE_START.store(now_ms(), Ordering::Relaxed);
        let (obs, oracle, nt) = run();
        CASE_START.store(0, Ordering::Relaxed);
        let orc = match oracle {
            Oracle::None => "-".to_string(),
            Oracle::Pass => "1".to_string(),
            Oracle::Fail(t) => format!("0:{}", t.replace('|', "/")),
        };
        writeln!(
            self.out, "{}|{}|{}|{}|{}",
            sid, args_s.join(";"), obs.join(), orc, if nt { 1 } else { 0 }
        ).unwrap();
        self.emitted += 1;
    }

    pub fn finish(mut self) { self.out.flush().unwrap(); }
}

pub fn hex(v: &[u8]) -> String {
    v.iter().map(|b| format!("{:02x}", b)).collect::<Vec<_>>().join("")
}

/// An io::Write target that accepts at most `k` octets per call (allowed by the io::Write
/// contract: pipes, sockets, stream encoders): an encoder must produce the same octets on it.
/// A target that reports ErrorKind::Interrupted on every other call and otherwise accepts at most `k`
/// octets (io::Write::write_all retries on Interrupted; a bare write does not).
pub struct InterruptingWriter { pub out: Vec<u8>, pub k: usize, pub calls: usize }
impl std::io::Write for InterruptingWriter {
    fn write(&mut self, b: &[u8]) -> std::io::Result<usize> {
        self.calls += 1;
        if self.calls % 2 == 1 { return Err(std::io::Error::new(std::io::ErrorKind::Interrupted, "interrupted")) }
        let n = b.len().min(self.k.max(1)); self.out.extend_from_slice(&b[..n]); Ok(n)
    }
    fn flush(&mut self) -> std::io::Result<()> { Ok(()) }
}
/// A target with room for `cap` octets that answers Ok(0) once it is full (what `&mut [u8]` does).
pub struct FullWriter { pub out: Vec<u8>, pub cap: usize }
impl std::io::Write for FullWriter {
    fn write(&mut self, b: &[u8]) -> std::io::Result<usize> { let n = b.len().min(self.cap - self.out.len()); self.out.extend_from_slice(&b[..n]); Ok(n) }
    fn flush(&mut self) -> std::io::Result<()> { Ok(()) }
}
/// Runs an encoder on the awkward but legal io::Write targets: the octets must be the ones a Vec
/// received, and a target that is too small must make the call fail. Returns what went wrong.
pub fn awkward_targets(expected: &[u8], k: usize, enc: &dyn Fn(&mut dyn std::io::Write) -> std::io::Result<()>) -> Option<&'static str> {
    let r = catch(|| {
        let mut sw = ShortWriter { out: Vec::new(), k };
        if enc(&mut sw).is_err() || sw.out != expected { return Some("octets-differ-on-a-short-writing-target") }
        let mut iw = InterruptingWriter { out: Vec::new(), k: k + 1, calls: 0 };
        if enc(&mut iw).is_err() || iw.out != expected { return Some("octets-differ-on-an-interrupting-target") }
        if !expected.is_empty() {
            for cap in [expected.len() - 1, expected.len() / 2, 1.min(expected.len() - 1)] {
                let mut fw = FullWriter { out: Vec::new(), cap };
                if enc(&mut fw).is_ok() { return Some("success-reported-on-a-target-that-is-too-small") }
            }
        }
        None
    });
    match r { Some(x) => x, None => Some("panic-on-an-awkward-target") }
}
pub struct ShortWriter { pub out: Vec<u8>, pub k: usize }
impl std::io::Write for ShortWriter {
    fn write(&mut self, b: &[u8]) -> std::io::Result<usize> { let n = b.len().min(self.k.max(1)); self.out.extend_from_slice(&b[..n]); Ok(n) }
    fn flush(&mut self) -> std::io::Result<()> { Ok(()) }
}
