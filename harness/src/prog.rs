//! The decoding-program language of /verif/coq/Model/Prog.v, interpreted
//! against the real bcder API. Every step appends integers to a log.

use bcder::decode::{Constructed, Content, DecodeError, Primitive, Source};
use bcder::{BitString, Integer, Mode, Oid, Tag, Unsigned};
use crate::c12::mk_tag;

#[derive(Clone, Debug)]
pub enum Sop {
    Request(usize), Slice, Bytes(usize, usize), Advance(usize), Skip(usize),
    TakeU8, TakeOptU8, TakeAll, SkipAll, SliceAll, WithSliceAll, Remaining,
}

#[derive(Clone, Debug)]
pub enum Body { Generic, Prog(Vec<Prog>), Script(Vec<Sop>), Nop, Typed(u8), SetModeThen(u8, Box<Body>) }

#[derive(Clone, Debug)]
pub enum Prog {
    Take { opt: bool, kind: u8, exp: Option<(u8, u32)>, body: Body },
    Skip { variant: u8, fk: u8, fa: u32, fb: u32 },
    Capture(Vec<Prog>), CaptureOne, CaptureAll, ReadAll, SetMode(u8),
}

pub type Log = Vec<i128>;

// ---------- integer encoding (must match parse_progs in Prog.v) ----------
pub fn enc_progs(ps: &[Prog], out: &mut Vec<i128>) {
    out.push(ps.len() as i128);
    for p in ps { enc_prog(p, out); }
}
fn enc_prog(p: &Prog, out: &mut Vec<i128>) {
    match p {
        Prog::Take { opt, kind, exp, body } => {
            out.push(1); out.push(*opt as i128); out.push(*kind as i128);
            match exp { None => out.push(0), Some((c, n)) => { out.push(1); out.push(*c as i128); out.push(*n as i128); } }
            enc_body(body, out);
        }
        Prog::Skip { variant, fk, fa, fb } => { out.extend_from_slice(&[2, *variant as i128, *fk as i128, *fa as i128, *fb as i128]); }
        Prog::Capture(ps) => { out.push(3); enc_progs(ps, out); }
        Prog::CaptureOne => out.push(4),
        Prog::CaptureAll => out.push(5),
        Prog::ReadAll => out.push(6),
        Prog::SetMode(m) => { out.push(7); out.push(*m as i128); }
    }
}
fn enc_body(b: &Body, out: &mut Vec<i128>) {
    match b {
        Body::Generic => out.push(0),
        Body::Prog(ps) => { out.push(1); enc_progs(ps, out); }
        Body::Script(sc) => {
            out.push(2); out.push(sc.len() as i128);
            for o in sc { match o {
                Sop::Request(n) => { out.push(0); out.push(*n as i128); }
                Sop::Slice => out.push(1),
                Sop::Bytes(a, b) => { out.push(2); out.push(*a as i128); out.push(*b as i128); }
                Sop::Advance(k) => { out.push(3); out.push(*k as i128); }
                Sop::Skip(n) => { out.push(4); out.push(*n as i128); }
                Sop::TakeU8 => out.push(5), Sop::TakeOptU8 => out.push(6), Sop::TakeAll => out.push(7),
                Sop::SkipAll => out.push(8), Sop::SliceAll => out.push(9), Sop::WithSliceAll => out.push(10),
                Sop::Remaining => out.push(11),
            } }
        }
        Body::Nop => out.push(3),
        Body::Typed(ty) => { out.push(4); out.push(*ty as i128); }
        Body::SetModeThen(m, b) => { out.push(5); out.push(*m as i128); enc_body(b, out); }
    }
}

// ---------- helpers ----------
pub fn lbytes(log: &mut Log, b: &[u8]) { log.push(b.len() as i128); for x in b { log.push(*x as i128); } }
pub fn ltag(log: &mut Log, t: Tag, c: bool) {
    let mut v = Vec::new(); t.write_encoded(c, &mut v).unwrap(); lbytes(log, &v);
}
fn mode_n(m: u8) -> Mode { match m { 0 => Mode::Ber, 1 => Mode::Cer, _ => Mode::Der } }

#[derive(Clone, Debug, PartialEq)]
pub enum Tlv { Prim(Tag, bool, Vec<u8>), Cons(Tag, Vec<Tlv>) }

pub fn read_all<S: Source>(cons: &mut Constructed<S>) -> Result<Vec<Tlv>, DecodeError<S::Error>> {
    let mut v = Vec::new();
    while let Some(t) = cons.take_opt_value(|tag, content| match content {
        Content::Primitive(p) => Ok(Tlv::Prim(tag, false, p.take_all()?.to_vec())),
        Content::Constructed(c) => Ok(Tlv::Cons(tag, read_all(c)?)),
    })? { v.push(t); }
    Ok(v)
}
pub fn ltlv(log: &mut Log, t: &Tlv) {
    match t {
        Tlv::Prim(tag, _, c) => { log.push(0); ltag(log, *tag, false); lbytes(log, c); }
        Tlv::Cons(tag, kids) => { log.push(1); ltag(log, *tag, true); log.push(kids.len() as i128); for k in kids { ltlv(log, k); } }
    }
}
pub fn ltlvs(log: &mut Log, ts: &[Tlv]) { log.push(ts.len() as i128); for t in ts { ltlv(log, t); } }

// ---------- scripts on a primitive's content ----------
fn run_script<S: Source>(sc: &[Sop], p: &mut Primitive<S>, log: &mut Log) -> Result<(), DecodeError<S::Error>> {
    let mut granted: usize = 0;
    for o in sc {
        match o {
            Sop::Request(n) => { let g = p.request(*n)?.min(*n); granted = g; log.push(g as i128); }
            Sop::Slice => { let s = p.slice(); let v = s[..granted].to_vec(); lbytes(log, &v); }
            Sop::Bytes(a, b) => { let b2 = (*b).min(granted); let a2 = (*a).min(b2); let v = p.bytes(a2, b2); lbytes(log, v.as_ref()); }
            Sop::Advance(k) => { let k2 = (*k).min(granted); p.advance(k2); granted -= k2; log.push(k2 as i128); }
            Sop::Skip(n) => { let r = p.skip(*n)?; granted = 0; log.push(r as i128); }
            Sop::TakeU8 => { granted = 0; match p.take_u8() { Ok(b) => log.push(b as i128), Err(e) => { if is_source_err(&e) { return Err(e) } log.push(-1) } } }
            Sop::TakeOptU8 => { granted = 0; match p.take_opt_u8()? { Some(b) => log.push(b as i128), None => log.push(-2) } }
            Sop::TakeAll => { granted = 0; match p.take_all() { Ok(b) => lbytes(log, b.as_ref()), Err(e) => { if is_source_err(&e) { return Err(e) } log.push(-1) } } }
            Sop::SkipAll => { granted = 0; match p.skip_all() { Ok(()) => log.push(0), Err(e) => { if is_source_err(&e) { return Err(e) } log.push(-1) } } }
            Sop::SliceAll => { granted = 0; match p.slice_all() { Ok(b) => { let v = b.to_vec(); lbytes(log, &v) }, Err(e) => { if is_source_err(&e) { return Err(e) } log.push(-1) } } }
            Sop::WithSliceAll => { granted = 0; match p.with_slice_all(|s| Ok::<Vec<u8>, &'static str>(s.to_vec())) { Ok(v) => lbytes(log, &v), Err(e) => { if is_source_err(&e) { return Err(e) } log.push(-1) } } }
            Sop::Remaining => { log.push(p.remaining() as i128); }
        }
        // isolation: whatever was granted, the view of a value's content never extends past its end
        if p.slice().len() > p.remaining() { log.push(-99); }
    }
    Ok(())
}
/// DecodeError does not expose its kind; its documented Display does: a source error is shown as the source's
/// own error (ours all read "injected source failure #k"), a content error as "<message> (at position <n>)".
/// Nothing here depends on private field names or on the derived Debug output.
pub fn is_source_err<E: std::fmt::Display>(e: &DecodeError<E>) -> bool {
    let shown = format!("{}", e);
    shown.starts_with("injected source failure #") && !shown.contains(" (at position ")
}

// ---------- typed leaves ----------
fn typed_prim<S: Source>(ty: u8, p: &mut Primitive<S>, log: &mut Log) -> Result<(), DecodeError<S::Error>> {
    match ty {
        0 => log.push(p.to_i8()? as i128), 1 => log.push(p.to_i16()? as i128), 2 => log.push(p.to_i32()? as i128),
        3 => log.push(p.to_i64()? as i128), 4 => log.push(p.to_i128()?),
        5 => log.push(p.to_u8()? as i128), 6 => log.push(p.to_u16()? as i128), 7 => log.push(p.to_u32()? as i128),
        8 => log.push(p.to_u64()? as i128),
        9 => { let v = p.to_u128()?; if v > i128::MAX as u128 { log.push(-1); } else { log.push(v as i128); } }
        10 => log.push(p.to_bool()? as i128),
        11 => p.to_null()?,
        12 => { let o = Oid::from_primitive(p)?; lbytes(log, o.0.as_ref()); }
        13 => Oid::skip_primitive(p)?,
        16 => { let i = Integer::from_primitive(p)?; lbytes(log, i.as_slice()); }
        17 => { let i = Unsigned::from_primitive(p)?; lbytes(log, i.as_slice()); }
        _ => return Err(p.content_err("typed leaf needs content")),
    }
    Ok(())
}
fn typed_content<S: Source>(ty: u8, c: &mut Content<S>, log: &mut Log) -> Result<(), DecodeError<S::Error>> {
    match ty {
        14 => { let b = BitString::from_content(c)?; log.push(b.unused() as i128); lbytes(log, b.octet_bytes().as_ref()); Ok(()) }
        15 => BitString::skip_content(c),
        _ => typed_prim(ty, c.as_primitive()?, log),
    }
}

// ---------- bodies ----------
fn body_content<S: Source, C: CapMode>(b: &Body, c: &mut Content<S>, log: &mut Log) -> Result<(), DecodeError<S::Error>> {
    match b {
        Body::Generic => match c {
            Content::Primitive(p) => { let bs = p.take_all()?; log.push(0); lbytes(log, bs.as_ref()); Ok(()) }
            Content::Constructed(k) => { let ts = read_all(k)?; log.push(1); ltlvs(log, &ts); Ok(()) }
        },
        Body::Prog(ps) => { let k = c.as_constructed()?; exec_with::<S, C>(ps, k, log) }
        Body::Script(sc) => run_script(sc, c.as_primitive()?, log),
        Body::Nop => Ok(()),
        Body::Typed(ty) => typed_content(*ty, c, log),
        Body::SetModeThen(m, b2) => {
            match c { Content::Primitive(p) => p.set_mode(mode_n(*m)), Content::Constructed(k) => k.set_mode(mode_n(*m)) }
            body_content::<S, C>(b2, c, log)
        }
    }
}
fn body_prim<S: Source>(b: &Body, p: &mut Primitive<S>, log: &mut Log) -> Result<(), DecodeError<S::Error>> {
    match b {
        Body::Generic => { let bs = p.take_all()?; log.push(0); lbytes(log, bs.as_ref()); Ok(()) }
        Body::Prog(_) => Err(p.content_err("expected constructed")),
        Body::Script(sc) => run_script(sc, p, log),
        Body::Nop => Ok(()),
        Body::Typed(ty) => typed_prim(*ty, p, log),
        Body::SetModeThen(m, b2) => { p.set_mode(mode_n(*m)); body_prim(b2, p, log) }
    }
}
fn body_cons<S: Source, C: CapMode>(b: &Body, k: &mut Constructed<S>, log: &mut Log) -> Result<(), DecodeError<S::Error>> {
    match b {
        Body::Generic => { let ts = read_all(k)?; log.push(1); ltlvs(log, &ts); Ok(()) }
        Body::Prog(ps) => exec_with::<S, C>(ps, k, log),
        Body::Script(_) | Body::Typed(_) => Err(k.content_err("expected primitive")),
        Body::Nop => Ok(()),
        Body::SetModeThen(m, b2) => { k.set_mode(mode_n(*m)); body_cons::<S, C>(b2, k, log) }
    }
}

fn take<S: Source, C: CapMode>(cons: &mut Constructed<S>, opt: bool, kind: u8, exp: Option<(u8, u32)>, body: &Body,
                   log: &mut Log) -> Result<(), DecodeError<S::Error>> {
    let mut inner: Log = Vec::new();
    let e = exp.map(|(c, n)| mk_tag(c, n));
    let present: Option<()> = match (kind, e) {
        (0, None) => {
            let f = |t: Tag, c: &mut Content<S>| { ltag(&mut inner, t, c.is_constructed()); body_content::<S, C>(body, c, &mut inner) };
            if opt { cons.take_opt_value(f)? } else { Some(cons.take_value(f)?) }
        }
        (0, Some(t)) => {
            let f = |c: &mut Content<S>| { ltag(&mut inner, t, c.is_constructed()); body_content::<S, C>(body, c, &mut inner) };
            if opt { cons.take_opt_value_if(t, f)? } else { Some(cons.take_value_if(t, f)?) }
        }
        (1, None) => {
            let f = |t: Tag, p: &mut Primitive<S>| { ltag(&mut inner, t, false); body_prim(body, p, &mut inner) };
            if opt { cons.take_opt_primitive(f)? } else { Some(cons.take_primitive(f)?) }
        }
        (1, Some(t)) => {
            let f = |p: &mut Primitive<S>| { ltag(&mut inner, t, false); body_prim(body, p, &mut inner) };
            if opt { cons.take_opt_primitive_if(t, f)? } else { Some(cons.take_primitive_if(t, f)?) }
        }
        (_, None) => {
            let f = |t: Tag, k: &mut Constructed<S>| { ltag(&mut inner, t, true); body_cons::<S, C>(body, k, &mut inner) };
            if opt { cons.take_opt_constructed(f)? } else { Some(cons.take_constructed(f)?) }
        }
        (_, Some(t)) => {
            let f = |k: &mut Constructed<S>| { ltag(&mut inner, t, true); body_cons::<S, C>(body, k, &mut inner) };
            if opt { cons.take_opt_constructed_if(t, f)? } else { Some(cons.take_constructed_if(t, f)?) }
        }
    };
    match present { Some(()) => { log.push(1); log.extend(inner); } None => log.push(0) }
    Ok(())
}

fn skip<S: Source>(cons: &mut Constructed<S>, variant: u8, fk: u8, fa: u32, fb: u32, log: &mut Log)
    -> Result<(), DecodeError<S::Error>> {
    let mut tr: Log = Vec::new();
    let mut cnt: i128 = 0;
    let want = if fk == 1 { Some(mk_tag(fa as u8, fb)) } else { None };
    let mut f = |t: Tag, c: bool, d: usize| -> Result<(), bcder::decode::ContentError> {
        let ok = match fk { 0 => true, 1 => Some(t) == want, 2 => (d as u32) < fa, _ => !c };
        if ok { ltag(&mut tr, t, c); tr.push(d as i128); cnt += 1; Ok(()) } else { Err("rejected by filter".into()) }
    };
    match variant {
        0 => { let r = cons.skip_opt(&mut f)?; log.push(r.is_some() as i128); log.push(cnt); log.extend(tr); }
        1 => { cons.skip(&mut f)?; log.push(1); log.push(cnt); log.extend(tr); }
        2 => { let r = cons.skip_one()?; log.push(r.is_some() as i128); }
        _ => {
            // skip_all: count the values through skip_one semantics is not observable; re-implement the loop
            let mut n: i128 = 0;
            while let Some(()) = cons.skip_one()? { n += 1; }
            log.push(n);
        }
    }
    Ok(())
}

/// Whether programs may capture: inside a capture closure they may not
/// (the closure's source type would otherwise grow without bound).
pub trait CapMode {
    fn capture<S: Source>(cons: &mut Constructed<S>, qs: &[Prog], log: &mut Log) -> Result<(), DecodeError<S::Error>>;
}
pub struct CapYes;
pub struct CapNo;
impl CapMode for CapYes {
    fn capture<S: Source>(cons: &mut Constructed<S>, qs: &[Prog], log: &mut Log) -> Result<(), DecodeError<S::Error>> {
        let mut inner: Log = Vec::new();
        let cap = cons.capture(|c| exec_with::<_, CapNo>(qs, c, &mut inner))?;
        log.extend(inner); lbytes(log, cap.as_slice());
        Ok(())
    }
}
impl CapMode for CapNo {
    fn capture<S: Source>(cons: &mut Constructed<S>, _qs: &[Prog], _log: &mut Log) -> Result<(), DecodeError<S::Error>> {
        Err(cons.content_err("nested capture not supported by the harness"))
    }
}

pub fn exec_with<S: Source, C: CapMode>(ps: &[Prog], cons: &mut Constructed<S>, log: &mut Log) -> Result<(), DecodeError<S::Error>> {
    for p in ps {
        match p {
            Prog::Take { opt, kind, exp, body } => take::<S, C>(cons, *opt, *kind, *exp, body, log)?,
            Prog::Skip { variant, fk, fa, fb } => skip(cons, *variant, *fk, *fa, *fb, log)?,
            Prog::ReadAll => { let ts = read_all(cons)?; ltlvs(log, &ts); }
            Prog::SetMode(m) => cons.set_mode(mode_n(*m)),
            Prog::Capture(qs) => C::capture(cons, qs, log)?,
            Prog::CaptureOne => { let cap = cons.capture_one()?; lbytes(log, cap.as_slice()); }
            Prog::CaptureAll => { let cap = cons.capture_all()?; lbytes(log, cap.as_slice()); }
        }
    }
    Ok(())
}

pub fn exec<S: Source>(ps: &[Prog], cons: &mut Constructed<S>, log: &mut Log) -> Result<(), DecodeError<S::Error>> {
    exec_with::<S, CapYes>(ps, cons, log)
}

/// Run a program on a whole input with a slice source; returns the
/// observation of stream "prog": kind, octets left, log.
pub fn run_slice(mode: u8, ps: &[Prog], data: &[u8]) -> Vec<i128> {
    use bcder::decode::SliceSource;
    let r = crate::common::catch(|| {
        let mut log: Log = Vec::new();
        let mut src = SliceSource::new(data);
        let r = Constructed::decode(&mut src, mode_n(mode), |cons| exec(ps, cons, &mut log));
        (r.is_ok(), src.len(), log)
    });
    match r {
        Some((true, left, log)) => { let mut v = vec![0, left as i128]; v.extend(log); v }
        Some((false, _, _)) => vec![1],
        None => vec![3],
    }
}

/// The same run on a source that delivers its data lazily under `policy`; same observation format as `run_slice`.
pub fn run_flex(mode: u8, ps: &[Prog], data: &[u8], policy: crate::sources::Policy) -> Vec<i128> {
    let r = crate::common::catch(|| {
        let mut log: Log = Vec::new();
        let mut src = crate::sources::FlexSource::new(data, policy, None);
        let r = Constructed::decode(&mut src, mode_n(mode), |cons| exec(ps, cons, &mut log));
        (r.is_ok(), src.left(), log)
    });
    match r {
        Some((true, left, log)) => { let mut v = vec![0, left as i128]; v.extend(log); v }
        Some((false, _, _)) => vec![1],
        None => vec![3],
    }
}

/// The same run with the input delivered by the crate's own lazy source: `data` becomes the content of a
/// BER constructed OCTET STRING (pieces of `k` octets, an empty segment, a nested indefinite segment) and
/// the program decodes from `OctetString::into_source()`.
pub fn run_octet_string_source(mode: u8, ps: &[Prog], data: &[u8], k: usize) -> Vec<i128> {
    use crate::c16::{Os, os_encode, take_os};
    use bcder::decode::IntoSource;
    let k = k.max(1);
    let mut parts: Vec<Os> = Vec::new();
    for (i, piece) in data.chunks(k).enumerate() {
        if i == 1 { parts.push(Os::Prim(vec![])); }
        if i % 3 == 2 { parts.push(Os::Cons(true, vec![Os::Prim(piece.to_vec()), Os::Prim(vec![])])); } else { parts.push(Os::Prim(piece.to_vec())); }
    }
    let mut enc = Vec::new(); os_encode(&Os::Cons(data.len() % 2 == 0, parts), 0x04, &mut enc);
    let r = crate::common::catch(|| {
        let os = take_os(0, bcder::Tag::OCTET_STRING, &enc).expect("valid segmentation");
        let mut log: Log = Vec::new();
        let mut src = os.into_source();
        let r = Constructed::decode(&mut src, mode_n(mode), |cons| exec(ps, cons, &mut log));
        (r.is_ok(), crate::sources::drain(&mut src), log)
    });
    match r {
        Some((true, left, log)) => { let mut v = vec![0, left as i128]; v.extend(log); v }
        Some((false, _, _)) => vec![1],
        None => vec![3],
    }
}
