//! C03: code given a value's content can neither see nor consume octets outside it.

use crate::common::*;
use crate::gen::*;
use crate::prog::*;
use crate::c02::{prog_case, wrap, in_ctx, ctx_ok};

/// independent reference: the script run on a plain window
fn ref_script(w: &[u8], sc: &[Sop]) -> (Vec<i128>, usize) {
    let mut pos = 0usize; let mut granted = 0usize; let mut log: Vec<i128> = Vec::new();
    let lb = |log: &mut Vec<i128>, b: &[u8]| { log.push(b.len() as i128); for x in b { log.push(*x as i128); } };
    for o in sc {
        let rest = &w[pos..];
        match o {
            Sop::Request(n) => { granted = (*n).min(rest.len()); log.push(granted as i128); }
            Sop::Slice => lb(&mut log, &rest[..granted]),
            Sop::Bytes(a, b) => { let b2 = (*b).min(granted); let a2 = (*a).min(b2); lb(&mut log, &rest[a2..b2]); }
            Sop::Advance(k) => { let k2 = (*k).min(granted); pos += k2; granted -= k2; log.push(k2 as i128); }
            Sop::Skip(n) => { let r = (*n).min(rest.len()); pos += r; granted = 0; log.push(r as i128); }
            Sop::TakeU8 => { granted = 0; if rest.is_empty() { log.push(-1) } else { log.push(rest[0] as i128); pos += 1; } }
            Sop::TakeOptU8 => { granted = 0; if rest.is_empty() { log.push(-2) } else { log.push(rest[0] as i128); pos += 1; } }
            Sop::TakeAll => { granted = 0; lb(&mut log, rest); pos = w.len(); }
            Sop::SkipAll => { granted = 0; log.push(0); pos = w.len(); }
            Sop::SliceAll => { granted = 0; lb(&mut log, rest); }
            Sop::WithSliceAll => { granted = 0; lb(&mut log, rest); pos = w.len(); }
            Sop::Remaining => log.push(rest.len() as i128),
        }
    }
    (log, pos)
}

pub fn random_sop(rng: &mut Rng, l: usize) -> Sop {
    let around = |rng: &mut Rng| -> usize { match rng.below(6) { 0 => 0, 1 => 1, 2 => l.saturating_sub(1), 3 => l, 4 => l + 1, _ => rng.below(l as u64 + 3) as usize } };
    match rng.below(14) {
        0 | 1 => Sop::Request(if rng.chance(1, 12) { usize::MAX - rng.below(3) as usize } else { around(rng) }), 2 => Sop::Slice, 3 => Sop::Bytes(around(rng), around(rng)), 4 | 5 => Sop::Advance(around(rng)),
        6 => Sop::Skip(if rng.chance(1, 8) { usize::MAX - rng.below(3) as usize } else { around(rng) }), 7 => Sop::TakeU8, 8 => Sop::TakeOptU8, 9 => Sop::TakeAll, 10 => Sop::SkipAll,
        11 => Sop::SliceAll, 12 => Sop::WithSliceAll, _ => Sop::Remaining,
    }
}

fn script_case(em: &mut Emitter, mode: u8, ctx: Ctx, before: &[Node], content: &[u8], after: &[Node], sc: Vec<Sop>, captured: bool) {
    let mut forest: Vec<Node> = before.to_vec();
    forest.push(Node::Prim { cls: 0, num: 4, content: content.to_vec() });
    forest.extend_from_slice(after);
    let inner = encode_forest(&forest, mode, &mut None);
    let data = wrap(ctx, &inner);
    let j = before.len();
    let mut ps: Vec<Prog> = (0..j).map(|_| Prog::Take { opt: true, kind: 0, exp: None, body: Body::Generic }).collect();
    let take = Prog::Take { opt: false, kind: 1, exp: Some((0, 4)), body: Body::Script(sc.clone()) };
    if captured { ps.push(Prog::Capture(vec![take])); } else { ps.push(take); }
    ps.push(Prog::ReadAll);
    let ps = in_ctx(ctx, ps);
    let (c2, after2, before2) = (content.to_vec(), after.to_vec(), before.to_vec());
    // the value cut short by the end of the input (its header still announces the full content): whatever
    // the content code does, the read fails - octets that are not there are never "the end of the content"
    if ctx == Ctx::Top && after.is_empty() && !content.is_empty() {
        for cutoff in [1usize, (content.len() + 1) / 2, content.len()] {
            if cutoff > content.len() { continue }
            let cut = data[..data.len() - cutoff].to_vec();
            prog_case(em, 301, mode, &ps, &cut, |obs| match obs.first() { Some(1) => Oracle::Pass, Some(3) => Oracle::Fail("panic".into()), _ => Oracle::Fail("value-cut-short-by-the-end-of-input-accepted".into()) }, true);
        }
    }
    prog_case(em, 301, mode, &ps, &data, move |obs| {
        if obs.first() == Some(&3) { return Oracle::Fail("panic".into()) }
        let (rlog, used) = ref_script(&c2, &sc);
        if used != c2.len() {
            // the script returned success without consuming the whole content: the enclosing read must fail
            return if obs == [1] { Oracle::Pass } else { Oracle::Fail("partial-read-accepted".into()) }
        }
        if obs.first() != Some(&0) { return Oracle::Fail("complete-read-rejected".into()) }
        // expected log: prefix values, 1 + tag + script log (+ captured octets), following values read conventionally
        let mut w: Vec<i128> = vec![0, 0];
        if ctx != Ctx::Top { w.extend_from_slice(&[1, 1, 0x30]); }
        let enc1 = |n: &Node| -> RTlv { let e = encode_forest(&[n.clone()], mode, &mut None); ref_parse_seq(mode, &e, Ctx::Top, 0).unwrap().0.remove(0) };
        for n in &before2 { w.push(1); crate::c09::push_generic(&enc1(n), &mut w); }
        w.extend_from_slice(&[1, 1, 4]); w.extend(rlog);
        if captured { let e = encode_forest(&[Node::Prim { cls: 0, num: 4, content: c2.clone() }], mode, &mut None); w.push(e.len() as i128); for b in &e { w.push(*b as i128); } }
        let rest: Vec<RTlv> = after2.iter().map(enc1).collect();
        w.extend(rtlvs_to_log(&rest));
        if obs == w.as_slice() { Oracle::Pass } else { Oracle::Fail("window-observation-differs-from-plain-window".into()) }
    }, true);
}

/// 302: caller code that carries on after a failed read. Inside a SEQUENCE (definite, indefinite, or one
/// inside the other) the closure reads `j` members, then makes a read of member j that FAILS in one of several
/// ways (before, inside or after the member's content), swallows the error, optionally reads on, and returns
/// success. Property: code that returns success without having consumed the whole content makes the enclosing
/// read fail; if the enclosing read does succeed, the values that follow are the ones that follow in the input.
fn lenient_case(em: &mut Emitter, mode: u8, outer_indef: bool, wrap2: u8, members: &[Node], j: usize, how: u8, more: usize, bad: u8) {
    use bcder::decode::{Constructed, IntoSource, Content};
    use bcder::Tag;
    // member j may be replaced by a malformed one, so that skipping and capturing it fail as well
    const BAD: [&[u8]; 6] = [&[0x30, 0x02, 0x02, 0x05], &[0x24, 0x04, 0x04, 0x05, 0x61, 0x62], &[0x30, 0x04, 0x30, 0x02, 0x02, 0x05], &[0x30, 0x05, 0x02, 0x01, 0x07, 0x01, 0x03],
        // the failure happens inside an indefinite-length value inside the definite-length member (BER only)
        &[0x30, 0x04, 0x30, 0x80, 0x04, 0x05], &[0x30, 0x06, 0x30, 0x80, 0x30, 0x02, 0x02, 0x05]];
    let body: Vec<u8> = members.iter().enumerate().flat_map(|(i, m)| if i == j && bad > 0 { BAD[(bad - 1) as usize].to_vec() } else { encode_forest(std::slice::from_ref(m), mode, &mut None) }).collect();
    let seq = |indef: bool, inner: &[u8]| -> Vec<u8> { let mut v = vec![0x30u8]; if indef { v.push(0x80); v.extend_from_slice(inner); v.extend_from_slice(&[0, 0]); } else { v.extend(ref_len_octets(inner.len())); v.extend_from_slice(inner); } v };
    let mut data = seq(outer_indef, &body);
    // the sibling that follows the SEQUENCE, and an optional second enclosing SEQUENCE around both
    let sib: [u8; 4] = [0xdf, 0x7f, 0x01, 0x5a];
    data.extend_from_slice(&sib);
    let data = match wrap2 { 0 => data, 1 => seq(false, &data), _ => seq(true, &data) };
    let (cls, num, cons) = if bad > 0 { (0u8, (BAD[(bad - 1) as usize][0] & 0x1f) as u32, true) } else { match &members[j] { Node::Prim { cls, num, .. } => (*cls, *num, false), Node::Cons { cls, num, .. } => (*cls, *num, true) } };
    em.case(302, &[num_arg(mode), num_arg(outer_indef as u8), num_arg(wrap2), bytes_arg(&data), num_arg(j), num_arg(how), num_arg(more), num_arg(bad)], || {
        fn inner<S: bcder::decode::Source>(c: &mut Constructed<S>, j: usize, tag: Tag, cons: bool, how: u8, more: usize) -> Result<(bool, bool), bcder::decode::DecodeError<S::Error>> {
            // (the SEQUENCE was delivered, what follows is exactly the sibling and then the end)
            let got = c.take_opt_sequence(|seq| {
                for _ in 0..j { seq.take_value(|_, ct| skip_content(ct))?; }
                // the failing read of member j; its error is swallowed
                let failed: Result<(), _> = match (how, cons) {
                    (0, _) => seq.take_value_if(tag, |ct| { let e = content_err(ct); Err(e) }),                       // fails before touching the content
                    (1, _) => seq.take_value_if(tag, |ct| { skip_content(ct)?; let e = content_err(ct); Err(e) }),    // fails after consuming all of it
                    (2, false) => seq.take_primitive_if(tag, |p| { use bcder::decode::Source; let _ = p.take_opt_u8()?; Err(p.content_err("lenient")) }),  // after one octet
                    (2, true) => seq.take_constructed_if(tag, |k| { k.skip_opt(|_, _, _| Ok(()))?; Err(k.content_err("lenient")) }),      // after one member
                    (3, false) => seq.take_primitive_if(tag, |p| p.to_null()),                                         // a typed reader that may reject the content
                    (3, true) => seq.take_constructed_if(tag, |k| k.take_null()),
                    (4, _) => seq.take_value_if(tag, |ct| { skip_content(ct)?; Ok(()) }).and_then(|_| Err(seq.content_err("lenient"))),  // succeeds; the caller fails afterwards
                    (5, _) => seq.take_value_if(tag, |_| Ok(())),                                                       // returns success without consuming
                    // a MANDATORY read under a foreign expectation: absence becomes an error, and nothing is consumed
                    (10, _) => seq.take_value_if(Tag::private(0x1f_fffe), |_| Ok(())),
                    (11, _) => seq.take_primitive_if(Tag::private(0x1f_fffe), |_| Ok(())),
                    (12, _) => seq.take_constructed_if(Tag::private(0x1f_fffe), |_| Ok(())),
                    (13, _) => bcder::OctetString::take_from(seq).map(|_| ()),
                    (14, _) => bcder::BitString::take_from(seq).map(|_| ()),
                    (15, _) => seq.take_null(),
                    (16, _) => seq.take_u8().map(|_| ()),
                    (17, _) => seq.take_bool().map(|_| ()),
                    (18, _) => bcder::Oid::take_from(seq).map(|_| ()),
                    (19, _) => seq.take_sequence(|_| Ok(())),
                    (20, _) => bcder::Utf8String::take_from(seq).map(|_| ()),
                    (6, _) => seq.skip_one().map(|_| ()),                                                               // skipping, capturing, string decoding of the member
                    (7, _) => seq.capture_one().map(|_| ()),
                    (8, _) => bcder::OctetString::take_from(seq).map(|_| ()),
                    _ => seq.skip_all(),
                };
                if how >= 10 {
                    // the value is still there: read it and all that follows under no expectation
                    if failed.is_ok() { return Err(seq.content_err("a mandatory read under a foreign expectation succeeded")) }
                    while seq.take_opt_value(|_, ct| skip_content(ct))?.is_some() { }
                    return Ok(())
                }
                let _ = failed;
                for _ in 0..more { if seq.take_opt_value(|_, ct| skip_content(ct)).is_err() { break } }
                Ok(())
            });
            match got {
                Err(_) | Ok(None) => Ok((false, false)),
                Ok(Some(())) => {
                    let sib_ok = c.take_primitive_if(Tag::private(127), |p| { let b = p.take_all()?; Ok(b.as_ref() == [0x5a]) }).unwrap_or(false);
                    Ok((true, sib_ok))
                }
            }
        }
        fn skip_content<S: bcder::decode::Source>(ct: &mut Content<S>) -> Result<(), bcder::decode::DecodeError<S::Error>> {
            match ct { Content::Primitive(p) => p.skip_all(), Content::Constructed(k) => k.skip_all() }
        }
        fn content_err<S: bcder::decode::Source>(ct: &mut Content<S>) -> bcder::decode::DecodeError<S::Error> {
            match ct { Content::Primitive(p) => p.content_err("lenient"), Content::Constructed(k) => k.content_err("lenient") }
        }
        let tag = crate::c12::mk_tag(cls, num);
        let r = catch(|| Constructed::decode(data.as_slice().into_source(), mode_of(mode), |c| {
            let (delivered, sib_ok) = match wrap2 { 0 => inner(c, j, tag, cons, how, more)?, _ => c.take_sequence(|w| inner(w, j, tag, cons, how, more))? };
            let end = c.take_opt_value(|_, ct| skip_content(ct)).map(|o| o.is_none()).unwrap_or(false);
            Ok((delivered, sib_ok, end))
        }));
        let orc = match r {
            None => Oracle::Fail("panic".into()),
            // after a mandatory read that found another value than it expected, everything must still be in place
            Some(Ok((true, true, true))) if how >= 10 => Oracle::Pass,
            Some(_) if how >= 10 => Oracle::Fail("a-failed-mandatory-read-under-a-foreign-expectation-consumed-something".into()),
            Some(Err(_)) => Oracle::Pass,                          // the enclosing read (or an outer one) failed
            Some(Ok((false, _, _))) => Oracle::Pass,
            Some(Ok((true, true, true))) => Oracle::Pass,          // everything was consumed after all: what follows is what follows
            // known finding D24: inside an INDEFINITE-length value a failed read leaves the position inside the failed
            // member and nothing bounds what the following reads take for members; an end-of-contents met that way
            // closes the enclosing value early (inside a definite-length value the limit keeps the books: fix D23)
            Some(Ok((true, _, _))) if outer_indef => Oracle::Fail("D24-carrying-on-after-a-failed-read-inside-an-indefinite-length-value-misparses-the-rest-of-the-failed-member".into()),
            Some(Ok((true, _, _))) => Oracle::Fail("enclosing-read-succeeds-after-a-swallowed-failure-and-what-follows-is-not-what-follows-in-the-input".into()),
        };
        (Ints::new().n(1), orc, true)
    });
}

pub fn run(em: &mut Emitter, rng: &mut Rng, thorough: bool) {
    for _ in 0..(if thorough { 60_000 } else { 2_500 }) {
        let mode = rng.below(3) as u8;
        let members = { let f = random_forest(rng, mode, 4); if f.is_empty() { continue } f };
        let outer_indef = match mode { 1 => true, 2 => false, _ => rng.bool() };
        let wrap2 = match mode { 1 => *rng.pick(&[0u8, 2]), 2 => rng.below(2) as u8, _ => rng.below(3) as u8 };
        let j = rng.below(members.len() as u64) as usize;
        for how in 0..6u8 { lenient_case(em, mode, outer_indef, wrap2, &members, j, how, rng.below(3) as usize, 0); }
        let (jc, jn) = match &members[j] { Node::Prim { cls, num, .. } | Node::Cons { cls, num, .. } => (*cls, *num) };
        for how in 10..21u8 {
            // the typed readers are foreign only where member j does not carry their tag
            let own: Option<u32> = match how { 13 => Some(4), 14 => Some(3), 15 => Some(5), 16 => Some(2), 17 => Some(1), 18 => Some(6), 19 => Some(16), 20 => Some(12), _ => None };
            if jc == 0 && own == Some(jn) { continue }
            if jc == 3 && jn == 0x1f_fffe { continue }
            lenient_case(em, mode, outer_indef, wrap2, &members, j, how, 0, 0);
        }
        if mode != 1 { let bad = 1 + rng.below(if mode == 0 { 6 } else { 4 }) as u8; for how in 0..10u8 { lenient_case(em, mode, outer_indef, wrap2, &members, j, how, rng.below(3) as usize, bad); } }
    }
    let ctxs = [Ctx::Top, Ctx::Definite, Ctx::Indefinite];
    // exhaustive short scripts over a small alphabet on a 3-octet value followed by a sibling
    let sib = vec![Node::Prim { cls: 0, num: 2, content: vec![0x77] }];
    let alpha: Vec<Sop> = vec![Sop::Request(1), Sop::Request(2), Sop::Request(4), Sop::Slice, Sop::Bytes(0, 2), Sop::Advance(1), Sop::Advance(3),
        Sop::Skip(2), Sop::Skip(5), Sop::TakeU8, Sop::TakeOptU8, Sop::TakeAll, Sop::SkipAll, Sop::SliceAll, Sop::WithSliceAll, Sop::Remaining];
    let maxlen = if thorough { 4 } else { 3 };
    let mut idx: Vec<usize> = vec![];
    loop {
        let sc: Vec<Sop> = idx.iter().map(|&i| alpha[i].clone()).collect();
        let mode = (idx.iter().sum::<usize>() % 3) as u8;
        let ctx = ctxs[idx.len() % 3];
        if ctx_ok(mode, ctx) { script_case(em, mode, ctx, &[], &[0xa1, 0xa2, 0xa3], &sib, sc, false); }
        // next
        let mut k = 0;
        loop {
            if k == idx.len() { idx.push(0); if idx.len() > maxlen { idx.clear(); } break }
            idx[k] += 1; if idx[k] < alpha.len() { break } idx[k] = 0; k += 1;
        }
        if idx.is_empty() { break }
    }
    // random scripts, lengths around the content size, every position and context, also inside a capture
    for _ in 0..(if thorough { 200_000 } else { 25_000 }) {
        let mode = rng.below(3) as u8;
        let ctx = *rng.pick(&ctxs);
        if !ctx_ok(mode, ctx) { continue }
        let l = match rng.below(5) { 0 => 0, 1 => 1, 2 => rng.range(2, 8) as usize, 3 => rng.range(120, 135) as usize, _ => rng.range(2, 20) as usize };
        let content = rng.bytes(l);
        let mut budget = 4;
        let before: Vec<Node> = (0..rng.below(3)).map(|_| random_node(rng, mode, 1, &mut budget)).collect();
        let after: Vec<Node> = (0..rng.below(3)).map(|_| random_node(rng, mode, 1, &mut budget)).collect();
        let n = rng.range(1, 12) as usize;
        let mut sc: Vec<Sop> = (0..n).map(|_| random_sop(rng, l)).collect();
        if rng.chance(2, 3) { sc.push(rng.pick(&[Sop::TakeAll, Sop::SkipAll, Sop::WithSliceAll]).clone()); }
        script_case(em, mode, ctx, &before, &content, &after, sc, rng.chance(1, 4));
    }
}
