//! C03: code given a value's content can neither see nor consume octets outside it.

use crate::common::*;
use crate::gen::*;
use crate::prog::*;
use crate::c02::{prog_case, wrap, in_ctx, ctx_ok};

/// independent reference: the script run on a plain window
fn ref_script(w: &[u8], sc: &[Sop]) -> (Vec<i128>, usize) {
    let mut pos = 0usize; let mut granted = 0usize; let mut log: Vec<i128> = Vec::new();
    let lb = |log: &mut Vec<i128>, b: &[u8]| { log.push(b.len() as i128); for x in b { log.push(*x as i128); } };
    for o in sc {
        let rest = &w[pos..];
        match o {
            Sop::Request(n) => { granted = (*n).min(rest.len()); log.push(granted as i128); }
            Sop::Slice => lb(&mut log, &rest[..granted]),
            Sop::Bytes(a, b) => { let b2 = (*b).min(granted); let a2 = (*a).min(b2); lb(&mut log, &rest[a2..b2]); }
            Sop::Advance(k) => { let k2 = (*k).min(granted); pos += k2; granted -= k2; log.push(k2 as i128); }
            Sop::Skip(n) => { let r = (*n).min(rest.len()); pos += r; granted = 0; log.push(r as i128); }
            Sop::TakeU8 => { granted = 0; if rest.is_empty() { log.push(-1) } else { log.push(rest[0] as i128); pos += 1; } }
            Sop::TakeOptU8 => { granted = 0; if rest.is_empty() { log.push(-2) } else { log.push(rest[0] as i128); pos += 1; } }
            Sop::TakeAll => { granted = 0; lb(&mut log, rest); pos = w.len(); }
            Sop::SkipAll => { granted = 0; log.push(0); pos = w.len(); }
            Sop::SliceAll => { granted = 0; lb(&mut log, rest); }
            Sop::WithSliceAll => { granted = 0; lb(&mut log, rest); pos = w.len(); }
            Sop::Remaining => log.push(rest.len() as i128),
        }
    }
    (log, pos)
}

pub fn random_sop(rng: &mut Rng, l: usize) -> Sop {
    let around = |rng: &mut Rng| -> usize { match rng.below(6) { 0 => 0, 1 => 1, 2 => l.saturating_sub(1), 3 => l, 4 => l + 1, _ => rng.below(l as u64 + 3) as usize } };
    match rng.below(14) {
        0 | 1 => Sop::Request(if rng.chance(1, 12) { usize::MAX - rng.below(3) as usize } else { around(rng) }), 2 => Sop::Slice, 3 => Sop::Bytes(around(rng), around(rng)), 4 | 5 => Sop::Advance(around(rng)),
        6 => Sop::Skip(if rng.chance(1, 8) { usize::MAX - rng.below(3) as usize } else { around(rng) }), 7 => Sop::TakeU8, 8 => Sop::TakeOptU8, 9 => Sop::TakeAll, 10 => Sop::SkipAll,
        11 => Sop::SliceAll, 12 => Sop::WithSliceAll, _ => Sop::Remaining,
    }
}

fn script_case(em: &mut Emitter, mode: u8, ctx: Ctx, before: &[Node], content: &[u8], after: &[Node], sc: Vec<Sop>, captured: bool) {
    let mut forest: Vec<Node> = before.to_vec();
    forest.push(Node::Prim { cls: 0, num: 4, content: content.to_vec() });
    forest.extend_from_slice(after);
    let inner = encode_forest(&forest, mode, &mut None);
    let data = wrap(ctx, &inner);
    let j = before.len();
    let mut ps: Vec<Prog> = (0..j).map(|_| Prog::Take { opt: true, kind: 0, exp: None, body: Body::Generic }).collect();
    let take = Prog::Take { opt: false, kind: 1, exp: Some((0, 4)), body: Body::Script(sc.clone()) };
    if captured { ps.push(Prog::Capture(vec![take])); } else { ps.push(take); }
    ps.push(Prog::ReadAll);
    let ps = in_ctx(ctx, ps);
    let (c2, after2, before2) = (content.to_vec(), after.to_vec(), before.to_vec());
    // the value cut short by the end of the input (its header still announces the full content): whatever
    // the content code does, the read fails - octets that are not there are never "the end of the content"
    if ctx == Ctx::Top && after.is_empty() && !content.is_empty() {
        for cutoff in [1usize, (content.len() + 1) / 2, content.len()] {
            if cutoff > content.len() { continue }
            let cut = data[..data.len() - cutoff].to_vec();
            prog_case(em, 301, mode, &ps, &cut, |obs| match obs.first() { Some(1) => Oracle::Pass, Some(3) => Oracle::Fail("panic".into()), _ => Oracle::Fail("value-cut-short-by-the-end-of-input-accepted".into()) }, true);
        }
    }
    prog_case(em, 301, mode, &ps, &data, move |obs| {
        if obs.first() == Some(&3) { return Oracle::Fail("panic".into()) }
        let (rlog, used) = ref_script(&c2, &sc);
        if used != c2.len() {
            // the script returned success without consuming the whole content: the enclosing read must fail
            return if obs == [1] { Oracle::Pass } else { Oracle::Fail("partial-read-accepted".into()) }
        }
        if obs.first() != Some(&0) { return Oracle::Fail("complete-read-rejected".into()) }
        // expected log: prefix values, 1 + tag + script log (+ captured octets), following values read conventionally
        let mut w: Vec<i128> = vec![0, 0];
        if ctx != Ctx::Top { w.extend_from_slice(&[1, 1, 0x30]); }
        let enc1 = |n: &Node| -> RTlv { let e = encode_forest(&[n.clone()], mode, &mut None); ref_parse_seq(mode, &e, Ctx::Top, 0).unwrap().0.remove(0) };
        for n in &before2 { w.push(1); crate::c09::push_generic(&enc1(n), &mut w); }
        w.extend_from_slice(&[1, 1, 4]); w.extend(rlog);
        if captured { let e = encode_forest(&[Node::Prim { cls: 0, num: 4, content: c2.clone() }], mode, &mut None); w.push(e.len() as i128); for b in &e { w.push(*b as i128); } }
        let rest: Vec<RTlv> = after2.iter().map(enc1).collect();
        w.extend(rtlvs_to_log(&rest));
        if obs == w.as_slice() { Oracle::Pass } else { Oracle::Fail("window-observation-differs-from-plain-window".into()) }
    }, true);
}

pub fn run(em: &mut Emitter, rng: &mut Rng, thorough: bool) {
    let ctxs = [Ctx::Top, Ctx::Definite, Ctx::Indefinite];
    // exhaustive short scripts over a small alphabet on a 3-octet value followed by a sibling
    let sib = vec![Node::Prim { cls: 0, num: 2, content: vec![0x77] }];
    let alpha: Vec<Sop> = vec![Sop::Request(1), Sop::Request(2), Sop::Request(4), Sop::Slice, Sop::Bytes(0, 2), Sop::Advance(1), Sop::Advance(3),
        Sop::Skip(2), Sop::Skip(5), Sop::TakeU8, Sop::TakeOptU8, Sop::TakeAll, Sop::SkipAll, Sop::SliceAll, Sop::WithSliceAll, Sop::Remaining];
    let maxlen = if thorough { 4 } else { 3 };
    let mut idx: Vec<usize> = vec![];
    loop {
        let sc: Vec<Sop> = idx.iter().map(|&i| alpha[i].clone()).collect();
        let mode = (idx.iter().sum::<usize>() % 3) as u8;
        let ctx = ctxs[idx.len() % 3];
        if ctx_ok(mode, ctx) { script_case(em, mode, ctx, &[], &[0xa1, 0xa2, 0xa3], &sib, sc, false); }
        // next
        let mut k = 0;
        loop {
            if k == idx.len() { idx.push(0); if idx.len() > maxlen { idx.clear(); } break }
            idx[k] += 1; if idx[k] < alpha.len() { break } idx[k] = 0; k += 1;
        }
        if idx.is_empty() { break }
    }
    // random scripts, lengths around the content size, every position and context, also inside a capture
    for _ in 0..(if thorough { 200_000 } else { 25_000 }) {
        let mode = rng.below(3) as u8;
        let ctx = *rng.pick(&ctxs);
        if !ctx_ok(mode, ctx) { continue }
        let l = match rng.below(5) { 0 => 0, 1 => 1, 2 => rng.range(2, 8) as usize, 3 => rng.range(120, 135) as usize, _ => rng.range(2, 20) as usize };
        let content = rng.bytes(l);
        let mut budget = 4;
        let before: Vec<Node> = (0..rng.below(3)).map(|_| random_node(rng, mode, 1, &mut budget)).collect();
        let after: Vec<Node> = (0..rng.below(3)).map(|_| random_node(rng, mode, 1, &mut budget)).collect();
        let n = rng.range(1, 12) as usize;
        let mut sc: Vec<Sop> = (0..n).map(|_| random_sop(rng, l)).collect();
        if rng.chance(2, 3) { sc.push(rng.pick(&[Sop::TakeAll, Sop::SkipAll, Sop::WithSliceAll]).clone()); }
        script_case(em, mode, ctx, &before, &content, &after, sc, rng.chance(1, 4));
    }
}
