(* Correspondence driver: reads case lines produced by the Rust harness,
   recomputes each observation with the extracted Coq model and reports every
   difference.

   line := sid '|' args '|' obs '|' oracle '|' nt
   args := list of integer lists, ';' separated, integers ' ' separated
   obs  := integers ' ' separated  (the implementation's observation)
   oracle := '1' (direct property oracle passed), '0' + ':' + tag (failed), '-' (none)
   nt   := '1' if the harness classified the case as non-trivial

   usage: driver OUT.json [--flip sid]   (reads stdin)
   --flip makes the driver deliberately corrupt the model answer of stream sid
   (self-test: the difference must be reported). *)

open Model

let rec pos_of_int (n : int) : positive =
  if n = 1 then XH
  else if n land 1 = 0 then XO (pos_of_int (n lsr 1))
  else XI (pos_of_int (n lsr 1))
let n_of_int (n : int) : n = if n = 0 then N0 else Npos (pos_of_int n)
let z_of_int (n : int) : z =
  if n = 0 then Z0 else if n > 0 then Zpos (pos_of_int n) else Zneg (pos_of_int (-n))

(* arbitrary-size decimal strings <-> Z, without any bignum library:
   we go through lists of base-10^k limbs only for values beyond 62 bits *)
let rec pos_to_string_big (p : positive) : int list =
  (* little-endian base 10^9 limbs *)
  let dbl carry l =
    let rec go c = function
      | [] -> if c = 0 then [] else [c]
      | x :: r -> let v = 2 * x + c in (v mod 1000000000) :: go (v / 1000000000) r
    in go carry l in
  match p with
  | XH -> [1]
  | XO q -> dbl 0 (pos_to_string_big q)
  | XI q -> dbl 1 (pos_to_string_big q)
let limbs_to_string (l : int list) : string =
  match List.rev l with
  | [] -> "0"
  | hd :: tl -> String.concat "" (string_of_int hd :: List.map (Printf.sprintf "%09d") tl)
let z_to_string (z : z) : string =
  match z with
  | Z0 -> "0"
  | Zpos p -> limbs_to_string (pos_to_string_big p)
  | Zneg p -> "-" ^ limbs_to_string (pos_to_string_big p)

(* decimal string -> Z for arbitrary size: repeated halving of a limb list *)
let z_of_string (s : string) : z =
  let neg = String.length s > 0 && s.[0] = '-' in
  let s = if neg then String.sub s 1 (String.length s - 1) else s in
  if String.length s <= 18 then
    let v = int_of_string s in z_of_int (if neg then -v else v)
  else begin
    (* big-endian base 10^9 limbs *)
    let n = String.length s in
    let first = n mod 9 in
    let limbs = ref [] in
    if first > 0 then limbs := [int_of_string (String.sub s 0 first)];
    let i = ref first in
    while !i < n do
      limbs := int_of_string (String.sub s !i 9) :: !limbs; i := !i + 9
    done;
    let be = ref (List.rev !limbs) in
    let is_zero l = List.for_all (fun x -> x = 0) l in
    (* divide big-endian limb list by 2, return (quotient, remainder) *)
    let half l =
      let rem = ref 0 in
      let q = List.map (fun x -> let v = !rem * 1000000000 + x in rem := v land 1; v lsr 1) l in
      (q, !rem) in
    let bits = ref [] in
    while not (is_zero !be) do
      let (q, r) = half !be in bits := r :: !bits; be := q
    done;
    (* bits is most-significant first *)
    match !bits with
    | [] -> Z0
    | _ :: rest ->
      let p = List.fold_left (fun acc b -> if b = 1 then XI acc else XO acc) XH rest in
      if neg then Zneg p else Zpos p
  end

let split_on c s = if s = "" then [] else String.split_on_char c s
let parse_ints (s : string) : z list =
  List.filter_map (fun t -> if t = "" then None else Some (z_of_string t)) (split_on ' ' s)
let parse_args (s : string) : z list list =
  List.map parse_ints (String.split_on_char ';' s)

type st = {
  mutable n : int; mutable mism : int; mutable orfail : int; mutable oreval : int;
  mutable nt : int; kinds : (string, int) Hashtbl.t;
  mutable samples : string list; mutable mis_lines : string list;
  mutable or_lines : string list;
  or_tags : (string, int * string) Hashtbl.t;
}
let streams : (string, st) Hashtbl.t = Hashtbl.create 16
let get_st sid =
  match Hashtbl.find_opt streams sid with
  | Some s -> s
  | None ->
    let s = { n = 0; mism = 0; orfail = 0; oreval = 0; nt = 0; kinds = Hashtbl.create 8;
              samples = []; mis_lines = []; or_lines = []; or_tags = Hashtbl.create 8 } in
    Hashtbl.add streams sid s; s

let seen : (int * int, unit) Hashtbl.t = Hashtbl.create 100000
let fnv (s : string) : int =
  let h = ref 0x3bf29ce484222325 in
  String.iter (fun c -> h := (!h lxor Char.code c) * 0x100000001b3) s; !h

let json_escape s =
  let b = Buffer.create (String.length s + 8) in
  String.iter (fun c -> match c with
    | '"' -> Buffer.add_string b "\\\"" | '\\' -> Buffer.add_string b "\\\\"
    | '\n' -> Buffer.add_string b "\\n" | '\t' -> Buffer.add_string b "\\t"
    | c when Char.code c < 32 -> Buffer.add_string b (Printf.sprintf "\\u%04x" (Char.code c))
    | c -> Buffer.add_char b c) s;
  Buffer.contents b

let () =
  let out = Sys.argv.(1) in
  let flip = if Array.length Sys.argv > 3 && Sys.argv.(2) = "--flip" then Sys.argv.(3) else "" in
  let total = ref 0 in
  let bad_lines = ref 0 in
  (try
    while true do
      let line = input_line stdin in
      if String.length line > 0 && line.[0] <> '#' then begin
        match String.split_on_char '|' line with
        | [sid; args; obs; oracle; nt] ->
          incr total;
          let s = get_st sid in
          s.n <- s.n + 1;
          let model_obs =
            try
              let r = run_stream (n_of_int (int_of_string sid)) (parse_args args) in
              let r = if sid = flip then (match r with [] -> [z_of_int 1] | _ :: t -> t) else r in
              String.concat " " (List.map z_to_string r)
            with Stack_overflow -> "model-stack-overflow"
               | Failure m -> "model-failure:" ^ m in
          let impl_obs = String.trim obs in
          if model_obs <> impl_obs then begin
            s.mism <- s.mism + 1;
            if List.length s.mis_lines < 20 then
              s.mis_lines <- (line ^ "|model=" ^ model_obs) :: s.mis_lines
          end;
          (match oracle with
           | "-" -> ()
           | "1" -> s.oreval <- s.oreval + 1
           | _ -> s.oreval <- s.oreval + 1; s.orfail <- s.orfail + 1;
                  (match Hashtbl.find_opt s.or_tags oracle with
                   | Some (n, ex) -> Hashtbl.replace s.or_tags oracle (n + 1, ex)
                   | None -> Hashtbl.replace s.or_tags oracle (1, line));
                  if List.length s.or_lines < 20 then s.or_lines <- line :: s.or_lines);
          let kind = match split_on ' ' impl_obs with k :: _ -> k | [] -> "" in
          Hashtbl.replace s.kinds kind (1 + (try Hashtbl.find s.kinds kind with Not_found -> 0));
          if nt = "1" then begin
            let key = (Hashtbl.hash (sid ^ "|" ^ args), fnv (sid ^ "|" ^ args)) in
            if not (Hashtbl.mem seen key) then begin
              Hashtbl.add seen key (); s.nt <- s.nt + 1
            end
          end;
          if List.length s.samples < 3 then s.samples <- line :: s.samples
        | _ -> incr bad_lines
      end
    done
  with End_of_file -> ());
  let oc = open_out out in
  Printf.fprintf oc "{\"total\": %d, \"bad_lines\": %d, \"streams\": {" !total !bad_lines;
  let first = ref true in
  Hashtbl.iter (fun sid s ->
    if not !first then output_string oc ", ";
    first := false;
    let kinds = String.concat ", " (Hashtbl.fold (fun k v acc ->
      Printf.sprintf "\"%s\": %d" (json_escape k) v :: acc) s.kinds []) in
    let strs l = String.concat ", " (List.map (fun x -> "\"" ^ json_escape x ^ "\"") (List.rev l)) in
    Printf.fprintf oc
      "\"%s\": {\"n\": %d, \"mismatches\": %d, \"oracle_evaluations\": %d, \"oracle_failures\": %d, \"distinct_nontrivial\": %d, \"kinds\": {%s}, \"samples\": [%s], \"mismatch_lines\": [%s], \"oracle_fail_lines\": [%s], \"oracle_fail_tags\": {%s}}"
      (json_escape sid) s.n s.mism s.oreval s.orfail s.nt kinds (strs s.samples) (strs s.mis_lines) (strs s.or_lines)
      (String.concat ", " (Hashtbl.fold (fun tag (n, ex) acc ->
         Printf.sprintf "\"%s\": {\"n\": %d, \"example\": \"%s\"}" (json_escape tag) n (json_escape ex) :: acc) s.or_tags []))
  ) streams;
  output_string oc "}}\n";
  close_out oc
