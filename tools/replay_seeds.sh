#!/bin/bash
# usage: tools/replay_seeds.sh [Snn ...]  -- regression over the stored seeded changes: applies each to
# /repo's working tree, runs the quick check of the FIRST property listed in caught_by, undoes it, and
# reports whether the check still raises a violation. Development aid (sequential: it patches /repo).
cd /verif
sel="$@"
for d in seeded/S*/; do
  id=$(basename $d | cut -d- -f1)
  if [ -n "$sel" ] && ! echo " $sel " | grep -q " $id "; then continue; fi
  case $id in R*) continue;; esac
  props=$(python3 -c "import json;print(' '.join(json.load(open('$d/meta.json'))['caught_by']))")
  [ -n "$FIRST_ONLY" ] && props=$(echo $props | cut -d' ' -f1)
  git -C /repo apply /verif/$d/patch.diff 2>/dev/null || { echo "$id: PATCH DOES NOT APPLY"; continue; }
  res=""
  for p in $props; do
    if timeout 1500 ./check $p --tier quick 2>&1 | grep -q "^VIOLATION"; then res="$res $p:caught"; else res="$res $p:MISSED"; fi
  done
  git -C /repo checkout -- .
  echo "$id:$res"
done
git -C /repo status --short
