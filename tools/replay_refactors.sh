#!/bin/bash
# usage: tools/replay_refactors.sh -- re-applies every stored behaviour-preserving refactoring (seeded/R*) and
# confirms that all twenty quick checks stay quiet. Development aid (sequential: it patches /repo; ~7 min each).
cd /verif
for d in seeded/R*/; do echo "##### $(basename $d)"; tools/refactor_test.sh /verif/$d/patch.diff | grep -v "quiet$"; done
git -C /repo status --short
