#!/bin/bash
# usage: tools/seed_test.sh <patch.diff> <property>...  -- applies a seeded change to /repo's working tree,
# runs the quick checks, undoes it. Development aid.
patch=$1; shift
git -C /repo apply "$patch" || exit 2
for p in "$@"; do (cd /verif && timeout 1500 ./check $p --tier quick 2>&1 | grep -E "^check|VIOLATION|KNOWN|proof problem|run error" | cut -c1-220 | head -6); done
git -C /repo checkout -- .
git -C /repo status --short
