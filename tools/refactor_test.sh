#!/bin/bash
# usage: tools/refactor_test.sh <abs patch.diff> [Cnn ...] -- applies a behaviour-preserving change to /repo's
# working tree, runs the quick checks (all twenty by default), prints every check that reports a violation
# with its summary line, undoes the change. Development aid for false alarms (sequential: it patches /repo).
patch=$1; shift
props="$@"; [ -z "$props" ] && props="C01 C02 C03 C04 C05 C06 C07 C08 C09 C10 C11 C12 C13 C14 C15 C16 C17 C18 C19 C20"
git -C /repo apply "$patch" || exit 2
(cd /repo && CARGO_NET_OFFLINE=true cargo test --offline 2>&1 | grep -E "^test result|FAILED|panicked" | head -5)
for p in $props; do
  out=$(cd /verif && timeout 1500 ./check $p --tier quick 2>&1)
  if echo "$out" | grep -q "^VIOLATION"; then echo "$out" | grep -E "^check|^VIOLATION" | sort | uniq -c | sort -rn | head -4; else echo "$p quiet"; fi
done
git -C /repo checkout -- .
git -C /repo status --short
