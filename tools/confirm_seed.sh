#!/bin/bash
# usage: tools/confirm_seed.sh <worktree> ; confirms a seeded change in a scratch worktree:
#  - patch.diff applies to a clean checkout and is the only src change
#  - the existing suite (lib, bins, doc) passes with it
#  - tests/seeded_demo.rs fails with it and passes without it
wt=$1
cd $wt || exit 2
export CARGO_NET_OFFLINE=true
git diff -- src > /tmp/confirm.$$.diff
if ! diff -q /tmp/confirm.$$.diff patch.diff >/dev/null; then echo "NOTE: patch.diff differs from current src diff; using current diff"; cp /tmp/confirm.$$.diff patch.diff; fi
echo "--- files touched: $(git diff --stat -- src | tail -1)"
mv tests/seeded_demo.rs /tmp/seeded_demo.$$.rs
s1=$(cargo test --offline --lib --bins 2>&1 | grep -E "^test result" | head -1)
s2=$(cargo test --offline --doc 2>&1 | grep -E "^test result" | head -1)
echo "suite with change: lib/bins: $s1 | doc: $s2"
mv /tmp/seeded_demo.$$.rs tests/seeded_demo.rs
d1=$(cargo test --offline --test seeded_demo 2>&1 | grep -E "^test result" | head -1)
echo "demo with change: $d1"
git apply -R patch.diff
d2=$(cargo test --offline --test seeded_demo 2>&1 | grep -E "^test result" | head -1)
echo "demo without change: $d2"
git apply patch.diff
rm -f /tmp/confirm.$$.diff
