#!/bin/bash
# usage: tools/revert_test.sh <repo-commit> <property>...   -- reverts a fix: commit in /repo's working tree,
# runs the quick checks, restores the tree. Development aid (mutation self-test).
c=$1; shift
git -C /repo diff $c~1 $c > /tmp/revert.$$.diff
git -C /repo apply -R /tmp/revert.$$.diff || exit 2
for p in "$@"; do (cd /verif && ./check $p --tier quick 2>&1 | grep -E "^check|VIOLATION|KNOWN" | head -4); done
git -C /repo checkout -- .
rm -f /tmp/revert.$$.diff
git -C /repo status --short
