#!/usr/bin/env python3
"""Regenerates MANIFEST.json from props.json (single source of per-property metadata)."""
import json, os
V = os.path.dirname(os.path.abspath(__file__))
props = json.load(open(os.path.join(V, "props.json")))
allp = [json.loads(l)["id"] for l in open(os.path.join(V, "properties.jsonl"))]
checks, na = [], []
for pid in allp:
    p = props.get(pid, {})
    if p.get("built"):
        checks.append({
            "property_id": pid,
            "quick_cmd": "./check %s --tier quick" % pid,
            "thorough_cmd": "./check %s --tier thorough" % pid,
            "evidence_file": "evidence/%s.json" % pid,
            "replay_cmd_template": "./check %s --replay {path}" % pid,
            "engine": "coq-model-correspondence",
            "level_claimed": {"category": "proof", "text": p.get("level_text", p.get("explanation", "")),
                              "design_ref": "DESIGN.md section 5, " + pid},
            "level_note": p.get("level_note", "Trusted: Coq 8.16.1 kernel; no axioms; extraction (ExtrOcamlBasic only) + ocamlopt; OCaml driver and Rust harness; the model is hand-written and tied to /repo by the correspondence streams run on every check. " + " ".join(p.get("assumptions", []))),
            "technique": p.get("technique", "Coq theorems on a hand-written Gallina model + extracted-model/implementation correspondence check"),
        })
    else:
        na.append({"property_id": pid, "reason": p.get("na_reason", "check not built yet at this commit (model and theorems under construction; see DESIGN.md section 5 for the plan)")})
man = {
    "version": 1,
    "setup_cmd": "./check --setup",
    "hooks": {"guard": "bcder_verif", "enable": "no source hooks are needed: every observation goes through bcder's public API (RUSTFLAGS=\"--cfg bcder_verif\" is reserved and unused)",
              "baseline_off_cmd": "cd /repo && cargo test --workspace --no-fail-fast --offline",
              "source_commits": [], "add_only": True},
    "engines": [{"name": "coq-model-correspondence", "path": "check",
                 "serves_properties": [c["property_id"] for c in checks],
                 "kind_free_text": "Coq 8.16.1 proofs about a hand-written Gallina model (coq/Model, coq/Proofs, coq/Props) + differential correspondence between the extracted model (OCaml) and the real crate built from /repo (Rust harness), with model-free direct oracles to turn a difference into a failing input"}],
    "checks": checks,
    "not_applicable": na,
    "notes": "See DESIGN.md. known_findings.txt lists genuine defects: 'fixed:' entries were repaired by fix: commits in /repo, 'known:' entries are reported as KNOWN-FINDING.",
}
json.dump(man, open(os.path.join(V, "MANIFEST.json"), "w"), indent=1)
print("MANIFEST.json: %d checks, %d not_applicable" % (len(checks), len(na)))
