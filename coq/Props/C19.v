(* C19 - Bit strings expose exactly the encoded bits.
   Statements only; every proof is `exact <lemma>` from Proofs/BitStrP.v.
   (The constructed form is rejected by a constant error branch of
   from_content/skip_content; it is covered by the c19.decode stream.) *)
Require Import BV.Model.Base BV.Model.SrcB BV.Model.Int BV.Model.BitStr.
Require Import BV.Proofs.BitStrP.

(* a primitive BIT STRING content is accepted exactly when its first octet is
   at most 7 and is zero if no data octets follow (and, in CER, the content is
   at most 1000 octets long) *)
Theorem C19_acceptance : forall m c,
  prim_decode (bit_from_prim m) c =
    match c with
    | [] => CErr
    | u :: bits =>
        if (mode_eqb m Cer && (1000 <? len c)) || (7 <? u) || ((len bits =? 0) && (0 <? u))
        then CErr else Ok (u, bits)
    end.
Proof. exact bit_from_prim_spec. Qed.

(* skipping accepts exactly the same encodings *)
Theorem C19_skip_same : forall m c,
  prim_decode (bit_skip_prim m) c = res_map (fun _ => tt) (bit_decode_spec m c).
Proof. exact bit_skip_prim_spec. Qed.

(* the octet views return the data octets unchanged, re-encoding reproduces
   the content, and accepted values satisfy the validity invariant *)
Theorem C19_views_reencode : forall m c v, prim_decode (bit_from_prim m) c = Ok v ->
  bs_valid v /\ bs_write v = c /\ bs_octets v = tl c /\ bs_unused v = hd 0 c.
Proof. exact bit_accepted_valid. Qed.

(* bit i is the i-th bit in most-significant-first order for every i below the
   bit length and false for every i at or beyond it, for every index i
   (any size), whatever the unused trailing bits contain *)
Theorem C19_bit : forall v i, bs_valid v ->
  bs_bit v i = nth (N.to_nat i) (bits_of v) false.
Proof. exact bs_bit_spec. Qed.

(* bit length = 8 * data octets - unused = number of encoded bits *)
Theorem C19_bit_len : forall v, bs_valid v -> bs_bit_len v = len (bits_of v).
Proof. exact bs_bit_len_spec. Qed.

(* the converse direction: whatever a valid value writes is accepted again and
   decodes to that very value (in CER provided the content is within the
   1000-octet limit; beyond it CER refuses the value's own encoding) *)
Theorem C19_write_then_decode : forall m v, bs_valid v ->
  (mode_eqb m Cer && (1000 <? len (bs_write v))) = false ->
  prim_decode (bit_from_prim m) (bs_write v) = Ok v.
Proof. exact bit_write_decode. Qed.

Theorem C19_write_then_decode_cer_long : forall v, bs_valid v -> 1000 < len (bs_write v) ->
  prim_decode (bit_from_prim Cer) (bs_write v) = CErr.
Proof. exact bit_write_decode_cer_long. Qed.

(* BitString::new yields a value exactly for valid arguments (the documented
   assertion fires on all others), so every constructed value is valid *)
Theorem C19_new : forall unused bits,
  (bs_valid (unused, bits) -> bit_new unused bits = Ok (unused, bits)) /\
  (~ bs_valid (unused, bits) -> bit_new unused bits = Panic).
Proof. exact bit_new_spec. Qed.

Example C19_ex_padding_ignored :
  bs_bit (4, [255]) 3 = true /\ bs_bit (4, [255]) 4 = false /\ bs_bit_len (4, [255]) = 4.
Proof. repeat split. Qed.
Example C19_ex_valid : bs_valid (4, [255]). Proof. split; [cbv; discriminate|discriminate]. Qed.

Print Assumptions C19_acceptance.
Print Assumptions C19_skip_same.
Print Assumptions C19_views_reencode.
Print Assumptions C19_bit.
Print Assumptions C19_bit_len.
Print Assumptions C19_write_then_decode.
Print Assumptions C19_write_then_decode_cer_long.
Print Assumptions C19_new.
