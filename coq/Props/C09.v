(* C09 - Optional and tag-selective reads consume nothing when the value is absent.
   Statements only; every proof is `exact <lemma>` from Proofs/ContentP.v / TagP.v.
   process_next_value is the single routine behind all twelve accessor shapes
   (take[_opt]_{value,primitive,constructed}[_if], sequence/set and the typed
   take_opt_* forms); `op` is the caller's closure and is universally
   quantified; `nf s` says the source is not scheduled to fail. *)
Require Import BV.Model.Base BV.Model.SrcB BV.Model.Length BV.Model.Tag BV.Model.Content.
Require Import BV.Proofs.SrcBP BV.Proofs.TagP BV.Proofs.ContentP.

(* Whenever a read reports absence - with or without an expected tag, in any
   context, under any limit - it has consumed nothing, except that in an
   indefinite-length value it may have consumed exactly the end-of-contents
   marker that closes the value (the state then becomes Done). *)
Theorem C09_absent_consumes_nothing :
  forall T c exp (op : tag -> content -> M (T * content)) s c' s',
  nf s -> process_next_value c exp op s = (Ok (None, c'), s') ->
  (s' = s /\ c' = c) \/
  (cst c = Indefinite /\ c' = with_state c Done /\
   match exp with
   | None => eoc_consumed (cmd c) s s'
   | Some e => e = END_OF_VALUE /\
               exists s1, tag_take_from_if e s = (Ok (Some false), s1) /\
                          length_take_from (cmd c) s1 = (Ok (Definite_ 0), s')
   end).
Proof. exact @absent_consumes_nothing. Qed.

(* When a tag is expected and the next identifier is a different tag, the read
   reports absence and the state is unchanged: the same position can then be
   read under another expectation. *)
Theorem C09_mismatch_is_absent :
  forall T c e (op : tag -> content -> M (T * content)) s t k n,
  nf s -> fst (is_exhausted c s) = Ok false ->
  peek_tag (visible s) = Some (Some (t, k, n)) -> tag_eqb t e = false ->
  process_next_value c (Some e) op s = (Ok (None, c), s).
Proof. exact @tagged_mismatch_is_absent. Qed.

(* conditional identifier read: anything but a match leaves the source
   untouched, under any limit *)
Theorem C09_take_from_if_untouched : forall e s r s', flt s = None ->
  tag_take_from_if e s = (r, s') -> (forall c, r <> Ok (Some c)) -> s' = s /\ (r = Ok None \/ r = CErr).
Proof. exact tag_take_from_if_untouched_gen. Qed.

(* at the top level the end of the input is the end of the values *)
Theorem C09_top_level_end : forall T m (op : tag -> content -> M (T * content)),
  process_next_value (mkCons Unbounded m) None op (pure_src [] None)
  = (Ok (None, mkCons Unbounded m), pure_src [] None).
Proof. exact @top_level_end_is_absent. Qed.

(* the mandatory variants turn absence into an error and pass presence through *)
Theorem C09_mandatory_absent : forall T (m : M (option T * cons)) s c s',
  m s = (Ok (None, c), s') -> mandatory m s = (CErr, s').
Proof. exact @mandatory_absent_is_error. Qed.
Theorem C09_mandatory_present : forall T (m : M (option T * cons)) s v c s',
  m s = (Ok (Some v, c), s') -> mandatory m s = (Ok (v, c), s').
Proof. exact @mandatory_present. Qed.

(* non-vacuity: a tagged optional read on a different tag inside a definite value *)
Example C09_ex :
  process_next_value (mkCons Definite Der) (Some T_BOOLEAN)
     (fun _ ct => ret (tt, ct)) (mkSrc [2; 1; 5] (Some 3) None)
  = (Ok (None, mkCons Definite Der), mkSrc [2; 1; 5] (Some 3) None).
Proof. vm_compute. reflexivity. Qed.

Print Assumptions C09_absent_consumes_nothing.
Print Assumptions C09_mismatch_is_absent.
Print Assumptions C09_take_from_if_untouched.
Print Assumptions C09_top_level_end.
Print Assumptions C09_mandatory_absent.
Print Assumptions C09_mandatory_present.
