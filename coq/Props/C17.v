(* C17 - String comparison and hashing depend on content only, not on segmentation.
   Statements only; every proof is `exact <lemma>` from Proofs/OctStrP.v.
   os_octets o = Ok c : the octet iterator of o yields the content c (for every
   accepted value; see C16).  RestrictedString delegates ==, cmp and hash to
   its OctetString. *)
Require Import BV.Model.Base BV.Model.SrcB BV.Model.Content BV.Model.OctStr.
Require Import BV.Proofs.OctStrP.

(* between two strings: == iff contents equal, ordering lexicographic on the
   contents, equal contents feed identical octets to the hasher - whatever
   the segmentation of either side *)
Theorem C17_string_string : forall a b ca cb,
  os_octets a = Ok ca -> os_octets b = Ok cb ->
  os_eq a b = Ok (list_eqb ca cb) /\ os_cmp a b = Ok (lexc ca cb) /\
  (ca = cb -> os_hash_input a = os_hash_input b).
Proof. exact os_compare_content. Qed.

(* between a string and a plain byte slice: the segment loop of the
   implementation decides equality with the concatenation *)
Theorem C17_string_slice : forall a ca sl,
  os_octets a = Ok ca ->
  os_eq_slice a sl = Ok (list_eqb ca sl) /\ os_cmp_slice a sl = Ok (lexc ca sl).
Proof. exact os_compare_slice. Qed.

Theorem C17_slice_loop : forall segs other,
  eq_slice_loop segs other = list_eqb (concat segs) other.
Proof. exact eq_slice_loop_spec. Qed.

(* lexc is a genuine lexicographic order: Eq exactly on equal sequences, antisymmetric *)
Theorem C17_order_eq : forall a b, lexc a b = Eq <-> a = b.
Proof. exact lexc_eq. Qed.
Theorem C17_order_antisym : forall a b, lexc b a = CompOpp (lexc a b).
Proof. exact lexc_antisym. Qed.

Example C17_ex : os_eq (OCons [4;1;97; 4;0; 4;1;98]) (OPrim [97;98]) = Ok true
  /\ os_cmp (OCons [4;1;97; 4;0; 4;1;98]) (OPrim [97;98]) = Ok Eq
  /\ os_eq_slice (OCons [4;1;97; 4;1;98]) [97] = Ok false.
Proof. repeat split; vm_compute; reflexivity. Qed.

Print Assumptions C17_string_string.
Print Assumptions C17_string_slice.
Print Assumptions C17_slice_loop.
Print Assumptions C17_order_eq.
Print Assumptions C17_order_antisym.
