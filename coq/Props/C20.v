(* C20 - Object identifiers round-trip between text, arcs and encoding.
   Statements only; every proof is `exact <lemma>` from Proofs/OidP.v.
   Text is the list of its UTF-8 octets. *)
Require Import BV.Model.Base BV.Model.SrcB BV.Model.Int BV.Model.Oid.
Require Import BV.Proofs.OidP.

(* content accepted (taking and skipping alike) exactly when it is non-empty
   and its last octet ends a sub-identifier *)
Theorem C20_take : forall c, octets_ok c = true ->
  prim_decode oid_from_prim c = if oid_ok c then Ok c else CErr.
Proof. exact oid_from_prim_spec. Qed.
Theorem C20_skip : forall c, octets_ok c = true ->
  prim_decode oid_skip_prim c = if oid_ok c then Ok tt else CErr.
Proof. exact oid_skip_prim_spec. Qed.
(* match-and-skip is by content octets *)
Theorem C20_skip_if : forall self c,
  prim_decode (oid_skip_if self) c = if list_eqb c self then Ok tt else CErr.
Proof. exact oid_skip_if_spec. Qed.

(* parsing text yields octets or an error - never a panic - for every string *)
Theorem C20_from_str_total : forall s,
  (exists c, oid_from_str s = Ok c) \/ oid_from_str s = CErr.
Proof. exact oid_from_str_total. Qed.

(* what it yields is the X.690 encoding of the arcs written in the text, and
   those arcs satisfy the X.690 constraints *)
Theorem C20_from_str_encodes : forall s c, oid_from_str s = Ok c ->
  exists a b rest f sd tl,
    split_dot [] s = f :: sd :: tl /\ parse_u32 f = Some a /\ parse_u32 sd = Some b /\
    parse_all tl = Some rest /\ arcs_ok a b rest /\ c = oid_enc a b rest.
Proof. exact oid_from_str_encodes. Qed.

(* for every identifier whose sub-identifiers fit in 32 bits the component
   iterator, numeric conversion and display return exactly those arcs *)
Theorem C20_arcs_roundtrip : forall a b rest, arcs_ok a b rest ->
  oid_display (oid_enc a b rest) = Ok (Some a :: Some b :: map Some rest).
Proof. exact oid_display_roundtrip. Qed.

(* so displaying a parsed identifier gives back its arcs *)
Theorem C20_parse_display : forall s c, oid_from_str s = Ok c ->
  exists a b rest, c = oid_enc a b rest /\ oid_display c = Ok (Some a :: Some b :: map Some rest).
Proof. exact oid_parse_display. Qed.

(* whatever the encoder of arcs writes - hence whatever parsing text yields -
   meets the acceptance rule of taking and skipping (non-empty, last octet
   ends a sub-identifier), for arcs of any size *)
Theorem C20_encoded_arcs_accepted : forall a b rest, oid_ok (oid_enc a b rest) = true.
Proof. exact oid_enc_ok. Qed.

(* larger arcs are reported as too large rather than as a wrong number *)
Theorem C20_too_large : forall n pos, 4294967296 <= n < 34359738368 ->
  comp_to_u32 (pos, [n / 268435456 + 128; (n / 2097152) mod 128 + 128; (n / 16384) mod 128 + 128;
                     (n / 128) mod 128 + 128; n mod 128]) = None.
Proof. exact comp_too_large. Qed.

Example C20_ex : oid_from_str [49; 46; 50; 46; 56; 52; 48] = Ok [42; 134; 72]
  /\ oid_display [42; 134; 72] = Ok [Some 1; Some 2; Some 840].
Proof. split; vm_compute; reflexivity. Qed.
Example C20_ex_overflow : oid_from_str [50;46;52;50;57;52;57;54;55;50;57;53] = CErr.
Proof. vm_compute. reflexivity. Qed.
Example C20_ex_arcs_ok : arcs_ok 1 2 [33554432].
Proof.
  unfold arcs_ok. split; [discriminate|]. split; [intros _; reflexivity|]. split; [reflexivity|].
  constructor; [reflexivity|constructor].
Qed.

Print Assumptions C20_take.
Print Assumptions C20_skip.
Print Assumptions C20_skip_if.
Print Assumptions C20_from_str_total.
Print Assumptions C20_from_str_encodes.
Print Assumptions C20_arcs_roundtrip.
Print Assumptions C20_parse_display.
Print Assumptions C20_too_large.
Print Assumptions C20_encoded_arcs_accepted.
