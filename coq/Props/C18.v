(* C18 - A restricted character string only ever holds characters of its character set.
   Statements only; every proof is `exact <lemma>` from Proofs/OctStrP.v.
   All constructors funnel into the same check (rs_new for decoding and
   new(OctetString); rs_from_str for from_string/FromStr). *)
Require Import BV.Model.Base BV.Model.SrcB BV.Model.Content BV.Model.OctStr.
Require Import BV.Proofs.OctStrP.

(* NumericString / PrintableString / IA5String: accepted exactly when every
   octet is in the set; the characters are then exactly the octets *)
Theorem C18_ascii_sets_exact : forall cs s, cs <> Utf8 ->
  let ok := match cs with Numeric => numeric_ok | Printable => printable_ok | _ => ia5_ok end in
  cs_check cs s = forallb ok s /\
  (cs_check cs s = true -> chars_of (S (length s)) cs s = Some s).
Proof. exact ascii_sets_exact. Qed.

(* UTF8String: each decoding step that succeeds yields a Unicode scalar value
   (never a surrogate, never above U+10FFFF) and consumes at least one octet *)
Theorem C18_utf8_step_scalar : forall s ch r, octets_ok s = true ->
  next_char Utf8 s = Some (Some (ch, r)) -> is_scalar ch = true /\ len r < len s.
Proof. exact utf8_step_scalar. Qed.

(* for all four sets, every character an accepted string yields is a valid
   character value: the precondition of char::from_u32_unchecked holds *)
Theorem C18_chars_are_scalars : forall cs fuel s l, octets_ok s = true ->
  chars_of fuel cs s = Some l -> forallb is_scalar l = true.
Proof. exact chars_are_scalars. Qed.

(* iterating or displaying an accepted string never panics, whichever
   constructor created it *)
Theorem C18_accepted_iterates : forall cs o o', rs_new cs o = Ok o' ->
  exists l, rs_chars cs o' = Ok l.
Proof. exact accepted_string_iterates. Qed.
Theorem C18_from_str_iterates : forall cs u o, rs_from_str cs u = Ok o -> cs <> Utf8 ->
  exists l, rs_chars cs o = Ok l.
Proof. exact from_str_string_iterates. Qed.

(* RFC 3629 examples: overlong, stray continuation, surrogate, > U+10FFFF are
   rejected; a 4-octet character is decoded; the table predicate agrees *)
Example C18_ex_rejects :
  cs_check Utf8 [192; 128] = false /\ cs_check Utf8 [194; 197] = false /\
  cs_check Utf8 [237; 160; 128] = false /\ cs_check Utf8 [247; 191; 191; 191] = false /\
  wf_utf8 5 [237; 160; 128] = false.
Proof. repeat split; vm_compute; reflexivity. Qed.
Example C18_ex_accepts : chars_of 9 Utf8 [240; 159; 152; 128; 195; 169] = Some [128512; 233]
  /\ wf_utf8 9 [240; 159; 152; 128; 195; 169] = true.
Proof. split; vm_compute; reflexivity. Qed.

Print Assumptions C18_ascii_sets_exact.
Print Assumptions C18_utf8_step_scalar.
Print Assumptions C18_chars_are_scalars.
Print Assumptions C18_accepted_iterates.
Print Assumptions C18_from_str_iterates.
