(* C08 - Source failures surface as that source error, never as success or content error.
   Statements only; every proof is `exact <lemma>` from Proofs/FaultP.v.

   The underlying source fails at its (k+1)-th request (flt = Some k). Faulty m:
   on a source that never fails m reports no source error, and there is a
   number n (the requests m issues on this input) such that with budget k
     k >= n : exactly the fault-free outcome (value or content error, position),
     k <  n : exactly the source error - not a content error, not a value built
              from incomplete data, not a panic.
   Closed under bind (`?`), hence valid for every routine built from the
   primitives and for every caller closure that is itself Faulty. *)
Require Import BV.Model.Base BV.Model.SrcB BV.Model.Length BV.Model.Tag BV.Model.Content.
Require Import BV.Model.Prog BV.Proofs.FaultP BV.Proofs.FaultP2.

Theorem C08_bind : forall A B (m : M A) (g : A -> M B),
  Faulty m -> (forall a, Faulty (g a)) -> Faulty (bind m g).
Proof. exact @Faulty_bind. Qed.

Theorem C08_request : Faulty tick.                     Proof. exact Faulty_tick. Qed.
Theorem C08_take_u8 : Faulty take_u8.                  Proof. exact Faulty_take_u8. Qed.
Theorem C08_take_all : Faulty take_all_lim.            Proof. exact Faulty_take_all. Qed.
Theorem C08_exhausted : Faulty src_exhausted.          Proof. exact Faulty_src_exhausted. Qed.
Theorem C08_tag : Faulty tag_take_from.                Proof. exact Faulty_tag_take_from. Qed.
Theorem C08_tag_if : forall e, Faulty (tag_take_from_if e).  Proof. exact Faulty_tag_take_from_if. Qed.
Theorem C08_length : forall m, Faulty (length_take_from m).  Proof. exact Faulty_length_take_from. Qed.

(* every accessor shape (process_next_value), for every Faulty closure *)
Theorem C08_header_processing :
  forall T c exp (op : tag -> content -> M (T * content)),
  (forall t ct, Faulty (op t ct)) -> Faulty (process_next_value c exp op).
Proof. exact @Faulty_process_next_value. Qed.

(* the generic reader and skipping, any nesting *)
Theorem C08_read_all : forall fuel c, Faulty (read_all fuel c).
Proof. exact Faulty_read_all. Qed.
Theorem C08_skip : forall fuel c fl, Faulty (skip_opt fuel c fl).
Proof. exact Faulty_skip_opt. Qed.

(* typed leaf readers, capture with any Faulty body, raw Source scripts *)
Theorem C08_typed_leaves : forall ty m, Faulty (typed_prim ty m).
Proof. exact Faulty_typed_prim. Qed.
Theorem C08_capture : forall T (c : cons) (op : cons -> M (T * cons)), Faulty (op c) -> Faulty (capture c op).
Proof. exact @Faulty_capture. Qed.
Theorem C08_scripts : forall sc g lg, Faulty (run_script sc g lg).
Proof. exact Faulty_run_script. Qed.

(* EVERY decoding program (generic, typed, optional, tag-selective reads,
   skips with filters, nested captures, scripts, mode switches) *)
Theorem C08_programs : forall fuel,
  (forall ps c lg, Faulty (exec fuel ps c lg)) /\ (forall bd ct, Faulty (exec_body fuel bd ct)).
Proof. exact Faulty_exec. Qed.
Theorem C08_any_program_on_any_input : forall fuel m ps d,
  exists n, forall k,
    let faulty := decode_src m (fun c => exec fuel ps c []) (mkSrc d None (Some k)) in
    let clean := decode_src m (fun c => exec fuel ps c []) (mkSrc d None None) in
    if n <=? k then fst faulty = fst clean else fst faulty = SErr.
Proof. exact program_source_failure_surfaces. Qed.

(* in the words of the property, for reading a whole input *)
Theorem C08_source_failure_surfaces : forall fuel m d,
  exists n, forall k,
    let faulty := read_all fuel (mkCons Unbounded m) (mkSrc d None (Some k)) in
    let clean := read_all fuel (mkCons Unbounded m) (mkSrc d None None) in
    if n <=? k then fst faulty = fst clean else fst faulty = SErr.
Proof. exact source_failure_surfaces. Qed.

Example C08_ex : fst (read_all 9 (mkCons Unbounded Der) (mkSrc [2;1;5] None (Some 3))) = SErr
  /\ fst (read_all 9 (mkCons Unbounded Der) (mkSrc [2;1;5] None (Some 5))) = Ok ([TPrim T_INTEGER [5]], mkCons Unbounded Der).
Proof. split; vm_compute; reflexivity. Qed.

Print Assumptions C08_bind.
Print Assumptions C08_request.
Print Assumptions C08_take_u8.
Print Assumptions C08_take_all.
Print Assumptions C08_exhausted.
Print Assumptions C08_tag.
Print Assumptions C08_tag_if.
Print Assumptions C08_length.
Print Assumptions C08_header_processing.
Print Assumptions C08_read_all.
Print Assumptions C08_typed_leaves.
Print Assumptions C08_capture.
Print Assumptions C08_scripts.
Print Assumptions C08_programs.
Print Assumptions C08_any_program_on_any_input.
Print Assumptions C08_skip.
Print Assumptions C08_source_failure_surfaces.
