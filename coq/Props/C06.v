(* C06 - Announced encoded length equals octets written, for every encoder composition.
   Statements only; every proof is `exact <lemma>` from Proofs/EncodeP.v.
   `enc` has one constructor per combinator (ESeq stands for tuples of every
   arity, Vec, slices, Iter and Slice; ECons for Constructed, sequence/set[_as]
   and explicit). Leaf contents are octet lists; that the integer leaf
   encoders report the number of octets they write is part of C14's stream. *)
Require Import BV.Model.Base BV.Model.SrcB BV.Model.Length BV.Model.Tag BV.Model.Content
               BV.Model.OctStr BV.Model.Encode.
Require Import BV.Proofs.LengthP BV.Proofs.EncodeP.

(* for every encoder tree of any depth and every mode: the reported length is
   the number of octets written, and both panic in exactly the same
   (documented) cases: content of 2^32 octets or more, CER string encoders,
   captured data in an incompatible mode *)
Theorem C06_length_is_written : forall m e,
  enc_len m e = res_map (@len N) (enc_write m e).
Proof. exact enc_len_is_written. Qed.

Theorem C06_length_ok_iff : forall m e n,
  enc_len m e = Ok n <-> exists w, enc_write m e = Ok w /\ len w = n.
Proof. exact enc_len_ok_iff. Qed.

(* a constructed value is identifier octets, then the shortest definite length
   of its body (indefinite form closed by end-of-contents in CER), then the body *)
Theorem C06_constructed_structure : forall m t e b,
  enc_write m e = Ok b -> len b < 2^32 ->
  enc_write m (ECons t e) =
    Ok (tag_write true t ++
        match m with
        | Cer => [128] ++ b ++ [0; 0]
        | _ => match length_write (len b) with Ok lw => lw ++ b | _ => [] end
        end)
  /\ (m <> Cer -> exists lw, length_write (len b) = Ok lw /\ min_len_ok lw = true /\ len_value lw = len b).
Proof. exact enc_write_cons. Qed.

(* a sequence of parts is the concatenation of the parts' encodings in order *)
Theorem C06_parts_in_order : forall m es,
  enc_write m (ESeq es) =
    fold_right (fun x acc => res_bind (enc_write m x) (fun a => res_map (fun b => a ++ b) acc)) (Ok []) es.
Proof. exact enc_write_seq. Qed.

Example C06_ex :
  enc_write Cer (ECons T_SEQUENCE (ESeq [EPrim T_INTEGER [5]; EOpt None; EPrim T_NULL []]))
  = Ok [48; 128; 2; 1; 5; 5; 0; 0; 0]
  /\ enc_len Der (ECons T_SEQUENCE (ESeq [EPrim T_INTEGER [5]; EOpt None; EPrim T_NULL []])) = Ok 7.
Proof. split; vm_compute; reflexivity. Qed.

Print Assumptions C06_length_is_written.
Print Assumptions C06_length_ok_iff.
Print Assumptions C06_constructed_structure.
Print Assumptions C06_parts_in_order.
