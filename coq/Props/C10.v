(* C10 - Skipping accepts exactly what reading accepts and advances identically.
   Statements only; every proof is `exact <lemma>` from Proofs/ContentP.v.

   Proved (Proofs/SkipP.v), for every octet string, mode, enclosing context,
   limit and nesting depth, through the X.690 grammar of C02:
     C10_skip_then_read  - if skip_opt reports a value then the generic read
       of the next value succeeds on the same input, delivers a tree whose
       pre-order node list (tag, constructed flag, depth) is exactly the
       sequence the filter was shown, and leaves the source in the same state;
     C10_read_then_skip  - conversely, if the generic read of the next value
       succeeds, skipping with an accepting filter succeeds with the same
       final state and that trace;
     C10_absent_like_read - skip_opt reports absence exactly where the read
       does (exhausted definite value, end of top-level input, end-of-contents
       of an indefinite value - which both consume), with the same state;
     C10_wellformed_is_skipped / C10_skipped_is_wellformed - the same facts
       stated against the grammar, for any filter.
   The machine keeps open values on an explicit list (the model's stack), not
   on the call stack; real stack use is measured by c10.deep / c01.deep.
     C10_skip_all_definite / C10_skip_all_top / C10_skip_all_sound - skip_all
       as a whole: over a grammar string of values it skips all of them,
       counts them and stops at the end of the enclosing definite value or of
       the top-level input; and whatever it accepts was such a string - so
       skip_all succeeds exactly where reading everything does (C02).
   By streams only: filters that reject in the middle of a value. *)
Require Import BV.Model.Base BV.Model.SrcB BV.Model.Length BV.Model.Tag BV.Model.Content.
Require Import BV.Proofs.SrcBP BV.Proofs.TagP BV.Proofs.ContentP BV.Proofs.GrammarP BV.Proofs.SkipP BV.Proofs.CaptureP BV.Proofs.SkipAllP.

Theorem C10_skip_then_read : forall fuel c fl s c' tr s',
  nf s -> octets_ok (rem s) = true -> may_start c (lim s) ->
  skip_opt fuel c fl s = (Ok (SkSome, c', tr), s') ->
  exists t, tr = trace_of t 0 /\ forall f2, (size t <= f2)%nat ->
    process_next_value c None (rd f2) s = (Ok (Some t, c), s').
Proof. exact skip_then_read. Qed.

Theorem C10_read_then_skip : forall f c s t c' s' fuel,
  nf s -> octets_ok (rem s) = true -> may_start c (lim s) ->
  process_next_value c None (rd f) s = (Ok (Some t, c'), s') ->
  (2 * length (rem s) < fuel)%nat ->
  skip_opt fuel c accept_all s = (Ok (SkSome, c, trace_of t 0), s').
Proof. exact read_then_skip. Qed.

Theorem C10_absent_like_read : forall fuel f c fl s c' tr s',
  nf s -> octets_ok (rem s) = true ->
  skip_opt fuel c fl s = (Ok (SkNone, c', tr), s') ->
  process_next_value c None (rd f) s = (Ok (None, c'), s').
Proof. exact skip_absent_like_read. Qed.

Theorem C10_wellformed_is_skipped : forall m t d c fl rest l fuel,
  GrammarP.enc m t d -> cmd c = m -> octets_ok (d ++ rest) = true -> lim_ge l (len d) -> may_start c l ->
  accepts fl (trace_of t 0) = true -> (2 * length d < fuel)%nat ->
  skip_opt fuel c fl (mkSrc (d ++ rest) l None)
  = (Ok (SkSome, c, trace_of t 0), mkSrc rest (lim_sub l (len d)) None).
Proof. exact wellformed_is_skipped. Qed.

Theorem C10_skipped_is_wellformed : forall fuel c fl s c' tr' s',
  nf s -> octets_ok (rem s) = true ->
  skip_opt fuel c fl s = (Ok (SkSome, c', tr'), s') ->
  c' = c /\ exists t d, GrammarP.enc (cmd c) t d /\ rem s = d ++ rem s' /\
                       consumed s s' (len d) /\ tr' = trace_of t 0 /\ accepts fl tr' = true.
Proof. exact skipped_is_wellformed. Qed.


Theorem C10_absent_alike_partial :
  forall T fuel c fl (op : tag -> content -> M (T * content)) s,
  is_exhausted c s = (Ok true, s) ->
  skip_opt fuel c fl s = (Ok (SkNone, c, []), s) /\
  process_next_value c None op s = (Ok (None, c), s).
Proof. exact @skip_absent_when_exhausted. Qed.

Theorem C10_primitive_alike_partial :
  forall fuel (c : cons) (fl : filter) cls n t L lw body rest l,
  is_class cls -> tag_new cls n = Ok t -> tag_eqb t END_OF_VALUE = false ->
  length_write L = Ok lw -> len body = L ->
  lim_ge l (len (tag_write false t) + len lw + L) ->
  cons_open c (mkSrc (tag_write false t ++ lw ++ body ++ rest) l None) ->
  cst c <> Unbounded -> fl t false 0 = true ->
  skip_opt (S (S fuel)) c fl (mkSrc (tag_write false t ++ lw ++ body ++ rest) l None)
  = (Ok (SkSome, c, [(t, false, 0)]),
     mkSrc rest (lim_sub l (len (tag_write false t) + len lw + L)) None).
Proof. exact skip_primitive_like_read. Qed.

(* non-vacuity: nested values, skip consumes what read consumes; the classic
   divergences are rejected by both *)
Example C10_ex_nested :
  fst (skip_opt 40 (mkCons Unbounded Ber) accept_all
         (pure_src [48;10; 48;128; 2;1;0; 2;1;0; 0;0; 5;0] None))
  = Ok (SkSome, mkCons Unbounded Ber,
        [(T_SEQUENCE, true, 0); (T_SEQUENCE, true, 1); (T_INTEGER, false, 2); (T_INTEGER, false, 2)]).
Proof. vm_compute. reflexivity. Qed.
Example C10_ex_rejects :
  fst (skip_opt 40 (mkCons Unbounded Ber) accept_all (pure_src [32; 0] None)) = CErr /\
  fst (skip_opt 40 (mkCons Unbounded Cer) accept_all (pure_src [48; 0] None)) = CErr /\
  fst (skip_opt 40 (mkCons Unbounded Der) accept_all (pure_src [48; 128; 0; 0] None)) = CErr.
Proof. repeat split; vm_compute; reflexivity. Qed.

(* skip_all as a whole *)
Theorem C10_skip_all_definite : forall m ts ds, encs m ts ds ->
  forall fuel c n rest, cmd c = m -> cst c = Definite -> (2 * length ds + length ts < fuel)%nat ->
    octets_ok (ds ++ rest) = true ->
    skip_all fuel c n (mkSrc (ds ++ rest) (Some (len ds)) None)
    = (Ok (n + len ts, c), mkSrc rest (Some 0) None).
Proof. exact skip_all_complete_def. Qed.

Theorem C10_skip_all_top : forall m ts ds, encs m ts ds ->
  forall fuel c n, cmd c = m -> cst c = Unbounded -> (2 * length ds + length ts < fuel)%nat ->
    octets_ok ds = true ->
    skip_all fuel c n (mkSrc ds None None) = (Ok (n + len ts, c), mkSrc [] None None).
Proof. exact skip_all_complete_top. Qed.

Theorem C10_skip_all_sound : forall fuel c n s k c' s', nf s -> octets_ok (rem s) = true ->
  skip_all fuel c n s = (Ok (k, c'), s') ->
  nf s' /\ exists ts ds, encs (cmd c) ts ds /\
    match cst c with
    | Indefinite => exists lw0, rem s = ds ++ 0 :: lw0 ++ rem s' /\ lenoct (cmd c) 0 lw0
    | _ => rem s = ds ++ rem s'
    end.
Proof. exact skip_all_sound. Qed.

Print Assumptions C10_skip_all_definite.
Print Assumptions C10_skip_all_top.
Print Assumptions C10_skip_all_sound.
Print Assumptions C10_skip_then_read.
Print Assumptions C10_read_then_skip.
Print Assumptions C10_absent_like_read.
Print Assumptions C10_wellformed_is_skipped.
Print Assumptions C10_skipped_is_wellformed.
Print Assumptions C10_absent_alike_partial.
Print Assumptions C10_primitive_alike_partial.
