(* C10 - Skipping accepts exactly what reading accepts and advances identically.
   Statements only; every proof is `exact <lemma>` from Proofs/ContentP.v.

   STATUS: partial. Proved: agreement of skipping and reading on absence and
   on primitive values (same octets consumed, filter called exactly once with
   the value's tag, form and depth). The general simulation between the
   explicit-stack machine (skip_loop/skip_after/skip_unwind) and the recursive
   reader for arbitrarily nested values is NOT proved here; it is decided by
   the c10.prog correspondence with an implementation-side skip-versus-read
   oracle on well-formed, mutated and random inputs in three contexts, and
   c10.deep measures real stack use. In the model skipping keeps the open
   values on an explicit list, not on the call stack. *)
Require Import BV.Model.Base BV.Model.SrcB BV.Model.Length BV.Model.Tag BV.Model.Content.
Require Import BV.Proofs.SrcBP BV.Proofs.TagP BV.Proofs.ContentP.

Theorem C10_absent_alike_partial :
  forall T fuel c fl (op : tag -> content -> M (T * content)) s,
  is_exhausted c s = (Ok true, s) ->
  skip_opt fuel c fl s = (Ok (SkNone, c, []), s) /\
  process_next_value c None op s = (Ok (None, c), s).
Proof. exact @skip_absent_when_exhausted. Qed.

Theorem C10_primitive_alike_partial :
  forall fuel (c : cons) (fl : filter) cls n t L lw body rest l,
  is_class cls -> tag_new cls n = Ok t -> tag_eqb t END_OF_VALUE = false ->
  length_write L = Ok lw -> len body = L ->
  lim_ge l (len (tag_write false t) + len lw + L) ->
  cons_open c (mkSrc (tag_write false t ++ lw ++ body ++ rest) l None) ->
  cst c <> Unbounded -> fl t false 0 = true ->
  skip_opt (S (S fuel)) c fl (mkSrc (tag_write false t ++ lw ++ body ++ rest) l None)
  = (Ok (SkSome, c, [(t, false, 0)]),
     mkSrc rest (lim_sub l (len (tag_write false t) + len lw + L)) None).
Proof. exact skip_primitive_like_read. Qed.

(* non-vacuity: nested values, skip consumes what read consumes; the classic
   divergences are rejected by both *)
Example C10_ex_nested :
  fst (skip_opt 40 (mkCons Unbounded Ber) accept_all
         (pure_src [48;10; 48;128; 2;1;0; 2;1;0; 0;0; 5;0] None))
  = Ok (SkSome, mkCons Unbounded Ber,
        [(T_SEQUENCE, true, 0); (T_SEQUENCE, true, 1); (T_INTEGER, false, 2); (T_INTEGER, false, 2)]).
Proof. vm_compute. reflexivity. Qed.
Example C10_ex_rejects :
  fst (skip_opt 40 (mkCons Unbounded Ber) accept_all (pure_src [32; 0] None)) = CErr /\
  fst (skip_opt 40 (mkCons Unbounded Cer) accept_all (pure_src [48; 0] None)) = CErr /\
  fst (skip_opt 40 (mkCons Unbounded Der) accept_all (pure_src [48; 128; 0; 0] None)) = CErr.
Proof. repeat split; vm_compute; reflexivity. Qed.

Print Assumptions C10_absent_alike_partial.
Print Assumptions C10_primitive_alike_partial.
