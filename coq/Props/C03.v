(* C03 - Code given a value's content can neither see nor consume octets outside it.
   Statements only; every proof is `exact <lemma>` from Proofs/WinP.v.

   W w r f is a source positioned on a content w (limit |w|) followed by
   arbitrary octets r, with fault budget f.  Win m: for any two continuations
   r1 r2 of the same content, m returns the same result and, on success, has
   consumed the same prefix of w only (see Proofs/WinP.v).

   All of this is about caller code that lets an error end the read. Caller code
   that SWALLOWS the error of a failed nested read and carries on is outside the
   model's program language; it is decided on the implementation by stream
   c03.lenient. That stream found defect D23 (inside definite-length values;
   repaired in /repo) and known finding D24 (inside indefinite-length values),
   which C03_carrying_on_inside_indefinite_refuted exhibits in the model. *)
Require Import BV.Model.Base BV.Model.SrcB BV.Model.Length BV.Model.Tag BV.Model.Content BV.Model.Prog.
Require Import BV.Proofs.WinP BV.Proofs.GrammarP BV.Proofs.LenientP.

(* Whatever finite sequence of Source operations caller code performs on the
   content of a value - requesting more than exists, taking octets, slices or
   everything, skipping, reading too little - it observes exactly the octets
   of that content: the outcome, every logged observation and the octets
   consumed are independent of what follows the value. *)
Theorem C03_script_window : forall sc g lg, Win (run_script sc g lg).
Proof. exact Win_run_script. Qed.

Theorem C03_script_observations : forall sc w r1 r2 f,
  fst (run_script sc 0 [] (W w r1 f)) = fst (run_script sc 0 [] (W w r2 f)).
Proof. exact script_observes_only_window. Qed.

(* if the code returns success without having consumed the whole content the
   enclosing read fails: the check made after the closure is exactly
   "nothing of the content is left" *)
Theorem C03_unread_content_fails : forall w r f,
  src_exhausted (W w r f) = if len w =? 0 then (Ok tt, W w r f) else (CErr, W w r f).
Proof. exact src_exhausted_W. Qed.

(* The header-processing routine itself is window-isolated for every caller
   closure that is (closures are universally quantified): nested values can
   never extend past their parent, and after the value the following siblings
   are decoded exactly as if the value had been read conventionally - the
   state left behind is W (skip k w) r, the same for every closure that
   succeeds, whatever r is. *)
Theorem C03_header_processing_window :
  forall T c exp (op : tag -> content -> M (T * content)),
  DefOp op -> (forall t ct, Win (op t ct)) -> Win (process_next_value c exp op).
Proof. exact @Win_process_next_value. Qed.

(* the primitives a closure is given, individually *)
Theorem C03_take_all_window : Win take_all_lim. Proof. exact Win_take_all. Qed.
Theorem C03_take_u8_window : Win take_u8. Proof. exact Win_take_u8. Qed.
Theorem C03_advance_window : forall n, Win (advance n). Proof. exact Win_advance. Qed.

(* non-vacuity: a 2-octet content followed by a sibling; reading three octets
   yields an error for the third, not the sibling's first octet *)
Example C03_ex :
  fst (run_script [STakeU8; STakeU8; STakeU8; STakeOptU8] 0 [] (W [7; 8] [9; 9] None))
  = Ok [7; 8; -1; -2]%Z.
Proof. vm_compute. reflexivity. Qed.

(* known finding D24, exhibited in the model: inside an indefinite-length value, caller code that swallows the
   error of a failed read and carries on gets the enclosing read to succeed with content unread, and the read
   that follows does not find what follows in the input, while reading the same input conventionally does *)
Theorem C03_carrying_on_inside_indefinite_refuted :
  fst (lenient_prog (mkCons Unbounded Cer) (pure_src lenient_input None)) = Ok (Some tt, None) /\
  fst ((a <- process_next_value (mkCons Unbounded Cer) (Some T_SEQUENCE) (as_cons (fun c => r <- read_all 5 c ;; ret (tt, snd r))) ;;
        b <- process_next_value (snd a) None (rd 5) ;; ret (fst a, fst b)) (pure_src lenient_input None))
  = Ok (Some tt, Some (TPrim (223, 127, 0, 0) [90])).
Proof. exact lenient_indefinite_witness. Qed.

Print Assumptions C03_script_window.
Print Assumptions C03_script_observations.
Print Assumptions C03_unread_content_fails.
Print Assumptions C03_header_processing_window.
Print Assumptions C03_take_all_window.
Print Assumptions C03_take_u8_window.
Print Assumptions C03_advance_window.
Print Assumptions C03_carrying_on_inside_indefinite_refuted.
