(* C14 - BOOLEAN, NULL and fixed-width INTEGER codecs are exact.
   Statements only; every proof is `exact <lemma>` from Proofs/IntP.v. *)
Require Import BV.Model.Base BV.Model.SrcB BV.Model.Twos BV.Model.Int.
Require Import BV.Proofs.IntP.

(* Each of the ten accessors (index 0..9 = i8,i16,i32,i64,i128,u8,u16,u32,u64,
   u128), on any content octets of any length: the mathematical value if and
   only if the content is the minimal two's-complement form and the value is
   in the type's range; otherwise a content error. The result is never a
   panic and never a wrapped or truncated value. *)
Theorem C14_accessor_exact : forall ty c, ty < 10 -> octets_ok c = true ->
  prim_decode (int_accessor ty) c =
    if minimal c && in_range (ty_signed ty) (ty_width ty) (tc_val c)
    then Ok (tc_val c) else CErr.
Proof. exact int_accessor_spec. Qed.

Theorem C14_accessor_sound : forall ty c v, ty < 10 -> octets_ok c = true ->
  prim_decode (int_accessor ty) c = Ok v ->
  minimal c = true /\ tc_val c = v /\ in_range (ty_signed ty) (ty_width ty) v = true.
Proof. exact int_accessor_sound. Qed.

Theorem C14_accessor_total : forall ty c, ty < 10 -> octets_ok c = true ->
  (exists v, prim_decode (int_accessor ty) c = Ok v) \/ prim_decode (int_accessor ty) c = CErr.
Proof. exact int_accessor_total. Qed.

(* BOOLEAN: one octet; any non-zero value is true in BER, only 0xFF in CER/DER *)
Theorem C14_boolean : forall m c, octets_ok c = true ->
  prim_decode (to_bool m) c =
    match c with
    | [b] => if mode_eqb m Ber then Ok (negb (b =? 0))
             else if b =? 0 then Ok false else if b =? 255 then Ok true else CErr
    | _ => CErr
    end.
Proof. exact to_bool_spec. Qed.

(* NULL has empty content *)
Theorem C14_null : forall c, prim_decode to_null c = match c with [] => Ok tt | _ => CErr end.
Proof. exact to_null_spec. Qed.

(* helpers that match an expected value succeed exactly when the decoded
   value equals it *)
Theorem C14_skip_u8_if : forall e c, octets_ok c = true ->
  prim_decode (v <- u8_from_primitive ;; if (v =? e)%Z then ret tt else cerr) c =
    if minimal c && in_range false 1 (tc_val c) && (tc_val c =? e)%Z then Ok tt else CErr.
Proof. exact skip_u8_if_spec. Qed.

(* non-vacuity *)
Example C14_ex_i16 : prim_decode (int_accessor 1) [255; 127] = Ok (-129)%Z. Proof. reflexivity. Qed.
Example C14_ex_u8_200 : prim_decode (int_accessor 5) [0; 200] = Ok 200%Z /\
                        prim_decode (int_accessor 5) [200] = CErr. Proof. split; reflexivity. Qed.
Example C14_ex_nonminimal : prim_decode (int_accessor 2) [0; 5] = CErr. Proof. reflexivity. Qed.

Print Assumptions C14_accessor_exact.
Print Assumptions C14_accessor_sound.
Print Assumptions C14_accessor_total.
Print Assumptions C14_boolean.
Print Assumptions C14_null.
Print Assumptions C14_skip_u8_if.
