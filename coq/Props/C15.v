(* C15 - Arbitrary-size integers behave like the numbers they encode.
   Statements only; every proof is `exact <lemma>` from Proofs/IntP.v.
   An Integer/Unsigned value is its content octets; valid_int c says c is what
   a decoder or constructor can produce (octets, non-empty, minimal). *)
Require Import BV.Model.Base BV.Model.SrcB BV.Model.Twos BV.Model.Int.
Require Import BV.Proofs.IntP.

(* ordering agrees with the mathematical values, for any sizes and signs *)
Theorem C15_cmp : forall a b, valid_int a -> valid_int b ->
  int_cmp a b = Ok (tc_val a ?= tc_val b)%Z.
Proof. exact int_cmp_spec. Qed.

(* equality agrees with the values; equal numbers feed identical octets to
   the hasher *)
Theorem C15_eq_hash : forall a b, valid_int a -> valid_int b ->
  (int_eq a b = true <-> tc_val a = tc_val b) /\
  (tc_val a = tc_val b -> int_hash_input a = int_hash_input b).
Proof. exact int_eq_spec. Qed.

(* equality and ordering are consistent with each other (a == b exactly when
   the comparison says Equal), and the ordering is antisymmetric and
   transitive, as Rust's Eq/Ord contracts require *)
Theorem C15_eq_cmp_consistent : forall a b, valid_int a -> valid_int b ->
  (int_eq a b = true <-> int_cmp a b = Ok Eq).
Proof. exact int_eq_cmp_consistent. Qed.

Theorem C15_cmp_antisym : forall a b, valid_int a -> valid_int b ->
  forall o, int_cmp a b = Ok o -> int_cmp b a = Ok (CompOpp o).
Proof. exact int_cmp_antisym. Qed.

Theorem C15_cmp_trans : forall a b c, valid_int a -> valid_int b -> valid_int c ->
  int_cmp a b = Ok Lt -> int_cmp b c = Ok Lt -> int_cmp a c = Ok Lt.
Proof. exact int_cmp_trans. Qed.

(* zero / positive / negative predicates *)
Theorem C15_predicates : forall c, valid_int c ->
  int_is_zero c = Ok (tc_val c =? 0)%Z /\
  int_is_positive c = Ok (0 <? tc_val c)%Z /\
  int_is_negative c = Ok (tc_val c <? 0)%Z.
Proof. exact int_predicates_spec. Qed.

(* conversion to each of the ten fixed-width types succeeds exactly when the
   number fits and preserves it *)
Theorem C15_try_from : forall ty c, ty < 10 -> valid_int c ->
  int_try_from ty c =
    if in_range (ty_signed ty) (ty_width ty) (tc_val c) then Ok (tc_val c) else CErr.
Proof. exact int_try_from_spec. Qed.

(* an unsigned integer from any non-empty big-endian magnitude - with or
   without leading zeros, zero included - is that number in minimal form *)
Theorem C15_from_bytes : forall mag, octets_ok mag = true -> mag <> [] ->
  exists c, unsigned_from_bytes mag = Ok c /\ valid_int c /\ tc_val c = be_valZ mag.
Proof. exact unsigned_from_bytes_spec. Qed.

(* what decoding accepts is valid: Integer::from_primitive *)
Example C15_ex_cmp : int_cmp [255] [128] = Ok Gt /\ int_cmp [255; 0] [255; 1] = Ok Lt.
Proof. split; reflexivity. Qed.
Example C15_ex_zero : int_is_zero [0; 128] = Ok false /\ unsigned_from_bytes [0] = Ok [0].
Proof. split; reflexivity. Qed.
Example C15_ex_valid : valid_int [0; 128] /\ valid_int [255; 127]. Proof. repeat split. Qed.

Print Assumptions C15_cmp.
Print Assumptions C15_eq_hash.
Print Assumptions C15_predicates.
Print Assumptions C15_try_from.
Print Assumptions C15_from_bytes.
Print Assumptions C15_eq_cmp_consistent.
Print Assumptions C15_cmp_antisym.
Print Assumptions C15_cmp_trans.
