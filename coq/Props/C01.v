(* C01 - Decoding untrusted octets never panics, aborts, hangs or overflows.
   Statements only; every proof is `exact <lemma>`.

   Model half of the property: every place where the Rust code can unwind -
   unwrap of None, slice index out of range, advance beyond the data or the
   limit, a failed assertion - is a Panic outcome of the model. Safe P m Q
   (Proofs/TotalP.v) is a Hoare triple that forbids Panic: from every state of
   a source that does not fail which satisfies P - ANY remaining octets, ANY
   limit, in particular a limit larger than the data (truncated input) - m does
   not panic, and when it returns a value a in state s', Q a s' holds.

   Proved for every input:
     - the identifier and length readers, request-then-advance, the end checks;
     - process_next_value (every take_*/take_opt_* accessor shape) for EVERY
       caller closure that itself does not panic and hands back its content;
     - the generic reader at any nesting; skipping (the explicit stack of
       enclosing limits: skip_opt, skip, skip_one, skip_all);
     - every typed leaf reader on any content (BOOLEAN, NULL, the ten
       fixed-width integers, Integer, Unsigned, OID take/skip, BIT STRING
       take/skip) under any limit;
     - capture (the into_bytes assertion: what the closure advanced over never
       exceeds the enclosing limit - by the lockstep invariant of DeltaP.v:
       limit and data shrink together), raw Source scripts within the contract;
     - EVERY decoding program of the program language (generic, typed,
       optional, tag-selective reads, skips with filters, nested captures,
       scripts, mode switches), from the top of an input or inside any
       enclosing value - stated for the very function the streams evaluate;
     - accessors of accepted values: integer predicates/comparison/conversion,
       OID iteration and display, restricted-string iteration, bit access.
     - termination (Proofs/TermP.v): every loop iteration consumes input or
       closes an open value, so no decoding program ever exhausts fuel
       proportional to program size plus input length - stated for the function
       the streams evaluate: it never yields "out of fuel".
   PARTIAL - not proved on the model, decided by the correspondence streams
   only: OctetStringSource as a source (C16 covers the segment iterator), and
   everything a model cannot exhibit: process abort, native stack depth and
   heap growth - measured by c01.entry, c01.access and c01.deep on the real
   crate (hang watchdog, abort attribution, counting allocator). *)
Require Import BV.Model.Base BV.Model.SrcB BV.Model.Length BV.Model.Tag BV.Model.Twos BV.Model.Int
               BV.Model.BitStr BV.Model.Oid BV.Model.Content BV.Model.Prog BV.Model.OctStr.
Require Import BV.Proofs.ContentP BV.Proofs.TotalP BV.Proofs.DeltaP BV.Proofs.TermP BV.Proofs.IntP BV.Proofs.OctStrP.

(* identifier and length octets, whatever follows and whatever the limit *)
Theorem C01_headers : forall b m e,
  Safe (L b) tag_take_from (fun _ => L b) /\ Safe (L b) tag_take_opt_from (fun _ => L b) /\
  Safe (L b) (tag_take_from_if e) (fun _ => L b) /\ Safe (L b) (length_take_from m) (fun _ => L b).
Proof. exact (fun b m e => conj (Safe_tag b) (conj (Safe_tag_opt b) (conj (Safe_tag_if b e) (Safe_length b m)))). Qed.

(* request-before-advance: short data becomes a content error, never an advance beyond the data *)
Theorem C01_request_then_advance : forall b n, Safe (L b) (need n ;;; advance n) (fun _ => L b).
Proof. exact Safe_need_advance. Qed.
Theorem C01_take_all_skip_all :
  Safe (L true) take_all_lim (fun _ => L true) /\ Safe (L true) skip_all_lim (fun _ => L true).
Proof. exact (conj Safe_take_all Safe_skip_all). Qed.

(* every accessor shape, for every well-behaved closure: the nested length is
   checked against the enclosing limit before narrowing, the limit is restored *)
Theorem C01_process_next_value : forall T c exp (op : tag -> content -> M (T * content)) b,
  SafeOp op ->
  Safe (fun s => inv c s /\ L b s) (process_next_value c exp op) (fun rc s => inv (snd rc) s /\ L b s).
Proof. exact @Safe_process_next_value. Qed.

(* reading any input completely, any nesting depth *)
Theorem C01_read_all : forall fuel m d,
  fst (decode_src m (read_all fuel) (pure_src d None)) <> Panic.
Proof. exact read_all_never_panics. Qed.

(* skipping: the explicit stack never underflows and restores a limit where one was in force *)
Theorem C01_skip : forall fuel c flt_ b,
  Safe (fun s => inv c s /\ L b s) (skip_opt fuel c flt_) (fun r s => inv (snd (fst r)) s /\ L b s).
Proof. exact Safe_skip_opt. Qed.
Theorem C01_skip_all : forall fuel c n b,
  Safe (IL c b) (skip_all fuel c n) (fun r s => IL (snd r) b s).
Proof. exact Safe_skip_all_loop. Qed.

(* typed leaf readers on arbitrary content under any limit *)
Theorem C01_typed_leaves : forall ty m, Safe (L true) (typed_prim ty m) (fun _ => L true).
Proof. exact Safe_typed_prim. Qed.

(* capture: for every well-behaved body, the octets handed to into_bytes never
   exceed the enclosing limit; limit and data stay in lockstep *)
Theorem C01_capture : forall T (c : cons) (op : cons -> M (T * cons)) b z,
  (forall b' z', Safe (ILz c b' z') (op c) (fun rc s => ILz (snd rc) b' z' s /\ kp c (snd rc))) ->
  Safe (ILz c b z) (capture c op) (fun r s => ILz (snd r) b z s /\ kp c (snd r)).
Proof. exact @St_capture. Qed.

(* raw Source scripts that stay within what request() granted *)
Theorem C01_scripts : forall sc g lg z, Safe (SG z g) (run_script sc g lg) (fun _ => St true z).
Proof. exact St_run_script. Qed.

(* EVERY decoding program: whole inputs, and from any position inside an
   enclosing value (any limit, data possibly shorter than the limit) *)
Theorem C01_programs : forall fuel m ps d,
  fst (decode_src m (fun c => exec fuel ps c []) (pure_src d None)) <> Panic.
Proof. exact any_program_never_panics. Qed.
Theorem C01_programs_anywhere : forall fuel ps c lg s,
  nf s -> inv c s -> fst (exec fuel ps c lg s) <> Panic.
Proof. exact any_program_never_panics_anywhere. Qed.
(* ... in terms of the function the correspondence streams evaluate: the
   model never predicts the observation "panic" *)
Theorem C01_model_never_predicts_panic : forall m code d, run_program m code d <> [3%Z].
Proof. exact run_program_never_panics. Qed.

(* termination: fuel beyond program size + input length is never exhausted *)
Theorem C01_programs_terminate : forall fuel m ps d,
  (psizes ps + length d + 3 <= fuel)%nat ->
  fst (decode_src m (fun c => exec fuel ps c []) (pure_src d None)) <> NoFuel.
Proof. exact any_program_terminates. Qed.
Theorem C01_model_never_runs_out_of_fuel : forall m code d, run_program m code d <> [4%Z].
Proof. exact run_program_terminates. Qed.
Theorem C01_generic_reader_terminates : forall f c n, (N.to_nat n < f)%nat -> Tm n (read_all f c) (fun _ => 0).
Proof. exact Tm_read_all. Qed.
Theorem C01_skipping_terminates : forall f c fl n, (N.to_nat n + 2 <= f)%nat -> Tm n (skip_opt f c fl) dskip.
Proof. exact Tm_skip_opt. Qed.

(* accessors of accepted values rely on what decoding validated *)
Theorem C01_integer_accessors : forall c, valid_int c ->
  int_is_zero c = Ok (tc_val c =? 0)%Z /\
  int_is_positive c = Ok (0 <? tc_val c)%Z /\
  int_is_negative c = Ok (tc_val c <? 0)%Z.
Proof. exact int_predicates_spec. Qed.
Theorem C01_integer_cmp : forall a b, valid_int a -> valid_int b ->
  int_cmp a b = Ok (tc_val a ?= tc_val b)%Z.
Proof. exact int_cmp_spec. Qed.
Theorem C01_oid_iterates : forall c, oid_check_content c = Ok tt ->
  exists l, oid_components c = Ok l /\ exists d, oid_display c = Ok d.
Proof. exact accepted_oid_iterates. Qed.
Theorem C01_string_iterates : forall cs o o', rs_new cs o = Ok o' -> exists l, rs_chars cs o' = Ok l.
Proof. exact accepted_string_iterates. Qed.

(* the hypotheses are satisfiable, and the model does have panics to avoid *)
Theorem C01_example_plain :
  forallb (plain_p 5) [PTake true 0 None (BProg [PTake false 1 None (BTyped 3); PSkip 0 0 0 0]); PReadAll] = true.
Proof. exact plain_example. Qed.
Example C01_model_can_panic : fst (advance 3 (pure_src [1; 2] None)) = Panic
  /\ fst (take_all_lim (pure_src [1; 2] None)) = Panic /\ int_is_negative [] = Panic.
Proof. repeat split. Qed.

Print Assumptions C01_headers.
Print Assumptions C01_request_then_advance.
Print Assumptions C01_take_all_skip_all.
Print Assumptions C01_process_next_value.
Print Assumptions C01_read_all.
Print Assumptions C01_skip.
Print Assumptions C01_skip_all.
Print Assumptions C01_typed_leaves.
Print Assumptions C01_capture.
Print Assumptions C01_scripts.
Print Assumptions C01_programs.
Print Assumptions C01_programs_anywhere.
Print Assumptions C01_model_never_predicts_panic.
Print Assumptions C01_programs_terminate.
Print Assumptions C01_model_never_runs_out_of_fuel.
Print Assumptions C01_generic_reader_terminates.
Print Assumptions C01_skipping_terminates.
Print Assumptions C01_integer_accessors.
Print Assumptions C01_integer_cmp.
Print Assumptions C01_oid_iterates.
Print Assumptions C01_string_iterates.
Print Assumptions C01_example_plain.
