(* C04 - Encoding a value and decoding the result returns the same value.
   Statements only; every proof is `exact <lemma>`.

   STATUS: partial. Proved for all values (symbolically, no sweep): the leaf
   laws - every fixed-width integer type, BOOLEAN, NULL - and that values kept
   as their content octets (Integer, Unsigned, OID, BIT STRING, primitive
   OCTET STRING) re-encode to the octets they were decoded from (C05 file);
   that a written TLV is read back by the header routines (tag, length:
   C12_read_back, C13_read_back, C02_value_step) and that encoder trees write
   what they announce (C06). NOT proved: the composition theorem over all
   schemas (decode_s s (write (encode_s s v)) = v by induction on the schema);
   it is decided by c04.roundtrip on random typed records through the real
   combinators, against the extracted model and a model-free oracle. *)
Require Import BV.Model.Base BV.Model.SrcB BV.Model.Twos BV.Model.Int.
Require Import BV.Proofs.IntP BV.Proofs.IntEncP.

(* all ten integer types, every value of the type's range *)
Theorem C04_integer_roundtrip : forall ty v, ty < 10 ->
  in_range (ty_signed ty) (ty_width ty) v = true ->
  prim_decode (int_accessor ty) (enc_int ty v) = Ok v.
Proof. exact int_roundtrip. Qed.

(* the written content is the minimal two's-complement form of the value *)
Theorem C04_integer_encoding_minimal : forall ty v, ty < 10 ->
  in_range (ty_signed ty) (ty_width ty) v = true ->
  minimal (enc_int ty v) = true /\ tc_val (enc_int ty v) = v /\ octets_ok (enc_int ty v) = true.
Proof. exact int_encoder_minimal. Qed.

Theorem C04_boolean_roundtrip : forall m b, prim_decode (to_bool m) (enc_bool b) = Ok b.
Proof. exact bool_roundtrip. Qed.
Theorem C04_null_roundtrip : prim_decode to_null [] = Ok tt.
Proof. exact null_roundtrip. Qed.

Example C04_ex : enc_int 3 (-129)%Z = [255; 127] /\ enc_int 9 (2^64)%Z = [1;0;0;0;0;0;0;0;0].
Proof. split; vm_compute; reflexivity. Qed.

Print Assumptions C04_integer_roundtrip.
Print Assumptions C04_integer_encoding_minimal.
Print Assumptions C04_boolean_roundtrip.
Print Assumptions C04_null_roundtrip.
