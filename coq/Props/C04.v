(* C04 - Encoding a value and decoding the result returns the same value.
   Statements only; every proof is `exact <lemma>`.

   Proved for all values, all encoder trees, all modes:
     - structure: every structural encoder tree (primitives, constructed /
       sequence / set / explicit tagging, tuples and iterators, Option, Choice,
       octet and bit slices) writes a string of the X.690 grammar whose tree is
       the tree that was encoded (C04_encoders_write_the_grammar), hence the
       generic reader returns exactly that tree and consumes exactly the
       octets written (C04_encode_then_read);
     - typed fields: a well-formed primitive value read through ANY
       window-isolated typed leaf reader yields the leaf's decode of its
       content, at any position and under any limit (C04_typed_field_read);
       all typed leaf readers are window-isolated (C04_leaf_readers_window);
       instance: a fixed-width INTEGER field written with any tag reads back
       as the value (C04_integer_field);
     - leaves: every fixed-width integer type, BOOLEAN, NULL round-trip.
     - records: for EVERY schema (a tree of SEQUENCE/SET/explicitly tagged
       records, any legal tags, any nesting, leaves INTEGER of the ten widths,
       BOOLEAN, NULL, OBJECT IDENTIFIER, BIT STRING of at most 999 data octets,
       arbitrary-size INTEGER through Integer::take_from and Unsigned::take_from) and every value of it, encoding in a mode and decoding
       the octets with the schema's typed readers in the same mode - or DER
       output in BER mode - yields the value, consumes exactly the octets and
       leaves the context unchanged, at any position and under any limit
       (C04_schema_roundtrip_in_context), hence for a whole input
       (C04_schema_roundtrip).
     - records with OPTIONAL fields: the same for schemas whose record fields
       may be OPTIONAL (present or absent), under the X.680 rule that the tag
       of an optional field differs from the tags that may follow it: the
       typed readers (take_opt_* for optional fields) return exactly the
       value, an absent field being recognised by the following tag, the end
       of a definite parent, the end-of-contents of an indefinite one or the
       end of the input (C04_optional_schema_roundtrip_in_context,
       C04_optional_schema_roundtrip).
     - CHOICE: a value of a CHOICE type whose alternatives (any schemas) carry
       pairwise distinct tags, written as the chosen alternative and read by
       trying the alternatives in order with expected-tag optional reads, comes
       back as the same alternative with the same value, at any position and
       under any limit (C04_choice_roundtrip).
   PARTIAL: CHOICE is proved as a reader of its own, not as a constructor of the schema
   datatype (a CHOICE nested inside a record field composes through
   C04_typed_field_read only informally); the octet/character string leaves are not in the
   schema datatype; they are covered by the leaf theorems, by C04_typed_field_read,
   and as a whole by c04.roundtrip (random typed records through the real
   combinators).  Captured / OctetString / wrapped encoders
   are outside `structural`. *)
Require Import BV.Model.Base BV.Model.SrcB BV.Model.Twos BV.Model.Int.
Require Import BV.Model.Length BV.Model.Tag BV.Model.Content BV.Model.Encode BV.Model.Prog.
Require Import BV.Proofs.SrcBP BV.Proofs.IntP BV.Proofs.IntEncP BV.Proofs.WinP BV.Proofs.GrammarP BV.Proofs.EncGrammarP BV.Proofs.TypedP BV.Proofs.SchemaP BV.Proofs.Schema2P BV.Proofs.ChoiceP.

Theorem C04_encoders_write_the_grammar : forall e m d,
  structural e -> enc_write m e = Ok d -> encs m (tlvs_of e) d.
Proof. exact encoder_in_grammar. Qed.

Theorem C04_encode_then_read : forall e m d,
  structural e -> enc_write m e = Ok d -> octets_ok d = true ->
  decode_src m (read_all (S (length d))) (pure_src d None) = (Ok (tlvs_of e), pure_src [] None).
Proof. exact encode_then_read. Qed.

Theorem C04_typed_field_read : forall T (op : mode -> M T) m t c lw cc rest l,
  Win (op m) -> legal_tag t -> tag_eqb t END_OF_VALUE = false -> lenoct m (len c) lw ->
  cmd cc = m -> octets_ok ((tag_write false t ++ lw ++ c) ++ rest) = true ->
  lim_ge l (len (tag_write false t ++ lw ++ c)) -> may_start cc l ->
  fst (process_next_value cc None (prim_closure op) (mkSrc ((tag_write false t ++ lw ++ c) ++ rest) l None))
  = res_map (fun v => (Some v, cc)) (prim_decode (op m) c).
Proof. exact @typed_field_read. Qed.

Theorem C04_leaf_readers_window : forall ty m, Win (typed_prim ty m).
Proof. exact Win_typed_prim. Qed.

Theorem C04_integer_field : forall ty v t d cc rest l, ty < 10 ->
  in_range (ty_signed ty) (ty_width ty) v = true -> tag_ok t ->
  tlv_write t false (enc_int ty v) = Ok d ->
  octets_ok (d ++ rest) = true -> lim_ge l (len d) -> may_start cc l ->
  fst (process_next_value cc None (prim_closure (fun _ => int_accessor ty)) (mkSrc (d ++ rest) l None))
  = Ok (Some v, cc).
Proof. exact int_field_roundtrip. Qed.


(* all ten integer types, every value of the type's range *)
Theorem C04_integer_roundtrip : forall ty v, ty < 10 ->
  in_range (ty_signed ty) (ty_width ty) v = true ->
  prim_decode (int_accessor ty) (enc_int ty v) = Ok v.
Proof. exact int_roundtrip. Qed.

(* the written content is the minimal two's-complement form of the value *)
Theorem C04_integer_encoding_minimal : forall ty v, ty < 10 ->
  in_range (ty_signed ty) (ty_width ty) v = true ->
  minimal (enc_int ty v) = true /\ tc_val (enc_int ty v) = v /\ octets_ok (enc_int ty v) = true.
Proof. exact int_encoder_minimal. Qed.

Theorem C04_boolean_roundtrip : forall m b, prim_decode (to_bool m) (enc_bool b) = Ok b.
Proof. exact bool_roundtrip. Qed.
Theorem C04_null_roundtrip : prim_decode to_null [] = Ok tt.
Proof. exact null_roundtrip. Qed.

(* records of records of typed fields *)
Theorem C04_schema_roundtrip_in_context : forall s v e m d,
  schema_ok s -> enc_s s v = Some e -> enc_write m e = Ok d ->
  1 <= len d /\
  forall fuel c rest l, (sdepth s <= fuel)%nat -> reads m (cmd c) -> octets_ok (d ++ rest) = true ->
    lim_ge l (len d) -> ctx_ok c l ->
    dec_s fuel s c (mkSrc (d ++ rest) l None) = (Ok (v, c), mkSrc rest (lim_sub l (len d)) None).
Proof. exact schema_roundtrip. Qed.

Theorem C04_schema_roundtrip : forall s v e m m' d,
  schema_ok s -> enc_s s v = Some e -> enc_write m e = Ok d -> octets_ok d = true ->
  m' = m \/ (m = Der /\ m' = Ber) ->
  decode_src m' (dec_s (sdepth s) s) (pure_src d None) = (Ok v, pure_src [] None).
Proof. exact schema_roundtrip_top. Qed.

Example C04_schema_ex :
  let s := SSeq T_SEQUENCE [SLeaf T_INTEGER (LInt 2); SSeq T_SET [SLeaf T_BOOLEAN LBool; SLeaf T_NULL LNull]] in
  let v := VSeq [VInt (-300); VSeq [VBool true; VNull]] in
  schema_ok s /\ exists e, enc_s s v = Some e /\ enc_write Der e = Ok [48; 11; 2; 2; 254; 212; 49; 5; 1; 1; 255; 5; 0].
Proof. exact schema_example. Qed.

(* records with OPTIONAL fields *)
Theorem C04_optional_schema_roundtrip_in_context : forall s v e m d,
  ok2 s -> enc2 s v = Some e -> enc_write m e = Ok d ->
  1 <= len d /\ (exists k tl, d = tag_write k (tag_of s) ++ tl) /\
  forall fuel c rest l, (depth2 s <= fuel)%nat -> reads m (cmd c) -> octets_ok (d ++ rest) = true ->
    lim_ge l (len d) -> ctx_ok c l ->
    dec2 fuel s c (mkSrc (d ++ rest) l None) = (Ok (Some v, c), mkSrc rest (lim_sub l (len d)) None).
Proof. exact schema2_roundtrip. Qed.

Theorem C04_optional_schema_roundtrip : forall s v e m m' d,
  ok2 s -> enc2 s v = Some e -> enc_write m e = Ok d -> octets_ok d = true ->
  m' = m \/ (m = Der /\ m' = Ber) ->
  decode_src m' (fun c => mandatory (dec2 (depth2 s) s c)) (pure_src d None) = (Ok v, pure_src [] None).
Proof. exact schema2_roundtrip_top. Qed.

Example C04_optional_schema_ex :
  let s := S2Seq T_SEQUENCE [(true, S2Leaf T_BOOLEAN LBool); (false, S2Leaf T_INTEGER (LInt 2));
                             (true, S2Seq T_SET [(false, S2Leaf T_NULL LNull)]); (true, S2Leaf T_NULL LNull)] in
  let v := VSeq [VOpt None; VInt (-300); VOpt (Some (VSeq [VNull])); VOpt None] in
  ok2 s /\ exists e, enc2 s v = Some e /\ enc_write Der e = Ok [48; 8; 2; 2; 254; 212; 49; 2; 5; 0] /\
  decode_src Der (fun c => mandatory (dec2 (depth2 s) s c)) (pure_src [48; 8; 2; 2; 254; 212; 49; 2; 5; 0] None) = (Ok v, pure_src [] None).
Proof. exact schema2_example. Qed.

Theorem C04_choice_roundtrip : forall alts i a v e m d,
  nth_error alts i = Some a -> Forall ok2 alts -> NoDup (map tag_of alts) ->
  enc2 a v = Some e -> enc_write m e = Ok d ->
  forall fuel c rest l, Forall (fun x => (depth2 x <= fuel)%nat) alts -> (cmd c = m \/ (m = Der /\ cmd c = Ber)) ->
    octets_ok (d ++ rest) = true -> lim_ge l (len d) -> ctx_ok c l ->
    dec_choice fuel alts c (mkSrc (d ++ rest) l None) = (Ok (Some (i, v), c), mkSrc rest (lim_sub l (len d)) None).
Proof. exact choice_roundtrip. Qed.

Example C04_choice_ex :
  let alts := [S2Leaf T_BOOLEAN LBool; S2Leaf T_INTEGER (LInt 2); S2Seq T_SEQUENCE [(false, S2Leaf T_NULL LNull)]] in
  fst (dec_choice 5 alts (mkCons Unbounded Der) (pure_src [48; 2; 5; 0; 1; 1; 255] None)) =
    Ok (Some (2%nat, VSeq [VNull]), mkCons Unbounded Der) /\
  fst (dec_choice 5 alts (mkCons Unbounded Der) (pure_src [2; 1; 7] None)) = Ok (Some (1%nat, VInt 7), mkCons Unbounded Der) /\
  fst (dec_choice 5 alts (mkCons Unbounded Der) (pure_src [4; 0] None)) = Ok (None, mkCons Unbounded Der).
Proof. exact choice_example. Qed.

Example C04_arbitrary_size_integer_fields_ex :
  let s := S2Seq T_SEQUENCE [(false, S2Leaf T_INTEGER LInteger); (true, S2Leaf (128, 0, 0, 0) LUnsigned)] in
  let v := VSeq [VBytes [128; 0; 0; 0; 0; 0; 0; 0; 0]; VOpt (Some (VBytes [1; 0; 0; 0; 0; 0; 0; 0; 0]))] in
  ok2 s /\ exists e, enc2 s v = Some e /\
    enc_write Der e = Ok [48; 22; 2; 9; 128; 0; 0; 0; 0; 0; 0; 0; 0; 128; 9; 1; 0; 0; 0; 0; 0; 0; 0; 0] /\
  decode_src Der (fun c => mandatory (dec2 (depth2 s) s c))
    (pure_src [48; 22; 2; 9; 128; 0; 0; 0; 0; 0; 0; 0; 0; 128; 9; 1; 0; 0; 0; 0; 0; 0; 0; 0] None) = (Ok v, pure_src [] None).
Proof. exact schema2_example_integers. Qed.

Example C04_ex : enc_int 3 (-129)%Z = [255; 127] /\ enc_int 9 (2^64)%Z = [1;0;0;0;0;0;0;0;0].
Proof. split; vm_compute; reflexivity. Qed.

Print Assumptions C04_encoders_write_the_grammar.
Print Assumptions C04_encode_then_read.
Print Assumptions C04_typed_field_read.
Print Assumptions C04_leaf_readers_window.
Print Assumptions C04_integer_field.
Print Assumptions C04_integer_roundtrip.
Print Assumptions C04_integer_encoding_minimal.
Print Assumptions C04_boolean_roundtrip.
Print Assumptions C04_null_roundtrip.
Print Assumptions C04_schema_roundtrip_in_context.
Print Assumptions C04_schema_roundtrip.
Print Assumptions C04_optional_schema_roundtrip_in_context.
Print Assumptions C04_optional_schema_roundtrip.
Print Assumptions C04_choice_roundtrip.
