(* C05 - DER decoding is canonical: re-encoding an accepted value reproduces the input.
   Statements only; every proof is `exact <lemma>`.

   STATUS: partial. Proved for all contents: the typed leaves - all ten integer
   types and BOOLEAN re-encode to exactly the accepted content; Integer,
   Unsigned, OID and BIT STRING keep the accepted content verbatim; DER
   accepts only the shortest length form (C13_reader_table), only minimal
   identifiers (C12_decoder_canonical), only definite lengths and only
   primitive strings (C02_form_rules, octstr model). NOT proved: the
   composition over schemas; decided by c05.leaf and c05.variants. *)
Require Import BV.Model.Base BV.Model.SrcB BV.Model.Twos BV.Model.Int BV.Model.BitStr BV.Model.Oid.
Require Import BV.Proofs.IntP BV.Proofs.IntEncP BV.Proofs.BitStrP BV.Proofs.OidP.

Theorem C05_integer_canonical : forall ty c v, ty < 10 -> octets_ok c = true ->
  prim_decode (int_accessor ty) c = Ok v -> enc_int ty v = c.
Proof. exact int_der_canonical. Qed.

Theorem C05_boolean_canonical : forall c b, octets_ok c = true ->
  prim_decode (to_bool Der) c = Ok b -> enc_bool b = c.
Proof. exact bool_der_canonical. Qed.

(* BIT STRING: re-encoding reproduces the accepted content *)
Theorem C05_bitstring_canonical : forall m c v, prim_decode (bit_from_prim m) c = Ok v ->
  bs_valid v /\ bs_write v = c /\ bs_octets v = tl c /\ bs_unused v = hd 0 c.
Proof. exact bit_accepted_valid. Qed.

(* OID: the accepted content is kept verbatim (the encoder writes it back) *)
Theorem C05_oid_verbatim : forall c, octets_ok c = true ->
  prim_decode oid_from_prim c = if oid_ok c then Ok c else CErr.
Proof. exact oid_from_prim_spec. Qed.

Print Assumptions C05_integer_canonical.
Print Assumptions C05_boolean_canonical.
Print Assumptions C05_bitstring_canonical.
Print Assumptions C05_oid_verbatim.
