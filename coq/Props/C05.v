(* C05 - DER decoding is canonical: re-encoding an accepted value reproduces the input.
   Statements only; every proof is `exact <lemma>`.

   Proved for all inputs:
     - structure: in DER a string of the grammar is a function of its tree
       (C05_der_encoding_unique), so two octet strings that the DER reader maps
       to equal trees are equal (C05_der_reader_injective) and re-encoding the
       tree that was read reproduces the input (C05_der_reencode_identity);
     - typed fields: a typed read that succeeds (any window-isolated leaf
       reader that keeps the limit/data lockstep) consumed exactly one
       well-formed primitive value and delivers the leaf's decode of its
       content (C05_typed_field_sound); instance: re-encoding the value of an
       INTEGER field read in DER gives exactly the octets consumed
       (C05_integer_field_canonical);
     - leaves: all ten integer types and BOOLEAN re-encode to the accepted
       content; Integer, Unsigned, OID, BIT STRING keep it verbatim.
   PARTIAL: as for C04, no single theorem over a schema datatype; restricted
   strings and captured values by streams (c05.leaf, c05.lengths, records). *)
Require Import BV.Model.Base BV.Model.SrcB BV.Model.Twos BV.Model.Int BV.Model.BitStr BV.Model.Oid.
Require Import BV.Model.Length BV.Model.Tag BV.Model.Content BV.Model.Encode.
Require Import BV.Proofs.SrcBP BV.Proofs.IntP BV.Proofs.IntEncP BV.Proofs.BitStrP BV.Proofs.OidP BV.Proofs.ContentP BV.Proofs.WinP
               BV.Proofs.TotalP BV.Proofs.DeltaP BV.Proofs.GrammarP BV.Proofs.EncGrammarP BV.Proofs.TypedP.

Theorem C05_der_encoding_unique :
  (forall t d, GrammarP.enc Der t d -> forall d', GrammarP.enc Der t d' -> d = d') /\
  (forall ts ds, encs Der ts ds -> forall ds', encs Der ts ds' -> ds = ds').
Proof. exact der_encoding_unique. Qed.

Theorem C05_der_reader_injective : forall d1 d2 ts f1 f2,
  octets_ok d1 = true -> octets_ok d2 = true -> (length d1 < f1)%nat -> (length d2 < f2)%nat ->
  fst (decode_src Der (read_all f1) (pure_src d1 None)) = Ok ts ->
  fst (decode_src Der (read_all f2) (pure_src d2 None)) = Ok ts -> d1 = d2.
Proof. exact der_reader_injective. Qed.

Theorem C05_der_reencode_identity : forall e d0 d f,
  structural e -> octets_ok d0 = true -> (length d0 < f)%nat ->
  fst (decode_src Der (read_all f) (pure_src d0 None)) = Ok (tlvs_of e) ->
  enc_write Der e = Ok d -> d = d0.
Proof. exact der_reencode_is_identity. Qed.

Theorem C05_typed_field_sound : forall T (op : mode -> M T) cc s v c' s',
  Win (op (cmd cc)) -> (forall z, Safe (St true z) (op (cmd cc)) (fun _ => St true z)) ->
  nf s -> octets_ok (rem s) = true ->
  process_next_value cc None (prim_closure op) s = (Ok (Some v, c'), s') ->
  c' = cc /\ exists t lw c,
    legal_tag t /\ tag_eqb t END_OF_VALUE = false /\ lenoct (cmd cc) (len c) lw /\
    rem s = (tag_write false t ++ lw ++ c) ++ rem s' /\
    consumed s s' (len (tag_write false t ++ lw ++ c)) /\
    prim_decode (op (cmd cc)) c = Ok v.
Proof. exact @typed_field_sound. Qed.

Theorem C05_integer_field_canonical : forall ty cc s v c' s', ty < 10 -> cmd cc = Der ->
  nf s -> octets_ok (rem s) = true ->
  process_next_value cc None (prim_closure (fun _ => int_accessor ty)) s = (Ok (Some v, c'), s') ->
  exists t d, tlv_write t false (enc_int ty v) = Ok d /\ rem s = d ++ rem s'.
Proof. exact int_field_der_canonical. Qed.


Theorem C05_integer_canonical : forall ty c v, ty < 10 -> octets_ok c = true ->
  prim_decode (int_accessor ty) c = Ok v -> enc_int ty v = c.
Proof. exact int_der_canonical. Qed.

Theorem C05_boolean_canonical : forall c b, octets_ok c = true ->
  prim_decode (to_bool Der) c = Ok b -> enc_bool b = c.
Proof. exact bool_der_canonical. Qed.

(* BIT STRING: re-encoding reproduces the accepted content *)
Theorem C05_bitstring_canonical : forall m c v, prim_decode (bit_from_prim m) c = Ok v ->
  bs_valid v /\ bs_write v = c /\ bs_octets v = tl c /\ bs_unused v = hd 0 c.
Proof. exact bit_accepted_valid. Qed.

(* OID: the accepted content is kept verbatim (the encoder writes it back) *)
Theorem C05_oid_verbatim : forall c, octets_ok c = true ->
  prim_decode oid_from_prim c = if oid_ok c then Ok c else CErr.
Proof. exact oid_from_prim_spec. Qed.

Print Assumptions C05_der_encoding_unique.
Print Assumptions C05_der_reader_injective.
Print Assumptions C05_der_reencode_identity.
Print Assumptions C05_typed_field_sound.
Print Assumptions C05_integer_field_canonical.
Print Assumptions C05_integer_canonical.
Print Assumptions C05_boolean_canonical.
Print Assumptions C05_bitstring_canonical.
Print Assumptions C05_oid_verbatim.
