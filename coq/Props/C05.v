(* C05 - DER decoding is canonical: re-encoding an accepted value reproduces the input.
   Statements only; every proof is `exact <lemma>`.

   Proved for all inputs:
     - structure: in DER a string of the grammar is a function of its tree
       (C05_der_encoding_unique), so two octet strings that the DER reader maps
       to equal trees are equal (C05_der_reader_injective) and re-encoding the
       tree that was read reproduces the input (C05_der_reencode_identity);
     - typed fields: a typed read that succeeds (any window-isolated leaf
       reader that keeps the limit/data lockstep) consumed exactly one
       well-formed primitive value and delivers the leaf's decode of its
       content (C05_typed_field_sound); instance: re-encoding the value of an
       INTEGER field read in DER gives exactly the octets consumed
       (C05_integer_field_canonical);
     - leaves: all ten integer types and BOOLEAN re-encode to the accepted
       content; Integer, Unsigned, OID, BIT STRING keep it verbatim.
     - records: for EVERY schema (tree of SEQUENCE/SET/explicitly tagged
       records over INTEGER (fixed-width and arbitrary-size)/BOOLEAN/NULL/OBJECT IDENTIFIER leaves, any legal
       tags, any nesting)
       whatever the schema's typed readers accept in DER mode - at any
       position, under any limit - is exactly the DER encoding of the value
       they return (C05_schema_sound_in_context); for a whole input the
       consumed octets are that encoding (C05_schema_der_canonical), two
       inputs decoding to the same value are equal (C05_schema_der_injective),
       and the re-encoding reads back as the same value
       (C05_schema_der_reencode).
     - records with OPTIONAL fields: the same for schemas with OPTIONAL record
       fields: an optional read that reports absence has touched nothing, and
       whatever is accepted is the DER encoding of the value returned
       (C05_optional_schema_sound_in_context, C05_optional_schema_der_canonical,
       C05_optional_schema_der_injective, C05_optional_schema_der_reencode).
     - CHOICE: whatever the reader of a CHOICE (alternatives tried in order with
       expected-tag optional reads) accepts in DER mode is the DER encoding of
       the alternative and value it reports, and when it reports absence it has
       touched nothing (C05_choice_sound, C05_choice_der_canonical).
   PARTIAL: CHOICE is a reader of its own rather than a constructor of the schema
   datatype; BIT STRING and string leaves are not in the schema
   datatype (leaf theorems above); restricted strings and captured values by
   streams (c05.leaf, c05.lengths, records). *)
Require Import BV.Model.Base BV.Model.SrcB BV.Model.Twos BV.Model.Int BV.Model.BitStr BV.Model.Oid.
Require Import BV.Model.Length BV.Model.Tag BV.Model.Content BV.Model.Encode.
Require Import BV.Proofs.SrcBP BV.Proofs.IntP BV.Proofs.IntEncP BV.Proofs.BitStrP BV.Proofs.OidP BV.Proofs.ContentP BV.Proofs.WinP
               BV.Proofs.TotalP BV.Proofs.DeltaP BV.Proofs.GrammarP BV.Proofs.EncGrammarP BV.Proofs.TypedP BV.Proofs.SchemaP BV.Proofs.SchemaSoundP BV.Proofs.Schema2P BV.Proofs.Schema2SoundP BV.Proofs.ChoiceP.

Theorem C05_der_encoding_unique :
  (forall t d, GrammarP.enc Der t d -> forall d', GrammarP.enc Der t d' -> d = d') /\
  (forall ts ds, encs Der ts ds -> forall ds', encs Der ts ds' -> ds = ds').
Proof. exact der_encoding_unique. Qed.

Theorem C05_der_reader_injective : forall d1 d2 ts f1 f2,
  octets_ok d1 = true -> octets_ok d2 = true -> (length d1 < f1)%nat -> (length d2 < f2)%nat ->
  fst (decode_src Der (read_all f1) (pure_src d1 None)) = Ok ts ->
  fst (decode_src Der (read_all f2) (pure_src d2 None)) = Ok ts -> d1 = d2.
Proof. exact der_reader_injective. Qed.

Theorem C05_der_reencode_identity : forall e d0 d f,
  structural e -> octets_ok d0 = true -> (length d0 < f)%nat ->
  fst (decode_src Der (read_all f) (pure_src d0 None)) = Ok (tlvs_of e) ->
  enc_write Der e = Ok d -> d = d0.
Proof. exact der_reencode_is_identity. Qed.

Theorem C05_typed_field_sound : forall T (op : mode -> M T) cc s v c' s',
  Win (op (cmd cc)) -> (forall z, Safe (St true z) (op (cmd cc)) (fun _ => St true z)) ->
  nf s -> octets_ok (rem s) = true ->
  process_next_value cc None (prim_closure op) s = (Ok (Some v, c'), s') ->
  c' = cc /\ exists t lw c,
    legal_tag t /\ tag_eqb t END_OF_VALUE = false /\ lenoct (cmd cc) (len c) lw /\
    rem s = (tag_write false t ++ lw ++ c) ++ rem s' /\
    consumed s s' (len (tag_write false t ++ lw ++ c)) /\
    prim_decode (op (cmd cc)) c = Ok v.
Proof. exact @typed_field_sound. Qed.

Theorem C05_integer_field_canonical : forall ty cc s v c' s', ty < 10 -> cmd cc = Der ->
  nf s -> octets_ok (rem s) = true ->
  process_next_value cc None (prim_closure (fun _ => int_accessor ty)) s = (Ok (Some v, c'), s') ->
  exists t d, tlv_write t false (enc_int ty v) = Ok d /\ rem s = d ++ rem s'.
Proof. exact int_field_der_canonical. Qed.


Theorem C05_integer_canonical : forall ty c v, ty < 10 -> octets_ok c = true ->
  prim_decode (int_accessor ty) c = Ok v -> enc_int ty v = c.
Proof. exact int_der_canonical. Qed.

Theorem C05_boolean_canonical : forall c b, octets_ok c = true ->
  prim_decode (to_bool Der) c = Ok b -> enc_bool b = c.
Proof. exact bool_der_canonical. Qed.

(* BIT STRING: re-encoding reproduces the accepted content *)
Theorem C05_bitstring_canonical : forall m c v, prim_decode (bit_from_prim m) c = Ok v ->
  bs_valid v /\ bs_write v = c /\ bs_octets v = tl c /\ bs_unused v = hd 0 c.
Proof. exact bit_accepted_valid. Qed.

(* OID: the accepted content is kept verbatim (the encoder writes it back) *)
Theorem C05_oid_verbatim : forall c, octets_ok c = true ->
  prim_decode oid_from_prim c = if oid_ok c then Ok c else CErr.
Proof. exact oid_from_prim_spec. Qed.

(* records of records of typed fields *)
Theorem C05_schema_sound_in_context : forall s fuel c src v c' src',
  schema_ok s -> kinds_ok s -> nf src -> octets_ok (rem src) = true -> cmd c = Der ->
  dec_s fuel s c src = (Ok (v, c'), src') ->
  nf src' /\ c' = c /\ exists e d, enc_s s v = Some e /\ enc_write Der e = Ok d /\
    rem src = d ++ rem src' /\ consumed src src' (len d).
Proof. exact schema_sound. Qed.

Theorem C05_schema_der_canonical : forall s v d s1,
  schema_ok s -> kinds_ok s -> octets_ok d = true ->
  decode_src Der (dec_s (sdepth s) s) (pure_src d None) = (Ok v, s1) ->
  exists e d0, enc_s s v = Some e /\ enc_write Der e = Ok d0 /\ d = d0 ++ rem s1.
Proof. exact schema_der_canonical. Qed.

Theorem C05_schema_der_injective : forall s v d1 d2,
  schema_ok s -> kinds_ok s -> octets_ok d1 = true -> octets_ok d2 = true ->
  decode_src Der (dec_s (sdepth s) s) (pure_src d1 None) = (Ok v, pure_src [] None) ->
  decode_src Der (dec_s (sdepth s) s) (pure_src d2 None) = (Ok v, pure_src [] None) ->
  d1 = d2.
Proof. exact schema_der_injective. Qed.

Theorem C05_schema_der_reencode : forall s v d s1,
  schema_ok s -> kinds_ok s -> octets_ok d = true ->
  decode_src Der (dec_s (sdepth s) s) (pure_src d None) = (Ok v, s1) ->
  exists e d0, enc_s s v = Some e /\ enc_write Der e = Ok d0 /\ d = d0 ++ rem s1 /\
    decode_src Der (dec_s (sdepth s) s) (pure_src d0 None) = (Ok v, pure_src [] None).
Proof. exact schema_der_reencode. Qed.

Example C05_schema_ex :
  let s := SSeq T_SEQUENCE [SLeaf T_INTEGER (LInt 2); SSeq T_SET [SLeaf T_BOOLEAN LBool; SLeaf T_NULL LNull]] in
  schema_ok s /\ kinds_ok s /\
  decode_src Der (dec_s (sdepth s) s) (pure_src [48; 11; 2; 2; 254; 212; 49; 5; 1; 1; 255; 5; 0] None)
  = (Ok (VSeq [VInt (-300); VSeq [VBool true; VNull]]), pure_src [] None).
Proof. exact schema_sound_example. Qed.

(* records with OPTIONAL fields *)
Theorem C05_optional_schema_sound_in_context : forall s fuel c src o c' src',
  ok2 s -> kinds_ok2 s -> nf src -> octets_ok (rem src) = true -> cmd c = Der ->
  dec2 fuel s c src = (Ok (o, c'), src') ->
  nf src' /\ c' = c /\
  match o with
  | None => src' = src
  | Some v => exists e d, enc2 s v = Some e /\ enc_write Der e = Ok d /\ rem src = d ++ rem src' /\ consumed src src' (len d)
  end.
Proof. exact schema2_sound. Qed.

Theorem C05_optional_schema_der_canonical : forall s v d s1,
  ok2 s -> kinds_ok2 s -> octets_ok d = true ->
  decode_src Der (fun c => mandatory (dec2 (depth2 s) s c)) (pure_src d None) = (Ok v, s1) ->
  exists e d0, enc2 s v = Some e /\ enc_write Der e = Ok d0 /\ d = d0 ++ rem s1.
Proof. exact schema2_der_canonical. Qed.

Theorem C05_optional_schema_der_injective : forall s v d1 d2,
  ok2 s -> kinds_ok2 s -> octets_ok d1 = true -> octets_ok d2 = true ->
  decode_src Der (fun c => mandatory (dec2 (depth2 s) s c)) (pure_src d1 None) = (Ok v, pure_src [] None) ->
  decode_src Der (fun c => mandatory (dec2 (depth2 s) s c)) (pure_src d2 None) = (Ok v, pure_src [] None) ->
  d1 = d2.
Proof. exact schema2_der_injective. Qed.

Theorem C05_optional_schema_der_reencode : forall s v d s1,
  ok2 s -> kinds_ok2 s -> octets_ok d = true ->
  decode_src Der (fun c => mandatory (dec2 (depth2 s) s c)) (pure_src d None) = (Ok v, s1) ->
  exists e d0, enc2 s v = Some e /\ enc_write Der e = Ok d0 /\ d = d0 ++ rem s1 /\
    decode_src Der (fun c => mandatory (dec2 (depth2 s) s c)) (pure_src d0 None) = (Ok v, pure_src [] None).
Proof. exact schema2_der_reencode. Qed.

Print Assumptions C05_optional_schema_sound_in_context.
Print Assumptions C05_optional_schema_der_canonical.
Print Assumptions C05_optional_schema_der_injective.
Print Assumptions C05_optional_schema_der_reencode.
Print Assumptions C05_schema_sound_in_context.
Print Assumptions C05_schema_der_canonical.
Print Assumptions C05_schema_der_injective.
Print Assumptions C05_schema_der_reencode.
Print Assumptions C05_der_encoding_unique.
Print Assumptions C05_der_reader_injective.
Print Assumptions C05_der_reencode_identity.
Print Assumptions C05_typed_field_sound.
Print Assumptions C05_integer_field_canonical.
Print Assumptions C05_integer_canonical.
Print Assumptions C05_boolean_canonical.
Print Assumptions C05_bitstring_canonical.
Print Assumptions C05_oid_verbatim.

Theorem C05_choice_sound : forall alts fuel c src o c' src',
  Forall ok2 alts -> Forall kinds_ok2 alts -> nf src -> octets_ok (rem src) = true -> cmd c = Der ->
  dec_choice fuel alts c src = (Ok (o, c'), src') ->
  nf src' /\ c' = c /\
  match o with
  | None => src' = src
  | Some (i, v) => exists a e d, nth_error alts i = Some a /\ enc2 a v = Some e /\ enc_write Der e = Ok d /\
                     rem src = d ++ rem src' /\ consumed src src' (len d)
  end.
Proof. exact choice_sound. Qed.
Theorem C05_choice_der_canonical : forall alts fuel c src i v c' src',
  Forall ok2 alts -> Forall kinds_ok2 alts -> NoDup (map tag_of alts) ->
  nf src -> octets_ok (rem src) = true -> cmd c = Der ->
  dec_choice fuel alts c src = (Ok (Some (i, v), c'), src') ->
  exists a e d, nth_error alts i = Some a /\ enc2 a v = Some e /\ enc_write Der e = Ok d /\
    rem src = d ++ rem src'.
Proof. exact choice_der_canonical. Qed.
Print Assumptions C05_choice_sound.
Print Assumptions C05_choice_der_canonical.
