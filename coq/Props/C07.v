(* C07 - Decoding results do not depend on how the source delivers its data.
   Statements only; every proof is `exact <lemma>` from Proofs/SourceP.v.

   Level A (Model/Source.v) is the Source trait over the LEAST forgiving legal
   source: a request grants what an arbitrary policy decides, clamped into the
   interval the contract allows; slice() shows only granted octets and
   slice()[i]/bytes()/advance() beyond the grant are a Panic of the model.
   Level B (Model/SrcB.v) is the delivery-free reading the other theorems use.

   Proved for EVERY policy (= every legal delivery schedule, it may depend on
   the request index) and every input:
     - each access pattern of the code (take_u8, take_opt_u8, request-then-
       advance, take_all, the peek step of Tag::take_from_if) returns what its
       Level-B reading returns, leaves the same octets and limit, and never
       touches an ungranted octet;
     - this is closed under sequencing: every decoder that is a tree of those
       patterns (continuations are arbitrary functions of what was read);
     - the identifier and length readers are such trees.
     - so are the conditional tag read Tag::take_from_if (request(1), slice()[0],
       further peeks, advance only on a match), LimitedSource::exhausted, the head
       checks of Integer and Unsigned (the latter looks at slice() again WITHOUT a
       new request and stays within the grant), Primitive::with_slice_all, and on
       top of them Constructed::process_next_value around any closure that is a
       tree, every typed leaf reader, skip/skip_opt/skip_one/skip_all, the generic
       reader, and every program of the language of Model/Prog.v that neither
       captures nor runs a raw Source script, from Mode::decode to the final
       end-of-input check (delivery_free).
   PARTIAL: capture (CaptureSource's offset forwarding; its Level-B theorems are
   C11) is not shown to be such a tree, and with it the routines built on it:
   capture*, OctetString::take_from of a constructed BER string (it captures its
   segments) and the restricted strings on top of it. OctetStringSource is a
   source, not a reader: C16 proves that it honours the contract assumed here of
   every source. For the routines not covered the tie is the correspondence stream
   c07.sources, which runs every program through contract-checking sources of
   10 delivery kinds and compares with the Level-B model. The Level-A reading of a
   composite routine is the tree built from the access patterns; that the code
   performs exactly these accesses is read off the source and exercised by the
   stream c07.grants for the patterns it can reach through the public API. *)
Require Import BV.Model.Base BV.Model.SrcB BV.Model.Length BV.Model.Tag BV.Model.Source.
Require Import BV.Model.Int BV.Model.Content BV.Model.Prog.
Require Import BV.Proofs.SourceP BV.Proofs.TagIfP BV.Proofs.PatP.

(* a request never grants more than there is, never takes a grant back, grants
   at least min(wanted, available), and decides "enough?" like Level B *)
Theorem C07_request_contract : forall pol n r, raw_ok r ->
  exists g r', requestA pol n r = (Ok g, r') /\ raw_ok r' /\
    rdata r' = rdata r /\ rlim r' = rlim r /\ g = vis r' /\
    g <= avail (absA r) /\ N.min n (avail (absA r)) <= g.
Proof. exact requestA_spec. Qed.

Theorem C07_take_u8 : forall pol r, raw_ok r ->
  fst (take_u8_A pol r) = fst (take_u8 (absA r)) /\
  absA (snd (take_u8_A pol r)) = snd (take_u8 (absA r)) /\ raw_ok (snd (take_u8_A pol r)).
Proof. exact take_u8_refines. Qed.

Theorem C07_take_opt_u8 : forall pol r, raw_ok r ->
  fst (take_opt_u8_A pol r) = fst (take_opt_u8 (absA r)) /\
  absA (snd (take_opt_u8_A pol r)) = snd (take_opt_u8 (absA r)) /\ raw_ok (snd (take_opt_u8_A pol r)).
Proof. exact take_opt_u8_refines. Qed.

Theorem C07_request_then_advance : forall pol n r, raw_ok r ->
  fst (skip_n_A pol n r) = fst ((need n ;;; advance n) (absA r)) /\
  absA (snd (skip_n_A pol n r)) = snd ((need n ;;; advance n) (absA r)) /\
  raw_ok (snd (skip_n_A pol n r)).
Proof. exact skip_n_refines. Qed.

Theorem C07_take_all : forall pol r, raw_ok r ->
  fst (take_all_A pol r) = fst (take_all_lim (absA r)) /\
  absA (snd (take_all_A pol r)) = snd (take_all_lim (absA r)) /\
  raw_ok (snd (take_all_A pol r)).
Proof. exact take_all_refines. Qed.

Theorem C07_peek : forall pol i r, raw_ok r ->
  fst (peek_A pol i r) = fst (peek_B i (absA r)) /\
  absA (snd (peek_A pol i r)) = snd (peek_B i (absA r)) /\ raw_ok (snd (peek_A pol i r)).
Proof. exact peek_B_refines. Qed.

(* every tree of access patterns refines its delivery-free reading *)
Theorem C07_pattern_trees_refine : forall T pol (p : pat T) r, raw_ok r ->
  fst (runA pol p r) = fst (runB p (absA r)) /\
  absA (snd (runA pol p r)) = snd (runB p (absA r)) /\ raw_ok (snd (runA pol p r)).
Proof. exact @runA_refines. Qed.

(* in the words of the property: two legal sources over the same octets *)
Theorem C07_delivery_independent : forall T pol1 pol2 (p : pat T) r1 r2,
  raw_ok r1 -> raw_ok r2 -> absA r1 = absA r2 ->
  fst (runA pol1 p r1) = fst (runA pol2 p r2) /\
  absA (snd (runA pol1 p r1)) = absA (snd (runA pol2 p r2)).
Proof. exact @delivery_independent. Qed.

(* the library stays within the source contract *)
Theorem C07_no_ungranted_access : forall T pol (p : pat T) r, raw_ok r ->
  fst (runA pol p r) = Panic -> fst (runB p (absA r)) = Panic.
Proof. exact @no_ungranted_access. Qed.

(* identifier and length octets *)
Theorem C07_headers : forall pol m r, raw_ok r ->
  Ref (runA pol (length_pat m) r) (length_take_from m (absA r)) /\
  Ref (runA pol tag_opt_pat r) (tag_take_opt_from (absA r)).
Proof. exact header_delivery_independent. Qed.

(* the model does notice an ungranted access; the hypotheses are satisfiable *)
Theorem C07_ungranted_access_is_a_panic : fst (indexA 0 (mkRaw [1; 2] 0 None 0)) = Panic.
Proof. exact ungranted_access_panics. Qed.
Theorem C07_example :
  let p := PTakeU8 (fun a => PTakeU8 (fun b => PRet (a, b))) in
  fst (runA (fun _ _ _ => 0) p (mkRaw [7; 9; 4] 0 None 0)) = Ok (7, 9) /\
  fst (runA (fun _ _ av => av) p (mkRaw [7; 9; 4] 0 None 0)) = Ok (7, 9).
Proof. exact delivery_example. Qed.

(* ---- composite routines ---- *)
(* Tag::take_from_if as the code does it, for every grant policy *)
Theorem C07_take_from_if : forall pol e r, raw_ok r ->
  fst (tagif_A pol e r) = fst (tag_take_from_if e (absA r)) /\
  absA (snd (tagif_A pol e r)) = snd (tag_take_from_if e (absA r)) /\ raw_ok (snd (tagif_A pol e r)).
Proof. exact tagif_refines. Qed.
Theorem C07_take_from_if_within_grant : forall pol e r, raw_ok r -> fst (tagif_A pol e r) <> Panic.
Proof. exact tagif_no_ungranted_access. Qed.
Theorem C07_exhausted : forall pol r, raw_ok r ->
  fst (exhausted_A pol r) = fst (src_exhausted (absA r)) /\
  absA (snd (exhausted_A pol r)) = snd (src_exhausted (absA r)) /\ raw_ok (snd (exhausted_A pol r)).
Proof. exact exhausted_refines. Qed.
Theorem C07_look : forall pol n r, raw_ok r ->
  fst (look_A pol n r) = fst (look_B n (absA r)) /\
  absA (snd (look_A pol n r)) = snd (look_B n (absA r)) /\ raw_ok (snd (look_A pol n r)).
Proof. exact look_refines. Qed.
Theorem C07_with_slice_all : forall pol adv r, raw_ok r ->
  fst (slice_then_A pol adv r) = fst (slice_then_B adv (absA r)) /\
  absA (snd (slice_then_A pol adv r)) = snd (slice_then_B adv (absA r)) /\ raw_ok (snd (slice_then_A pol adv r)).
Proof. exact slice_then_refines. Qed.
(* Unsigned::check_head: the second look at slice() needs no second request *)
Theorem C07_unsigned_head : forall pol r, raw_ok r ->
  fst (uns_check_head_A pol r) = fst (uns_check_head (absA r)) /\
  absA (snd (uns_check_head_A pol r)) = snd (uns_check_head (absA r)) /\ raw_ok (snd (uns_check_head_A pol r)).
Proof. exact uns_head_refines. Qed.

(* a routine is delivery-free when it is the reading of a tree of access patterns: then it returns the same
   from every legal source, leaves the same octets and limit, and touches nothing ungranted *)
Theorem C07_delivery_free_unfold : forall T (m : M T), delivery_free m <->
  exists p : pat T,
    (forall s, m s = runB p s) /\
    (forall pol r, raw_ok r ->
       fst (runA pol p r) = fst (m (absA r)) /\ absA (snd (runA pol p r)) = snd (m (absA r)) /\
       raw_ok (snd (runA pol p r))) /\
    (forall pol1 pol2 r1 r2, raw_ok r1 -> raw_ok r2 -> absA r1 = absA r2 ->
       fst (runA pol1 p r1) = fst (runA pol2 p r2) /\
       absA (snd (runA pol1 p r1)) = absA (snd (runA pol2 p r2))) /\
    (forall pol r, raw_ok r -> fst (runA pol p r) = Panic -> fst (m (absA r)) = Panic).
Proof. exact (fun T m => conj (fun H => H) (fun H => H)). Qed.

Theorem C07_process_next_value : forall T c expected (op : tag -> content -> M (T * content)),
  (forall t ct, PatM (op t ct)) -> delivery_free (process_next_value c expected op).
Proof. exact @pnv_delivery_free. Qed.
Theorem C07_typed_readers : forall ty c e,
  delivery_free (leaf_reader ty c e) /\ delivery_free (mandatory (leaf_reader ty c e)).
Proof. exact typed_readers_delivery_free. Qed.
Theorem C07_skip_and_generic_read : forall fuel c flt_ n,
  delivery_free (skip_opt fuel c flt_) /\ delivery_free (skip_mand fuel c flt_) /\
  delivery_free (skip_one fuel c) /\ delivery_free (skip_all fuel c n) /\ delivery_free (read_all fuel c).
Proof. exact skip_read_delivery_free. Qed.
Theorem C07_plain_programs : forall fuel ps c lg, forallb plain_p ps = true ->
  delivery_free (exec fuel ps c lg).
Proof. exact plain_programs_delivery_free. Qed.
Theorem C07_plain_decode : forall fuel ps m, forallb plain_p ps = true ->
  delivery_free (decode_src m (fun c => exec fuel ps c [])).
Proof. exact plain_decode_delivery_free. Qed.
Theorem C07_plain_example : forallb plain_p ex_prog = true /\
  fst (decode_src Der (fun c => exec 20 ex_prog c []) (pure_src [48; 6; 2; 1; 5; 1; 1; 255] None))
  = Ok [1; 1; 48; 1; 1; 2; 5; 1; 1; 1; 1]%Z.
Proof. exact plain_example. Qed.
Theorem C07_take_from_if_example :
  fst (tagif_A (fun _ _ _ => 0) (159, 129, 72, 0) (mkRaw [159; 129; 72; 1; 42] 0 (Some 5) 0)) = Ok (Some false) /\
  fst (tagif_A (fun _ _ av => av) (159, 129, 72, 0) (mkRaw [159; 129; 72; 1; 42] 0 (Some 5) 0)) = Ok (Some false) /\
  rdata (snd (tagif_A (fun _ _ _ => 0) (159, 129, 72, 0) (mkRaw [159; 129; 72; 1; 42] 0 (Some 5) 0))) = [1; 42].
Proof. exact tagif_example. Qed.

Print Assumptions C07_request_contract.
Print Assumptions C07_take_u8.
Print Assumptions C07_take_opt_u8.
Print Assumptions C07_request_then_advance.
Print Assumptions C07_take_all.
Print Assumptions C07_peek.
Print Assumptions C07_pattern_trees_refine.
Print Assumptions C07_delivery_independent.
Print Assumptions C07_no_ungranted_access.
Print Assumptions C07_headers.
Print Assumptions C07_ungranted_access_is_a_panic.
Print Assumptions C07_example.
Print Assumptions C07_take_from_if.
Print Assumptions C07_take_from_if_within_grant.
Print Assumptions C07_exhausted.
Print Assumptions C07_look.
Print Assumptions C07_with_slice_all.
Print Assumptions C07_unsigned_head.
Print Assumptions C07_delivery_free_unfold.
Print Assumptions C07_process_next_value.
Print Assumptions C07_typed_readers.
Print Assumptions C07_skip_and_generic_read.
Print Assumptions C07_plain_programs.
Print Assumptions C07_plain_decode.
Print Assumptions C07_plain_example.
Print Assumptions C07_take_from_if_example.
