(* C07 - Decoding results do not depend on how the source delivers its data.
   Statements only; every proof is `exact <lemma>` from Proofs/SourceP.v.

   Level A (Model/Source.v) is the Source trait over the LEAST forgiving legal
   source: a request grants what an arbitrary policy decides, clamped into the
   interval the contract allows; slice() shows only granted octets and
   slice()[i]/bytes()/advance() beyond the grant are a Panic of the model.
   Level B (Model/SrcB.v) is the delivery-free reading the other theorems use.

   Proved for EVERY policy (= every legal delivery schedule, it may depend on
   the request index) and every input:
     - each access pattern of the code (take_u8, take_opt_u8, request-then-
       advance, take_all, the peek step of Tag::take_from_if) returns what its
       Level-B reading returns, leaves the same octets and limit, and never
       touches an ungranted octet;
     - this is closed under sequencing: every decoder that is a tree of those
       patterns (continuations are arbitrary functions of what was read);
     - the identifier and length readers are such trees.
   PARTIAL: that every composite routine of bcder (process_next_value, skip,
   capture, the typed readers, OctetStringSource) is such a tree is shown for
   the header readers only; for the rest the tie is the correspondence stream
   c07.sources, which runs every program through contract-checking sources of
   8 delivery kinds and compares with the Level-B model. *)
Require Import BV.Model.Base BV.Model.SrcB BV.Model.Length BV.Model.Tag BV.Model.Source.
Require Import BV.Proofs.SourceP.

(* a request never grants more than there is, never takes a grant back, grants
   at least min(wanted, available), and decides "enough?" like Level B *)
Theorem C07_request_contract : forall pol n r, raw_ok r ->
  exists g r', requestA pol n r = (Ok g, r') /\ raw_ok r' /\
    rdata r' = rdata r /\ rlim r' = rlim r /\ g = vis r' /\
    g <= avail (absA r) /\ N.min n (avail (absA r)) <= g.
Proof. exact requestA_spec. Qed.

Theorem C07_take_u8 : forall pol r, raw_ok r ->
  fst (take_u8_A pol r) = fst (take_u8 (absA r)) /\
  absA (snd (take_u8_A pol r)) = snd (take_u8 (absA r)) /\ raw_ok (snd (take_u8_A pol r)).
Proof. exact take_u8_refines. Qed.

Theorem C07_take_opt_u8 : forall pol r, raw_ok r ->
  fst (take_opt_u8_A pol r) = fst (take_opt_u8 (absA r)) /\
  absA (snd (take_opt_u8_A pol r)) = snd (take_opt_u8 (absA r)) /\ raw_ok (snd (take_opt_u8_A pol r)).
Proof. exact take_opt_u8_refines. Qed.

Theorem C07_request_then_advance : forall pol n r, raw_ok r ->
  fst (skip_n_A pol n r) = fst ((need n ;;; advance n) (absA r)) /\
  absA (snd (skip_n_A pol n r)) = snd ((need n ;;; advance n) (absA r)) /\
  raw_ok (snd (skip_n_A pol n r)).
Proof. exact skip_n_refines. Qed.

Theorem C07_take_all : forall pol r, raw_ok r ->
  fst (take_all_A pol r) = fst (take_all_lim (absA r)) /\
  absA (snd (take_all_A pol r)) = snd (take_all_lim (absA r)) /\
  raw_ok (snd (take_all_A pol r)).
Proof. exact take_all_refines. Qed.

Theorem C07_peek : forall pol i r, raw_ok r ->
  fst (peek_A pol i r) = fst (peek_B i (absA r)) /\
  absA (snd (peek_A pol i r)) = snd (peek_B i (absA r)) /\ raw_ok (snd (peek_A pol i r)).
Proof. exact peek_B_refines. Qed.

(* every tree of access patterns refines its delivery-free reading *)
Theorem C07_pattern_trees_refine : forall T pol (p : pat T) r, raw_ok r ->
  fst (runA pol p r) = fst (runB p (absA r)) /\
  absA (snd (runA pol p r)) = snd (runB p (absA r)) /\ raw_ok (snd (runA pol p r)).
Proof. exact @runA_refines. Qed.

(* in the words of the property: two legal sources over the same octets *)
Theorem C07_delivery_independent : forall T pol1 pol2 (p : pat T) r1 r2,
  raw_ok r1 -> raw_ok r2 -> absA r1 = absA r2 ->
  fst (runA pol1 p r1) = fst (runA pol2 p r2) /\
  absA (snd (runA pol1 p r1)) = absA (snd (runA pol2 p r2)).
Proof. exact @delivery_independent. Qed.

(* the library stays within the source contract *)
Theorem C07_no_ungranted_access : forall T pol (p : pat T) r, raw_ok r ->
  fst (runA pol p r) = Panic -> fst (runB p (absA r)) = Panic.
Proof. exact @no_ungranted_access. Qed.

(* identifier and length octets *)
Theorem C07_headers : forall pol m r, raw_ok r ->
  Ref (runA pol (length_pat m) r) (length_take_from m (absA r)) /\
  Ref (runA pol tag_opt_pat r) (tag_take_opt_from (absA r)).
Proof. exact header_delivery_independent. Qed.

(* the model does notice an ungranted access; the hypotheses are satisfiable *)
Theorem C07_ungranted_access_is_a_panic : fst (indexA 0 (mkRaw [1; 2] 0 None 0)) = Panic.
Proof. exact ungranted_access_panics. Qed.
Theorem C07_example :
  let p := PTakeU8 (fun a => PTakeU8 (fun b => PRet (a, b))) in
  fst (runA (fun _ _ _ => 0) p (mkRaw [7; 9; 4] 0 None 0)) = Ok (7, 9) /\
  fst (runA (fun _ _ av => av) p (mkRaw [7; 9; 4] 0 None 0)) = Ok (7, 9).
Proof. exact delivery_example. Qed.

Print Assumptions C07_request_contract.
Print Assumptions C07_take_u8.
Print Assumptions C07_take_opt_u8.
Print Assumptions C07_request_then_advance.
Print Assumptions C07_take_all.
Print Assumptions C07_peek.
Print Assumptions C07_pattern_trees_refine.
Print Assumptions C07_delivery_independent.
Print Assumptions C07_no_ungranted_access.
Print Assumptions C07_headers.
Print Assumptions C07_ungranted_access_is_a_panic.
Print Assumptions C07_example.
