(* C12 - Identifier octets and tags correspond one-to-one.
   Statements only; every proof is `exact <lemma>` from Proofs/TagP.v. *)
Require Import BV.Model.Base BV.Model.SrcB BV.Model.Length BV.Model.Tag.
Require Import BV.Proofs.SrcBP BV.Proofs.TagP.

(* Constructing a tag is total for every class and every number up to
   0x1FFFFF (beyond that it is the documented panic). *)
Theorem C12_new_total : forall cls n, is_class cls -> n <= 2097151 ->
  exists t, tag_new cls n = Ok t.
Proof. exact tag_new_total. Qed.
Theorem C12_new_panics_beyond : forall cls n, 2097151 < n -> tag_new cls n = Panic.
Proof. exact tag_new_panics. Qed.

(* class and number are recovered from the constructed tag *)
Theorem C12_number_class : forall cls n t, is_class cls ->
  tag_new cls n = Ok t -> tag_number t = n /\ tag_class t = cls.
Proof. exact tag_number_class. Qed.

(* the written form is the minimal X.690 identifier (8.1.2), primitive or
   constructed, and the reported size is what is written *)
Theorem C12_write_minimal : forall cls n t c, is_class cls ->
  tag_new cls n = Ok t -> ident_ok (tag_write c t) cls c n = true.
Proof. exact tag_write_minimal. Qed.
Theorem C12_encoded_len : forall cls n t c, is_class cls ->
  tag_new cls n = Ok t -> tag_encoded_len t = len (tag_write c t).
Proof. exact tag_encoded_len_correct. Qed.

(* reading back what was written returns the same tag and flag and consumes
   exactly the identifier octets, under any sufficient limit *)
Theorem C12_read_back : forall cls n t c r l, is_class cls -> tag_new cls n = Ok t ->
  lim_ge l (len (tag_write c t)) ->
  tag_take_from (mkSrc (tag_write c t ++ r) l None)
  = (Ok (t, c), mkSrc r (lim_sub l (len (tag_write c t))) None).
Proof. exact tag_read_back. Qed.

(* every tag the decoder returns is the constructed tag of its class and
   number, and re-writing it reproduces exactly the octets consumed: distinct
   identifier octets never yield equal tags, equal class and number never
   yield unequal tags *)
Theorem C12_decoder_canonical : forall d t c s', octets_ok d = true ->
  tag_take_from (pure_src d None) = (Ok (t, c), s') ->
  is_class (tag_class t) /\ tag_number t <= 2097151 /\
  tag_new (tag_class t) (tag_number t) = Ok t /\
  d = tag_write c t ++ rem s' /\ s' = pure_src (rem s') None.
Proof. exact tag_decoder_canonical. Qed.

(* conditional reading: consumes the identifier exactly when it equals the
   expected tag ... *)
Theorem C12_take_if_iff : forall cls n e d c s', is_class cls -> tag_new cls n = Ok e ->
  octets_ok d = true ->
  (tag_take_from_if e (pure_src d None) = (Ok (Some c), s') <->
   tag_take_from (pure_src d None) = (Ok (e, c), s')).
Proof. exact tag_take_from_if_iff. Qed.
(* ... and leaves the source untouched otherwise (absence or content error) *)
Theorem C12_take_if_untouched : forall e d r s',
  tag_take_from_if e (pure_src d None) = (r, s') ->
  (forall c, r <> Ok (Some c)) -> s' = pure_src d None /\ (r = Ok None \/ r = CErr).
Proof. exact tag_take_from_if_untouched. Qed.

(* non-vacuity *)
Example C12_ex1 : tag_new 128 37 = Ok (159, 37, 0, 0) /\ tag_write true (159,37,0,0) = [191; 37].
Proof. split; reflexivity. Qed.
Example C12_ex_nonminimal_rejected :
  fst (tag_take_from (pure_src [31; 5; 0] None)) = CErr /\
  fst (tag_take_from (pure_src [31; 128; 37; 0] None)) = CErr.
Proof. split; reflexivity. Qed.

Print Assumptions C12_new_total.
Print Assumptions C12_new_panics_beyond.
Print Assumptions C12_number_class.
Print Assumptions C12_write_minimal.
Print Assumptions C12_encoded_len.
Print Assumptions C12_read_back.
Print Assumptions C12_decoder_canonical.
Print Assumptions C12_take_if_iff.
Print Assumptions C12_take_if_untouched.
