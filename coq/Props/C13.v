(* C13 - Length octets are written minimally and read back exactly, per mode.
   Statements only; every proof is `exact <lemma>` from Proofs/LengthP.v. *)
Require Import BV.Model.Base BV.Model.SrcB BV.Model.Length.
Require Import BV.Proofs.SrcBP BV.Proofs.LengthP.

(* Writer: for every n < 2^32 the header writer produces octets, they are the
   shortest definite form of n (X.690 8.1.3), and the reported size is the
   number of octets written. *)
Theorem C13_write_total : forall n, n < 2^32 -> exists w, length_write n = Ok w.
Proof. exact length_write_total. Qed.

Theorem C13_write_minimal : forall n w,
  length_write n = Ok w -> min_len_ok w = true /\ len_value w = n.
Proof. exact length_write_minimal. Qed.

Theorem C13_encoded_len : forall n w,
  length_write n = Ok w -> length_encoded_len n = Ok (len w).
Proof. exact length_encoded_len_correct. Qed.

(* documented misuse: lengths of 2^32 and more panic ("excessive length"),
   consistently in both functions *)
Theorem C13_excessive : forall n, 2^32 <= n ->
  length_write n = Panic /\ length_encoded_len n = Panic.
Proof. exact length_write_panics. Qed.

(* Every mode reads the written form back as n, consuming exactly the
   octets written and nothing of what follows, under any sufficient limit. *)
Theorem C13_read_back : forall n m w r l,
  length_write n = Ok w -> lim_ge l (len w) ->
  length_take_from m (mkSrc (w ++ r) l None)
  = (Ok (Definite_ n), mkSrc r (lim_sub l (len w)) None).
Proof. exact length_read_back. Qed.

(* Reader, on every octet string: big-endian value in BER; CER/DER accept a
   long form only if it is the shortest form; 0x80 is indefinite; more than
   four length octets and truncated forms are content errors. *)
Theorem C13_reader_table : forall m d, octets_ok d = true ->
  fst (length_take_from m (pure_src d None)) = res_map fst (length_read_spec m d) /\
  (forall v r, length_read_spec m d = Ok (v, r) ->
     length_take_from m (pure_src d None) = (Ok v, pure_src r None)).
Proof. exact length_read_spec_correct. Qed.

(* non-vacuity *)
Example C13_ex_write : length_write 300 = Ok [130; 1; 44]. Proof. reflexivity. Qed.
Example C13_ex_read_der_nonminimal :
  fst (length_take_from Der (pure_src [129; 5] None)) = CErr /\
  fst (length_take_from Ber (pure_src [129; 5] None)) = Ok (Definite_ 5).
Proof. split; reflexivity. Qed.

Print Assumptions C13_write_total.
Print Assumptions C13_write_minimal.
Print Assumptions C13_encoded_len.
Print Assumptions C13_excessive.
Print Assumptions C13_read_back.
Print Assumptions C13_reader_table.
