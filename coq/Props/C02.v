(* C02 - Generic decoding accepts exactly well-formed X.690 structure for the mode.
   Statements only; every proof is `exact <lemma>`.

   The grammar (Proofs/GrammarP.v, `enc` / `encs`) is the X.690 structure as
   an inductive relation between trees and octet strings: a value is a legal
   minimal identifier (C12), length octets denoting the content length in the
   mode (C13: any form up to four length octets in BER, the shortest in
   CER/DER), then for a primitive its content, for a constructed value either
   (not in CER) a definite length and the encodings of its members, or (not
   in DER) 80, the members and an end-of-contents; tag universal 0 is never a
   value; members are encoded in the same mode.

   Proved, for every octet string, every mode, every nesting depth:
     C02_accepts_exactly_the_grammar - the generic reader (read everything,
       descend into constructed values, take the content of primitive ones)
       succeeds with tree ts  IFF  the input is encs m ts: both directions,
       including that the tree delivered is exactly the one encoded and that
       the whole input is consumed;
     C02_one_value_anywhere - reading ONE value at any position (top level,
       inside a definite or an indefinite parent, under any limit) that
       succeeds has consumed exactly one well-formed encoding d of the value
       delivered, the limit went down by |d|, the parent is unchanged;
     C02_wellformed_value_is_read - conversely every well-formed value is read
       at any such position;
     C02_mode_switch_accepted / _sound - an explicit mode switch between
       values (Constructed::set_mode): a caller that reads one value under mode
       m and the rest under mode m' accepts exactly the inputs that are a
       value of mode m followed by values of mode m'; each value obeys the
       grammar of the mode in force when it is read (the value theorems above
       quantify over the reader's state, mode included);
   together with the per-step rejection rules and window isolation below.
   By streams only: mode switches inside a nested closure as a statement about
   the whole input, and the choice of how many values to read (c02.prog, with
   an independent reference parser). *)
Require Import BV.Model.Base BV.Model.SrcB BV.Model.Length BV.Model.Tag BV.Model.Content.
Require Import BV.Proofs.SrcBP BV.Proofs.TagP BV.Proofs.ContentP BV.Proofs.WinP BV.Proofs.GrammarP.

(* the whole-input statement, with the fuel the streams use (more than |d|) *)
Theorem C02_accepts_exactly_the_grammar : forall m d ts fuel,
  octets_ok d = true -> (length d < fuel)%nat ->
  (fst (decode_src m (read_all fuel) (pure_src d None)) = Ok ts <-> encs m ts d).
Proof. exact reader_accepts_exactly_the_grammar. Qed.

(* one value, at any position *)
Theorem C02_one_value_anywhere : forall f c s t c' s',
  nf s -> octets_ok (rem s) = true ->
  process_next_value c None (rd f) s = (Ok (Some t, c'), s') ->
  nf s' /\ c' = c /\ exists d, enc (cmd c) t d /\ rem s = d ++ rem s' /\ consumed s s' (len d).
Proof. exact (fun f => value_sound f (grammar_sound f)). Qed.

Theorem C02_wellformed_value_is_read : forall m t d, enc m t d ->
  forall fuel c rest l, (size t <= fuel)%nat -> cmd c = m -> octets_ok (d ++ rest) = true ->
    lim_ge l (len d) -> may_start c l ->
    process_next_value c None (rd fuel) (mkSrc (d ++ rest) l None)
    = (Ok (Some t, c), mkSrc rest (lim_sub l (len d)) None).
Proof. exact (fun m => proj1 (grammar_complete m)). Qed.

(* an explicit mode switch (Constructed::set_mode) between values: the caller reads one value under mode m,
   switches the decoder to m' and reads the rest - it accepts exactly the inputs that are a value of mode m
   followed by values of mode m', and delivers those trees *)
Theorem C02_mode_switch_accepted : forall m m' t d ts ds fuel, enc m t d -> encs m' ts ds ->
  octets_ok (d ++ ds) = true -> (size t <= fuel)%nat -> (sizes ts <= fuel)%nat ->
  decode_src m (fun c =>
      x <- mandatory (process_next_value c None (rd fuel)) ;; let '(v, c1) := x in
      y <- read_all fuel (mkCons (cst c1) m') ;; let '(vs, c2) := y in ret (v :: vs, c2))
    (pure_src (d ++ ds) None)
  = (Ok (t :: ts), pure_src [] None).
Proof. exact mode_switch_accepted. Qed.
Theorem C02_mode_switch_sound : forall m m' fuel input t ts s', octets_ok input = true ->
  decode_src m (fun c =>
      x <- mandatory (process_next_value c None (rd fuel)) ;; let '(v, c1) := x in
      y <- read_all fuel (mkCons (cst c1) m') ;; let '(vs, c2) := y in ret (v :: vs, c2))
    (pure_src input None) = (Ok (t :: ts), s') ->
  exists d ds, enc m t d /\ encs m' ts ds /\ input = d ++ ds /\ rem s' = [].
Proof. exact mode_switch_sound. Qed.

Theorem C02_grammar_example :
  encs Ber [TCons T_SEQUENCE [TPrim T_INTEGER [5]; TCons T_SET []]] [48; 7; 2; 1; 5; 49; 128; 0; 0].
Proof. exact grammar_example. Qed.


(* a well-formed present value (canonical identifier, shortest definite
   length, content of that length within the enclosing limit) is accepted in
   every mode and delivered exactly: its tag and form, a source narrowed to
   exactly its content, then "content exhausted", then the enclosing limit
   restored and the source positioned right after the value *)
Theorem C02_value_step_partial :
  forall T (c : cons) (op : tag -> content -> M (T * content)) cls n t k L lw body rest l,
  is_class cls -> tag_new cls n = Ok t -> tag_eqb t END_OF_VALUE = false ->
  length_write L = Ok lw -> len body = L ->
  lim_ge l (len (tag_write k t) + len lw + L) ->
  cons_open c (mkSrc (tag_write k t ++ lw ++ body ++ rest) l None) ->
  cst c <> Unbounded ->
  (k && mode_eqb (cmd c) Cer = false) ->
  let l1 := lim_sub l (len (tag_write k t) + len lw) in
  let ct := if k then CCons (mkCons Definite (cmd c)) else CPrim (cmd c) in
  process_next_value c None op (mkSrc (tag_write k t ++ lw ++ body ++ rest) l None)
  = (rc <- op t ct ;; let '(r, ct') := rc in
     content_exhausted ct' ;;; set_limit (lim_sub l1 L) ;;; ret (Some r, c))
    (mkSrc (body ++ rest) (Some L) None).
Proof. exact @present_value_delivered. Qed.

(* end-of-contents is only accepted as the terminator of an indefinite value *)
Theorem C02_eoc_only_terminates_indefinite :
  forall T (c : cons) (op : tag -> content -> M (T * content)) lw r l,
  cst c <> Indefinite -> cst c <> Unbounded ->
  cons_open c (mkSrc (0 :: lw ++ r) l None) -> lim_ge l (1 + len lw) ->
  length_write 0 = Ok lw ->
  fst (process_next_value c None op (mkSrc (0 :: lw ++ r) l None)) = CErr.
Proof. exact @eoc_outside_indefinite_rejected. Qed.

(* form rules of the modes and "no value extends past its parent", for any
   closure: primitive+indefinite rejected everywhere, indefinite rejected in
   DER, definite constructed rejected in CER, a length beyond what is left of
   the parent rejected *)
Theorem C02_form_rules :
  forall T (c : cons) (op : tag -> content -> M (T * content)) t k s,
  tag_eqb t END_OF_VALUE = false ->
  let cont := fun (l : length_) =>
    match l with
    | Definite_ n =>
        old <- get_lim ;;
        (match old with Some li => if li <? n then cerr else ret tt | None => ret tt end) ;;;
        set_limit (Some n) ;;;
        (if k && mode_eqb (cmd c) Cer then cerr else ret tt) ;;;
        let ct := if k then CCons (mkCons Definite (cmd c)) else CPrim (cmd c) in
        rc <- op t ct ;; let '(r, ct') := rc in
        content_exhausted ct' ;;; set_limit (lim_sub old n) ;;; ret (Some r, c)
    | Indefinite_ =>
        if negb k || mode_eqb (cmd c) Der then cerr else
        rc <- op t (CCons (mkCons Indefinite (cmd c))) ;; let '(r, ct') := rc in
        content_exhausted ct' ;;; ret (Some r, c)
    end in
  (k = false -> fst (cont Indefinite_ s) = CErr) /\
  (cmd c = Der -> fst (cont Indefinite_ s) = CErr) /\
  (k = true -> cmd c = Cer -> forall n, fst (cont (Definite_ n) s) = CErr) /\
  (forall n li, lim s = Some li -> li < n -> fst (cont (Definite_ n) s) = CErr).
Proof. exact @form_rules_enforced. Qed.

(* reading inside a value is independent of everything after that value *)
Theorem C02_nested_values_stay_inside_parent :
  forall T c exp (op : tag -> content -> M (T * content)),
  DefOp op -> (forall t ct, Win (op t ct)) -> Win (process_next_value c exp op).
Proof. exact @Win_process_next_value. Qed.

(* non-vacuity: a three-level mixed tree, each mode *)
Example C02_ex_ber :
  fst (decode_src Ber (fun c => read_all 20 c) (pure_src [48;128; 2;1;5; 36;128; 4;2;97;98; 0;0; 0;0] None))
  = Ok [TCons T_SEQUENCE [TPrim T_INTEGER [5]; TCons T_OCTET_STRING [TPrim T_OCTET_STRING [97;98]]]].
Proof. vm_compute. reflexivity. Qed.
Example C02_ex_der_rejects_indefinite :
  fst (decode_src Der (fun c => read_all 20 c) (pure_src [48;128; 0;0] None)) = CErr.
Proof. vm_compute. reflexivity. Qed.

Print Assumptions C02_accepts_exactly_the_grammar.
Print Assumptions C02_one_value_anywhere.
Print Assumptions C02_wellformed_value_is_read.
Print Assumptions C02_grammar_example.
Print Assumptions C02_value_step_partial.
Print Assumptions C02_eoc_only_terminates_indefinite.
Print Assumptions C02_form_rules.
Print Assumptions C02_nested_values_stay_inside_parent.
Print Assumptions C02_mode_switch_accepted.
Print Assumptions C02_mode_switch_sound.
