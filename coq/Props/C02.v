(* C02 - Generic decoding accepts exactly well-formed X.690 structure for the mode.
   Statements only; every proof is `exact <lemma>`.

   STATUS: partial. What is proved here, for every caller closure and every
   continuation of the input, are the per-value (one header-processing step)
   acceptance and rejection rules from which the grammar is built, and that
   nested values never extend past their parent (window isolation). The
   whole-input statement "read_all succeeds iff the octets are Enc m ts"
   (induction over the tree, both directions) is NOT proved in this
   development; it is decided by the c02.prog correspondence against an
   independent reference X.690 parser (see evidence). *)
Require Import BV.Model.Base BV.Model.SrcB BV.Model.Length BV.Model.Tag BV.Model.Content.
Require Import BV.Proofs.SrcBP BV.Proofs.TagP BV.Proofs.ContentP BV.Proofs.WinP.

(* a well-formed present value (canonical identifier, shortest definite
   length, content of that length within the enclosing limit) is accepted in
   every mode and delivered exactly: its tag and form, a source narrowed to
   exactly its content, then "content exhausted", then the enclosing limit
   restored and the source positioned right after the value *)
Theorem C02_value_step_partial :
  forall T (c : cons) (op : tag -> content -> M (T * content)) cls n t k L lw body rest l,
  is_class cls -> tag_new cls n = Ok t -> tag_eqb t END_OF_VALUE = false ->
  length_write L = Ok lw -> len body = L ->
  lim_ge l (len (tag_write k t) + len lw + L) ->
  cons_open c (mkSrc (tag_write k t ++ lw ++ body ++ rest) l None) ->
  cst c <> Unbounded ->
  (k && mode_eqb (cmd c) Cer = false) ->
  let l1 := lim_sub l (len (tag_write k t) + len lw) in
  let ct := if k then CCons (mkCons Definite (cmd c)) else CPrim (cmd c) in
  process_next_value c None op (mkSrc (tag_write k t ++ lw ++ body ++ rest) l None)
  = (rc <- op t ct ;; let '(r, ct') := rc in
     content_exhausted ct' ;;; set_limit (lim_sub l1 L) ;;; ret (Some r, c))
    (mkSrc (body ++ rest) (Some L) None).
Proof. exact @present_value_delivered. Qed.

(* end-of-contents is only accepted as the terminator of an indefinite value *)
Theorem C02_eoc_only_terminates_indefinite :
  forall T (c : cons) (op : tag -> content -> M (T * content)) lw r l,
  cst c <> Indefinite -> cst c <> Unbounded ->
  cons_open c (mkSrc (0 :: lw ++ r) l None) -> lim_ge l (1 + len lw) ->
  length_write 0 = Ok lw ->
  fst (process_next_value c None op (mkSrc (0 :: lw ++ r) l None)) = CErr.
Proof. exact @eoc_outside_indefinite_rejected. Qed.

(* form rules of the modes and "no value extends past its parent", for any
   closure: primitive+indefinite rejected everywhere, indefinite rejected in
   DER, definite constructed rejected in CER, a length beyond what is left of
   the parent rejected *)
Theorem C02_form_rules :
  forall T (c : cons) (op : tag -> content -> M (T * content)) t k s,
  tag_eqb t END_OF_VALUE = false ->
  let cont := fun (l : length_) =>
    match l with
    | Definite_ n =>
        old <- get_lim ;;
        (match old with Some li => if li <? n then cerr else ret tt | None => ret tt end) ;;;
        set_limit (Some n) ;;;
        (if k && mode_eqb (cmd c) Cer then cerr else ret tt) ;;;
        let ct := if k then CCons (mkCons Definite (cmd c)) else CPrim (cmd c) in
        rc <- op t ct ;; let '(r, ct') := rc in
        content_exhausted ct' ;;; set_limit (lim_sub old n) ;;; ret (Some r, c)
    | Indefinite_ =>
        if negb k || mode_eqb (cmd c) Der then cerr else
        rc <- op t (CCons (mkCons Indefinite (cmd c))) ;; let '(r, ct') := rc in
        content_exhausted ct' ;;; ret (Some r, c)
    end in
  (k = false -> fst (cont Indefinite_ s) = CErr) /\
  (cmd c = Der -> fst (cont Indefinite_ s) = CErr) /\
  (k = true -> cmd c = Cer -> forall n, fst (cont (Definite_ n) s) = CErr) /\
  (forall n li, lim s = Some li -> li < n -> fst (cont (Definite_ n) s) = CErr).
Proof. exact @form_rules_enforced. Qed.

(* reading inside a value is independent of everything after that value *)
Theorem C02_nested_values_stay_inside_parent :
  forall T c exp (op : tag -> content -> M (T * content)),
  DefOp op -> (forall t ct, Win (op t ct)) -> Win (process_next_value c exp op).
Proof. exact @Win_process_next_value. Qed.

(* non-vacuity: a three-level mixed tree, each mode *)
Example C02_ex_ber :
  fst (decode_src Ber (fun c => read_all 20 c) (pure_src [48;128; 2;1;5; 36;128; 4;2;97;98; 0;0; 0;0] None))
  = Ok [TCons T_SEQUENCE [TPrim T_INTEGER [5]; TCons T_OCTET_STRING [TPrim T_OCTET_STRING [97;98]]]].
Proof. vm_compute. reflexivity. Qed.
Example C02_ex_der_rejects_indefinite :
  fst (decode_src Der (fun c => read_all 20 c) (pure_src [48;128; 0;0] None)) = CErr.
Proof. vm_compute. reflexivity. Qed.

Print Assumptions C02_value_step_partial.
Print Assumptions C02_eoc_only_terminates_indefinite.
Print Assumptions C02_form_rules.
Print Assumptions C02_nested_values_stay_inside_parent.
