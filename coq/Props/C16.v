(* C16 - An octet string's content is the concatenation of its primitive segments.
   Statements only; every proof is `exact <lemma>` from Proofs/OctStrP.v.

   Proved (Proofs/OctGrammarP.v, through the grammar of C02), all inputs:
     C16_segments_are_leaves - over captured content that is a grammar string
       of values that are all OCTET STRINGs (nested to any depth, definite or
       indefinite, empty segments and empty constructed values included), the
       segment iterator yields exactly the contents of the primitive leaves in
       encoding order, and the octet view is their concatenation;
     C16_constructed_ber - a constructed octet string accepted in BER had as
       content such a grammar string (inside an indefinite-length value the
       captured content additionally ends with the end-of-contents - the root
       of known finding D17), and segments, octets and length are those of
       the leaves' concatenation;
     all views are derived from the one segment list; primitive values; DER
     re-encoding = primitive TLV of the content.
     C16_constructed_ber_accepted_definite / _indefinite - the converse: in
       BER every grammar string of values that are all OCTET STRINGs IS
       accepted as the content of a constructed octet string (definite or
       indefinite), and the value holds exactly that content (plus, in the
       indefinite form, the end-of-contents: D17);
     C16_constructed_cer_accepted / C16_constructed_cer_shape - in CER the
       segment loop accepts EXACTLY the sequences of primitive OCTET STRING
       segments with minimal length octets in which every segment has at most
       1000 octets and none follows a shorter one, and captures exactly them;
     C16_primitive_accepted - the primitive form is accepted exactly when it
       is not a CER primitive of more than 1000 octets.
     C16_source_* - the value as a decoding source (OctetStringSource, Proofs/OctSrcP.v): over
       every string whose segment walk is defined - every primitive one and every
       constructed one accepted in BER or in CER - request(n) never reaches an unwrap or
       unreachable!(), grants at least min(n, what is left) and never more,
       slice() is a prefix of what is left and only grows, advance(k) drops k
       octets, and read to the end by requests of any size the source yields
       exactly the octets of the string (the Source contract C07 assumes).
   The model of the source is tied to the code by stream c16.source (scripts of
   request/advance, the amount granted and the whole of slice() after each).
   BER re-encoding of values whose outermost form was indefinite is the known
   finding D17 (C16_ber_reencode_indefinite_refuted, KNOWN-FINDING). *)
Require Import BV.Model.Base BV.Model.SrcB BV.Model.Length BV.Model.Tag BV.Model.Content BV.Model.OctStr.
Require Import BV.Proofs.ContentP BV.Proofs.GrammarP BV.Proofs.SkipP BV.Proofs.OctStrP BV.Proofs.OctGrammarP BV.Proofs.OctComplP BV.Proofs.OctCerP BV.Proofs.OctSrcP BV.Proofs.IntP BV.Proofs.SrcBP.

Theorem C16_segments_are_leaves : forall m ts ds,
  encs m ts ds -> accepts octet_filter (traces ts 0) = true -> octets_ok ds = true ->
  os_segments (OCons ds) = Ok (leaves_l ts) /\ os_octets (OCons ds) = Ok (concat (leaves_l ts)).
Proof. exact segments_are_leaves. Qed.

Theorem C16_constructed_ber : forall fuel c s o c' s',
  nf s -> octets_ok (rem s) = true ->
  take_constructed_ber fuel c s = (Ok (o, c'), s') ->
  exists ts, accepts octet_filter (traces ts 0) = true /\
    os_segments o = Ok (leaves_l ts) /\ os_octets o = Ok (concat (leaves_l ts)) /\
    os_len o = Ok (len (concat (leaves_l ts))) /\
    exists b, o = OCons b /\ rem s = b ++ rem s' /\
      match cst c with
      | Indefinite => exists ds lw0, b = ds ++ 0 :: lw0 /\ encs (cmd c) ts ds
      | _ => encs (cmd c) ts b
      end.
Proof. exact constructed_ber_is_segments. Qed.


(* the converse in BER *)
Theorem C16_constructed_ber_accepted_definite : forall m ts ds fuel c rest,
  encs m ts ds -> accepts octet_filter (traces ts 0) = true ->
  cmd c = m -> cst c = Definite -> (2 * length ds + length ts < fuel)%nat -> octets_ok (ds ++ rest) = true ->
  take_constructed_ber fuel c (mkSrc (ds ++ rest) (Some (len ds)) None)
  = (Ok (OCons ds, c), mkSrc rest (Some 0) None).
Proof. exact constructed_ber_complete_def. Qed.

Theorem C16_constructed_ber_accepted_indefinite : forall m ts ds fuel c lw0 rest l,
  encs m ts ds -> accepts octet_filter (traces ts 0) = true ->
  cmd c = m -> cst c = Indefinite -> (2 * length ds + length ts < fuel)%nat ->
  lenoct m 0 lw0 -> octets_ok (ds ++ 0 :: lw0 ++ rest) = true -> lim_ge l (len ds + (1 + len lw0)) ->
  take_constructed_ber fuel c (mkSrc (ds ++ 0 :: lw0 ++ rest) l None)
  = (Ok (OCons (ds ++ 0 :: lw0), with_state c Done), mkSrc rest (lim_sub l (len ds + (1 + len lw0))) None).
Proof. exact constructed_ber_complete_indef. Qed.

(* the CER shape rule, both directions *)
Theorem C16_constructed_cer_accepted : forall segs ds fuel c rest l,
  cer_segs segs ds -> cer_shape false segs = true -> cmd c = Cer -> cst c = Indefinite ->
  (length segs < fuel)%nat -> octets_ok (ds ++ 0 :: 0 :: rest) = true -> lim_ge l (len ds + 2) ->
  take_constructed_cer fuel c (mkSrc (ds ++ 0 :: 0 :: rest) l None)
  = (Ok (OCons ds, c), mkSrc (0 :: 0 :: rest) (lim_sub l (len ds)) None).
Proof. exact constructed_cer_complete. Qed.

Theorem C16_constructed_cer_shape : forall fuel c s o c' s',
  nf s -> octets_ok (rem s) = true -> cmd c = Cer ->
  take_constructed_cer fuel c s = (Ok (o, c'), s') ->
  exists segs ds, o = OCons ds /\ cer_segs segs ds /\ cer_shape false segs = true /\ rem s = ds ++ rem s'.
Proof. exact constructed_cer_sound. Qed.

Theorem C16_primitive_accepted : forall fuel t m c,
  octstr_from_content fuel t (CPrim m) (full c)
  = if mode_eqb m Cer && (1000 <? len c) then (CErr, full c) else (Ok (OPrim c, CPrim m), done_src).
Proof. exact octstr_primitive_accepted. Qed.

Example C16_cer_shape_ex :
  cer_shape false [repeat 7 1000; [1; 2]] = true /\ cer_shape false [[1; 2]; [3]] = false /\
  cer_shape false [repeat 7 1001] = false.
Proof. exact cer_shape_example. Qed.

Theorem C16_views_consistent_partial : forall o segs, os_segments o = Ok segs ->
  os_octets o = Ok (concat segs) /\ os_len o = Ok (len (concat segs)) /\
  os_is_empty o = Ok (match concat segs with [] => true | _ => false end).
Proof. exact os_views_consistent. Qed.

Theorem C16_primitive_views : forall b,
  os_octets (OPrim b) = Ok b /\ os_len (OPrim b) = Ok (len b) /\
  os_is_empty (OPrim b) = Ok (match b with [] => true | _ => false end).
Proof. exact os_primitive_views. Qed.

Theorem C16_der_reencoding : forall o c t lw,
  os_octets o = Ok c -> length_write (len c) = Ok lw ->
  os_encode Der t o = Ok (tag_write false t ++ lw ++ c) /\
  os_encoded_len Der t o = Ok (len (tag_write false t ++ lw ++ c)).
Proof. exact os_der_encoding. Qed.

(* known finding D17, exhibited in the model *)
Theorem C16_ber_reencode_indefinite_refuted :
  exists d o, octstr_take_from Ber T_OCTET_STRING d = Ok o /\
              os_encode Ber T_OCTET_STRING o = Ok [36; 6; 4; 2; 97; 98; 0; 0].
Proof. exact ber_reencode_witness. Qed.

Example C16_ex_nested :
  match octstr_take_from Ber T_OCTET_STRING [36;128; 4;1;97; 36;4; 4;0; 4;0; 4;1;98; 0;0] with
  | Ok o => os_segments o = Ok [[97]; []; []; [98]] /\ os_octets o = Ok [97; 98]
  | _ => False end.
Proof. vm_compute. split; reflexivity. Qed.
Example C16_ex_cer_rejects_segment_after_short :
  octstr_take_from Cer T_OCTET_STRING [36;128; 4;1;97; 4;1;98; 0;0] = CErr.
Proof. vm_compute. reflexivity. Qed.

(* ---- the value as a decoding source (OctetStringSource) ---- *)
(* `oss_has st data`: the source still has `data` to deliver - its current buffer followed by the primitive
   segments of the remainder *)
Theorem C16_source_state : forall st data, oss_has st data <->
  exists fw segs, seg_walk fw (orem st) [] = Ok segs /\ data = ocur st ++ concat segs.
Proof. exact (fun st data => conj (fun H => H) (fun H => H)). Qed.
(* request(n): never reaches an unwrap or unreachable!(), leaves what is to be delivered unchanged, grants at
   least min(n, what is left) and never more than is left; slice() is a prefix of what is left and only grows *)
Theorem C16_source_request_contract : forall want st data, oss_has st data ->
  exists g st', oss_request want st = Ok (g, st') /\ oss_has st' data /\
    g = len (oss_slice st') /\ N.min want (len data) <= g /\ g <= len data /\
    (exists rest, data = oss_slice st' ++ rest) /\ (exists extra, oss_slice st' = oss_slice st ++ extra).
Proof. exact oss_request_contract. Qed.
Theorem C16_source_advance : forall n st data, oss_has st data -> n <= len (oss_slice st) ->
  exists st', oss_advance n st = Ok st' /\ oss_has st' (skipN n data) /\ oss_slice st' = skipN n (oss_slice st).
Proof. exact oss_advance_spec. Qed.
Theorem C16_source_of_accepted_ber : forall fuel c s o c' s', nf s -> octets_ok (rem s) = true ->
  take_constructed_ber fuel c s = (Ok (o, c'), s') ->
  exists x, os_octets o = Ok x /\ oss_has (oss_new o) x.
Proof. exact oss_of_accepted_ber. Qed.
Theorem C16_source_of_accepted_cer : forall fuel c s o c' s', nf s -> octets_ok (rem s) = true -> cmd c = Cer ->
  take_constructed_cer fuel c s = (Ok (o, c'), s') ->
  exists x, os_octets o = Ok x /\ oss_has (oss_new o) x.
Proof. exact oss_of_accepted_cer. Qed.
Theorem C16_source_of_primitive : forall b, oss_has (oss_new (OPrim b)) b.
Proof. exact oss_of_primitive. Qed.
(* read to the end by requests of any size the source yields exactly the octets of the string *)
Theorem C16_source_presents_octets : forall o x want fuel, os_octets o = Ok x -> 1 <= want -> (length x < fuel)%nat ->
  oss_drain fuel want (oss_new o) [] = Ok x.
Proof. exact oss_presents_octets. Qed.
Example C16_source_ex :
  oss_drain 20 3 (oss_new (OCons [4; 2; 97; 98; 36; 4; 4; 2; 99; 100])) [] = Ok [97; 98; 99; 100] /\
  os_octets (OCons [4; 2; 97; 98; 36; 4; 4; 2; 99; 100]) = Ok [97; 98; 99; 100] /\
  res_map fst (oss_request 3 (oss_new (OCons [4; 2; 97; 98; 36; 4; 4; 2; 99; 100]))) = Ok 4.
Proof. exact oss_example. Qed.

Print Assumptions C16_segments_are_leaves.
Print Assumptions C16_constructed_ber.
Print Assumptions C16_constructed_ber_accepted_definite.
Print Assumptions C16_constructed_ber_accepted_indefinite.
Print Assumptions C16_constructed_cer_accepted.
Print Assumptions C16_constructed_cer_shape.
Print Assumptions C16_primitive_accepted.
Print Assumptions C16_views_consistent_partial.
Print Assumptions C16_primitive_views.
Print Assumptions C16_der_reencoding.
Print Assumptions C16_ber_reencode_indefinite_refuted.
Print Assumptions C16_source_state.
Print Assumptions C16_source_request_contract.
Print Assumptions C16_source_advance.
Print Assumptions C16_source_of_accepted_ber.
Print Assumptions C16_source_of_accepted_cer.
Print Assumptions C16_source_of_primitive.
Print Assumptions C16_source_presents_octets.
