(* C16 - An octet string's content is the concatenation of its primitive segments.
   Statements only; every proof is `exact <lemma>` from Proofs/OctStrP.v.

   STATUS: partial. Proved: all views are derived from one segment list
   (octets = concatenation in order, length, emptiness); primitive values;
   DER re-encoding = primitive TLV of the content with the reported length.
   NOT proved: acceptance per mode as a statement about the tree shape and
   "segment walk over captured content = leaves of the tree" (needs the
   nested skip simulation, see C10); both are decided by c16.decode /
   c16.encode against a reference built from the generated segmentation.
   BER re-encoding of values whose outermost form was indefinite is the known
   finding D17 (C16_ber_reencode_indefinite_refuted, KNOWN-FINDING). *)
Require Import BV.Model.Base BV.Model.SrcB BV.Model.Length BV.Model.Tag BV.Model.Content BV.Model.OctStr.
Require Import BV.Proofs.OctStrP.

Theorem C16_views_consistent_partial : forall o segs, os_segments o = Ok segs ->
  os_octets o = Ok (concat segs) /\ os_len o = Ok (len (concat segs)) /\
  os_is_empty o = Ok (match concat segs with [] => true | _ => false end).
Proof. exact os_views_consistent. Qed.

Theorem C16_primitive_views : forall b,
  os_octets (OPrim b) = Ok b /\ os_len (OPrim b) = Ok (len b) /\
  os_is_empty (OPrim b) = Ok (match b with [] => true | _ => false end).
Proof. exact os_primitive_views. Qed.

Theorem C16_der_reencoding : forall o c t lw,
  os_octets o = Ok c -> length_write (len c) = Ok lw ->
  os_encode Der t o = Ok (tag_write false t ++ lw ++ c) /\
  os_encoded_len Der t o = Ok (len (tag_write false t ++ lw ++ c)).
Proof. exact os_der_encoding. Qed.

(* known finding D17, exhibited in the model *)
Theorem C16_ber_reencode_indefinite_refuted :
  exists d o, octstr_take_from Ber T_OCTET_STRING d = Ok o /\
              os_encode Ber T_OCTET_STRING o = Ok [36; 6; 4; 2; 97; 98; 0; 0].
Proof. exact ber_reencode_witness. Qed.

Example C16_ex_nested :
  match octstr_take_from Ber T_OCTET_STRING [36;128; 4;1;97; 36;4; 4;0; 4;0; 4;1;98; 0;0] with
  | Ok o => os_segments o = Ok [[97]; []; []; [98]] /\ os_octets o = Ok [97; 98]
  | _ => False end.
Proof. vm_compute. split; reflexivity. Qed.
Example C16_ex_cer_rejects_segment_after_short :
  octstr_take_from Cer T_OCTET_STRING [36;128; 4;1;97; 4;1;98; 0;0] = CErr.
Proof. vm_compute. reflexivity. Qed.

Print Assumptions C16_views_consistent_partial.
Print Assumptions C16_primitive_views.
Print Assumptions C16_der_reencoding.
Print Assumptions C16_ber_reencode_indefinite_refuted.
