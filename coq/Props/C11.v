(* C11 - Captured data is exactly the encoding of the values advanced over.
   Statements only; every proof is `exact <lemma>` from Proofs/ContentP.v.

   The closure `op` is universally quantified. "p" is what it advanced over
   (rem s = p ++ rem s1).  The end-of-contents exclusion does NOT hold for
   closures that read until absent inside an indefinite value (known finding
   D18, exhibited below by C11_eoc_included_refuted and reported by the check
   as KNOWN-FINDING); later decode / decode_partial / re-encoding of captured
   data are decided by the c11.prog correspondence and its oracle. *)
Require Import BV.Model.Base BV.Model.SrcB BV.Model.Length BV.Model.Tag BV.Model.Content.
Require Import BV.Proofs.SrcBP BV.Proofs.TagP BV.Proofs.ContentP.

(* precisely the octets advanced over, and decoding continues right after
   them with the enclosing limit reduced by exactly that amount *)
Theorem C11_capture_exact :
  forall T (c : cons) (op : cons -> M (T * cons)) s r c1 s1 p,
  op c s = (Ok (r, c1), s1) -> rem s = p ++ rem s1 -> lim_ge (lim s) (len p) ->
  capture c op s
  = (Ok (p, r, with_state c (cst c1)), mkSrc (rem s1) (lim_sub (lim s) (len p)) (flt s1)).
Proof. exact @capture_exact. Qed.

Theorem C11_capture_propagates_error :
  forall T (c : cons) (op : cons -> M (T * cons)) s s1,
  op c s = (CErr, s1) -> fst (capture c op s) = CErr.
Proof. exact @capture_propagates_error. Qed.

(* the known class: a body that consumes the enclosing end-of-contents gets
   it into the captured octets (30 80 02 01 00 00 00, capture_all) *)
Theorem C11_eoc_included_refuted :
  exists d, fst ((r <- process_next_value (mkCons Unbounded Ber) (Some T_SEQUENCE)
                        (as_cons (fun c => capture_all 20 c)) ;; ret (fst r)) (pure_src d None))
            = Ok (Some [2; 1; 0; 0; 0]).
Proof. exact capture_eoc_witness. Qed.

Example C11_ex_capture_one :
  fst (capture_one 20 (mkCons Unbounded Der) (pure_src [2;1;5; 5;0] None))
  = Ok ([2;1;5], mkCons Unbounded Der).
Proof. vm_compute. reflexivity. Qed.

Print Assumptions C11_capture_exact.
Print Assumptions C11_capture_propagates_error.
Print Assumptions C11_eoc_included_refuted.
