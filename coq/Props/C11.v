(* C11 - Captured data is exactly the encoding of the values advanced over.
   Statements only; every proof is `exact <lemma>` from Proofs/ContentP.v.

   For ANY closure: the captured octets are precisely what it advanced over
   and decoding continues right after them (C11_capture_exact). Through the
   grammar of C02 (Proofs/CaptureP.v), for every input, mode, context, limit:
     C11_capture_one - capture_one captures exactly one well-formed encoding
       of a value, nothing of what follows, and leaves the parent unchanged;
     C11_capture_all - capture_all captures exactly the concatenated
       encodings of the remaining values of a definite-length or top-level
       value; inside an INDEFINITE-length value it also consumes and captures
       the enclosing end-of-contents - the statement says so explicitly: this
       is known finding D18 (C11_eoc_included_refuted is the witness; the
       check reports it as KNOWN-FINDING);
     C11_captured_decodes - decoding captured octets of a value later yields
       that very value (the tree decoding in place delivers), consuming all.
     C11_decode_partial_one / _sound / C11_decode_partials_partition -
       Captured::decode_partial takes exactly one well-formed value off the
       front and keeps the rest; k partial decodes over k captured values
       return the values in order, nothing lost, nothing overlapping, nothing
       left.
   By streams only: re-encoding of a Captured (the octets verbatim; c11, c06). *)
Require Import BV.Model.Base BV.Model.SrcB BV.Model.Length BV.Model.Tag BV.Model.Content.
Require Import BV.Proofs.SrcBP BV.Proofs.TagP BV.Proofs.ContentP BV.Proofs.GrammarP BV.Proofs.CaptureP.

Theorem C11_capture_one : forall fuel c s b c' s',
  nf s -> octets_ok (rem s) = true ->
  capture_one fuel c s = (Ok (b, c'), s') ->
  c' = c /\ exists t, GrammarP.enc (cmd c) t b /\ rem s = b ++ rem s' /\
                      lim s' = lim_sub (lim s) (len b) /\ lim_ge (lim s) (len b).
Proof. exact capture_one_exact. Qed.

Theorem C11_capture_all : forall fuel c s b c' s',
  nf s -> octets_ok (rem s) = true ->
  capture_all fuel c s = (Ok (b, c'), s') ->
  exists ts ds, encs (cmd c) ts ds /\ rem s = b ++ rem s' /\
    match cst c with
    | Indefinite => exists lw0, b = ds ++ 0 :: lw0 /\ lenoct (cmd c) 0 lw0
    | _ => b = ds
    end.
Proof. exact capture_all_exact. Qed.

Theorem C11_captured_decodes : forall m t b fuel,
  GrammarP.enc m t b -> octets_ok b = true -> (length b < fuel)%nat ->
  decode_src m (read_all fuel) (pure_src b None) = (Ok [t], pure_src [] None).
Proof. exact captured_value_decodes. Qed.


(* precisely the octets advanced over, and decoding continues right after
   them with the enclosing limit reduced by exactly that amount *)
Theorem C11_capture_exact :
  forall T (c : cons) (op : cons -> M (T * cons)) s r c1 s1 p,
  op c s = (Ok (r, c1), s1) -> rem s = p ++ rem s1 -> lim_ge (lim s) (len p) ->
  capture c op s
  = (Ok (p, r, with_state c (cst c1)), mkSrc (rem s1) (lim_sub (lim s) (len p)) (flt s1)).
Proof. exact @capture_exact. Qed.

Theorem C11_capture_propagates_error :
  forall T (c : cons) (op : cons -> M (T * cons)) s s1,
  op c s = (CErr, s1) -> fst (capture c op s) = CErr.
Proof. exact @capture_propagates_error. Qed.

(* the known class: a body that consumes the enclosing end-of-contents gets
   it into the captured octets (30 80 02 01 00 00 00, capture_all) *)
Theorem C11_eoc_included_refuted :
  exists d, fst ((r <- process_next_value (mkCons Unbounded Ber) (Some T_SEQUENCE)
                        (as_cons (fun c => capture_all 20 c)) ;; ret (fst r)) (pure_src d None))
            = Ok (Some [2; 1; 0; 0; 0]).
Proof. exact capture_eoc_witness. Qed.

(* Captured::decode_partial: one partial decode takes exactly one well-formed value off the front (both
   directions), and k of them over k captured values return the values in order with nothing lost, nothing
   overlapping and nothing left *)
Theorem C11_decode_partial_one : forall m t d rest fuel, GrammarP.enc m t d -> octets_ok (d ++ rest) = true ->
  (size t <= fuel)%nat -> decode_partial m (one_value fuel) (d ++ rest) = Ok (t, rest).
Proof. exact decode_partial_one. Qed.
Theorem C11_decode_partial_sound : forall m fuel bytes t r, octets_ok bytes = true ->
  decode_partial m (one_value fuel) bytes = Ok (t, r) ->
  exists d, GrammarP.enc m t d /\ bytes = d ++ r.
Proof. exact decode_partial_sound. Qed.
Theorem C11_decode_partials_partition : forall m ts ds fuel, encs m ts ds -> octets_ok ds = true ->
  (length ds <= fuel)%nat ->
  decode_partials m (one_value fuel) (length ts) ds = Ok (ts, []).
Proof. exact decode_partials_partition. Qed.
Example C11_ex_decode_partials :
  decode_partials Der (one_value 10) 2 [2; 1; 5; 48; 3; 1; 1; 255] =
    Ok ([TPrim T_INTEGER [5]; TCons T_SEQUENCE [TPrim T_BOOLEAN [255]]], []) /\
  decode_partial Der (one_value 10) [2; 1; 5; 48; 3; 1; 1; 255] = Ok (TPrim T_INTEGER [5], [48; 3; 1; 1; 255]).
Proof. exact decode_partials_example. Qed.

Example C11_ex_capture_one :
  fst (capture_one 20 (mkCons Unbounded Der) (pure_src [2;1;5; 5;0] None))
  = Ok ([2;1;5], mkCons Unbounded Der).
Proof. vm_compute. reflexivity. Qed.

Print Assumptions C11_capture_one.
Print Assumptions C11_capture_all.
Print Assumptions C11_captured_decodes.
Print Assumptions C11_capture_exact.
Print Assumptions C11_capture_propagates_error.
Print Assumptions C11_eoc_included_refuted.
Print Assumptions C11_decode_partial_one.
Print Assumptions C11_decode_partial_sound.
Print Assumptions C11_decode_partials_partition.
