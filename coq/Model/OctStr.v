(* Model of src/string/octet.rs (after the D12-D16 repairs) and of the
   character sets of src/string/restricted.rs (after D19, D20).
   Definitions only. *)
Require Import BV.Model.Base BV.Model.SrcB BV.Model.Length BV.Model.Tag BV.Model.Content.

(* an OctetString is either the content of a primitive encoding or the
   captured content octets of a constructed one *)
Inductive ostr := OPrim (b : list N) | OCons (captured : list N).

(* ---------- decoding ---------- *)
Definition octet_filter : filter := fun t _ _ => tag_eqb t T_OCTET_STRING.

(* the loop of take_constructed_ber: skip_opt with the tag filter until absent *)
Fixpoint ber_segments_loop (fuel : nat) (c : cons) : M (unit * cons) :=
  match fuel with
  | O => nofuel
  | S f =>
    r <- skip_opt fuel c octet_filter ;; let '(o, c', _) := r in
    match o with SkNone => ret (tt, c') | SkSome => ber_segments_loop f c' end
  end.
Definition take_constructed_ber (fuel : nat) (c : cons) : M (ostr * cons) :=
  r <- capture c (ber_segments_loop fuel) ;; let '(b, _, c') := r in ret (OCons b, c').

(* the loop of take_constructed_cer: primitive OCTET STRING segments of at
   most 1000 octets, nothing after a shorter one *)
Fixpoint cer_segments_loop (fuel : nat) (short : bool) (c : cons) : M (unit * cons) :=
  match fuel with
  | O => nofuel
  | S f =>
    r <- process_next_value c (Some T_OCTET_STRING)
           (as_prim (fun m =>
              n <- remaining ;;
              if 1000 <? n then cerr else
              if short then cerr else
              skip_all_lim ;;; ret (n <? 1000, m))) ;;
    let '(o, c') := r in
    match o with
    | None => ret (tt, c')
    | Some sh => cer_segments_loop f sh c'
    end
  end.
Definition take_constructed_cer (fuel : nat) (c : cons) : M (ostr * cons) :=
  r <- capture c (cer_segments_loop fuel false) ;; let '(b, _, c') := r in ret (OCons b, c').

(* OctetString::from_content *)
Definition octstr_from_content (fuel : nat) (_ : tag) (ct : content) : M (ostr * content) :=
  match ct with
  | CPrim m =>
      n <- remaining ;;
      if mode_eqb m Cer && (1000 <? n) then cerr else
      b <- take_all_lim ;; ret (OPrim b, CPrim m)
  | CCons c =>
      match cmd c with
      | Ber => r <- take_constructed_ber fuel c ;; let '(o, c') := r in ret (o, CCons c')
      | Cer => r <- take_constructed_cer fuel c ;; let '(o, c') := r in ret (o, CCons c')
      | Der => cerr
      end
  end.

(* OctetString::take_from on a whole input *)
Definition octstr_take_from (m : mode) (tg : tag) (d : list N) : res ostr :=
  let fuel := S (S (length d)) in
  fst (decode_src m (fun c => mandatory (process_next_value c (Some tg) (octstr_from_content fuel)))
         (pure_src d None)).

(* ---------- views ---------- *)
(* OctetStringIter over the captured octets: headers are read in BER mode
   and unwrapped (Panic), split_to(len) panics beyond the data *)
Fixpoint seg_walk (fuel : nat) (d : list N) (acc : list (list N)) : res (list (list N)) :=
  match fuel with
  | O => NoFuel
  | S f =>
    match d with
    | [] => Ok (rev acc)
    | _ =>
      match tag_take_from (pure_src d None) with
      | (Ok (t, k), s1) =>
        match length_take_from Ber s1 with
        | (Ok l, s2) =>
          if tag_eqb t T_OCTET_STRING then
            if k then seg_walk f (rem s2) acc else
            match l with
            | Definite_ n =>
                if len (rem s2) <? n then Panic
                else seg_walk f (skipN n (rem s2)) (firstN n (rem s2) :: acc)
            | Indefinite_ => Panic
            end
          else if tag_eqb t END_OF_VALUE then seg_walk f (rem s2) acc
          else Panic
        | _ => Panic
        end
      | _ => Panic
      end
    end
  end.

Definition os_segments (o : ostr) : res (list (list N)) :=
  match o with
  | OPrim b => Ok (match b with [] => [] | _ => [b] end)   (* an empty primitive yields no segment *)
  | OCons d => seg_walk (S (length d)) d []
  end.
Definition os_octets (o : ostr) : res (list N) := res_map (@concat N) (os_segments o).
Definition os_len (o : ostr) : res N := res_map (@len N) (os_octets o).
Definition os_is_empty (o : ostr) : res bool :=
  res_map (fun l => match l with [] => true | _ => false end) (os_octets o).

(* ---------- the value as a decoding source (OctetStringSource) ---------- *)
(* OctetStringSource::next_current: the content of the first primitive segment found in the remainder and
   what is left after it; None when the remainder is used up. Headers are read in BER mode and unwrapped
   (Panic); anything but OCTET STRING / end-of-contents is unreachable!() (Panic) *)
Fixpoint seg_next (fuel : nat) (d : list N) : res (option (list N * list N)) :=
  match fuel with
  | O => NoFuel
  | S f =>
    match tag_take_opt_from (pure_src d None) with
    | (Ok None, _) => Ok None
    | (Ok (Some (t, k)), s1) =>
      match length_take_from Ber s1 with
      | (Ok l, s2) =>
        if tag_eqb t T_OCTET_STRING then
          if k then seg_next f (rem s2) else
          match l with
          | Definite_ n => if len (rem s2) <? n then Panic
                           else Ok (Some (firstN n (rem s2), skipN n (rem s2)))
          | Indefinite_ => Panic
          end
        else if tag_eqb t END_OF_VALUE then seg_next f (rem s2)
        else Panic
      | _ => Panic
      end
    | _ => Panic
    end
  end.

Record oss := mkOss { ocur : list N; orem : list N }.
Definition oss_new (o : ostr) : oss :=
  match o with OPrim b => mkOss b [] | OCons d => mkOss [] d end.

(* the loop of OctetStringSource::request: append segments until `current` is long enough or none is left *)
Fixpoint oss_fill (fuel : nat) (want : N) (cur remd : list N) : res oss :=
  match fuel with
  | O => NoFuel
  | S f =>
    if want <=? len cur then Ok (mkOss cur remd) else
    match seg_next (S (length remd)) remd with
    | Ok (Some (b, r)) => oss_fill f want (cur ++ b) r
    | Ok None => Ok (mkOss cur [])
    | CErr => CErr | SErr => SErr | Panic => Panic | NoFuel => NoFuel
    end
  end.
(* OctetStringSource::request: the new state and the number of octets available (current.len()) *)
Definition oss_request (want : N) (st : oss) : res (N * oss) :=
  if (len (ocur st) <? want) && negb (len (orem st) =? 0) then
    match oss_fill (S (length (orem st))) want (ocur st) (orem st) with
    | Ok st' => Ok (len (ocur st'), st')
    | CErr => CErr | SErr => SErr | Panic => Panic | NoFuel => NoFuel
    end
  else Ok (len (ocur st), st).
(* slice() = current; advance(n): assert!(n <= current.len()) *)
Definition oss_slice (st : oss) : list N := ocur st.
Definition oss_advance (n : N) (st : oss) : res oss :=
  if len (ocur st) <? n then Panic else Ok (mkOss (skipN n (ocur st)) (orem st)).

(* ---------- comparison and hashing (over the octet iterator) ---------- *)
Fixpoint lexc (a b : list N) : comparison :=
  match a, b with
  | [], [] => Eq | [], _ => Lt | _, [] => Gt
  | x :: a', y :: b' => match x ?= y with Eq => lexc a' b' | c => c end
  end.
Definition os_eq (a b : ostr) : res bool :=
  match os_octets a, os_octets b with
  | Ok x, Ok y => Ok (list_eqb x y) | Panic, _ | _, Panic => Panic | _, _ => NoFuel end.
Definition os_cmp (a b : ostr) : res comparison :=
  match os_octets a, os_octets b with
  | Ok x, Ok y => Ok (lexc x y) | Panic, _ | _, Panic => Panic | _, _ => NoFuel end.
(* PartialEq<[u8]>: the segment loop of the repaired implementation *)
Fixpoint eq_slice_loop (segs : list (list N)) (other : list N) : bool :=
  match segs with
  | [] => match other with [] => true | _ => false end
  | p :: r =>
      if len other <? len p then false else
      if negb (list_eqb p (firstN (len p) other)) then false else
      eq_slice_loop r (skipN (len p) other)
  end.
Definition os_eq_slice (a : ostr) (sl : list N) : res bool :=
  match a with
  | OPrim b => Ok (list_eqb b sl)
  | _ => res_map (fun s => eq_slice_loop s sl) (os_segments a)
  end.
Definition os_cmp_slice (a : ostr) (sl : list N) : res comparison :=
  res_map (fun x => lexc x sl) (os_octets a).
(* Hash: one write per content octet *)
Definition os_hash_input (a : ostr) : res (list N) := os_octets a.

(* ---------- encoding ---------- *)
Definition write_hdr (t : tag) (k : bool) (n : N) : res (list N) :=
  res_map (fun l => tag_write k t ++ l) (length_write n).
(* OctetStringEncoder; Panic = unimplemented!() in CER *)
Definition os_encode (m : mode) (t : tag) (o : ostr) : res (list N) :=
  match m with
  | Cer => Panic
  | Ber =>
      match o with
      | OPrim b => res_map (fun h => h ++ b) (write_hdr t false (len b))
      | OCons d => res_map (fun h => h ++ d) (write_hdr t true (len d))
      end
  | Der =>
      match os_octets o with
      | Ok c => res_map (fun h => h ++ c) (write_hdr t false (len c))
      | _ => Panic
      end
  end.
Definition os_encoded_len (m : mode) (t : tag) (o : ostr) : res N :=
  match m with
  | Cer => Panic
  | Ber =>
      let n := match o with OPrim b => len b | OCons d => len d end in
      res_map (fun l => tag_encoded_len t + l + n) (length_encoded_len n)
  | Der =>
      match os_len o with
      | Ok n => res_map (fun l => tag_encoded_len t + l + n) (length_encoded_len n)
      | _ => Panic
      end
  end.

(* ---------- character sets ---------- *)
Inductive charset := Utf8 | Numeric | Printable | Ia5.

Definition printable_ok (x : N) : bool :=
  ((65 <=? x) && (x <=? 90)) || ((97 <=? x) && (x <=? 122)) || ((48 <=? x) && (x <=? 57)) ||
  (x =? 32) || (x =? 39) || (x =? 40) || (x =? 41) || (x =? 43) || (x =? 44) || (x =? 45) ||
  (x =? 46) || (x =? 47) || (x =? 58) || (x =? 61) || (x =? 63).
Definition numeric_ok (x : N) : bool := (x =? 32) || ((48 <=? x) && (x <=? 57)).
Definition ia5_ok (x : N) : bool := x <? 128.

Definition in_rng (x lo hi : N) : bool := (lo <=? x) && (x <=? hi).

(* one step of CharSet::next_char: Some (Some (char, rest)), Some None = end,
   None = CharSetError *)
Definition next_char (cs : charset) (s : list N) : option (option (N * list N)) :=
  match cs with
  | Numeric => match s with [] => Some None | x :: r => if numeric_ok x then Some (Some (x, r)) else None end
  | Printable => match s with [] => Some None | x :: r => if printable_ok x then Some (Some (x, r)) else None end
  | Ia5 => match s with [] => Some None | x :: r => if ia5_ok x then Some (Some (x, r)) else None end
  | Utf8 =>
    match s with
    | [] => Some None
    | a :: r =>
      if a <? 128 then Some (Some (a, r)) else
      if negb (in_rng a 194 244) then None else
      match r with
      | [] => None
      | b :: r2 =>
        let '(lo, hi) := if a =? 224 then (160, 191) else if a =? 237 then (128, 159)
                         else if a =? 240 then (144, 191) else if a =? 244 then (128, 143)
                         else (128, 191) in
        if negb (in_rng b lo hi) then None else
        if a <? 224 then Some (Some (N.lor (N.shiftl (N.land a 31) 6) (N.land b 63), r2)) else
        match r2 with
        | [] => None
        | c :: r3 =>
          if negb (in_rng c 128 191) then None else
          if a <? 240 then
            Some (Some (N.lor (N.lor (N.shiftl (N.land a 15) 12) (N.shiftl (N.land b 63) 6))
                              (N.land c 63), r3)) else
          match r3 with
          | [] => None
          | d :: r4 =>
            if negb (in_rng d 128 191) then None else
            Some (Some (N.lor (N.lor (N.lor (N.shiftl (N.land a 7) 18) (N.shiftl (N.land b 63) 12))
                                     (N.shiftl (N.land c 63) 6)) (N.land d 63), r4))
          end
        end
      end
    end
  end.

(* RestrictedStringChars: the characters, None = CharSetError (chars() would
   panic on unwrap) *)
Fixpoint chars_of (fuel : nat) (cs : charset) (s : list N) : option (list N) :=
  match fuel with
  | O => None
  | S f =>
    match next_char cs s with
    | None => None
    | Some None => Some []
    | Some (Some (ch, r)) => match chars_of f cs r with Some l => Some (ch :: l) | None => None end
    end
  end.
Definition cs_check (cs : charset) (s : list N) : bool :=
  match chars_of (S (length s)) cs s with Some _ => true | None => false end.

(* a value handed to char::from_u32_unchecked must be a Unicode scalar value *)
Definition is_scalar (v : N) : bool := (v <? 55296) || ((57343 <? v) && (v <? 1114112)).

(* RestrictedString::new / from_content: an octet string whose octets pass the check *)
Definition rs_new (cs : charset) (o : ostr) : res ostr :=
  match os_octets o with
  | Ok c => if cs_check cs c then Ok o else CErr
  | Panic => Panic | _ => NoFuel
  end.
(* from_str / from_string / FromStr on the UTF-8 octets of a Rust string *)
Definition rs_from_str (cs : charset) (utf8 : list N) : res ostr :=
  match cs with
  | Utf8 => Ok (OPrim utf8)
  | _ => if cs_check cs utf8 then Ok (OPrim utf8) else CErr
  end.
(* chars(): Panic if the octets do not decode (unwrap) *)
Definition rs_chars (cs : charset) (o : ostr) : res (list N) :=
  match os_octets o with
  | Ok c => match chars_of (S (length c)) cs c with Some l => Ok l | None => Panic end
  | Panic => Panic | _ => NoFuel
  end.

(* ---------- specification: RFC 3629 well-formed UTF-8 ---------- *)
Fixpoint wf_utf8 (fuel : nat) (s : list N) : bool :=
  match fuel with
  | O => false
  | S f =>
    match s with
    | [] => true
    | a :: r =>
      if a <? 128 then wf_utf8 f r else
      match r with
      | b :: r2 =>
        if in_rng a 194 223 then in_rng b 128 191 && wf_utf8 f r2 else
        match r2 with
        | c :: r3 =>
          if a =? 224 then in_rng b 160 191 && in_rng c 128 191 && wf_utf8 f r3 else
          if in_rng a 225 236 || in_rng a 238 239 then in_rng b 128 191 && in_rng c 128 191 && wf_utf8 f r3 else
          if a =? 237 then in_rng b 128 159 && in_rng c 128 191 && wf_utf8 f r3 else
          match r3 with
          | d :: r4 =>
            if a =? 240 then in_rng b 144 191 && in_rng c 128 191 && in_rng d 128 191 && wf_utf8 f r4 else
            if in_rng a 241 243 then in_rng b 128 191 && in_rng c 128 191 && in_rng d 128 191 && wf_utf8 f r4 else
            if a =? 244 then in_rng b 128 143 && in_rng c 128 191 && in_rng d 128 191 && wf_utf8 f r4 else
            false
          | [] => false
          end
        | [] => false
        end
      | [] => false
      end
    end
  end.
