(* Model of src/oid.rs. An Oid is its content octets. Definitions only. *)
Require Import BV.Model.Base BV.Model.SrcB.

(* Oid::check_content *)
Definition oid_check_content (c : list N) : res unit :=
  match rev c with
  | [] => CErr
  | last :: _ => if negb (N.land last 128 =? 0) then CErr else Ok tt
  end.

(* Oid::from_primitive / skip_primitive / skip_if *)
Definition oid_from_prim : M (list N) :=
  c <- take_all_lim ;;
  match oid_check_content c with Ok _ => ret c | _ => cerr end.
Definition oid_skip_prim : M unit := with_slice_all oid_check_content.
Definition oid_skip_if (self : list N) : M unit :=
  with_slice_all (fun c => if list_eqb c self then Ok tt else CErr).

(* ---------- components ---------- *)
Inductive position := First | Second | Other.

(* split off the first sub-identifier: octets up to and including the first
   one with bit 8 clear *)
Fixpoint split_component (s : list N) : option (list N * list N) :=
  match s with
  | [] => None
  | b :: r =>
      if N.land b 128 =? 0 then Some ([b], r)
      else match split_component r with
           | Some (c, t) => Some (b :: c, t)
           | None => None
           end
  end.

(* Iter::next, iterated: the list of (position, component octets).
   Panic = "illegal object identifier" (content not ending a sub-identifier) *)
Fixpoint oid_iter (fuel : nat) (pos : position) (s : list N)
  : res (list (position * list N)) :=
  match fuel with
  | O => NoFuel
  | S f =>
    match s with
    | [] => Ok []
    | _ =>
      match split_component s with
      | None => Panic
      | Some (c, tail) =>
          let s' := match pos with First => s | _ => tail end in
          let pos' := match pos with First => Second | _ => Other end in
          match oid_iter f pos' s' with
          | Ok l => Ok ((pos, c) :: l)
          | e => e
          end
      end
    end
  end.
Definition oid_components (c : list N) : res (list (position * list N)) :=
  oid_iter (S (S (length c))) First c.

(* Component::to_u32 (after the D10 repair); arithmetic in u32 (shl wraps) *)
Definition comp_raw (sl : list N) : N :=
  fold_left (fun res ch => N.lor ((res * 128) mod 4294967296) (N.land ch 127)) sl 0.
Definition comp_to_u32 (pc : position * list N) : option N :=
  let '(pos, sl) := pc in
  if (5 <? len sl) || ((len sl =? 5) && negb (N.land (hd 0 sl) 112 =? 0)) then None else
  let res := comp_raw sl in
  match pos with
  | First => if res <? 40 then Some 0 else if res <? 80 then Some 1 else Some 2
  | Second => if res <? 80 then Some (res mod 40) else Some (res - 80)
  | Other => Some res
  end.

(* Display: the sequence of component renderings (None = "(very large
   component)"); the decimal rendering of a u32 is std's *)
Definition oid_display (c : list N) : res (list (option N)) :=
  res_map (map comp_to_u32) (oid_components c).

(* ---------- FromStr ---------- *)
(* u32::from_str on ASCII octets: optional '+', at least one digit, overflow
   is an error *)
Fixpoint parse_digits (acc : N) (s : list N) : option N :=
  match s with
  | [] => Some acc
  | ch :: r =>
      if (48 <=? ch) && (ch <=? 57) then
        let acc' := acc * 10 + (ch - 48) in
        if 4294967295 <? acc' then None else parse_digits acc' r
      else None
  end.
Definition parse_u32 (s : list N) : option N :=
  match s with
  | [] => None
  | 43 :: r => match r with [] => None | _ => parse_digits 0 r end
  | _ => parse_digits 0 s
  end.

(* str::split('.') *)
Fixpoint split_dot (cur : list N) (s : list N) : list (list N) :=
  match s with
  | [] => [rev cur]
  | 46 :: r => rev cur :: split_dot [] r
  | ch :: r => split_dot (ch :: cur) r
  end.

(* the if-ladder that writes one sub-identifier *)
Definition encode_item (item : N) : list N :=
  (if 268435455 <? item then [N.land (N.lor (N.shiftr item 28) 128) 255] else []) ++
  (if 2097151 <? item then [N.lor (N.land (N.shiftr item 21) 127) 128] else []) ++
  (if 16383 <? item then [N.lor (N.land (N.shiftr item 14) 127) 128] else []) ++
  (if 127 <? item then [N.lor (N.land (N.shiftr item 7) 127) 128] else []) ++
  [N.land item 127].

Fixpoint parse_all (l : list (list N)) : option (list N) :=
  match l with
  | [] => Some []
  | x :: r => match parse_u32 x, parse_all r with
              | Some v, Some vs => Some (v :: vs)
              | _, _ => None
              end
  end.

(* FromStr for Oid (after the D9 repair): CErr = Err(&str) *)
Definition oid_from_str (s : list N) : res (list N) :=
  match split_dot [] s with
  | f :: sd :: rest =>
    match parse_u32 f with
    | None => CErr
    | Some first =>
      if 2 <? first then CErr else
      match parse_u32 sd with
      | None => CErr
      | Some second =>
        if (first <? 2) && (40 <=? second) then CErr else
        if 4294967295 <? 40 * first + second then CErr else
        match parse_all rest with
        | None => CErr
        | Some others => Ok (flat_map encode_item ((40 * first + second) :: others))
        end
      end
    end
  | _ => CErr
  end.

(* ---------- specification: X.690 8.19 ---------- *)
(* base-128 digits of n, most significant first, bit 8 set on all but the last *)
Fixpoint septets_fuel (fuel : nat) (n : N) (acc : list N) : list N :=
  match fuel with
  | O => acc
  | S f => if n =? 0 then acc else septets_fuel f (n / 128) ((n mod 128 + 128) :: acc)
  end.
(* ten further digits: exact for every n below 128^11, far beyond the 32-bit
   arcs the theorems quantify over *)
Definition sub_identifier (n : N) : list N :=
  septets_fuel 10 (n / 128) [n mod 128].
Definition oid_enc (a b : N) (rest : list N) : list N :=
  flat_map sub_identifier ((40 * a + b) :: rest).
