(* Two's-complement / big-endian value of octet strings: the mathematical
   meaning of INTEGER contents (X.690 8.3). Specification side; definitions
   only. *)
Require Import BV.Model.Base.
Local Open Scope Z_scope.

Fixpoint be_acc (acc : Z) (l : list N) : Z :=
  match l with [] => acc | b :: r => be_acc (acc * 256 + Z.of_N b) r end.
Definition be_valZ (l : list N) : Z := be_acc 0 l.

(* signed value of the first octet *)
Definition sbyte (b : N) : Z := if (b <? 128)%N then Z.of_N b else Z.of_N b - 256.

(* value of a two's-complement big-endian octet string *)
Definition tc_val (c : list N) : Z :=
  match c with [] => 0 | b :: r => be_acc (sbyte b) r end.

(* X.690 8.3.2: the first nine bits are neither all zero nor all one *)
Definition minimal (c : list N) : bool :=
  match c with
  | [] => false
  | [_] => true
  | b0 :: b1 :: _ =>
      negb ((b0 =? 0)%N && (b1 <? 128)%N) && negb ((b0 =? 255)%N && (128 <=? b1)%N)
  end.

Definition pw (k : nat) : Z := 256 ^ Z.of_nat k.

(* range of the Rust integer types: signed/unsigned, width in octets *)
Definition in_range (signed : bool) (w : nat) (v : Z) : bool :=
  if signed then (- (128 * pw (w - 1)) <=? v) && (v <? 128 * pw (w - 1))
  else (0 <=? v) && (v <? pw w).
