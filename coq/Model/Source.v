(* Level A: the Source trait as bcder uses it, over the least forgiving legal
   source. A raw source holds the remaining data and how much of it the last
   requests have granted; how much a request grants is decided by an arbitrary
   policy, clamped into the interval the trait contract allows
   [min(wanted, available), available]. slice() shows ONLY the granted octets
   and bytes()/advance() beyond the grant panic, so any access outside what a
   preceding request granted is a Panic of the model. Definitions only. *)
Require Import BV.Model.Base BV.Model.SrcB BV.Model.Length BV.Model.Tag.

Record raw := mkRaw { rdata : list N; rgr : N; rlim : option N; ridx : N }.
Definition policy := N -> N -> N -> N.      (* request index, wanted, available -> grant *)
Definition A (T : Type) := raw -> res T * raw.

Definition clamp (want av g : N) : N := N.max (N.min want av) (N.min g av).

(* the inner source's request(k) *)
Definition src_request (pol : policy) (k : N) (r : raw) : N * raw :=
  let av := len (rdata r) in
  let g := clamp k av (pol (ridx r) k av) in
  let g' := N.max (rgr r) g in
  (g', mkRaw (rdata r) g' (rlim r) (ridx r + 1)).

(* LimitedSource::request *)
Definition requestA (pol : policy) (n : N) : A N := fun r =>
  match rlim r with
  | Some l => let '(g, r') := src_request pol (N.min l n) r in (Ok (N.min l g), r')
  | None => let '(g, r') := src_request pol n r in (Ok g, r')
  end.
(* LimitedSource::slice: the granted octets, cut at the limit *)
Definition sliceA (r : raw) : list N :=
  let s := firstN (rgr r) (rdata r) in
  match rlim r with Some l => if l <? len s then firstN l s else s | None => s end.
(* LimitedSource::advance *)
Definition advanceA (n : N) : A unit := fun r =>
  match rlim r with
  | Some l => if l <? n then (Panic, r) else
              if rgr r <? n then (Panic, r) else
              (Ok tt, mkRaw (skipN n (rdata r)) (rgr r - n) (Some (l - n)) (ridx r))
  | None => if rgr r <? n then (Panic, r) else
            (Ok tt, mkRaw (skipN n (rdata r)) (rgr r - n) None (ridx r))
  end.
(* LimitedSource::bytes(0, n) *)
Definition bytesA (n : N) : A (list N) := fun r =>
  match rlim r with
  | Some l => if l <? n then (Panic, r) else
              if rgr r <? n then (Panic, r) else (Ok (firstN n (rdata r)), r)
  | None => if rgr r <? n then (Panic, r) else (Ok (firstN n (rdata r)), r)
  end.

Definition bindA {T U} (m : A T) (f : T -> A U) : A U := fun r =>
  match m r with
  | (Ok a, r') => f a r'
  | (CErr, r') => (CErr, r') | (SErr, r') => (SErr, r')
  | (Panic, r') => (Panic, r') | (NoFuel, r') => (NoFuel, r')
  end.
Definition retA {T} (a : T) : A T := fun r => (Ok a, r).
Definition cerrA {T} : A T := fun r => (CErr, r).

(* slice()[i]: Panic when the slice is too short *)
Definition indexA (i : N) : A N := fun r =>
  match skipN i (sliceA r) with b :: _ => (Ok b, r) | [] => (Panic, r) end.

(* ---- the access patterns of the code ---- *)
(* Source::take_u8 *)
Definition take_u8_A (pol : policy) : A N :=
  bindA (requestA pol 1) (fun g =>
  if g <? 1 then cerrA else
  bindA (indexA 0) (fun b => bindA (advanceA 1) (fun _ => retA b))).
(* Source::take_opt_u8 *)
Definition take_opt_u8_A (pol : policy) : A (option N) :=
  bindA (requestA pol 1) (fun g =>
  if g <? 1 then retA None else
  bindA (indexA 0) (fun b => bindA (advanceA 1) (fun _ => retA (Some b)))).
(* LimitedSource::take_all: request(limit) < limit -> error; bytes(0, limit); advance(limit) *)
Definition take_all_A (pol : policy) : A (list N) := fun r =>
  match rlim r with
  | None => (Panic, r)
  | Some l =>
      bindA (requestA pol l) (fun g =>
      if g <? l then cerrA else
      bindA (bytesA l) (fun b => bindA (advanceA l) (fun _ => retA b))) r
  end.
(* the skip_opt pattern: request(n) < n -> error; advance(n) *)
Definition skip_n_A (pol : policy) (n : N) : A unit :=
  bindA (requestA pol n) (fun g => if g <? n then cerrA else advanceA n).
(* one step of the peek loop of Tag::take_from_if: request(i+1) <= i -> error; slice()[i] *)
Definition peek_A (pol : policy) (i : N) : A N :=
  bindA (requestA pol (i + 1)) (fun g => if g <=? i then cerrA else indexA i).

(* abstraction to Level B: forget grants and request index *)
Definition absA (r : raw) : src := mkSrc (rdata r) (rlim r) None.
(* the invariant of a raw source: never more granted than there is *)
Definition raw_ok (r : raw) : Prop := rgr r <= len (rdata r).

(* LimitedSource::set_limit / limit: the grant of the inner source is untouched *)
Definition set_limit_A (l : option N) : A unit := fun r =>
  (Ok tt, mkRaw (rdata r) (rgr r) l (ridx r)).
Definition get_limit_A : A (option N) := fun r => (Ok (rlim r), r).

(* Level-B reading of the peek step *)
Definition peek_B (i : N) : M N := fun s =>
  match skipN i (visible s) with b :: _ => (Ok b, s) | [] => (CErr, s) end.

(* LimitedSource::exhausted: limit 0 / limit left / no limit: request(1) == 0 *)
Definition exhausted_A (pol : policy) : A unit := fun r =>
  match rlim r with
  | Some 0 => (Ok tt, r)
  | Some _ => (CErr, r)
  | None => bindA (requestA pol 1) (fun g => if g <? 1 then retA tt else cerrA) r
  end.

(* Tag::take_from_if as the code does it: request(1) == 0 -> absent; slice()[0]; for a high tag number
   peek further octets (request(i+1) <= i -> error; slice()[i]; more than four octets -> error); compare with
   the expected tag; advance over the identifier only on a match *)
Definition tagif_fin (e : N * N * N * N) (c : bool) (t : N * N * N * N) (n : N) : A (option bool) :=
  let '(a0, a1, a2, a3) := t in let '(b0, b1, b2, b3) := e in
  if (a0 =? b0) && (a1 =? b1) && (a2 =? b2) && (a3 =? b3)
  then bindA (advanceA n) (fun _ => retA (Some c)) else retA None.
Definition tagif_A (pol : policy) (e : N * N * N * N) : A (option bool) :=
  bindA (requestA pol 1) (fun g =>
  if g <? 1 then retA None else
  bindA (indexA 0) (fun b =>
  let d0 := N.land b 223 in let c := negb (N.land b 32 =? 0) in
  if N.land d0 31 =? 31 then
    bindA (peek_A pol 1) (fun d1 =>
    if N.land d1 128 =? 0 then tagif_fin e c (d0,d1,0,0) 2 else
    bindA (peek_A pol 2) (fun d2 =>
    if N.land d2 128 =? 0 then tagif_fin e c (d0,d1,d2,0) 3 else
    bindA (peek_A pol 3) (fun d3 =>
    if N.land d3 128 =? 0 then tagif_fin e c (d0,d1,d2,d3) 4 else cerrA)))
  else tagif_fin e c (d0,0,0,0) 1)).

(* request(n), then look at the first n octets slice() shows (fewer when fewer are there) *)
Definition look_A (pol : policy) (n : N) : A (list N) :=
  bindA (requestA pol n) (fun _ r => (Ok (firstN n (sliceA r)), r)).
Definition look_B (n : N) : M (list N) := tick ;;; fun s => (Ok (firstN n (visible s)), s).
(* Integer::check_head as the code does it: request(2) == 0 -> error; slice.first(), slice.get(1) *)
Definition int_check_head_A (pol : policy) : A unit :=
  bindA (look_A pol 2) (fun l => match l with
  | [] => cerrA | [_] => retA tt
  | b0 :: b1 :: _ =>
      if ((b0 =? 0) && (N.land b1 128 =? 0)) || ((b0 =? 255) && negb (N.land b1 128 =? 0))
      then cerrA else retA tt end).
(* Unsigned::check_head: Integer::check_head, then slice().first().unwrap() with NO further request *)
Definition uns_check_head_A (pol : policy) : A unit :=
  bindA (int_check_head_A pol) (fun _ =>
  bindA (indexA 0) (fun b0 => if negb (N.land b0 128 =? 0) then cerrA else retA tt)).
(* Primitive::with_slice_all: request(limit) < limit -> error; the closure sees slice()[..limit]; the source is
   advanced over it only when the closure accepts *)
Definition slice_then_A (pol : policy) (adv : list N -> bool) : A (list N) := fun r =>
  match rlim r with
  | None => (Panic, r)
  | Some l =>
      bindA (requestA pol l) (fun g =>
      if g <? l then cerrA else
      bindA (bytesA l) (fun c => if adv c then bindA (advanceA l) (fun _ => retA c) else retA c)) r
  end.
Definition slice_then_B (adv : list N -> bool) : M (list N) :=
  c <- slice_all_lim ;; if adv c then advance (len c) ;;; ret c else ret c.

(* ---- decoders as trees of access patterns ----
   Any decoder that touches its source only through the patterns above is such
   a tree (continuations are arbitrary Gallina functions of the octets read). *)
Inductive pat (T : Type) : Type :=
| PRet (t : T)
| PErr
| PTakeU8 (k : N -> pat T)
| PTakeOpt (k : option N -> pat T)
| PSkipN (n : N) (k : pat T)
| PTakeAll (k : list N -> pat T)
| PPeek (i : N) (k : N -> pat T)
| PSetLim (l : option N) (k : pat T)
| PGetLim (k : option N -> pat T)
| PRes (x : res T)
| PTagIf (e : N * N * N * N) (k : option bool -> pat T)
| PExhausted (k : pat T)
| PLook (n : N) (k : list N -> pat T)
| PSliceThen (adv : list N -> bool) (k : list N -> pat T).
Arguments PRet {T}. Arguments PErr {T}. Arguments PTakeU8 {T}. Arguments PTakeOpt {T}.
Arguments PSkipN {T}. Arguments PTakeAll {T}. Arguments PPeek {T}. Arguments PSetLim {T}.
Arguments PGetLim {T}. Arguments PRes {T}. Arguments PTagIf {T}. Arguments PExhausted {T}.
Arguments PLook {T}. Arguments PSliceThen {T}.

Fixpoint runA {T} (pol : policy) (p : pat T) : A T :=
  match p with
  | PRet t => retA t
  | PErr => cerrA
  | PTakeU8 k => bindA (take_u8_A pol) (fun b => runA pol (k b))
  | PTakeOpt k => bindA (take_opt_u8_A pol) (fun b => runA pol (k b))
  | PSkipN n k => bindA (skip_n_A pol n) (fun _ => runA pol k)
  | PTakeAll k => bindA (take_all_A pol) (fun b => runA pol (k b))
  | PPeek i k => bindA (peek_A pol i) (fun b => runA pol (k b))
  | PSetLim l k => bindA (set_limit_A l) (fun _ => runA pol k)
  | PGetLim k => bindA get_limit_A (fun l => runA pol (k l))
  | PRes x => fun r => (x, r)
  | PTagIf e k => bindA (tagif_A pol e) (fun o => runA pol (k o))
  | PExhausted k => bindA (exhausted_A pol) (fun _ => runA pol k)
  | PLook n k => bindA (look_A pol n) (fun l => runA pol (k l))
  | PSliceThen adv k => bindA (slice_then_A pol adv) (fun c => runA pol (k c))
  end.

Fixpoint runB {T} (p : pat T) : M T :=
  match p with
  | PRet t => ret t
  | PErr => cerr
  | PTakeU8 k => b <- take_u8 ;; runB (k b)
  | PTakeOpt k => b <- take_opt_u8 ;; runB (k b)
  | PSkipN n k => need n ;;; advance n ;;; runB k
  | PTakeAll k => b <- take_all_lim ;; runB (k b)
  | PPeek i k => b <- peek_B i ;; runB (k b)
  | PSetLim l k => set_limit l ;;; runB k
  | PGetLim k => l <- get_lim ;; runB (k l)
  | PRes x => fun s => (x, s)
  | PTagIf e k => o <- tag_take_from_if e ;; runB (k o)
  | PExhausted k => src_exhausted ;;; runB k
  | PLook n k => l <- look_B n ;; runB (k l)
  | PSliceThen adv k => c <- slice_then_B adv ;; runB (k c)
  end.

(* Source::skip: advances over min(granted, n) *)
Definition skip_min_A (pol : policy) (n : N) : A N :=
  bindA (requestA pol n) (fun g => let m := N.min g n in bindA (advanceA m) (fun _ => retA m)).
(* LimitedSource::skip_all *)
Definition skip_all_A (pol : policy) : A unit := fun r =>
  match rlim r with None => (Panic, r) | Some l => skip_n_A pol l r end.

(* ---- scripts of raw operations, for the correspondence stream c07.grants ---- *)
Inductive aop :=
| ATakeU8 | ATakeOpt | ASkip (n : N) | ATakeAll | ASkipAll | ASetLim (l : option N)
| ARequest (n : N) | ATag | AExhausted | ATagIf (e0 e1 e2 e3 : N) | ALook (n : N).

Definition tag_A (pol : policy) : A (option (N * N * N * N * bool)) := runA pol
  (PTakeOpt (fun ob => match ob with None => PRet None | Some b =>
    let d0 := N.land b 223 in let c := negb (N.land b 32 =? 0) in
    if N.land d0 31 =? 31 then
      PTakeU8 (fun d1 =>
      if (d1 =? 128) || (d1 <=? 30) then PErr else
      if N.land d1 128 =? 0 then PRet (Some (d0,d1,0,0,c)) else
      PTakeU8 (fun d2 =>
      if N.land d2 128 =? 0 then PRet (Some (d0,d1,d2,0,c)) else
      PTakeU8 (fun d3 =>
      if N.land d3 128 =? 0 then PRet (Some (d0,d1,d2,d3,c)) else PErr)))
    else PRet (Some (d0,0,0,0,c)) end)).

Definition mapA {T U} (f : T -> U) (m : A T) : A U := bindA m (fun t => retA (f t)).
Definition zlist (l : list N) : list Z := map Z.of_N l.

(* observation of one operation *)
Definition run_aop (pol : policy) (o : aop) : A (list Z) :=
  match o with
  | ATakeU8 => mapA (fun b => [Z.of_N b]) (take_u8_A pol)
  | ATakeOpt => mapA (fun ob => match ob with Some b => [Z.of_N b] | None => [(-1)%Z] end) (take_opt_u8_A pol)
  | ASkip n => mapA (fun m => [Z.of_N m]) (skip_min_A pol n)
  | ATakeAll => mapA (fun bs => Z.of_N (len bs) :: zlist bs) (take_all_A pol)
  | ASkipAll => mapA (fun _ => [0%Z]) (skip_all_A pol)
  | ASetLim l => mapA (fun _ => @nil Z) (set_limit_A l)
  | ARequest n => mapA (fun g => [Z.of_N g]) (requestA pol n)
  | ATag => mapA (fun ot : option (N * N * N * N * bool) => match ot with
                 | Some (a,b,c,d,k) => [1%Z; Z.of_N a; Z.of_N b; Z.of_N c; Z.of_N d; if k then 1%Z else 0%Z]
                 | None => [0%Z] end) (tag_A pol)
  | AExhausted => mapA (fun _ => [0%Z]) (exhausted_A pol)
  | ATagIf e0 e1 e2 e3 => mapA (fun o : option bool => match o with
                 | Some k => [1%Z; if k then 1%Z else 0%Z] | None => [0%Z] end) (tagif_A pol (e0, e1, e2, e3))
  | ALook n => mapA (fun bs => Z.of_N (len bs) :: zlist bs) (look_A pol n)
  end.

(* run until the first error; (code, log, final source) *)
Fixpoint run_aops (pol : policy) (ops : list aop) (log : list Z) (r : raw) : Z * list Z * raw :=
  match ops with
  | [] => (0%Z, log, r)
  | o :: ops' =>
    match run_aop pol o r with
    | (Ok l, r') => run_aops pol ops' (log ++ l) r'
    | (CErr, r') => (1%Z, log, r')
    | (SErr, r') => (2%Z, log, r')
    | (Panic, r') => (3%Z, log, r')
    | (NoFuel, r') => (4%Z, log, r')
    end
  end.

Definition mk_policy (kind : N) (param : N) (table : list N) : policy :=
  match kind with
  | 0 => fun _ _ av => av
  | 1 => fun _ _ _ => 0
  | 2 => fun _ k av => let c := N.max param 1 in ((N.min k av + c - 1) / c) * c
  | _ => fun i _ _ => match table with [] => 0 | _ => nth (N.to_nat (i mod len table)) table 0 end
  end.

Fixpoint parse_aops (fuel : nat) (l : list N) : list aop :=
  match fuel with O => [] | S f =>
  match l with
  | 0 :: t => ATakeU8 :: parse_aops f t
  | 1 :: t => ATakeOpt :: parse_aops f t
  | 2 :: n :: t => ASkip n :: parse_aops f t
  | 3 :: t => ATakeAll :: parse_aops f t
  | 4 :: t => ASkipAll :: parse_aops f t
  | 5 :: n :: t => ASetLim (Some n) :: parse_aops f t
  | 6 :: t => ASetLim None :: parse_aops f t
  | 7 :: n :: t => ARequest n :: parse_aops f t
  | 8 :: t => ATag :: parse_aops f t
  | 9 :: t => AExhausted :: parse_aops f t
  | 10 :: e0 :: e1 :: e2 :: e3 :: t => ATagIf e0 e1 e2 e3 :: parse_aops f t
  | 11 :: n :: t => ALook n :: parse_aops f t
  | _ => []
  end end.
