(* Correspondence streams: for each stream id the function that recomputes,
   from the case's arguments, the canonical observation the Rust harness
   printed for the implementation. Everything is numbers: arguments are lists
   of integers, observations are lists of integers. Definitions only. *)
Require Import BV.Model.Base BV.Model.SrcB BV.Model.Length BV.Model.Tag BV.Model.Twos BV.Model.Int BV.Model.BitStr BV.Model.Oid BV.Model.Content BV.Model.Prog BV.Model.OctStr BV.Model.Encode BV.Model.Source.
Local Open Scope Z_scope.

Definition zs_to_ns (l : list Z) : list N := map Z.to_N l.
Definition ns_to_zs (l : list N) : list Z := map Z.of_N l.
Definition arg (i : nat) (args : list (list Z)) : list Z := nth i args [].
Definition argn (i : nat) (args : list (list Z)) : N := Z.to_N (hd 0 (arg i args)).
Definition argz (i : nat) (args : list (list Z)) : Z := hd 0 (arg i args).
Definition argb (i : nat) (args : list (list Z)) : list N := zs_to_ns (arg i args).
Definition mode_of (n : N) : mode :=
  match n with 0%N => Ber | 1%N => Cer | _ => Der end.
Definition argm (i : nat) (args : list (list Z)) : mode := mode_of (argn i args).

(* result encodings *)
Definition enc_res {A} (f : A -> list Z) (r : res A) : list Z :=
  match r with Ok a => 0 :: f a | CErr => [1] | SErr => [2] | Panic => [3] | NoFuel => [4] end.
Definition enc_n (n : N) : list Z := [Z.of_N n].
Definition enc_bytes (l : list N) : list Z := Z.of_N (len l) :: ns_to_zs l.
Definition enc_bool (b : bool) : list Z := [if b then 1 else 0].
Definition enc_opt {A} (f : A -> list Z) (o : option A) : list Z :=
  match o with None => [0] | Some a => 1 :: f a end.

(* ---- C13 ---- *)
Definition s_c13_write (args : list (list Z)) : list Z :=
  let n := argn 0 args in
  enc_res enc_n (length_encoded_len n) ++ enc_res enc_bytes (length_write n).

(* length octets observed through a primitive and a constructed probe *)
Definition s_c13_read (args : list (list Z)) : list Z :=
  let m := argm 0 args in
  let d := argb 1 args in
  match fst (length_take_from m (pure_src d None)) with
  | Ok (Definite_ n) => [1; Z.of_N n; if mode_eqb m Cer then 0 else 1]
  | Ok Indefinite_ => [0; 0; if mode_eqb m Der then 0 else 1]
  | _ => [0; 0; 0]
  end.

(* ---- C12 ---- *)
Definition class_idx (t : tag) : N := (tag_class t / 64)%N.
Definition consumed (d : list N) (s : src) : Z := Z.of_N (len d - len (rem s)).

Definition s_c12_new (args : list (list Z)) : list Z :=
  let cls := (argn 0 args * 64)%N in
  let n := argn 1 args in
  enc_res (fun t =>
      enc_bytes (tag_write false t) ++ enc_bytes (tag_write true t) ++
      enc_n (tag_encoded_len t) ++ enc_n (tag_number t) ++
      enc_bool (class_idx t =? 0)%N ++ enc_bool (class_idx t =? 1)%N ++
      enc_bool (class_idx t =? 2)%N ++ enc_bool (class_idx t =? 3)%N)
    (tag_new cls n).

Definition s_c12_read (args : list (list Z)) : list Z :=
  let d := argb 0 args in
  let '(r, s') := tag_take_from (pure_src d None) in
  let '(ro, so) := tag_take_opt_from (pure_src d None) in
  enc_res (fun tc : tag * bool => let '(t, c) := tc in
      enc_bytes (tag_write c t) ++ enc_bool c ++ enc_n (tag_number t) ++
      enc_n (class_idx t) ++
      enc_bool (match tag_new (tag_class t) (tag_number t) with
                | Ok t' => tag_eqb t t' | _ => false end) ++
      [consumed d s']) r
  ++ enc_res (fun o : option (tag * bool) =>
                match o with None => [0] | Some _ => [1] end) ro.

Definition s_c12_takeif (args : list (list Z)) : list Z :=
  let cls := (argn 0 args * 64)%N in
  let n := argn 1 args in
  let d := argb 2 args in
  match tag_new cls n with
  | Ok e =>
    let '(r, s') := tag_take_from_if e (pure_src d None) in
    enc_res (enc_opt enc_bool) r ++ [consumed d s']
  | _ => [-1]
  end.

(* ---- C14 ---- *)
Definition enc_z (v : Z) : list Z := [v].
Definition enc_unit (_ : unit) : list Z := [].
Definition s_c14_dec (args : list (list Z)) : list Z :=
  enc_res enc_z (prim_decode (int_accessor (argn 0 args)) (argb 2 args)).
Definition s_c14_bool (args : list (list Z)) : list Z :=
  enc_res enc_bool (prim_decode (to_bool (argm 0 args)) (argb 1 args)).
Definition s_c14_null (args : list (list Z)) : list Z :=
  enc_res enc_unit (prim_decode to_null (argb 0 args)).
Definition s_c14_enc (args : list (list Z)) : list Z :=
  let ty := argn 0 args in let v := argz 1 args in
  match ty with
  | 10%N => enc_bytes (Int.enc_bool (negb (v =? 0))) ++ [1]
  | 11%N => [0; 0]
  | _ => enc_bytes (enc_int ty v) ++ enc_n (enc_int_len ty v)
  end.
Definition skip_u8_if_prim (e : Z) : M unit :=
  v <- u8_from_primitive ;; if v =? e then ret tt else cerr.
Definition s_c14_skipif (args : list (list Z)) : list Z :=
  let r := enc_res enc_unit (prim_decode (skip_u8_if_prim (argz 0 args)) (argb 1 args)) in
  r ++ r ++ r.

(* ---- C15 ---- *)
Definition enc_cmp (c : comparison) : list Z :=
  match c with Lt => [-1] | Eq => [0] | Gt => [1] end.
Definition s_c15_cmp (args : list (list Z)) : list Z :=
  let a := argb 0 args in let b := argb 1 args in
  enc_res enc_cmp (int_cmp a b) ++ enc_bool (int_eq a b) ++ enc_bool (list_eqb a b).
Definition s_c15_pred (args : list (list Z)) : list Z :=
  let a := argb 0 args in
  enc_res enc_bool (int_is_zero a) ++ enc_res enc_bool (int_is_positive a)
  ++ enc_res enc_bool (int_is_negative a).
Definition s_c15_tryfrom (args : list (list Z)) : list Z :=
  let ty := argn 0 args in let a := argb 1 args in
  enc_res enc_z (int_try_from ty a) ++
  (if is_ok (prim_decode unsigned_int_from_primitive a)
   then enc_res enc_z (int_try_from ty a) else [9]).
Definition s_c15_from (args : list (list Z)) : list Z :=
  enc_bytes (enc_int (argn 0 args) (argz 1 args)).
Definition s_c15_frombytes (args : list (list Z)) : list Z :=
  enc_res enc_bytes (unsigned_from_bytes (argb 0 args)).
Definition s_c15_decode (args : list (list Z)) : list Z :=
  let c := argb 0 args in
  enc_res enc_bytes (prim_decode integer_from_primitive c) ++
  enc_res enc_bytes (prim_decode unsigned_int_from_primitive c).

(* ---- C19 ---- *)
Definition s_c19_decode (args : list (list Z)) : list Z :=
  let m := argm 0 args in let c := argb 1 args in
  enc_res (fun v : bitstr => enc_n (bs_unused v) ++ enc_bytes (bs_octets v) ++ enc_n (bs_bit_len v)
                             ++ enc_n (bs_octet_len v))
          (prim_decode (bit_from_prim m) c)
  ++ enc_res enc_unit (prim_decode (bit_skip_prim m) c) ++ [1; 1].
Definition s_c19_bit (args : list (list Z)) : list Z :=
  let u := argn 0 args in let bits := argb 1 args in let i := argn 2 args in
  enc_res (fun v => enc_bool (bs_bit v i) ++ enc_n (bs_bit_len v)) (bit_new u bits).
Definition s_c19_enc (args : list (list Z)) : list Z :=
  let u := argn 0 args in let bits := argb 1 args in
  enc_res (fun v => enc_bytes (bs_write v) ++ enc_n (bs_encoded_len v)) (bit_new u bits).

(* ---- C20 ---- *)
Definition s_c20_decode (args : list (list Z)) : list Z :=
  let c := argb 0 args in
  enc_res enc_bytes (prim_decode oid_from_prim c) ++ enc_res enc_unit (prim_decode oid_skip_prim c).
Definition s_c20_skipif (args : list (list Z)) : list Z :=
  enc_res enc_unit (prim_decode (oid_skip_if (argb 0 args)) (argb 1 args)).
Definition s_c20_fromstr (args : list (list Z)) : list Z :=
  enc_res enc_bytes (oid_from_str (argb 0 args)).
Definition enc_arc (o : option N) : list Z := match o with None => [-1] | Some v => [Z.of_N v] end.
Definition s_c20_display (args : list (list Z)) : list Z :=
  enc_res (fun l => Z.of_N (len l) :: flat_map enc_arc l ++ Z.of_N (len l) :: flat_map enc_arc l)
          (oid_display (argb 0 args)).

(* ---- programs (C02, C03, C09, C10, C11) ---- *)
Definition s_prog (args : list (list Z)) : list Z :=
  run_program (argm 0 args) (arg 1 args) (argb 2 args).

(* ---- C16 / C17 / C18 ---- *)
Definition enc_segs (l : list (list N)) : list Z := Z.of_N (len l) :: flat_map enc_bytes l.
Definition enc_ostr_views (o : ostr) : list Z :=
  (match o with OPrim _ => [0] | OCons _ => [1] end) ++
  enc_res enc_segs (os_segments o) ++ enc_res enc_bytes (os_octets o) ++
  enc_res enc_n (os_len o) ++ enc_res enc_bool (os_is_empty o).
Definition tag_of_args (cl n : N) : tag := match tag_new (cl * 64) n with Ok t => t | _ => T_OCTET_STRING end.

Definition s_c16_decode (args : list (list Z)) : list Z :=
  enc_res enc_ostr_views (octstr_take_from (argm 0 args) T_OCTET_STRING (argb 1 args)).
Definition s_c16_encode (args : list (list Z)) : list Z :=
  match octstr_take_from (argm 0 args) T_OCTET_STRING (argb 1 args) with
  | Ok o => 0 :: enc_res enc_bytes (os_encode (argm 2 args) T_OCTET_STRING o)
              ++ enc_res enc_n (os_encoded_len (argm 2 args) T_OCTET_STRING o)
  | _ => [1]
  end.
(* c16.source: a script of request(n) / advance(k) on the value used as a decoding source; after every
   request the amount reported and the whole of slice() *)
Fixpoint oss_script (ops : list N) (st : oss) (log : list Z) : list Z :=
  match ops with
  | 0%N :: n :: r =>
      match oss_request n st with
      | Ok (g, st') => oss_script r st' (log ++ Z.of_N g :: enc_bytes (oss_slice st'))
      | _ => log ++ [(-3)%Z]
      end
  | 1%N :: n :: r =>
      let k := N.min n (len (ocur st)) in
      match oss_advance k st with
      | Ok st' => oss_script r st' (log ++ [Z.of_N k])
      | _ => log ++ [(-3)%Z]
      end
  | _ => log
  end.
Definition s_c16_source (args : list (list Z)) : list Z :=
  match octstr_take_from (argm 0 args) T_OCTET_STRING (argb 1 args) with
  | Ok o => 0%Z :: oss_script (argb 2 args) (oss_new o) []
  | _ => [1%Z]
  end.
Definition s_c17_cmp (args : list (list Z)) : list Z :=
  match octstr_take_from Ber T_OCTET_STRING (argb 0 args), octstr_take_from Ber T_OCTET_STRING (argb 1 args) with
  | Ok a, Ok b =>
      0 :: enc_res enc_bool (os_eq a b) ++ enc_res enc_cmp (os_cmp a b)
        ++ enc_res enc_bool (os_eq a b)
  | _, _ => [1]
  end.
Definition s_c17_slice (args : list (list Z)) : list Z :=
  match octstr_take_from Ber T_OCTET_STRING (argb 0 args) with
  | Ok a => 0 :: enc_res enc_bool (os_eq_slice a (argb 1 args)) ++ enc_res enc_cmp (os_cmp_slice a (argb 1 args))
  | _ => [1]
  end.
Definition charset_of (n : N) : charset :=
  match n with 0%N => Utf8 | 1%N => Numeric | 2%N => Printable | _ => Ia5 end.
Definition charset_tag (cs : charset) : tag :=
  match cs with Utf8 => T_UTF8_STRING | Numeric => T_NUMERIC_STRING
              | Printable => T_PRINTABLE_STRING | Ia5 => T_IA5_STRING end.
Definition enc_chars (l : list N) : list Z := Z.of_N (len l) :: map Z.of_N l.
Definition s_c18_decode (args : list (list Z)) : list Z :=
  let cs := charset_of (argn 0 args) in
  match octstr_take_from (argm 1 args) (charset_tag cs) (argb 2 args) with
  | Ok o => match rs_new cs o with
            | Ok o' => 0 :: enc_res enc_chars (rs_chars cs o') ++ enc_res enc_bytes (os_octets o')
            | CErr => [1] | _ => [3] end
  | CErr => [1] | _ => [3]
  end.
Definition s_c18_fromstr (args : list (list Z)) : list Z :=
  let cs := charset_of (argn 0 args) in
  match rs_from_str cs (argb 1 args) with
  | Ok o => 0 :: enc_res enc_chars (rs_chars cs o)
  | CErr => [1] | _ => [3]
  end.

(* ---- encoder trees (C04, C05, C06) ---- *)
Definition take_n {A} (n : nat) (l : list A) : list A * list A := (firstn n l, skipn n l).
Fixpoint parse_enc (fuel : nat) (l : list Z) : option (enc * list Z) :=
  match fuel with
  | O => None
  | S f =>
    match l with
    | 0 :: cl :: nm :: n :: r =>
        let '(b, r') := take_n (Z.to_nat n) r in
        Some (EPrim (tag_of_args (Z.to_N cl) (Z.to_N nm)) (zs_to_ns b), r')
    | 1 :: cl :: nm :: _rep :: r =>
        match parse_enc f r with
        | Some (e, r') => Some (ECons (tag_of_args (Z.to_N cl) (Z.to_N nm)) e, r') | None => None end
    | 2 :: _rep :: k :: r =>
        (fun o : option (list enc * list Z) =>
           match o with Some (es, r') => Some (ESeq es, r') | None => None end)
        ((fix go (n : nat) (r : list Z) : option (list enc * list Z) :=
           match n with
           | O => Some ([], r)
           | S n' => match parse_enc f r with
                     | Some (e, r') => match go n' r' with
                                       | Some (es, r'') => Some (e :: es, r'') | None => None end
                     | None => None end
           end) (Z.to_nat k) r)

    | 3 :: 0 :: r => Some (EOpt None, r)
    | 3 :: 1 :: r => match parse_enc f r with Some (e, r') => Some (EOpt (Some e), r') | None => None end
    | 4 :: _w :: r => match parse_enc f r with Some (e, r') => Some (EChoice e, r') | None => None end
    | 5 :: r => Some (ENothing, r)
    | 6 :: cm :: n :: r =>
        let '(b, r') := take_n (Z.to_nat n) r in
        Some (ECaptured (mode_of (Z.to_N cm)) (zs_to_ns b), r')
    | 7 :: cl :: nm :: dm :: n :: r =>
        let '(b, r') := take_n (Z.to_nat n) r in
        match octstr_take_from (mode_of (Z.to_N dm)) T_OCTET_STRING (zs_to_ns b) with
        | Ok o => Some (EOctStr (tag_of_args (Z.to_N cl) (Z.to_N nm)) o, r')
        | _ => None
        end
    | 8 :: cl :: nm :: n :: r =>
        let '(b, r') := take_n (Z.to_nat n) r in
        Some (EOctSlice (tag_of_args (Z.to_N cl) (Z.to_N nm)) (zs_to_ns b), r')
    | 9 :: cl :: nm :: u :: n :: r =>
        let '(b, r') := take_n (Z.to_nat n) r in
        Some (EBitSlice (tag_of_args (Z.to_N cl) (Z.to_N nm)) (Z.to_N u) (zs_to_ns b), r')
    | 10 :: wm :: r =>
        match parse_enc f r with Some (e, r') => Some (EWrapped (mode_of (Z.to_N wm)) e, r') | None => None end
    | 11 :: cl :: nm :: ty :: v :: r =>
        Some (EPrim (tag_of_args (Z.to_N cl) (Z.to_N nm)) (enc_int (Z.to_N ty) v), r)
    | 12 :: cl :: nm :: b :: r =>
        Some (EPrim (tag_of_args (Z.to_N cl) (Z.to_N nm)) (Int.enc_bool (negb (b =? 0))), r)
    | 13 :: cl :: nm :: r => Some (EPrim (tag_of_args (Z.to_N cl) (Z.to_N nm)) [], r)
    | 15 :: cl :: nm :: u :: n :: r =>
        let '(b, r') := take_n (Z.to_nat n) r in
        Some (EPrim (tag_of_args (Z.to_N cl) (Z.to_N nm)) (Z.to_N u :: zs_to_ns b), r')
    | _ => None
    end
  end.

Definition s_c06_tree (args : list (list Z)) : list Z :=
  let m := argm 0 args in let code := arg 1 args in
  match parse_enc (S (length code)) code with
  | Some (e, []) => enc_res enc_n (enc_len m e) ++ enc_res enc_bytes (enc_write m e)
  | _ => [-7]
  end.

(* encode a typed record, then decode the produced octets with a typed program *)
Definition s_c04_roundtrip (args : list (list Z)) : list Z :=
  let m := argm 0 args in let code := arg 1 args in let prog := arg 2 args in
  let dm := argm 3 args in
  match parse_enc (S (length code)) code with
  | Some (e, []) =>
      match enc_write m e with
      | Ok w => 0 :: enc_bytes w ++ run_program dm prog w
      | _ => [3]
      end
  | _ => [-7]
  end.

(* DER: decode a primitive content with a typed accessor, re-encode the value *)
Definition s_c05_leaf (args : list (list Z)) : list Z :=
  let ty := argn 0 args in let c := argb 1 args in
  match ty with
  | 10%N => match prim_decode (to_bool Der) c with
            | Ok b => 0 :: enc_bytes (Int.enc_bool b) | CErr => [1] | _ => [3] end
  | 11%N => match prim_decode to_null c with Ok _ => [0; 0] | CErr => [1] | _ => [3] end
  | 12%N => match prim_decode oid_from_prim c with Ok o => 0 :: enc_bytes o | CErr => [1] | _ => [3] end
  | 14%N => match prim_decode (bit_from_prim Der) c with
            | Ok v => 0 :: enc_bytes (bs_write v) | CErr => [1] | _ => [3] end
  | 16%N => match prim_decode integer_from_primitive c with Ok o => 0 :: enc_bytes o | CErr => [1] | _ => [3] end
  | 17%N => match prim_decode unsigned_int_from_primitive c with Ok o => 0 :: enc_bytes o | CErr => [1] | _ => [3] end
  | _ => match prim_decode (int_accessor ty) c with
         | Ok v => 0 :: enc_bytes (enc_int ty v) | CErr => [1] | _ => [3] end
  end.

(* DER: an OCTET STRING of n octets `fill` under the given length octets:
   accepted -> is the DER re-encoding the input? *)
Definition s_c05_lengths (args : list (list Z)) : list Z :=
  let n := argn 0 args in let fill := argn 1 args in
  let d := (4%N :: argb 2 args) ++ repeat fill (N.to_nat n) in
  match octstr_take_from Der T_OCTET_STRING d with
  | Ok o => match os_encode Der T_OCTET_STRING o with
            | Ok w => [0; if list_eqb w d then 1 else 0] | _ => [3] end
  | CErr => [1]
  | _ => [3]
  end.

(* C08: the source fails at its k-th request; the fault-free run of the
   implementation issues n requests (measured by the harness). The model's
   claim: k <= n gives the source error, otherwise the fault-free outcome. *)
Definition s_c08_fault (args : list (list Z)) : list Z :=
  if (argz 3 args <=? argz 4 args) then [2] else s_prog args.

(* C07 Level A: a script of raw Source operations on a LimitedSource over a
   contract-checking source with the given grant policy; observation = outcome,
   values read, octets consumed and the number of requests the inner source saw *)
Definition s_c07_grants (args : list (list Z)) : list Z :=
  let pol := mk_policy (argn 0 args) (argn 1 args) (argb 2 args) in
  let ops := parse_aops (length (arg 3 args)) (argb 3 args) in
  let d := argb 4 args in
  let '(code, log, r) := run_aops pol ops [] (mkRaw d 0%N None 0%N) in
  if code =? 3 then [3] else code :: Z.of_N (len d - len (rdata r)) :: Z.of_N (ridx r) :: log.

Definition run_stream (sid : N) (args : list (list Z)) : list Z :=
  match sid with
  | 101%N | 201%N | 301%N | 502%N | 701%N | 901%N | 1001%N | 1101%N => s_prog args
  | 801%N => s_c08_fault args
  | 702%N => s_c07_grants args
  | 401%N => s_c04_roundtrip args
  | 501%N => s_c05_leaf args
  | 503%N => s_c05_lengths args
  | 601%N => s_c06_tree args
  | 102%N | 103%N | 1002%N | 802%N | 402%N | 1407%N | 1408%N | 902%N | 302%N | 504%N => [1]  (* implementation-only measurement: deep nesting on a small stack *)
  | 1201%N => s_c12_new args
  | 1202%N => s_c12_read args
  | 1203%N => s_c12_takeif args
  | 1301%N => s_c13_write args
  | 1401%N => s_c14_dec args
  | 1402%N => s_c14_bool args
  | 1403%N => s_c14_null args
  | 1404%N => s_c14_enc args
  | 1406%N => s_c14_skipif args
  | 1601%N => s_c16_decode args
  | 1602%N => s_c16_encode args
  | 1603%N => s_c16_source args
  | 1701%N => s_c17_cmp args
  | 1702%N => s_c17_slice args
  | 1801%N => s_c18_decode args
  | 1802%N => s_c18_fromstr args
  | 1901%N => s_c19_decode args
  | 1902%N => s_c19_bit args
  | 1903%N => s_c19_enc args
  | 2001%N => s_c20_decode args
  | 2002%N => s_c20_skipif args
  | 2003%N => s_c20_fromstr args
  | 2004%N => s_c20_display args
  | 1501%N => s_c15_cmp args
  | 1502%N => s_c15_pred args
  | 1503%N => s_c15_tryfrom args
  | 1504%N => s_c15_from args
  | 1505%N => s_c15_frombytes args
  | 1506%N => s_c15_decode args
  | 1302%N => s_c13_read args
  | _ => [-999]
  end.
