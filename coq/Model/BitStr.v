(* Model of src/string/bit.rs. A BitString is (unused, data octets).
   Definitions only. *)
Require Import BV.Model.Base BV.Model.SrcB.

Definition bitstr := (N * list N)%type.

(* BitString::from_content, primitive branch (constructed is always an error) *)
Definition bit_from_prim (m : mode) : M bitstr :=
  r <- remaining ;;
  if mode_eqb m Cer && (1000 <? r) then cerr else
  unused <- take_u8 ;;
  if 7 <? unused then cerr else
  r2 <- remaining ;;
  if (r2 =? 0) && (0 <? unused) then cerr else
  bits <- take_all_lim ;; ret (unused, bits).

(* BitString::skip_content, primitive branch *)
Definition bit_skip_prim (m : mode) : M unit :=
  r <- remaining ;;
  if mode_eqb m Cer && (1000 <? r) then cerr else
  unused <- take_u8 ;;
  if 7 <? unused then cerr else
  r2 <- remaining ;;
  if (r2 =? 0) && (0 <? unused) then cerr else
  skip_all_lim.

(* BitString::new: Panic = the documented assertion *)
Definition bit_new (unused : N) (bits : list N) : res bitstr :=
  if (unused <=? 7) && (negb (len bits =? 0) || (unused =? 0)) then Ok (unused, bits) else Panic.

(* BitString::bit (after the D11 repair) *)
Definition bs_bit (v : bitstr) (i : N) : bool :=
  let '(unused, bits) := v in
  let idx := N.shiftr i 3 in
  if len bits <=? idx then false else
  let bit := 7 - N.land i 7 in
  if (len bits =? idx + 1) && (bit <? unused) then false else
  negb (N.land (nth (N.to_nat idx) bits 0) (N.shiftl 1 bit) =? 0).

Definition bs_bit_len (v : bitstr) : N := let '(unused, bits) := v in N.shiftl (len bits) 3 - unused.
Definition bs_unused (v : bitstr) : N := fst v.
Definition bs_octet_len (v : bitstr) : N := len (snd v).
Definition bs_octets (v : bitstr) : list N := snd v.
(* PrimitiveContent for BitString *)
Definition bs_encoded_len (v : bitstr) : N := len (snd v) + 1.
Definition bs_write (v : bitstr) : list N := fst v :: snd v.

(* ---------- specification ---------- *)
(* the bits of an octet, most significant first *)
Definition byte_bits (b : N) : list bool :=
  [N.testbit b 7; N.testbit b 6; N.testbit b 5; N.testbit b 4;
   N.testbit b 3; N.testbit b 2; N.testbit b 1; N.testbit b 0].
(* the encoded bits: all data bits except the `unused` trailing ones *)
Definition bits_of (v : bitstr) : list bool :=
  let '(unused, bits) := v in
  firstn (8 * length bits - N.to_nat unused) (flat_map byte_bits bits).
Definition bs_valid (v : bitstr) : Prop :=
  let '(unused, bits) := v in unused <= 7 /\ (bits = [] -> unused = 0).
