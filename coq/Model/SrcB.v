(* Level-B source primitives: the access patterns bcder uses on a
   LimitedSource, as pure functions on (remaining octets, limit, fault budget).
   Written in pattern-matching style on the octet list. Definitions only. *)
Require Import BV.Model.Base.

Definition lim_sub (l : option N) (n : N) : option N :=
  match l with Some x => Some (x - n) | None => None end.

(* Source::take_u8 on a LimitedSource: request(1), slice()[0], advance(1) *)
Definition take_u8 : M N := tick ;;; fun s =>
  match lim s, rem s with
  | Some 0, _ => (CErr, s)
  | _, [] => (CErr, s)
  | l, b :: r => (Ok b, mkSrc r (lim_sub l 1) (flt s))
  end.

(* Source::take_opt_u8 *)
Definition take_opt_u8 : M (option N) := tick ;;; fun s =>
  match lim s, rem s with
  | Some 0, _ => (Ok None, s)
  | _, [] => (Ok None, s)
  | l, b :: r => (Ok (Some b), mkSrc r (lim_sub l 1) (flt s))
  end.

(* request(n) followed by `< n` test and advance(n): skip_all-like access.
   `need n` = one request, content error if fewer than n octets are visible. *)
Definition need (n : N) : M unit := tick ;;; fun s =>
  if avail s <? n then (CErr, s) else (Ok tt, s).

(* advance(n) after a successful `need n` *)
Definition advance (n : N) : M unit := fun s =>
  if len (rem s) <? n then (Panic, s) else
  match lim s with
  | Some l => if l <? n then (Panic, s)
              else (Ok tt, mkSrc (skipN n (rem s)) (Some (l - n)) (flt s))
  | None => (Ok tt, mkSrc (skipN n (rem s)) None (flt s))
  end.

(* LimitedSource::skip_all / Primitive::skip_all *)
Definition skip_all_lim : M unit := fun s =>
  match lim s with
  | None => (Panic, s)                       (* limit.unwrap() *)
  | Some l => (need l ;;; advance l) s
  end.

(* LimitedSource::take_all / Primitive::take_all *)
Definition take_all_lim : M (list N) := fun s =>
  match lim s with
  | None => (Panic, s)
  | Some l => (need l ;;; s' <- get ;; advance l ;;; ret (firstN l (rem s'))) s
  end.

(* Primitive::slice_all: like take_all without advancing *)
Definition slice_all_lim : M (list N) := fun s =>
  match lim s with
  | None => (Panic, s)
  | Some l => (need l ;;; s' <- get ;; ret (firstN l (rem s'))) s
  end.

(* Primitive::with_slice_all op: op's error is a content error; the source is
   advanced only when op succeeds. op may itself panic (slice indexing). *)
Definition with_slice_all {T} (op : list N -> res T) : M T :=
  c <- slice_all_lim ;;
  match op c with
  | Ok v => advance (len c) ;;; ret v
  | CErr => cerr
  | SErr => fun s => (SErr, s)
  | Panic => panic
  | NoFuel => nofuel
  end.

(* LimitedSource::exhausted *)
Definition src_exhausted : M unit := fun s =>
  match lim s with
  | Some 0 => (Ok tt, s)
  | Some _ => (CErr, s)
  | None => (tick ;;; fun s' => match rem s' with [] => (Ok tt, s') | _ => (CErr, s') end) s
  end.

(* octets visible through the limit: what slice() can show *)
Definition visible (s : src) : list N :=
  match lim s with
  | None => rem s
  | Some l => if len (rem s) <=? l then rem s else firstN l (rem s)
  end.

(* read-only views of the state used by the composite routines *)
Definition get_lim : M (option N) := fun s => (Ok (lim s), s).
Definition get_visible : M (list N) := fun s => (Ok (visible s), s).
Definition get_avail : M N := fun s => (Ok (avail s), s).

(* Primitive::remaining *)
Definition remaining : M N := fun s =>
  match lim s with Some l => (Ok l, s) | None => (Panic, s) end.
