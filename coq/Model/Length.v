(* Model of src/length.rs (64-bit variant) and of the header helpers in
   src/encode/values.rs. Definitions only. *)
Require Import BV.Model.Base BV.Model.SrcB.

Inductive length_ := Definite_ (n : N) | Indefinite_.

Definition length_take_from (m : mode) : M length_ :=
  b <- take_u8 ;;
  if N.land b 128 =? 0 then ret (Definite_ b) else
  if b =? 128 then ret Indefinite_ else
  if b =? 129 then
    a <- take_u8 ;;
    if is_ber m || (127 <? a) then ret (Definite_ a) else cerr else
  if b =? 130 then
    a <- take_u8 ;; c <- take_u8 ;;
    let l := N.lor (N.shiftl a 8) c in
    if is_ber m || (255 <? l) then ret (Definite_ l) else cerr else
  if b =? 131 then
    a <- take_u8 ;; c <- take_u8 ;; d <- take_u8 ;;
    let l := N.lor (N.lor (N.shiftl a 16) (N.shiftl c 8)) d in
    if is_ber m || (65535 <? l) then ret (Definite_ l) else cerr else
  if b =? 132 then
    a <- take_u8 ;; c <- take_u8 ;; d <- take_u8 ;; e <- take_u8 ;;
    let l := N.lor (N.lor (N.lor (N.shiftl a 24) (N.shiftl c 16))
                          (N.shiftl d 8)) e in
    if is_ber m || (16777215 <? l) then ret (Definite_ l) else cerr else
  cerr.

Definition length_is_zero l :=
  match l with Definite_ 0 => true | _ => false end.

Definition u8 (x : N) := N.land x 255.   (* `as u8` *)

(* Length::Definite(n).encoded_len(); Panic = "excessive length" *)
Definition length_encoded_len (n : N) : res N :=
  if n <? 128 then Ok 1 else if n <? 256 then Ok 2 else
  if n <? 65536 then Ok 3 else if n <? 16777216 then Ok 4 else
  if n <? 4294967296 then Ok 5 else Panic.

(* Length::Definite(n).write_encoded() *)
Definition length_write (n : N) : res (list N) :=
  if n <? 128 then Ok [u8 n] else
  if n <? 256 then Ok [129; u8 n] else
  if n <? 65536 then Ok [130; u8 (N.shiftr n 8); u8 n] else
  if n <? 16777216 then
    Ok [131; u8 (N.shiftr n 16); u8 (N.shiftr n 8); u8 n] else
  if n <? 4294967296 then
    Ok [132; u8 (N.shiftr n 24); u8 (N.shiftr n 16); u8 (N.shiftr n 8); u8 n]
  else Panic.

(* ---------- specification: X.690 8.1.3 shortest definite form ---------- *)
(* base-256 digits of n, most significant first, no leading zero (n > 0) *)
Fixpoint be_digits_fuel (fuel : nat) (n : N) (acc : list N) : list N :=
  match fuel with
  | O => acc
  | S f => if n =? 0 then acc else be_digits_fuel f (n / 256) (n mod 256 :: acc)
  end.
Definition be_digits (n : N) : list N := be_digits_fuel (N.to_nat (N.size n)) n [].

Definition min_len_octets (n : N) : list N :=
  if n <? 128 then [n] else
  let ds := be_digits n in (128 + len ds) :: ds.
