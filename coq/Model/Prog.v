(* A small language of decoding programs, interpreted here against the model
   and in the Rust harness against the real API: the "caller code" the
   properties quantify over (generic reads, optional/tag-selective reads,
   skipping, capturing, scripts of Source operations on a primitive's content,
   typed leaf accessors). Every step appends integers to a log; the log is
   the observation. Definitions only. *)
Require Import BV.Model.Base BV.Model.SrcB BV.Model.Length BV.Model.Tag BV.Model.Twos
               BV.Model.Int BV.Model.BitStr BV.Model.Oid BV.Model.Content.

Inductive sop :=
| SRequest (n : N) | SSlice | SBytes (s e : N) | SAdvance (k : N) | SSkip (n : N)
| STakeU8 | STakeOptU8 | STakeAll | SSkipAll | SSliceAll | SWithSliceAll | SRemaining.

Inductive prog :=
| PTake (opt : bool) (kind : N) (exp : option (N * N)) (b : body)
| PSkip (variant : N) (fk fa fb : N)
| PCapture (ps : list prog)
| PCaptureOne | PCaptureAll
| PReadAll
| PSetMode (m : N)
with body :=
| BGeneric | BProg (ps : list prog) | BScript (s : list sop) | BNop
| BTyped (ty : N) | BSetModeThen (m : N) (b : body).

Definition log := list Z.
Definition z0 : Z := 0%Z. Definition z1 : Z := 1%Z. Definition zm1 : Z := (-1)%Z. Definition zm2 : Z := (-2)%Z.
Definition lbytes (l : list N) : log := Z.of_N (len l) :: map Z.of_N l.
Definition ltag (t : tag) (k : bool) : log := lbytes (tag_write k t).
Definition mode_of_n (n : N) : mode := match n with 0%N => Ber | 1%N => Cer | _ => Der end.

(* ---------- scripts of Source operations on a primitive (C03) ---------- *)
(* `granted`: what the contract allows slice/bytes/advance to touch:
   min(requested, returned) of the preceding request, reduced by advances. *)
Definition catch_cerr {A} (m : M A) (dflt : A) (onerr : log) (onok : A -> log) : M (A * log) :=
  fun s => match m s with
           | (Ok a, s') => (Ok (a, onok a), s')
           | (CErr, s') => (Ok (dflt, onerr), s')
           | (SErr, s') => (SErr, s')
           | (Panic, s') => (Panic, s')
           | (NoFuel, s') => (NoFuel, s')
           end.

Definition run_sop (o : sop) (granted : N) : M (N * log) :=
  match o with
  | SRequest n => tick ;;; a <- get_avail ;; let g := N.min n a in ret (g, [Z.of_N g])
  | SSlice => v <- get_visible ;; ret (granted, lbytes (firstN granted v))
  | SBytes a b =>
      let b' := N.min b granted in let a' := N.min a b' in
      v <- get_visible ;; ret (granted, lbytes (firstN (b' - a') (skipN a' v)))
  | SAdvance k => let k' := N.min k granted in advance k' ;;; ret (granted - k', [Z.of_N k'])
  | SSkip n =>
      tick ;;; a <- get_avail ;; let r := N.min a n in advance r ;;; ret (0%N, [Z.of_N r])
  | STakeU8 => r <- catch_cerr take_u8 0%N [zm1] (fun b => [Z.of_N b]) ;; ret (0%N, snd r)
  | STakeOptU8 =>
      o <- take_opt_u8 ;; ret (0%N, match o with Some b => [Z.of_N b] | None => [zm2] end)
  | STakeAll => r <- catch_cerr take_all_lim [] [zm1] lbytes ;; ret (0%N, snd r)
  | SSkipAll => r <- catch_cerr skip_all_lim tt [zm1] (fun _ => [z0]) ;; ret (0%N, snd r)
  | SSliceAll => r <- catch_cerr slice_all_lim [] [zm1] lbytes ;; ret (0%N, snd r)
  | SWithSliceAll =>
      r <- catch_cerr (with_slice_all (fun c => Ok c)) [] [zm1] lbytes ;; ret (0%N, snd r)
  | SRemaining => r <- remaining ;; ret (granted, [Z.of_N r])
  end.

Fixpoint run_script (sc : list sop) (granted : N) (lg : log) : M log :=
  match sc with
  | [] => ret lg
  | o :: r => x <- run_sop o granted ;; let '(g', l) := x in run_script r g' (lg ++ l)
  end.

(* ---------- typed leaf accessors on a primitive's content ---------- *)
Definition typed_prim (ty : N) (m : mode) : M log :=
  match ty with
  | 10%N => b <- to_bool m ;; ret [if b then z1 else z0]
  | 11%N => to_null ;;; ret []
  | 12%N => c <- oid_from_prim ;; ret (lbytes c)
  | 13%N => oid_skip_prim ;;; ret []
  | 14%N => v <- bit_from_prim m ;; ret (Z.of_N (fst v) :: lbytes (snd v))
  | 15%N => bit_skip_prim m ;;; ret []
  | 16%N => c <- integer_from_primitive ;; ret (lbytes c)
  | 17%N => c <- unsigned_int_from_primitive ;; ret (lbytes c)
  | _ => v <- int_accessor ty ;; ret [v]
  end.

(* ---------- the interpreter ---------- *)
Fixpoint ltlv (fuel : nat) (t : tlv) : log :=
  match fuel with
  | O => []
  | S f =>
    match t with
    | TPrim tg c => z0 :: ltag tg false ++ lbytes c
    | TCons tg kids => z1 :: ltag tg true ++ Z.of_N (len kids) :: flat_map (ltlv f) kids
    end
  end.
Definition ltlvs (fuel : nat) (l : list tlv) : log := Z.of_N (len l) :: flat_map (ltlv fuel) l.

Definition mk_filter (fk fa fb : N) : filter :=
  match fk with
  | 0%N => accept_all
  | 1%N => fun t _ _ => match tag_new (fa * 64) fb with Ok e => tag_eqb t e | _ => false end
  | 2%N => fun _ _ d => (d <? fa)%N
  | _ => fun _ k _ => negb k
  end.
Definition ltrace (tr : trace) : log :=
  Z.of_N (len tr) :: flat_map (fun x : tag * bool * N => let '(t, k, d) := x in
                                 ltag t k ++ [Z.of_N d]) tr.

Fixpoint exec (fuel : nat) (ps : list prog) (c : cons) (lg : log) : M (log * cons) :=
  match fuel with
  | O => nofuel
  | S f =>
    match ps with
    | [] => ret (lg, c)
    | p :: rest =>
      r <- (match p with
            | PTake opt kind exp b =>
                let e := match exp with
                         | Some (cl, n) => match tag_new (cl * 64) n with Ok t => Some t | _ => None end
                         | None => None end in
                let opf := fun (t : tag) (ct : content) =>
                  match kind, ct with
                  | 1%N, CCons _ => cerr
                  | 2%N, CPrim _ => cerr
                  | _, _ =>
                      r <- exec_body f b ct ;; let '(l, ct') := r in
                      ret (ltag t (match ct with CCons _ => true | CPrim _ => false end) ++ l, ct')
                  end in
                r <- process_next_value c e opf ;; let '(o, c') := r in
                match o with
                | Some l => ret (lg ++ z1 :: l, c')
                | None => if opt then ret (lg ++ [z0], c') else cerr
                end
            | PSkip variant fk fa fb =>
                let fl := mk_filter fk fa fb in
                match variant with
                | 0%N => r <- skip_opt fuel c fl ;; let '(o, c', tr) := r in
                         ret (lg ++ (match o with SkSome => z1 | SkNone => z0 end) :: ltrace tr, c')
                | 1%N => r <- skip_mand fuel c fl ;; let '(c', tr) := r in
                         ret (lg ++ z1 :: ltrace tr, c')
                | 2%N => r <- skip_one fuel c ;; let '(o, c') := r in
                         ret (lg ++ [match o with SkSome => z1 | SkNone => z0 end], c')
                | _ => r <- skip_all fuel c 0 ;; let '(n, c') := r in
                       ret (lg ++ [Z.of_N n], c')
                end
            | PCapture qs =>
                r <- capture c (fun c0 => exec f qs c0 []) ;; let '(b, l, c') := r in
                ret (lg ++ l ++ lbytes b, c')
            | PCaptureOne => r <- capture_one fuel c ;; let '(b, c') := r in ret (lg ++ lbytes b, c')
            | PCaptureAll => r <- capture_all fuel c ;; let '(b, c') := r in ret (lg ++ lbytes b, c')
            | PReadAll => r <- read_all fuel c ;; let '(ts, c') := r in ret (lg ++ ltlvs fuel ts, c')
            | PSetMode m => ret (lg, mkCons (cst c) (mode_of_n m))
            end) ;;
      let '(lg', c') := r in exec f rest c' lg'
    end
  end
with exec_body (fuel : nat) (b : body) (ct : content) : M (log * content) :=
  match fuel with
  | O => nofuel
  | S f =>
    match b, ct with
    | BGeneric, CPrim m => bs <- take_all_lim ;; ret (z0 :: lbytes bs, CPrim m)
    | BGeneric, CCons c => r <- read_all fuel c ;; let '(ts, c') := r in
                           ret (z1 :: ltlvs fuel ts, CCons c')
    | BProg ps, CCons c => r <- exec f ps c [] ;; let '(l, c') := r in ret (l, CCons c')
    | BProg _, CPrim _ => cerr
    | BScript sc, CPrim m => l <- run_script sc 0%N [] ;; ret (l, CPrim m)
    | BScript _, CCons _ => cerr
    | BNop, _ => ret ([], ct)
    | BTyped ty, CPrim m => l <- typed_prim ty m ;; ret (l, CPrim m)
    | BTyped _, CCons _ => cerr
    | BSetModeThen m b', CPrim _ => exec_body f b' (CPrim (mode_of_n m))
    | BSetModeThen m b', CCons c => exec_body f b' (CCons (mkCons (cst c) (mode_of_n m)))
    end
  end.

(* ---------- parsing programs from their integer encoding ---------- *)
Definition P (A : Type) := list Z -> option (A * list Z).
Definition pz : P Z := fun l => match l with x :: r => Some (x, r) | [] => None end.
Definition pn : P N := fun l => match l with x :: r => Some (Z.to_N x, r) | [] => None end.

Fixpoint parse_sops (n : nat) (l : list Z) : option (list sop * list Z) :=
  match n with
  | O => Some ([], l)
  | S k =>
    match l with
    | 0%Z :: a :: r => match parse_sops k r with Some (s, r') => Some (SRequest (Z.to_N a) :: s, r') | None => None end
    | 1%Z :: r => match parse_sops k r with Some (s, r') => Some (SSlice :: s, r') | None => None end
    | 2%Z :: a :: b :: r => match parse_sops k r with Some (s, r') => Some (SBytes (Z.to_N a) (Z.to_N b) :: s, r') | None => None end
    | 3%Z :: a :: r => match parse_sops k r with Some (s, r') => Some (SAdvance (Z.to_N a) :: s, r') | None => None end
    | 4%Z :: a :: r => match parse_sops k r with Some (s, r') => Some (SSkip (Z.to_N a) :: s, r') | None => None end
    | 5%Z :: r => match parse_sops k r with Some (s, r') => Some (STakeU8 :: s, r') | None => None end
    | 6%Z :: r => match parse_sops k r with Some (s, r') => Some (STakeOptU8 :: s, r') | None => None end
    | 7%Z :: r => match parse_sops k r with Some (s, r') => Some (STakeAll :: s, r') | None => None end
    | 8%Z :: r => match parse_sops k r with Some (s, r') => Some (SSkipAll :: s, r') | None => None end
    | 9%Z :: r => match parse_sops k r with Some (s, r') => Some (SSliceAll :: s, r') | None => None end
    | 10%Z :: r => match parse_sops k r with Some (s, r') => Some (SWithSliceAll :: s, r') | None => None end
    | 11%Z :: r => match parse_sops k r with Some (s, r') => Some (SRemaining :: s, r') | None => None end
    | _ => None
    end
  end.

Fixpoint parse_progs (fuel : nat) (n : nat) (l : list Z) : option (list prog * list Z) :=
  match fuel with
  | O => None
  | S f =>
    match n with
    | O => Some ([], l)
    | S k =>
      match parse_prog f l with
      | Some (p, r) => match parse_progs f k r with
                       | Some (ps, r') => Some (p :: ps, r') | None => None end
      | None => None
      end
    end
  end
with parse_prog (fuel : nat) (l : list Z) : option (prog * list Z) :=
  match fuel with
  | O => None
  | S f =>
    match l with
    | 1%Z :: opt :: kind :: 0%Z :: r =>
        match parse_body f r with
        | Some (b, r') => Some (PTake (negb (opt =? 0)%Z) (Z.to_N kind) None b, r') | None => None end
    | 1%Z :: opt :: kind :: 1%Z :: cl :: n :: r =>
        match parse_body f r with
        | Some (b, r') => Some (PTake (negb (opt =? 0)%Z) (Z.to_N kind) (Some (Z.to_N cl, Z.to_N n)) b, r')
        | None => None end
    | 2%Z :: v :: fk :: fa :: fb :: r => Some (PSkip (Z.to_N v) (Z.to_N fk) (Z.to_N fa) (Z.to_N fb), r)
    | 3%Z :: n :: r =>
        match parse_progs f (Z.to_nat n) r with
        | Some (ps, r') => Some (PCapture ps, r') | None => None end
    | 4%Z :: r => Some (PCaptureOne, r)
    | 5%Z :: r => Some (PCaptureAll, r)
    | 6%Z :: r => Some (PReadAll, r)
    | 7%Z :: m :: r => Some (PSetMode (Z.to_N m), r)
    | _ => None
    end
  end
with parse_body (fuel : nat) (l : list Z) : option (body * list Z) :=
  match fuel with
  | O => None
  | S f =>
    match l with
    | 0%Z :: r => Some (BGeneric, r)
    | 1%Z :: n :: r =>
        match parse_progs f (Z.to_nat n) r with
        | Some (ps, r') => Some (BProg ps, r') | None => None end
    | 2%Z :: n :: r =>
        match parse_sops (Z.to_nat n) r with
        | Some (s, r') => Some (BScript s, r') | None => None end
    | 3%Z :: r => Some (BNop, r)
    | 4%Z :: ty :: r => Some (BTyped (Z.to_N ty), r)
    | 5%Z :: m :: r =>
        match parse_body f r with
        | Some (b, r') => Some (BSetModeThen (Z.to_N m) b, r') | None => None end
    | _ => None
    end
  end.

(* run a program list given as integers on a whole input in mode m:
   Constructed::decode(data, m, program). Observation: result kind, the log,
   and the number of octets left in the source. *)
Definition run_program (m : mode) (code : list Z) (data : list N) : list Z :=
  let fuel := S (S (length code + 2 * length data)) in
  match code with
  | n :: r =>
    match parse_progs fuel (Z.to_nat n) r with
    | Some (ps, []) =>
        let '(res, s') := decode_src m (fun c => exec fuel ps c []) (pure_src data None) in
        match res with
        | Ok lg => 0%Z :: Z.of_N (len (rem s')) :: lg
        | CErr => [1%Z] | SErr => [2%Z] | Panic => [3%Z] | NoFuel => [4%Z]
        end
    | _ => [(-7)%Z]
    end
  | [] => [(-7)%Z]
  end.
