(* Model of the value encoders: src/encode/values.rs, the Primitive wrapper of
   src/encode/primitive.rs, Values for Captured, and the string encoders.
   An encoder composition is a tree; every clause has the shape of the Rust
   pair encoded_len / write_encoded. Definitions only. *)
Require Import BV.Model.Base BV.Model.SrcB BV.Model.Length BV.Model.Tag BV.Model.Content BV.Model.OctStr.

Inductive enc :=
| EPrim (t : tag) (content : list N)   (* Primitive { tag, prim }: content = what the PrimitiveContent writes *)
| ECons (t : tag) (inner : enc)        (* Constructed / sequence / set / explicit *)
| ESeq (es : list enc)                 (* tuples (arity 1..12), Vec, slices, Iter, Slice: parts in order *)
| EOpt (o : option enc)                (* Option<V> *)
| EChoice (e : enc)                    (* Choice2 / Choice3: the chosen alternative *)
| ENothing
| ECaptured (cm : mode) (bytes : list N)
| EOctStr (t : tag) (o : ostr)         (* OctetStringEncoder *)
| EOctSlice (t : tag) (c : list N)     (* OctetSliceEncoder *)
| EBitSlice (t : tag) (unused : N) (c : list N)
| EWrapped (wm : mode) (e : enc).      (* WrappingOctetStringEncoder *)

Definition res_bind {A B} (r : res A) (f : A -> res B) : res B :=
  match r with Ok a => f a | CErr => CErr | SErr => SErr | Panic => Panic | NoFuel => NoFuel end.

(* tag + Length::Definite(n) + n, as written by the leaf encoders *)
Definition tlv_len (t : tag) (n : N) : res N :=
  res_map (fun l => tag_encoded_len t + l + n) (length_encoded_len n).
Definition tlv_write (t : tag) (k : bool) (c : list N) : res (list N) :=
  res_map (fun l => tag_write k t ++ l ++ c) (length_write (len c)).

Fixpoint enc_len (m : mode) (e : enc) : res N :=
  match e with
  | EPrim t c => tlv_len t (len c)
  | ECons t inner =>
      res_bind (enc_len m inner) (fun l =>
        match m with
        | Cer => Ok (tag_encoded_len t + (l + (1 + 2)))
        | _ => res_map (fun ll => tag_encoded_len t + (l + ll)) (length_encoded_len l)
        end)
  | ESeq es =>
      (fix go (l : list enc) : res N :=
         match l with
         | [] => Ok 0
         | x :: r => res_bind (enc_len m x) (fun a => res_map (fun b => a + b) (go r))
         end) es
  | EOpt o => match o with Some x => enc_len m x | None => Ok 0 end
  | EChoice x => enc_len m x
  | ENothing => Ok 0
  | ECaptured cm b =>
      if negb (mode_eqb cm m) && negb (mode_eqb m Ber) then Panic else Ok (len b)
  | EOctStr t o => os_encoded_len m t o
  | EOctSlice t c => if mode_eqb m Cer then Panic else tlv_len t (len c)
  | EBitSlice t u c => if mode_eqb m Cer then Panic else tlv_len t (len c + 1)
  | EWrapped wm x =>
      if mode_eqb m Cer then Panic else
      res_bind (enc_len wm x) (fun l => tlv_len T_OCTET_STRING l)
  end.

Fixpoint enc_write (m : mode) (e : enc) : res (list N) :=
  match e with
  | EPrim t c => tlv_write t false c
  | ECons t inner =>
      match m with
      | Cer => res_map (fun b => tag_write true t ++ [128] ++ b ++ [0; 0]) (enc_write m inner)
      | _ =>
          (* Length::Definite(inner.encoded_len(mode)) is written, then the inner values *)
          res_bind (enc_len m inner) (fun l =>
          res_bind (length_write l) (fun lw =>
          res_map (fun b => tag_write true t ++ lw ++ b) (enc_write m inner)))
      end
  | ESeq es =>
      (fix go (l : list enc) : res (list N) :=
         match l with
         | [] => Ok []
         | x :: r => res_bind (enc_write m x) (fun a => res_map (fun b => a ++ b) (go r))
         end) es
  | EOpt o => match o with Some x => enc_write m x | None => Ok [] end
  | EChoice x => enc_write m x
  | ENothing => Ok []
  | ECaptured cm b =>
      if negb (mode_eqb cm m) && negb (mode_eqb m Ber) then Panic else Ok b
  | EOctStr t o => os_encode m t o
  | EOctSlice t c => if mode_eqb m Cer then Panic else tlv_write t false c
  | EBitSlice t u c => if mode_eqb m Cer then Panic else tlv_write t false (u :: c)
  | EWrapped wm x =>
      if mode_eqb m Cer then Panic else
      res_bind (enc_len wm x) (fun l =>
      res_bind (length_write l) (fun lw =>
      res_map (fun b => tag_write false T_OCTET_STRING ++ lw ++ b) (enc_write wm x)))
  end.
