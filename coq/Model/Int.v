(* Model of src/int.rs, of the integer/BOOLEAN/NULL accessors of
   decode::Primitive and of the integer encoders of encode/primitive.rs.
   Integer values are mathematical integers (Z). Definitions only. *)
Require Import BV.Model.Base BV.Model.SrcB BV.Model.Length BV.Model.Twos.

Definition bit8 (b : N) : bool := negb (N.land b 128 =? 0).   (* x & 0x80 != 0 *)

(* ---------- decoding ---------- *)
(* Integer::check_head: request(2), look at the first two octets *)
Definition int_check_head : M unit := tick ;;; fun s =>
  match visible s with
  | [] => (CErr, s)
  | [_] => (Ok tt, s)
  | b0 :: b1 :: _ =>
      if ((b0 =? 0) && negb (bit8 b1)) || ((b0 =? 255) && bit8 b1)
      then (CErr, s) else (Ok tt, s)
  end.

(* Unsigned::check_head *)
Definition uns_check_head : M unit := int_check_head ;;; fun s =>
  match visible s with
  | [] => (Panic, s)                                  (* first().unwrap() *)
  | b0 :: _ => if bit8 b0 then (CErr, s) else (Ok tt, s)
  end.

(* slice_to_builtin!(signed, ..): w = size_of the type in octets *)
Definition slice_signed (w : nat) (sl : list N) : res Z :=
  if (N.of_nat w <? len sl) then CErr else
  match sl with [] => Panic | _ => Ok (tc_val sl) end.

(* slice_to_builtin!(unsigned, ..) *)
Definition slice_unsigned (w : nat) (sl : list N) : res Z :=
  match sl with
  | [] => Panic
  | b0 :: r =>
    if bit8 b0 then CErr else
    let val := if b0 =? 0 then r else sl in
    if len val =? 0 then Ok 0%Z else
    if (N.of_nat w <? len val) then CErr else Ok (be_valZ val)
  end.

Definition i8_from_primitive : M Z :=
  int_check_head ;;; b <- take_u8 ;; ret (sbyte b).
Definition signed_from_primitive (w : nat) : M Z :=
  int_check_head ;;; with_slice_all (slice_signed w).

Definition u8_from_primitive : M Z :=
  uns_check_head ;;; r <- remaining ;;
  if r =? 1 then b <- take_u8 ;; ret (Z.of_N b) else
  if r =? 2 then
    z <- take_u8 ;; if negb (z =? 0) then cerr else b <- take_u8 ;; ret (Z.of_N b)
  else cerr.

Definition u16_from_primitive : M Z :=
  uns_check_head ;;; r <- remaining ;;
  if r =? 1 then b <- take_u8 ;; ret (Z.of_N b) else
  if r =? 2 then
    a <- take_u8 ;; b <- take_u8 ;; ret (Z.of_N (N.lor (N.shiftl a 8) b)) else
  if r =? 3 then
    z <- take_u8 ;; if negb (z =? 0) then cerr else
    a <- take_u8 ;; b <- take_u8 ;;
    let v := N.lor (N.shiftl a 8) b in
    if v <? 32768 then cerr else ret (Z.of_N v)
  else cerr.

Definition unsigned_from_primitive (w : nat) : M Z :=
  uns_check_head ;;; with_slice_all (slice_unsigned w).

(* the ten accessors Primitive::to_i8 .. to_u128, indexed 0..9 *)
Definition int_accessor (ty : N) : M Z :=
  match ty with
  | 0 => i8_from_primitive
  | 1 => signed_from_primitive 2
  | 2 => signed_from_primitive 4
  | 3 => signed_from_primitive 8
  | 4 => signed_from_primitive 16
  | 5 => u8_from_primitive
  | 6 => u16_from_primitive
  | 7 => unsigned_from_primitive 4
  | 8 => unsigned_from_primitive 8
  | _ => unsigned_from_primitive 16
  end.
Definition ty_signed (ty : N) : bool := ty <? 5.
Definition ty_width (ty : N) : nat :=
  match ty with 0 => 1%nat | 1 => 2%nat | 2 => 4%nat | 3 => 8%nat | 4 => 16%nat
              | 5 => 1%nat | 6 => 2%nat | 7 => 4%nat | 8 => 8%nat | _ => 16%nat end.

(* Primitive::to_bool *)
Definition to_bool (m : mode) : M bool :=
  b <- take_u8 ;;
  if negb (mode_eqb m Ber) then
    (if b =? 0 then ret false else if b =? 255 then ret true else cerr)
  else ret (negb (b =? 0)).

(* Primitive::to_null *)
Definition to_null : M unit :=
  r <- remaining ;; if 0 <? r then cerr else ret tt.

(* Primitive::decode_slice(content, mode, op): op then exhausted() *)
Definition prim_decode {T} (op : M T) (c : list N) : res T :=
  fst ((v <- op ;; src_exhausted ;;; ret v) (pure_src c (Some (len c)))).

(* Integer::from_primitive *)
Definition integer_from_primitive : M (list N) :=
  res <- take_all_lim ;;
  match res with
  | [] => cerr
  | [_] => ret res
  | b0 :: b1 :: _ =>
      if (b0 =? 0) && negb (bit8 b1) then cerr else
      if (b0 =? 255) && bit8 b1 then cerr else ret res
  end.
(* Unsigned::from_primitive *)
Definition unsigned_int_from_primitive : M (list N) :=
  uns_check_head ;;; integer_from_primitive.

(* ---------- Integer / Unsigned values: the content octets ---------- *)
Definition nth0 (c : list N) : res N :=
  match c with [] => Panic | b :: _ => Ok b end.            (* self.0[0] *)

Definition int_is_zero (c : list N) : res bool :=
  match c with [b] => Ok (b =? 0) | _ => Ok false end.
Definition int_is_positive (c : list N) : res bool :=
  match c with
  | [] => Panic
  | [b] => if b =? 0 then Ok false else Ok (N.land b 128 =? 0)
  | b :: _ => Ok (N.land b 128 =? 0)
  end.
Definition int_is_negative (c : list N) : res bool :=
  match c with [] => Panic | b :: _ => Ok (N.land b 128 =? 128) end.

Fixpoint lex_cmp (a b : list N) : comparison :=
  match a, b with
  | [], [] => Eq
  | [], _ => Lt
  | _, [] => Gt
  | x :: a', y :: b' => match x ?= y with Eq => lex_cmp a' b' | c => c end
  end.
(* the zip loop of the positive branch: stops at the shorter list *)
Fixpoint zip_cmp (a b : list N) : comparison :=
  match a, b with
  | x :: a', y :: b' => match x ?= y with Eq => zip_cmp a' b' | c => c end
  | _, _ => Eq
  end.

(* Ord for Integer (after the D7 repair) *)
Definition int_cmp (a b : list N) : res comparison :=
  match int_is_positive a, int_is_positive b with
  | Ok true, Ok true =>
      match len a ?= len b with Eq => Ok (zip_cmp a b) | c => Ok c end
  | Ok false, Ok false =>
      match len a ?= len b with
      | Eq => match a, b with
              | x :: a', y :: b' =>
                  match (sbyte x ?= sbyte y)%Z with
                  | Eq => Ok (lex_cmp a' b') | c => Ok c end
              | _, _ => Panic
              end
      | c => Ok (CompOpp c)
      end
  | Ok false, Ok true => Ok Lt
  | Ok true, Ok false => Ok Gt
  | _, _ => Panic
  end.

Definition int_eq (a b : list N) : bool := list_eqb a b.
(* what Hash feeds the hasher: length prefix and the octets *)
Definition int_hash_input (a : list N) : N * list N := (len a, a).

(* TryFrom<&Integer> for the ten builtin types *)
Definition int_try_from (ty : N) (c : list N) : res Z :=
  if ty_signed ty then slice_signed (ty_width ty) c
  else slice_unsigned (ty_width ty) c.

(* Unsigned::from_bytes (after the D6 repair): None = Err(InvalidInteger) *)
Fixpoint drop_zeros (l : list N) : list N :=
  match l with 0 :: r => drop_zeros r | _ => l end.
Definition unsigned_from_bytes (bytes : list N) : res (list N) :=
  match bytes with
  | [] => CErr
  | _ =>
    let value := drop_zeros bytes in
    match value with
    | [] => Ok [0]
    | v0 :: _ => if N.land v0 128 =? 0 then Ok value else Ok (0 :: value)
    end
  end.

(* ---------- encoding (encode/primitive.rs) ---------- *)
(* big-endian w octets of v modulo 256^w: to_be_bytes / swap_bytes view *)
Fixpoint be_bytes (w : nat) (v : Z) : list N :=
  match w with
  | O => []
  | S k => be_bytes k (v / 256) ++ [Z.to_N (v mod 256)]
  end.
Fixpoint drop_ff (l : list N) : list N :=
  match l with 255 :: r => drop_ff r | _ => l end.
Definition hd_bit8 (l : list N) : bool :=
  match l with [] => false | b :: _ => N.land b 128 =? 128 end.

Definition enc_u8 (v : Z) : list N :=
  if (127 <? v)%Z then [0; Z.to_N v] else [Z.to_N v].
Definition enc_u8_len (v : Z) : N := if (127 <? v)%Z then 2 else 1.

Definition enc_unsigned (w : nat) (v : Z) : list N :=
  if (v =? 0)%Z then [0] else
  let bs := drop_zeros (be_bytes w v) in
  if hd_bit8 bs then 0 :: bs else bs.
Definition enc_unsigned_len (w : nat) (v : Z) : N :=
  if (v =? 0)%Z then 1 else
  let zeros := 8 * N.of_nat w - N.size (Z.to_N v) in
  if zeros mod 8 =? 0 then N.of_nat w - zeros / 8 + 1 else N.of_nat w - zeros / 8.

Definition enc_i8 (v : Z) : list N := [Z.to_N (v mod 256)].
Definition enc_signed (w : nat) (v : Z) : list N :=
  if (v =? 0)%Z then [0] else
  if (v =? -1)%Z then [255] else
  if (v <? 0)%Z then
    let bs := drop_ff (be_bytes w v) in
    if hd_bit8 bs then bs else 255 :: bs
  else
    let bs := drop_zeros (be_bytes w v) in
    if hd_bit8 bs then 0 :: bs else bs.
Definition enc_signed_len (w : nat) (v : Z) : N :=
  if (v =? 0)%Z || (v =? -1)%Z then 1 else
  let x := if (v <? 0)%Z then (- v - 1)%Z else v in
  let zeros := 8 * N.of_nat w - N.size (Z.to_N x) in
  if N.land zeros 7 =? 0 then N.of_nat w + 1 - zeros / 8 else N.of_nat w - zeros / 8.

Definition enc_int (ty : N) (v : Z) : list N :=
  match ty with
  | 0 => enc_i8 v
  | 5 => enc_u8 v
  | _ => if ty_signed ty then enc_signed (ty_width ty) v else enc_unsigned (ty_width ty) v
  end.
Definition enc_int_len (ty : N) (v : Z) : N :=
  match ty with
  | 0 => 1
  | 5 => enc_u8_len v
  | _ => if ty_signed ty then enc_signed_len (ty_width ty) v else enc_unsigned_len (ty_width ty) v
  end.

Definition enc_bool (b : bool) : list N := if b then [255] else [0].
