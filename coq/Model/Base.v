(* Base definitions shared by every model file: octets, results, modes, the
   Level-B source state and its error/state monad.  Definitions only. *)
From Coq Require Export List NArith ZArith Bool.
Export ListNotations.
Open Scope N_scope.

(* ---------- octets ---------- *)
Definition octet_ok (b : N) : bool := b <? 256.
Definition octets_ok (l : list N) : bool := forallb octet_ok l.
Definition len {A} (l : list A) : N := N.of_nat (length l).

(* ---------- modes ---------- *)
Inductive mode := Ber | Cer | Der.
Definition mode_eqb a b :=
  match a, b with Ber,Ber | Cer,Cer | Der,Der => true | _,_ => false end.
Definition is_ber m := mode_eqb m Ber.

(* ---------- results ---------- *)
(* CErr: DecodeError::Content; SErr: DecodeError::Source (the injected source
   failure); Panic: any Rust panic/abort/UB; NoFuel: the model ran out of
   fuel (excluded by the adequacy lemmas). *)
Inductive res (A : Type) := Ok (a : A) | CErr | SErr | Panic | NoFuel.
Arguments Ok {A}. Arguments CErr {A}. Arguments SErr {A}.
Arguments Panic {A}. Arguments NoFuel {A}.

Definition res_map {A B} (f : A -> B) (r : res A) : res B :=
  match r with Ok a => Ok (f a) | CErr => CErr | SErr => SErr
             | Panic => Panic | NoFuel => NoFuel end.
Definition is_ok {A} (r : res A) := match r with Ok _ => true | _ => false end.

(* ---------- Level-B source state ---------- *)
(* rem: octets not yet advanced over; lim: the LimitedSource limit;
   flt: number of further request() calls that will succeed before the
   underlying source fails (None: never fails). *)
Record src := mkSrc { rem : list N; lim : option N; flt : option N }.

(* The monad always returns the state, also on errors: it is the state of the
   `&mut` source at the point where the error was raised. *)
Definition M (A : Type) := src -> res A * src.
Definition ret {A} (a : A) : M A := fun s => (Ok a, s).
Definition bind {A B} (m : M A) (f : A -> M B) : M B :=
  fun s => match m s with
           | (Ok a, s') => f a s'
           | (CErr, s') => (CErr, s')
           | (SErr, s') => (SErr, s')
           | (Panic, s') => (Panic, s')
           | (NoFuel, s') => (NoFuel, s')
           end.
Notation "x <- m ;; k" := (bind m (fun x => k))
  (at level 61, m at next level, right associativity).
Notation "m ;;; k" := (bind m (fun _ => k))
  (at level 61, right associativity).
Definition cerr {A} : M A := fun s => (CErr, s).
Definition panic {A} : M A := fun s => (Panic, s).
Definition nofuel {A} : M A := fun s => (NoFuel, s).
Definition get : M src := fun s => (Ok s, s).
Definition put (s : src) : M unit := fun _ => (Ok tt, s).

(* One `request()` against the fault budget. *)
Definition tick : M unit := fun s =>
  match flt s with
  | None => (Ok tt, s)
  | Some 0 => (SErr, s)
  | Some k => (Ok tt, mkSrc (rem s) (lim s) (Some (k - 1)))
  end.

Definition set_limit (l : option N) : M unit :=
  fun s => (Ok tt, mkSrc (rem s) l (flt s)).

Definition pure_src (d : list N) (l : option N) : src := mkSrc d l None.

(* what request(n) would report: octets visible through the limit *)
Definition avail (s : src) : N :=
  match lim s with None => len (rem s) | Some l => N.min l (len (rem s)) end.

(* ---------- big-endian helpers on octet lists ---------- *)
Fixpoint be_val_acc (acc : N) (l : list N) : N :=
  match l with [] => acc | b :: r => be_val_acc (acc * 256 + b) r end.
Definition be_val (l : list N) : N := be_val_acc 0 l.

Fixpoint list_eqb (a b : list N) : bool :=
  match a, b with
  | [], [] => true
  | x :: a', y :: b' => (x =? y) && list_eqb a' b'
  | _, _ => false
  end.

(* firstn/skipn with N counts *)
Definition firstN {A} (n : N) (l : list A) := firstn (N.to_nat n) l.
Definition skipN {A} (n : N) (l : list A) := skipn (N.to_nat n) l.
