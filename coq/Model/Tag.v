(* Model of src/tag.rs. A tag is its four stored octets (constructed bit
   cleared). Definitions only. *)
Require Import BV.Model.Base BV.Model.SrcB BV.Model.Length.

Definition tag := (N * N * N * N)%type.
Definition tag_eqb (a b : tag) : bool :=
  let '(a0,a1,a2,a3) := a in let '(b0,b1,b2,b3) := b in
  (a0 =? b0) && (a1 =? b1) && (a2 =? b2) && (a3 =? b3).

Definition END_OF_VALUE : tag := (0,0,0,0).
Definition T_BOOLEAN : tag := (1,0,0,0).
Definition T_INTEGER : tag := (2,0,0,0).
Definition T_BIT_STRING : tag := (3,0,0,0).
Definition T_OCTET_STRING : tag := (4,0,0,0).
Definition T_NULL : tag := (5,0,0,0).
Definition T_OID : tag := (6,0,0,0).
Definition T_UTF8_STRING : tag := (12,0,0,0).
Definition T_SEQUENCE : tag := (16,0,0,0).
Definition T_SET : tag := (17,0,0,0).
Definition T_NUMERIC_STRING : tag := (18,0,0,0).
Definition T_PRINTABLE_STRING : tag := (19,0,0,0).
Definition T_IA5_STRING : tag := (22,0,0,0).

(* Tag::new(class_mask, number); Panic = assert!(number <= 0x1fffff) *)
Definition tag_new (cls number : N) : res tag :=
  if 2097151 <? number then Panic else
  if number <=? 30 then Ok (N.lor cls (u8 number), 0, 0, 0) else
  if number <=? 127 then Ok (N.lor cls 31, u8 number, 0, 0) else
  if number <=? 16383 then
    Ok (N.lor cls 31,
        N.lor (N.land 127 (u8 (N.shiftr number 7))) 128,
        N.land 127 (u8 number), 0)
  else
    Ok (N.lor cls 31,
        N.lor (N.land 127 (u8 (N.shiftr number 14))) 128,
        N.lor (N.land 127 (u8 (N.shiftr number 7))) 128,
        N.land 127 (u8 number)).

Definition tag_class (t : tag) : N := let '(a,_,_,_) := t in N.land a 192.

Definition tag_number (t : tag) : N :=
  let '(a,b,c,d) := t in
  if negb (N.land 31 a =? 31) then N.land 31 a else
  if N.land 128 b =? 0 then N.land 127 b else
  if N.land 128 c =? 0 then N.lor (N.shiftl (N.land 127 b) 7) (N.land 127 c) else
  N.lor (N.lor (N.shiftl (N.land 127 b) 14) (N.shiftl (N.land 127 c) 7)) (N.land 127 d).

Definition tag_encoded_len (t : tag) : N :=
  let '(a,b,c,_) := t in
  if negb (N.land 31 a =? 31) then 1 else
  if N.land 128 b =? 0 then 2 else
  if N.land 128 c =? 0 then 3 else 4.

(* Tag::write_encoded(constructed) *)
Definition tag_write (constructed : bool) (t : tag) : list N :=
  let '(a,b,c,d) := t in
  let a' := if constructed then N.lor a 32 else a in
  firstN (tag_encoded_len t) [a'; b; c; d].

Definition clear_cons (b : N) : N := N.land b 223.      (* byte & !0x20 *)
Definition is_cons (b : N) : bool := negb (N.land b 32 =? 0).

(* Tag::take_opt_from (with the minimality check of the D4 repair) *)
Definition tag_take_opt_from : M (option (tag * bool)) :=
  ob <- take_opt_u8 ;;
  match ob with
  | None => ret None
  | Some b =>
    let d0 := clear_cons b in let c := is_cons b in
    if N.land d0 31 =? 31 then
      d1 <- take_u8 ;;
      if (d1 =? 128) || (d1 <=? 30) then cerr else
      if N.land d1 128 =? 0 then ret (Some ((d0,d1,0,0), c)) else
      d2 <- take_u8 ;;
      if N.land d2 128 =? 0 then ret (Some ((d0,d1,d2,0), c)) else
      d3 <- take_u8 ;;
      if N.land d3 128 =? 0 then ret (Some ((d0,d1,d2,d3), c)) else cerr
    else ret (Some ((d0,0,0,0), c))
  end.

Definition tag_take_from : M (tag * bool) :=
  o <- tag_take_opt_from ;;
  match o with Some r => ret r | None => cerr end.

(* the peek loop of Tag::take_from_if over the visible octets b :: v1 *)
Definition tag_peek (b : N) (v1 : list N) : M tag :=
  let d0 := clear_cons b in
  if N.land d0 31 =? 31 then
    tick ;;; match v1 with [] => cerr | d1 :: v2 =>
    if N.land d1 128 =? 0 then ret (d0,d1,0,0) else
    tick ;;; match v2 with [] => cerr | d2 :: v3 =>
    if N.land d2 128 =? 0 then ret (d0,d1,d2,0) else
    tick ;;; match v3 with [] => cerr | d3 :: _ =>
    if N.land d3 128 =? 0 then ret (d0,d1,d2,d3) else cerr
    end end end
  else ret (d0,0,0,0).

(* Tag::take_from_if: peek (request + slice), advance only on a match *)
Definition tag_take_from_if (e : tag) : M (option bool) :=
  tick ;;; v <- get_visible ;;
  match v with
  | [] => ret None
  | b :: v1 =>
    t <- tag_peek b v1 ;;
    if tag_eqb t e then advance (tag_encoded_len t) ;;; ret (Some (is_cons b))
    else ret None
  end.
