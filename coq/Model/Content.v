(* Model of src/decode/content.rs: Constructed / Primitive / Content, the
   generic header processing, skipping and capturing, at Level B (pure
   functions on the remaining octets, the limit and the fault budget).
   Follows the code after the D1/D2/D3 repairs. Definitions only. *)
Require Import BV.Model.Base BV.Model.SrcB BV.Model.Length BV.Model.Tag.

Inductive cstate := Definite | Indefinite | Done | Unbounded.
Definition cstate_eqb a b :=
  match a, b with
  | Definite, Definite | Indefinite, Indefinite | Done, Done | Unbounded, Unbounded => true
  | _, _ => false
  end.
Record cons := mkCons { cst : cstate; cmd : mode }.
Inductive content := CPrim (m : mode) | CCons (c : cons).

(* Constructed::exhausted *)
Definition cons_exhausted (c : cons) : M unit :=
  match cst c with
  | Done | Unbounded => ret tt
  | Definite => src_exhausted
  | Indefinite =>
      tc <- tag_take_from ;; let '(t, k) := tc in
      if negb (tag_eqb t END_OF_VALUE) || k then cerr else
      l <- length_take_from (cmd c) ;;
      if length_is_zero l then ret tt else cerr
  end.
(* Content::exhausted *)
Definition content_exhausted (c : content) : M unit :=
  match c with CPrim _ => src_exhausted | CCons c => cons_exhausted c end.

(* Constructed::is_exhausted; Panic = limit().unwrap() *)
Definition is_exhausted (c : cons) : M bool :=
  match cst c with
  | Definite => li <- get_lim ;;
                match li with Some l => ret (l =? 0) | None => panic end
  | Indefinite | Unbounded => ret false
  | Done => ret true
  end.

Definition with_state (c : cons) (st : cstate) : cons := mkCons st (cmd c).

Section PNV.
  Context {T : Type}.
  (* Constructed::process_next_value. The closure gets the tag and the
     content and returns its result together with the content's final state
     (mode and constructed-state can be changed through &mut). *)
  Definition process_next_value (c : cons) (expected : option tag)
      (op : tag -> content -> M (T * content)) : M (option T * cons) :=
    ex <- is_exhausted c ;;
    if ex then ret (None, c) else
    hdr <- (match expected with
            | Some e =>
                o <- tag_take_from_if e ;;
                ret (match o with Some k => Some (e, k) | None => None end)
            | None =>
                if cstate_eqb (cst c) Unbounded then tag_take_opt_from
                else r <- tag_take_from ;; ret (Some r)
            end) ;;
    match hdr with
    | None => ret (None, c)
    | Some (t, k) =>
      l <- length_take_from (cmd c) ;;
      if tag_eqb t END_OF_VALUE then
        match cst c with
        | Indefinite =>
            if k then cerr else
            if negb (length_is_zero l) then cerr else ret (None, with_state c Done)
        | _ => cerr
        end
      else
      match l with
      | Definite_ n =>
          old <- get_lim ;;
          (match old with
           | Some li => if li <? n then cerr else ret tt
           | None => ret tt end) ;;;
          set_limit (Some n) ;;;
          (if k && mode_eqb (cmd c) Cer then cerr else ret tt) ;;;
          let ct := if k then CCons (mkCons Definite (cmd c)) else CPrim (cmd c) in
          rc <- op t ct ;; let '(r, ct') := rc in
          content_exhausted ct' ;;;
          set_limit (lim_sub old n) ;;;
          ret (Some r, c)
      | Indefinite_ =>
          if negb k || mode_eqb (cmd c) Der then cerr else
          rc <- op t (CCons (mkCons Indefinite (cmd c))) ;; let '(r, ct') := rc in
          content_exhausted ct' ;;;
          ret (Some r, c)
      end
    end.

  (* Constructed::mandatory *)
  Definition mandatory (m : M (option T * cons)) : M (T * cons) :=
    r <- m ;; let '(o, c) := r in
    match o with Some v => ret (v, c) | None => cerr end.
End PNV.

(* Content::as_primitive / as_constructed inside the typed accessors *)
Definition as_prim {T} (f : mode -> M (T * mode)) : tag -> content -> M (T * content) :=
  fun _ ct => match ct with
              | CPrim m => r <- f m ;; let '(v, m') := r in ret (v, CPrim m')
              | CCons _ => cerr end.
Definition as_cons {T} (f : cons -> M (T * cons)) : tag -> content -> M (T * content) :=
  fun _ ct => match ct with
              | CCons c => r <- f c ;; let '(v, c') := r in ret (v, CCons c')
              | CPrim _ => cerr end.

(* ---------- skipping ---------- *)
Definition stack := list (option (option N)).
Definition trace := list (tag * bool * N).
Definition filter := tag -> bool -> N -> bool.

(* the inner "aligned ends" loop: pops every open definite value whose limit
   has reached zero. None = the outermost skipped value is complete. *)
Fixpoint skip_unwind (fuel : nat) (st : stack) : M (option stack) :=
  match fuel with
  | O => nofuel
  | S f =>
    match st with
    | [] => ret None
    | top :: st' =>
        li <- get_lim ;;
        match li with
        | Some 0 =>
            match top with
            | Some l => set_limit l ;;; skip_unwind f st'
            | None => cerr
            end
        | _ => ret (Some st)
        end
    end
  end.

Inductive skip_out := SkNone | SkSome.

(* the outer loop of skip_opt: one value header per iteration *)
Fixpoint skip_loop (fuel : nat) (c : cons) (flt_ : filter) (st : stack) (tr : trace)
  : M (skip_out * cons * trace) :=
  match fuel with
  | O => nofuel
  | S f =>
    hdr <- (if match st with [] => cstate_eqb (cst c) Unbounded | _ => false end
            then tag_take_opt_from
            else r <- tag_take_from ;; ret (Some r)) ;;
    match hdr with
    | None => ret (SkNone, c, tr)
    | Some (t, k) =>
      l <- length_take_from (cmd c) ;;
      let depth := len st in
      if negb k then
        if tag_eqb t END_OF_VALUE then
          if negb (length_is_zero l) then cerr else
          match st with
          | None :: st' => skip_after f c flt_ st' tr
          | [] => match cst c with
                  | Indefinite => ret (SkNone, with_state c Done, tr)
                  | _ => cerr end
          | Some _ :: _ => cerr
          end
        else
          match l with
          | Definite_ n =>
              if negb (flt_ t k depth) then cerr else
              need n ;;; advance n ;;; skip_after f c flt_ st (tr ++ [(t, k, depth)])
          | Indefinite_ => cerr
          end
      else if tag_eqb t END_OF_VALUE then cerr
      else
        match l with
        | Definite_ n =>
            if mode_eqb (cmd c) Cer then cerr else
            if negb (flt_ t k depth) then cerr else
            ol <- get_lim ;;
            match ol with
            | Some li =>
                if li <? n then cerr else
                set_limit (Some n) ;;;
                skip_after f c flt_ (Some (Some (li - n)) :: st) (tr ++ [(t, k, depth)])
            | None =>
                set_limit (Some n) ;;;
                skip_after f c flt_ (Some None :: st) (tr ++ [(t, k, depth)])
            end
        | Indefinite_ =>
            if mode_eqb (cmd c) Der then cerr else
            if negb (flt_ t k depth) then cerr else
            skip_loop f c flt_ (None :: st) (tr ++ [(t, k, depth)])
        end
    end
  end
with skip_after (fuel : nat) (c : cons) (flt_ : filter) (st : stack) (tr : trace)
  : M (skip_out * cons * trace) :=
  match fuel with
  | O => nofuel
  | S f =>
    o <- skip_unwind (S (length st)) st ;;
    match o with
    | None => ret (SkSome, c, tr)
    | Some st' => skip_loop f c flt_ st' tr
    end
  end.

(* Constructed::skip_opt *)
Definition skip_opt (fuel : nat) (c : cons) (flt_ : filter) : M (skip_out * cons * trace) :=
  ex <- is_exhausted c ;;
  if ex then ret (SkNone, c, []) else skip_loop fuel c flt_ [] [].

Definition accept_all : filter := fun _ _ _ => true.
(* skip_one = skip_opt with an accepting filter (after the D1 repair) *)
Definition skip_one (fuel : nat) (c : cons) : M (skip_out * cons) :=
  r <- skip_opt fuel c accept_all ;; let '(o, c', _) := r in ret (o, c').
(* Constructed::skip *)
Definition skip_mand (fuel : nat) (c : cons) (flt_ : filter) : M (cons * trace) :=
  r <- skip_opt fuel c flt_ ;; let '(o, c', tr) := r in
  match o with SkSome => ret (c', tr) | SkNone => cerr end.
(* Constructed::skip_all: repeat skip_one until absent; returns the count *)
Fixpoint skip_all (fuel : nat) (c : cons) (n : N) : M (N * cons) :=
  match fuel with
  | O => nofuel
  | S f =>
    r <- skip_one fuel c ;; let '(o, c') := r in
    match o with SkNone => ret (n, c') | SkSome => skip_all f c' (n + 1) end
  end.

(* ---------- capturing ---------- *)
(* Constructed::capture: the closure runs on a view with the same limit and
   state; the captured octets are those it advanced over; the enclosing
   source is then advanced by that many octets. *)
Definition capture {T} (c : cons) (op : cons -> M (T * cons)) : M (list N * T * cons) :=
  s0 <- get ;;
  rc <- op c ;; let '(r, c') := rc in
  s1 <- get ;;
  let n := len (rem s0) - len (rem s1) in
  (* into_bytes: bytes(0, pos) then advance(pos) on the enclosing source *)
  match lim s0 with
  | Some l => if l <? n then panic else ret tt
  | None => ret tt
  end ;;;
  put (mkSrc (rem s1) (lim_sub (lim s0) n) (flt s1)) ;;;
  ret (firstN n (rem s0), r, with_state c (cst c')).

Definition capture_one (fuel : nat) (c : cons) : M (list N * cons) :=
  r <- capture c (fun c0 => r <- mandatory (r <- skip_one fuel c0 ;;
                                            let '(o, c1) := r in
                                            ret (match o with SkSome => Some tt | SkNone => None end, c1)) ;;
                           ret r) ;;
  let '(b, _, c') := r in ret (b, c').
Definition capture_all (fuel : nat) (c : cons) : M (list N * cons) :=
  r <- capture c (fun c0 => skip_all fuel c0 0) ;;
  let '(b, _, c') := r in ret (b, c').

(* ---------- entry points ---------- *)
(* Constructed::decode / Mode::decode on a whole input *)
Definition decode_src {T} (m : mode) (op : cons -> M (T * cons)) : M T :=
  rc <- op (mkCons Unbounded m) ;; let '(r, c) := rc in
  cons_exhausted c ;;; ret r.

(* Captured::decode_partial: Mode::decode on the captured octets through `&mut source`; what the closure did
   not consume stays in the captured value *)
Definition decode_partial {T} (m : mode) (op : cons -> M (T * cons)) (bytes : list N) : res (T * list N) :=
  match decode_src m op (pure_src bytes None) with
  | (Ok v, s') => Ok (v, rem s')
  | (CErr, _) => CErr | (SErr, _) => SErr | (Panic, _) => Panic | (NoFuel, _) => NoFuel
  end.
(* k successive partial decodes *)
Fixpoint decode_partials {T} (m : mode) (op : cons -> M (T * cons)) (k : nat) (bytes : list N)
  : res (list T * list N) :=
  match k with
  | O => Ok ([], bytes)
  | S k' =>
    match decode_partial m op bytes with
    | Ok (v, r) =>
        match decode_partials m op k' r with
        | Ok (vs, r') => Ok (v :: vs, r')
        | CErr => CErr | SErr => SErr | Panic => Panic | NoFuel => NoFuel
        end
    | CErr => CErr | SErr => SErr | Panic => Panic | NoFuel => NoFuel
    end
  end.

(* ---------- the generic reader used as the reference caller ---------- *)
Inductive tlv := TPrim (t : tag) (c : list N) | TCons (t : tag) (kids : list tlv).

Fixpoint read_all (fuel : nat) (c : cons) : M (list tlv * cons) :=
  match fuel with
  | O => nofuel
  | S f =>
    r <- process_next_value c None (fun t ct =>
           match ct with
           | CPrim m => b <- take_all_lim ;; ret (TPrim t b, CPrim m)
           | CCons c' => kc <- read_all f c' ;; let '(kids, c'') := kc in
                         ret (TCons t kids, CCons c'')
           end) ;;
    let '(o, c') := r in
    match o with
    | None => ret ([], c')
    | Some v => rc <- read_all f c' ;; let '(vs, c'') := rc in ret (v :: vs, c'')
    end
  end.
