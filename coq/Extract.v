(* Extraction of the executable model for the correspondence driver.
   Only ExtrOcamlBasic's directives are used (bool, option, unit, list, prod,
   sumbool, sumor); N, positive and Z stay the extracted inductive types. *)
Require Extraction.
Require Import ExtrOcamlBasic.
Require Import BV.Model.Streams.
Extraction Language OCaml.
Extraction "model.ml" run_stream.
