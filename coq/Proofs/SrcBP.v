(* Lemmas about the Level-B primitives on fault-free states. *)
From Coq Require Import Lia ZifyBool ZifyN.
Require Import BV.Model.Base BV.Model.SrcB.
Ltac Zify.zify_post_hook ::= Z.div_mod_to_equations.

Definition lim_ge (l : option N) (n : N) : Prop :=
  match l with None => True | Some x => n <= x end.

Lemma lim_ge_sub l a n : lim_ge l (a + n) -> lim_ge (lim_sub l a) n.
Proof. destruct l as [x|]; cbn; [lia|trivial]. Qed.
Lemma lim_ge_mono l a b : b <= a -> lim_ge l a -> lim_ge l b.
Proof. destruct l as [x|]; cbn; [lia|trivial]. Qed.
Lemma lim_sub_sub l a b : lim_sub (lim_sub l a) b = lim_sub l (a + b).
Proof. destruct l as [x|]; cbn; [f_equal; lia|reflexivity]. Qed.
Lemma lim_sub_0 l : lim_sub l 0 = l.
Proof. destruct l as [x|]; cbn; [f_equal; lia|reflexivity]. Qed.

Lemma take_u8_cons b r l : lim_ge l 1 ->
  take_u8 (mkSrc (b :: r) l None) = (Ok b, mkSrc r (lim_sub l 1) None).
Proof.
  intro H. unfold take_u8, bind, tick. cbn.
  destruct l as [x|]; [|reflexivity].
  cbn in H. destruct x as [|p]; [lia|reflexivity].
Qed.

Lemma take_u8_nil l : take_u8 (mkSrc [] l None) = (CErr, mkSrc [] l None).
Proof. unfold take_u8, bind, tick. cbn. destruct l as [[|p]|]; reflexivity. Qed.

Lemma take_u8_lim0 d : take_u8 (mkSrc d (Some 0) None) = (CErr, mkSrc d (Some 0) None).
Proof. reflexivity. Qed.

Lemma take_opt_u8_cons b r l : lim_ge l 1 ->
  take_opt_u8 (mkSrc (b :: r) l None) = (Ok (Some b), mkSrc r (lim_sub l 1) None).
Proof.
  intro H. unfold take_opt_u8, bind, tick. cbn.
  destruct l as [x|]; [|reflexivity].
  cbn in H. destruct x as [|p]; [lia|reflexivity].
Qed.

Lemma take_opt_u8_nil l : take_opt_u8 (mkSrc [] l None) = (Ok None, mkSrc [] l None).
Proof. unfold take_opt_u8, bind, tick. cbn. destruct l as [[|p]|]; reflexivity. Qed.

Lemma take_opt_u8_lim0 d : take_opt_u8 (mkSrc d (Some 0) None) = (Ok None, mkSrc d (Some 0) None).
Proof. reflexivity. Qed.

(* bind on a known first result *)
Lemma bind_ok {A B} (m : M A) (f : A -> M B) s a s' :
  m s = (Ok a, s') -> bind m f s = f a s'.
Proof. unfold bind. intros ->. reflexivity. Qed.
Lemma bind_cerr {A B} (m : M A) (f : A -> M B) s s' :
  m s = (CErr, s') -> bind m f s = (CErr, s').
Proof. unfold bind. intros ->. reflexivity. Qed.

Lemma len_cons {A} (a : A) l : len (a :: l) = 1 + len l.
Proof. unfold len. cbn [length]. lia. Qed.
Lemma len_nil {A} : len (@nil A) = 0. Proof. reflexivity. Qed.
Lemma len_app {A} (a b : list A) : len (a ++ b) = len a + len b.
Proof. unfold len. rewrite app_length. lia. Qed.

(* `visible` is the first `limit` octets (the comparison only avoids computing
   with huge declared lengths) *)
Lemma visible_eq s : visible s = match lim s with None => rem s | Some l => firstN l (rem s) end.
Proof.
  unfold visible. destruct (lim s) as [l|]; [|reflexivity].
  destruct (len (rem s) <=? l) eqn:E; [|reflexivity].
  unfold firstN, len in *. symmetry. apply firstn_all2. lia.
Qed.

(* ---- stepping tactics for sequences of take_u8 on explicit lists ---- *)
Ltac solve_lim_ge :=
  first [ exact I
        | cbn; trivial; fail
        | repeat apply lim_ge_sub; eapply lim_ge_mono; [|eassumption]; cbn; lia ].

Ltac step_take_u8 :=
  match goal with
  | |- context [bind take_u8 ?f (mkSrc (?b :: ?r) ?l None)] =>
      rewrite (bind_ok take_u8 f (mkSrc (b :: r) l None) b (mkSrc r (lim_sub l 1) None))
        by (apply take_u8_cons; solve_lim_ge); cbv beta
  | |- context [bind take_u8 ?f (mkSrc [] ?l None)] =>
      rewrite (bind_cerr take_u8 f (mkSrc [] l None) (mkSrc [] l None))
        by (apply take_u8_nil); cbv beta
  | |- context [bind take_opt_u8 ?f (mkSrc (?b :: ?r) ?l None)] =>
      rewrite (bind_ok take_opt_u8 f (mkSrc (b :: r) l None) (Some b) (mkSrc r (lim_sub l 1) None))
        by (apply take_opt_u8_cons; solve_lim_ge); cbv beta iota
  | |- context [bind take_opt_u8 ?f (mkSrc [] ?l None)] =>
      rewrite (bind_ok take_opt_u8 f (mkSrc [] l None) None (mkSrc [] l None))
        by (apply take_opt_u8_nil); cbv beta iota
  end.

Lemma octets_ok_cons b r : octets_ok (b :: r) = true -> b < 256 /\ octets_ok r = true.
Proof.
  cbn [octets_ok forallb]. intro H. apply andb_true_iff in H as [H1 H2].
  unfold octet_ok in H1. split; [lia|exact H2].
Qed.
Lemma octets_ok_app a b : octets_ok (a ++ b) = octets_ok a && octets_ok b.
Proof. unfold octets_ok. apply forallb_app. Qed.

Ltac list_eq_lia :=
  repeat match goal with
  | |- Ok _ = Ok _ => f_equal
  | |- Some _ = Some _ => f_equal
  | |- (_, _) = (_, _) => f_equal
  | |- _ :: _ = _ :: _ => f_equal
  end; try reflexivity; try lia.
