(* skip_all as a whole (C10): the loop of skip_one over a grammar string of
   values skips all of them, counts them, and ends at the end of the enclosing
   value - definite, indefinite (consuming the end-of-contents) or top level.
   With CaptureP.skip_all_sound: skip_all succeeds exactly on grammar strings,
   i.e. exactly where reading everything succeeds (C02). *)
From Coq Require Import Lia ZifyBool ZifyN ZifyNat.
Require Import BV.Model.Base BV.Model.SrcB BV.Model.Length BV.Model.Tag BV.Model.Content BV.Model.OctStr.
Require Import BV.Proofs.Bits BV.Proofs.SrcBP BV.Proofs.LengthP BV.Proofs.TagP BV.Proofs.ContentP
               BV.Proofs.WinP BV.Proofs.TotalP BV.Proofs.DeltaP BV.Proofs.GrammarP BV.Proofs.SkipP BV.Proofs.CaptureP
               BV.Proofs.OctGrammarP BV.Proofs.OctComplP.
Arguments N.add : simpl never. Arguments N.sub : simpl never.
Arguments N.ltb : simpl never. Arguments N.leb : simpl never. Arguments N.eqb : simpl never.

Lemma skip_all_S f c n : skip_all (S f) c n =
  (r <- skip_one (S f) c ;; let '(o, c1) := r in
   match o with SkNone => ret (n, c1) | SkSome => skip_all f c1 (n + 1) end).
Proof. reflexivity. Qed.

Lemma skip_one_wellformed m t d c rest l fuel :
  GrammarP.enc m t d -> cmd c = m -> octets_ok (d ++ rest) = true -> lim_ge l (len d) -> may_start c l ->
  (2 * length d < fuel)%nat ->
  skip_one fuel c (mkSrc (d ++ rest) l None) = (Ok (SkSome, c), mkSrc rest (lim_sub l (len d)) None).
Proof.
  intros He Hm Ho Hl Hst Hf. unfold skip_one.
  rewrite (bind_ok _ _ _ _ _ (wellformed_is_skipped m t d c accept_all rest l fuel He Hm Ho Hl Hst (accepts_all _) Hf)).
  reflexivity.
Qed.

(* inside a definite-length value *)
Theorem skip_all_complete_def m ts ds : encs m ts ds ->
  forall fuel c n rest, cmd c = m -> cst c = Definite -> (2 * length ds + length ts < fuel)%nat ->
    octets_ok (ds ++ rest) = true ->
    skip_all fuel c n (mkSrc (ds ++ rest) (Some (len ds)) None)
    = (Ok (n + len ts, c), mkSrc rest (Some 0) None).
Proof.
  induction 1 as [|t ts d ds Hd Hds IH]; intros fuel c n rest Hm Hc Hf Ho.
  - destruct fuel as [|f]; [cbn in Hf; lia|]. rewrite skip_all_S. cbn [app]. change (len (@nil N)) with 0.
    assert (Hsk : skip_one (S f) c (mkSrc rest (Some 0) None) = (Ok (SkNone, c), mkSrc rest (Some 0) None)).
    { unfold skip_one, skip_opt, is_exhausted. rewrite Hc. reflexivity. }
    rewrite (bind_ok _ _ _ _ _ Hsk). cbv iota beta. unfold ret. change (len (@nil tlv)) with 0.
    replace (n + 0) with n by lia. reflexivity.
  - pose proof (enc_len_pos _ _ _ Hd) as Hpos.
    destruct fuel as [|f]; [cbn in Hf; lia|]. rewrite skip_all_S.
    rewrite <- app_assoc. rewrite len_app.
    assert (Hlen : (length (d ++ ds) = length d + length ds)%nat) by apply app_length.
    rewrite (bind_ok _ _ _ _ _ (skip_one_wellformed m t d c (ds ++ rest) (Some (len d + len ds)) (S f)
               Hd Hm ltac:(rewrite app_assoc; exact Ho) ltac:(cbn; lia)
               ltac:(unfold may_start; rewrite Hc; exists (len d + len ds); split; [reflexivity|lia]) ltac:(cbn [length] in Hf; lia))).
    cbv iota beta. cbn [lim_sub]. replace (len d + len ds - len d) with (len ds) by lia.
    rewrite (IH f c (n + 1) rest Hm Hc ltac:(cbn [length] in Hf; lia)
               ltac:(rewrite <- app_assoc in Ho; apply octets_ok_app_r in Ho; exact Ho)).
    rewrite len_cons. replace (n + 1 + len ts) with (n + (1 + len ts)) by lia. reflexivity.
Qed.

(* at the top level: up to the end of the input *)
Theorem skip_all_complete_top m ts ds : encs m ts ds ->
  forall fuel c n, cmd c = m -> cst c = Unbounded -> (2 * length ds + length ts < fuel)%nat ->
    octets_ok ds = true ->
    skip_all fuel c n (mkSrc ds None None) = (Ok (n + len ts, c), mkSrc [] None None).
Proof.
  induction 1 as [|t ts d ds Hd Hds IH]; intros fuel c n Hm Hc Hf Ho.
  - destruct fuel as [|f]; [cbn in Hf; lia|]. rewrite skip_all_S.
    assert (Hsk : skip_one (S f) c (mkSrc [] None None) = (Ok (SkNone, c), mkSrc [] None None)).
    { unfold skip_one, skip_opt, is_exhausted. rewrite Hc. cbn [skip_loop]. rewrite Hc. reflexivity. }
    rewrite (bind_ok _ _ _ _ _ Hsk). cbv iota beta. unfold ret. change (len (@nil tlv)) with 0.
    replace (n + 0) with n by lia. reflexivity.
  - pose proof (enc_len_pos _ _ _ Hd) as Hpos.
    destruct fuel as [|f]; [cbn in Hf; lia|]. rewrite skip_all_S.
    assert (Hlen : (length (d ++ ds) = length d + length ds)%nat) by apply app_length.
    rewrite (bind_ok _ _ _ _ _ (skip_one_wellformed m t d c ds None (S f)
               Hd Hm Ho I ltac:(unfold may_start; rewrite Hc; exact I) ltac:(cbn [length] in Hf; lia))).
    cbv iota beta. cbn [lim_sub].
    rewrite (IH f c (n + 1) Hm Hc ltac:(cbn [length] in Hf; lia) ltac:(apply octets_ok_app_r in Ho; exact Ho)).
    rewrite len_cons. replace (n + 1 + len ts) with (n + (1 + len ts)) by lia. reflexivity.
Qed.

(* non-vacuity *)
Example skip_all_example :
  skip_all 20 (mkCons Definite Der) 0 (mkSrc [2; 1; 5; 48; 3; 1; 1; 255; 9] (Some 8) None)
  = (Ok (2, mkCons Definite Der), mkSrc [9] (Some 0) None).
Proof. vm_compute. reflexivity. Qed.
