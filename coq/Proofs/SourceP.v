(* C07: the access patterns of bcder refine their Level-B specification for
   EVERY grant policy, and never touch octets that were not granted (no Panic
   on the least forgiving source). *)
From Coq Require Import Lia ZifyBool ZifyN.
Require Import BV.Model.Base BV.Model.SrcB BV.Model.Length BV.Model.Tag BV.Model.Source.
Require Import BV.Proofs.Bits BV.Proofs.SrcBP BV.Proofs.WinP.
Arguments N.add : simpl never. Arguments N.sub : simpl never.
Arguments N.ltb : simpl never. Arguments N.leb : simpl never. Arguments N.eqb : simpl never.
Arguments N.min : simpl never. Arguments N.max : simpl never.

(* what a raw source lets the code see: granted octets within the limit *)
Definition vis (r : raw) : N := match rlim r with Some l => N.min l (rgr r) | None => rgr r end.

Lemma len_firstN_le {A} n (l : list A) : n <= len l -> len (firstN n l) = n.
Proof. intro H. unfold len, firstN in *. rewrite firstn_length. lia. Qed.
Lemma firstN_firstN {A} a b (l : list A) : a <= b -> firstN a (firstN b l) = firstN a l.
Proof. intro H. unfold firstN. rewrite firstn_firstn. f_equal. lia. Qed.

Lemma sliceA_spec r : raw_ok r -> sliceA r = firstN (vis r) (rdata r).
Proof.
  intro Hok. unfold sliceA, vis, raw_ok in *.
  rewrite (len_firstN_le (rgr r) (rdata r) Hok).
  destruct (rlim r) as [l|]; [|reflexivity].
  destruct (l <? rgr r) eqn:E.
  - rewrite firstN_firstN by lia. f_equal. lia.
  - f_equal. lia.
Qed.

(* a request: grants stay within the data, never shrink, honour the contract,
   and what is reported decides "enough?" exactly like the Level-B `avail` *)
Lemma requestA_spec pol n r : raw_ok r ->
  exists g r', requestA pol n r = (Ok g, r') /\ raw_ok r' /\
    rdata r' = rdata r /\ rlim r' = rlim r /\ g = vis r' /\
    g <= avail (absA r) /\ N.min n (avail (absA r)) <= g.
Proof.
  intro Hok. unfold requestA, src_request, raw_ok, avail, absA, vis, clamp in *. cbn [lim rem].
  destruct (rlim r) as [l|] eqn:El; eexists; eexists; (split; [reflexivity|]); cbn [rdata rgr rlim];
    repeat split; try lia.
Qed.

Lemma first_of_firstN {T} (b : T) (d : list T) n : 1 <= n -> skipN 0 (firstN n (b :: d)) = b :: firstN (n - 1) d.
Proof.
  intro H. unfold skipN, firstN. cbn [N.to_nat skipn].
  replace (N.to_nat n) with (S (N.to_nat (n - 1))) by lia. reflexivity.
Qed.

(* ---- take_u8 ---- *)
Theorem take_u8_refines pol r : raw_ok r ->
  fst (take_u8_A pol r) = fst (take_u8 (absA r)) /\
  absA (snd (take_u8_A pol r)) = snd (take_u8 (absA r)) /\ raw_ok (snd (take_u8_A pol r)).
Proof.
  intro Hok. destruct (requestA_spec pol 1 r Hok) as (g & r' & Hr & Hok' & Hd & Hl & Hg & Hle & Hge).
  unfold take_u8_A, bindA. rewrite Hr.
  unfold take_u8, bind, tick, absA. cbn [flt rem lim].
  unfold avail, absA in Hle, Hge. cbn [lim rem] in Hle, Hge.
  destruct (g <? 1) eqn:E.
  - (* nothing available *)
    unfold cerrA. cbn [fst snd]. unfold absA. rewrite Hd, Hl.
    destruct (rlim r) as [[|p]|], (rdata r) as [|b d]; try (split; [reflexivity|split; [reflexivity|exact Hok']]);
      rewrite ?len_cons in *; cbn [len length N.of_nat] in *; lia.
  - unfold indexA. rewrite (sliceA_spec r' Hok'), <- Hg, Hd.
    destruct (rdata r) as [|b d] eqn:Ed.
    { exfalso. cbn [len length N.of_nat] in *. destruct (rlim r); lia. }
    rewrite first_of_firstN by lia.
    unfold advanceA, retA. rewrite Hl.
    assert (Hgr : 1 <= rgr r') by (unfold vis in Hg; rewrite Hl in Hg; destruct (rlim r); lia).
    destruct (rlim r) as [l|] eqn:El.
    + assert (1 <= l) by (unfold vis in Hg; rewrite Hl in Hg; lia).
      replace (l <? 1) with false by lia. replace (rgr r' <? 1) with false by lia.
      cbn [fst snd]. destruct l as [|p]; [lia|]. cbn [lim_sub]. unfold absA. cbn [rdata rlim].
      rewrite Hd. unfold skipN. change (N.to_nat 1) with 1%nat. cbn [skipn].
      split; [reflexivity|]. split; [reflexivity|].
      unfold raw_ok in *. cbn [rgr rdata]. rewrite Hd in Hok'. rewrite len_cons in Hok'. lia.
    + replace (rgr r' <? 1) with false by lia. cbn [fst snd lim_sub]. unfold absA. cbn [rdata rlim].
      rewrite Hd. unfold skipN. change (N.to_nat 1) with 1%nat. cbn [skipn].
      split; [reflexivity|]. split; [reflexivity|].
      unfold raw_ok in *. cbn [rgr rdata]. rewrite Hd in Hok'. rewrite len_cons in Hok'. lia.
Qed.

(* ---- take_opt_u8 ---- *)
Theorem take_opt_u8_refines pol r : raw_ok r ->
  fst (take_opt_u8_A pol r) = fst (take_opt_u8 (absA r)) /\
  absA (snd (take_opt_u8_A pol r)) = snd (take_opt_u8 (absA r)) /\ raw_ok (snd (take_opt_u8_A pol r)).
Proof.
  intro Hok. destruct (requestA_spec pol 1 r Hok) as (g & r' & Hr & Hok' & Hd & Hl & Hg & Hle & Hge).
  unfold take_opt_u8_A, bindA. rewrite Hr.
  unfold take_opt_u8, bind, tick, absA. cbn [flt rem lim].
  unfold avail, absA in Hle, Hge. cbn [lim rem] in Hle, Hge.
  destruct (g <? 1) eqn:E.
  - unfold retA. cbn [fst snd]. unfold absA. rewrite Hd, Hl.
    destruct (rlim r) as [[|p]|], (rdata r) as [|b d]; try (split; [reflexivity|split; [reflexivity|exact Hok']]);
      rewrite ?len_cons in *; cbn [len length N.of_nat] in *; lia.
  - unfold indexA. rewrite (sliceA_spec r' Hok'), <- Hg, Hd.
    destruct (rdata r) as [|b d] eqn:Ed.
    { exfalso. cbn [len length N.of_nat] in *. destruct (rlim r); lia. }
    rewrite first_of_firstN by lia.
    unfold advanceA, retA. rewrite Hl.
    assert (Hgr : 1 <= rgr r') by (unfold vis in Hg; rewrite Hl in Hg; destruct (rlim r); lia).
    destruct (rlim r) as [l|] eqn:El.
    + assert (1 <= l) by (unfold vis in Hg; rewrite Hl in Hg; lia).
      replace (l <? 1) with false by lia. replace (rgr r' <? 1) with false by lia.
      cbn [fst snd]. destruct l as [|p]; [lia|]. cbn [lim_sub]. unfold absA. cbn [rdata rlim].
      rewrite Hd. unfold skipN. change (N.to_nat 1) with 1%nat. cbn [skipn].
      split; [reflexivity|]. split; [reflexivity|].
      unfold raw_ok in *. cbn [rgr rdata]. rewrite Hd in Hok'. rewrite len_cons in Hok'. lia.
    + replace (rgr r' <? 1) with false by lia. cbn [fst snd lim_sub]. unfold absA. cbn [rdata rlim].
      rewrite Hd. unfold skipN. change (N.to_nat 1) with 1%nat. cbn [skipn].
      split; [reflexivity|]. split; [reflexivity|].
      unfold raw_ok in *. cbn [rgr rdata]. rewrite Hd in Hok'. rewrite len_cons in Hok'. lia.
Qed.

(* ---- request(n) < n -> error; advance(n): skipping n octets ---- *)
Theorem skip_n_refines pol n r : raw_ok r ->
  fst (skip_n_A pol n r) = fst ((need n ;;; advance n) (absA r)) /\
  absA (snd (skip_n_A pol n r)) = snd ((need n ;;; advance n) (absA r)) /\
  raw_ok (snd (skip_n_A pol n r)).
Proof.
  intro Hok. destruct (requestA_spec pol n r Hok) as (g & r' & Hr & Hok' & Hd & Hl & Hg & Hle & Hge).
  unfold skip_n_A, bindA. rewrite Hr.
  unfold need, bind, tick. cbn [absA flt]. change (mkSrc (rdata r) (rlim r) None) with (absA r).
  destruct (g <? n) eqn:E.
  - replace (avail (absA r) <? n) with true by lia. unfold cerrA. cbn [fst snd].
    unfold absA. rewrite Hd, Hl. (split; [reflexivity|split; [reflexivity|exact Hok']]).
  - replace (avail (absA r) <? n) with false by lia.
    unfold advanceA, advance. cbn [absA rem lim flt]. rewrite Hl.
    unfold avail, absA in Hle. cbn [lim rem] in Hle. unfold vis in Hg. rewrite Hl in Hg.
    unfold raw_ok in Hok'. rewrite Hd in Hok'.
    destruct (rlim r) as [l|].
    + replace (l <? n) with false by lia. replace (rgr r' <? n) with false by lia.
      replace (len (rdata r) <? n) with false by lia. cbn [fst snd]. unfold absA. cbn [rdata rlim]. rewrite Hd.
      (split; [reflexivity|split; [reflexivity|unfold raw_ok; cbn [rgr rdata]; rewrite ?Hd, len_skipN; lia]]).
    + replace (rgr r' <? n) with false by lia. replace (len (rdata r) <? n) with false by lia.
      cbn [fst snd]. unfold absA. cbn [rdata rlim]. rewrite Hd. (split; [reflexivity|split; [reflexivity|unfold raw_ok; cbn [rgr rdata]; rewrite ?Hd, len_skipN; lia]]).
Qed.

(* ---- take_all ---- *)
Theorem take_all_refines pol r : raw_ok r ->
  fst (take_all_A pol r) = fst (take_all_lim (absA r)) /\
  absA (snd (take_all_A pol r)) = snd (take_all_lim (absA r)) /\
  raw_ok (snd (take_all_A pol r)).
Proof.
  intro Hok. unfold take_all_A, take_all_lim. cbn [absA lim].
  destruct (rlim r) as [l|] eqn:El; [|(split; [reflexivity|split; [reflexivity|exact Hok]])].
  destruct (requestA_spec pol l r Hok) as (g & r' & Hr & Hok' & Hd & Hl & Hg & Hle & Hge).
  unfold bindA. rewrite Hr.
  unfold need, bind, tick. cbn [absA flt]. change (mkSrc (rdata r) (rlim r) None) with (absA r).
  destruct (g <? l) eqn:E.
  - replace (avail (absA r) <? l) with true by lia. unfold cerrA. cbn [fst snd].
    unfold absA. rewrite Hd, Hl. (split; [reflexivity|split; [reflexivity|exact Hok']]).
  - replace (avail (absA r) <? l) with false by lia.
    unfold avail, absA in Hle. cbn [lim rem] in Hle. rewrite El in Hle.
    unfold vis in Hg. rewrite Hl, El in Hg.
    unfold raw_ok in Hok'. rewrite Hd in Hok'.
    cbv beta. unfold bytesA, advanceA, retA, get, advance, ret. cbv beta. rewrite ?Hl, ?El.
    cbn [absA rem lim flt]. rewrite ?El.
    replace (l <? l) with false by lia. replace (rgr r' <? l) with false by lia.
    replace (len (rdata r) <? l) with false by lia.
    cbn [fst snd]. rewrite ?Hl, ?El. replace (l <? l) with false by lia.
    replace (rgr r' <? l) with false by lia.
    cbn [fst snd]. rewrite Hd. unfold absA. cbn [rdata rlim rem]. (split; [reflexivity|split; [reflexivity|unfold raw_ok; cbn [rgr rdata]; rewrite ?Hd, len_skipN; lia]]).
Qed.

(* ---- the peek step of Tag::take_from_if: request(i+1) then slice()[i] ---- *)
Lemma nth_skipN_firstN (d : list N) i n : i < n -> i < len d ->
  exists b t, skipN i (firstN n d) = b :: t /\ skipN i d = b :: skipN (i + 1) d.
Proof.
  revert i n. induction d as [|x d IH]; intros i n Hin Hid; [cbn in Hid; lia|].
  destruct (N.eq_dec i 0) as [->|Hi].
  - exists x, (firstN (n - 1) d). split; [apply first_of_firstN; lia|reflexivity].
  - rewrite len_cons in Hid.
    destruct (IH (i - 1) (n - 1) ltac:(lia) ltac:(lia)) as (b & t & H1 & H2).
    exists b, t. unfold skipN, firstN in *.
    replace (N.to_nat i) with (S (N.to_nat (i - 1))) by lia.
    replace (N.to_nat n) with (S (N.to_nat (n - 1))) by lia. cbn [firstn skipn].
    split; [exact H1|]. rewrite H2. f_equal.
    replace (N.to_nat (i + 1)) with (S (N.to_nat (i - 1 + 1))) by lia. reflexivity.
Qed.

Theorem peek_refines pol i r : raw_ok r ->
  match peek_A pol i r with
  | (Ok b, r') => skipN i (visible (absA r)) = b :: skipN (i + 1) (visible (absA r)) /\ absA r' = absA r
  | (CErr, r') => len (visible (absA r)) <= i /\ absA r' = absA r
  | _ => False
  end.
Proof.
  intro Hok. destruct (requestA_spec pol (i + 1) r Hok) as (g & r' & Hr & Hok' & Hd & Hl & Hg & Hle & Hge).
  unfold peek_A, bindA. rewrite Hr.
  assert (Hv : len (visible (absA r)) = avail (absA r)).
  { rewrite visible_eq. unfold avail, absA. cbn [lim rem]. destruct (rlim r) as [l|]; [|reflexivity].
    unfold len, firstN. rewrite firstn_length. lia. }
  assert (Ea : absA r' = absA r) by (unfold absA; rewrite Hd, Hl; reflexivity).
  destruct (g <=? i) eqn:E.
  - unfold cerrA. split; [lia|exact Ea].
  - unfold indexA. rewrite (sliceA_spec r' Hok'), <- Hg, Hd.
    (* the slice is a prefix of the visible octets, long enough to hold index i *)
    assert (Hpre : firstN g (rdata r) = firstN g (visible (absA r))).
    { rewrite visible_eq. unfold avail, absA in Hle. cbn [lim rem] in Hle.
      unfold absA. cbn [lim rem]. destruct (rlim r) as [l|]; [|reflexivity].
      rewrite firstN_firstN by lia. reflexivity. }
    rewrite Hpre.
    destruct (nth_skipN_firstN (visible (absA r)) i g ltac:(lia) ltac:(lia)) as (b & t & H1 & H2).
    rewrite H1. split; [exact H2|exact Ea].
Qed.

Lemma skipN_nil_ge {T} i (l : list T) : len l <= i -> skipN i l = [].
Proof. intro H. unfold skipN, len in *. apply skipn_all2. lia. Qed.

Lemma peek_A_state pol i r : raw_ok r -> raw_ok (snd (peek_A pol i r)).
Proof.
  intro Hok. destruct (requestA_spec pol (i + 1) r Hok) as (g & r' & Hr & Hok' & _).
  unfold peek_A, bindA. rewrite Hr. destruct (g <=? i); [exact Hok'|].
  unfold indexA. destruct (skipN i (sliceA r')); exact Hok'.
Qed.

Theorem peek_B_refines pol i r : raw_ok r ->
  fst (peek_A pol i r) = fst (peek_B i (absA r)) /\
  absA (snd (peek_A pol i r)) = snd (peek_B i (absA r)) /\ raw_ok (snd (peek_A pol i r)).
Proof.
  intro Hok. pose proof (peek_refines pol i r Hok) as H. pose proof (peek_A_state pol i r Hok) as Hs.
  unfold peek_B. destruct (peek_A pol i r) as [[b| | | |] r'']; cbn [fst snd] in *; try contradiction.
  - destruct H as [H1 H2]. rewrite H1. cbn [fst snd]. auto.
  - destruct H as [H1 H2]. rewrite (skipN_nil_ge i _ H1). cbn [fst snd]. auto.
Qed.

(* ---- refinement is closed under sequencing: every tree of access patterns ---- *)
Definition Ref {T} (a : res T * raw) (b : res T * src) : Prop :=
  fst a = fst b /\ absA (snd a) = snd b /\ raw_ok (snd a).

Lemma Ref_bind {T U} (ma : A T) (mb : M T) (fa : T -> A U) (fb : T -> M U) r :
  Ref (ma r) (mb (absA r)) ->
  (forall t r', raw_ok r' -> Ref (fa t r') (fb t (absA r'))) ->
  Ref (bindA ma fa r) (bind mb fb (absA r)).
Proof.
  unfold Ref, bindA, bind. intros (H1 & H2 & H3) Hk.
  destruct (ma r) as [ra r'], (mb (absA r)) as [rb s']. cbn [fst snd] in *. subst rb s'.
  destruct ra; cbn [fst snd]; auto.
Qed.

Lemma len_visible_A r : len (visible (absA r)) = avail (absA r).
Proof.
  rewrite visible_eq. unfold avail, absA. cbn [lim rem]. destruct (rlim r) as [l|]; [|reflexivity].
  unfold len, firstN. rewrite firstn_length. lia.
Qed.

Lemma peek_grant pol i r b r' : raw_ok r -> peek_A pol i r = (Ok b, r') ->
  i + 1 <= vis r' /\ raw_ok r' /\ absA r' = absA r /\
  skipN i (visible (absA r)) = b :: skipN (i + 1) (visible (absA r)).
Proof.
  intros Hok E. pose proof (peek_refines pol i r Hok) as HR. rewrite E in HR. destruct HR as [H1 H2].
  destruct (requestA_spec pol (i + 1) r Hok) as (g & r1 & Hr & Hok1 & Hd & Hl & Hg & Hle & Hge).
  unfold peek_A, bindA in E. rewrite Hr in E. destruct (g <=? i) eqn:Eg; [discriminate|].
  unfold indexA in E. destruct (skipN i (sliceA r1)); inversion E; subst.
  repeat split; try assumption. lia.
Qed.

Lemma peek_none pol i r r' : raw_ok r -> peek_A pol i r = (CErr, r') ->
  raw_ok r' /\ absA r' = absA r /\ skipN i (visible (absA r)) = [].
Proof.
  intros Hok E. pose proof (peek_refines pol i r Hok) as HR. pose proof (peek_A_state pol i r Hok) as HS.
  rewrite E in HR, HS. destruct HR as [H1 H2]. cbn [snd] in HS.
  repeat split; try assumption. apply skipN_nil_ge, H1.
Qed.

Lemma peek_total pol i r : raw_ok r ->
  (exists b r', peek_A pol i r = (Ok b, r')) \/ (exists r', peek_A pol i r = (CErr, r')).
Proof.
  intro Hok. pose proof (peek_refines pol i r Hok) as HR.
  destruct (peek_A pol i r) as [[b| | | |] r']; try contradiction; eauto.
Qed.

(* advance(n) within the grant *)
Lemma advance_refines n r : raw_ok r -> n <= vis r -> Ref (advanceA n r) (advance n (absA r)).
Proof.
  intros Hok Hn. unfold Ref, advanceA, advance, absA, vis, raw_ok in *. cbn [rem lim flt].
  destruct (rlim r) as [l|].
  - replace (l <? n) with false by lia. replace (rgr r <? n) with false by lia.
    replace (len (rdata r) <? n) with false by lia. cbn [fst snd rdata rlim rgr].
    repeat split. rewrite len_skipN. lia.
  - replace (rgr r <? n) with false by lia.
    replace (len (rdata r) <? n) with false by lia. cbn [fst snd rdata rlim rgr].
    repeat split. rewrite len_skipN. lia.
Qed.

Lemma fin_refines e c t n r : raw_ok r -> n <= vis r -> tag_encoded_len t = n ->
  Ref (tagif_fin e c t n r)
      ((if tag_eqb t e then advance (tag_encoded_len t) ;;; ret (Some c) else ret None) (absA r)).
Proof.
  intros Hok Hn Hl. destruct t as [[[a0 a1] a2] a3], e as [[[b0 b1] b2] b3]. rewrite Hl.
  unfold tagif_fin, tag_eqb.
  destruct ((a0 =? b0) && (a1 =? b1) && (a2 =? b2) && (a3 =? b3)).
  - apply Ref_bind; [apply advance_refines; assumption|].
    intros [] r' Hr'. unfold Ref, retA, ret. cbn [fst snd]. auto.
  - unfold Ref, retA, ret. cbn [fst snd]. auto.
Qed.

Lemma tick_A r : tick (absA r) = (Ok tt, absA r).
Proof. reflexivity. Qed.

Lemma bind_tick_A {T U} (x : M T) (k : T -> M U) r : bind (tick ;;; x) k (absA r) = bind x k (absA r).
Proof. unfold bind. rewrite tick_A. reflexivity. Qed.
Lemma bind_cerr {T U} (k : T -> M U) s : bind cerr k s = (CErr, s).
Proof. reflexivity. Qed.
Lemma bind_ret {T U} (t : T) (k : T -> M U) s : bind (ret t) k s = k t s.
Proof. reflexivity. Qed.

Lemma skipN_0 {T} (l : list T) : skipN 0 l = l.
Proof. reflexivity. Qed.

Theorem tagif_refines pol e r : raw_ok r -> Ref (tagif_A pol e r) (tag_take_from_if e (absA r)).
Proof.
  intro Hok.
  destruct (requestA_spec pol 1 r Hok) as (g & r1 & Hr & Hok1 & Hd & Hl & Hg & Hle & Hge).
  assert (Ea : absA r1 = absA r) by (unfold absA; rewrite Hd, Hl; reflexivity).
  pose proof (len_visible_A r) as Hv.
  unfold tag_take_from_if, bind at 1. rewrite tick_A. unfold bind at 1, get_visible.
  unfold tagif_A, bindA at 1. rewrite Hr.
  destruct (g <? 1) eqn:Eg.
  - (* nothing visible: absent *)
    destruct (visible (absA r)) as [|b v1] eqn:Evis; [|rewrite len_cons in Hv; lia].
    unfold Ref, retA, ret. cbn [fst snd]. auto.
  - (* the first octet *)
    pose proof (peek_total pol 0 r Hok) as [(b & r1' & E0)|(r1' & E0)].
    2:{ unfold peek_A, bindA in E0. change (0 + 1) with 1 in E0. rewrite Hr in E0.
        replace (g <=? 0) with false in E0 by lia. unfold indexA in E0.
        destruct (skipN 0 (sliceA r1)); discriminate. }
    destruct (peek_grant pol 0 r b r1' Hok E0) as (Hg0 & _ & _ & Hv0).
    unfold peek_A, bindA in E0. change (0 + 1) with 1 in E0, Hg0, Hv0. rewrite Hr in E0.
    replace (g <=? 0) with false in E0 by lia.
    assert (r1' = r1) by (unfold indexA in E0; destruct (skipN 0 (sliceA r1)); congruence). subst r1'.
    unfold bindA at 1. rewrite E0. rewrite skipN_0 in Hv0. rewrite Hv0.
    set (v := visible (absA r)) in *.
    unfold tag_peek, clear_cons, is_cons.
    destruct (N.land (N.land b 223) 31 =? 31) eqn:Eh.
    2:{ rewrite bind_ret, <- Ea. apply fin_refines; [assumption|assumption|].
        unfold tag_encoded_len. rewrite (N.land_comm 31), Eh. reflexivity. }
    rewrite bind_tick_A.
    destruct (peek_total pol 1 r1 Hok1) as [(d1 & r2 & E1)|(r2 & E1)].
    2:{ destruct (peek_none pol 1 r1 r2 Hok1 E1) as (Hok2 & Ea2 & Hn). rewrite Ea in Hn, Ea2. fold v in Hn.
        rewrite Hn, bind_cerr. unfold bindA at 1. rewrite E1. unfold Ref. cbn [fst snd]. auto. }
    destruct (peek_grant pol 1 r1 d1 r2 Hok1 E1) as (Hg1 & Hok2 & Ea2 & Hv1).
    rewrite Ea in Hv1, Ea2. fold v in Hv1. change (1 + 1) with 2 in *. rewrite Hv1.
    unfold bindA at 1. rewrite E1.
    destruct (N.land d1 128 =? 0) eqn:E128.
    { rewrite bind_ret, <- Ea2. apply fin_refines; [assumption|assumption|].
      unfold tag_encoded_len. rewrite (N.land_comm 31), Eh, (N.land_comm 128), E128. reflexivity. }
    rewrite bind_tick_A.
    destruct (peek_total pol 2 r2 Hok2) as [(d2 & r3 & E2)|(r3 & E2)].
    2:{ destruct (peek_none pol 2 r2 r3 Hok2 E2) as (Hok3 & Ea3 & Hn). rewrite Ea2 in Hn, Ea3. fold v in Hn.
        rewrite Hn, bind_cerr. unfold bindA at 1. rewrite E2. unfold Ref. cbn [fst snd]. auto. }
    destruct (peek_grant pol 2 r2 d2 r3 Hok2 E2) as (Hg2 & Hok3 & Ea3 & Hv2).
    rewrite Ea2 in Hv2, Ea3. fold v in Hv2. change (2 + 1) with 3 in *. rewrite Hv2.
    unfold bindA at 1. rewrite E2.
    destruct (N.land d2 128 =? 0) eqn:E228.
    { rewrite bind_ret, <- Ea3. apply fin_refines; [assumption|assumption|].
      unfold tag_encoded_len. rewrite (N.land_comm 31), Eh, (N.land_comm 128 d1), E128, (N.land_comm 128), E228. reflexivity. }
    rewrite bind_tick_A.
    destruct (peek_total pol 3 r3 Hok3) as [(d3 & r4 & E3)|(r4 & E3)].
    2:{ destruct (peek_none pol 3 r3 r4 Hok3 E3) as (Hok4 & Ea4 & Hn). rewrite Ea3 in Hn, Ea4. fold v in Hn.
        rewrite Hn, bind_cerr. unfold bindA at 1. rewrite E3. unfold Ref. cbn [fst snd]. auto. }
    destruct (peek_grant pol 3 r3 d3 r4 Hok3 E3) as (Hg3 & Hok4 & Ea4 & Hv3).
    rewrite Ea3 in Hv3, Ea4. fold v in Hv3. change (3 + 1) with 4 in *. rewrite Hv3.
    unfold bindA at 1. rewrite E3.
    destruct (N.land d3 128 =? 0) eqn:E328.
    { rewrite bind_ret, <- Ea4. apply fin_refines; [assumption|assumption|].
      unfold tag_encoded_len. rewrite (N.land_comm 31), Eh, (N.land_comm 128 d1), E128, (N.land_comm 128), E228. reflexivity. }
    rewrite bind_cerr. unfold Ref, cerrA. cbn [fst snd]. auto.
Qed.

(* LimitedSource::exhausted *)
Theorem exhausted_refines pol r : raw_ok r -> Ref (exhausted_A pol r) (src_exhausted (absA r)).
Proof.
  intro Hok. unfold exhausted_A, src_exhausted. change (lim (absA r)) with (rlim r).
  destruct (rlim r) as [[|p]|] eqn:El; try (unfold Ref; cbn [fst snd]; auto).
  destruct (requestA_spec pol 1 r Hok) as (g & r1 & Hr & Hok1 & Hd & Hl & Hg & Hle & Hge).
  assert (Ea : absA r1 = absA r) by (unfold absA; rewrite Hd, Hl; reflexivity).
  unfold bindA. rewrite Hr. unfold bind. rewrite tick_A. change (rem (absA r)) with (rdata r).
  unfold avail, absA in Hle, Hge. cbn [lim rem] in Hle, Hge. rewrite El in Hle, Hge.
  destruct (rdata r) as [|b d] eqn:Ed.
  - change (len (@nil N)) with 0 in *. replace (g <? 1) with true by lia.
    unfold Ref, retA. cbn [fst snd]. auto.
  - rewrite len_cons in *. replace (g <? 1) with false by lia.
    unfold Ref, cerrA. cbn [fst snd]. auto.
Qed.


Lemma firstN_ge {T} n (l : list T) : len l <= n -> firstN n l = l.
Proof. intro H. unfold firstN, len in *. apply firstn_all2. lia. Qed.

(* ---- request(n), then the first n octets of slice() ---- *)
Theorem look_refines pol n r : raw_ok r -> Ref (look_A pol n r) (look_B n (absA r)).
Proof.
  intro Hok. destruct (requestA_spec pol n r Hok) as (g & r1 & Hr & Hok1 & Hd & Hl & Hg & Hle & Hge).
  assert (Ea : absA r1 = absA r) by (unfold absA; rewrite Hd, Hl; reflexivity).
  unfold look_A, bindA. rewrite Hr. unfold look_B, bind. rewrite tick_A.
  unfold Ref. cbn [fst snd]. split; [|auto]. f_equal.
  rewrite (sliceA_spec r1 Hok1), <- Hg, Hd, visible_eq.
  unfold avail, absA in Hle, Hge |- *. cbn [lim rem] in Hle, Hge |- *. clear Hg.
  destruct (rlim r) as [l|].
  - destruct (N.le_gt_cases n g) as [H|H].
    + rewrite !firstN_firstN by lia. reflexivity.
    + assert (g = N.min l (len (rdata r))) by lia. subst g.
      destruct (N.le_ge_cases l (len (rdata r))) as [H2|H2].
      * replace (N.min l (len (rdata r))) with l by lia. reflexivity.
      * replace (N.min l (len (rdata r))) with (len (rdata r)) by lia.
        rewrite (firstN_ge (len (rdata r)) (rdata r)) by lia. rewrite (firstN_ge l (rdata r)) by lia. reflexivity.
  - destruct (N.le_gt_cases n g) as [H|H].
    + rewrite firstN_firstN by lia. reflexivity.
    + assert (g = len (rdata r)) by lia. subst g. rewrite (firstN_ge (len (rdata r)) (rdata r)) by lia. reflexivity.
Qed.
(* ---- Primitive::with_slice_all ---- *)
Theorem slice_then_refines pol adv r : raw_ok r -> Ref (slice_then_A pol adv r) (slice_then_B adv (absA r)).
Proof.
  intro Hok. unfold slice_then_A, slice_then_B, slice_all_lim, bind at 1. cbn [absA lim].
  destruct (rlim r) as [l|] eqn:El; [|unfold Ref; cbn [fst snd]; auto].
  destruct (requestA_spec pol l r Hok) as (g & r' & Hr & Hok' & Hd & Hl & Hg & Hle & Hge).
  assert (Ea : absA r' = absA r) by (unfold absA; rewrite Hd, Hl; reflexivity).
  unfold bindA at 1. rewrite Hr.
  unfold need, bind at 1 2, tick. cbn [absA flt]. change (mkSrc (rdata r) (rlim r) None) with (absA r).
  destruct (g <? l) eqn:E.
  - replace (avail (absA r) <? l) with true by lia. unfold Ref, cerrA. cbn [fst snd]. auto.
  - replace (avail (absA r) <? l) with false by lia.
    unfold avail, absA in Hle. cbn [lim rem] in Hle. rewrite El in Hle.
    assert (Hv : l <= vis r') by lia.
    unfold vis in Hg. rewrite Hl, El in Hg.
    assert (Hlen : l <= len (rdata r)) by lia.
    unfold bind at 1, get. unfold ret at 1. cbn [rem absA].
    unfold bindA at 1, bytesA. rewrite Hl, El. replace (l <? l) with false by lia.
    replace (rgr r' <? l) with false by lia. rewrite Hd.
    assert (Hc : len (firstN l (rdata r)) = l) by (apply len_firstN_le; exact Hlen).
    destruct (adv (firstN l (rdata r))).
    + rewrite Hc. change (mkSrc (rdata r) (rlim r) None) with (absA r). rewrite <- Ea.
      apply Ref_bind; [apply advance_refines; assumption|].
      intros [] r2 Hr2. unfold Ref, retA, ret. cbn [fst snd]. auto.
    + change (mkSrc (rdata r) (rlim r) None) with (absA r). unfold Ref, retA, ret. cbn [fst snd]. auto.
Qed.

Theorem runA_refines {T} pol (p : pat T) : forall r, raw_ok r -> Ref (runA pol p r) (runB p (absA r)).
Proof.
  induction p as [t| |k IH|k IH|n k IH|k IH|i k IH|l k IH|k IH|x|e k IH|k IH|n k IH|adv k IH]; intros r Hok; cbn [runA runB].
  - unfold Ref, retA, ret. cbn [fst snd]. auto.
  - unfold Ref, cerrA, cerr. cbn [fst snd]. auto.
  - apply Ref_bind; [exact (take_u8_refines pol r Hok)|]. intros t r' Hr'. apply IH, Hr'.
  - apply Ref_bind; [exact (take_opt_u8_refines pol r Hok)|]. intros t r' Hr'. apply IH, Hr'.
  - assert (E : forall s, (need n;;; advance n;;; runB k) s = bind (need n ;;; advance n) (fun _ => runB k) s).
    { intro s. unfold bind. destruct (need n s) as [[] ?]; reflexivity. }
    rewrite E. apply Ref_bind; [exact (skip_n_refines pol n r Hok)|]. intros t r' Hr'. apply IH, Hr'.
  - apply Ref_bind; [exact (take_all_refines pol r Hok)|]. intros t r' Hr'. apply IH, Hr'.
  - apply Ref_bind; [exact (peek_B_refines pol i r Hok)|]. intros t r' Hr'. apply IH, Hr'.
  - apply Ref_bind.
    + unfold Ref, set_limit_A, set_limit, absA, raw_ok in *. cbn [fst snd rdata rlim rgr rem lim flt]. auto.
    + intros t r' Hr'. apply IH, Hr'.
  - apply Ref_bind.
    + unfold Ref, get_limit_A, get_lim, absA. cbn [fst snd lim]. auto.
    + intros t r' Hr'. apply IH, Hr'.
  - unfold Ref. cbn [fst snd]. auto.
  - apply Ref_bind; [exact (tagif_refines pol e r Hok)|]. intros t r' Hr'. apply IH, Hr'.
  - apply Ref_bind; [exact (exhausted_refines pol r Hok)|]. intros t r' Hr'. apply IH, Hr'.
  - apply Ref_bind; [exact (look_refines pol n r Hok)|]. intros t r' Hr'. apply IH, Hr'.
  - apply Ref_bind; [exact (slice_then_refines pol adv r Hok)|]. intros t r' Hr'. apply IH, Hr'.
Qed.

(* ---- delivery independence: two legal sources over the same octets ---- *)
Theorem delivery_independent {T} pol1 pol2 (p : pat T) r1 r2 :
  raw_ok r1 -> raw_ok r2 -> absA r1 = absA r2 ->
  fst (runA pol1 p r1) = fst (runA pol2 p r2) /\
  absA (snd (runA pol1 p r1)) = absA (snd (runA pol2 p r2)).
Proof.
  intros H1 H2 E. destruct (runA_refines pol1 p r1 H1) as (A1 & B1 & _).
  destruct (runA_refines pol2 p r2 H2) as (A2 & B2 & _). rewrite E in *. split; congruence.
Qed.

(* the code never looks at octets it was not granted: no Panic unless the
   specification itself panics (take_all without a limit) *)
Theorem no_ungranted_access {T} pol (p : pat T) r : raw_ok r ->
  fst (runA pol p r) = Panic -> fst (runB p (absA r)) = Panic.
Proof. intros H E. destruct (runA_refines pol p r H) as (A1 & _). congruence. Qed.

(* the model does notice ungranted access: slice()[0] without a request *)
Lemma ungranted_access_panics : fst (indexA 0 (mkRaw [1; 2] 0 None 0)) = Panic.
Proof. reflexivity. Qed.
(* non-vacuity: a miserly one-octet-at-a-time policy and an all-at-once policy
   read the same two octets *)
Lemma delivery_example :
  let p := PTakeU8 (fun a => PTakeU8 (fun b => PRet (a, b))) in
  fst (runA (fun _ _ _ => 0) p (mkRaw [7; 9; 4] 0 None 0)) = Ok (7, 9) /\
  fst (runA (fun _ _ av => av) p (mkRaw [7; 9; 4] 0 None 0)) = Ok (7, 9).
Proof. vm_compute. split; reflexivity. Qed.

(* ---- the header readers ARE trees of access patterns ---- *)
Require Import BV.Model.Length BV.Model.Tag.

Lemma bind_ext {T U} (m : M T) (f g : T -> M U) s :
  (forall a s', f a s' = g a s') -> bind m f s = bind m g s.
Proof. intro H. unfold bind. destruct (m s) as [[] ?]; auto. Qed.

Ltac patstep :=
  repeat first
    [ reflexivity
    | apply bind_ext; intros
    | match goal with |- context [if ?c then _ else _] => destruct c end
    | match goal with |- context [match ?o with Some _ => _ | None => _ end] => destruct o end ].

Definition length_pat (m : mode) : pat length_ :=
  PTakeU8 (fun b =>
  if N.land b 128 =? 0 then PRet (Definite_ b) else
  if b =? 128 then PRet Indefinite_ else
  if b =? 129 then
    PTakeU8 (fun a =>
    if is_ber m || (127 <? a) then PRet (Definite_ a) else PErr) else
  if b =? 130 then
    PTakeU8 (fun a => PTakeU8 (fun c =>
    let l := N.lor (N.shiftl a 8) c in
    if is_ber m || (255 <? l) then PRet (Definite_ l) else PErr)) else
  if b =? 131 then
    PTakeU8 (fun a => PTakeU8 (fun c => PTakeU8 (fun d =>
    let l := N.lor (N.lor (N.shiftl a 16) (N.shiftl c 8)) d in
    if is_ber m || (65535 <? l) then PRet (Definite_ l) else PErr))) else
  if b =? 132 then
    PTakeU8 (fun a => PTakeU8 (fun c => PTakeU8 (fun d => PTakeU8 (fun e =>
    let l := N.lor (N.lor (N.lor (N.shiftl a 24) (N.shiftl c 16)) (N.shiftl d 8)) e in
    if is_ber m || (16777215 <? l) then PRet (Definite_ l) else PErr)))) else
  PErr).

Lemma length_is_pat m s : length_take_from m s = runB (length_pat m) s.
Proof. unfold length_take_from, length_pat. cbn [runB]. patstep. Qed.

Definition tag_opt_pat : pat (option (tag * bool)) :=
  PTakeOpt (fun ob =>
  match ob with
  | None => PRet None
  | Some b =>
    let d0 := clear_cons b in let c := is_cons b in
    if N.land d0 31 =? 31 then
      PTakeU8 (fun d1 =>
      if (d1 =? 128) || (d1 <=? 30) then PErr else
      if N.land d1 128 =? 0 then PRet (Some ((d0,d1,0,0), c)) else
      PTakeU8 (fun d2 =>
      if N.land d2 128 =? 0 then PRet (Some ((d0,d1,d2,0), c)) else
      PTakeU8 (fun d3 =>
      if N.land d3 128 =? 0 then PRet (Some ((d0,d1,d2,d3), c)) else PErr)))
    else PRet (Some ((d0,0,0,0), c))
  end).

Lemma tag_opt_is_pat s : tag_take_opt_from s = runB tag_opt_pat s.
Proof. unfold tag_take_opt_from, tag_opt_pat. cbn [runB]. patstep. Qed.

(* so identifier and length octets decode the same from every legal source *)
Theorem header_delivery_independent pol m r : raw_ok r ->
  Ref (runA pol (length_pat m) r) (length_take_from m (absA r)) /\
  Ref (runA pol tag_opt_pat r) (tag_take_opt_from (absA r)).
Proof.
  intro H. rewrite length_is_pat, tag_opt_is_pat. split; apply runA_refines; exact H.
Qed.
