(* Proofs about Model/Oid.v (property C20). *)
From Coq Require Import Lia ZifyBool ZifyN ZifyNat.
Require Import BV.Model.Base BV.Model.SrcB BV.Model.Int BV.Model.Oid.
Require Import BV.Proofs.Bits BV.Proofs.SrcBP BV.Proofs.IntP.
Ltac Zify.zify_post_hook ::= Z.div_mod_to_equations.
Arguments N.add : simpl never. Arguments N.sub : simpl never.
Arguments N.mul : simpl never. Arguments N.ltb : simpl never.
Arguments N.leb : simpl never. Arguments N.eqb : simpl never.
Arguments N.land : simpl never. Arguments N.lor : simpl never.
Arguments N.shiftl : simpl never. Arguments N.shiftr : simpl never.
Arguments N.div : simpl never. Arguments N.modulo : simpl never.

(* ---------- acceptance ---------- *)
Definition oid_ok (c : list N) : bool :=
  match rev c with [] => false | l :: _ => l <? 128 end.

Lemma oid_check_spec c : octets_ok c = true ->
  oid_check_content c = if oid_ok c then Ok tt else CErr.
Proof.
  intro Hok. unfold oid_check_content, oid_ok.
  assert (Hr : octets_ok (rev c) = true).
  { unfold octets_ok in *. rewrite forallb_forall in *. intros x Hx. apply Hok. apply in_rev. exact Hx. }
  destruct (rev c) as [|l r]; [reflexivity|].
  apply octets_ok_cons in Hr as [Hl _]. rewrite land_128.
  destruct (l <? 128) eqn:E.
  - replace (128 * ((l / 128) mod 2) =? 0) with true by lia. reflexivity.
  - replace (128 * ((l / 128) mod 2) =? 0) with false by lia. reflexivity.
Qed.

Theorem oid_from_prim_spec c : octets_ok c = true ->
  prim_decode oid_from_prim c = if oid_ok c then Ok c else CErr.
Proof.
  intro Hok. unfold prim_decode, oid_from_prim. change (pure_src c (Some (len c))) with (full c).
  unfold bind at 1. rewrite (bind_ok take_all_lim _ _ c done_src) by apply take_all_full.
  rewrite (oid_check_spec c Hok). destruct (oid_ok c); reflexivity.
Qed.

Theorem oid_skip_prim_spec c : octets_ok c = true ->
  prim_decode oid_skip_prim c = if oid_ok c then Ok tt else CErr.
Proof.
  intro Hok. unfold prim_decode, oid_skip_prim. change (pure_src c (Some (len c))) with (full c).
  unfold bind at 1. rewrite with_slice_all_full. rewrite (oid_check_spec c Hok).
  destruct (oid_ok c); reflexivity.
Qed.

Theorem oid_skip_if_spec self c :
  prim_decode (oid_skip_if self) c = if list_eqb c self then Ok tt else CErr.
Proof.
  unfold prim_decode, oid_skip_if. change (pure_src c (Some (len c))) with (full c).
  unfold bind at 1. rewrite with_slice_all_full. destruct (list_eqb c self); reflexivity.
Qed.

Lemma list_eqb_eq a b : list_eqb a b = true <-> a = b.
Proof.
  revert b. induction a as [|x a IH]; intros [|y b]; cbn [list_eqb]; split; try discriminate; try reflexivity.
  - intro H. apply andb_true_iff in H as [H1 H2]. apply N.eqb_eq in H1. apply IH in H2. congruence.
  - intros [= -> ->]. rewrite N.eqb_refl. apply IH. reflexivity.
Qed.

(* ---------- parsing text never panics ---------- *)
Theorem oid_from_str_total s :
  (exists c, oid_from_str s = Ok c) \/ oid_from_str s = CErr.
Proof.
  unfold oid_from_str.
  destruct (split_dot [] s) as [|f [|sd rest]]; [right; reflexivity|right; reflexivity|].
  destruct (parse_u32 f) as [first|]; [|right; reflexivity].
  destruct (2 <? first); [right; reflexivity|].
  destruct (parse_u32 sd) as [second|]; [|right; reflexivity].
  destruct ((first <? 2) && (40 <=? second)); [right; reflexivity|].
  destruct (4294967295 <? 40 * first + second); [right; reflexivity|].
  destruct (parse_all rest); [left; eexists; reflexivity|right; reflexivity].
Qed.

(* ---------- the encoder ladder is X.690 base 128 ---------- *)
Lemma encode_item_spec item : item < 4294967296 -> encode_item item = sub_identifier item.
Proof.
  intro H. unfold encode_item, sub_identifier.
  rewrite !shiftr_k. change (2^28) with 268435456. change (2^21) with 2097152.
  change (2^14) with 16384. change (2^7) with 128.
  rewrite !land_127, land_255.
  destruct (127 <? item) eqn:E1.
  2:{ replace (16383 <? item) with false by lia. replace (2097151 <? item) with false by lia.
      replace (268435455 <? item) with false by lia. cbn [app septets_fuel].
      replace (item / 128 =? 0) with true by lia. reflexivity. }
  rewrite (lor_128_low ((item / 128) mod 128)) by lia.
  destruct (16383 <? item) eqn:E2.
  2:{ replace (2097151 <? item) with false by lia. replace (268435455 <? item) with false by lia.
      cbn [app septets_fuel]. replace (item / 128 =? 0) with false by lia.
      replace (item / 128 / 128 =? 0) with true by lia. reflexivity. }
  rewrite (lor_128_low ((item / 16384) mod 128)) by lia.
  destruct (2097151 <? item) eqn:E3.
  2:{ replace (268435455 <? item) with false by lia.
      cbn [app septets_fuel]. replace (item / 128 =? 0) with false by lia.
      replace (item / 128 / 128 =? 0) with false by lia.
      replace (item / 128 / 128 / 128 =? 0) with true by lia.
      list_eq_lia. }
  rewrite (lor_128_low ((item / 2097152) mod 128)) by lia.
  destruct (268435455 <? item) eqn:E4.
  2:{ cbn [app septets_fuel]. replace (item / 128 =? 0) with false by lia.
      replace (item / 128 / 128 =? 0) with false by lia.
      replace (item / 128 / 128 / 128 =? 0) with false by lia.
      replace (item / 128 / 128 / 128 / 128 =? 0) with true by lia.
      list_eq_lia. }
  rewrite (lor_128_low (item / 268435456)) by lia.
  cbn [app septets_fuel]. replace (item / 128 =? 0) with false by lia.
  replace (item / 128 / 128 =? 0) with false by lia.
  replace (item / 128 / 128 / 128 =? 0) with false by lia.
  replace (item / 128 / 128 / 128 / 128 =? 0) with false by lia.
  replace (item / 128 / 128 / 128 / 128 / 128 =? 0) with true by lia.
  list_eq_lia.
Qed.

(* ---------- arcs -> octets -> arcs ---------- *)
Lemma sub_identifier_cases n : n < 4294967296 ->
  sub_identifier n =
    if n <? 128 then [n] else
    if n <? 16384 then [n / 128 + 128; n mod 128] else
    if n <? 2097152 then [n / 16384 + 128; (n / 128) mod 128 + 128; n mod 128] else
    if n <? 268435456 then
      [n / 2097152 + 128; (n / 16384) mod 128 + 128; (n / 128) mod 128 + 128; n mod 128]
    else [n / 268435456 + 128; (n / 2097152) mod 128 + 128; (n / 16384) mod 128 + 128;
          (n / 128) mod 128 + 128; n mod 128].
Proof.
  intro H. unfold sub_identifier. cbn [septets_fuel].
  destruct (n <? 128) eqn:E1.
  { replace (n / 128 =? 0) with true by lia. list_eq_lia. }
  replace (n / 128 =? 0) with false by lia.
  destruct (n <? 16384) eqn:E2.
  { replace (n / 128 / 128 =? 0) with true by lia. list_eq_lia. }
  replace (n / 128 / 128 =? 0) with false by lia.
  destruct (n <? 2097152) eqn:E3.
  { replace (n / 128 / 128 / 128 =? 0) with true by lia. list_eq_lia. }
  replace (n / 128 / 128 / 128 =? 0) with false by lia.
  destruct (n <? 268435456) eqn:E4.
  { replace (n / 128 / 128 / 128 / 128 =? 0) with true by lia. list_eq_lia. }
  replace (n / 128 / 128 / 128 / 128 =? 0) with false by lia.
  replace (n / 128 / 128 / 128 / 128 / 128 =? 0) with true by lia. list_eq_lia.
Qed.

Lemma c_hi x : x < 128 -> (N.land (x + 128) 128 =? 0) = false.
Proof. intro H. rewrite land_128. lia. Qed.
Lemma c_lo x : x < 128 -> (N.land x 128 =? 0) = true.
Proof. intro H. rewrite land_128. lia. Qed.

Lemma split_sub_identifier n t : n < 4294967296 ->
  split_component (sub_identifier n ++ t) = Some (sub_identifier n, t).
Proof.
  intro H. rewrite (sub_identifier_cases n H).
  destruct (n <? 128) eqn:E1.
  { cbn [app split_component]. rewrite c_lo by lia. reflexivity. }
  destruct (n <? 16384) eqn:E2.
  { cbn [app split_component]. rewrite c_hi by lia. rewrite c_lo by lia. reflexivity. }
  destruct (n <? 2097152) eqn:E3.
  { cbn [app split_component]. rewrite !c_hi by lia. rewrite c_lo by lia. reflexivity. }
  destruct (n <? 268435456) eqn:E4.
  { cbn [app split_component]. rewrite !c_hi by lia. rewrite c_lo by lia. reflexivity. }
  cbn [app split_component]. rewrite !c_hi by lia. rewrite c_lo by lia. reflexivity.
Qed.

Lemma raw_step res ch :
  N.lor ((res * 128) mod 4294967296) (N.land ch 127) = (res mod 33554432) * 128 + ch mod 128.
Proof.
  rewrite land_127. replace ((res * 128) mod 4294967296) with ((res mod 33554432) * 128) by lia.
  apply lor_mul_128. lia.
Qed.

Lemma land_112_low x : x < 16 -> N.land (x + 128) 112 = 0.
Proof.
  intro H. rewrite <- (lor_128_low x) by lia. rewrite N.lor_comm, N.land_lor_distr_l.
  change (N.land 128 112) with 0. rewrite N.lor_0_l.
  change 112 with (7 * 2^4). rewrite N.land_comm. apply land_shiftl_low. cbn. lia.
Qed.

Lemma comp_raw_sub_identifier n : n < 4294967296 ->
  comp_raw (sub_identifier n) = n /\
  ((5 <? len (sub_identifier n)) ||
   ((len (sub_identifier n) =? 5) && negb (N.land (hd 0 (sub_identifier n)) 112 =? 0))) = false.
Proof.
  intro H. rewrite (sub_identifier_cases n H). unfold comp_raw.
  destruct (n <? 128) eqn:E1.
  { cbn [fold_left]. rewrite !raw_step. split; [lia|reflexivity]. }
  destruct (n <? 16384) eqn:E2.
  { cbn [fold_left]. rewrite !raw_step. split; [lia|reflexivity]. }
  destruct (n <? 2097152) eqn:E3.
  { cbn [fold_left]. rewrite !raw_step. split; [lia|reflexivity]. }
  destruct (n <? 268435456) eqn:E4.
  { cbn [fold_left]. rewrite !raw_step. split; [lia|reflexivity]. }
  assert (Hd : n = (n / 268435456) * 268435456 + ((n / 2097152) mod 128) * 2097152
                   + ((n / 16384) mod 128) * 16384 + ((n / 128) mod 128) * 128 + n mod 128) by lia.
  assert (Hq : n / 268435456 < 16) by lia.
  assert (H3 : (n / 2097152) mod 128 < 128) by lia.
  assert (H2 : (n / 16384) mod 128 < 128) by lia.
  assert (H1 : (n / 128) mod 128 < 128) by lia.
  assert (H0 : n mod 128 < 128) by lia.
  split.
  - cbn [fold_left]. rewrite !raw_step.
    revert Hd Hq H3 H2 H1 H0.
    generalize (n / 268435456) as q4. generalize ((n / 2097152) mod 128) as s3.
    generalize ((n / 16384) mod 128) as s2. generalize ((n / 128) mod 128) as s1.
    generalize (n mod 128) as s0. intros s0 s1 s2 s3 q4 Hd Hq H3 H2 H1 H0.
    replace ((q4 + 128) mod 128) with q4 by lia. replace ((s3 + 128) mod 128) with s3 by lia.
    replace ((s2 + 128) mod 128) with s2 by lia. replace ((s1 + 128) mod 128) with s1 by lia.
    replace (s0 mod 128) with s0 by lia.
    replace (0 mod 33554432 * 128 + q4) with q4 by lia.
    replace (q4 mod 33554432) with q4 by lia.
    replace ((q4 * 128 + s3) mod 33554432) with (q4 * 128 + s3) by lia.
    replace (((q4 * 128 + s3) * 128 + s2) mod 33554432) with ((q4 * 128 + s3) * 128 + s2) by lia.
    replace ((((q4 * 128 + s3) * 128 + s2) * 128 + s1) mod 33554432)
      with (((q4 * 128 + s3) * 128 + s2) * 128 + s1) by lia.
    lia.
  - cbn [hd len length N.of_nat]. rewrite land_112_low by exact Hq. reflexivity.
Qed.

Definition arcs_ok (a b : N) (rest : list N) : Prop :=
  a <= 2 /\ (a < 2 -> b < 40) /\ 40 * a + b < 4294967296 /\ Forall (fun x => x < 4294967296) rest.

Lemma oid_iter_rest fuel rest : Forall (fun x => x < 4294967296) rest ->
  (length (flat_map sub_identifier rest) < fuel)%nat ->
  res_map (map comp_to_u32) (oid_iter fuel Other (flat_map sub_identifier rest)) = Ok (map Some rest).
Proof.
  revert fuel. induction rest as [|x rest IH]; intros fuel HF Hf.
  - destruct fuel; [lia|]. reflexivity.
  - inversion HF as [|? ? Hx HF']; subst. cbn [flat_map] in *.
    destruct fuel as [|f]; [lia|]. cbn [oid_iter].
    assert (Hne : exists y ys, sub_identifier x ++ flat_map sub_identifier rest = y :: ys).
    { rewrite (sub_identifier_cases x Hx).
      repeat match goal with |- context [if ?c then _ else _] => destruct c end; cbn [app]; eauto. }
    destruct Hne as (y & ys & Hy). rewrite Hy. rewrite <- Hy.
    rewrite split_sub_identifier by exact Hx.
    assert (L1 : (1 <= length (sub_identifier x))%nat).
    { rewrite (sub_identifier_cases x Hx).
      repeat match goal with |- context [if ?c then _ else _] => destruct c end; cbn; lia. }
    rewrite app_length in Hf.
    specialize (IH f HF' ltac:(lia)).
    destruct (oid_iter f Other (flat_map sub_identifier rest)) as [l| | | |]; cbn [res_map] in IH; try discriminate.
    injection IH as IH. cbn [res_map map]. rewrite IH. f_equal. f_equal.
    unfold comp_to_u32. destruct (comp_raw_sub_identifier x Hx) as [-> ->]. reflexivity.
Qed.

(* the component iterator, numeric conversion and display return exactly the
   arcs that were encoded *)
Theorem oid_display_roundtrip a b rest : arcs_ok a b rest ->
  oid_display (oid_enc a b rest) = Ok (Some a :: Some b :: map Some rest).
Proof.
  intros (Ha & Hb & Hab & HF). unfold oid_display, oid_components, oid_enc.
  cbn [flat_map]. set (s0 := sub_identifier (40 * a + b)). set (tl := flat_map sub_identifier rest).
  assert (L1 : (1 <= length s0)%nat).
  { subst s0. rewrite (sub_identifier_cases _ Hab).
    repeat match goal with |- context [if ?c then _ else _] => destruct c end; cbn; lia. }
  assert (Hne : exists y ys, s0 ++ tl = y :: ys).
  { destruct s0 as [|y ys]; [cbn in L1; lia|]. cbn [app]. eauto. }
  destruct Hne as (y & ys & Hy).
  cbn [oid_iter]. rewrite Hy. rewrite <- Hy. subst s0.
  rewrite split_sub_identifier by exact Hab.
  (* second call: same slice, position Second *)
  remember (length (sub_identifier (40 * a + b) ++ tl)) as L eqn:HL.
  pose proof (oid_iter_rest L rest HF) as R. subst tl.
  rewrite app_length in HL. specialize (R ltac:(lia)).
  destruct (oid_iter L Other (flat_map sub_identifier rest)) as [l| | | |]; cbn [res_map] in R; try discriminate.
  injection R as R. cbn [res_map map]. rewrite R. f_equal.
  unfold comp_to_u32. destruct (comp_raw_sub_identifier _ Hab) as [-> ->].
  f_equal; [|f_equal].
  - destruct (40 * a + b <? 40) eqn:E1; [f_equal; lia|].
    destruct (40 * a + b <? 80) eqn:E2; f_equal; lia.
  - destruct (40 * a + b <? 80) eqn:E2; f_equal; lia.
Qed.

(* what FromStr produces is the X.690 encoding of the parsed arcs *)
Lemma parse_digits_bound acc s v : acc < 4294967296 -> parse_digits acc s = Some v -> v < 4294967296.
Proof.
  revert acc. induction s as [|ch r IH]; intros acc Ha; cbn [parse_digits].
  - intros [= <-]. exact Ha.
  - destruct ((48 <=? ch) && (ch <=? 57)); [|discriminate].
    destruct (4294967295 <? acc * 10 + (ch - 48)) eqn:E; [discriminate|]. apply IH. lia.
Qed.
Lemma parse_u32_bound s v : parse_u32 s = Some v -> v < 4294967296.
Proof.
  unfold parse_u32. destruct s as [|c r]; [discriminate|].
  destruct (N.eq_dec c 43) as [->|Hn].
  - destruct r; [discriminate|]. apply parse_digits_bound. lia.
  - intro H. assert (parse_digits 0 (c :: r) = Some v).
    { destruct c as [|p]; [exact H|]. do 6 (destruct p as [p|p|]; try exact H). congruence. }
    eapply parse_digits_bound; [|eassumption]. lia.
Qed.
Lemma parse_all_bound l vs : parse_all l = Some vs -> Forall (fun x => x < 4294967296) vs.
Proof.
  revert vs. induction l as [|x r IH]; intros vs; cbn [parse_all].
  - intros [= <-]. constructor.
  - destruct (parse_u32 x) as [v|] eqn:E; [|discriminate].
    destruct (parse_all r) as [vs'|]; [|discriminate]. intros [= <-].
    constructor; [eapply parse_u32_bound; eassumption|apply IH; reflexivity].
Qed.

Theorem oid_from_str_encodes s c : oid_from_str s = Ok c ->
  exists a b rest f sd tl,
    split_dot [] s = f :: sd :: tl /\ parse_u32 f = Some a /\ parse_u32 sd = Some b /\
    parse_all tl = Some rest /\ arcs_ok a b rest /\ c = oid_enc a b rest.
Proof.
  unfold oid_from_str.
  destruct (split_dot [] s) as [|f [|sd tl]]; try discriminate.
  destruct (parse_u32 f) as [a|] eqn:Pa; [|discriminate].
  destruct (2 <? a) eqn:E1; [discriminate|].
  destruct (parse_u32 sd) as [b|] eqn:Pb; [|discriminate].
  destruct ((a <? 2) && (40 <=? b)) eqn:E2; [discriminate|].
  destruct (4294967295 <? 40 * a + b) eqn:E3; [discriminate|].
  destruct (parse_all tl) as [rest|] eqn:Pr; [|discriminate].
  intros [= <-]. exists a, b, rest, f, sd, tl.
  pose proof (parse_all_bound tl rest Pr) as HF.
  repeat split; try reflexivity; try assumption; try lia.
  unfold oid_enc. cbn [flat_map]. rewrite encode_item_spec by lia. f_equal.
  clear -HF. induction HF as [|x r Hx HF IH]; [reflexivity|].
  cbn [flat_map]. rewrite encode_item_spec by exact Hx. rewrite IH. reflexivity.
Qed.

(* hence displaying a parsed identifier gives back the canonical arcs *)
Corollary oid_parse_display s c : oid_from_str s = Ok c ->
  exists a b rest, c = oid_enc a b rest /\ oid_display c = Ok (Some a :: Some b :: map Some rest).
Proof.
  intro H. destruct (oid_from_str_encodes s c H) as (a & b & rest & _ & _ & _ & _ & _ & _ & _ & Hok & ->).
  exists a, b, rest. split; [reflexivity|]. apply oid_display_roundtrip. exact Hok.
Qed.

(* a minimally encoded sub-identifier of 2^32 or more (up to 2^35) is reported
   as too large, never as a wrong number *)
Theorem comp_too_large n pos : 4294967296 <= n < 34359738368 ->
  comp_to_u32 (pos, [n / 268435456 + 128; (n / 2097152) mod 128 + 128; (n / 16384) mod 128 + 128;
                     (n / 128) mod 128 + 128; n mod 128]) = None.
Proof.
  intro H. unfold comp_to_u32. cbn [len length N.of_nat hd].
  replace (N.land (n / 268435456 + 128) 112 =? 0) with false; [reflexivity|].
  symmetry. apply N.eqb_neq. intro E.
  (* bits 4..6 of the top septet are not all zero since the septet is >= 16 *)
  assert (T : N.testbit (n / 268435456 + 128) 4 || N.testbit (n / 268435456 + 128) 5
              || N.testbit (n / 268435456 + 128) 6 = true).
  { set (x := n / 268435456) in *. assert (16 <= x < 128) by (subst x; lia).
    rewrite !N.testbit_eqb. change (2^4) with 16. change (2^5) with 32. change (2^6) with 64. lia. }
  assert (Z4 : forall k, N.testbit 112 k = true -> N.testbit (n / 268435456 + 128) k = false).
  { intros k Hk. assert (B : N.testbit (N.land (n / 268435456 + 128) 112) k = false) by (rewrite E; apply N.bits_0).
    rewrite N.land_spec, Hk, andb_true_r in B. exact B. }
  rewrite (Z4 4), (Z4 5), (Z4 6) in T by reflexivity. discriminate.
Qed.

(* ---------- what the encoder of arcs writes is an acceptable content ---------- *)
Lemma septets_fuel_suffix f : forall n acc, exists p, septets_fuel f n acc = p ++ acc.
Proof.
  induction f as [|f IH]; intros n acc; cbn [septets_fuel].
  - exists []. reflexivity.
  - destruct (n =? 0).
    + exists []. reflexivity.
    + destruct (IH (n / 128) ((n mod 128 + 128) :: acc)) as [p Hp]. rewrite Hp.
      exists (p ++ [n mod 128 + 128]). rewrite <- app_assoc. reflexivity.
Qed.

Lemma sub_identifier_last n : exists p, sub_identifier n = p ++ [n mod 128].
Proof. unfold sub_identifier. apply septets_fuel_suffix. Qed.

Theorem oid_enc_ok a b rest : oid_ok (oid_enc a b rest) = true.
Proof.
  unfold oid_enc.
  assert (H : forall l : list N, l <> [] -> exists p x, flat_map sub_identifier l = p ++ [x mod 128]).
  { induction l as [|y l IH]; intros Hl; [congruence|].
    cbn [flat_map]. destruct l as [|z l'].
    - cbn [flat_map]. rewrite app_nil_r. destruct (sub_identifier_last y) as [p Hp]. exists p, y. exact Hp.
    - destruct IH as [p [x Hx]]; [discriminate|]. rewrite Hx. exists (sub_identifier y ++ p), x.
      rewrite app_assoc. reflexivity. }
  destruct (H ((40 * a + b) :: rest)) as [p [x Hx]]; [discriminate|].
  rewrite Hx. unfold oid_ok. rewrite rev_app_distr. cbn [rev app].
  apply N.ltb_lt. apply N.mod_lt. discriminate.
Qed.
