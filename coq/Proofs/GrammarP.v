(* The X.690 structure grammar as an inductive relation, and the theorem that
   bcder's generic reader accepts exactly the octet strings of that grammar
   and delivers exactly the encoded tree (property C02, both directions).

   Part 1: header readers under a limit versus on a plain list. *)
From Coq Require Import Lia ZifyBool ZifyN.
Require Import BV.Model.Base BV.Model.SrcB BV.Model.Length BV.Model.Tag BV.Model.Content.
Require Import BV.Proofs.Bits BV.Proofs.SrcBP BV.Proofs.LengthP BV.Proofs.TagP BV.Proofs.ContentP
               BV.Proofs.WinP BV.Proofs.TotalP BV.Proofs.DeltaP.
Arguments N.add : simpl never. Arguments N.sub : simpl never.
Arguments N.ltb : simpl never. Arguments N.leb : simpl never. Arguments N.eqb : simpl never.
Arguments N.min : simpl never.

(* ---- a reader that succeeds on a plain list succeeds identically under any
   limit that covers what it consumed (Pure), and conversely (Unl) ---- *)
Definition Pure {A} (m : M A) : Prop :=
  forall d a s', m (pure_src d None) = (Ok a, s') ->
    exists p d', d = p ++ d' /\ s' = pure_src d' None /\
      forall l, lim_ge l (len p) ->
        m (mkSrc (p ++ d') l None) = (Ok a, mkSrc d' (lim_sub l (len p)) None).

Definition Unl {A} (m : M A) : Prop :=
  forall d l a s', m (mkSrc d l None) = (Ok a, s') ->
    exists p d', d = p ++ d' /\ s' = mkSrc d' (lim_sub l (len p)) None /\ lim_ge l (len p) /\
      m (pure_src d None) = (Ok a, pure_src d' None).

Lemma lim_ge_0 l : lim_ge l 0. Proof. destruct l; cbn; [lia|trivial]. Qed.

Lemma Pure_ret {A} (a : A) : Pure (ret a).
Proof.
  intros d a0 s' [= <- <-]. exists [], d. split; [reflexivity|]. split; [reflexivity|].
  intros l _. cbn. rewrite lim_sub_0. reflexivity.
Qed.
Lemma Pure_cerr {A} : Pure (@cerr A). Proof. intros d a s' H. discriminate. Qed.
Lemma Pure_if {A} (c : bool) (m1 m2 : M A) : Pure m1 -> Pure m2 -> Pure (if c then m1 else m2).
Proof. destruct c; auto. Qed.
Lemma Pure_take_u8 : Pure take_u8.
Proof.
  intros d a s' H. unfold pure_src in H. destruct d as [|b r]; [rewrite (take_u8_nil None) in H; discriminate|].
  rewrite (take_u8_cons b r None I) in H. injection H as <- <-.
  exists [b], r. split; [reflexivity|]. split; [reflexivity|].
  intros l Hl. apply take_u8_cons. exact Hl.
Qed.
Lemma Pure_take_opt_u8 : Pure take_opt_u8.
Proof.
  intros d a s' H. destruct d as [|b r].
  - unfold pure_src in H. rewrite (take_opt_u8_nil None) in H. injection H as <- <-.
    exists [], []. split; [reflexivity|]. split; [reflexivity|]. intros l _. cbn [app len length N.of_nat].
    rewrite lim_sub_0. apply take_opt_u8_nil.
  - unfold pure_src in H. rewrite (take_opt_u8_cons b r None I) in H. injection H as <- <-.
    exists [b], r. split; [reflexivity|]. split; [reflexivity|].
    intros l Hl. apply take_opt_u8_cons. exact Hl.
Qed.
Lemma Pure_bind {A B} (m : M A) (f : A -> M B) : Pure m -> (forall a, Pure (f a)) -> Pure (bind m f).
Proof.
  intros Hm Hf d b s' H. apply bind_ok_inv in H as (a & s1 & H1 & H2).
  destruct (Hm d a s1 H1) as (p1 & d1 & -> & -> & K1).
  destruct (Hf a d1 b s' H2) as (p2 & d2 & -> & -> & K2).
  exists (p1 ++ p2), d2. split; [rewrite app_assoc; reflexivity|]. split; [reflexivity|].
  intros l Hl. rewrite len_app in Hl. rewrite <- app_assoc.
  rewrite (bind_ok _ _ _ _ _ (K1 l ltac:(eapply lim_ge_mono; [|exact Hl]; lia))).
  rewrite (K2 (lim_sub l (len p1)) ltac:(apply lim_ge_sub; exact Hl)).
  rewrite lim_sub_sub, len_app. reflexivity.
Qed.

Lemma Unl_ret {A} (a : A) : Unl (ret a).
Proof.
  intros d l a0 s' [= <- <-]. exists [], d. split; [reflexivity|]. rewrite lim_sub_0.
  split; [reflexivity|]. split; [apply lim_ge_0|reflexivity].
Qed.
Lemma Unl_cerr {A} : Unl (@cerr A). Proof. intros d l a s' H. discriminate. Qed.
Lemma Unl_if {A} (c : bool) (m1 m2 : M A) : Unl m1 -> Unl m2 -> Unl (if c then m1 else m2).
Proof. destruct c; auto. Qed.
Lemma Unl_take_u8 : Unl take_u8.
Proof.
  intros d l a s' H. unfold take_u8, bind, tick in H. cbn [flt rem lim] in H.
  destruct l as [[|p]|], d as [|b r]; cbn in H; try discriminate; injection H as <- <-;
    exists [b], r; (split; [reflexivity|]); (split; [reflexivity|]); (split; [cbn; try lia; trivial|]);
    apply (take_u8_cons b r None I).
Qed.
Lemma Unl_bind {A B} (m : M A) (f : A -> M B) : Unl m -> (forall a, Unl (f a)) -> Unl (bind m f).
Proof.
  intros Hm Hf d l b s' H. apply bind_ok_inv in H as (a & s1 & H1 & H2).
  destruct (Hm d l a s1 H1) as (p1 & d1 & -> & -> & L1 & K1).
  destruct (Hf a d1 _ b s' H2) as (p2 & d2 & -> & -> & L2 & K2).
  exists (p1 ++ p2), d2. split; [rewrite app_assoc; reflexivity|].
  rewrite lim_sub_sub, len_app. split; [reflexivity|]. split.
  - destruct l as [x|]; cbn [lim_ge lim_sub] in *; [lia|trivial].
  - unfold pure_src in *. rewrite (bind_ok _ _ _ _ _ K1). exact K2.
Qed.

Ltac pure_auto :=
  repeat first
    [ apply Pure_cerr | apply Pure_ret | apply Pure_if
    | apply Pure_bind; [apply Pure_take_u8|intros ?]
    | apply Pure_bind; [apply Pure_take_opt_u8|intros ?] ].
Ltac unl_auto :=
  repeat first
    [ apply Unl_cerr | apply Unl_ret | apply Unl_if
    | apply Unl_bind; [apply Unl_take_u8|intros ?] ].

Lemma Pure_length m : Pure (length_take_from m).
Proof. unfold length_take_from. pure_auto. Qed.
Lemma Unl_length m : Unl (length_take_from m).
Proof. unfold length_take_from. unl_auto. Qed.
Lemma Pure_tag : Pure tag_take_from.
Proof.
  unfold tag_take_from, tag_take_opt_from. apply Pure_bind.
  - apply Pure_bind; [apply Pure_take_opt_u8|]. intros [b|]; pure_auto.
  - intros [r|]; pure_auto.
Qed.

(* take_from = take_u8 then the rest (an absent first octet is an error either way) *)
Definition tag_rest (b : N) : M (tag * bool) :=
  let d0 := clear_cons b in let c := is_cons b in
  if N.land d0 31 =? 31 then
    d1 <- take_u8 ;;
    if (d1 =? 128) || (d1 <=? 30) then cerr else
    if N.land d1 128 =? 0 then ret ((d0,d1,0,0), c) else
    d2 <- take_u8 ;;
    if N.land d2 128 =? 0 then ret ((d0,d1,d2,0), c) else
    d3 <- take_u8 ;;
    if N.land d3 128 =? 0 then ret ((d0,d1,d2,d3), c) else cerr
  else ret ((d0,0,0,0), c).
Lemma take_opt_some s b s1 : take_opt_u8 s = (Ok (Some b), s1) -> take_u8 s = (Ok b, s1).
Proof.
  unfold take_opt_u8, take_u8, bind. destruct (tick s) as [[[]| | | |] s0]; try discriminate.
  destruct (lim s0) as [[|p]|], (rem s0); try discriminate; intros [= <- <-]; reflexivity.
Qed.
Lemma tag_take_from_alt s a s' :
  tag_take_from s = (Ok a, s') -> (b <- take_u8 ;; tag_rest b) s = (Ok a, s').
Proof.
  intro H. unfold tag_take_from in H. apply bind_ok_inv in H as (o & s1 & H1 & H2).
  destruct o as [r|]; [|discriminate]. injection H2 as -> ->.
  unfold tag_take_opt_from in H1. apply bind_ok_inv in H1 as (ob & s0 & H0 & H1).
  destruct ob as [b|]; [|discriminate].
  rewrite (bind_ok _ _ _ _ _ (take_opt_some _ _ _ H0)).
  unfold tag_rest. cbv zeta in H1 |- *.
  destruct (N.land (clear_cons b) 31 =? 31); [|injection H1 as <- <-; reflexivity].
  unfold bind in H1 |- *. destruct (take_u8 s0) as [[d1| | | |] t1]; try discriminate.
  destruct ((d1 =? 128) || (d1 <=? 30)); [discriminate|].
  destruct (N.land d1 128 =? 0); [injection H1 as <- <-; reflexivity|].
  destruct (take_u8 t1) as [[d2| | | |] t2]; try discriminate.
  destruct (N.land d2 128 =? 0); [injection H1 as <- <-; reflexivity|].
  destruct (take_u8 t2) as [[d3| | | |] t3]; try discriminate.
  destruct (N.land d3 128 =? 0); [injection H1 as <- <-; reflexivity|discriminate].
Qed.
Lemma Unl_tag_alt : Unl (b <- take_u8 ;; tag_rest b).
Proof. apply Unl_bind; [apply Unl_take_u8|]. intro b. unfold tag_rest. unl_auto. Qed.

Lemma take_some_opt s b s1 : take_u8 s = (Ok b, s1) -> take_opt_u8 s = (Ok (Some b), s1).
Proof.
  unfold take_opt_u8, take_u8, bind. destruct (tick s) as [[[]| | | |] s0]; try discriminate.
  destruct (lim s0) as [[|p]|], (rem s0); try discriminate; intros [= <- <-]; reflexivity.
Qed.
Lemma tag_take_from_alt_rev s a s' :
  (b <- take_u8 ;; tag_rest b) s = (Ok a, s') -> tag_take_from s = (Ok a, s').
Proof.
  intro H. apply bind_ok_inv in H as (b & s0 & H0 & H1).
  unfold tag_take_from, tag_take_opt_from.
  unfold bind at 1. unfold bind at 1. rewrite (take_some_opt _ _ _ H0).
  unfold tag_rest in H1. cbv zeta in H1 |- *.
  destruct (N.land (clear_cons b) 31 =? 31); [|injection H1 as <- <-; reflexivity].
  unfold bind in H1 |- *. destruct (take_u8 s0) as [[d1| | | |] t1]; try discriminate.
  destruct ((d1 =? 128) || (d1 <=? 30)); [discriminate|].
  destruct (N.land d1 128 =? 0); [injection H1 as <- <-; reflexivity|].
  destruct (take_u8 t1) as [[d2| | | |] t2]; try discriminate.
  destruct (N.land d2 128 =? 0); [injection H1 as <- <-; reflexivity|].
  destruct (take_u8 t2) as [[d3| | | |] t3]; try discriminate.
  destruct (N.land d3 128 =? 0); [injection H1 as <- <-; reflexivity|discriminate].
Qed.

(* ---- the two header readers at any limit, in terms of plain lists ---- *)
Definition legal_tag (t : tag) : Prop :=
  is_class (tag_class t) /\ tag_new (tag_class t) (tag_number t) = Ok t.

Lemma octets_ok_app_l a b : octets_ok (a ++ b) = true -> octets_ok a = true.
Proof. rewrite octets_ok_app. intro H. apply andb_prop in H. tauto. Qed.
Lemma octets_ok_app_r a b : octets_ok (a ++ b) = true -> octets_ok b = true.
Proof. rewrite octets_ok_app. intro H. apply andb_prop in H. tauto. Qed.

Theorem tag_at_limit_inv d l t c s' : octets_ok d = true ->
  tag_take_from (mkSrc d l None) = (Ok (t, c), s') ->
  exists r, d = tag_write c t ++ r /\ legal_tag t /\
            s' = mkSrc r (lim_sub l (len (tag_write c t))) None /\ lim_ge l (len (tag_write c t)).
Proof.
  intros Hok H. apply tag_take_from_alt in H.
  destruct (Unl_tag_alt d l (t, c) s' H) as (p & d' & -> & -> & Hl & Hp).
  apply tag_take_from_alt_rev in Hp.
  destruct (tag_decoder_canonical _ t c _ Hok Hp) as (Hc & _ & Hn & Hd & _). cbn [rem pure_src] in Hd.
  apply app_inv_tail in Hd. subst p. exists d'. repeat split; assumption.
Qed.

Theorem tag_at_limit t k r l : legal_tag t -> lim_ge l (len (tag_write k t)) ->
  tag_take_from (mkSrc (tag_write k t ++ r) l None)
  = (Ok (t, k), mkSrc r (lim_sub l (len (tag_write k t))) None).
Proof. intros [Hc Hn] Hl. apply (tag_read_back _ _ t k r l Hc Hn Hl). Qed.

Theorem length_at_limit_inv m d l v s' : octets_ok d = true ->
  length_take_from m (mkSrc d l None) = (Ok v, s') ->
  exists p r, d = p ++ r /\ length_read_spec m d = Ok (v, r) /\
              s' = mkSrc r (lim_sub l (len p)) None /\ lim_ge l (len p).
Proof.
  intros Hok H. destruct (Unl_length m d l v s' H) as (p & d' & -> & -> & Hl & Hp).
  destruct (length_read_spec_correct m _ Hok) as [H1 H2].
  rewrite Hp in H1. cbn [fst] in H1.
  destruct (length_read_spec m (p ++ d')) as [[v0 r0]| | | |] eqn:E; try discriminate.
  cbn in H1. injection H1 as <-. specialize (H2 v r0 eq_refl). rewrite Hp in H2.
  injection H2 as <-. exists p, d'. repeat split; assumption.
Qed.

Theorem length_at_limit m lw r l v : octets_ok (lw ++ r) = true ->
  length_read_spec m (lw ++ r) = Ok (v, r) -> lim_ge l (len lw) ->
  length_take_from m (mkSrc (lw ++ r) l None) = (Ok v, mkSrc r (lim_sub l (len lw)) None).
Proof.
  intros Hok Hs Hl. destruct (length_read_spec_correct m _ Hok) as [_ H2]. specialize (H2 v r Hs).
  destruct (Pure_length m _ _ _ H2) as (p & d' & Hd & Hs' & K).
  injection Hs' as <-. apply app_inv_tail in Hd. subst p. apply K, Hl.
Qed.

(* ====================================================================== *)
(* Part 2: the grammar                                                     *)
(* ====================================================================== *)
(* length octets lw denote the definite length n in mode m (C13: at most four
   length octets; in CER/DER only the shortest form) *)
Definition lenoct (m : mode) (n : N) (lw : list N) : Prop :=
  forall r, length_read_spec m (lw ++ r) = Ok (Definite_ n, r).

Inductive enc (m : mode) : tlv -> list N -> Prop :=
| E_prim t c lw :
    legal_tag t -> tag_eqb t END_OF_VALUE = false -> lenoct m (len c) lw ->
    enc m (TPrim t c) (tag_write false t ++ lw ++ c)
| E_def t kids lw body :
    legal_tag t -> tag_eqb t END_OF_VALUE = false -> m <> Cer ->
    lenoct m (len body) lw -> encs m kids body ->
    enc m (TCons t kids) (tag_write true t ++ lw ++ body)
| E_indef t kids body lw0 :
    legal_tag t -> tag_eqb t END_OF_VALUE = false -> m <> Der ->
    encs m kids body -> lenoct m 0 lw0 ->
    enc m (TCons t kids) (tag_write true t ++ [128] ++ body ++ 0 :: lw0)
with encs (m : mode) : list tlv -> list N -> Prop :=
| Es_nil : encs m [] []
| Es_cons t ts d ds : enc m t d -> encs m ts ds -> encs m (t :: ts) (d ++ ds).

Scheme enc_ind2 := Induction for enc Sort Prop
  with encs_ind2 := Induction for encs Sort Prop.
Combined Scheme enc_encs_ind from enc_ind2, encs_ind2.

Fixpoint size (t : tlv) : nat :=
  match t with
  | TPrim _ _ => 1%nat
  | TCons _ kids => S ((fix sizes (l : list tlv) : nat :=
                          match l with [] => 1%nat | x :: r => (size x + sizes r)%nat end) kids)
  end.
Fixpoint sizes (l : list tlv) : nat :=
  match l with [] => 1%nat | x :: r => (size x + sizes r)%nat end.
Lemma size_cons t kids : size (TCons t kids) = S (sizes kids).
Proof. reflexivity. Qed.
Lemma size_pos t : (1 <= size t)%nat. Proof. destruct t; [cbn; lia|rewrite size_cons; lia]. Qed.
Lemma sizes_pos l : (1 <= sizes l)%nat. Proof. destruct l; cbn [sizes]; [lia|]. pose proof (size_pos t). lia. Qed.

(* the closure of the generic reader *)
Definition rd (f : nat) : tag -> content -> M (tlv * content) := fun t ct =>
  match ct with
  | CPrim m => b <- take_all_lim ;; ret (TPrim t b, CPrim m)
  | CCons c' => kc <- read_all f c' ;; let '(kids, c'') := kc in ret (TCons t kids, CCons c'')
  end.
Lemma read_all_S f c : read_all (S f) c =
  (r <- process_next_value c None (rd f) ;; let '(o, c') := r in
   match o with None => ret ([], c')
              | Some v => rc <- read_all f c' ;; let '(vs, c'') := rc in ret (v :: vs, c'') end).
Proof. reflexivity. Qed.

(* what process_next_value does once the header has been read *)
Definition pnv_tail {T} (c : cons) (op : tag -> content -> M (T * content)) (t : tag) (k : bool) (l : length_)
  : M (option T * cons) :=
  if tag_eqb t END_OF_VALUE then
    match cst c with
    | Indefinite => if k then cerr else if negb (length_is_zero l) then cerr else ret (None, with_state c Done)
    | _ => cerr
    end
  else
    match l with
    | Definite_ n =>
        old <- get_lim ;;
        (match old with Some li => if li <? n then cerr else ret tt | None => ret tt end) ;;;
        set_limit (Some n) ;;;
        (if k && mode_eqb (cmd c) Cer then cerr else ret tt) ;;;
        let ct := if k then CCons (mkCons Definite (cmd c)) else CPrim (cmd c) in
        rc <- op t ct ;; let '(r, ct') := rc in
        content_exhausted ct' ;;; set_limit (lim_sub old n) ;;; ret (Some r, c)
    | Indefinite_ =>
        if negb k || mode_eqb (cmd c) Der then cerr else
        rc <- op t (CCons (mkCons Indefinite (cmd c))) ;; let '(r, ct') := rc in
        content_exhausted ct' ;;; ret (Some r, c)
    end.

(* a value may start here: not Done, and a definite parent has room left *)
Definition may_start (c : cons) (l : option N) : Prop :=
  match cst c with
  | Done => False
  | Definite => exists x, l = Some x /\ x <> 0
  | _ => True
  end.

Lemma pnv_header {T} (c : cons) (op : tag -> content -> M (T * content)) t k lw v rest l :
  legal_tag t -> octets_ok (tag_write k t ++ lw ++ rest) = true ->
  length_read_spec (cmd c) (lw ++ rest) = Ok (v, rest) ->
  lim_ge l (len (tag_write k t) + len lw) -> may_start c l ->
  process_next_value c None op (mkSrc (tag_write k t ++ lw ++ rest) l None)
  = pnv_tail c op t k v (mkSrc rest (lim_sub l (len (tag_write k t) + len lw)) None).
Proof.
  intros Ht Hok Hs Hl Hst. unfold process_next_value.
  assert (Hex : is_exhausted c (mkSrc (tag_write k t ++ lw ++ rest) l None)
                = (Ok false, mkSrc (tag_write k t ++ lw ++ rest) l None)).
  { apply is_exhausted_open. unfold cons_open, may_start in *. destruct (cst c); auto. }
  rewrite (bind_ok _ _ _ _ _ Hex). cbv iota.
  assert (Hl1 : lim_ge l (len (tag_write k t))) by (eapply lim_ge_mono; [|exact Hl]; lia).
  assert (Hhdr : (if cstate_eqb (cst c) Unbounded then tag_take_opt_from
                  else r <- tag_take_from ;; ret (Some r))
                   (mkSrc (tag_write k t ++ lw ++ rest) l None)
                 = (Ok (Some (t, k)), mkSrc (lw ++ rest) (lim_sub l (len (tag_write k t))) None)).
  { destruct Ht as [Hc Hn]. destruct (cstate_eqb (cst c) Unbounded).
    - apply (tag_take_opt_from_write _ _ t k (lw ++ rest) l Hc Hn Hl1).
    - unfold bind. rewrite (tag_read_back _ _ t k (lw ++ rest) l Hc Hn Hl1). reflexivity. }
  rewrite (bind_ok _ _ _ _ _ Hhdr). cbv iota beta.
  assert (Hlen : length_take_from (cmd c) (mkSrc (lw ++ rest) (lim_sub l (len (tag_write k t))) None)
                 = (Ok v, mkSrc rest (lim_sub l (len (tag_write k t) + len lw)) None)).
  { rewrite (length_at_limit (cmd c) lw rest _ v (octets_ok_app_r _ _ Hok) Hs (lim_ge_sub _ _ _ Hl)).
    rewrite lim_sub_sub. reflexivity. }
  rewrite (bind_ok _ _ _ _ _ Hlen). reflexivity.
Qed.

(* ====================================================================== *)
(* Part 3: completeness - every string of the grammar is accepted and       *)
(* yields exactly the encoded tree, consuming exactly its octets            *)
(* ====================================================================== *)
Lemma take_all_window c rest :
  take_all_lim (mkSrc (c ++ rest) (Some (len c)) None) = (Ok c, mkSrc rest (Some 0) None).
Proof.
  unfold take_all_lim. cbn [lim].
  rewrite (bind_ok _ _ _ _ _ (need_ok (len c) (c ++ rest) (Some (len c)) ltac:(rewrite len_app; lia) ltac:(cbn; lia))).
  unfold bind at 1. unfold get. cbv beta iota.
  rewrite (bind_ok _ _ _ _ _ (advance_ok (len c) (c ++ rest) (Some (len c)) ltac:(rewrite len_app; lia) ltac:(cbn; lia))).
  unfold ret. cbn [rem lim_sub]. rewrite skipN_app_exact, firstN_app_exact. repeat f_equal. lia.
Qed.

Lemma tag_write_len_pos k t : 1 <= len (tag_write k t).
Proof.
  destruct t as [[[a b] c] d]. unfold tag_write, tag_encoded_len.
  destruct (negb (N.land 31 a =? 31)); [destruct k; vm_compute; discriminate|].
  destruct (N.land 128 b =? 0); [destruct k; vm_compute; discriminate|].
  destruct (N.land 128 c =? 0); destruct k; vm_compute; discriminate.
Qed.
Lemma enc_len_pos m t d : enc m t d -> 1 <= len d.
Proof. intro H. destruct H; rewrite len_app; pose proof (tag_write_len_pos false t); pose proof (tag_write_len_pos true t); lia. Qed.

Lemma legal_eov : legal_tag END_OF_VALUE. Proof. split; [left; reflexivity|reflexivity]. Qed.

Lemma lenoct_indef m r : length_read_spec m (128 :: r) = Ok (Indefinite_, r).
Proof. reflexivity. Qed.

Definition Cv (m : mode) (t : tlv) (d : list N) : Prop :=
  forall fuel c rest l, (size t <= fuel)%nat -> cmd c = m -> octets_ok (d ++ rest) = true ->
    lim_ge l (len d) -> may_start c l ->
    process_next_value c None (rd fuel) (mkSrc (d ++ rest) l None)
    = (Ok (Some t, c), mkSrc rest (lim_sub l (len d)) None).

Definition Cs (m : mode) (ts : list tlv) (ds : list N) : Prop :=
  (forall fuel rest, (sizes ts <= fuel)%nat -> octets_ok (ds ++ rest) = true ->
     read_all fuel (mkCons Definite m) (mkSrc (ds ++ rest) (Some (len ds)) None)
     = (Ok (ts, mkCons Definite m), mkSrc rest (Some 0) None)) /\
  (forall fuel lw0 rest l, (sizes ts <= fuel)%nat -> octets_ok (ds ++ 0 :: lw0 ++ rest) = true ->
     lenoct m 0 lw0 -> lim_ge l (len ds + 1 + len lw0) ->
     read_all fuel (mkCons Indefinite m) (mkSrc (ds ++ 0 :: lw0 ++ rest) l None)
     = (Ok (ts, mkCons Done m), mkSrc rest (lim_sub l (len ds + 1 + len lw0)) None)) /\
  (forall fuel, (sizes ts <= fuel)%nat -> octets_ok ds = true ->
     read_all fuel (mkCons Unbounded m) (mkSrc ds None None)
     = (Ok (ts, mkCons Unbounded m), mkSrc [] None None)).

Lemma Cs_nil m : Cs m [] [].
Proof.
  split; [|split].
  - intros fuel rest Hf _. destruct fuel as [|f]; [cbn in Hf; lia|]. rewrite read_all_S. cbn [app len length N.of_nat].
    unfold process_next_value, bind at 1 2. unfold is_exhausted. cbn [cst]. unfold bind, get_lim, ret. cbn. reflexivity.
  - intros fuel lw0 rest l Hf Hok Hlw Hl. destruct fuel as [|f]; [cbn in Hf; lia|]. rewrite read_all_S. cbn [app].
    change (0 :: lw0 ++ rest) with (tag_write false END_OF_VALUE ++ lw0 ++ rest).
    assert (Htw : len (tag_write false END_OF_VALUE) = 1) by reflexivity.
    assert (Hl' : lim_ge l (len (tag_write false END_OF_VALUE) + len lw0)).
    { eapply lim_ge_mono; [|exact Hl]. rewrite Htw. change (len (@nil N)) with 0. lia. }
    rewrite (bind_ok _ _ _ _ _ (pnv_header (mkCons Indefinite m) (rd f) END_OF_VALUE false lw0 (Definite_ 0) rest l
                                  legal_eov Hok (Hlw rest) Hl' I)).
    unfold pnv_tail. cbn [tag_eqb END_OF_VALUE cst N.eqb andb length_is_zero negb]. 
    change (tag_eqb END_OF_VALUE END_OF_VALUE) with true. cbv iota. unfold ret, with_state. cbn [cmd cst].
    rewrite Htw. change (len (@nil N)) with 0. replace (0 + 1 + len lw0) with (1 + len lw0) by lia. reflexivity.
  - intros fuel Hf _. destruct fuel as [|f]; [cbn in Hf; lia|]. rewrite read_all_S.
    unfold process_next_value. cbn. reflexivity.
Qed.

Lemma Cs_cons m t ts d ds : 1 <= len d -> Cv m t d -> Cs m ts ds -> Cs m (t :: ts) (d ++ ds).
Proof.
  intros Hpos Hv (HD & HI & HT). split; [|split].
  - intros fuel rest Hf Hok. destruct fuel as [|f]; [cbn [sizes] in Hf; pose proof (size_pos t); pose proof (sizes_pos ts); lia|].
    cbn [sizes] in Hf. pose proof (size_pos t). pose proof (sizes_pos ts).
    rewrite read_all_S. rewrite <- app_assoc.
    rewrite (bind_ok _ _ _ _ _ (Hv f (mkCons Definite m) (ds ++ rest) (Some (len (d ++ ds))) ltac:(lia) eq_refl
              ltac:(rewrite app_assoc; exact Hok) ltac:(cbn; rewrite len_app; lia)
              ltac:(cbn; exists (len (d ++ ds)); split; [reflexivity|rewrite len_app; lia]))).
    cbv iota beta. cbn [lim_sub]. replace (len (d ++ ds) - len d) with (len ds) by (rewrite len_app; lia).
    rewrite (bind_ok _ _ _ _ _ (HD f rest ltac:(lia) ltac:(rewrite <- app_assoc in Hok; apply octets_ok_app_r in Hok; exact Hok))).
    reflexivity.
  - intros fuel lw0 rest l Hf Hok Hlw Hl. destruct fuel as [|f]; [cbn [sizes] in Hf; pose proof (size_pos t); pose proof (sizes_pos ts); lia|].
    cbn [sizes] in Hf. pose proof (size_pos t). pose proof (sizes_pos ts).
    rewrite read_all_S. rewrite <- app_assoc.
    rewrite (bind_ok _ _ _ _ _ (Hv f (mkCons Indefinite m) (ds ++ 0 :: lw0 ++ rest) l ltac:(lia) eq_refl
              ltac:(rewrite app_assoc; exact Hok) ltac:(eapply lim_ge_mono; [|exact Hl]; rewrite len_app; lia) I)).
    cbv iota beta.
    rewrite (bind_ok _ _ _ _ _ (HI f lw0 rest (lim_sub l (len d)) ltac:(lia)
              ltac:(rewrite <- app_assoc in Hok; apply octets_ok_app_r in Hok; exact Hok) Hlw
              ltac:(apply lim_ge_sub; eapply lim_ge_mono; [|exact Hl]; rewrite len_app; lia))).
    rewrite lim_sub_sub. rewrite len_app. replace (len d + (len ds + 1 + len lw0)) with (len d + len ds + 1 + len lw0) by lia.
    reflexivity.
  - intros fuel Hf Hok. destruct fuel as [|f]; [cbn [sizes] in Hf; pose proof (size_pos t); pose proof (sizes_pos ts); lia|].
    cbn [sizes] in Hf. pose proof (size_pos t). pose proof (sizes_pos ts).
    rewrite read_all_S.
    rewrite (bind_ok _ _ _ _ _ (Hv f (mkCons Unbounded m) ds None ltac:(lia) eq_refl Hok I I)).
    cbv iota beta. cbn [lim_sub].
    rewrite (bind_ok _ _ _ _ _ (HT f ltac:(lia) (octets_ok_app_r _ _ Hok))). reflexivity.
Qed.

Lemma lim_check l1 n : lim_ge l1 n ->
  forall s, (match l1 with Some li => if li <? n then cerr else ret tt | None => ret tt end) s = (Ok tt, s).
Proof. intros H s. destruct l1 as [x|]; cbn [lim_ge] in H; [|reflexivity]. replace (x <? n) with false by lia. reflexivity. Qed.

Lemma src_exhausted_0 r : src_exhausted (mkSrc r (Some 0) None) = (Ok tt, mkSrc r (Some 0) None).
Proof. reflexivity. Qed.

Lemma Cv_prim m t c lw : legal_tag t -> tag_eqb t END_OF_VALUE = false -> lenoct m (len c) lw ->
  Cv m (TPrim t c) (tag_write false t ++ lw ++ c).
Proof.
  intros Ht He Hlw fuel cc rest l Hf Hm Hok Hl Hst. subst m.
  rewrite <- !app_assoc in *. rewrite !len_app in Hl.
  assert (Hl' : lim_ge l (len (tag_write false t) + len lw)) by (eapply lim_ge_mono; [|exact Hl]; lia).
  rewrite (pnv_header cc (rd fuel) t false lw (Definite_ (len c)) (c ++ rest) l Ht Hok (Hlw (c ++ rest)) Hl' Hst).
  unfold pnv_tail. rewrite He.
  set (l1 := lim_sub l (len (tag_write false t) + len lw)).
  assert (Hl1 : lim_ge l1 (len c)).
  { subst l1. destruct l as [x|]; cbn [lim_ge lim_sub] in *; [lia|trivial]. }
  unfold bind at 1. unfold get_lim at 1. cbn [lim]. cbv beta iota.
  unfold bind at 1. rewrite (lim_check l1 (len c) Hl1). cbv beta iota.
  unfold bind at 1. unfold set_limit at 1. cbn [rem flt]. cbv beta iota.
  cbn [andb]. unfold bind at 1. unfold ret at 1. cbv beta iota.
  unfold rd. unfold bind at 1. unfold bind at 1. rewrite take_all_window. cbv beta iota. unfold ret at 1. cbv beta iota.
  cbn [content_exhausted]. unfold bind at 1. rewrite src_exhausted_0. cbv beta iota.
  unfold bind, set_limit, ret. cbn [rem flt]. subst l1. rewrite lim_sub_sub. rewrite !len_app.
  replace (len (tag_write false t) + len lw + len c) with (len (tag_write false t) + (len lw + len c)) by lia.
  reflexivity.
Qed.

Lemma Cv_def m t kids lw body : legal_tag t -> tag_eqb t END_OF_VALUE = false -> m <> Cer ->
  lenoct m (len body) lw -> Cs m kids body ->
  Cv m (TCons t kids) (tag_write true t ++ lw ++ body).
Proof.
  intros Ht He Hcer Hlw (HD & _ & _) fuel cc rest l Hf Hm Hok Hl Hst. subst m.
  rewrite size_cons in Hf.
  rewrite <- !app_assoc in *. rewrite !len_app in Hl.
  assert (Hl' : lim_ge l (len (tag_write true t) + len lw)) by (eapply lim_ge_mono; [|exact Hl]; lia).
  rewrite (pnv_header cc (rd fuel) t true lw (Definite_ (len body)) (body ++ rest) l Ht Hok (Hlw (body ++ rest)) Hl' Hst).
  unfold pnv_tail. rewrite He.
  set (l1 := lim_sub l (len (tag_write true t) + len lw)).
  assert (Hl1 : lim_ge l1 (len body)).
  { subst l1. destruct l as [x|]; cbn [lim_ge lim_sub] in *; [lia|trivial]. }
  unfold bind at 1. unfold get_lim at 1. cbn [lim]. cbv beta iota.
  unfold bind at 1. rewrite (lim_check l1 (len body) Hl1). cbv beta iota.
  unfold bind at 1. unfold set_limit at 1. cbn [rem flt]. cbv beta iota.
  replace (mode_eqb (cmd cc) Cer) with false by (destruct (cmd cc); try reflexivity; congruence).
  cbn [andb]. unfold bind at 1. unfold ret at 1. cbv beta iota.
  unfold rd. unfold bind at 1. unfold bind at 1.
  rewrite (HD fuel rest ltac:(lia) ltac:(apply octets_ok_app_r in Hok; apply octets_ok_app_r in Hok; exact Hok)).
  cbv beta iota. unfold ret at 1. cbv beta iota.
  cbn [content_exhausted cons_exhausted cst]. unfold bind at 1. rewrite src_exhausted_0. cbv beta iota.
  unfold bind, set_limit, ret. cbn [rem flt]. subst l1. rewrite lim_sub_sub. rewrite !len_app.
  replace (len (tag_write true t) + len lw + len body) with (len (tag_write true t) + (len lw + len body)) by lia.
  reflexivity.
Qed.

Lemma Cv_indef m t kids body lw0 : legal_tag t -> tag_eqb t END_OF_VALUE = false -> m <> Der ->
  Cs m kids body -> lenoct m 0 lw0 ->
  Cv m (TCons t kids) (tag_write true t ++ [128] ++ body ++ 0 :: lw0).
Proof.
  intros Ht He Hder (_ & HI & _) Hlw0 fuel cc rest l Hf Hm Hok Hl Hst. subst m.
  rewrite size_cons in Hf.
  rewrite <- !app_assoc in *. rewrite !len_app in Hl. cbn [app] in *.
  change (128 :: body ++ 0 :: lw0 ++ rest) with ([128] ++ (body ++ 0 :: lw0 ++ rest)) in *.
  assert (H128 : len [128] = 1) by reflexivity.
  assert (Hl2 : lim_ge l (len (tag_write true t) + 1 + (len body + 1 + len lw0))).
  { eapply lim_ge_mono; [|exact Hl]. rewrite ?H128, ?len_cons. lia. }
  assert (Hl' : lim_ge l (len (tag_write true t) + len [128])) by (eapply lim_ge_mono; [|exact Hl2]; rewrite H128; lia).
  rewrite (pnv_header cc (rd fuel) t true [128] Indefinite_ (body ++ 0 :: lw0 ++ rest) l Ht Hok (lenoct_indef _ _) Hl' Hst).
  unfold pnv_tail. rewrite He.
  replace (mode_eqb (cmd cc) Der) with false by (destruct (cmd cc); try reflexivity; congruence).
  cbn [negb orb]. unfold rd. unfold bind at 1. unfold bind at 1.
  rewrite (HI fuel lw0 rest (lim_sub l (len (tag_write true t) + len [128])) ltac:(lia)
             ltac:(apply octets_ok_app_r in Hok; apply octets_ok_app_r in Hok; exact Hok) Hlw0
             ltac:(apply lim_ge_sub; eapply lim_ge_mono; [|exact Hl2]; rewrite H128; lia)).
  cbv beta iota. unfold ret at 1. cbv beta iota.
  cbn [content_exhausted cons_exhausted cst]. unfold bind, ret. rewrite lim_sub_sub.
  rewrite H128, len_app, len_cons, len_app, len_cons.
  replace (len (tag_write true t) + (1 + (len body + (1 + len lw0)))) with (len (tag_write true t) + 1 + (len body + 1 + len lw0)) by lia.
  reflexivity.
Qed.

Theorem grammar_complete m :
  (forall t d, enc m t d -> Cv m t d) /\ (forall ts ds, encs m ts ds -> Cs m ts ds).
Proof.
  apply enc_encs_ind.
  - intros t c lw Ht He Hlw. apply Cv_prim; assumption.
  - intros t kids lw body Ht He Hc Hlw Hk IH. apply Cv_def; assumption.
  - intros t kids body lw0 Ht He Hd Hk IH Hlw0. apply Cv_indef; assumption.
  - apply Cs_nil.
  - intros t ts d ds He IHv Hs IHs. apply Cs_cons; [eapply enc_len_pos; eauto|assumption|assumption].
Qed.

(* in the words of the property: a whole input that is a sequence of
   well-formed encodings is accepted, the tree delivered is the encoded one,
   and the source is at the end *)
Theorem wellformed_is_accepted m ts d fuel : encs m ts d -> octets_ok d = true -> (sizes ts <= fuel)%nat ->
  decode_src m (read_all fuel) (pure_src d None) = (Ok ts, pure_src [] None).
Proof.
  intros He Hok Hf. destruct (proj2 (grammar_complete m) ts d He) as (_ & _ & HT).
  unfold decode_src, pure_src. rewrite (bind_ok _ _ _ _ _ (HT fuel Hf Hok)). reflexivity.
Qed.

(* an explicit mode switch between values: the first value is read under the rules of mode m, then the
   caller switches the decoder to mode m' (Constructed::set_mode) and the rest of the input is read under
   the rules of m' - each part obeys the grammar of the mode in force when it is read *)
Theorem mode_switch_accepted m m' t d ts ds fuel : enc m t d -> encs m' ts ds ->
  octets_ok (d ++ ds) = true -> (size t <= fuel)%nat -> (sizes ts <= fuel)%nat ->
  decode_src m (fun c =>
      x <- mandatory (process_next_value c None (rd fuel)) ;; let '(v, c1) := x in
      y <- read_all fuel (mkCons (cst c1) m') ;; let '(vs, c2) := y in ret (v :: vs, c2))
    (pure_src (d ++ ds) None)
  = (Ok (t :: ts), pure_src [] None).
Proof.
  intros He Hes Hok Hf1 Hf2.
  pose proof (proj1 (grammar_complete m) t d He fuel (mkCons Unbounded m) ds None Hf1 eq_refl Hok I I) as H1.
  destruct (proj2 (grammar_complete m') ts ds Hes) as (_ & _ & HT).
  unfold decode_src, pure_src, mandatory.
  unfold bind at 1. unfold bind at 1. unfold bind at 1. rewrite H1. cbv iota beta. unfold ret at 1. cbv iota beta.
  cbn [cst lim_sub]. unfold bind at 1.
  rewrite (HT fuel Hf2 (octets_ok_app_r _ _ Hok)). reflexivity.
Qed.

(* ====================================================================== *)
(* Part 4: soundness - whatever the reader accepts is a string of the       *)
(* grammar, the tree delivered is the one it encodes                        *)
(* ====================================================================== *)
(* the length reader looks at the length octets only *)
Lemma length_spec_indep m p r v : length_read_spec m (p ++ r) = Ok (v, r) ->
  forall r', length_read_spec m (p ++ r') = Ok (v, r').
Proof.
  unfold length_read_spec. destruct p as [|b0 p'].
  - (* nothing consumed is impossible: the result rest is strictly shorter *)
    cbn [app]. destruct r as [|b0 r0]; [discriminate|]. intro H. exfalso.
    assert (Hlen : forall (x : length_) (y : list N), Ok (x, y) = Ok (v, b0 :: r0) -> len y = 1 + len r0)
      by (intros x y [= _ ->]; rewrite len_cons; reflexivity).
    destruct (b0 <? 128); [apply Hlen in H; lia|]. destruct (b0 =? 128); [apply Hlen in H; lia|].
    destruct (4 <? b0 - 128); [discriminate|]. destruct (len r0 <? b0 - 128) eqn:E; [discriminate|].
    destruct (is_ber m || _); [|discriminate]. apply Hlen in H. rewrite len_skipN in H. lia.
  - cbn [app]. intros H r'.
    destruct (b0 <? 128).
    { injection H as <- H. apply app_inv_tail_iff with (l1 := p') (l2 := []) in H. subst p'. reflexivity. }
    destruct (b0 =? 128).
    { injection H as <- H. apply app_inv_tail_iff with (l1 := p') (l2 := []) in H. subst p'. reflexivity. }
    destruct (4 <? b0 - 128); [discriminate|].
    destruct (len (p' ++ r) <? b0 - 128) eqn:E; [discriminate|].
    destruct (is_ber m || min_len_ok (b0 :: firstN (b0 - 128) (p' ++ r))) eqn:Eb; [|discriminate].
    injection H as <- Hs.
    (* p' is exactly the k length octets *)
    assert (Hk : len p' = b0 - 128).
    { apply (f_equal (@len N)) in Hs. rewrite len_skipN, len_app in Hs. rewrite len_app in E. lia. }
    rewrite <- Hk in *. rewrite firstN_app_exact in Eb. rewrite firstN_app_exact, skipN_app_exact.
    rewrite len_app. replace (len p' + len r' <? len p') with false by lia. rewrite firstN_app_exact, Eb.
    reflexivity.
Qed.

Lemma take_all_inv s b s' : nf s -> take_all_lim s = (Ok b, s') ->
  exists n, lim s = Some n /\ rem s = b ++ rem s' /\ len b = n /\ s' = mkSrc (rem s') (Some 0) None.
Proof.
  intros Hn H. destruct s as [d l f]. unfold nf in Hn. cbn in Hn. subst f.
  unfold take_all_lim in H. cbn [lim] in H. destruct l as [n|]; [|discriminate].
  apply bind_ok_inv in H as ([] & s1 & H1 & H2).
  destruct (need_ok_state n (mkSrc d (Some n) None) s1 (eq_refl : nf (mkSrc d (Some n) None)) H1) as [-> Ha]. unfold avail in Ha. cbn [lim rem] in Ha.
  unfold bind, get in H2. cbv beta iota in H2.
  rewrite (advance_ok n d (Some n) ltac:(lia) ltac:(cbn; lia)) in H2. unfold ret in H2. injection H2 as <- <-.
  exists n. cbn [lim rem lim_sub]. split; [reflexivity|]. split; [symmetry; apply firstN_skipN|].
  split; [apply len_firstN_le; lia|]. repeat f_equal. lia.
Qed.

Lemma tag_opt_some_is_take s tk s' : tag_take_opt_from s = (Ok (Some tk), s') -> tag_take_from s = (Ok tk, s').
Proof. intro H. unfold tag_take_from, bind. rewrite H. reflexivity. Qed.

Lemma take_opt_none_state s s' : nf s -> take_opt_u8 s = (Ok None, s') -> rem s = [] \/ lim s = Some 0.
Proof.
  intros Hn. unfold take_opt_u8, bind. rewrite (tick_nf s Hn).
  destruct (lim s) as [[|p]|], (rem s); try discriminate; auto.
Qed.
Lemma tag_opt_none_state s s' : nf s -> tag_take_opt_from s = (Ok None, s') -> rem s = [] \/ lim s = Some 0.
Proof.
  intros Hf H. unfold tag_take_opt_from in H. apply bind_ok_inv in H as (ob & s1 & H1 & H2).
  destruct ob as [b|]; [|eapply take_opt_none_state; eauto].
  exfalso. destruct (N.land (clear_cons b) 31 =? 31); [|discriminate].
  apply bind_ok_inv in H2 as (d1 & s2 & _ & H2).
  destruct ((d1 =? 128) || (d1 <=? 30)); [discriminate|]. destruct (N.land d1 128 =? 0); [discriminate|].
  apply bind_ok_inv in H2 as (d2 & s3 & _ & H2). destruct (N.land d2 128 =? 0); [discriminate|].
  apply bind_ok_inv in H2 as (d3 & s4 & _ & H2). destruct (N.land d3 128 =? 0); discriminate.
Qed.

Lemma pnv_inv {T} c (op : tag -> content -> M (T * content)) s o c' s' :
  nf s -> octets_ok (rem s) = true ->
  process_next_value c None op s = (Ok (o, c'), s') ->
  (o = None /\ c' = c /\ s' = s /\ ((cst c = Definite /\ lim s = Some 0) \/ cst c = Done)) \/
  (o = None /\ c' = c /\ s' = s /\ cst c = Unbounded /\ (rem s = [] \/ lim s = Some 0)) \/
  (exists t k lw v r2,
     legal_tag t /\ rem s = tag_write k t ++ lw ++ r2 /\
     length_read_spec (cmd c) (lw ++ r2) = Ok (v, r2) /\
     lim_ge (lim s) (len (tag_write k t) + len lw) /\
     pnv_tail c op t k v (mkSrc r2 (lim_sub (lim s) (len (tag_write k t) + len lw)) None) = (Ok (o, c'), s')).
Proof.
  intros Hn Hok H. destruct s as [d l f]. unfold nf in Hn. cbn in Hn. subst f. cbn [rem lim] in *.
  unfold process_next_value in H.
  apply bind_ok_inv in H as (ex & s0 & H0 & H).
  pose proof (is_exhausted_state _ _ _ _ H0) as ->.
  destruct ex.
  { injection H as <- <- <-. left. repeat split; try reflexivity.
    unfold is_exhausted in H0. destruct (cst c); try discriminate; auto.
    left. split; [reflexivity|]. unfold bind, get_lim, ret, panic in H0. cbn [lim] in H0.
    destruct l as [x|]; [|discriminate]. injection H0 as H0. f_equal. lia. }
  apply bind_ok_inv in H as (hdr & s1 & H1 & H).
  assert (Hhdr : (hdr = None /\ cst c = Unbounded /\ s1 = mkSrc d l None /\ (d = [] \/ l = Some 0)) \/
                 (exists tk, hdr = Some tk /\ tag_take_from (mkSrc d l None) = (Ok tk, s1))).
  { destruct (cstate_eqb (cst c) Unbounded) eqn:Eu.
    - destruct hdr as [tk|].
      + right. exists tk. split; [reflexivity|]. apply tag_opt_some_is_take, H1.
      + left. split; [reflexivity|]. split; [destruct (cst c); try discriminate; reflexivity|].
        assert (Hnf : nf (mkSrc d l None)) by reflexivity.
        split; [apply (tag_take_opt_from_none _ _ Hnf H1)|apply (tag_opt_none_state _ _ Hnf H1)].
    - apply bind_ok_inv in H1 as (tk & s1' & H1 & H1'). injection H1' as <- <-. right. exists tk. auto. }
  destruct Hhdr as [(-> & Hu & -> & He)|((t & k) & -> & Ht)].
  { injection H as <- <- <-. right. left. repeat split; auto. }
  right. right.
  destruct (tag_at_limit_inv d l t k s1 Hok Ht) as (r1 & -> & Hleg & -> & Hl1).
  apply bind_ok_inv in H as (v & s2 & H2 & H).
  destruct (length_at_limit_inv (cmd c) r1 _ v s2 (octets_ok_app_r _ _ Hok) H2) as (lw & r2 & -> & Hspec & -> & Hl2).
  exists t, k, lw, v, r2. split; [exact Hleg|]. split; [reflexivity|]. split; [exact Hspec|].
  rewrite lim_sub_sub in H. split; [|exact H].
  destruct l as [x|]; cbn [lim_ge lim_sub] in *; [lia|trivial].
Qed.

Definition consumed (s s' : src) (k : N) : Prop := lim s' = lim_sub (lim s) k /\ lim_ge (lim s) k.

Lemma lim_check_inv l1 n s s1 :
  (match l1 with Some li => if li <? n then cerr else ret tt | None => ret tt end) s = (Ok tt, s1) ->
  s1 = s /\ lim_ge l1 n.
Proof.
  destruct l1 as [x|]; cbn [lim_ge].
  - destruct (x <? n) eqn:E; [discriminate|]. intros [= <-]. split; [reflexivity|lia].
  - intros [= <-]. auto.
Qed.

Lemma spec_indef_inv m lw r : length_read_spec m (lw ++ r) = Ok (Indefinite_, r) -> lw = [128].
Proof.
  unfold length_read_spec. destruct lw as [|b0 p'].
  - cbn [app]. destruct r as [|b0 r0]; [discriminate|]. intro H. exfalso.
    assert (Hlen : forall (x : length_) (y : list N), Ok (x, y) = Ok (Indefinite_, b0 :: r0) -> len y = 1 + len r0)
      by (intros x y [= _ ->]; rewrite len_cons; reflexivity).
    destruct (b0 <? 128); [apply Hlen in H; lia|]. destruct (b0 =? 128); [apply Hlen in H; lia|].
    destruct (4 <? b0 - 128); [discriminate|]. destruct (len r0 <? b0 - 128) eqn:E; [discriminate|].
    destruct (is_ber m || _); discriminate.
  - cbn [app]. destruct (b0 <? 128); [discriminate|].
    destruct (b0 =? 128) eqn:E.
    + intros [= H]. apply app_inv_tail_iff with (l1 := p') (l2 := []) in H. subst p'. f_equal. lia.
    + destruct (4 <? b0 - 128); [discriminate|]. destruct (len (p' ++ r) <? b0 - 128); [discriminate|].
      destruct (is_ber m || _); discriminate.
Qed.

Lemma src_exhausted_ok_state s s' : nf s -> src_exhausted s = (Ok tt, s') -> s' = s.
Proof.
  intros Hn. unfold src_exhausted. destruct (lim s) as [[|p]|]; try discriminate; [congruence|].
  unfold bind. rewrite (tick_nf s Hn). destruct (rem s); [congruence|discriminate].
Qed.

(* a non-end-of-contents header never yields "absent" *)
Lemma pnv_tail_some {T} c (op : tag -> content -> M (T * content)) t k v s o c' s' :
  tag_eqb t END_OF_VALUE = false -> pnv_tail c op t k v s = (Ok (o, c'), s') -> o <> None.
Proof.
  intros He H. unfold pnv_tail in H. rewrite He in H. destruct v as [n|].
  - apply bind_ok_inv in H as (old & s1 & _ & H). apply bind_ok_inv in H as (u1 & s2 & _ & H).
    apply bind_ok_inv in H as (u2 & s3 & _ & H). apply bind_ok_inv in H as (u3 & s4 & _ & H).
    cbv zeta in H. apply bind_ok_inv in H as ([r ct'] & s5 & _ & H).
    apply bind_ok_inv in H as (u4 & s6 & _ & H). apply bind_ok_inv in H as (u5 & s7 & _ & H).
    injection H as <- _ _. discriminate.
  - destruct (negb k || mode_eqb (cmd c) Der); [discriminate|].
    apply bind_ok_inv in H as ([r ct'] & s5 & _ & H). apply bind_ok_inv in H as (u4 & s6 & _ & H).
    injection H as <- _ _. discriminate.
Qed.

Definition SndAt (f : nat) : Prop :=
  forall c s ts c' s', nf s -> octets_ok (rem s) = true -> (cst c = Definite -> exists x, lim s = Some x) ->
    read_all f c s = (Ok (ts, c'), s') ->
    nf s' /\ exists ds, encs (cmd c) ts ds /\
      match cst c with
      | Definite => rem s = ds ++ rem s' /\ c' = c /\ lim s = Some (len ds) /\ lim s' = Some 0
      | Indefinite => exists lw0, rem s = ds ++ 0 :: lw0 ++ rem s' /\ lenoct (cmd c) 0 lw0 /\
                                  c' = with_state c Done /\ consumed s s' (len ds + 1 + len lw0)
      | Unbounded => rem s = ds ++ rem s' /\ c' = c /\ consumed s s' (len ds) /\ (rem s' = [] \/ lim s' = Some 0)
      | Done => ds = [] /\ s' = s /\ c' = c
      end.

Lemma value_sound f : SndAt f -> forall c s t c' s',
  nf s -> octets_ok (rem s) = true ->
  process_next_value c None (rd f) s = (Ok (Some t, c'), s') ->
  nf s' /\ c' = c /\ exists d, enc (cmd c) t d /\ rem s = d ++ rem s' /\ consumed s s' (len d).
Proof.
  intros IH c s t c' s' Hn Hok H.
  destruct (pnv_inv c (rd f) s (Some t) c' s' Hn Hok H) as [(Ho & _)|[(Ho & _)|X]]; try discriminate.
  destruct X as (tg & k & lw & v & r2 & Hleg & Hrem & Hspec & Hlg & Ht).
  set (a := len (tag_write k tg) + len lw) in *.
  assert (Hok2 : octets_ok r2 = true).
  { rewrite Hrem in Hok. apply octets_ok_app_r in Hok. apply octets_ok_app_r in Hok. exact Hok. }
  unfold pnv_tail in Ht.
  destruct (tag_eqb tg END_OF_VALUE) eqn:He.
  { destruct (cst c); try discriminate. destruct k; [discriminate|]. destruct (negb (length_is_zero v)); discriminate. }
  destruct v as [n|].
  - (* definite length *)
    apply bind_ok_inv in Ht as (old & s1 & H1 & Ht). unfold get_lim in H1. injection H1 as <- <-. cbn [lim] in Ht.
    set (l2 := lim_sub (lim s) a) in *.
    apply bind_ok_inv in Ht as ([] & s2 & H2 & Ht). apply lim_check_inv in H2 as [-> Hl2].
    apply bind_ok_inv in Ht as ([] & s3 & H3 & Ht). unfold set_limit in H3. cbn [rem flt] in H3. injection H3 as <-.
    apply bind_ok_inv in Ht as ([] & s3' & H3 & Ht).
    assert (Hcer : k && mode_eqb (cmd c) Cer = false /\ s3' = mkSrc r2 (Some n) None).
    { destruct (k && mode_eqb (cmd c) Cer); [discriminate|]. injection H3 as <-. auto. }
    destruct Hcer as [Hcer ->]. cbv zeta in Ht.
    apply bind_ok_inv in Ht as ([r ct'] & s4 & H4 & Ht).
    apply bind_ok_inv in Ht as ([] & s5 & H5 & Ht).
    apply bind_ok_inv in Ht as ([] & s6 & H6 & Ht). injection Ht as <- <- <-.
    unfold set_limit in H6. injection H6 as <-.
    assert (Hlen : lenoct (cmd c) n lw) by (intro r'; eapply length_spec_indep; eauto).
    destruct k.
    + (* constructed *)
      cbn [rd] in H4. apply bind_ok_inv in H4 as ([kids c''] & s4' & H4 & H4'). injection H4' as <- <- <-.
      destruct (IH _ _ _ _ _ (eq_refl : nf (mkSrc r2 (Some n) None)) Hok2 ltac:(intros _; exists n; reflexivity) H4)
        as (Hn4 & ds & Hk & Hctx). cbn [cst cmd rem lim] in Hctx. destruct Hctx as (Hr2 & -> & Hnn & Hl0).
      injection Hnn as ->.
      cbn [content_exhausted cons_exhausted cst] in H5.
      apply (src_exhausted_ok_state _ _ Hn4) in H5. subst s5.
      split; [exact Hn4|]. split; [reflexivity|].
      exists (tag_write true tg ++ lw ++ ds). split.
      * apply E_def; try assumption.
        intro Em. rewrite Em in Hcer. discriminate.
      * cbn [rem lim]. split; [rewrite Hrem, Hr2, <- !app_assoc; reflexivity|].
        unfold consumed. cbn [lim]. unfold l2. rewrite lim_sub_sub, !len_app. unfold a.
        split; [f_equal; lia|]. unfold l2, a in *.
        destruct (lim s) as [x|]; cbn [lim_ge lim_sub] in *; [lia|trivial].
    + (* primitive *)
      cbn [rd] in H4. apply bind_ok_inv in H4 as (b & s4' & H4 & H4'). injection H4' as <- <- <-.
      destruct (take_all_inv _ _ _ (eq_refl : nf (mkSrc r2 (Some n) None)) H4) as (n' & Hn' & Hr2 & Hb & Hs4).
      cbn [lim rem] in Hn', Hr2. injection Hn' as <-.
      cbn [content_exhausted] in H5. rewrite Hs4 in H5. rewrite src_exhausted_0 in H5. injection H5 as <-.
      split; [reflexivity|]. split; [reflexivity|].
      exists (tag_write false tg ++ lw ++ b). split.
      * apply E_prim; try assumption. rewrite Hb. exact Hlen.
      * cbn [rem lim flt]. split; [rewrite Hrem, Hr2, <- !app_assoc; reflexivity|].
        unfold consumed. cbn [lim]. unfold l2. rewrite lim_sub_sub, !len_app. unfold a.
        split; [f_equal; lia|]. unfold l2, a in *.
        destruct (lim s) as [x|]; cbn [lim_ge lim_sub] in *; [lia|trivial].
  - (* indefinite length *)
    destruct (negb k || mode_eqb (cmd c) Der) eqn:Ek; [discriminate|].
    apply orb_false_elim in Ek as [Ek Eder]. destruct k; [|discriminate].
    apply bind_ok_inv in Ht as ([r ct'] & s4 & H4 & Ht).
    apply bind_ok_inv in Ht as ([] & s5 & H5 & Ht). injection Ht as <- <- <-.
    cbn [rd] in H4. apply bind_ok_inv in H4 as ([kids c''] & s4' & H4 & H4'). injection H4' as <- <- <-.
    assert (Hpre : cst (mkCons Indefinite (cmd c)) = Definite -> exists x, lim (mkSrc r2 (lim_sub (lim s) a) None) = Some x)
      by (intro E; discriminate E).
    destruct (IH _ _ _ _ _ (eq_refl : nf (mkSrc r2 (lim_sub (lim s) a) None)) Hok2 Hpre H4)
      as (Hn4 & ds & Hk & Hctx). cbn [cst cmd rem lim] in Hctx.
    destruct Hctx as (lw0 & Hr2 & Hlw0 & -> & Hc1 & Hc2).
    cbn [content_exhausted cons_exhausted with_state cst] in H5. injection H5 as <-.
    pose proof (spec_indef_inv _ _ _ Hspec) as ->.
    split; [exact Hn4|]. split; [reflexivity|].
    exists (tag_write true tg ++ [128] ++ ds ++ 0 :: lw0). split.
    + apply E_indef; try assumption. intro Em. rewrite Em in Eder. discriminate.
    + split; [rewrite Hrem, Hr2, <- !app_assoc; reflexivity|].
      unfold consumed. cbn [lim] in Hc1, Hc2. rewrite Hc1, lim_sub_sub.
      assert (Hlen : len (tag_write true tg ++ [128] ++ ds ++ 0 :: lw0) = a + (len ds + 1 + len lw0)).
      { unfold a. rewrite !len_app, !len_cons. change (len (@nil N)) with 0. lia. }
      rewrite Hlen. split; [reflexivity|].
      destruct (lim s) as [x|]; cbn [lim_ge lim_sub] in *; [lia|trivial].
Qed.

Lemma consumed_0 s : consumed s s 0.
Proof. unfold consumed. rewrite lim_sub_0. split; [reflexivity|apply lim_ge_0]. Qed.
Lemma consumed_trans s s1 s2 a b : consumed s s1 a -> consumed s1 s2 b -> consumed s s2 (a + b).
Proof.
  unfold consumed. intros [H1 G1] [H2 G2]. rewrite H2, H1, lim_sub_sub. split; [reflexivity|].
  rewrite H1 in G2. destruct (lim s) as [x|]; cbn [lim_ge lim_sub] in *; [lia|trivial].
Qed.

Theorem grammar_sound f : SndAt f.
Proof.
  induction f as [|f IH]; intros c s ts c' s' Hn Hok Hdef H; [discriminate|].
  rewrite read_all_S in H. apply bind_ok_inv in H as ([o c1] & s1 & H1 & H).
  destruct o as [v|].
  - (* a value, then the rest *)
    destruct (value_sound f IH c s v c1 s1 Hn Hok H1) as (Hn1 & -> & d & Hd & Hrem & Hc).
    apply bind_ok_inv in H as ([vs c''] & s2 & H2 & H). injection H as <- <- <-.
    assert (Hok1 : octets_ok (rem s1) = true) by (rewrite Hrem in Hok; apply octets_ok_app_r in Hok; exact Hok).
    assert (Hdef1 : cst c = Definite -> exists x, lim s1 = Some x).
    { intro E. destruct (Hdef E) as [x Hx]. destruct Hc as [Hc _]. rewrite Hc, Hx. cbn. eauto. }
    destruct (IH c s1 vs c'' s2 Hn1 Hok1 Hdef1 H2) as (Hn2 & ds & Hds & Hctx).
    split; [exact Hn2|]. exists (d ++ ds). split; [apply Es_cons; assumption|].
    destruct (cst c) eqn:Ec.
    + destruct Hctx as (Hr & -> & Hl1 & Hl2). split; [rewrite Hrem, Hr, app_assoc; reflexivity|].
      split; [reflexivity|]. split; [|exact Hl2].
      destruct Hc as [Hc Hg]. destruct (Hdef eq_refl) as [x Hx]. rewrite Hx in *. cbn [lim_sub lim_ge] in *.
      rewrite Hc in Hl1. injection Hl1 as Hl1. rewrite len_app. f_equal. lia.
    + destruct Hctx as (lw0 & Hr & Hlw & -> & Hc2). exists lw0.
      split; [rewrite Hrem, Hr, app_assoc; reflexivity|]. split; [exact Hlw|]. split; [reflexivity|].
      rewrite len_app. replace (len d + len ds + 1 + len lw0) with (len d + (len ds + 1 + len lw0)) by lia.
      eapply consumed_trans; eauto.
    + destruct Hctx as (-> & -> & ->). exfalso.
      (* a Done value reports absence at once *)
      destruct (pnv_inv c (rd f) s (Some v) c s1 Hn Hok H1) as [(Ho & _)|[(Ho & _)|X]]; try discriminate.
      destruct X as (tg & k & lw & v0 & r2 & _ & _ & _ & _ & Ht).
      unfold process_next_value in H1. unfold bind at 1 in H1. unfold is_exhausted in H1. rewrite Ec in H1.
      unfold ret at 1 in H1. cbv beta iota in H1. discriminate.
    + destruct Hctx as (Hr & -> & Hc2 & He). split; [rewrite Hrem, Hr, app_assoc; reflexivity|].
      split; [reflexivity|]. split; [rewrite len_app; eapply consumed_trans; eauto|exact He].
  - (* absent: the end of this sequence *)
    injection H as <- <- <-.
    destruct (pnv_inv c (rd f) s None c1 s1 Hn Hok H1) as [(_ & -> & -> & He)|[(_ & -> & -> & Hu & He)|X]].
    + split; [exact Hn|]. exists []. split; [constructor|].
      destruct He as [[Ec Hl]|Ec]; rewrite Ec.
      * cbn [app len length N.of_nat]. auto.
      * auto.
    + split; [exact Hn|]. exists []. split; [constructor|]. rewrite Hu.
      cbn [app len length N.of_nat]. split; [reflexivity|]. split; [reflexivity|]. split; [apply consumed_0|exact He].
    + destruct X as (tg & k & lw & v & r2 & Hleg & Hrem & Hspec & Hlg & Ht).
      destruct (tag_eqb tg END_OF_VALUE) eqn:He.
      2:{ exfalso. apply (pnv_tail_some _ _ _ _ _ _ _ _ _ He Ht). reflexivity. }
      unfold pnv_tail in Ht. rewrite He in Ht.
      destruct (cst c) eqn:Ec; try discriminate. destruct k; [discriminate|].
      destruct (negb (length_is_zero v)) eqn:Ez; [discriminate|]. injection Ht as <- <-.
      apply tag_eqb_eq in He. subst tg. change (tag_write false END_OF_VALUE) with [0] in *.
      apply negb_false_iff in Ez. apply length_is_zero_inv in Ez. subst v.
      split; [reflexivity|]. exists []. split; [constructor|]. exists lw. cbn [app rem lim].
      split; [exact Hrem|]. split; [intro r'; eapply length_spec_indep; eauto|]. split; [reflexivity|].
      unfold consumed. cbn [lim]. change (len [0]) with 1 in *. change (len (@nil N)) with 0.
      replace (0 + 1 + len lw) with (1 + len lw) by lia. split; [reflexivity|exact Hlg].
Qed.

(* in the words of the property: if the whole input is accepted, it is a
   sequence of well-formed encodings of exactly the values delivered, and the
   source is at its end *)
Theorem accepted_is_wellformed m fuel d ts s' : octets_ok d = true ->
  decode_src m (read_all fuel) (pure_src d None) = (Ok ts, s') ->
  encs m ts d /\ rem s' = [].
Proof.
  intros Hok H. unfold decode_src in H. apply bind_ok_inv in H as ([ts' c'] & s1 & H1 & H).
  apply bind_ok_inv in H as ([] & s2 & H2 & H). injection H as <- <-.
  destruct (grammar_sound fuel (mkCons Unbounded m) (pure_src d None) ts' c' s1 eq_refl Hok
              ltac:(intro E; discriminate E) H1) as (Hn1 & ds & Hds & Hctx).
  cbn [cst cmd rem pure_src lim] in Hctx. destruct Hctx as (Hr & -> & [Hc _] & He).
  unfold pure_src in Hc. cbn [lim lim_sub] in Hc. cbn [cons_exhausted cst] in H2. injection H2 as <-.
  destruct He as [He|He]; [|congruence].
  rewrite He, app_nil_r in Hr. subst ds. auto.
Qed.

(* ---- fuel: one unit per node is enough, and an encoding has at least as
   many octets as nodes ---- *)
Lemma tag_write_length_pos k t : (1 <= length (tag_write k t))%nat.
Proof. pose proof (tag_write_len_pos k t) as H. unfold len in H. lia. Qed.
Lemma lenoct_nonempty m n lw : lenoct m n lw -> (1 <= length lw)%nat.
Proof.
  intro H. destruct lw as [|b p]; [|cbn; lia]. exfalso. specialize (H []). cbn in H. discriminate.
Qed.

Lemma enc_size m :
  (forall t d, enc m t d -> (size t <= length d)%nat) /\
  (forall ts ds, encs m ts ds -> (sizes ts <= S (length ds))%nat).
Proof.
  apply enc_encs_ind.
  - intros t c lw _ _ Hlw. pose proof (tag_write_length_pos false t). pose proof (lenoct_nonempty _ _ _ Hlw).
    rewrite !app_length. cbn [size]. lia.
  - intros t kids lw body _ _ _ Hlw _ IH. pose proof (tag_write_length_pos true t). pose proof (lenoct_nonempty _ _ _ Hlw).
    rewrite size_cons, !app_length. lia.
  - intros t kids body lw0 _ _ _ _ IH _. pose proof (tag_write_length_pos true t).
    rewrite size_cons, !app_length. cbn [length]. lia.
  - cbn. lia.
  - intros t ts d ds _ IH1 _ IH2. cbn [sizes]. rewrite app_length. lia.
Qed.

(* C02, both directions, with the fuel the correspondence streams use *)
Theorem reader_accepts_exactly_the_grammar m d ts fuel : octets_ok d = true -> (length d < fuel)%nat ->
  (fst (decode_src m (read_all fuel) (pure_src d None)) = Ok ts <-> encs m ts d).
Proof.
  intros Hok Hf. split.
  - intro H. destruct (decode_src m (read_all fuel) (pure_src d None)) as [r s'] eqn:E. cbn [fst] in H. subst r.
    apply (accepted_is_wellformed m fuel d ts s' Hok E).
  - intro He. rewrite (wellformed_is_accepted m ts d fuel He Hok); [reflexivity|].
    pose proof (proj2 (enc_size m) ts d He). lia.
Qed.

(* and conversely: whatever that mixed-mode caller accepts splits into a value of mode m followed by values
   of mode m' *)
Theorem mode_switch_sound m m' fuel input t ts s' : octets_ok input = true ->
  decode_src m (fun c =>
      x <- mandatory (process_next_value c None (rd fuel)) ;; let '(v, c1) := x in
      y <- read_all fuel (mkCons (cst c1) m') ;; let '(vs, c2) := y in ret (v :: vs, c2))
    (pure_src input None) = (Ok (t :: ts), s') ->
  exists d ds, enc m t d /\ encs m' ts ds /\ input = d ++ ds /\ rem s' = [].
Proof.
  intros Hok H. unfold decode_src in H. apply bind_ok_inv in H as ([vs0 c3] & s3 & H & Hx).
  apply bind_ok_inv in H as ([v c1] & s1 & H1 & H).
  unfold mandatory in H1. apply bind_ok_inv in H1 as ([o c1'] & s1' & H1 & H1').
  destruct o as [v'|]; [|discriminate]. injection H1' as <- <- <-.
  destruct (value_sound fuel (grammar_sound fuel) (mkCons Unbounded m) (pure_src input None) v' c1' s1' eq_refl Hok H1)
    as (Hn1 & -> & d & Hd & Hrem & Hc).
  cbn [cst] in H. apply bind_ok_inv in H as ([vs c2] & s2 & H2 & H). injection H as <- <- <-.
  assert (Hok1 : octets_ok (rem s1') = true).
  { cbn [rem pure_src] in Hrem. rewrite Hrem in Hok. apply octets_ok_app_r in Hok. exact Hok. }
  destruct (grammar_sound fuel (mkCons Unbounded m') s1' vs c2 s2 Hn1 Hok1 ltac:(intro E; discriminate E) H2)
    as (Hn2 & ds & Hds & Hctx).
  cbn [cst cmd] in Hctx. destruct Hctx as (Hr & -> & [Hc2 _] & He).
  apply bind_ok_inv in Hx as ([] & s4 & H4 & Hx). unfold ret in Hx. inversion Hx; subst.
  cbn [cons_exhausted cst] in H4. injection H4 as <-.
  destruct Hc as [Hc _]. cbn [lim pure_src lim_sub] in Hc. rewrite Hc in Hc2. cbn [lim_sub] in Hc2.
  destruct He as [He|He]; [|congruence].
  exists d, ds. cbn [rem pure_src] in Hrem. rewrite He, app_nil_r in Hr. rewrite Hr in Hrem. auto.
Qed.

(* non-vacuity: a nested BER encoding with an indefinite-length member *)
Example grammar_example :
  encs Ber [TCons T_SEQUENCE [TPrim T_INTEGER [5]; TCons T_SET []]] [48; 7; 2; 1; 5; 49; 128; 0; 0].
Proof.
  assert (Hlo : forall n, n < 128 -> lenoct Ber n [n]).
  { intros n Hn r. unfold length_read_spec. cbn [app]. replace (n <? 128) with true by lia. reflexivity. }
  change [48; 7; 2; 1; 5; 49; 128; 0; 0] with ((tag_write true T_SEQUENCE ++ [7] ++ [2; 1; 5; 49; 128; 0; 0]) ++ []).
  apply Es_cons; [|constructor].
  apply E_def; [split; [left; reflexivity|reflexivity]|reflexivity|discriminate|apply (Hlo 7); lia|].
  change [2; 1; 5; 49; 128; 0; 0] with ((tag_write false T_INTEGER ++ [1] ++ [5]) ++ (tag_write true T_SET ++ [128] ++ [] ++ 0 :: [0]) ++ []).
  apply Es_cons; [|apply Es_cons; [|constructor]].
  - apply E_prim; [split; [left; reflexivity|reflexivity]|reflexivity|apply (Hlo 1); lia].
  - apply E_indef; [split; [left; reflexivity|reflexivity]|reflexivity|discriminate|constructor|apply (Hlo 0); lia].
Qed.
