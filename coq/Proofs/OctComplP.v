(* The converse of OctGrammarP (C16): in BER every grammar string of values that
   are all OCTET STRINGs IS accepted as the content of a constructed octet
   string, and the value obtained holds exactly that content. *)
From Coq Require Import Lia ZifyBool ZifyN ZifyNat.
Require Import BV.Model.Base BV.Model.SrcB BV.Model.Length BV.Model.Tag BV.Model.Content BV.Model.OctStr.
Require Import BV.Proofs.Bits BV.Proofs.SrcBP BV.Proofs.LengthP BV.Proofs.TagP BV.Proofs.ContentP
               BV.Proofs.WinP BV.Proofs.TotalP BV.Proofs.DeltaP BV.Proofs.GrammarP BV.Proofs.SkipP BV.Proofs.CaptureP
               BV.Proofs.OctGrammarP.
Arguments N.add : simpl never. Arguments N.sub : simpl never.
Arguments N.ltb : simpl never. Arguments N.leb : simpl never. Arguments N.eqb : simpl never.

(* the segment loop inside a definite-length constructed octet string *)
Lemma ber_loop_complete_def m ts ds : encs m ts ds -> accepts octet_filter (traces ts 0) = true ->
  forall fuel c rest, cmd c = m -> cst c = Definite -> (2 * length ds + length ts < fuel)%nat ->
    octets_ok (ds ++ rest) = true ->
    ber_segments_loop fuel c (mkSrc (ds ++ rest) (Some (len ds)) None) = (Ok (tt, c), mkSrc rest (Some 0) None).
Proof.
  induction 1 as [|t ts d ds Hd Hds IH]; intros Hacc fuel c rest Hm Hc Hf Ho.
  - destruct fuel as [|f]; [cbn in Hf; lia|]. cbn [ber_segments_loop app len length N.of_nat].
    unfold skip_opt. unfold is_exhausted. rewrite Hc. reflexivity.
  - cbn [traces] in Hacc. rewrite accepts_app in Hacc. apply andb_prop in Hacc as [Ha1 Ha2].
    pose proof (enc_len_pos _ _ _ Hd) as Hpos.
    destruct fuel as [|f]; [cbn in Hf; lia|]. cbn [ber_segments_loop].
    rewrite <- app_assoc. rewrite len_app.
    assert (Hlen : (length (d ++ ds) = length d + length ds)%nat) by apply app_length.
    rewrite (bind_ok _ _ _ _ _ (wellformed_is_skipped m t d c octet_filter (ds ++ rest) (Some (len d + len ds)) (S f)
               Hd Hm ltac:(rewrite app_assoc; exact Ho) ltac:(cbn; lia)
               ltac:(unfold may_start; rewrite Hc; exists (len d + len ds); split; [reflexivity|lia]) Ha1 ltac:(cbn [length] in Hf; lia))).
    cbv iota beta. cbn [lim_sub]. replace (len d + len ds - len d) with (len ds) by lia.
    apply IH; try assumption.
    + cbn [length] in Hf. lia.
    + rewrite <- app_assoc in Ho. apply octets_ok_app_r in Ho. exact Ho.
Qed.

Lemma with_state_id c : with_state c (cst c) = c. Proof. destruct c; reflexivity. Qed.

(* a definite-length constructed octet string: accepted, the value holds the content *)
Theorem constructed_ber_complete_def m ts ds fuel c rest :
  encs m ts ds -> accepts octet_filter (traces ts 0) = true ->
  cmd c = m -> cst c = Definite -> (2 * length ds + length ts < fuel)%nat -> octets_ok (ds ++ rest) = true ->
  take_constructed_ber fuel c (mkSrc (ds ++ rest) (Some (len ds)) None)
  = (Ok (OCons ds, c), mkSrc rest (Some 0) None).
Proof.
  intros He Hacc Hm Hc Hf Ho. unfold take_constructed_ber, capture.
  unfold bind at 1. unfold bind at 1. unfold get at 1. cbv beta iota.
  unfold bind at 1. rewrite (ber_loop_complete_def m ts ds He Hacc fuel c rest Hm Hc Hf Ho). cbv beta iota.
  unfold bind at 1. unfold get at 1. cbv beta iota. cbn [rem lim flt].
  assert (Hn : len (ds ++ rest) - len rest = len ds) by (rewrite len_app; lia).
  rewrite Hn. replace (len ds <? len ds) with false by lia.
  unfold bind, put, ret. cbn [lim_sub]. replace (len ds - len ds) with 0 by lia.
  rewrite firstN_len_app, with_state_id. reflexivity.
Qed.

(* non-vacuity: 24 08 04 01 61 24 80 04 00 00 00 - a nested indefinite segment inside a definite string *)
Example constructed_ber_complete_example :
  take_constructed_ber 40 (mkCons Definite Ber) (mkSrc [4; 1; 97; 36; 128; 4; 0; 0; 0; 7] (Some 9) None)
  = (Ok (OCons [4; 1; 97; 36; 128; 4; 0; 0; 0], mkCons Definite Ber), mkSrc [7] (Some 0) None).
Proof. vm_compute. reflexivity. Qed.

(* the segment loop inside an indefinite-length constructed octet string: it ends by consuming the
   end-of-contents (whose octets are therefore part of what capture returns: finding D17) *)
Lemma ber_loop_complete_indef m ts ds : encs m ts ds -> accepts octet_filter (traces ts 0) = true ->
  forall fuel c lw0 rest l, cmd c = m -> cst c = Indefinite -> (2 * length ds + length ts < fuel)%nat ->
    lenoct m 0 lw0 -> octets_ok (ds ++ 0 :: lw0 ++ rest) = true -> lim_ge l (len ds + (1 + len lw0)) ->
    ber_segments_loop fuel c (mkSrc (ds ++ 0 :: lw0 ++ rest) l None)
    = (Ok (tt, with_state c Done), mkSrc rest (lim_sub l (len ds + (1 + len lw0))) None).
Proof.
  induction 1 as [|t ts d ds Hd Hds IH]; intros Hacc fuel c lw0 rest l Hm Hc Hf Hlw Ho Hl.
  - destruct fuel as [|f]; [cbn in Hf; lia|]. cbn [ber_segments_loop app] in *. change (len (@nil N)) with 0 in *.
    unfold skip_opt. unfold is_exhausted. rewrite Hc. unfold bind at 1. unfold bind at 1. unfold ret at 1. cbv iota.
    change (0 :: lw0 ++ rest) with (tag_write false END_OF_VALUE ++ lw0 ++ rest).
    assert (H1 : len (tag_write false END_OF_VALUE) = 1) by reflexivity.
    rewrite (skip_header f c octet_filter [] [] END_OF_VALUE false lw0 (Definite_ 0) rest l legal_eov Ho
               ltac:(rewrite Hm; apply Hlw) ltac:(rewrite H1; eapply lim_ge_mono; [|exact Hl]; lia)).
    unfold skip_tail. cbn [negb]. change (tag_eqb END_OF_VALUE END_OF_VALUE) with true. cbn [length_is_zero N.eqb negb].
    rewrite Hc. unfold ret. rewrite H1. replace (0 + (1 + len lw0)) with (1 + len lw0) by lia. reflexivity.
  - cbn [traces] in Hacc. rewrite accepts_app in Hacc. apply andb_prop in Hacc as [Ha1 Ha2].
    pose proof (enc_len_pos _ _ _ Hd) as Hpos.
    destruct fuel as [|f]; [cbn in Hf; lia|]. cbn [ber_segments_loop].
    rewrite <- app_assoc. rewrite len_app in Hl.
    assert (Hlen : (length (d ++ ds) = length d + length ds)%nat) by apply app_length.
    rewrite (bind_ok _ _ _ _ _ (wellformed_is_skipped m t d c octet_filter (ds ++ 0 :: lw0 ++ rest) l (S f)
               Hd Hm ltac:(rewrite app_assoc; exact Ho) ltac:(eapply lim_ge_mono; [|exact Hl]; lia)
               ltac:(unfold may_start; rewrite Hc; exact I) Ha1 ltac:(cbn [length] in Hf; lia))).
    cbv iota beta.
    rewrite (IH Ha2 f c lw0 rest (lim_sub l (len d)) Hm Hc ltac:(cbn [length] in Hf; lia) Hlw
               ltac:(rewrite <- app_assoc in Ho; apply octets_ok_app_r in Ho; exact Ho)
               ltac:(apply lim_ge_sub; eapply lim_ge_mono; [|exact Hl]; lia)).
    rewrite lim_sub_sub, len_app.
    replace (len d + (len ds + (1 + len lw0))) with (len d + len ds + (1 + len lw0)) by lia. reflexivity.
Qed.

Theorem constructed_ber_complete_indef m ts ds fuel c lw0 rest l :
  encs m ts ds -> accepts octet_filter (traces ts 0) = true ->
  cmd c = m -> cst c = Indefinite -> (2 * length ds + length ts < fuel)%nat ->
  lenoct m 0 lw0 -> octets_ok (ds ++ 0 :: lw0 ++ rest) = true -> lim_ge l (len ds + (1 + len lw0)) ->
  take_constructed_ber fuel c (mkSrc (ds ++ 0 :: lw0 ++ rest) l None)
  = (Ok (OCons (ds ++ 0 :: lw0), with_state c Done), mkSrc rest (lim_sub l (len ds + (1 + len lw0))) None).
Proof.
  intros He Hacc Hm Hc Hf Hlw Ho Hl. unfold take_constructed_ber, capture.
  unfold bind at 1. unfold bind at 1. unfold get at 1. cbv beta iota.
  unfold bind at 1. rewrite (ber_loop_complete_indef m ts ds He Hacc fuel c lw0 rest l Hm Hc Hf Hlw Ho Hl). cbv beta iota.
  unfold bind at 1. unfold get at 1. cbv beta iota. cbn [rem lim flt].
  assert (Hn : len (ds ++ 0 :: lw0 ++ rest) - len rest = len ds + (1 + len lw0)).
  { rewrite len_app, len_cons, len_app. lia. }
  rewrite Hn.
  assert (Hchk : (match l with Some l0 => if l0 <? len ds + (1 + len lw0) then panic else ret tt | None => ret tt end)
                   (mkSrc rest (lim_sub l (len ds + (1 + len lw0))) None) = (Ok tt, mkSrc rest (lim_sub l (len ds + (1 + len lw0))) None)).
  { destruct l as [x|]; [|reflexivity]. cbn [lim_ge] in Hl. replace (x <? len ds + (1 + len lw0)) with false by lia. reflexivity. }
  unfold bind at 1. rewrite Hchk. unfold bind, put, ret. cbn [rem lim flt with_state cst cmd].
  replace (ds ++ 0 :: lw0 ++ rest) with ((ds ++ 0 :: lw0) ++ rest) by (rewrite <- app_assoc; reflexivity).
  replace (len ds + (1 + len lw0)) with (len (ds ++ 0 :: lw0)) by (rewrite len_app, len_cons; lia).
  rewrite firstN_len_app. reflexivity.
Qed.
