(* Source failures surface as that source error (property C08).

   The underlying source fails at its (k+1)-th request: flt = Some k.
   `Faulty m` says: on a source that never fails, m does not report a source
   error; and there is a number n - the number of requests m issues on this
   input - such that with a budget of k successful requests
     * k >= n : m behaves exactly as without faults (same value or the same
                content error, same position), with budget k - n left;
     * k <  n : m returns exactly the source error - not a content error,
                not a value built from incomplete data, not a panic.
   Faulty is closed under bind (Rust's `?`), so it holds for every routine
   built from the primitives, for every caller closure that is Faulty. *)
From Coq Require Import Lia ZifyBool ZifyN.
Require Import BV.Model.Base BV.Model.SrcB BV.Model.Length BV.Model.Tag BV.Model.Content.
Require Import BV.Proofs.Bits BV.Proofs.SrcBP.
Arguments N.add : simpl never. Arguments N.sub : simpl never.
Arguments N.ltb : simpl never. Arguments N.leb : simpl never. Arguments N.eqb : simpl never.
Arguments N.min : simpl never.

Definition setflt (s : src) (f : option N) : src := mkSrc (rem s) (lim s) f.

Definition Faulty {A} (m : M A) : Prop :=
  forall s, flt s = None ->
    fst (m s) <> SErr /\ flt (snd (m s)) = None /\
    exists n, forall k,
      if n <=? k
      then m (setflt s (Some k)) = (fst (m s), setflt (snd (m s)) (Some (k - n)))
      else fst (m (setflt s (Some k))) = SErr.

Lemma setflt_none s : flt s = None -> setflt s None = s.
Proof. destruct s as [r l f]. cbn. intros ->. reflexivity. Qed.

(* routines that neither request nor look at the budget *)
Definition Agnostic {A} (m : M A) : Prop :=
  (forall s f, m (setflt s f) = (fst (m (setflt s None)), setflt (snd (m (setflt s None))) f)) /\
  (forall s, fst (m s) <> SErr).

Lemma Faulty_agnostic {A} (m : M A) : Agnostic m -> Faulty m.
Proof.
  intros [Ha Hn] s Hf. split; [apply Hn|].
  pose proof (Ha s None) as H0. rewrite (setflt_none s Hf) in H0.
  split; [rewrite H0; reflexivity|].
  exists 0. intro k. replace (0 <=? k) with true by lia.
  rewrite (Ha s (Some k)), (setflt_none s Hf), N.sub_0_r. reflexivity.
Qed.

Ltac agn := split; [intros [r0 l0 f0] f; cbn | intros [r0 l0 f0]; cbn].

Lemma Faulty_ret {A} (a : A) : Faulty (ret a).
Proof. apply Faulty_agnostic. agn; [reflexivity|discriminate]. Qed.
Lemma Faulty_cerr {A} : Faulty (@cerr A).
Proof. apply Faulty_agnostic. agn; [reflexivity|discriminate]. Qed.
Lemma Faulty_panic {A} : Faulty (@panic A).
Proof. apply Faulty_agnostic. agn; [reflexivity|discriminate]. Qed.
Lemma Faulty_nofuel {A} : Faulty (@nofuel A).
Proof. apply Faulty_agnostic. agn; [reflexivity|discriminate]. Qed.
Lemma Faulty_set_limit l : Faulty (set_limit l).
Proof. apply Faulty_agnostic. agn; [reflexivity|discriminate]. Qed.
Lemma Faulty_remaining : Faulty remaining.
Proof. apply Faulty_agnostic. agn; [destruct l0; reflexivity|destruct l0; discriminate]. Qed.
Lemma Faulty_advance n : Faulty (advance n).
Proof.
  apply Faulty_agnostic. unfold advance. agn.
  - destruct (len r0 <? n); [reflexivity|]. destruct l0 as [x|]; [destruct (x <? n)|]; reflexivity.
  - destruct (len r0 <? n); [discriminate|]. destruct l0 as [x|]; [destruct (x <? n)|]; discriminate.
Qed.

Lemma Faulty_tick : Faulty tick.
Proof.
  intros s Hf. unfold tick. rewrite Hf. cbn. split; [discriminate|]. split; [exact Hf|].
  exists 1. intro k. destruct s as [r l f]. cbn in *. subst f.
  destruct k as [|p]; [reflexivity|]. cbn. replace (1 <=? N.pos p) with true by lia. reflexivity.
Qed.

Lemma Faulty_bind {A B} (m : M A) (g : A -> M B) :
  Faulty m -> (forall a, Faulty (g a)) -> Faulty (bind m g).
Proof.
  intros Hm Hg s Hf. destruct (Hm s Hf) as (Hn1 & Hf1 & n1 & H1). unfold bind.
  destruct (m s) as [[a| | | |] s1] eqn:E1; cbn [fst snd] in *.
  - destruct (Hg a s1 Hf1) as (Hn2 & Hf2 & n2 & H2).
    split; [exact Hn2|]. split; [exact Hf2|].
    exists (n1 + n2). intro k. specialize (H1 k).
    destruct (n1 <=? k) eqn:L1.
    + rewrite H1. specialize (H2 (k - n1)).
      assert (Es : setflt (setflt s1 (Some (k - n1))) (Some (k - n1)) = setflt s1 (Some (k - n1))) by reflexivity.
      destruct (n2 <=? k - n1) eqn:L2.
      * replace (n1 + n2 <=? k) with true by lia. rewrite H2.
        replace (k - n1 - n2) with (k - (n1 + n2)) by lia. reflexivity.
      * replace (n1 + n2 <=? k) with false by lia. exact H2.
    + replace (n1 + n2 <=? k) with false by lia.
      destruct (m (setflt s (Some k))) as [[a'| | | |] s']; cbn in H1; try discriminate. reflexivity.
  - split; [discriminate|]. split; [exact Hf1|]. exists n1. intro k. specialize (H1 k).
    destruct (n1 <=? k); [rewrite H1; reflexivity|].
    destruct (m (setflt s (Some k))) as [[a'| | | |] s']; cbn in H1; try discriminate. reflexivity.
  - congruence.
  - split; [discriminate|]. split; [exact Hf1|]. exists n1. intro k. specialize (H1 k).
    destruct (n1 <=? k); [rewrite H1; reflexivity|].
    destruct (m (setflt s (Some k))) as [[a'| | | |] s']; cbn in H1; try discriminate. reflexivity.
  - split; [discriminate|]. split; [exact Hf1|]. exists n1. intro k. specialize (H1 k).
    destruct (n1 <=? k); [rewrite H1; reflexivity|].
    destruct (m (setflt s (Some k))) as [[a'| | | |] s']; cbn in H1; try discriminate. reflexivity.
Qed.

Lemma Faulty_if {A} (b : bool) (m1 m2 : M A) : Faulty m1 -> Faulty m2 -> Faulty (if b then m1 else m2).
Proof. destruct b; trivial. Qed.

(* read-only views *)
Lemma Faulty_get_lim_then {A} (g : option N -> M A) : (forall l, Faulty (g l)) -> Faulty (bind get_lim g).
Proof.
  intros Hg s Hf. unfold bind, get_lim. destruct (Hg (lim s) s Hf) as (H1 & H2 & n & H3).
  split; [exact H1|]. split; [exact H2|]. exists n. intro k. exact (H3 k).
Qed.
Lemma visible_setflt s f : visible (setflt s f) = visible s. Proof. reflexivity. Qed.
Lemma avail_setflt s f : avail (setflt s f) = avail s. Proof. reflexivity. Qed.
Lemma Faulty_get_visible_then {A} (g : list N -> M A) : (forall v, Faulty (g v)) -> Faulty (bind get_visible g).
Proof.
  intros Hg s Hf. unfold bind, get_visible. destruct (Hg (visible s) s Hf) as (H1 & H2 & n & H3).
  split; [exact H1|]. split; [exact H2|]. exists n. intro k. rewrite visible_setflt. exact (H3 k).
Qed.
Lemma Faulty_get_avail_then {A} (g : N -> M A) : (forall v, Faulty (g v)) -> Faulty (bind get_avail g).
Proof.
  intros Hg s Hf. unfold bind, get_avail. destruct (Hg (avail s) s Hf) as (H1 & H2 & n & H3).
  split; [exact H1|]. split; [exact H2|]. exists n. intro k. rewrite avail_setflt. exact (H3 k).
Qed.

(* ---------- primitives that request ---------- *)
Lemma Faulty_take_u8 : Faulty take_u8.
Proof.
  unfold take_u8. apply Faulty_bind; [apply Faulty_tick|]. intros _. apply Faulty_agnostic. agn.
  - destruct l0 as [[|p]|], r0 as [|b r']; reflexivity.
  - destruct l0 as [[|p]|], r0 as [|b r']; discriminate.
Qed.
Lemma Faulty_take_opt_u8 : Faulty take_opt_u8.
Proof.
  unfold take_opt_u8. apply Faulty_bind; [apply Faulty_tick|]. intros _. apply Faulty_agnostic. agn.
  - destruct l0 as [[|p]|], r0 as [|b r']; reflexivity.
  - destruct l0 as [[|p]|], r0 as [|b r']; discriminate.
Qed.
Lemma Faulty_need n : Faulty (need n).
Proof.
  unfold need. apply Faulty_bind; [apply Faulty_tick|]. intros _. apply Faulty_agnostic. agn.
  - change (avail {| rem := r0; lim := l0; flt := f |}) with (avail {| rem := r0; lim := l0; flt := None |}).
    destruct (avail _ <? n); reflexivity.
  - destruct (avail _ <? n); discriminate.
Qed.
Lemma Faulty_skip_all : Faulty skip_all_lim.
Proof.
  intros s Hf. unfold skip_all_lim.
  destruct (lim s) as [l|] eqn:El.
  - pose proof (Faulty_bind (need l) (fun _ => advance l) (Faulty_need l) (fun _ => Faulty_advance l) s Hf) as H.
    destruct H as (H1 & H2 & n & H3). split; [exact H1|]. split; [exact H2|]. exists n. intro k.
    specialize (H3 k). cbn [setflt lim]. rewrite El. exact H3.
  - cbn. split; [discriminate|]. split; [exact Hf|]. exists 0. intro k. cbn [setflt lim]. rewrite El.
    replace (0 <=? k) with true by lia. rewrite N.sub_0_r. reflexivity.
Qed.
Lemma Faulty_get_then {A} (g : src -> M A) :
  (forall s0, Faulty (g s0)) -> (forall s0 f, g (setflt s0 f) = g s0) -> Faulty (bind get g).
Proof.
  intros Hg Hind s Hf. unfold bind, get. destruct (Hg s s Hf) as (H1 & H2 & n & H3).
  split; [exact H1|]. split; [exact H2|]. exists n. intro k. rewrite Hind. exact (H3 k).
Qed.
Lemma Faulty_take_all : Faulty take_all_lim.
Proof.
  intros s Hf. unfold take_all_lim. destruct (lim s) as [l|] eqn:El.
  - assert (H : Faulty (need l ;;; s' <- get ;; advance l ;;; ret (firstN l (rem s')))).
    { apply Faulty_bind; [apply Faulty_need|]. intros _. apply Faulty_get_then.
      - intro s0. apply Faulty_bind; [apply Faulty_advance|]. intro. apply Faulty_ret.
      - intros s0 f. reflexivity. }
    destruct (H s Hf) as (H1 & H2 & n & H3). split; [exact H1|]. split; [exact H2|]. exists n. intro k.
    specialize (H3 k). cbn [setflt lim]. rewrite El. exact H3.
  - cbn. split; [discriminate|]. split; [exact Hf|]. exists 0. intro k. cbn [setflt lim]. rewrite El.
    replace (0 <=? k) with true by lia. rewrite N.sub_0_r. reflexivity.
Qed.
Lemma Faulty_slice_all : Faulty slice_all_lim.
Proof.
  intros s Hf. unfold slice_all_lim. destruct (lim s) as [l|] eqn:El.
  - assert (H : Faulty (need l ;;; s' <- get ;; ret (firstN l (rem s')))).
    { apply Faulty_bind; [apply Faulty_need|]. intros _. apply Faulty_get_then.
      - intro s0. apply Faulty_ret.
      - intros s0 f. reflexivity. }
    destruct (H s Hf) as (H1 & H2 & n & H3). split; [exact H1|]. split; [exact H2|]. exists n. intro k.
    specialize (H3 k). cbn [setflt lim]. rewrite El. exact H3.
  - cbn. split; [discriminate|]. split; [exact Hf|]. exists 0. intro k. cbn [setflt lim]. rewrite El.
    replace (0 <=? k) with true by lia. rewrite N.sub_0_r. reflexivity.
Qed.
Lemma Faulty_with_slice_all {T} (op : list N -> res T) :
  (forall c, op c <> SErr) -> Faulty (with_slice_all op).
Proof.
  intro Hop. unfold with_slice_all. apply Faulty_bind; [apply Faulty_slice_all|]. intro c.
  specialize (Hop c). destruct (op c); try congruence.
  - apply Faulty_bind; [apply Faulty_advance|]. intro. apply Faulty_ret.
  - apply Faulty_cerr.
  - apply Faulty_panic.
  - apply Faulty_nofuel.
Qed.
Lemma Faulty_src_exhausted : Faulty src_exhausted.
Proof.
  intros s Hf. unfold src_exhausted. destruct (lim s) as [[|p]|] eqn:El.
  - cbn. split; [discriminate|]. split; [exact Hf|]. exists 0. intro k. cbn [setflt lim]. rewrite El.
    replace (0 <=? k) with true by lia. rewrite N.sub_0_r. reflexivity.
  - cbn. split; [discriminate|]. split; [exact Hf|]. exists 0. intro k. cbn [setflt lim]. rewrite El.
    replace (0 <=? k) with true by lia. rewrite N.sub_0_r. reflexivity.
  - assert (H : Faulty (tick ;;; fun s' => match rem s' with [] => (Ok tt, s') | _ => (CErr, s') end)).
    { apply Faulty_bind; [apply Faulty_tick|]. intros _. apply Faulty_agnostic. agn.
      - destruct r0; reflexivity.
      - destruct r0; discriminate. }
    destruct (H s Hf) as (H1 & H2 & n & H3). split; [exact H1|]. split; [exact H2|]. exists n. intro k.
    specialize (H3 k). cbn [setflt lim]. rewrite El. exact H3.
Qed.

(* ---------- identifier and length octets ---------- *)
Lemma Faulty_tag_take_opt_from : Faulty tag_take_opt_from.
Proof.
  unfold tag_take_opt_from. apply Faulty_bind; [apply Faulty_take_opt_u8|]. intros [b|]; [|apply Faulty_ret].
  apply Faulty_if; [|apply Faulty_ret].
  apply Faulty_bind; [apply Faulty_take_u8|]. intro d1. apply Faulty_if; [apply Faulty_cerr|].
  apply Faulty_if; [apply Faulty_ret|].
  apply Faulty_bind; [apply Faulty_take_u8|]. intro d2. apply Faulty_if; [apply Faulty_ret|].
  apply Faulty_bind; [apply Faulty_take_u8|]. intro d3. apply Faulty_if; [apply Faulty_ret|apply Faulty_cerr].
Qed.
Lemma Faulty_tag_take_from : Faulty tag_take_from.
Proof.
  unfold tag_take_from. apply Faulty_bind; [apply Faulty_tag_take_opt_from|].
  intros [r|]; [apply Faulty_ret|apply Faulty_cerr].
Qed.
Lemma Faulty_length_take_from m : Faulty (length_take_from m).
Proof.
  unfold length_take_from. apply Faulty_bind; [apply Faulty_take_u8|]. intro b.
  apply Faulty_if; [apply Faulty_ret|]. apply Faulty_if; [apply Faulty_ret|].
  apply Faulty_if.
  { apply Faulty_bind; [apply Faulty_take_u8|]. intro. apply Faulty_if; [apply Faulty_ret|apply Faulty_cerr]. }
  apply Faulty_if.
  { apply Faulty_bind; [apply Faulty_take_u8|]. intro. apply Faulty_bind; [apply Faulty_take_u8|]. intro.
    apply Faulty_if; [apply Faulty_ret|apply Faulty_cerr]. }
  apply Faulty_if.
  { apply Faulty_bind; [apply Faulty_take_u8|]. intro. apply Faulty_bind; [apply Faulty_take_u8|]. intro.
    apply Faulty_bind; [apply Faulty_take_u8|]. intro. apply Faulty_if; [apply Faulty_ret|apply Faulty_cerr]. }
  apply Faulty_if; [|apply Faulty_cerr].
  apply Faulty_bind; [apply Faulty_take_u8|]. intro. apply Faulty_bind; [apply Faulty_take_u8|]. intro.
  apply Faulty_bind; [apply Faulty_take_u8|]. intro. apply Faulty_bind; [apply Faulty_take_u8|]. intro.
  apply Faulty_if; [apply Faulty_ret|apply Faulty_cerr].
Qed.
Lemma Faulty_tag_peek b v : Faulty (tag_peek b v).
Proof.
  unfold tag_peek. apply Faulty_if; [|apply Faulty_ret].
  apply Faulty_bind; [apply Faulty_tick|]. intros _. destruct v as [|d1 v2]; [apply Faulty_cerr|].
  apply Faulty_if; [apply Faulty_ret|].
  apply Faulty_bind; [apply Faulty_tick|]. intros _. destruct v2 as [|d2 v3]; [apply Faulty_cerr|].
  apply Faulty_if; [apply Faulty_ret|].
  apply Faulty_bind; [apply Faulty_tick|]. intros _. destruct v3 as [|d3 v4]; [apply Faulty_cerr|].
  apply Faulty_if; [apply Faulty_ret|apply Faulty_cerr].
Qed.
Lemma Faulty_tag_take_from_if e : Faulty (tag_take_from_if e).
Proof.
  unfold tag_take_from_if. apply Faulty_bind; [apply Faulty_tick|]. intros _.
  apply Faulty_get_visible_then. intros [|b v1]; [apply Faulty_ret|].
  apply Faulty_bind; [apply Faulty_tag_peek|]. intro t. apply Faulty_if; [|apply Faulty_ret].
  apply Faulty_bind; [apply Faulty_advance|]. intro. apply Faulty_ret.
Qed.

(* ---------- header processing, for every Faulty closure ---------- *)
Lemma Faulty_is_exhausted c : Faulty (is_exhausted c).
Proof.
  unfold is_exhausted. destruct (cst c); try apply Faulty_ret.
  apply Faulty_get_lim_then. intros [l|]; [apply Faulty_ret|apply Faulty_panic].
Qed.
Lemma Faulty_cons_exhausted c : Faulty (cons_exhausted c).
Proof.
  unfold cons_exhausted. destruct (cst c); try apply Faulty_ret; [apply Faulty_src_exhausted|].
  apply Faulty_bind; [apply Faulty_tag_take_from|]. intros [t k]. apply Faulty_if; [apply Faulty_cerr|].
  apply Faulty_bind; [apply Faulty_length_take_from|]. intro. apply Faulty_if; [apply Faulty_ret|apply Faulty_cerr].
Qed.
Lemma Faulty_content_exhausted ct : Faulty (content_exhausted ct).
Proof. destruct ct; [apply Faulty_src_exhausted|apply Faulty_cons_exhausted]. Qed.

Theorem Faulty_process_next_value {T} c exp (op : tag -> content -> M (T * content)) :
  (forall t ct, Faulty (op t ct)) -> Faulty (process_next_value c exp op).
Proof.
  intro Hop. unfold process_next_value.
  apply Faulty_bind; [apply Faulty_is_exhausted|]. intro ex. apply Faulty_if; [apply Faulty_ret|].
  apply Faulty_bind.
  { destruct exp as [e|].
    - apply Faulty_bind; [apply Faulty_tag_take_from_if|]. intro. apply Faulty_ret.
    - apply Faulty_if; [apply Faulty_tag_take_opt_from|].
      apply Faulty_bind; [apply Faulty_tag_take_from|]. intro. apply Faulty_ret. }
  intros [[t k]|]; [|apply Faulty_ret].
  apply Faulty_bind; [apply Faulty_length_take_from|]. intro l.
  apply Faulty_if.
  { destruct (cst c); try apply Faulty_cerr.
    apply Faulty_if; [apply Faulty_cerr|]. apply Faulty_if; [apply Faulty_cerr|apply Faulty_ret]. }
  destruct l as [n|].
  - apply Faulty_get_lim_then. intro old.
    apply Faulty_bind.
    { destruct old as [li|]; [apply Faulty_if; [apply Faulty_cerr|apply Faulty_ret]|apply Faulty_ret]. }
    intros _. apply Faulty_bind; [apply Faulty_set_limit|]. intros _.
    apply Faulty_bind; [apply Faulty_if; [apply Faulty_cerr|apply Faulty_ret]|]. intros _.
    apply Faulty_bind; [apply Hop|]. intros [r ct'].
    apply Faulty_bind; [apply Faulty_content_exhausted|]. intros _.
    apply Faulty_bind; [apply Faulty_set_limit|]. intros _. apply Faulty_ret.
  - apply Faulty_if; [apply Faulty_cerr|].
    apply Faulty_bind; [apply Hop|]. intros [r ct'].
    apply Faulty_bind; [apply Faulty_content_exhausted|]. intros _. apply Faulty_ret.
Qed.

(* the generic reader *)
Theorem Faulty_read_all fuel c : Faulty (read_all fuel c).
Proof.
  revert c. induction fuel as [|f IH]; intro c; cbn [read_all]; [apply Faulty_nofuel|].
  apply Faulty_bind.
  - apply Faulty_process_next_value. intros t [m|c'].
    + apply Faulty_bind; [apply Faulty_take_all|]. intro. apply Faulty_ret.
    + apply Faulty_bind; [apply IH|]. intros [kids c'']. apply Faulty_ret.
  - intros [[v|] c']; [|apply Faulty_ret].
    apply Faulty_bind; [apply IH|]. intros [vs c'']. apply Faulty_ret.
Qed.

(* skipping *)
Lemma Faulty_skip_unwind fuel st : Faulty (skip_unwind fuel st).
Proof.
  revert st. induction fuel as [|f IH]; intro st; cbn [skip_unwind]; [apply Faulty_nofuel|].
  destruct st as [|top st']; [apply Faulty_ret|].
  apply Faulty_get_lim_then. intros [[|p]|]; try apply Faulty_ret.
  destruct top as [l|]; [|apply Faulty_cerr].
  apply Faulty_bind; [apply Faulty_set_limit|]. intros _. apply IH.
Qed.

Theorem Faulty_skip_loop fuel : forall c fl st tr,
  Faulty (skip_loop fuel c fl st tr) /\ Faulty (skip_after fuel c fl st tr).
Proof.
  induction fuel as [|f IH]; intros c fl st tr; cbn [skip_loop skip_after];
    [split; apply Faulty_nofuel|].
  split.
  - apply Faulty_bind.
    { apply Faulty_if; [apply Faulty_tag_take_opt_from|].
      apply Faulty_bind; [apply Faulty_tag_take_from|]. intro. apply Faulty_ret. }
    intros [[t k]|]; [|apply Faulty_ret].
    apply Faulty_bind; [apply Faulty_length_take_from|]. intro l.
    apply Faulty_if.
    + apply Faulty_if.
      * apply Faulty_if; [apply Faulty_cerr|].
        destruct st as [|[x|] st']; [destruct (cst c); try apply Faulty_cerr; apply Faulty_ret
                                    |apply Faulty_cerr|apply IH].
      * destruct l as [n|]; [|apply Faulty_cerr].
        apply Faulty_if; [apply Faulty_cerr|].
        apply Faulty_bind; [apply Faulty_need|]. intros _.
        apply Faulty_bind; [apply Faulty_advance|]. intros _. apply IH.
    + apply Faulty_if; [apply Faulty_cerr|].
      destruct l as [n|].
      * apply Faulty_if; [apply Faulty_cerr|]. apply Faulty_if; [apply Faulty_cerr|].
        apply Faulty_get_lim_then. intros [li|].
        -- apply Faulty_if; [apply Faulty_cerr|].
           apply Faulty_bind; [apply Faulty_set_limit|]. intros _. apply IH.
        -- apply Faulty_bind; [apply Faulty_set_limit|]. intros _. apply IH.
      * apply Faulty_if; [apply Faulty_cerr|]. apply Faulty_if; [apply Faulty_cerr|]. apply IH.
  - apply Faulty_bind; [apply Faulty_skip_unwind|]. intros [st'|]; [apply IH|apply Faulty_ret].
Qed.

Theorem Faulty_skip_opt fuel c fl : Faulty (skip_opt fuel c fl).
Proof.
  unfold skip_opt. apply Faulty_bind; [apply Faulty_is_exhausted|]. intro ex.
  apply Faulty_if; [apply Faulty_ret|apply Faulty_skip_loop].
Qed.

(* the statement in the words of the property, for the generic reader on a
   whole input: *)
Corollary source_failure_surfaces fuel m d :
  exists n, forall k,
    let faulty := read_all fuel (mkCons Unbounded m) (mkSrc d None (Some k)) in
    let clean := read_all fuel (mkCons Unbounded m) (mkSrc d None None) in
    if n <=? k then fst faulty = fst clean else fst faulty = SErr.
Proof.
  destruct (Faulty_read_all fuel (mkCons Unbounded m) (mkSrc d None None) eq_refl) as (_ & _ & n & H).
  exists n. intro k. specialize (H k). cbv zeta. unfold setflt in H. cbn [rem lim] in H.
  destruct (n <=? k); [rewrite H; reflexivity|exact H].
Qed.
