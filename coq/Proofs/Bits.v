From Coq Require Import NArith ZArith Lia Bool ZifyBool ZifyN.
Open Scope N_scope.
Ltac Zify.zify_post_hook ::= Z.div_mod_to_equations.

Lemma land_ones_k x k : N.land x (2^k - 1) = x mod 2^k.
Proof. replace (2^k - 1) with (N.ones k) by (rewrite N.ones_equiv; lia). apply N.land_ones. Qed.
Lemma land_127 x : N.land x 127 = x mod 128. Proof. exact (land_ones_k x 7). Qed.
Lemma land_31 x : N.land x 31 = x mod 32. Proof. exact (land_ones_k x 5). Qed.
Lemma land_63 x : N.land x 63 = x mod 64. Proof. exact (land_ones_k x 6). Qed.
Lemma land_255 x : N.land x 255 = x mod 256. Proof. exact (land_ones_k x 8). Qed.
Lemma shiftr_k x k : N.shiftr x k = x / 2^k. Proof. apply N.shiftr_div_pow2. Qed.
Lemma shiftl_k x k : N.shiftl x k = x * 2^k. Proof. apply N.shiftl_mul_pow2. Qed.

(* single-bit masks: land x 2^k = 2^k * ((x / 2^k) mod 2) *)
Lemma land_pow2 x k : N.land x (2^k) = 2^k * ((x / 2^k) mod 2).
Proof.
  rewrite <- N.testbit_spec'. apply N.bits_inj; intro i.
  rewrite N.land_spec, N.pow2_bits_eqb, N.mul_comm.
  destruct (N.eqb_spec k i) as [->|Hne].
  - rewrite andb_true_r, N.mul_pow2_bits_high, N.sub_diag by lia.
    destruct (N.testbit x i); reflexivity.
  - rewrite andb_false_r. symmetry. destruct (N.ltb_spec i k).
    + apply N.mul_pow2_bits_low; lia.
    + rewrite N.mul_pow2_bits_high by lia.
      replace (i - k) with (N.succ (N.pred (i - k))) by lia.
      destruct (N.testbit x k); cbn [N.b2n]; [|apply N.bits_0].
      apply N.bits_above_log2. cbn. lia.
Qed.
Lemma land_128 x : N.land x 128 = 128 * ((x / 128) mod 2). Proof. exact (land_pow2 x 7). Qed.
Lemma land_32 x : N.land x 32 = 32 * ((x / 32) mod 2). Proof. exact (land_pow2 x 5). Qed.

(* lor of disjoint = add *)
Lemma lor_add_disjoint a b : N.land a b = 0 -> N.lor a b = a + b.
Proof. intro H. rewrite <- N.lxor_lor by exact H. symmetry. apply N.add_nocarry_lxor. exact H. Qed.
Lemma land_shiftl_low a b k : b < 2^k -> N.land (a * 2^k) b = 0.
Proof.
  intro H. apply N.bits_inj; intro i. rewrite N.land_spec, N.bits_0.
  destruct (N.ltb_spec i k).
  - rewrite N.mul_pow2_bits_low by lia. reflexivity.
  - destruct (N.eq_dec b 0) as [->|Hb]; [rewrite N.bits_0; apply andb_false_r|].
    rewrite (N.bits_above_log2 b i); [apply andb_false_r|].
    apply N.log2_lt_pow2; [lia|]. apply N.lt_le_trans with (2^k); [exact H|]. apply N.pow_le_mono_r; lia.
Qed.
Lemma lor_shiftl a b k : b < 2^k -> N.lor (N.shiftl a k) b = a * 2^k + b.
Proof. intro H. rewrite shiftl_k. apply lor_add_disjoint. apply land_shiftl_low; exact H. Qed.



Lemma lor_mul_pow2 a b k : b < 2^k -> N.lor (a * 2^k) b = a * 2^k + b.
Proof. intro H. apply lor_add_disjoint. apply land_shiftl_low; exact H. Qed.

(* ---- forms with the constant on the left (as written in tag.rs) ---- *)
Lemma land_31_l x : N.land 31 x = x mod 32. Proof. rewrite N.land_comm. apply land_31. Qed.
Lemma land_127_l x : N.land 127 x = x mod 128. Proof. rewrite N.land_comm. apply land_127. Qed.
Lemma land_128_l x : N.land 128 x = 128 * ((x / 128) mod 2). Proof. rewrite N.land_comm. apply land_128. Qed.
Lemma land_192 x : x < 256 -> N.land x 192 = 64 * (x / 64).
Proof.
  intro H. change 192 with (N.lor 128 64). rewrite N.land_lor_distr_r.
  rewrite land_128. change 64 with (2^6) at 1. rewrite land_pow2.
  rewrite lor_add_disjoint.
  - change (2^6) with 64. lia.
  - change (2^6) with 64.
    replace (128 * ((x / 128) mod 2)) with ((x / 128) mod 2 * 2^7) by (change (2^7) with 128; lia).
    apply land_shiftl_low. change (2^7) with 128. lia.
Qed.
Lemma land_223 x : x < 256 -> N.land x 223 = x - 32 * ((x / 32) mod 2).
Proof.
  intro H.
  assert (E : N.land x 255 = x) by (rewrite land_255; lia).
  change 255 with (N.lor 223 32) in E. rewrite N.land_lor_distr_r in E.
  rewrite lor_add_disjoint in E.
  - rewrite land_32 in E. lia.
  - apply N.bits_inj; intro i. rewrite !N.land_spec, N.bits_0.
    assert (Hd : N.testbit 223 i && N.testbit 32 i = false)
      by (rewrite <- N.land_spec; change (N.land 223 32) with 0; apply N.bits_0).
    destruct (N.testbit x i), (N.testbit 223 i), (N.testbit 32 i); cbn in *; congruence.
Qed.
Lemma lor_32 a : (a / 32) mod 2 = 0 -> N.lor a 32 = a + 32.
Proof.
  intro H. apply lor_add_disjoint. rewrite land_32. lia.
Qed.
Lemma lor_128_low x : x < 128 -> N.lor x 128 = x + 128.
Proof. intro H. apply lor_add_disjoint. rewrite land_128. lia. Qed.
Lemma lor_cls k y : y < 64 -> N.lor (k * 64) y = k * 64 + y.
Proof. intro H. change 64 with (2^6). apply lor_mul_pow2. exact H. Qed.
Lemma lor_mul_128 a b : b < 128 -> N.lor (a * 128) b = a * 128 + b.
Proof. intro H. change 128 with (2^7). apply lor_mul_pow2. exact H. Qed.
Lemma lor3_septets a b c : b < 128 -> c < 128 ->
  N.lor (N.lor (a * 16384) (b * 128)) c = a * 16384 + b * 128 + c.
Proof.
  intros Hb Hc.
  replace (a * 16384) with (a * 128 * 128) by lia.
  rewrite (lor_add_disjoint (a * 128 * 128) (b * 128)).
  - replace (a * 128 * 128 + b * 128) with ((a * 128 + b) * 128) by lia.
    rewrite lor_mul_128 by exact Hc. lia.
  - replace (a * 128 * 128) with (a * 2^14) by (change (2^14) with 16384; lia).
    apply land_shiftl_low. change (2^14) with 16384. lia.
Qed.
Lemma land_7 x : N.land x 7 = x mod 8. Proof. exact (land_ones_k x 3). Qed.

