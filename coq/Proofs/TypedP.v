(* Typed fields: reading a primitive value of the grammar with a typed leaf
   reader is the leaf's decode of the value's content (composition of the
   structure theorems with the leaf laws: C04/C05 for records of typed
   fields). *)
From Coq Require Import Lia ZifyBool ZifyN.
Require Import BV.Model.Base BV.Model.SrcB BV.Model.Length BV.Model.Tag BV.Model.Twos BV.Model.Int
               BV.Model.BitStr BV.Model.Oid BV.Model.Content BV.Model.Prog.
Require Import BV.Proofs.Bits BV.Proofs.SrcBP BV.Proofs.LengthP BV.Proofs.TagP BV.Proofs.ContentP
               BV.Proofs.WinP BV.Proofs.TotalP BV.Proofs.DeltaP BV.Proofs.GrammarP.
Arguments N.add : simpl never. Arguments N.sub : simpl never.
Arguments N.ltb : simpl never. Arguments N.leb : simpl never. Arguments N.eqb : simpl never.
Arguments N.min : simpl never.

(* ---- the typed leaf readers are window-isolated ---- *)
Lemma Win_int_check_head : Win int_check_head.
Proof.
  unfold int_check_head. apply Win_bind; [apply Win_tick|]. intros _ w r1 r2 f. rewrite !visible_W.
  destruct w as [|b0 [|b1 v]]; [reflexivity| |].
  - exists 0, f. split; [lia|]. split; reflexivity.
  - destruct (((b0 =? 0) && negb (bit8 b1)) || ((b0 =? 255) && bit8 b1)); [reflexivity|].
    exists 0, f. split; [lia|]. split; reflexivity.
Qed.
Lemma Win_uns_check_head : Win uns_check_head.
Proof.
  unfold uns_check_head. apply Win_bind; [apply Win_int_check_head|]. intros _ w r1 r2 f. rewrite !visible_W.
  destruct w as [|b0 v]; [reflexivity|]. destruct (bit8 b0); [reflexivity|].
  exists 0, f. split; [lia|]. split; reflexivity.
Qed.

Ltac win_auto :=
  repeat first
    [ apply Win_cerr | apply Win_ret | apply Win_if
    | apply Win_bind; [apply Win_take_u8|intros ?]
    | apply Win_bind; [apply Win_remaining|intros ?]
    | apply Win_bind; [apply Win_take_all|intros ?] ].

Theorem Win_int_accessor ty : Win (int_accessor ty).
Proof.
  assert (Hs : forall w, Win (signed_from_primitive w)).
  { intro w. unfold signed_from_primitive. apply Win_bind; [apply Win_int_check_head|]. intro. apply Win_with_slice_all. }
  assert (Hu : forall w, Win (unsigned_from_primitive w)).
  { intro w. unfold unsigned_from_primitive. apply Win_bind; [apply Win_uns_check_head|]. intro. apply Win_with_slice_all. }
  unfold int_accessor.
  destruct ty as [|p]; [|destruct p as [p|p|]; [destruct p as [p|p|]; [destruct p as [p|p|]| destruct p as [p|p|]|]
                                              |destruct p as [p|p|]; [destruct p as [p|p|]| destruct p as [p|p|]|]|]];
    try apply Hs; try apply Hu.
  all: try (destruct p; apply Hu).
  all: try (unfold u8_from_primitive, u16_from_primitive; apply Win_bind; [apply Win_uns_check_head|]; intro; win_auto).
  unfold i8_from_primitive. apply Win_bind; [apply Win_int_check_head|]. intro. win_auto.
Qed.

Lemma Win_to_bool m : Win (to_bool m).
Proof. unfold to_bool. win_auto. Qed.
Lemma Win_to_null : Win to_null.
Proof. unfold to_null. win_auto. Qed.
Lemma Win_integer_from_primitive : Win integer_from_primitive.
Proof.
  unfold integer_from_primitive. apply Win_bind; [apply Win_take_all|]. intros [|b0 [|b1 r]]; win_auto.
Qed.

Theorem Win_typed_prim ty m : Win (typed_prim ty m).
Proof.
  assert (Hdef : Win (v <- int_accessor ty;; ret [v])).
  { apply Win_bind; [apply Win_int_accessor|]. intro. apply Win_ret. }
  unfold typed_prim.
  destruct ty as [|p]; [exact Hdef|].
  do 5 (try destruct p as [p|p|]); try exact Hdef.
  all: (apply Win_bind; [|intro; apply Win_ret]).
  all: try (unfold bit_skip_prim, bit_from_prim; win_auto; apply Win_skip_all).
  all: try apply Win_to_null.
  all: try apply Win_to_bool.
  all: try apply Win_integer_from_primitive.
  all: try (unfold unsigned_int_from_primitive; apply Win_bind; [apply Win_uns_check_head|]; intro; apply Win_integer_from_primitive).
  all: try (unfold oid_skip_prim; apply Win_with_slice_all).
  unfold oid_from_prim. apply Win_bind; [apply Win_take_all|]. intro c. destruct (oid_check_content c); win_auto.
Qed.

(* ---- a typed read of a primitive field ---- *)
Definition prim_closure {T} (op : mode -> M T) : tag -> content -> M (T * content) :=
  fun _ ct => match ct with
              | CPrim m' => v <- op m' ;; ret (v, CPrim m')
              | CCons _ => cerr
              end.

Lemma W_nil_r c f : W c [] f = mkSrc c (Some (len c)) f.
Proof. unfold W. rewrite app_nil_r. reflexivity. Qed.

(* C04 direction: a well-formed primitive value read through a typed leaf
   reader yields exactly the leaf's decode of its content *)
Theorem typed_field_read {T} (op : mode -> M T) m t c lw cc rest l :
  Win (op m) -> legal_tag t -> tag_eqb t END_OF_VALUE = false -> lenoct m (len c) lw ->
  cmd cc = m -> octets_ok ((tag_write false t ++ lw ++ c) ++ rest) = true ->
  lim_ge l (len (tag_write false t ++ lw ++ c)) -> may_start cc l ->
  fst (process_next_value cc None (prim_closure op) (mkSrc ((tag_write false t ++ lw ++ c) ++ rest) l None))
  = res_map (fun v => (Some v, cc)) (prim_decode (op m) c).
Proof.
  intros Hw Ht He Hlw Hm Hok Hl Hst. subst m.
  rewrite <- !app_assoc in *. rewrite !len_app in Hl.
  assert (Hl' : lim_ge l (len (tag_write false t) + len lw)) by (eapply lim_ge_mono; [|exact Hl]; lia).
  rewrite (pnv_header cc (prim_closure op) t false lw (Definite_ (len c)) (c ++ rest) l Ht Hok (Hlw (c ++ rest)) Hl' Hst).
  unfold pnv_tail. rewrite He.
  set (l1 := lim_sub l (len (tag_write false t) + len lw)).
  assert (Hl1 : lim_ge l1 (len c)).
  { subst l1. destruct l as [x|]; cbn [lim_ge lim_sub] in *; [lia|trivial]. }
  unfold bind at 1. unfold get_lim at 1. cbn [lim]. cbv beta iota.
  unfold bind at 1. rewrite (lim_check l1 (len c) Hl1). cbv beta iota.
  unfold bind at 1. unfold set_limit at 1. cbn [rem flt]. cbv beta iota.
  cbn [andb]. unfold bind at 1. unfold ret at 1. cbv beta iota.
  change (mkSrc (c ++ rest) (Some (len c)) None) with (W c rest None).
  unfold prim_decode. change (pure_src c (Some (len c))) with (mkSrc c (Some (len c)) None). rewrite <- (W_nil_r c None).
  cbn [prim_closure]. unfold bind at 1. unfold bind at 1. unfold bind at 3.
  pose proof (Hw c rest [] None) as HW.
  destruct (op (cmd cc) (W c rest None)) as [[a| | | |] s1] eqn:E1.
  - destruct HW as (k & f1 & Hk & -> & E2). rewrite E2. unfold ret at 1. cbv beta iota.
    cbn [content_exhausted]. unfold bind at 1. unfold bind at 2. rewrite !src_exhausted_W.
    destruct (len (skipN k c) =? 0); reflexivity.
  - destruct (op (cmd cc) (W c [] None)) as [r0 s0]. cbn [fst] in HW. subst r0. reflexivity.
  - destruct (op (cmd cc) (W c [] None)) as [r0 s0]. cbn [fst] in HW. subst r0. reflexivity.
  - destruct (op (cmd cc) (W c [] None)) as [r0 s0]. cbn [fst] in HW. subst r0. reflexivity.
  - destruct (op (cmd cc) (W c [] None)) as [r0 s0]. cbn [fst] in HW. subst r0. reflexivity.
Qed.

(* C05 direction: a typed read that succeeds has consumed exactly one
   well-formed primitive value, and delivers the leaf's decode of its content *)
Theorem typed_field_sound {T} (op : mode -> M T) cc s v c' s' :
  Win (op (cmd cc)) -> (forall z, Safe (St true z) (op (cmd cc)) (fun _ => St true z)) ->
  nf s -> octets_ok (rem s) = true ->
  process_next_value cc None (prim_closure op) s = (Ok (Some v, c'), s') ->
  c' = cc /\ exists t lw c,
    legal_tag t /\ tag_eqb t END_OF_VALUE = false /\ lenoct (cmd cc) (len c) lw /\
    rem s = (tag_write false t ++ lw ++ c) ++ rem s' /\
    consumed s s' (len (tag_write false t ++ lw ++ c)) /\
    prim_decode (op (cmd cc)) c = Ok v.
Proof.
  intros Hw Hst Hn Hok H.
  destruct (pnv_inv cc (prim_closure op) s (Some v) c' s' Hn Hok H) as [(Ho & _)|[(Ho & _)|X]]; try discriminate.
  destruct X as (tg & k & lw & lv & r2 & Hleg & Hrem & Hspec & Hlg & Ht).
  set (a := len (tag_write k tg) + len lw) in *.
  unfold pnv_tail in Ht.
  destruct (tag_eqb tg END_OF_VALUE) eqn:He.
  { destruct (cst cc); try discriminate. destruct k; [discriminate|]. destruct (negb (length_is_zero lv)); discriminate. }
  destruct lv as [n|].
  2:{ destruct (negb k || mode_eqb (cmd cc) Der); [discriminate|].
      apply bind_ok_inv in Ht as ([r ct'] & s4 & H4 & _). discriminate. }
  apply bind_ok_inv in Ht as (old & s1 & H1 & Ht). unfold get_lim in H1. injection H1 as <- <-. cbn [lim] in Ht.
  set (l2 := lim_sub (lim s) a) in *.
  apply bind_ok_inv in Ht as ([] & s2 & H2 & Ht). apply lim_check_inv in H2 as [-> Hl2].
  apply bind_ok_inv in Ht as ([] & s3 & H3 & Ht). unfold set_limit in H3. cbn [rem flt] in H3. injection H3 as <-.
  apply bind_ok_inv in Ht as ([] & s3' & H3 & Ht).
  assert (Hcer : s3' = mkSrc r2 (Some n) None).
  { destruct (k && mode_eqb (cmd cc) Cer); [discriminate|]. injection H3 as <-. reflexivity. }
  subst s3'. cbv zeta in Ht.
  apply bind_ok_inv in Ht as ([r ct'] & s4 & H4 & Ht).
  destruct k; [discriminate|]. cbn [prim_closure] in H4.
  apply bind_ok_inv in H4 as (v0 & s4' & H4 & H4'). injection H4' as <- <- <-.
  apply bind_ok_inv in Ht as ([] & s5 & H5 & Ht).
  apply bind_ok_inv in Ht as ([] & s6 & H6 & Ht). injection Ht as <- <- <-.
  unfold set_limit in H6. injection H6 as <-.
  (* lockstep: the declared length fits the data *)
  pose proof (Hst ((Z.of_N (len r2) - Z.of_N n)%Z, n) (mkSrc r2 (Some n) None) eq_refl) as HS.
  rewrite H4 in HS. destruct HS as (Hn4 & [Hl4 Hd4]).
  { split; [reflexivity|]. unfold Dl. cbn [lim rem fst snd]. lia. }
  cbn [content_exhausted] in H5.
  unfold L, lk in Hl4. destruct (lim s4') as [l4|] eqn:El4; [|discriminate].
  assert (Hl40 : l4 = 0).
  { unfold src_exhausted in H5. rewrite El4 in H5. destruct l4; [reflexivity|discriminate]. }
  subst l4. unfold Dl in Hd4. rewrite El4 in Hd4. cbn [fst snd] in Hd4.
  assert (Hfit : n <= len r2) by lia.
  (* the content window *)
  set (c := firstN n r2). set (rest := skipN n r2).
  assert (Hr2 : r2 = c ++ rest) by (symmetry; apply firstN_skipN).
  assert (Hc : len c = n) by (apply len_firstN_le; exact Hfit).
  assert (Hwin : mkSrc r2 (Some n) None = W c rest None) by (unfold W; rewrite <- Hr2, Hc; reflexivity).
  rewrite Hwin in H4. pose proof (Hw c rest [] None) as HW. rewrite H4 in HW.
  destruct HW as (k & f1 & Hk & -> & E2).
  rewrite src_exhausted_W in H5. destruct (len (skipN k c) =? 0) eqn:E0; [|discriminate]. injection H5 as <-.
  assert (Hnil : skipN k c = []) by (destruct (skipN k c); [reflexivity|rewrite len_cons in E0; lia]).
  split; [reflexivity|]. exists tg, lw, c.
  split; [exact Hleg|]. split; [exact He|].
  split; [rewrite Hc; intro r'; eapply length_spec_indep; eauto|].
  unfold W. rewrite Hnil. cbn [app rem lim flt].
  split; [rewrite Hrem, Hr2, <- !app_assoc; reflexivity|]. split.
  - unfold consumed. cbn [lim]. unfold l2. rewrite lim_sub_sub, !len_app, Hc. unfold a.
    split; [f_equal; lia|]. unfold l2, a in *.
    destruct (lim s) as [x|]; cbn [lim_ge lim_sub] in *; [lia|trivial].
  - unfold prim_decode. change (pure_src c (Some (len c))) with (mkSrc c (Some (len c)) None).
    rewrite <- (W_nil_r c None). unfold bind at 1. rewrite E2. unfold bind at 1.
    rewrite src_exhausted_W, Hnil. reflexivity.
Qed.

(* ---- instances: a fixed-width INTEGER field ---- *)
Require Import BV.Proofs.IntP BV.Proofs.IntEncP BV.Proofs.EncGrammarP BV.Model.Encode.

Theorem int_field_roundtrip ty v t d cc rest l : ty < 10 ->
  in_range (ty_signed ty) (ty_width ty) v = true -> tag_ok t ->
  tlv_write t false (enc_int ty v) = Ok d ->
  octets_ok (d ++ rest) = true -> lim_ge l (len d) -> may_start cc l ->
  fst (process_next_value cc None (prim_closure (fun _ => int_accessor ty)) (mkSrc (d ++ rest) l None))
  = Ok (Some v, cc).
Proof.
  intros Hty Hr [Hl He] Hw Hok Hlim Hst. unfold tlv_write in Hw.
  destruct (length_write (len (enc_int ty v))) as [lw| | | |] eqn:E; try discriminate. injection Hw as <-.
  rewrite (typed_field_read (fun _ => int_accessor ty) (cmd cc) t (enc_int ty v) lw cc rest l
             (Win_int_accessor ty) Hl He (lenoct_write _ _ _ E) eq_refl Hok Hlim Hst).
  rewrite (int_roundtrip ty v Hty Hr). reflexivity.
Qed.

Theorem int_field_der_canonical ty cc s v c' s' : ty < 10 -> cmd cc = Der ->
  nf s -> octets_ok (rem s) = true ->
  process_next_value cc None (prim_closure (fun _ => int_accessor ty)) s = (Ok (Some v, c'), s') ->
  exists t d, tlv_write t false (enc_int ty v) = Ok d /\ rem s = d ++ rem s'.
Proof.
  intros Hty Hm Hn Hok H.
  destruct (typed_field_sound (fun _ => int_accessor ty) cc s v c' s' (Win_int_accessor ty)
              (fun z => St_int_accessor ty z) Hn Hok H) as (_ & t & lw & c & Hl & He & Hlw & Hrem & _ & Hd).
  exists t, (tag_write false t ++ lw ++ c). split; [|exact Hrem].
  assert (Hokc : octets_ok c = true).
  { rewrite Hrem in Hok. apply octets_ok_app_l in Hok. apply octets_ok_app_r in Hok. apply octets_ok_app_r in Hok. exact Hok. }
  rewrite (int_der_canonical ty c v Hty Hokc Hd).
  rewrite Hm in Hlw. apply lenoct_strict_is_written in Hlw; [|discriminate].
  unfold tlv_write. rewrite Hlw. reflexivity.
Qed.
