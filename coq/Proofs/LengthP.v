(* Proofs about Model/Length.v (property C13). *)
From Coq Require Import Lia ZifyBool ZifyN.
Require Import BV.Model.Base BV.Model.SrcB BV.Model.Length.
Require Import BV.Proofs.Bits BV.Proofs.SrcBP.
Ltac Zify.zify_post_hook ::= Z.div_mod_to_equations.
Arguments N.add : simpl never. Arguments N.sub : simpl never.
Arguments N.mul : simpl never. Arguments N.ltb : simpl never.
Arguments N.leb : simpl never. Arguments N.eqb : simpl never.
Arguments N.div : simpl never. Arguments N.modulo : simpl never.
Arguments N.land : simpl never. Arguments N.lor : simpl never.
Arguments N.shiftl : simpl never. Arguments N.shiftr : simpl never.

(* ---------- specification (X.690 8.1.3.3-8.1.3.5) ---------- *)
(* w is a shortest-form definite length: one octet below 128, or 0x80+k
   followed by k >= 1 octets without a leading zero whose value is >= 128 *)
Definition min_len_ok (w : list N) : bool :=
  match w with
  | [] => false
  | [b] => b <? 128
  | b :: ds => (b =? 128 + len ds) && octets_ok ds
               && negb (hd 0 ds =? 0) && (128 <=? be_val ds)
  end.
Definition len_value (w : list N) : N :=
  match w with [] => 0 | [b] => b | _ :: ds => be_val ds end.

Lemma lor2 a c : c < 256 -> N.lor (N.shiftl a 8) c = a * 256 + c.
Proof. intros. rewrite lor_shiftl by (cbn; lia). reflexivity. Qed.
Lemma lor3 a c e : c < 256 -> e < 256 ->
  N.lor (N.lor (N.shiftl a 16) (N.shiftl c 8)) e = a * 65536 + c * 256 + e.
Proof.
  intros. rewrite !shiftl_k. rewrite (lor_mul_pow2 a (c * 2^8) 16) by (cbn; lia).
  replace (a * 2^16 + c * 2^8) with ((a * 2^8 + c) * 2^8) by (cbn; lia).
  rewrite lor_mul_pow2 by (cbn; lia). cbn. lia.
Qed.
Lemma lor4 a c e f : c < 256 -> e < 256 -> f < 256 ->
  N.lor (N.lor (N.lor (N.shiftl a 24) (N.shiftl c 16)) (N.shiftl e 8)) f
  = a * 16777216 + c * 65536 + e * 256 + f.
Proof.
  intros. rewrite !shiftl_k.
  rewrite (lor_mul_pow2 a (c * 2^16) 24) by (cbn; lia).
  replace (a * 2^24 + c * 2^16) with ((a * 2^8 + c) * 2^16) by (cbn; lia).
  rewrite (lor_mul_pow2 _ (e * 2^8) 16) by (cbn; lia).
  replace ((a * 2^8 + c) * 2^16 + e * 2^8) with (((a * 2^8 + c) * 2^8 + e) * 2^8) by (cbn; lia).
  rewrite lor_mul_pow2 by (cbn; lia). cbn. lia.
Qed.

Ltac list_eq :=
  repeat match goal with
  | |- Ok _ = Ok _ => f_equal
  | |- _ :: _ = _ :: _ => f_equal
  end; try reflexivity; try lia.

(* ---------- writer ---------- *)
Lemma length_write_cases n :
  length_write n =
    if n <? 128 then Ok [n] else
    if n <? 256 then Ok [129; n] else
    if n <? 65536 then Ok [130; n / 256; n mod 256] else
    if n <? 16777216 then Ok [131; n / 65536; (n / 256) mod 256; n mod 256] else
    if n <? 4294967296 then
      Ok [132; n / 16777216; (n / 65536) mod 256; (n / 256) mod 256; n mod 256]
    else Panic.
Proof.
  unfold length_write, u8. rewrite !land_255, !shiftr_k.
  change (2^8) with 256. change (2^16) with 65536. change (2^24) with 16777216.
  destruct (n <? 128) eqn:E1; [list_eq|].
  destruct (n <? 256) eqn:E2; [list_eq|].
  destruct (n <? 65536) eqn:E3; [list_eq|].
  destruct (n <? 16777216) eqn:E4; [list_eq|].
  destruct (n <? 4294967296) eqn:E5; [list_eq|].
  reflexivity.
Qed.

Theorem length_write_minimal n w :
  length_write n = Ok w -> min_len_ok w = true /\ len_value w = n.
Proof.
  rewrite length_write_cases.
  destruct (n <? 128) eqn:E1; [intros [= <-]; cbn; split; [lia|reflexivity]|].
  destruct (n <? 256) eqn:E2.
  { intros [= <-]. unfold min_len_ok, len_value, be_val, octets_ok, octet_ok, len. cbn. split; lia. }
  destruct (n <? 65536) eqn:E3.
  { intros [= <-]. unfold min_len_ok, len_value, be_val, octets_ok, octet_ok, len. cbn. split; lia. }
  destruct (n <? 16777216) eqn:E4.
  { intros [= <-]. unfold min_len_ok, len_value, be_val, octets_ok, octet_ok, len. cbn. split; lia. }
  destruct (n <? 4294967296) eqn:E5; [|discriminate].
  intros [= <-]. unfold min_len_ok, len_value, be_val, octets_ok, octet_ok, len. cbn. split; lia.
Qed.

Theorem length_write_total n :
  n < 2^32 -> exists w, length_write n = Ok w.
Proof.
  intro H. change (2^32) with 4294967296 in H. rewrite length_write_cases.
  repeat match goal with |- context [if ?c then _ else _] => destruct c eqn:? end;
    try (eexists; reflexivity). lia.
Qed.

Theorem length_write_panics n : 2^32 <= n -> length_write n = Panic /\ length_encoded_len n = Panic.
Proof.
  intro H. change (2^32) with 4294967296 in H. unfold length_write, length_encoded_len.
  repeat match goal with |- context [if ?c then _ else _] => destruct c eqn:?; try lia end.
  split; reflexivity.
Qed.

Theorem length_encoded_len_correct n w :
  length_write n = Ok w -> length_encoded_len n = Ok (len w).
Proof.
  unfold length_write, length_encoded_len.
  repeat match goal with |- context [if ?c then _ else _] => destruct c eqn:? end;
    intros [= <-]; reflexivity.
Qed.

(* ---------- reader ---------- *)
Lemma msb_clear b : b < 256 -> (N.land b 128 =? 0) = (b <? 128).
Proof. intro H. rewrite land_128. lia. Qed.

(* what the reader must do on every octet string (no limit in force) *)
Definition length_read_spec (m : mode) (d : list N) : res (length_ * list N) :=
  match d with
  | [] => CErr
  | b0 :: r =>
    if b0 <? 128 then Ok (Definite_ b0, r)
    else if b0 =? 128 then Ok (Indefinite_, r)
    else let k := b0 - 128 in
      if 4 <? k then CErr
      else if len r <? k then CErr
      else let ds := firstN k r in
        if is_ber m || min_len_ok (b0 :: ds)
        then Ok (Definite_ (be_val ds), skipN k r) else CErr
  end.

Ltac step_take :=
  match goal with
  | |- context [bind take_u8 ?f (mkSrc (?b :: ?r) ?l None)] =>
      rewrite (bind_ok take_u8 f (mkSrc (b :: r) l None) b (mkSrc r (lim_sub l 1) None))
        by (apply take_u8_cons; cbn; trivial); cbv beta
  | |- context [bind take_u8 ?f (mkSrc [] ?l None)] =>
      rewrite (bind_cerr take_u8 f (mkSrc [] l None) (mkSrc [] l None))
        by (apply take_u8_nil); cbv beta
  end.

Theorem length_read_spec_correct m d :
  octets_ok d = true ->
  fst (length_take_from m (pure_src d None)) = res_map fst (length_read_spec m d) /\
  (forall v r, length_read_spec m d = Ok (v, r) ->
     length_take_from m (pure_src d None) = (Ok v, pure_src r None)).
Proof.
  intro Hok. unfold pure_src, length_take_from, length_read_spec.
  destruct d as [|b0 r]; [split; [reflexivity|discriminate]|].
  cbn [octets_ok forallb] in Hok. apply andb_true_iff in Hok as [Hb0 Hr].
  unfold octet_ok in Hb0.
  step_take. cbn [lim_sub]. rewrite msb_clear by lia.
  destruct (b0 <? 128) eqn:E0; [split; [reflexivity|intros v r' [= <- <-]; reflexivity]|].
  destruct (b0 =? 128) eqn:E128; [split; [reflexivity|intros v r' [= <- <-]; reflexivity]|].
  destruct (b0 =? 129) eqn:E129.
  { assert (b0 = 129) as -> by lia. change (129 - 128) with 1. change (4 <? 1) with false. cbv iota.
    destruct r as [|a r1]; [step_take; split; [reflexivity|discriminate]|].
    step_take. cbn [octets_ok forallb] in Hr. apply andb_true_iff in Hr as [Ha Hr1]. unfold octet_ok in Ha.
    rewrite len_cons. replace (1 + len r1 <? 1) with false by lia.
    unfold firstN, skipN. change (N.to_nat 1) with 1%nat. change (N.to_nat 2) with 2%nat. change (N.to_nat 3) with 3%nat. change (N.to_nat 4) with 4%nat. cbn [firstn skipn]. cbn [lim_sub].
    replace (min_len_ok [129; a]) with (127 <? a)
      by (unfold min_len_ok, be_val, octets_ok, octet_ok, len; cbn; lia).
    replace (be_val [a]) with a by (unfold be_val; cbn; lia).
    destruct (is_ber m || (127 <? a)); split; try reflexivity; try discriminate.
    intros v r' [= <- <-]. reflexivity. }
  destruct (b0 =? 130) eqn:E130.
  { assert (b0 = 130) as -> by lia. change (130 - 128) with 2. change (4 <? 2) with false. cbv iota.
    destruct r as [|a [|c r1]]; try (repeat step_take; split; [reflexivity|discriminate]).
    do 2 step_take. cbn [octets_ok forallb] in Hr. apply andb_true_iff in Hr as [Ha Hr].
    apply andb_true_iff in Hr as [Hc Hr1]. unfold octet_ok in Ha, Hc.
    rewrite !len_cons. replace (1 + (1 + len r1) <? 2) with false by lia.
    unfold firstN, skipN. change (N.to_nat 1) with 1%nat. change (N.to_nat 2) with 2%nat. change (N.to_nat 3) with 3%nat. change (N.to_nat 4) with 4%nat. cbn [firstn skipn]. cbn [lim_sub].
    rewrite lor2 by lia.
    replace (min_len_ok [130; a; c]) with (255 <? a * 256 + c)
      by (unfold min_len_ok, be_val, octets_ok, octet_ok, len; cbn; lia).
    replace (be_val [a; c]) with (a * 256 + c) by (unfold be_val; cbn; lia).
    destruct (is_ber m || _); split; try reflexivity; try discriminate.
    intros v r' [= <- <-]. reflexivity. }
  destruct (b0 =? 131) eqn:E131.
  { assert (b0 = 131) as -> by lia. change (131 - 128) with 3. change (4 <? 3) with false. cbv iota.
    destruct r as [|a [|c [|e r1]]]; try (repeat step_take; split; [reflexivity|discriminate]).
    do 3 step_take. cbn [octets_ok forallb] in Hr. apply andb_true_iff in Hr as [Ha Hr].
    apply andb_true_iff in Hr as [Hc Hr]. apply andb_true_iff in Hr as [He Hr1].
    unfold octet_ok in Ha, Hc, He.
    rewrite !len_cons. replace (1 + (1 + (1 + len r1)) <? 3) with false by lia.
    unfold firstN, skipN. change (N.to_nat 1) with 1%nat. change (N.to_nat 2) with 2%nat. change (N.to_nat 3) with 3%nat. change (N.to_nat 4) with 4%nat. cbn [firstn skipn]. cbn [lim_sub].
    rewrite lor3 by lia.
    replace (min_len_ok [131; a; c; e]) with (65535 <? a * 65536 + c * 256 + e)
      by (unfold min_len_ok, be_val, octets_ok, octet_ok, len; cbn; lia).
    replace (be_val [a; c; e]) with (a * 65536 + c * 256 + e) by (unfold be_val; cbn; lia).
    destruct (is_ber m || _); split; try reflexivity; try discriminate.
    intros v r' [= <- <-]. reflexivity. }
  destruct (b0 =? 132) eqn:E132.
  { assert (b0 = 132) as -> by lia. change (132 - 128) with 4. change (4 <? 4) with false. cbv iota.
    destruct r as [|a [|c [|e [|f r1]]]]; try (repeat step_take; split; [reflexivity|discriminate]).
    do 4 step_take. cbn [octets_ok forallb] in Hr. apply andb_true_iff in Hr as [Ha Hr].
    apply andb_true_iff in Hr as [Hc Hr]. apply andb_true_iff in Hr as [He Hr].
    apply andb_true_iff in Hr as [Hf Hr1]. unfold octet_ok in Ha, Hc, He, Hf.
    rewrite !len_cons. replace (1 + (1 + (1 + (1 + len r1))) <? 4) with false by lia.
    unfold firstN, skipN. change (N.to_nat 1) with 1%nat. change (N.to_nat 2) with 2%nat. change (N.to_nat 3) with 3%nat. change (N.to_nat 4) with 4%nat. cbn [firstn skipn]. cbn [lim_sub].
    rewrite lor4 by lia.
    replace (min_len_ok [132; a; c; e; f]) with (16777215 <? a * 16777216 + c * 65536 + e * 256 + f)
      by (unfold min_len_ok, be_val, octets_ok, octet_ok, len; cbn; lia).
    replace (be_val [a; c; e; f]) with (a * 16777216 + c * 65536 + e * 256 + f) by (unfold be_val; cbn; lia).
    destruct (is_ber m || _); split; try reflexivity; try discriminate.
    intros v r' [= <- <-]. reflexivity. }
  replace (4 <? b0 - 128) with true by lia.
  split; [reflexivity|discriminate].
Qed.

(* ---------- write then read, in every mode, under any sufficient limit ---------- *)
Theorem length_read_back n m w r l :
  length_write n = Ok w -> lim_ge l (len w) ->
  length_take_from m (mkSrc (w ++ r) l None)
  = (Ok (Definite_ n), mkSrc r (lim_sub l (len w)) None).
Proof.
  rewrite length_write_cases. unfold length_take_from.
  Ltac take_l := match goal with
  | |- context [bind take_u8 ?f (mkSrc (?b :: ?r) ?l None)] =>
      rewrite (bind_ok take_u8 f (mkSrc (b :: r) l None) b (mkSrc r (lim_sub l 1) None))
        by (apply take_u8_cons; repeat apply lim_ge_sub; eapply lim_ge_mono; [|eassumption]; cbn; lia); cbv beta
  end.
  destruct (n <? 128) eqn:E1.
  { intros [= <-] Hl. cbn [app]. take_l. rewrite msb_clear by lia. rewrite E1. reflexivity. }
  destruct (n <? 256) eqn:E2.
  { intros [= <-] Hl. cbn [app]. take_l. change (N.land 129 128 =? 0) with false.
    change (129 =? 128) with false. change (129 =? 129) with true. cbv iota. take_l.
    replace (127 <? n) with true by lia. rewrite orb_true_r. rewrite !lim_sub_sub. reflexivity. }
  destruct (n <? 65536) eqn:E3.
  { intros [= <-] Hl. cbn [app]. take_l. change (N.land 130 128 =? 0) with false.
    change (130 =? 128) with false. change (130 =? 129) with false. change (130 =? 130) with true.
    cbv iota. do 2 take_l. rewrite lor2 by lia.
    replace (255 <? n / 256 * 256 + n mod 256) with true by lia. rewrite orb_true_r.
    rewrite !lim_sub_sub. unfold ret. do 3 f_equal. lia. }
  destruct (n <? 16777216) eqn:E4.
  { intros [= <-] Hl. cbn [app]. take_l. change (N.land 131 128 =? 0) with false.
    change (131 =? 128) with false. change (131 =? 129) with false. change (131 =? 130) with false.
    change (131 =? 131) with true. cbv iota. do 3 take_l. rewrite lor3 by lia.
    replace (65535 <? _) with true by lia. rewrite orb_true_r.
    rewrite !lim_sub_sub. unfold ret. do 3 f_equal. lia. }
  destruct (n <? 4294967296) eqn:E5; [|discriminate].
  intros [= <-] Hl. cbn [app]. take_l. change (N.land 132 128 =? 0) with false.
  change (132 =? 128) with false. change (132 =? 129) with false. change (132 =? 130) with false.
  change (132 =? 131) with false. change (132 =? 132) with true. cbv iota. do 4 take_l. rewrite lor4 by lia.
  replace (16777215 <? _) with true by lia. rewrite orb_true_r.
  rewrite !lim_sub_sub. unfold ret. do 3 f_equal. lia.
Qed.
