(* Composition over schemas (C04): records of records of typed fields.
   A schema is a tree of tagged leaves (fixed-width INTEGER, BOOLEAN, NULL) and
   tagged SEQUENCE-like constructed values; encoding a value of the schema with
   the encoders and decoding the octets with the typed readers (expected-tag
   reads, mandatory) returns the value, consumes exactly the octets written,
   in every mode, at any position. *)
From Coq Require Import Lia ZifyBool ZifyN ZifyNat.
Require Import BV.Model.Base BV.Model.SrcB BV.Model.Length BV.Model.Tag BV.Model.Twos BV.Model.Int
               BV.Model.Content BV.Model.OctStr BV.Model.Encode BV.Model.Prog BV.Model.BitStr BV.Model.Oid.
Require Import BV.Proofs.Bits BV.Proofs.SrcBP BV.Proofs.LengthP BV.Proofs.TagP BV.Proofs.ContentP BV.Proofs.OctGrammarP
               BV.Proofs.WinP BV.Proofs.TotalP BV.Proofs.DeltaP BV.Proofs.IntP BV.Proofs.IntEncP
               BV.Proofs.EncodeP BV.Proofs.GrammarP BV.Proofs.EncGrammarP BV.Proofs.TypedP BV.Proofs.BitStrP BV.Proofs.OidP.
Arguments N.add : simpl never. Arguments N.sub : simpl never.
Arguments N.ltb : simpl never. Arguments N.leb : simpl never. Arguments N.eqb : simpl never.
Arguments N.min : simpl never.

(* ---- the header step with an expected tag (take_*_if) ---- *)
Lemma firstN_app_ge {A} n (a b : list A) : len a <= n -> firstN n (a ++ b) = a ++ firstN (n - len a) b.
Proof.
  intro H. unfold firstN, len in *. rewrite firstn_app. f_equal.
  - apply firstn_all2. lia.
  - f_equal. lia.
Qed.

Lemma tag_if_at_limit t k r l : legal_tag t -> lim_ge l (len (tag_write k t)) ->
  tag_take_from_if t (mkSrc (tag_write k t ++ r) l None)
  = (Ok (Some k), mkSrc r (lim_sub l (len (tag_write k t))) None).
Proof.
  intros [Hc Hn] Hl. rewrite (tag_take_from_if_peek_gen t (mkSrc (tag_write k t ++ r) l None) eq_refl). cbn [rem lim].
  assert (Hv : exists r', visible (mkSrc (tag_write k t ++ r) l None) = tag_write k t ++ r').
  { rewrite visible_eq. cbn [lim rem]. destruct l as [x|]; [|eexists; reflexivity].
    cbn [lim_ge] in Hl. rewrite firstN_app_ge by exact Hl. eexists; reflexivity. }
  destruct Hv as [r' ->]. rewrite (peek_tag_write _ _ t k r' Hc Hn).
  replace (tag_eqb t t) with true by (symmetry; apply tag_eqb_eq; reflexivity).
  rewrite skipN_app_exact. reflexivity.
Qed.

Lemma pnv_header_if {T} (c : cons) (op : tag -> content -> M (T * content)) t k lw v rest l :
  legal_tag t -> octets_ok (tag_write k t ++ lw ++ rest) = true ->
  length_read_spec (cmd c) (lw ++ rest) = Ok (v, rest) ->
  lim_ge l (len (tag_write k t) + len lw) -> may_start c l ->
  process_next_value c (Some t) op (mkSrc (tag_write k t ++ lw ++ rest) l None)
  = pnv_tail c op t k v (mkSrc rest (lim_sub l (len (tag_write k t) + len lw)) None).
Proof.
  intros Ht Hok Hs Hl Hst. unfold process_next_value.
  assert (Hex : is_exhausted c (mkSrc (tag_write k t ++ lw ++ rest) l None)
                = (Ok false, mkSrc (tag_write k t ++ lw ++ rest) l None)).
  { apply is_exhausted_open. unfold cons_open, may_start in *. destruct (cst c); auto. }
  rewrite (bind_ok _ _ _ _ _ Hex). cbv iota.
  assert (Hl1 : lim_ge l (len (tag_write k t))) by (eapply lim_ge_mono; [|exact Hl]; lia).
  unfold bind at 1. unfold bind at 1. rewrite (tag_if_at_limit t k (lw ++ rest) l Ht Hl1). unfold ret at 1. cbv beta iota.
  assert (Hlen : length_take_from (cmd c) (mkSrc (lw ++ rest) (lim_sub l (len (tag_write k t))) None)
                 = (Ok v, mkSrc rest (lim_sub l (len (tag_write k t) + len lw)) None)).
  { rewrite (length_at_limit (cmd c) lw rest _ v (octets_ok_app_r _ _ Hok) Hs (lim_ge_sub _ _ _ Hl)).
    rewrite lim_sub_sub. reflexivity. }
  rewrite (bind_ok _ _ _ _ _ Hlen). reflexivity.
Qed.

(* a typed leaf field read with its expected tag: the value, and the exact state afterwards *)
Theorem leaf_field_if {T} (op : mode -> M T) t c lw v cc rest l :
  Win (op (cmd cc)) -> (forall z, Safe (St true z) (op (cmd cc)) (fun _ => St true z)) ->
  legal_tag t -> tag_eqb t END_OF_VALUE = false -> lenoct (cmd cc) (len c) lw ->
  prim_decode (op (cmd cc)) c = Ok v ->
  octets_ok ((tag_write false t ++ lw ++ c) ++ rest) = true ->
  lim_ge l (len (tag_write false t ++ lw ++ c)) -> may_start cc l ->
  process_next_value cc (Some t) (prim_closure op) (mkSrc ((tag_write false t ++ lw ++ c) ++ rest) l None)
  = (Ok (Some v, cc), mkSrc rest (lim_sub l (len (tag_write false t ++ lw ++ c))) None).
Proof.
  intros Hw Hsafe Ht He Hlw Hdec Hok Hl Hst.
  rewrite <- !app_assoc in *. rewrite !len_app in *.
  assert (Hl' : lim_ge l (len (tag_write false t) + len lw)) by (eapply lim_ge_mono; [|exact Hl]; lia).
  rewrite (pnv_header_if cc (prim_closure op) t false lw (Definite_ (len c)) (c ++ rest) l Ht Hok (Hlw (c ++ rest)) Hl' Hst).
  unfold pnv_tail. rewrite He.
  set (l1 := lim_sub l (len (tag_write false t) + len lw)).
  assert (Hl1 : lim_ge l1 (len c)).
  { subst l1. destruct l as [x|]; cbn [lim_ge lim_sub] in *; [lia|trivial]. }
  unfold bind at 1. unfold get_lim at 1. cbn [lim]. cbv beta iota.
  unfold bind at 1. rewrite (lim_check l1 (len c) Hl1). cbv beta iota.
  unfold bind at 1. unfold set_limit at 1. cbn [rem flt]. cbv beta iota.
  cbn [andb]. unfold bind at 1. unfold ret at 1. cbv beta iota.
  change (mkSrc (c ++ rest) (Some (len c)) None) with (W c rest None).
  unfold prim_decode in Hdec. change (pure_src c (Some (len c))) with (mkSrc c (Some (len c)) None) in Hdec.
  rewrite <- (W_nil_r c None) in Hdec.
  cbn [prim_closure]. unfold bind at 1. unfold bind at 1.
  pose proof (Hw c rest [] None) as HW.
  pose proof (Hsafe ((Z.of_N (len (c ++ rest)) - Z.of_N (len c))%Z, len c) (W c rest None) eq_refl) as HS.
  destruct (op (cmd cc) (W c rest None)) as [[a| | | |] s1] eqn:E1.
  - destruct HW as (k & f1 & Hk & -> & E2).
    destruct HS as (Hn1 & _). { split; [reflexivity|]. unfold Dl, W. cbn [lim rem fst snd]. lia. }
    unfold nf, W in Hn1. cbn [flt] in Hn1. subst f1.
    unfold bind at 1 in Hdec. rewrite E2 in Hdec. unfold bind at 1 in Hdec. rewrite src_exhausted_W in Hdec.
    destruct (len (skipN k c) =? 0) eqn:E0; [|discriminate]. injection Hdec as <-.
    unfold ret at 1. cbv beta iota. cbn [content_exhausted]. unfold bind at 1. rewrite src_exhausted_W, E0.
    cbv beta iota. unfold bind, set_limit, ret. unfold W. cbn [rem flt].
    assert (Hnil : skipN k c = []) by (destruct (skipN k c); [reflexivity|rewrite len_cons in E0; lia]).
    rewrite Hnil. cbn [app]. subst l1. rewrite lim_sub_sub.
    replace (len (tag_write false t) + len lw + len c) with (len (tag_write false t) + (len lw + len c)) by lia.
    reflexivity.
  - exfalso. unfold bind at 1 in Hdec. destruct (op (cmd cc) (W c [] None)) as [r0 s0]. cbn [fst] in HW. subst r0. cbn [fst] in Hdec. discriminate.
  - exfalso. unfold bind at 1 in Hdec. destruct (op (cmd cc) (W c [] None)) as [r0 s0]. cbn [fst] in HW. subst r0. cbn [fst] in Hdec. discriminate.
  - exfalso. unfold bind at 1 in Hdec. destruct (op (cmd cc) (W c [] None)) as [r0 s0]. cbn [fst] in HW. subst r0. cbn [fst] in Hdec. discriminate.
  - exfalso. unfold bind at 1 in Hdec. destruct (op (cmd cc) (W c [] None)) as [r0 s0]. cbn [fst] in HW. subst r0. cbn [fst] in Hdec. discriminate.
Qed.

(* ---- schemas, values, encoding and typed decoding ---- *)
Inductive leafkind := LInt (ty : N) | LBool | LNull | LOid | LBits | LInteger | LUnsigned.
Inductive schema := SLeaf (t : tag) (k : leafkind) | SSeq (t : tag) (fields : list schema).
Inductive sval := VInt (v : Z) | VBool (b : bool) | VNull | VSeq (vs : list sval) | VOpt (o : option sval)
  | VBytes (c : list N) | VBits (unused : N) (bits : list N).

Definition lop (k : leafkind) (m : mode) : M sval :=
  match k with
  | LInt ty => v <- int_accessor ty ;; ret (VInt v)
  | LBool => b <- to_bool m ;; ret (VBool b)
  | LNull => to_null ;;; ret VNull
  | LOid => c <- oid_from_prim ;; ret (VBytes c)
  | LBits => v <- bit_from_prim m ;; ret (VBits (fst v) (snd v))
  (* Integer::take_from / Unsigned::take_from: arbitrary-size integers, the value is its content octets *)
  | LInteger => c <- integer_from_primitive ;; ret (VBytes c)
  | LUnsigned => c <- unsigned_int_from_primitive ;; ret (VBytes c)
  end.
Definition lenc (k : leafkind) (v : sval) : option (list N) :=
  match k, v with
  | LInt ty, VInt x => if (ty <? 10) && in_range (ty_signed ty) (ty_width ty) x then Some (enc_int ty x) else None
  | LBool, VBool b => Some (enc_bool b)
  | LNull, VNull => Some []
  | LOid, VBytes c => if octets_ok c && oid_ok c then Some c else None
  (* BIT STRING values of at most 999 data octets (the primitive form every mode accepts) *)
  | LBits, VBits u c => if (u <=? 7) && negb ((len c =? 0) && (0 <? u)) && (len (u :: c) <=? 1000) then Some (u :: c) else None
  | LInteger, VBytes c => if octets_ok c && minimal c then Some c else None
  | LUnsigned, VBytes c => if octets_ok c && (minimal c && nonneg_head c) then Some c else None
  | _, _ => None
  end.

Fixpoint enc_s (s : schema) (v : sval) : option etree :=
  match s, v with
  | SLeaf t k, _ => option_map (EPrim t) (lenc k v)
  | SSeq t fs, VSeq vs =>
      option_map (fun es => ECons t (ESeq es))
        ((fix go (fs : list schema) (vs : list sval) : option (list etree) :=
            match fs, vs with
            | [], [] => Some []
            | f :: fr, x :: xr =>
                match enc_s f x, go fr xr with Some e, Some es => Some (e :: es) | _, _ => None end
            | _, _ => None
            end) fs vs)
  | _, _ => None
  end.
Fixpoint enc_l (fs : list schema) (vs : list sval) : option (list etree) :=
  match fs, vs with
  | [], [] => Some []
  | f :: fr, x :: xr => match enc_s f x, enc_l fr xr with Some e, Some es => Some (e :: es) | _, _ => None end
  | _, _ => None
  end.
Lemma enc_s_seq t fs vs : enc_s (SSeq t fs) (VSeq vs) = option_map (fun es => ECons t (ESeq es)) (enc_l fs vs).
Proof. reflexivity. Qed.

(* typed decoding: expected-tag, mandatory reads; a record reads its fields in order *)
Fixpoint dec_s (fuel : nat) (s : schema) (c : cons) : M (sval * cons) :=
  match fuel with
  | O => nofuel
  | S f =>
    match s with
    | SLeaf t k => mandatory (process_next_value c (Some t) (prim_closure (lop k)))
    | SSeq t fs =>
        mandatory (process_next_value c (Some t) (fun _ ct =>
          match ct with
          | CCons c' => r <- dec_l f fs c' ;; let '(vs, c'') := r in ret (VSeq vs, CCons c'')
          | CPrim _ => cerr
          end))
    end
  end
with dec_l (fuel : nat) (fs : list schema) (c : cons) : M (list sval * cons) :=
  match fuel with
  | O => nofuel
  | S f =>
    match fs with
    | [] => ret ([], c)
    | s :: r => x <- dec_s f s c ;; let '(v, c1) := x in
                y <- dec_l f r c1 ;; let '(vs, c2) := y in ret (v :: vs, c2)
    end
  end.

(* all tags of a schema are legal and not universal 0 *)
Fixpoint schema_ok (s : schema) : Prop :=
  match s with
  | SLeaf t _ => tag_ok t
  | SSeq t fs => tag_ok t /\ (fix go (l : list schema) : Prop := match l with [] => True | x :: r => schema_ok x /\ go r end) fs
  end.
Fixpoint schemas_ok (l : list schema) : Prop := match l with [] => True | x :: r => schema_ok x /\ schemas_ok r end.
Lemma schema_ok_seq t fs : schema_ok (SSeq t fs) <-> tag_ok t /\ schemas_ok fs.
Proof. cbn [schema_ok]. induction fs as [|x r IH]; cbn [schemas_ok]; tauto. Qed.

Fixpoint sdepth (s : schema) : nat :=
  match s with
  | SLeaf _ _ => 1%nat
  | SSeq _ fs => S ((fix go (l : list schema) : nat := match l with [] => 1%nat | x :: r => (sdepth x + go r)%nat end) fs)
  end.
Fixpoint sdepths (l : list schema) : nat := match l with [] => 1%nat | x :: r => (sdepth x + sdepths r)%nat end.
Lemma sdepth_seq t fs : sdepth (SSeq t fs) = S (sdepths fs). Proof. reflexivity. Qed.
Lemma sdepth_pos s : (1 <= sdepth s)%nat. Proof. destruct s; cbn [sdepth]; lia. Qed.

Fixpoint schema_ind' (P : schema -> Prop) (Hl : forall t k, P (SLeaf t k))
    (Hs : forall t fs, Forall P fs -> P (SSeq t fs)) (s : schema) : P s :=
  match s with
  | SLeaf t k => Hl t k
  | SSeq t fs =>
      Hs t fs ((fix go (l : list schema) : Forall P l :=
                  match l with
                  | [] => Forall_nil P
                  | x :: r => Forall_cons x (schema_ind' P Hl Hs x) (go r)
                  end) fs)
  end.

(* ---- the leaf laws, packaged ---- *)
Lemma prim_decode_map {A B} (op : M A) (f : A -> B) c :
  prim_decode (v <- op ;; ret (f v)) c = res_map f (prim_decode op c).
Proof.
  unfold prim_decode. unfold bind at 1 2. unfold bind at 2.
  destruct (op (pure_src c (Some (len c)))) as [[a| | | |] s1]; try reflexivity.
  unfold ret at 1. unfold bind. destruct (src_exhausted s1) as [[[]| | | |] s2]; reflexivity.
Qed.

Lemma leaf_law k m v c : lenc k v = Some c -> prim_decode (lop k m) c = Ok v.
Proof.
  destruct k as [ty| | | | | |], v as [x|b| |vs|o|cc|u bs]; cbn [lenc lop]; try discriminate.
  - destruct ((ty <? 10) && in_range (ty_signed ty) (ty_width ty) x) eqn:E; [|discriminate]. intros [= <-].
    apply andb_prop in E as [E1 E2]. rewrite prim_decode_map, (int_roundtrip ty x ltac:(lia) E2). reflexivity.
  - intros [= <-]. rewrite prim_decode_map, bool_roundtrip. reflexivity.
  - intros [= <-]. reflexivity.
  - destruct (octets_ok cc && oid_ok cc) eqn:E; [|discriminate]. intros [= <-]. apply andb_prop in E as [E1 E2].
    rewrite prim_decode_map, (oid_from_prim_spec cc E1), E2. reflexivity.
  - destruct ((u <=? 7) && negb ((len bs =? 0) && (0 <? u)) && (len (u :: bs) <=? 1000)) eqn:E; [|discriminate]. intros [= <-].
    apply andb_prop in E as [E E3]. apply andb_prop in E as [E1 E2].
    rewrite (prim_decode_map (bit_from_prim m) (fun v => VBits (fst v) (snd v))), bit_from_prim_spec. unfold bit_decode_spec.
    replace (1000 <? len (u :: bs)) with false by lia. rewrite andb_false_r. replace (7 <? u) with false by lia.
    apply negb_true_iff in E2. rewrite E2. reflexivity.
  - destruct (octets_ok cc && minimal cc) eqn:E; [|discriminate]. intros [= <-]. apply andb_prop in E as [E1 E2].
    rewrite prim_decode_map, (integer_from_prim_spec cc E1), E2. reflexivity.
  - destruct (octets_ok cc && (minimal cc && nonneg_head cc)) eqn:E; [|discriminate]. intros [= <-]. apply andb_prop in E as [E1 E2].
    rewrite prim_decode_map, (unsigned_int_from_prim_spec cc E1), E2. reflexivity.
Qed.
Lemma Win_lop k m : Win (lop k m).
Proof.
  destruct k; cbn [lop].
  - apply Win_bind; [apply Win_int_accessor|]. intro. apply Win_ret.
  - apply Win_bind; [apply Win_to_bool|]. intro. apply Win_ret.
  - apply Win_bind; [apply Win_to_null|]. intro. apply Win_ret.
  - apply Win_bind; [|intro; apply Win_ret]. unfold oid_from_prim. apply Win_bind; [apply Win_take_all|]. intro c. destruct (oid_check_content c); win_auto.
  - apply Win_bind; [|intro; apply Win_ret]. unfold bit_from_prim. win_auto.
  - apply Win_bind; [|intro; apply Win_ret]. unfold integer_from_primitive. apply Win_bind; [apply Win_take_all|].
    intros [|b0 [|b1 r]]; win_auto.
  - apply Win_bind; [|intro; apply Win_ret]. unfold unsigned_int_from_primitive. apply Win_bind; [apply Win_uns_check_head|].
    intro. unfold integer_from_primitive. apply Win_bind; [apply Win_take_all|]. intros [|b0 [|b1 r]]; win_auto.
Qed.
Lemma St_lop k m z : Safe (St true z) (lop k m) (fun _ => St true z).
Proof.
  destruct k; cbn [lop].
  - eapply Safe_bind; [apply St_int_accessor|]. intro. apply Safe_ret. auto.
  - eapply Safe_bind with (Q := fun _ => St true z); [|intro; apply Safe_ret; auto].
    unfold to_bool. eapply Safe_bind; [apply (St_take_u8 true z)|]. intro b.
    repeat (apply Safe_if); try apply Safe_cerr; apply Safe_ret; auto.
  - eapply Safe_bind with (Q := fun _ => St true z); [|intro; apply Safe_ret; auto].
    unfold to_null. eapply Safe_bind; [apply St_remaining|]. intro r. apply Safe_if; [apply Safe_cerr|apply Safe_ret; auto].
  - eapply Safe_bind with (Q := fun _ => St true z); [|intro; apply Safe_ret; auto].
    unfold oid_from_prim. eapply Safe_bind; [apply St_take_all|]. intro c.
    destruct (oid_check_content c); try apply Safe_cerr. apply Safe_ret; auto.
  - eapply Safe_bind with (Q := fun _ => St true z); [|intro; apply Safe_ret; auto].
    unfold bit_from_prim. eapply Safe_bind; [apply St_remaining|]. intro r. apply Safe_if; [apply Safe_cerr|].
    eapply Safe_bind; [apply (St_take_u8 true z)|]. intro u. apply Safe_if; [apply Safe_cerr|].
    eapply Safe_bind; [apply St_remaining|]. intro r2. apply Safe_if; [apply Safe_cerr|].
    eapply Safe_bind; [apply St_take_all|]. intro. apply Safe_ret; auto.
  - eapply Safe_bind with (Q := fun _ => St true z); [|intro; apply Safe_ret; auto]. apply St_integer_from_primitive.
  - eapply Safe_bind with (Q := fun _ => St true z); [|intro; apply Safe_ret; auto].
    unfold unsigned_int_from_primitive. eapply Safe_bind; [apply St_uns_check_head|]. intro.
    eapply Safe_conseq; [apply St_integer_from_primitive|apply VZ_St|auto].
Qed.

(* ---- the composition theorem ---- *)
Definition ctx_ok (c : cons) (l : option N) : Prop :=
  cst c <> Done /\ (cst c = Definite -> exists x, l = Some x).
Lemma may_start_of c l n : ctx_ok c l -> lim_ge l n -> 1 <= n -> may_start c l.
Proof.
  intros [Hd Hx] Hl Hn. unfold may_start. destruct (cst c) eqn:E; auto; try congruence.
  destruct (Hx eq_refl) as [x ->]. exists x. split; [reflexivity|]. cbn in Hl. lia.
Qed.
Lemma ctx_ok_sub c l n : ctx_ok c l -> ctx_ok c (lim_sub l n).
Proof. intros [Hd Hx]. split; [exact Hd|]. intro E. destruct (Hx E) as [x ->]. cbn. eauto. Qed.

(* a reader in mode [m'] is handed octets written in mode [m]: the same mode, or DER output read as BER *)
Definition reads (m m' : mode) : Prop := m' = m \/ (m = Der /\ m' = Ber).
Lemma lenoct_reads m m' n lw : reads m m' -> lenoct m n lw -> lenoct m' n lw.
Proof. intros [->|[-> ->]] H; [exact H|exact (lenoct_to_ber _ _ _ H)]. Qed.

Definition RT (s : schema) : Prop :=
  forall v e m d, schema_ok s -> enc_s s v = Some e -> enc_write m e = Ok d ->
  1 <= len d /\
  forall fuel c rest l, (sdepth s <= fuel)%nat -> reads m (cmd c) -> octets_ok (d ++ rest) = true ->
    lim_ge l (len d) -> ctx_ok c l ->
    dec_s fuel s c (mkSrc (d ++ rest) l None) = (Ok (v, c), mkSrc rest (lim_sub l (len d)) None).

Definition RTL (fs : list schema) : Prop :=
  forall vs es m ds, schemas_ok fs -> enc_l fs vs = Some es -> enc_write m (ESeq es) = Ok ds ->
  forall fuel c rest l, (sdepths fs <= fuel)%nat -> reads m (cmd c) -> octets_ok (ds ++ rest) = true ->
    lim_ge l (len ds) -> ctx_ok c l ->
    dec_l fuel fs c (mkSrc (ds ++ rest) l None) = (Ok (vs, c), mkSrc rest (lim_sub l (len ds)) None).

Lemma enc_write_seq_cons m e er ds : enc_write m (ESeq (e :: er)) = Ok ds ->
  exists d1 ds2, enc_write m e = Ok d1 /\ enc_write m (ESeq er) = Ok ds2 /\ ds = d1 ++ ds2.
Proof.
  rewrite !enc_write_seq. cbn [fold_right]. destruct (enc_write m e) as [a| | | |]; try discriminate.
  cbn [res_bind]. destruct (fold_right _ _ er) as [b| | | |]; try discriminate. intros [= <-]. eauto.
Qed.

Lemma RTL_of_Forall fs : Forall RT fs -> RTL fs.
Proof.
  induction 1 as [|s r Hs Hr IH]; intros vs es m ds Hok He Hw fuel c rest l Hf Hm Ho Hl Hc.
  - destruct vs; [|discriminate]. injection He as <-. injection Hw as <-.
    destruct fuel as [|f]; [cbn in Hf; lia|]. cbn [dec_l app len length N.of_nat]. rewrite lim_sub_0. reflexivity.
  - destruct vs as [|v vr]; [discriminate|]. cbn [enc_l] in He.
    destruct (enc_s s v) as [e|] eqn:E1; [|discriminate]. destruct (enc_l r vr) as [er|] eqn:E2; [|discriminate].
    injection He as <-. destruct Hok as [Hok1 Hok2].
    destruct (enc_write_seq_cons m e er ds Hw) as (d1 & ds2 & W1 & W2 & ->).
    destruct (Hs v e m d1 Hok1 E1 W1) as [Hpos Hdec].
    cbn [sdepths] in Hf. pose proof (sdepth_pos s) as Hp1.
    assert (Hp2 : (1 <= sdepths r)%nat) by (destruct r; cbn [sdepths]; [lia|pose proof (sdepth_pos s0); lia]).
    destruct fuel as [|f]; [lia|]. cbn [dec_l]. rewrite <- app_assoc. rewrite len_app in Hl.
    rewrite (bind_ok _ _ _ _ _ (Hdec f c (ds2 ++ rest) l ltac:(lia) Hm ltac:(rewrite app_assoc; exact Ho)
                                   ltac:(eapply lim_ge_mono; [|exact Hl]; lia) Hc)).
    cbv iota beta.
    rewrite (bind_ok _ _ _ _ _ (IH vr er m ds2 Hok2 E2 W2 f c rest (lim_sub l (len d1)) ltac:(lia) Hm
                                   ltac:(rewrite <- app_assoc in Ho; apply octets_ok_app_r in Ho; exact Ho)
                                   ltac:(apply lim_ge_sub; exact Hl) (ctx_ok_sub _ _ _ Hc))).
    rewrite lim_sub_sub, len_app. reflexivity.
Qed.

Lemma RT_leaf t k : RT (SLeaf t k).
Proof.
  intros v e m d Hok He Hw. cbn [enc_s] in He. destruct (lenc k v) as [cc|] eqn:El; [|discriminate].
  injection He as <-. cbn [enc_write] in Hw. unfold tlv_write in Hw.
  destruct (length_write (len cc)) as [lw| | | |] eqn:Elw; try discriminate. injection Hw as <-.
  destruct Hok as [Hleg Heov].
  split. { rewrite len_app. pose proof (tag_write_len_pos false t). lia. }
  intros fuel c rest l Hf Hm Ho Hl Hc. destruct fuel as [|f]; [cbn in Hf; lia|]. cbn [dec_s].
  unfold mandatory.
  rewrite (bind_ok _ _ _ _ _ (leaf_field_if (lop k) t cc lw v c rest l (Win_lop k (cmd c)) (St_lop k (cmd c))
             Hleg Heov (lenoct_reads _ _ _ _ Hm (lenoct_write _ _ _ Elw)) (leaf_law k (cmd c) v cc El) Ho Hl
             (may_start_of c l _ Hc Hl ltac:(rewrite len_app; pose proof (tag_write_len_pos false t); lia)))).
  reflexivity.
Qed.

Lemma cons_exhausted_eoc m rest l : octets_ok (0 :: 0 :: rest) = true -> lim_ge l 2 ->
  cons_exhausted (mkCons Indefinite m) (mkSrc (0 :: 0 :: rest) l None) = (Ok tt, mkSrc rest (lim_sub l 2) None).
Proof.
  intros Ho Hl. unfold cons_exhausted. cbn [cst cmd].
  change (0 :: 0 :: rest) with (tag_write false END_OF_VALUE ++ [0] ++ rest).
  assert (Htw : len (tag_write false END_OF_VALUE) = 1) by reflexivity.
  assert (H0 : len [0] = 1) by reflexivity.
  assert (Hl1 : lim_ge l (len (tag_write false END_OF_VALUE))) by (eapply lim_ge_mono; [|exact Hl]; rewrite Htw; lia).
  rewrite (bind_ok _ _ _ _ _ (tag_at_limit END_OF_VALUE false ([0] ++ rest) l legal_eov Hl1)).
  change (tag_eqb END_OF_VALUE END_OF_VALUE) with true. cbn [negb orb].
  assert (Hl2 : lim_ge (lim_sub l (len (tag_write false END_OF_VALUE))) (len [0])).
  { apply lim_ge_sub. eapply lim_ge_mono; [|exact Hl]. rewrite Htw, H0. lia. }
  rewrite (bind_ok _ _ _ _ _ (length_at_limit m [0] rest _ (Definite_ 0)
             ltac:(apply octets_ok_cons in Ho as [_ Ho]; exact Ho) eq_refl Hl2)).
  cbn [length_is_zero N.eqb]. unfold ret. rewrite lim_sub_sub, Htw, H0. reflexivity.
Qed.

Lemma RT_seq t fs : Forall RT fs -> RT (SSeq t fs).
Proof.
  intros HF v e m d Hok He Hw. pose proof (RTL_of_Forall fs HF) as HL.
  destruct v as [x|b| |vs|o|cc|u bs]; try discriminate. rewrite enc_s_seq in He.
  destruct (enc_l fs vs) as [es|] eqn:El; [|discriminate]. injection He as <-.
  apply schema_ok_seq in Hok as [[Hleg Heov] Hoks].
  remember (ESeq es) as be eqn:Ebe. cbn [enc_write] in Hw. subst be.
  assert (Htw := tag_write_len_pos true t).
  destruct m.
  - (* BER: definite *)
    destruct (enc_len Ber (ESeq es)) as [n| | | |] eqn:En; try discriminate. cbn [res_bind] in Hw.
    destruct (length_write n) as [lw| | | |] eqn:Elw; try discriminate. cbn [res_bind] in Hw.
    destruct (enc_write Ber (ESeq es)) as [body| | | |] eqn:Eb; try discriminate. injection Hw as <-.
    rewrite enc_len_is_written, Eb in En. injection En as <-.
    split. { rewrite len_app. lia. }
    intros fuel c rest l Hf Hm Ho Hl Hc. rewrite sdepth_seq in Hf. destruct fuel as [|f]; [lia|]. cbn [dec_s].
    rewrite <- !app_assoc in *. rewrite !len_app in Hl.
    assert (Hl' : lim_ge l (len (tag_write true t) + len lw)) by (eapply lim_ge_mono; [|exact Hl]; lia).
    unfold mandatory.
    rewrite (bind_ok _ _ _ (Some (VSeq vs), c) (mkSrc rest (lim_sub l (len (tag_write true t) + (len lw + len body))) None)); [rewrite !len_app; reflexivity|].
    rewrite (pnv_header_if c _ t true lw (Definite_ (len body)) (body ++ rest) l Hleg Ho
               (lenoct_reads _ _ _ _ Hm (lenoct_write Ber _ _ Elw) _) Hl'
               (may_start_of c l _ Hc Hl' ltac:(lia))).
    unfold pnv_tail. rewrite Heov.
    set (l1 := lim_sub l (len (tag_write true t) + len lw)).
    assert (Hl1 : lim_ge l1 (len body)) by (subst l1; destruct l as [y|]; cbn [lim_ge lim_sub] in *; [lia|trivial]).
    unfold bind at 1. unfold get_lim at 1. cbn [lim]. cbv beta iota.
    unfold bind at 1. rewrite (lim_check l1 (len body) Hl1). cbv beta iota.
    unfold bind at 1. unfold set_limit at 1. cbn [rem flt]. cbv beta iota.
    assert (Hnc : mode_eqb (cmd c) Cer = false) by (destruct Hm as [->|[_ ->]]; reflexivity).
    rewrite Hnc. cbn [andb]. unfold bind at 1. unfold ret at 1. cbv beta iota.
    unfold bind at 1. unfold bind at 1.
    rewrite (HL vs es Ber body Hoks El Eb f (mkCons Definite (cmd c)) rest (Some (len body)) ltac:(lia) Hm
               ltac:(apply octets_ok_app_r in Ho; apply octets_ok_app_r in Ho; exact Ho) ltac:(cbn; lia)
               ltac:(split; [discriminate|intros _; eauto])).
    cbv beta iota. unfold ret at 1. cbv beta iota. cbn [lim_sub]. replace (len body - len body) with 0 by lia.
    cbn [content_exhausted cons_exhausted cst]. unfold bind at 1. rewrite src_exhausted_0. cbv beta iota.
    unfold bind, set_limit, ret. cbn [rem flt]. subst l1. rewrite lim_sub_sub.
    replace (len (tag_write true t) + len lw + len body) with (len (tag_write true t) + (len lw + len body)) by lia.
    reflexivity.
  - (* CER: indefinite *)
    destruct (enc_write Cer (ESeq es)) as [body| | | |] eqn:Eb; try discriminate. injection Hw as <-.
    split. { rewrite len_app. lia. }
    intros fuel c rest l Hf Hm Ho Hl Hc. rewrite sdepth_seq in Hf. destruct fuel as [|f]; [lia|]. cbn [dec_s].
    assert (Hm' : cmd c = Cer) by (destruct Hm as [E|[E _]]; [exact E|discriminate E]).
    rewrite <- !app_assoc in *. cbn [app] in *. rewrite <- (app_assoc body [0; 0] rest) in *. cbn [app] in *.
    change (128 :: body ++ 0 :: 0 :: rest) with ([128] ++ (body ++ 0 :: 0 :: rest)) in *.
    assert (Hlen : len (tag_write true t ++ 128 :: body ++ [0; 0]) = len (tag_write true t) + 1 + (len body + 2)).
    { rewrite len_app, len_cons, len_app. cbn [len length N.of_nat]. lia. }
    rewrite Hlen in Hl.
    assert (Hl' : lim_ge l (len (tag_write true t) + len [128])) by (eapply lim_ge_mono; [|exact Hl]; cbn [len length N.of_nat]; lia).
    unfold mandatory.
    rewrite (bind_ok _ _ _ (Some (VSeq vs), c) (mkSrc rest (lim_sub l (len (tag_write true t) + 1 + (len body + 2))) None));
      [rewrite Hlen; reflexivity|].
    rewrite (pnv_header_if c _ t true [128] Indefinite_ (body ++ 0 :: 0 :: rest) l Hleg Ho (lenoct_indef _ _) Hl'
               (may_start_of c l _ Hc Hl' ltac:(lia))).
    unfold pnv_tail. rewrite Heov. rewrite Hm'. cbn [negb orb mode_eqb].
    unfold bind at 1. unfold bind at 1.
    set (l1 := lim_sub l (len (tag_write true t) + len [128])).
    assert (Hl1 : lim_ge l1 (len body + 2)).
    { subst l1. change (len [128]) with 1. destruct l as [y|]; cbn [lim_ge lim_sub] in *; [lia|trivial]. }
    rewrite (HL vs es Cer body Hoks El Eb f (mkCons Indefinite Cer) (0 :: 0 :: rest) l1 ltac:(lia) (or_introl eq_refl)
               ltac:(apply octets_ok_app_r in Ho; apply octets_ok_app_r in Ho; exact Ho)
               ltac:(eapply lim_ge_mono; [|exact Hl1]; lia)
               ltac:(split; [discriminate|intro E; discriminate E])).
    cbv beta iota. unfold ret at 1. cbv beta iota. cbn [content_exhausted].
    rewrite (bind_ok _ _ _ _ _ (cons_exhausted_eoc Cer rest (lim_sub l1 (len body))
               ltac:(apply octets_ok_app_r in Ho; apply octets_ok_app_r in Ho; apply octets_ok_app_r in Ho; exact Ho)
               ltac:(apply lim_ge_sub; eapply lim_ge_mono; [|exact Hl1]; lia))).
    unfold ret. subst l1. rewrite !lim_sub_sub. change (len [128]) with 1.
    replace (len (tag_write true t) + 1 + len body + 2) with (len (tag_write true t) + 1 + (len body + 2)) by lia.
    reflexivity.
  - (* DER: definite *)
    destruct (enc_len Der (ESeq es)) as [n| | | |] eqn:En; try discriminate. cbn [res_bind] in Hw.
    destruct (length_write n) as [lw| | | |] eqn:Elw; try discriminate. cbn [res_bind] in Hw.
    destruct (enc_write Der (ESeq es)) as [body| | | |] eqn:Eb; try discriminate. injection Hw as <-.
    rewrite enc_len_is_written, Eb in En. injection En as <-.
    split. { rewrite len_app. lia. }
    intros fuel c rest l Hf Hm Ho Hl Hc. rewrite sdepth_seq in Hf. destruct fuel as [|f]; [lia|]. cbn [dec_s].
    rewrite <- !app_assoc in *. rewrite !len_app in Hl.
    assert (Hl' : lim_ge l (len (tag_write true t) + len lw)) by (eapply lim_ge_mono; [|exact Hl]; lia).
    unfold mandatory.
    rewrite (bind_ok _ _ _ (Some (VSeq vs), c) (mkSrc rest (lim_sub l (len (tag_write true t) + (len lw + len body))) None)); [rewrite !len_app; reflexivity|].
    rewrite (pnv_header_if c _ t true lw (Definite_ (len body)) (body ++ rest) l Hleg Ho
               (lenoct_reads _ _ _ _ Hm (lenoct_write Der _ _ Elw) _) Hl'
               (may_start_of c l _ Hc Hl' ltac:(lia))).
    unfold pnv_tail. rewrite Heov.
    set (l1 := lim_sub l (len (tag_write true t) + len lw)).
    assert (Hl1 : lim_ge l1 (len body)) by (subst l1; destruct l as [y|]; cbn [lim_ge lim_sub] in *; [lia|trivial]).
    unfold bind at 1. unfold get_lim at 1. cbn [lim]. cbv beta iota.
    unfold bind at 1. rewrite (lim_check l1 (len body) Hl1). cbv beta iota.
    unfold bind at 1. unfold set_limit at 1. cbn [rem flt]. cbv beta iota.
    assert (Hnc : mode_eqb (cmd c) Cer = false) by (destruct Hm as [->|[_ ->]]; reflexivity).
    rewrite Hnc. cbn [andb]. unfold bind at 1. unfold ret at 1. cbv beta iota.
    unfold bind at 1. unfold bind at 1.
    rewrite (HL vs es Der body Hoks El Eb f (mkCons Definite (cmd c)) rest (Some (len body)) ltac:(lia) Hm
               ltac:(apply octets_ok_app_r in Ho; apply octets_ok_app_r in Ho; exact Ho) ltac:(cbn; lia)
               ltac:(split; [discriminate|intros _; eauto])).
    cbv beta iota. unfold ret at 1. cbv beta iota. cbn [lim_sub]. replace (len body - len body) with 0 by lia.
    cbn [content_exhausted cons_exhausted cst]. unfold bind at 1. rewrite src_exhausted_0. cbv beta iota.
    unfold bind, set_limit, ret. cbn [rem flt]. subst l1. rewrite lim_sub_sub.
    replace (len (tag_write true t) + len lw + len body) with (len (tag_write true t) + (len lw + len body)) by lia.
    reflexivity.
Qed.

Theorem schema_roundtrip s : RT s.
Proof. induction s using schema_ind'; [apply RT_leaf|apply RT_seq; assumption]. Qed.

(* for a whole input: encode a value of the schema, decode the octets with the
   typed readers of the schema, get the value back, with nothing left over *)
Theorem schema_roundtrip_top s v e m m' d : schema_ok s -> enc_s s v = Some e -> enc_write m e = Ok d ->
  octets_ok d = true -> reads m m' ->
  decode_src m' (dec_s (sdepth s) s) (pure_src d None) = (Ok v, pure_src [] None).
Proof.
  intros Hok He Hw Ho Hr. destruct (schema_roundtrip s v e m d Hok He Hw) as [_ H].
  unfold decode_src, pure_src. rewrite <- (app_nil_r d) at 1.
  rewrite (bind_ok _ _ _ _ _ (H (sdepth s) (mkCons Unbounded m') [] None ltac:(lia) Hr
             ltac:(rewrite app_nil_r; exact Ho) I ltac:(split; [discriminate|intro E; discriminate E]))).
  reflexivity.
Qed.

(* non-vacuity: a record with a nested record *)
Example schema_example :
  let s := SSeq T_SEQUENCE [SLeaf T_INTEGER (LInt 2); SSeq T_SET [SLeaf T_BOOLEAN LBool; SLeaf T_NULL LNull]] in
  let v := VSeq [VInt (-300); VSeq [VBool true; VNull]] in
  schema_ok s /\ exists e, enc_s s v = Some e /\ enc_write Der e = Ok [48; 11; 2; 2; 254; 212; 49; 5; 1; 1; 255; 5; 0].
Proof.
  cbv zeta. split.
  - cbn. repeat split; try (left; reflexivity).
  - eexists. split; [reflexivity|]. vm_compute. reflexivity.
Qed.
