(* Composition over schemas (C04): records of records of typed fields.
   A schema is a tree of tagged leaves (fixed-width INTEGER, BOOLEAN, NULL) and
   tagged SEQUENCE-like constructed values; encoding a value of the schema with
   the encoders and decoding the octets with the typed readers (expected-tag
   reads, mandatory) returns the value, consumes exactly the octets written,
   in every mode, at any position. *)
From Coq Require Import Lia ZifyBool ZifyN ZifyNat.
Require Import BV.Model.Base BV.Model.SrcB BV.Model.Length BV.Model.Tag BV.Model.Twos BV.Model.Int
               BV.Model.Content BV.Model.OctStr BV.Model.Encode BV.Model.Prog.
Require Import BV.Proofs.Bits BV.Proofs.SrcBP BV.Proofs.LengthP BV.Proofs.TagP BV.Proofs.ContentP
               BV.Proofs.WinP BV.Proofs.TotalP BV.Proofs.DeltaP BV.Proofs.IntP BV.Proofs.IntEncP
               BV.Proofs.EncodeP BV.Proofs.GrammarP BV.Proofs.EncGrammarP BV.Proofs.TypedP.
Arguments N.add : simpl never. Arguments N.sub : simpl never.
Arguments N.ltb : simpl never. Arguments N.leb : simpl never. Arguments N.eqb : simpl never.
Arguments N.min : simpl never.

(* ---- the header step with an expected tag (take_*_if) ---- *)
Lemma firstN_app_ge {A} n (a b : list A) : len a <= n -> firstN n (a ++ b) = a ++ firstN (n - len a) b.
Proof.
  intro H. unfold firstN, len in *. rewrite firstn_app. f_equal.
  - apply firstn_all2. lia.
  - f_equal. lia.
Qed.

Lemma tag_if_at_limit t k r l : legal_tag t -> lim_ge l (len (tag_write k t)) ->
  tag_take_from_if t (mkSrc (tag_write k t ++ r) l None)
  = (Ok (Some k), mkSrc r (lim_sub l (len (tag_write k t))) None).
Proof.
  intros [Hc Hn] Hl. rewrite (tag_take_from_if_peek_gen t (mkSrc (tag_write k t ++ r) l None) eq_refl). cbn [rem lim].
  assert (Hv : exists r', visible (mkSrc (tag_write k t ++ r) l None) = tag_write k t ++ r').
  { rewrite visible_eq. cbn [lim rem]. destruct l as [x|]; [|eexists; reflexivity].
    cbn [lim_ge] in Hl. rewrite firstN_app_ge by exact Hl. eexists; reflexivity. }
  destruct Hv as [r' ->]. rewrite (peek_tag_write _ _ t k r' Hc Hn).
  replace (tag_eqb t t) with true by (symmetry; apply tag_eqb_eq; reflexivity).
  rewrite skipN_app_exact. reflexivity.
Qed.

Lemma pnv_header_if {T} (c : cons) (op : tag -> content -> M (T * content)) t k lw v rest l :
  legal_tag t -> octets_ok (tag_write k t ++ lw ++ rest) = true ->
  length_read_spec (cmd c) (lw ++ rest) = Ok (v, rest) ->
  lim_ge l (len (tag_write k t) + len lw) -> may_start c l ->
  process_next_value c (Some t) op (mkSrc (tag_write k t ++ lw ++ rest) l None)
  = pnv_tail c op t k v (mkSrc rest (lim_sub l (len (tag_write k t) + len lw)) None).
Proof.
  intros Ht Hok Hs Hl Hst. unfold process_next_value.
  assert (Hex : is_exhausted c (mkSrc (tag_write k t ++ lw ++ rest) l None)
                = (Ok false, mkSrc (tag_write k t ++ lw ++ rest) l None)).
  { apply is_exhausted_open. unfold cons_open, may_start in *. destruct (cst c); auto. }
  rewrite (bind_ok _ _ _ _ _ Hex). cbv iota.
  assert (Hl1 : lim_ge l (len (tag_write k t))) by (eapply lim_ge_mono; [|exact Hl]; lia).
  unfold bind at 1. unfold bind at 1. rewrite (tag_if_at_limit t k (lw ++ rest) l Ht Hl1). unfold ret at 1. cbv beta iota.
  assert (Hlen : length_take_from (cmd c) (mkSrc (lw ++ rest) (lim_sub l (len (tag_write k t))) None)
                 = (Ok v, mkSrc rest (lim_sub l (len (tag_write k t) + len lw)) None)).
  { rewrite (length_at_limit (cmd c) lw rest _ v (octets_ok_app_r _ _ Hok) Hs (lim_ge_sub _ _ _ Hl)).
    rewrite lim_sub_sub. reflexivity. }
  rewrite (bind_ok _ _ _ _ _ Hlen). reflexivity.
Qed.

(* a typed leaf field read with its expected tag: the value, and the exact state afterwards *)
Theorem leaf_field_if {T} (op : mode -> M T) t c lw v cc rest l :
  Win (op (cmd cc)) -> (forall z, Safe (St true z) (op (cmd cc)) (fun _ => St true z)) ->
  legal_tag t -> tag_eqb t END_OF_VALUE = false -> lenoct (cmd cc) (len c) lw ->
  prim_decode (op (cmd cc)) c = Ok v ->
  octets_ok ((tag_write false t ++ lw ++ c) ++ rest) = true ->
  lim_ge l (len (tag_write false t ++ lw ++ c)) -> may_start cc l ->
  process_next_value cc (Some t) (prim_closure op) (mkSrc ((tag_write false t ++ lw ++ c) ++ rest) l None)
  = (Ok (Some v, cc), mkSrc rest (lim_sub l (len (tag_write false t ++ lw ++ c))) None).
Proof.
  intros Hw Hsafe Ht He Hlw Hdec Hok Hl Hst.
  rewrite <- !app_assoc in *. rewrite !len_app in *.
  assert (Hl' : lim_ge l (len (tag_write false t) + len lw)) by (eapply lim_ge_mono; [|exact Hl]; lia).
  rewrite (pnv_header_if cc (prim_closure op) t false lw (Definite_ (len c)) (c ++ rest) l Ht Hok (Hlw (c ++ rest)) Hl' Hst).
  unfold pnv_tail. rewrite He.
  set (l1 := lim_sub l (len (tag_write false t) + len lw)).
  assert (Hl1 : lim_ge l1 (len c)).
  { subst l1. destruct l as [x|]; cbn [lim_ge lim_sub] in *; [lia|trivial]. }
  unfold bind at 1. unfold get_lim at 1. cbn [lim]. cbv beta iota.
  unfold bind at 1. rewrite (lim_check l1 (len c) Hl1). cbv beta iota.
  unfold bind at 1. unfold set_limit at 1. cbn [rem flt]. cbv beta iota.
  cbn [andb]. unfold bind at 1. unfold ret at 1. cbv beta iota.
  change (mkSrc (c ++ rest) (Some (len c)) None) with (W c rest None).
  unfold prim_decode in Hdec. change (pure_src c (Some (len c))) with (mkSrc c (Some (len c)) None) in Hdec.
  rewrite <- (W_nil_r c None) in Hdec.
  cbn [prim_closure]. unfold bind at 1. unfold bind at 1.
  pose proof (Hw c rest [] None) as HW.
  pose proof (Hsafe ((Z.of_N (len (c ++ rest)) - Z.of_N (len c))%Z, len c) (W c rest None) eq_refl) as HS.
  destruct (op (cmd cc) (W c rest None)) as [[a| | | |] s1] eqn:E1.
  - destruct HW as (k & f1 & Hk & -> & E2).
    destruct HS as (Hn1 & _). { split; [reflexivity|]. unfold Dl, W. cbn [lim rem fst snd]. lia. }
    unfold nf, W in Hn1. cbn [flt] in Hn1. subst f1.
    unfold bind at 1 in Hdec. rewrite E2 in Hdec. unfold bind at 1 in Hdec. rewrite src_exhausted_W in Hdec.
    destruct (len (skipN k c) =? 0) eqn:E0; [|discriminate]. injection Hdec as <-.
    unfold ret at 1. cbv beta iota. cbn [content_exhausted]. unfold bind at 1. rewrite src_exhausted_W, E0.
    cbv beta iota. unfold bind, set_limit, ret. unfold W. cbn [rem flt].
    assert (Hnil : skipN k c = []) by (destruct (skipN k c); [reflexivity|rewrite len_cons in E0; lia]).
    rewrite Hnil. cbn [app]. subst l1. rewrite lim_sub_sub.
    replace (len (tag_write false t) + len lw + len c) with (len (tag_write false t) + (len lw + len c)) by lia.
    reflexivity.
  - exfalso. unfold bind at 1 in Hdec. destruct (op (cmd cc) (W c [] None)) as [r0 s0]. cbn [fst] in HW. subst r0. cbn [fst] in Hdec. discriminate.
  - exfalso. unfold bind at 1 in Hdec. destruct (op (cmd cc) (W c [] None)) as [r0 s0]. cbn [fst] in HW. subst r0. cbn [fst] in Hdec. discriminate.
  - exfalso. unfold bind at 1 in Hdec. destruct (op (cmd cc) (W c [] None)) as [r0 s0]. cbn [fst] in HW. subst r0. cbn [fst] in Hdec. discriminate.
  - exfalso. unfold bind at 1 in Hdec. destruct (op (cmd cc) (W c [] None)) as [r0 s0]. cbn [fst] in HW. subst r0. cbn [fst] in Hdec. discriminate.
Qed.

(* ---- schemas, values, encoding and typed decoding ---- *)
Inductive leafkind := LInt (ty : N) | LBool | LNull.
Inductive schema := SLeaf (t : tag) (k : leafkind) | SSeq (t : tag) (fields : list schema).
Inductive sval := VInt (v : Z) | VBool (b : bool) | VNull | VSeq (vs : list sval).

Definition lop (k : leafkind) (m : mode) : M sval :=
  match k with
  | LInt ty => v <- int_accessor ty ;; ret (VInt v)
  | LBool => b <- to_bool m ;; ret (VBool b)
  | LNull => to_null ;;; ret VNull
  end.
Definition lenc (k : leafkind) (v : sval) : option (list N) :=
  match k, v with
  | LInt ty, VInt x => if (ty <? 10) && in_range (ty_signed ty) (ty_width ty) x then Some (enc_int ty x) else None
  | LBool, VBool b => Some (enc_bool b)
  | LNull, VNull => Some []
  | _, _ => None
  end.

Fixpoint enc_s (s : schema) (v : sval) : option etree :=
  match s, v with
  | SLeaf t k, _ => option_map (EPrim t) (lenc k v)
  | SSeq t fs, VSeq vs =>
      option_map (fun es => ECons t (ESeq es))
        ((fix go (fs : list schema) (vs : list sval) : option (list etree) :=
            match fs, vs with
            | [], [] => Some []
            | f :: fr, x :: xr =>
                match enc_s f x, go fr xr with Some e, Some es => Some (e :: es) | _, _ => None end
            | _, _ => None
            end) fs vs)
  | _, _ => None
  end.
Fixpoint enc_l (fs : list schema) (vs : list sval) : option (list etree) :=
  match fs, vs with
  | [], [] => Some []
  | f :: fr, x :: xr => match enc_s f x, enc_l fr xr with Some e, Some es => Some (e :: es) | _, _ => None end
  | _, _ => None
  end.
Lemma enc_s_seq t fs vs : enc_s (SSeq t fs) (VSeq vs) = option_map (fun es => ECons t (ESeq es)) (enc_l fs vs).
Proof.
  cbn [enc_s]. f_equal. revert vs. induction fs as [|f fr IH]; intros [|x xr]; try reflexivity.
  cbn [enc_l]. rewrite <- IH. reflexivity.
Qed.

(* typed decoding: expected-tag, mandatory reads; a record reads its fields in order *)
Fixpoint dec_s (fuel : nat) (s : schema) (c : cons) : M (sval * cons) :=
  match fuel with
  | O => nofuel
  | S f =>
    match s with
    | SLeaf t k => mandatory (process_next_value c (Some t) (prim_closure (lop k)))
    | SSeq t fs =>
        mandatory (process_next_value c (Some t) (fun _ ct =>
          match ct with
          | CCons c' => r <- dec_l f fs c' ;; let '(vs, c'') := r in ret (VSeq vs, CCons c'')
          | CPrim _ => cerr
          end))
    end
  end
with dec_l (fuel : nat) (fs : list schema) (c : cons) : M (list sval * cons) :=
  match fuel with
  | O => nofuel
  | S f =>
    match fs with
    | [] => ret ([], c)
    | s :: r => x <- dec_s f s c ;; let '(v, c1) := x in
                y <- dec_l f r c1 ;; let '(vs, c2) := y in ret (v :: vs, c2)
    end
  end.

(* all tags of a schema are legal and not universal 0 *)
Fixpoint schema_ok (s : schema) : Prop :=
  match s with
  | SLeaf t _ => tag_ok t
  | SSeq t fs => tag_ok t /\ (fix go (l : list schema) : Prop := match l with [] => True | x :: r => schema_ok x /\ go r end) fs
  end.
Fixpoint schemas_ok (l : list schema) : Prop := match l with [] => True | x :: r => schema_ok x /\ schemas_ok r end.
Lemma schema_ok_seq t fs : schema_ok (SSeq t fs) <-> tag_ok t /\ schemas_ok fs.
Proof. cbn [schema_ok]. induction fs as [|x r IH]; cbn [schemas_ok]; tauto. Qed.

Fixpoint sdepth (s : schema) : nat :=
  match s with
  | SLeaf _ _ => 1%nat
  | SSeq _ fs => S ((fix go (l : list schema) : nat := match l with [] => 1%nat | x :: r => (sdepth x + go r)%nat end) fs)
  end.
Fixpoint sdepths (l : list schema) : nat := match l with [] => 1%nat | x :: r => (sdepth x + sdepths r)%nat end.
Lemma sdepth_seq t fs : sdepth (SSeq t fs) = S (sdepths fs). Proof. reflexivity. Qed.
Lemma sdepth_pos s : (1 <= sdepth s)%nat. Proof. destruct s; cbn [sdepth]; lia. Qed.

Fixpoint schema_ind' (P : schema -> Prop) (Hl : forall t k, P (SLeaf t k))
    (Hs : forall t fs, Forall P fs -> P (SSeq t fs)) (s : schema) : P s :=
  match s with
  | SLeaf t k => Hl t k
  | SSeq t fs =>
      Hs t fs ((fix go (l : list schema) : Forall P l :=
                  match l with
                  | [] => Forall_nil P
                  | x :: r => Forall_cons x (schema_ind' P Hl Hs x) (go r)
                  end) fs)
  end.

(* ---- the leaf laws, packaged ---- *)
Lemma prim_decode_map {A B} (op : M A) (f : A -> B) c :
  prim_decode (v <- op ;; ret (f v)) c = res_map f (prim_decode op c).
Proof.
  unfold prim_decode. unfold bind at 1 2. unfold bind at 2.
  destruct (op (pure_src c (Some (len c)))) as [[a| | | |] s1]; try reflexivity.
  unfold ret at 1. unfold bind. destruct (src_exhausted s1) as [[[]| | | |] s2]; reflexivity.
Qed.

Lemma leaf_law k m v c : lenc k v = Some c -> prim_decode (lop k m) c = Ok v.
Proof.
  destruct k as [ty| |], v as [x|b| |vs]; cbn [lenc lop]; try discriminate.
  - destruct ((ty <? 10) && in_range (ty_signed ty) (ty_width ty) x) eqn:E; [|discriminate]. intros [= <-].
    apply andb_prop in E as [E1 E2]. rewrite prim_decode_map, (int_roundtrip ty x ltac:(lia) E2). reflexivity.
  - intros [= <-]. rewrite prim_decode_map, bool_roundtrip. reflexivity.
  - intros [= <-]. reflexivity.
Qed.
Lemma Win_lop k m : Win (lop k m).
Proof.
  destruct k; cbn [lop].
  - apply Win_bind; [apply Win_int_accessor|]. intro. apply Win_ret.
  - apply Win_bind; [apply Win_to_bool|]. intro. apply Win_ret.
  - apply Win_bind; [apply Win_to_null|]. intro. apply Win_ret.
Qed.
Lemma St_lop k m z : Safe (St true z) (lop k m) (fun _ => St true z).
Proof.
  destruct k; cbn [lop].
  - eapply Safe_bind; [apply St_int_accessor|]. intro. apply Safe_ret. auto.
  - eapply Safe_bind with (Q := fun _ => St true z); [|intro; apply Safe_ret; auto].
    unfold to_bool. eapply Safe_bind; [apply (St_take_u8 true z)|]. intro b.
    repeat (apply Safe_if); try apply Safe_cerr; apply Safe_ret; auto.
  - eapply Safe_bind with (Q := fun _ => St true z); [|intro; apply Safe_ret; auto].
    unfold to_null. eapply Safe_bind; [apply St_remaining|]. intro r. apply Safe_if; [apply Safe_cerr|apply Safe_ret; auto].
Qed.
