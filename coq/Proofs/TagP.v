(* Proofs about Model/Tag.v (property C12). *)
From Coq Require Import Lia ZifyBool ZifyN.
Require Import BV.Model.Base BV.Model.SrcB BV.Model.Length BV.Model.Tag.
Require Import BV.Proofs.Bits BV.Proofs.SrcBP.
Ltac Zify.zify_post_hook ::= Z.div_mod_to_equations.
Arguments N.add : simpl never. Arguments N.sub : simpl never.
Arguments N.mul : simpl never. Arguments N.ltb : simpl never.
Arguments N.leb : simpl never. Arguments N.eqb : simpl never.
Arguments N.div : simpl never. Arguments N.modulo : simpl never.
Arguments N.land : simpl never. Arguments N.lor : simpl never.
Arguments N.shiftl : simpl never. Arguments N.shiftr : simpl never.

(* ---------- specification: X.690 8.1.2 identifier octets ---------- *)
Definition is_class (cls : N) : Prop := cls = 0 \/ cls = 64 \/ cls = 128 \/ cls = 192.

(* value of a list of septets, most significant first (bit 8 ignored) *)
Definition septets_val (ds : list N) : N :=
  fold_left (fun acc d => acc * 128 + d mod 128) ds 0.
(* continuation bit set on all but the last octet *)
Fixpoint cont_ok (ds : list N) : bool :=
  match ds with
  | [] => false
  | [d] => d <? 128
  | d :: r => (128 <=? d) && (d <? 256) && cont_ok r
  end.
(* w is the minimal identifier for (cls, constructed, n):
   low-tag-number form for n <= 30, otherwise first octet ...11111 followed by
   the base-128 digits of n without a leading zero digit *)
Definition ident_ok (w : list N) (cls : N) (c : bool) (n : N) : bool :=
  let first := cls + (if c then 32 else 0) in
  match w with
  | [] => false
  | [b] => (n <=? 30) && (b =? first + n)
  | b :: ds => (31 <=? n) && (b =? first + 31) && cont_ok ds
               && negb (hd 0 ds =? 128) && (septets_val ds =? n)
  end.

Lemma u8_mod x : u8 x = x mod 256. Proof. unfold u8. apply land_255. Qed.

Lemma hi_septet x : x < 128 -> N.lor (N.land 127 x) 128 = x + 128.
Proof. intro H. rewrite land_127_l. rewrite lor_128_low by lia. lia. Qed.

(* explicit form of Tag::new *)
Lemma tag_new_cases cls n : is_class cls ->
  tag_new cls n =
    if 2097151 <? n then Panic else
    if n <=? 30 then Ok (cls + n, 0, 0, 0) else
    if n <=? 127 then Ok (cls + 31, n, 0, 0) else
    if n <=? 16383 then Ok (cls + 31, n / 128 + 128, n mod 128, 0) else
    Ok (cls + 31, n / 16384 + 128, (n / 128) mod 128 + 128, n mod 128).
Proof.
  intro Hc. unfold tag_new. rewrite !u8_mod, !shiftr_k, !land_127_l.
  change (2^7) with 128. change (2^14) with 16384.
  assert (L31 : N.lor cls 31 = cls + 31).
  { destruct Hc as [-> | [-> | [-> | ->]]]; reflexivity. }
  destruct (2097151 <? n) eqn:E0; [reflexivity|].
  destruct (n <=? 30) eqn:E1.
  { do 2 f_equal. f_equal. f_equal.
    destruct Hc as [-> | [-> | [-> | ->]]].
    - rewrite N.lor_0_l. lia.
    - change 64 with (1 * 64). rewrite lor_cls by lia. lia.
    - change 128 with (2 * 64). rewrite lor_cls by lia. lia.
    - change 192 with (3 * 64). rewrite lor_cls by lia. lia. }
  destruct (n <=? 127) eqn:E2.
  { rewrite L31. do 2 f_equal. f_equal. f_equal. lia. }
  destruct (n <=? 16383) eqn:E3.
  { rewrite L31. rewrite lor_128_low by lia. do 2 f_equal. f_equal; [f_equal; lia|lia]. }
  rewrite L31. rewrite !lor_128_low by lia. do 2 f_equal; [f_equal; [f_equal; lia|lia]|lia].
Qed.

Theorem tag_new_total cls n : is_class cls -> n <= 2097151 -> exists t, tag_new cls n = Ok t.
Proof.
  intros Hc Hn. rewrite tag_new_cases by exact Hc.
  replace (2097151 <? n) with false by lia.
  repeat match goal with |- context [if ?c then _ else _] => destruct c end; eexists; reflexivity.
Qed.

Theorem tag_new_panics cls n : 2097151 < n -> tag_new cls n = Panic.
Proof. intro H. unfold tag_new. replace (2097151 <? n) with true by lia. reflexivity. Qed.

Ltac cls_cases Hc := destruct Hc as [-> | [-> | [-> | ->]]].

(* number and class are recovered *)
Theorem tag_number_class cls n t : is_class cls ->
  tag_new cls n = Ok t -> tag_number t = n /\ tag_class t = cls.
Proof.
  intros Hc. rewrite tag_new_cases by exact Hc.
  destruct (2097151 <? n) eqn:E0; [discriminate|].
  destruct (n <=? 30) eqn:E1.
  { intros [= <-]. unfold tag_number, tag_class. rewrite land_31_l.
    replace ((cls + n) mod 32 =? 31) with false by (cls_cases Hc; lia).
    cbn [negb]. rewrite land_192 by (cls_cases Hc; lia). cls_cases Hc; lia. }
  assert (F : (N.land 31 (cls + 31) =? 31) = true /\ N.land (cls + 31) 192 = cls).
  { destruct Hc as [E | [E | [E | E]]]; rewrite E; split; reflexivity. }
  destruct F as [F1 F2].
  destruct (n <=? 127) eqn:E2.
  { intros [= <-]. unfold tag_number, tag_class. rewrite F1, F2. cbn [negb].
    rewrite land_128_l, land_127_l.
    replace (128 * ((n / 128) mod 2) =? 0) with true by lia. split; [lia|reflexivity]. }
  destruct (n <=? 16383) eqn:E3.
  { intros [= <-]. unfold tag_number, tag_class. rewrite F1, F2. cbn [negb].
    rewrite !land_128_l, !land_127_l.
    replace (128 * (((n / 128 + 128) / 128) mod 2) =? 0) with false by lia.
    replace (128 * ((n mod 128 / 128) mod 2) =? 0) with true by lia.
    rewrite shiftl_k. change (2^7) with 128. rewrite lor_mul_128 by lia.
    split; [lia|reflexivity]. }
  intros [= <-]. unfold tag_number, tag_class. rewrite F1, F2. cbn [negb].
  rewrite !land_128_l, !land_127_l.
  replace (128 * (((n / 16384 + 128) / 128) mod 2) =? 0) with false by lia.
  replace (128 * ((((n / 128) mod 128 + 128) / 128) mod 2) =? 0) with false by lia.
  rewrite !shiftl_k. change (2^7) with 128. change (2^14) with 16384.
  rewrite lor3_septets by lia. split; [lia|reflexivity].
Qed.

(* ---------- shapes of canonical tags ---------- *)
Lemma tag_new_inv cls n t : is_class cls -> tag_new cls n = Ok t ->
  (n <= 30 /\ t = (cls + n, 0, 0, 0)) \/
  (31 <= n <= 127 /\ t = (cls + 31, n, 0, 0)) \/
  (128 <= n <= 16383 /\ t = (cls + 31, n / 128 + 128, n mod 128, 0)) \/
  (16384 <= n <= 2097151 /\ t = (cls + 31, n / 16384 + 128, (n / 128) mod 128 + 128, n mod 128)).
Proof.
  intro Hc. rewrite tag_new_cases by exact Hc.
  destruct (2097151 <? n) eqn:E0; [discriminate|].
  destruct (n <=? 30) eqn:E1; [intros [= <-]; left; split; [lia|reflexivity]|].
  destruct (n <=? 127) eqn:E2; [intros [= <-]; right; left; split; [lia|reflexivity]|].
  destruct (n <=? 16383) eqn:E3; [intros [= <-]; right; right; left; split; [lia|reflexivity]|].
  intros [= <-]. right; right; right. split; [lia|reflexivity].
Qed.

Lemma first_lo cls n : is_class cls -> n <= 30 ->
  (N.land 31 (cls + n) =? 31) = false /\ ((cls + n) / 32) mod 2 = 0 /\ cls + n < 256.
Proof. intros Hc Hn. rewrite land_31_l. cls_cases Hc; lia. Qed.
Lemma first_hi cls : is_class cls ->
  (N.land 31 (cls + 31) =? 31) = true /\ ((cls + 31) / 32) mod 2 = 0 /\ cls + 31 < 256.
Proof. intros Hc. rewrite land_31_l. cls_cases Hc; lia. Qed.

Lemma bit8_clear x : x < 128 -> (N.land 128 x =? 0) = true.
Proof. intro H. rewrite land_128_l. lia. Qed.
Lemma bit8_set x : 128 <= x < 256 -> (N.land 128 x =? 0) = false.
Proof. intro H. rewrite land_128_l. lia. Qed.

Definition cbit (c : bool) : N := if c then 32 else 0.
Lemma set_cons a (c : bool) : (a / 32) mod 2 = 0 -> (if c then N.lor a 32 else a) = a + cbit c.
Proof. intro H. destruct c; cbn [cbit]; [apply lor_32; exact H|lia]. Qed.

(* written octets, explicitly *)
Lemma tag_write_cases cls n t c : is_class cls -> tag_new cls n = Ok t ->
  tag_write c t =
    if n <=? 30 then [cls + n + cbit c] else
    if n <=? 127 then [cls + 31 + cbit c; n] else
    if n <=? 16383 then [cls + 31 + cbit c; n / 128 + 128; n mod 128] else
    [cls + 31 + cbit c; n / 16384 + 128; (n / 128) mod 128 + 128; n mod 128].
Proof.
  intros Hc Hn. destruct (tag_new_inv cls n t Hc Hn) as [[H ->]|[[H ->]|[[H ->]|[H ->]]]];
    unfold tag_write, tag_encoded_len.
  - destruct (first_lo cls n Hc H) as (F1 & F2 & _). rewrite F1. cbn [negb].
    rewrite set_cons by exact F2. replace (n <=? 30) with true by lia. reflexivity.
  - destruct (first_hi cls Hc) as (F1 & F2 & _). rewrite F1. cbn [negb].
    rewrite bit8_clear by lia. rewrite set_cons by exact F2.
    replace (n <=? 30) with false by lia. replace (n <=? 127) with true by lia. reflexivity.
  - destruct (first_hi cls Hc) as (F1 & F2 & _). rewrite F1. cbn [negb].
    rewrite bit8_set by lia. rewrite bit8_clear by lia. rewrite set_cons by exact F2.
    replace (n <=? 30) with false by lia. replace (n <=? 127) with false by lia.
    replace (n <=? 16383) with true by lia. reflexivity.
  - destruct (first_hi cls Hc) as (F1 & F2 & _). rewrite F1. cbn [negb].
    rewrite !bit8_set by lia. rewrite set_cons by exact F2.
    replace (n <=? 30) with false by lia. replace (n <=? 127) with false by lia.
    replace (n <=? 16383) with false by lia. reflexivity.
Qed.

Theorem tag_encoded_len_correct cls n t c : is_class cls -> tag_new cls n = Ok t ->
  tag_encoded_len t = len (tag_write c t).
Proof.
  intros Hc Hn. rewrite (tag_write_cases cls n t c Hc Hn).
  destruct (tag_new_inv cls n t Hc Hn) as [[H ->]|[[H ->]|[[H ->]|[H ->]]]];
    unfold tag_encoded_len.
  - destruct (first_lo cls n Hc H) as (F1 & _). rewrite F1. replace (n <=? 30) with true by lia. reflexivity.
  - destruct (first_hi cls Hc) as (F1 & _). rewrite F1. cbn [negb]. rewrite bit8_clear by lia.
    replace (n <=? 30) with false by lia. replace (n <=? 127) with true by lia. reflexivity.
  - destruct (first_hi cls Hc) as (F1 & _). rewrite F1. cbn [negb]. rewrite bit8_set by lia.
    rewrite bit8_clear by lia.
    replace (n <=? 30) with false by lia. replace (n <=? 127) with false by lia.
    replace (n <=? 16383) with true by lia. reflexivity.
  - destruct (first_hi cls Hc) as (F1 & _). rewrite F1. cbn [negb]. rewrite !bit8_set by lia.
    replace (n <=? 30) with false by lia. replace (n <=? 127) with false by lia.
    replace (n <=? 16383) with false by lia. reflexivity.
Qed.

Theorem tag_write_minimal cls n t c : is_class cls -> tag_new cls n = Ok t ->
  ident_ok (tag_write c t) cls c n = true.
Proof.
  intros Hc Hn. rewrite (tag_write_cases cls n t c Hc Hn).
  assert (Hr : n <= 2097151).
  { destruct (tag_new_inv cls n t Hc Hn) as [[H _]|[[H _]|[[H _]|[H _]]]]; lia. }
  assert (T : forall w, w = tag_write c t -> True) by trivial. clear T.
  destruct (n <=? 30) eqn:E1;
    [unfold ident_ok, septets_val, cbit; cbn [fold_left cont_ok hd]; rewrite E1; destruct c; lia|].
  destruct (n <=? 127) eqn:E2;
    [unfold ident_ok, septets_val, cbit; cbn [fold_left cont_ok hd]; destruct c; lia|].
  destruct (n <=? 16383) eqn:E3;
    [unfold ident_ok, septets_val, cbit; cbn [fold_left cont_ok hd]; destruct c; lia|].
  unfold ident_ok, septets_val, cbit; cbn [fold_left cont_ok hd]; destruct c; lia.
Qed.

(* ---------- reader ---------- *)
Lemma first_octet cls x (c : bool) : is_class cls -> x <= 31 ->
  clear_cons (cls + x + cbit c) = cls + x /\ is_cons (cls + x + cbit c) = c.
Proof.
  intros Hc Hx. unfold clear_cons, is_cons.
  rewrite land_223 by (cls_cases Hc; destruct c; cbn [cbit]; lia).
  rewrite land_32. split.
  - cls_cases Hc; destruct c; cbn [cbit]; lia.
  - cls_cases Hc; destruct c; cbn [cbit]; lia.
Qed.

Lemma land31_r_lo cls n : is_class cls -> n <= 30 -> (N.land (cls + n) 31 =? 31) = false.
Proof. intros Hc Hn. rewrite land_31. cls_cases Hc; lia. Qed.
Lemma land31_r_hi cls : is_class cls -> (N.land (cls + 31) 31 =? 31) = true.
Proof. intros Hc. rewrite land_31. cls_cases Hc; lia. Qed.
Lemma bit8r_clear x : x < 128 -> (N.land x 128 =? 0) = true.
Proof. intro H. rewrite land_128. lia. Qed.
Lemma bit8r_set x : 128 <= x < 256 -> (N.land x 128 =? 0) = false.
Proof. intro H. rewrite land_128. lia. Qed.

Theorem tag_read_back cls n t c r l : is_class cls -> tag_new cls n = Ok t ->
  lim_ge l (len (tag_write c t)) ->
  tag_take_from (mkSrc (tag_write c t ++ r) l None)
  = (Ok (t, c), mkSrc r (lim_sub l (len (tag_write c t))) None).
Proof.
  intros Hc Hn. rewrite (tag_write_cases cls n t c Hc Hn).
  unfold tag_take_from, tag_take_opt_from.
  destruct (tag_new_inv cls n t Hc Hn) as [[H ->]|[[H ->]|[[H ->]|[H ->]]]].
  - replace (n <=? 30) with true by lia. intro Hl. cbn [app].
    rewrite (bind_ok _ _ _ (Some ((cls + n, 0, 0, 0), c)) (mkSrc r (lim_sub l 1) None)); [reflexivity|].
    step_take_u8. destruct (first_octet cls n c Hc) as [-> ->]; [lia|].
    rewrite land31_r_lo by (assumption || lia). reflexivity.
  - replace (n <=? 30) with false by lia. replace (n <=? 127) with true by lia. intro Hl. cbn [app].
    rewrite (bind_ok _ _ _ (Some ((cls + 31, n, 0, 0), c)) (mkSrc r (lim_sub l 2) None)); [reflexivity|].
    step_take_u8. destruct (first_octet cls 31 c Hc) as [-> ->]; [lia|].
    rewrite land31_r_hi by assumption. step_take_u8.
    replace ((n =? 128) || (n <=? 30)) with false by lia.
    rewrite bit8r_clear by lia. rewrite lim_sub_sub. reflexivity.
  - replace (n <=? 30) with false by lia. replace (n <=? 127) with false by lia.
    replace (n <=? 16383) with true by lia. intro Hl. cbn [app].
    rewrite (bind_ok _ _ _ (Some ((cls + 31, n / 128 + 128, n mod 128, 0), c)) (mkSrc r (lim_sub l 3) None)); [reflexivity|].
    step_take_u8. destruct (first_octet cls 31 c Hc) as [-> ->]; [lia|].
    rewrite land31_r_hi by assumption. step_take_u8.
    replace ((n / 128 + 128 =? 128) || (n / 128 + 128 <=? 30)) with false by lia.
    rewrite bit8r_set by lia. step_take_u8. rewrite bit8r_clear by lia.
    rewrite !lim_sub_sub. reflexivity.
  - replace (n <=? 30) with false by lia. replace (n <=? 127) with false by lia.
    replace (n <=? 16383) with false by lia. intro Hl. cbn [app].
    rewrite (bind_ok _ _ _ (Some ((cls + 31, n / 16384 + 128, (n / 128) mod 128 + 128, n mod 128), c)) (mkSrc r (lim_sub l 4) None)); [reflexivity|].
    step_take_u8. destruct (first_octet cls 31 c Hc) as [-> ->]; [lia|].
    rewrite land31_r_hi by assumption. step_take_u8.
    replace ((n / 16384 + 128 =? 128) || (n / 16384 + 128 <=? 30)) with false by lia.
    rewrite bit8r_set by lia. step_take_u8. rewrite bit8r_set by lia.
    step_take_u8. rewrite bit8r_clear by lia.
    rewrite !lim_sub_sub. reflexivity.
Qed.

Ltac tuple_eq :=
  repeat match goal with
  | |- Ok _ = Ok _ => f_equal
  | |- (_, _) = (_, _) => f_equal
  | |- _ :: _ = _ :: _ => f_equal
  end; try reflexivity; try lia.

Lemma first_octet_decomp b0 : b0 < 256 ->
  exists cls x (c : bool), is_class cls /\ x <= 31 /\ b0 = cls + x + cbit c.
Proof.
  intro H. exists (64 * (b0 / 64)), (b0 mod 32), ((b0 / 32) mod 2 =? 1).
  split; [unfold is_class; lia|]. split; [lia|].
  destruct ((b0 / 32) mod 2 =? 1) eqn:E; cbn [cbit]; lia.
Qed.

Lemma tag_new_oct1 cls x : is_class cls -> x <= 30 -> tag_new cls x = Ok (cls + x, 0, 0, 0).
Proof.
  intros Hc H. rewrite tag_new_cases by exact Hc.
  replace (2097151 <? x) with false by lia. replace (x <=? 30) with true by lia. reflexivity.
Qed.
Lemma tag_new_oct2 cls d1 : is_class cls -> 31 <= d1 <= 127 -> tag_new cls d1 = Ok (cls + 31, d1, 0, 0).
Proof.
  intros Hc H. rewrite tag_new_cases by exact Hc.
  replace (2097151 <? d1) with false by lia. replace (d1 <=? 30) with false by lia.
  replace (d1 <=? 127) with true by lia. reflexivity.
Qed.
Lemma tag_new_oct3 cls d1 d2 : is_class cls -> 129 <= d1 < 256 -> d2 < 128 ->
  tag_new cls ((d1 - 128) * 128 + d2) = Ok (cls + 31, d1, d2, 0).
Proof.
  intros Hc H1 H2. rewrite tag_new_cases by exact Hc.
  set (n := (d1 - 128) * 128 + d2).
  replace (2097151 <? n) with false by lia. replace (n <=? 30) with false by lia.
  replace (n <=? 127) with false by lia. replace (n <=? 16383) with true by lia.
  tuple_eq.
Qed.
Lemma tag_new_oct4 cls d1 d2 d3 : is_class cls -> 129 <= d1 < 256 -> 128 <= d2 < 256 -> d3 < 128 ->
  tag_new cls ((d1 - 128) * 16384 + (d2 - 128) * 128 + d3) = Ok (cls + 31, d1, d2, d3).
Proof.
  intros Hc H1 H2 H3. rewrite tag_new_cases by exact Hc.
  set (n := (d1 - 128) * 16384 + (d2 - 128) * 128 + d3).
  replace (2097151 <? n) with false by lia. replace (n <=? 30) with false by lia.
  replace (n <=? 127) with false by lia. replace (n <=? 16383) with false by lia.
  tuple_eq.
Qed.

(* Whatever the reader accepts is the canonical tag of its class and number,
   and re-writing it gives back exactly the octets consumed. *)
Lemma tag_opt_decoder_canonical d t c s' : octets_ok d = true ->
  tag_take_opt_from (pure_src d None) = (Ok (Some (t, c)), s') ->
  is_class (tag_class t) /\ tag_number t <= 2097151 /\
  tag_new (tag_class t) (tag_number t) = Ok t /\
  d = tag_write c t ++ rem s' /\ s' = pure_src (rem s') None.
Proof.
  intros Hok. unfold pure_src, tag_take_opt_from.
  destruct d as [|b0 r]; [step_take_u8; cbn; discriminate|].
  apply octets_ok_cons in Hok as [Hb0 Hr].
  destruct (first_octet_decomp b0 Hb0) as (cls & x & c0 & Hc & Hx & ->).
  step_take_u8. destruct (first_octet cls x c0 Hc Hx) as [-> ->].
  assert (Fin : forall n t0 r0, tag_new cls n = Ok t0 -> n <= 2097151 ->
            cls + x + cbit c0 :: r = tag_write c0 t0 ++ r0 ->
            is_class (tag_class t0) /\ tag_number t0 <= 2097151 /\
            tag_new (tag_class t0) (tag_number t0) = Ok t0 /\
            cls + x + cbit c0 :: r = tag_write c0 t0 ++ rem (mkSrc r0 None None) /\
            mkSrc r0 None None = mkSrc (rem (mkSrc r0 None None)) None None).
  { intros n t0 r0 Hn Hle Hw. destruct (tag_number_class cls n t0 Hc Hn) as [-> ->].
    repeat split; assumption. }
  destruct (x =? 31) eqn:Ex.
  2:{ rewrite land31_r_lo by (assumption || lia). cbn. intros [= <- <- <-].
      apply (Fin x); [apply tag_new_oct1; [assumption|lia]|lia|].
      rewrite (tag_write_cases cls x _ c0 Hc (tag_new_oct1 cls x Hc ltac:(lia))).
      replace (x <=? 30) with true by lia. reflexivity. }
  assert (x = 31) as -> by lia. rewrite land31_r_hi by assumption.
  destruct r as [|d1 r1]; [step_take_u8; cbn; discriminate|].
  apply octets_ok_cons in Hr as [Hd1 Hr1]. step_take_u8.
  destruct ((d1 =? 128) || (d1 <=? 30)) eqn:E1; [cbn; discriminate|].
  destruct (N.land d1 128 =? 0) eqn:B1.
  { rewrite land_128 in B1. cbn. intros [= <- <- <-].
    apply (Fin d1); [apply tag_new_oct2; [assumption|lia]|lia|].
    rewrite (tag_write_cases cls d1 _ c0 Hc (tag_new_oct2 cls d1 Hc ltac:(lia))).
    replace (d1 <=? 30) with false by lia. replace (d1 <=? 127) with true by lia. reflexivity. }
  rewrite land_128 in B1.
  destruct r1 as [|d2 r2]; [step_take_u8; cbn; discriminate|].
  apply octets_ok_cons in Hr1 as [Hd2 Hr2]. step_take_u8.
  destruct (N.land d2 128 =? 0) eqn:B2.
  { rewrite land_128 in B2. cbn. intros [= <- <- <-].
    assert (Hn := tag_new_oct3 cls d1 d2 Hc ltac:(lia) ltac:(lia)).
    apply (Fin _ _ _ Hn); [lia|].
    rewrite (tag_write_cases cls _ _ c0 Hc Hn).
    set (n := (d1 - 128) * 128 + d2).
    replace (n <=? 30) with false by lia. replace (n <=? 127) with false by lia.
    replace (n <=? 16383) with true by lia. cbn [app]. repeat f_equal; lia. }
  rewrite land_128 in B2.
  destruct r2 as [|d3 r3]; [step_take_u8; cbn; discriminate|].
  apply octets_ok_cons in Hr2 as [Hd3 Hr3]. step_take_u8.
  destruct (N.land d3 128 =? 0) eqn:B3; [|cbn; discriminate].
  rewrite land_128 in B3. cbn. intros [= <- <- <-].
  assert (Hn := tag_new_oct4 cls d1 d2 d3 Hc ltac:(lia) ltac:(lia) ltac:(lia)).
  apply (Fin _ _ _ Hn); [lia|].
  rewrite (tag_write_cases cls _ _ c0 Hc Hn).
  set (n := (d1 - 128) * 16384 + (d2 - 128) * 128 + d3).
  replace (n <=? 30) with false by lia. replace (n <=? 127) with false by lia.
  replace (n <=? 16383) with false by lia. cbn [app]. repeat f_equal; lia.
Qed.

Lemma tag_opt_none d s' :
  tag_take_opt_from (pure_src d None) = (Ok None, s') -> d = [] /\ s' = pure_src [] None.
Proof.
  unfold pure_src, tag_take_opt_from. destruct d as [|b0 r].
  - step_take_u8. cbn. intros [= <-]. split; reflexivity.
  - step_take_u8. destruct (N.land (clear_cons b0) 31 =? 31); [|cbn; discriminate].
    destruct r as [|d1 r1]; [step_take_u8; cbn; discriminate|]. step_take_u8.
    destruct ((d1 =? 128) || (d1 <=? 30)); [cbn; discriminate|].
    destruct (N.land d1 128 =? 0); [cbn; discriminate|].
    destruct r1 as [|d2 r2]; [step_take_u8; cbn; discriminate|]. step_take_u8.
    destruct (N.land d2 128 =? 0); [cbn; discriminate|].
    destruct r2 as [|d3 r3]; [step_take_u8; cbn; discriminate|]. step_take_u8.
    destruct (N.land d3 128 =? 0); cbn; discriminate.
Qed.

Theorem tag_decoder_canonical d t c s' : octets_ok d = true ->
  tag_take_from (pure_src d None) = (Ok (t, c), s') ->
  is_class (tag_class t) /\ tag_number t <= 2097151 /\
  tag_new (tag_class t) (tag_number t) = Ok t /\
  d = tag_write c t ++ rem s' /\ s' = pure_src (rem s') None.
Proof.
  intros Hok. unfold tag_take_from, bind.
  destruct (tag_take_opt_from (pure_src d None)) as [[[[t0 c0]|]| | | |] s1] eqn:E;
    cbn; try discriminate.
  intros [= <- <- <-]. eapply tag_opt_decoder_canonical; eassumption.
Qed.

(* ---------- conditional read ---------- *)
Lemma tag_eqb_eq a b : tag_eqb a b = true <-> a = b.
Proof.
  destruct a as [[[a0 a1] a2] a3], b as [[[b0 b1] b2] b3]. unfold tag_eqb.
  rewrite !andb_true_iff, !N.eqb_eq. split.
  - intros [[[-> ->] ->] ->]. reflexivity.
  - intros [= -> -> -> ->]. repeat split.
Qed.

Lemma tick_pure d l : tick (mkSrc d l None) = (Ok tt, mkSrc d l None).
Proof. reflexivity. Qed.

Lemma restore_cons b0 : b0 < 256 ->
  (if is_cons b0 then N.lor (clear_cons b0) 32 else clear_cons b0) = b0.
Proof.
  intro H. unfold is_cons, clear_cons. rewrite land_32, land_223 by exact H.
  destruct (32 * ((b0 / 32) mod 2) =? 0) eqn:E; cbn [negb]; [lia|].
  rewrite lor_32 by lia. lia.
Qed.

(* The peek part of take_from_if, as a pure function of the visible octets:
   Some (Some t): identifier t seen; Some None: content error; None: no octet *)
Definition peek_tag (v : list N) : option (option (tag * bool * N)) :=
  match v with
  | [] => None
  | b :: v1 =>
    let d0 := clear_cons b in
    if N.land d0 31 =? 31 then
      match v1 with [] => Some None | d1 :: v2 =>
      if N.land d1 128 =? 0 then Some (Some ((d0,d1,0,0), is_cons b, 2)) else
      match v2 with [] => Some None | d2 :: v3 =>
      if N.land d2 128 =? 0 then Some (Some ((d0,d1,d2,0), is_cons b, 3)) else
      match v3 with [] => Some None | d3 :: _ =>
      if N.land d3 128 =? 0 then Some (Some ((d0,d1,d2,d3), is_cons b, 4)) else Some None
      end end end
    else Some (Some ((d0,0,0,0), is_cons b, 1))
  end.

Lemma peek_tag_len v t c k : peek_tag v = Some (Some (t, c, k)) ->
  tag_encoded_len t = k /\ k <= len v /\
  (octets_ok v = true -> firstN k v = tag_write c t).
Proof.
  unfold peek_tag. destruct v as [|b v1]; [discriminate|].
  destruct (N.land (clear_cons b) 31 =? 31) eqn:E0.
  2:{ intros [= <- <- <-]. unfold tag_encoded_len, tag_write, tag_encoded_len.
      rewrite N.land_comm, E0. cbn [negb]. rewrite len_cons. split; [reflexivity|]. split; [lia|].
      intro Hok. apply octets_ok_cons in Hok as [Hb _]. rewrite restore_cons by exact Hb. reflexivity. }
  destruct v1 as [|d1 v2]; [discriminate|].
  destruct (N.land d1 128 =? 0) eqn:E1.
  { intros [= <- <- <-]. unfold tag_write, tag_encoded_len.
    rewrite N.land_comm, E0, (N.land_comm 128), E1. cbn [negb]. rewrite !len_cons.
    split; [reflexivity|]. split; [lia|].
    intro Hok. apply octets_ok_cons in Hok as [Hb _]. rewrite restore_cons by exact Hb. reflexivity. }
  destruct v2 as [|d2 v3]; [discriminate|].
  destruct (N.land d2 128 =? 0) eqn:E2.
  { intros [= <- <- <-]. unfold tag_write, tag_encoded_len.
    rewrite N.land_comm, E0, (N.land_comm 128), E1, (N.land_comm 128), E2. cbn [negb]. rewrite !len_cons.
    split; [reflexivity|]. split; [lia|].
    intro Hok. apply octets_ok_cons in Hok as [Hb _]. rewrite restore_cons by exact Hb. reflexivity. }
  destruct v3 as [|d3 v4]; [discriminate|].
  destruct (N.land d3 128 =? 0) eqn:E3; [|discriminate].
  intros [= <- <- <-]. unfold tag_write, tag_encoded_len.
  rewrite N.land_comm, E0, (N.land_comm 128), E1, (N.land_comm 128), E2. cbn [negb]. rewrite !len_cons.
  split; [reflexivity|]. split; [lia|].
  intro Hok. apply octets_ok_cons in Hok as [Hb _]. rewrite restore_cons by exact Hb. reflexivity.
Qed.

Lemma tag_peek_spec b v1 s : flt s = None ->
  tag_peek b v1 s =
    match peek_tag (b :: v1) with
    | Some (Some (t, _, _)) => (Ok t, s)
    | _ => (CErr, s)
    end.
Proof.
  intro Hf. destruct s as [d l f]. cbn in Hf. subst f.
  unfold tag_peek, peek_tag.
  destruct (N.land (clear_cons b) 31 =? 31); [|reflexivity].
  rewrite (bind_ok tick _ _ tt (mkSrc d l None)) by reflexivity.
  destruct v1 as [|d1 v2]; [reflexivity|].
  destruct (N.land d1 128 =? 0); [reflexivity|].
  rewrite (bind_ok tick _ _ tt (mkSrc d l None)) by reflexivity.
  destruct v2 as [|d2 v3]; [reflexivity|].
  destruct (N.land d2 128 =? 0); [reflexivity|].
  rewrite (bind_ok tick _ _ tt (mkSrc d l None)) by reflexivity.
  destruct v3 as [|d3 v4]; [reflexivity|].
  destruct (N.land d3 128 =? 0); reflexivity.
Qed.

(* take_from_if in terms of peek_tag, on every fault-free state (any limit) *)
Lemma visible_len s : len (visible s) <= len (rem s) /\ lim_ge (lim s) (len (visible s)).
Proof.
  rewrite visible_eq. destruct (lim s) as [l|]; cbn [lim_ge]; [|split; [lia|trivial]].
  unfold firstN, len. rewrite firstn_length. split; lia.
Qed.

Lemma tag_take_from_if_peek_gen e s : flt s = None ->
  tag_take_from_if e s =
    match peek_tag (visible s) with
    | None => (Ok None, s)
    | Some None => (CErr, s)
    | Some (Some (t, c, k)) =>
        if tag_eqb t e then (Ok (Some c), mkSrc (skipN k (rem s)) (lim_sub (lim s) k) None)
        else (Ok None, s)
    end.
Proof.
  intro Hf. destruct s as [d l f]. cbn in Hf. subst f.
  unfold tag_take_from_if.
  rewrite (bind_ok tick _ _ tt (mkSrc d l None)) by reflexivity.
  rewrite (bind_ok get_visible _ _ (visible (mkSrc d l None)) (mkSrc d l None)) by reflexivity.
  destruct (visible (mkSrc d l None)) as [|b v1] eqn:V; [reflexivity|].
  unfold bind at 1. rewrite tag_peek_spec by reflexivity.
  destruct (peek_tag (b :: v1)) as [[[[t c] k]|]|] eqn:P; [|reflexivity|].
  - destruct (peek_tag_len _ t c k P) as (Hk & Hle & _).
    assert (Hc : c = is_cons b).
    { unfold peek_tag in P. destruct (N.land (clear_cons b) 31 =? 31).
      - destruct v1 as [|d1 v2]; [discriminate|]. destruct (N.land d1 128 =? 0); [congruence|].
        destruct v2 as [|d2 v3]; [discriminate|]. destruct (N.land d2 128 =? 0); [congruence|].
        destruct v3 as [|d3 v4]; [discriminate|]. destruct (N.land d3 128 =? 0); [congruence|discriminate].
      - congruence. }
    destruct (tag_eqb t e); [|reflexivity].
    pose proof (visible_len (mkSrc d l None)) as [V1 V2]. rewrite V in V1, V2. cbn [rem lim] in V1, V2.
    unfold bind, advance, ret. cbn [rem lim flt]. rewrite Hk.
    replace (len d <? k) with false by lia. rewrite Hc.
    destruct l as [x|]; cbn [lim_sub lim_ge] in *; [|reflexivity].
    replace (x <? k) with false by lia. reflexivity.
  - unfold peek_tag in P. destruct (N.land (clear_cons b) 31 =? 31); [|discriminate].
    destruct v1 as [|d1 v2]; [discriminate|]. destruct (N.land d1 128 =? 0); [discriminate|].
    destruct v2 as [|d2 v3]; [discriminate|]. destruct (N.land d2 128 =? 0); [discriminate|].
    destruct v3 as [|d3 v4]; [discriminate|]. destruct (N.land d3 128 =? 0); discriminate.
Qed.

Lemma tag_take_from_if_peek e d :
  tag_take_from_if e (pure_src d None) =
    match peek_tag d with
    | None => (Ok None, pure_src d None)
    | Some None => (CErr, pure_src d None)
    | Some (Some (t, c, k)) =>
        if tag_eqb t e then (Ok (Some c), pure_src (skipN k d) None)
        else (Ok None, pure_src d None)
    end.
Proof. apply (tag_take_from_if_peek_gen e (pure_src d None)). reflexivity. Qed.

(* absence or error never touches the source, under any limit *)
Theorem tag_take_from_if_untouched_gen e s r s' : flt s = None ->
  tag_take_from_if e s = (r, s') -> (forall c, r <> Ok (Some c)) -> s' = s /\ (r = Ok None \/ r = CErr).
Proof.
  intro Hf. rewrite (tag_take_from_if_peek_gen e s Hf).
  destruct (peek_tag (visible s)) as [[[[t c] k]|]|].
  - destruct (tag_eqb t e).
    + intros [= <- <-] H. exfalso. apply (H c). reflexivity.
    + intros [= <- <-] _. split; [reflexivity|left; reflexivity].
  - intros [= <- <-] _. split; [reflexivity|right; reflexivity].
  - intros [= <- <-] _. split; [reflexivity|left; reflexivity].
Qed.

(* C12, conditional read: consumes the identifier exactly when it equals the
   expected tag and leaves the source untouched otherwise. *)
Theorem tag_take_from_if_untouched e d r s' :
  tag_take_from_if e (pure_src d None) = (r, s') ->
  (forall c, r <> Ok (Some c)) -> s' = pure_src d None /\ (r = Ok None \/ r = CErr).
Proof.
  rewrite tag_take_from_if_peek.
  destruct (peek_tag d) as [[[[t c] k]|]|].
  - destruct (tag_eqb t e).
    + intros [= <- <-] H. exfalso. apply (H c). reflexivity.
    + intros [= <- <-] _. split; [reflexivity|left; reflexivity].
  - intros [= <- <-] _. split; [reflexivity|right; reflexivity].
  - intros [= <- <-] _. split; [reflexivity|left; reflexivity].
Qed.

Theorem tag_take_from_if_match e d c s' : octets_ok d = true ->
  tag_take_from_if e (pure_src d None) = (Ok (Some c), s') ->
  d = tag_write c e ++ rem s' /\ s' = pure_src (rem s') None /\
  len (rem s') + tag_encoded_len e = len d.
Proof.
  intro Hok. rewrite tag_take_from_if_peek.
  destruct (peek_tag d) as [[[[t c0] k]|]|] eqn:P; try discriminate.
  destruct (tag_eqb t e) eqn:E; [|discriminate].
  apply tag_eqb_eq in E. subst t. intros [= <- <-].
  destruct (peek_tag_len d e c0 k P) as (Hk & Hle & Hw).
  cbn [rem pure_src]. rewrite <- (Hw Hok). unfold firstN, skipN.
  rewrite firstn_skipn. split; [reflexivity|]. split; [reflexivity|].
  unfold len. rewrite skipn_length. unfold len in Hle. lia.
Qed.

Lemma peek_tag_write cls n e (c : bool) r : is_class cls -> tag_new cls n = Ok e ->
  peek_tag (tag_write c e ++ r) = Some (Some (e, c, len (tag_write c e))).
Proof.
  intros Hc Hn. rewrite (tag_write_cases cls n e c Hc Hn). unfold peek_tag.
  destruct (tag_new_inv cls n e Hc Hn) as [[H ->]|[[H ->]|[[H ->]|[H ->]]]].
  - replace (n <=? 30) with true by lia. cbn [app].
    destruct (first_octet cls n c Hc) as [-> ->]; [lia|].
    rewrite land31_r_lo by (assumption || lia). reflexivity.
  - replace (n <=? 30) with false by lia. replace (n <=? 127) with true by lia. cbn [app].
    destruct (first_octet cls 31 c Hc) as [-> ->]; [lia|].
    rewrite land31_r_hi by assumption. rewrite bit8r_clear by lia. reflexivity.
  - replace (n <=? 30) with false by lia. replace (n <=? 127) with false by lia.
    replace (n <=? 16383) with true by lia. cbn [app].
    destruct (first_octet cls 31 c Hc) as [-> ->]; [lia|].
    rewrite land31_r_hi by assumption. rewrite bit8r_set by lia. rewrite bit8r_clear by lia. reflexivity.
  - replace (n <=? 30) with false by lia. replace (n <=? 127) with false by lia.
    replace (n <=? 16383) with false by lia. cbn [app].
    destruct (first_octet cls 31 c Hc) as [-> ->]; [lia|].
    rewrite land31_r_hi by assumption. rewrite !bit8r_set by lia. rewrite bit8r_clear by lia. reflexivity.
Qed.

(* and it agrees with unconditional reading for canonical expected tags *)
Theorem tag_take_from_if_iff cls n e d c s' : is_class cls -> tag_new cls n = Ok e ->
  octets_ok d = true ->
  (tag_take_from_if e (pure_src d None) = (Ok (Some c), s') <->
   tag_take_from (pure_src d None) = (Ok (e, c), s')).
Proof.
  intros Hc Hn Hok. split.
  - intro H. destruct (tag_take_from_if_match e d c s' Hok H) as (Hd & Hs & _).
    rewrite Hs. rewrite Hd at 1. unfold pure_src.
    rewrite (tag_read_back cls n e c (rem s') None Hc Hn I). reflexivity.
  - intro H. destruct (tag_decoder_canonical d e c s' Hok H) as (_ & _ & _ & Hd & Hs).
    rewrite tag_take_from_if_peek. rewrite Hd at 1.
    rewrite (peek_tag_write cls n e c (rem s') Hc Hn).
    replace (tag_eqb e e) with true by (symmetry; apply tag_eqb_eq; reflexivity).
    rewrite Hs. f_equal. f_equal. rewrite Hd at 1. unfold skipN, len.
    rewrite Nnat.Nat2N.id. rewrite skipn_app, skipn_all, Nat.sub_diag. reflexivity.
Qed.
