(* The CER shape rule of constructed octet strings (C16): a sequence of primitive
   OCTET STRING segments in which every segment has at most 1000 octets and no
   segment follows one shorter than 1000 IS accepted by the CER segment loop,
   which stops in front of the end-of-contents having read exactly the segments. *)
From Coq Require Import Lia ZifyBool ZifyN ZifyNat.
Require Import BV.Model.Base BV.Model.SrcB BV.Model.Length BV.Model.Tag BV.Model.Twos BV.Model.Int
               BV.Model.Content BV.Model.OctStr BV.Model.Encode BV.Model.Prog.
Require Import BV.Proofs.Bits BV.Proofs.SrcBP BV.Proofs.LengthP BV.Proofs.TagP BV.Proofs.ContentP BV.Proofs.OctGrammarP
               BV.Proofs.WinP BV.Proofs.TotalP BV.Proofs.DeltaP BV.Proofs.IntP BV.Proofs.IntEncP BV.Proofs.BitStrP
               BV.Proofs.EncodeP BV.Proofs.GrammarP BV.Proofs.EncGrammarP BV.Proofs.TypedP BV.Proofs.SchemaP BV.Proofs.Schema2P BV.Proofs.OctComplP.
Arguments N.add : simpl never. Arguments N.sub : simpl never.
Arguments N.ltb : simpl never. Arguments N.leb : simpl never. Arguments N.eqb : simpl never.
Arguments N.min : simpl never.

(* process_next_value depends on its closure only through the closure's results *)
Lemma bind_ext {A B} (m : M A) (f g : A -> M B) s :
  (forall a s', f a s' = g a s') -> bind m f s = bind m g s.
Proof. intro H. unfold bind. destruct (m s) as [[a| | | |] s1]; auto. Qed.

Lemma bind_ext_l {A B} (m1 m2 : M A) (k : A -> M B) s :
  (forall s', m1 s' = m2 s') -> bind m1 k s = bind m2 k s.
Proof. intro H. unfold bind. rewrite H. reflexivity. Qed.

Lemma pnv_ext {T} c e (op1 op2 : tag -> content -> M (T * content)) s :
  (forall t ct s', op1 t ct s' = op2 t ct s') ->
  process_next_value c e op1 s = process_next_value c e op2 s.
Proof.
  intro H. unfold process_next_value.
  apply bind_ext; intros ex s1. destruct ex; [reflexivity|].
  apply bind_ext; intros hdr s2. destruct hdr as [[t k]|]; [|reflexivity].
  apply bind_ext; intros l s3. destruct (tag_eqb t END_OF_VALUE); [reflexivity|].
  destruct l as [n|].
  - apply bind_ext; intros old s4. apply bind_ext; intros [] s5. apply bind_ext; intros [] s6.
    apply bind_ext; intros [] s7. cbv zeta. unfold bind at 1 3. rewrite H. reflexivity.
  - destruct (negb k || mode_eqb (cmd c) Der); [reflexivity|]. unfold bind at 1 3. rewrite H. reflexivity.
Qed.

(* the per-segment check of take_constructed_cer as a leaf reader *)
Definition cer_seg (short : bool) (_ : mode) : M bool :=
  n <- remaining ;;
  if 1000 <? n then cerr else
  if short then cerr else
  skip_all_lim ;;; ret (n <? 1000).

Lemma cer_closure_eq (short : bool) t ct s :
  as_prim (fun m : mode => bind remaining (fun n : N => if (1000 <? n)%N then @cerr (bool * mode) else if short then @cerr (bool * mode) else
                    skip_all_lim ;;; ret (n <? 1000, m))) t ct s
  = prim_closure (cer_seg short) t ct s.
Proof.
  destruct ct as [m|c0]; [|reflexivity]. cbn [as_prim prim_closure]. unfold cer_seg, bind.
  destruct (remaining s) as [[n| | | |] s1]; try reflexivity.
  destruct (1000 <? n); [reflexivity|]. destruct short; [reflexivity|].
  destruct (skip_all_lim s1) as [[[]| | | |] s2]; reflexivity.
Qed.

Lemma Win_cer_seg short m : Win (cer_seg short m).
Proof. unfold cer_seg. win_auto. apply Win_bind; [apply Win_skip_all|]. intro. apply Win_ret. Qed.

Lemma St_cer_seg short m z : Safe (St true z) (cer_seg short m) (fun _ => St true z).
Proof.
  unfold cer_seg. eapply Safe_bind; [apply St_remaining|]. intro n.
  apply Safe_if; [apply Safe_cerr|]. apply Safe_if; [apply Safe_cerr|].
  eapply Safe_bind; [apply St_skip_all|]. intro. apply Safe_ret. auto.
Qed.

Lemma cer_seg_decode short m c : len c <= 1000 -> short = false ->
  prim_decode (cer_seg short m) c = Ok (len c <? 1000).
Proof.
  intros Hl ->. unfold prim_decode, cer_seg. change (pure_src c (Some (len c))) with (full c).
  unfold bind at 1. rewrite (bind_ok remaining _ _ (len c) (full c)) by reflexivity.
  replace (1000 <? len c) with false by lia.
  rewrite (bind_ok skip_all_lim _ _ tt done_src) by apply skip_all_full.
  reflexivity.
Qed.

(* segments and their encoding *)
Inductive cer_segs : list (list N) -> list N -> Prop :=
| CS_nil : cer_segs [] []
| CS_cons c r lw ds : lenoct Cer (len c) lw -> cer_segs r ds ->
    cer_segs (c :: r) ((tag_write false T_OCTET_STRING ++ lw ++ c) ++ ds).

(* every segment at most 1000 octets, none after a shorter one *)
Fixpoint cer_shape (short : bool) (segs : list (list N)) : bool :=
  match segs with
  | [] => true
  | c :: r => negb short && (len c <=? 1000) && cer_shape (len c <? 1000) r
  end.

Lemma legal_octet_string : tag_ok T_OCTET_STRING.
Proof. split; [split; [left; reflexivity|reflexivity]|reflexivity]. Qed.

Theorem cer_loop_complete segs ds : cer_segs segs ds ->
  forall short fuel c rest l, cer_shape short segs = true -> cmd c = Cer -> cst c = Indefinite ->
    (length segs < fuel)%nat -> octets_ok (ds ++ 0 :: 0 :: rest) = true -> lim_ge l (len ds + 2) ->
    cer_segments_loop fuel short c (mkSrc (ds ++ 0 :: 0 :: rest) l None)
    = (Ok (tt, c), mkSrc (0 :: 0 :: rest) (lim_sub l (len ds)) None).
Proof.
  destruct legal_octet_string as [Hleg Heov].
  induction 1 as [|cc r lw ds Hlw Hr IH]; intros short fuel c rest l Hsh Hm Hc Hf Ho Hl.
  - destruct fuel as [|f]; [cbn in Hf; lia|]. cbn [cer_segments_loop app].
    rewrite (bind_ext_l _ _ _ _ (fun s' => pnv_ext c (Some T_OCTET_STRING) _ _ s' (cer_closure_eq short))).
    assert (Hno : NoTag T_OCTET_STRING c (mkSrc (0 :: 0 :: rest) l None)).
    { destruct c as [st md]. cbn [cst] in Hc. subst st. apply NoTag_eoc; [exact legal_octet_string|].
      eapply lim_ge_mono; [|exact Hl]. change (len (@nil N)) with 0. lia. }
    rewrite (bind_ok _ _ _ _ _ (Hno _ _)). cbv iota beta. change (len (@nil N)) with 0. rewrite lim_sub_0. reflexivity.
  - cbn [cer_shape] in Hsh. apply andb_prop in Hsh as [Hsh Hsh3]. apply andb_prop in Hsh as [Hsh1 Hsh2].
    destruct short; [discriminate|].
    destruct fuel as [|f]; [cbn in Hf; lia|]. cbn [cer_segments_loop].
    rewrite (bind_ext_l _ _ _ _ (fun s' => pnv_ext c (Some T_OCTET_STRING) _ _ s' (cer_closure_eq false))).
    set (d := tag_write false T_OCTET_STRING ++ lw ++ cc) in *.
    rewrite <- app_assoc. rewrite len_app in Hl.
    assert (Hld : 1 <= len d). { unfold d. rewrite len_app. pose proof (tag_write_len_pos false T_OCTET_STRING). lia. }
    rewrite (bind_ok _ _ _ _ _ (leaf_field_if (cer_seg false) T_OCTET_STRING cc lw (len cc <? 1000) c (ds ++ 0 :: 0 :: rest) l
               (Win_cer_seg false (cmd c)) (St_cer_seg false (cmd c)) Hleg Heov ltac:(rewrite Hm; exact Hlw)
               (cer_seg_decode false (cmd c) cc ltac:(lia) eq_refl) ltac:(rewrite app_assoc; exact Ho)
               ltac:(unfold d in *; eapply lim_ge_mono; [|exact Hl]; lia)
               ltac:(unfold may_start; rewrite Hc; exact I))).
    cbv iota beta. fold d.
    rewrite (IH (len cc <? 1000) f c rest (lim_sub l (len d)) Hsh3 Hm Hc ltac:(cbn [length] in Hf; lia)
               ltac:(rewrite <- app_assoc in Ho; apply octets_ok_app_r in Ho; exact Ho)
               ltac:(apply lim_ge_sub; eapply lim_ge_mono; [|exact Hl]; lia)).
    rewrite lim_sub_sub, len_app. reflexivity.
Qed.

(* the constructed CER octet string: accepted, the captured content is exactly the segments
   (the end-of-contents is left to the enclosing value) *)
Theorem constructed_cer_complete segs ds fuel c rest l :
  cer_segs segs ds -> cer_shape false segs = true -> cmd c = Cer -> cst c = Indefinite ->
  (length segs < fuel)%nat -> octets_ok (ds ++ 0 :: 0 :: rest) = true -> lim_ge l (len ds + 2) ->
  take_constructed_cer fuel c (mkSrc (ds ++ 0 :: 0 :: rest) l None)
  = (Ok (OCons ds, c), mkSrc (0 :: 0 :: rest) (lim_sub l (len ds)) None).
Proof.
  intros Hs Hsh Hm Hc Hf Ho Hl. unfold take_constructed_cer, capture.
  unfold bind at 1. unfold bind at 1. unfold get at 1. cbv beta iota.
  unfold bind at 1. rewrite (cer_loop_complete segs ds Hs false fuel c rest l Hsh Hm Hc Hf Ho Hl). cbv beta iota.
  unfold bind at 1. unfold get at 1. cbv beta iota. cbn [rem lim flt].
  assert (Hn : len (ds ++ 0 :: 0 :: rest) - len (0 :: 0 :: rest) = len ds) by (rewrite len_app; lia).
  rewrite Hn.
  assert (Hchk : (match l with Some l0 => if l0 <? len ds then panic else ret tt | None => ret tt end)
                   (mkSrc (0 :: 0 :: rest) (lim_sub l (len ds)) None) = (Ok tt, mkSrc (0 :: 0 :: rest) (lim_sub l (len ds)) None)).
  { destruct l as [x|]; [|reflexivity]. cbn [lim_ge] in Hl. replace (x <? len ds) with false by lia. reflexivity. }
  unfold bind at 1. rewrite Hchk. unfold bind, put, ret. cbn [rem lim flt].
  rewrite firstN_len_app, with_state_id. reflexivity.
Qed.

(* non-vacuity: two segments, the second shorter *)
Example cer_shape_example :
  cer_shape false [repeat 7 1000; [1; 2]] = true /\ cer_shape false [[1; 2]; [3]] = false /\
  cer_shape false [repeat 7 1001] = false.
Proof. repeat split; vm_compute; reflexivity. Qed.

(* ---- and conversely: whatever the CER segment loop accepts has that shape ---- *)
Require Import BV.Proofs.SchemaSoundP BV.Proofs.Schema2SoundP BV.Proofs.CaptureP.

Lemma cer_seg_decode_inv short m c sh : prim_decode (cer_seg short m) c = Ok sh ->
  len c <= 1000 /\ short = false /\ sh = (len c <? 1000).
Proof.
  unfold prim_decode, cer_seg. change (pure_src c (Some (len c))) with (full c).
  unfold bind at 1. rewrite (bind_ok remaining _ _ (len c) (full c)) by reflexivity.
  destruct (1000 <? len c) eqn:E; [discriminate|]. destruct short; [discriminate|].
  rewrite (bind_ok skip_all_lim _ _ tt done_src) by apply skip_all_full.
  unfold ret, bind. cbn. intros [= <-]. repeat split; lia.
Qed.

Theorem cer_loop_sound fuel : forall short c s u c' s',
  nf s -> octets_ok (rem s) = true -> cmd c = Cer ->
  cer_segments_loop fuel short c s = (Ok (u, c'), s') ->
  nf s' /\ c' = c /\ exists segs ds, cer_segs segs ds /\ cer_shape short segs = true /\
    rem s = ds ++ rem s' /\ consumed s s' (len ds).
Proof.
  destruct legal_octet_string as [Hleg Heov].
  induction fuel as [|f IH]; intros short c s u c' s' Hn Ho Hm H; [discriminate|].
  cbn [cer_segments_loop] in H.
  rewrite (bind_ext_l _ _ _ _ (fun s' => pnv_ext c (Some T_OCTET_STRING) _ _ s' (cer_closure_eq short))) in H.
  apply bind_ok_inv in H as ([o c1] & s1 & H1 & H).
  destruct o as [sh|].
  - destruct (pnv_inv_if c T_OCTET_STRING _ s sh c1 s1 Hn Ho H1) as (k0 & lw & lv & r2 & Hrem & Hspec & Hlg & Ht).
    destruct (typed_tail_sound (cer_seg short) c T_OCTET_STRING k0 lw lv r2 _ sh c1 s1
                (Win_cer_seg short (cmd c)) (St_cer_seg short (cmd c)) Heov Hspec Ht)
      as (-> & -> & cc & Hlo & Hr2 & Hs1 & Hl1 & Hdec).
    destruct (cer_seg_decode_inv _ _ _ _ Hdec) as (Hcc & -> & ->).
    assert (Hn1 : nf s1) by (rewrite Hs1; reflexivity).
    assert (Ho1 : octets_ok (rem s1) = true).
    { rewrite Hrem, Hr2 in Ho. apply octets_ok_app_r in Ho. apply octets_ok_app_r in Ho. apply octets_ok_app_r in Ho. exact Ho. }
    destruct (IH (len cc <? 1000) c s1 u c' s' Hn1 Ho1 Hm H) as (Hn' & -> & segs & ds & Hsegs & Hshape & Hrem1 & Hc1).
    split; [exact Hn'|]. split; [reflexivity|].
    exists (cc :: segs), ((tag_write false T_OCTET_STRING ++ lw ++ cc) ++ ds).
    split; [constructor; [rewrite <- Hm; exact Hlo|exact Hsegs]|].
    split; [cbn [cer_shape negb andb]; replace (len cc <=? 1000) with true by lia; exact Hshape|].
    split; [rewrite Hrem, Hr2, Hrem1, <- !app_assoc; reflexivity|].
    rewrite len_app. eapply consumed_trans; [|exact Hc1].
    unfold consumed. rewrite Hs1. cbn [lim]. rewrite lim_sub_sub, !len_app.
    split; [f_equal; lia|]. destruct (lim s) as [x|]; cbn [lim_ge lim_sub] in *; [lia|trivial].
  - injection H as <- <- <-.
    destruct (pnv_none_if c T_OCTET_STRING _ s c1 s1 Hn Heov H1) as [-> ->].
    split; [exact Hn|]. split; [reflexivity|]. exists [], []. split; [constructor|]. split; [reflexivity|].
    split; [reflexivity|apply consumed_0].
Qed.

(* the CER segment loop accepts exactly the shaped segment sequences *)
Theorem constructed_cer_sound fuel c s o c' s' :
  nf s -> octets_ok (rem s) = true -> cmd c = Cer ->
  take_constructed_cer fuel c s = (Ok (o, c'), s') ->
  exists segs ds, o = OCons ds /\ cer_segs segs ds /\ cer_shape false segs = true /\ rem s = ds ++ rem s'.
Proof.
  intros Hn Ho Hm H. unfold take_constructed_cer in H. apply bind_ok_inv in H as ([[b u] c0] & s0 & H & H').
  injection H' as <- <- <-.
  destruct (capture_inv _ _ _ _ _ _ _ H) as (c1 & s1 & Hop & Ec & Eb & Hr & _).
  destruct (cer_loop_sound fuel false c s u c1 s1 Hn Ho Hm Hop) as (_ & _ & segs & ds & Hsegs & Hshape & Hrem & _).
  exists segs, ds. rewrite Hr. split; [|auto].
  f_equal. rewrite Eb, Hrem. apply firstN_prefix.
Qed.

(* the primitive form: accepted exactly when it is not a CER primitive of more than 1000 octets *)
Theorem octstr_primitive_accepted fuel t m c :
  octstr_from_content fuel t (CPrim m) (full c)
  = if mode_eqb m Cer && (1000 <? len c) then (CErr, full c) else (Ok (OPrim c, CPrim m), done_src).
Proof.
  cbn [octstr_from_content]. rewrite (bind_ok remaining _ _ (len c) (full c)) by reflexivity.
  destruct (mode_eqb m Cer && (1000 <? len c)); [reflexivity|].
  rewrite (bind_ok take_all_lim _ _ c done_src) by apply take_all_full. reflexivity.
Qed.
