(* Proofs about Model/Int.v (properties C14, C15). *)
From Coq Require Import Lia ZifyBool ZifyN.
Require Import BV.Model.Base BV.Model.SrcB BV.Model.Length BV.Model.Twos BV.Model.Int.
Require Import BV.Proofs.Bits BV.Proofs.SrcBP BV.Proofs.TwosP.
Ltac Zify.zify_post_hook ::= Z.div_mod_to_equations.
Arguments N.add : simpl never. Arguments N.sub : simpl never.
Arguments N.mul : simpl never. Arguments N.ltb : simpl never.
Arguments N.leb : simpl never. Arguments N.eqb : simpl never.
Arguments N.land : simpl never. Arguments N.lor : simpl never.
Arguments N.shiftl : simpl never. Arguments N.min : simpl never.

(* ---------- running accessors on a whole primitive content ---------- *)
Definition full (c : list N) : src := mkSrc c (Some (len c)) None.
Definition done_src : src := mkSrc [] (Some 0) None.

Lemma firstN_all {A} (c : list A) : firstN (len c) c = c.
Proof. unfold firstN, len. rewrite Nnat.Nat2N.id. apply firstn_all. Qed.
Lemma skipN_all {A} (c : list A) : skipN (len c) c = [].
Proof. unfold skipN, len. rewrite Nnat.Nat2N.id. apply skipn_all. Qed.
Lemma visible_full c : visible (full c) = c.
Proof. rewrite visible_eq. unfold full. cbn [lim rem]. apply firstN_all. Qed.
Lemma avail_full c : avail (full c) = len c.
Proof. unfold avail, full. cbn [lim rem]. lia. Qed.

Lemma bit8_ge b : b < 256 -> bit8 b = (128 <=? b).
Proof. intro H. unfold bit8. rewrite land_128. lia. Qed.

Definition nonneg_head (c : list N) : bool :=
  match c with [] => false | b :: _ => b <? 128 end.

Lemma int_check_head_run c : octets_ok c = true ->
  int_check_head (full c) = (if minimal c then Ok tt else CErr, full c).
Proof.
  intro Hok. unfold int_check_head.
  rewrite (bind_ok tick _ _ tt (full c)) by reflexivity. rewrite visible_full.
  destruct c as [|b0 [|b1 r]]; try reflexivity.
  apply octets_ok_cons in Hok as [H0 Hok]. apply octets_ok_cons in Hok as [H1 _].
  cbn [minimal]. rewrite (bit8_ge b1 H1).
  destruct (b0 =? 0) eqn:E0, (b0 =? 255) eqn:E1, (128 <=? b1) eqn:E2;
    cbn [andb orb negb]; try reflexivity;
    replace (b1 <? 128) with (negb (128 <=? b1)) by lia; rewrite E2; reflexivity.
Qed.

Lemma uns_check_head_run c : octets_ok c = true ->
  uns_check_head (full c) = (if minimal c && nonneg_head c then Ok tt else CErr, full c).
Proof.
  intro Hok. unfold uns_check_head, bind. rewrite (int_check_head_run c Hok).
  destruct (minimal c) eqn:M; [|reflexivity]. rewrite visible_full.
  destruct c as [|b0 r]; [discriminate|].
  apply octets_ok_cons in Hok as [H0 _]. rewrite (bit8_ge b0 H0). cbn [nonneg_head andb].
  destruct (128 <=? b0) eqn:E; replace (b0 <? 128) with (negb (128 <=? b0)) by lia; rewrite E; reflexivity.
Qed.

Lemma need_full c : need (len c) (full c) = (Ok tt, full c).
Proof.
  unfold need. rewrite (bind_ok tick _ _ tt (full c)) by reflexivity.
  rewrite avail_full. replace (len c <? len c) with false by lia. reflexivity.
Qed.
Lemma advance_full c : advance (len c) (full c) = (Ok tt, done_src).
Proof.
  unfold advance, full, done_src. cbn [rem lim flt].
  replace (len c <? len c) with false by lia. rewrite skipN_all. do 3 f_equal. lia.
Qed.
Lemma slice_all_full c : slice_all_lim (full c) = (Ok c, full c).
Proof.
  unfold slice_all_lim. cbn [lim full].
  rewrite (bind_ok (need (len c)) _ _ tt (full c)) by apply need_full.
  unfold bind, get, ret. cbn [rem full]. rewrite firstN_all. reflexivity.
Qed.
Lemma take_all_full c : take_all_lim (full c) = (Ok c, done_src).
Proof.
  unfold take_all_lim. cbn [lim full].
  rewrite (bind_ok (need (len c)) _ _ tt (full c)) by apply need_full.
  unfold bind at 1. unfold get. unfold bind. change (mkSrc c (Some (len c)) None) with (full c).
  rewrite advance_full. unfold ret. cbn [rem full]. rewrite firstN_all. reflexivity.
Qed.
Lemma with_slice_all_full {T} (op : list N -> res T) c :
  with_slice_all op (full c) =
    match op c with
    | Ok v => (Ok v, done_src) | CErr => (CErr, full c) | SErr => (SErr, full c)
    | Panic => (Panic, full c) | NoFuel => (NoFuel, full c) end.
Proof.
  unfold with_slice_all. rewrite (bind_ok slice_all_lim _ _ c (full c)) by apply slice_all_full.
  destruct (op c); try reflexivity.
  unfold bind. rewrite advance_full. reflexivity.
Qed.
Lemma exhausted_done : src_exhausted done_src = (Ok tt, done_src).
Proof. reflexivity. Qed.
Lemma remaining_full c : remaining (full c) = (Ok (len c), full c).
Proof. reflexivity. Qed.

Lemma prim_decode_eq {T} (op : M T) c r s' :
  op (full c) = (r, s') ->
  prim_decode op c =
    match r with
    | Ok v => match fst (src_exhausted s') with Ok _ => Ok v | CErr => CErr | SErr => SErr
                                                | Panic => Panic | NoFuel => NoFuel end
    | CErr => CErr | SErr => SErr | Panic => Panic | NoFuel => NoFuel end.
Proof.
  intro H. unfold prim_decode, bind. change (pure_src c (Some (len c))) with (full c).
  rewrite H. destruct r; try reflexivity.
  destruct (src_exhausted s') as [[[]| | | |] s'']; reflexivity.
Qed.

(* ---------- length versus range, for minimal contents ---------- *)
Lemma signed_fits c w : octets_ok c = true -> minimal c = true -> (1 <= w)%nat ->
  (N.of_nat w <? len c) = negb (in_range true w (tc_val c)).
Proof.
  intros Hok Hm Hw. unfold in_range, len.
  assert (Hne : c <> []) by (destruct c; [discriminate|congruence]).
  pose proof (tc_val_bound c Hok Hne) as Hb.
  destruct (N.of_nat w <? N.of_nat (length c)) eqn:E.
  - (* too long: out of range *)
    assert (Hl : (2 <= length c)%nat) by lia.
    pose proof (minimal_lower c Hok Hm Hl) as Hlow.
    assert (pw (w - 1) <= pw (length c - 2))%Z by (apply pw_mono; lia).
    symmetry. apply negb_true_iff. apply andb_false_iff. lia.
  - assert (pw (length c - 1) <= pw (w - 1))%Z by (apply pw_mono; lia).
    symmetry. apply negb_false_iff. apply andb_true_iff. lia.
Qed.

Lemma be_valZ_lower l : octets_ok l = true -> l <> [] -> hd 0%N l <> 0%N ->
  (pw (length l - 1) <= be_valZ l)%Z.
Proof.
  destruct l as [|b r]; [congruence|]. intros Hok _ Hh. cbn [hd] in Hh.
  apply octets_ok_cons in Hok as [Hb Hr].
  rewrite be_valZ_cons. cbn [length]. replace (S (length r) - 1)%nat with (length r) by lia.
  pose proof (be_valZ_bound r Hr). pose proof (pw_pos (length r)). nia.
Qed.

(* ---------- C14: the fixed-width accessors ---------- *)
(* the accessor returns the mathematical value exactly when the content is the
   minimal two's-complement form and the value is in range; otherwise it is a
   content error - never a panic, never a wrapped or truncated value *)
Definition int_dec_spec (sg : bool) (w : nat) (c : list N) : res Z :=
  if minimal c && in_range sg w (tc_val c) then Ok (tc_val c) else CErr.

Theorem signed_from_primitive_spec w c : octets_ok c = true -> (1 <= w)%nat ->
  prim_decode (signed_from_primitive w) c = int_dec_spec true w c.
Proof.
  intros Hok Hw. unfold int_dec_spec.
  destruct (minimal c) eqn:Hm.
  - assert (R : signed_from_primitive w (full c) =
        if N.of_nat w <? len c then (CErr, full c) else (Ok (tc_val c), done_src)).
    { unfold signed_from_primitive.
      rewrite (bind_ok int_check_head _ _ tt (full c)) by (rewrite int_check_head_run, Hm; trivial).
      rewrite with_slice_all_full. unfold slice_signed.
      destruct (N.of_nat w <? len c); [reflexivity|].
      destruct c; [discriminate|reflexivity]. }
    rewrite (signed_fits c w Hok Hm Hw) in R.
    destruct (in_range true w (tc_val c)); cbn [negb andb] in *;
      rewrite (prim_decode_eq _ _ _ _ R); reflexivity.
  - cbn [andb].
    assert (R : signed_from_primitive w (full c) = (CErr, full c)).
    { unfold signed_from_primitive.
      rewrite (bind_cerr int_check_head _ _ (full c)) by (rewrite int_check_head_run, Hm; trivial).
      reflexivity. }
    rewrite (prim_decode_eq _ _ _ _ R). reflexivity.
Qed.

Lemma take_u8_full b r :
  take_u8 (full (b :: r)) = (Ok b, mkSrc r (Some (len r)) None).
Proof.
  unfold full. rewrite take_u8_cons by (cbn [lim_ge]; rewrite len_cons; lia).
  cbn [lim_sub]. rewrite len_cons. do 3 f_equal. lia.
Qed.

Theorem i8_from_primitive_spec c : octets_ok c = true ->
  prim_decode i8_from_primitive c = int_dec_spec true 1 c.
Proof.
  intros Hok. unfold int_dec_spec.
  destruct (minimal c) eqn:Hm.
  - destruct c as [|b r]; [discriminate|].
    assert (R : i8_from_primitive (full (b :: r)) = (Ok (sbyte b), full r)).
    { unfold i8_from_primitive.
      rewrite (bind_ok int_check_head _ _ tt (full (b :: r))) by (rewrite int_check_head_run, Hm; trivial).
      rewrite (bind_ok take_u8 _ _ b (full r)) by apply take_u8_full. reflexivity. }
    rewrite (prim_decode_eq _ _ _ _ R).
    pose proof (signed_fits (b :: r) 1 Hok Hm ltac:(lia)) as F. rewrite len_cons in F.
    destruct r as [|b1 r'].
    + cbn [full len length N.of_nat src_exhausted lim fst].
      replace (in_range true 1 (tc_val [b])) with true by (symmetry; apply negb_false_iff; rewrite <- F; cbn; lia).
      cbn [andb]. rewrite tc_val_cons. cbn [length be_valZ be_acc]. rewrite pw_0. f_equal. lia.
    + replace (in_range true 1 (tc_val (b :: b1 :: r'))) with false
        by (symmetry; apply negb_true_iff; rewrite <- F; rewrite len_cons; lia).
      cbn [andb]. unfold full, src_exhausted. cbn [lim]. rewrite len_cons.
      destruct (1 + len r') eqn:E; [lia|reflexivity].
  - cbn [andb].
    assert (R : i8_from_primitive (full c) = (CErr, full c)).
    { unfold i8_from_primitive.
      rewrite (bind_cerr int_check_head _ _ (full c)) by (rewrite int_check_head_run, Hm; trivial).
      reflexivity. }
    rewrite (prim_decode_eq _ _ _ _ R). reflexivity.
Qed.

(* unsigned: range versus length of the value octets *)
Lemma unsigned_fits c w : octets_ok c = true -> minimal c = true -> nonneg_head c = true ->
  match c with
  | [] => True
  | b0 :: r =>
      let val := if b0 =? 0 then r else c in
      tc_val c = be_valZ val /\
      ((len val =? 0) = true -> tc_val c = 0%Z /\ in_range false w (tc_val c) = true) /\
      ((len val =? 0) = false -> (N.of_nat w <? len val) = negb (in_range false w (tc_val c)))
  end.
Proof.
  intros Hok Hm Hn. destruct c as [|b0 r]; [trivial|]. cbn [nonneg_head] in Hn.
  pose proof Hok as Hok'. apply octets_ok_cons in Hok' as [Hb0 Hr].
  assert (Hv : tc_val (b0 :: r) = be_valZ (b0 :: r)).
  { rewrite tc_val_cons, be_valZ_cons. unfold sbyte. replace (b0 <? 128) with true by lia. reflexivity. }
  destruct (b0 =? 0) eqn:E0.
  - assert (b0 = 0) as -> by lia. cbv zeta.
    assert (Hv2 : tc_val (0 :: r) = be_valZ r) by (rewrite Hv, be_valZ_cons; lia).
    split; [exact Hv2|]. split.
    + intro Hz. assert (r = []) as -> by (destruct r; [reflexivity|rewrite len_cons in Hz; lia]).
      split; [reflexivity|]. unfold in_range. change (tc_val [0]) with 0%Z. pose proof (pw_pos w). lia.
    + intro Hz. destruct r as [|b1 r']; [cbn in Hz; lia|].
      cbn [minimal] in Hm. pose proof Hr as Hr1. apply octets_ok_cons in Hr1 as [Hb1 Hr'].
      assert (Hb1' : 128 <= b1) by lia.
      pose proof (be_valZ_lower (b1 :: r') Hr ltac:(congruence) ltac:(cbn; lia)) as Hlo.
      pose proof (be_valZ_bound (b1 :: r') Hr) as Hhi.
      rewrite Hv2. unfold in_range, len.
      destruct (N.of_nat w <? N.of_nat (length (b1 :: r'))) eqn:E.
      * assert (pw w <= pw (length (b1 :: r') - 1))%Z by (apply pw_mono; lia).
        symmetry. apply negb_true_iff. apply andb_false_iff. lia.
      * assert (pw (length (b1 :: r')) <= pw w)%Z by (apply pw_mono; lia).
        symmetry. apply negb_false_iff. apply andb_true_iff. lia.
  - cbv zeta. split; [exact Hv|]. split; [intro Hz; rewrite len_cons in Hz; lia|].
    intros _.
    pose proof (be_valZ_lower (b0 :: r) Hok ltac:(congruence) ltac:(cbn; lia)) as Hlo.
    pose proof (be_valZ_bound (b0 :: r) Hok) as Hhi.
    rewrite Hv. unfold in_range, len.
    destruct (N.of_nat w <? N.of_nat (length (b0 :: r))) eqn:E.
    * assert (pw w <= pw (length (b0 :: r) - 1))%Z by (apply pw_mono; lia).
      symmetry. apply negb_true_iff. apply andb_false_iff. lia.
    * assert (pw (length (b0 :: r)) <= pw w)%Z by (apply pw_mono; lia).
      symmetry. apply negb_false_iff. apply andb_true_iff. lia.
Qed.

Lemma neg_head_out_of_range c w : octets_ok c = true -> c <> [] -> nonneg_head c = false ->
  in_range false w (tc_val c) = false.
Proof.
  intros Hok Hne Hn. destruct c as [|b r]; [congruence|]. cbn [nonneg_head] in Hn.
  pose proof (proj2 (tc_val_sign b r Hok) ltac:(lia)). unfold in_range. lia.
Qed.

Theorem unsigned_from_primitive_spec w c : octets_ok c = true ->
  prim_decode (unsigned_from_primitive w) c = int_dec_spec false w c.
Proof.
  intros Hok. unfold int_dec_spec.
  destruct (minimal c) eqn:Hm.
  2:{ cbn [andb].
      assert (R : unsigned_from_primitive w (full c) = (CErr, full c)).
      { unfold unsigned_from_primitive.
        rewrite (bind_cerr uns_check_head _ _ (full c)) by (rewrite uns_check_head_run, Hm; trivial).
        reflexivity. }
      rewrite (prim_decode_eq _ _ _ _ R). reflexivity. }
  destruct (nonneg_head c) eqn:Hn.
  2:{ rewrite (neg_head_out_of_range c w Hok) by (destruct c; [discriminate|congruence] || assumption).
      cbn [andb].
      assert (R : unsigned_from_primitive w (full c) = (CErr, full c)).
      { unfold unsigned_from_primitive.
        rewrite (bind_cerr uns_check_head _ _ (full c)) by (rewrite uns_check_head_run, Hm, Hn; trivial).
        reflexivity. }
      rewrite (prim_decode_eq _ _ _ _ R). reflexivity. }
  pose proof (unsigned_fits c w Hok Hm Hn) as F.
  destruct c as [|b0 r]; [discriminate|]. cbv zeta in F. destruct F as (Hv & Fz & Fnz).
  assert (Hb8 : bit8 b0 = false).
  { apply octets_ok_cons in Hok as [Hb0 _]. rewrite bit8_ge by exact Hb0. cbn in Hn. lia. }
  assert (R : unsigned_from_primitive w (full (b0 :: r)) =
      match slice_unsigned w (b0 :: r) with
      | Ok v => (Ok v, done_src) | _ => (CErr, full (b0 :: r)) end).
  { unfold unsigned_from_primitive.
    rewrite (bind_ok uns_check_head _ _ tt (full (b0 :: r))) by (rewrite uns_check_head_run, Hm, Hn; trivial).
    rewrite with_slice_all_full. unfold slice_unsigned. rewrite Hb8.
    destruct (len (if b0 =? 0 then r else b0 :: r) =? 0); [reflexivity|].
    destruct (N.of_nat w <? _); reflexivity. }
  unfold slice_unsigned in R. rewrite Hb8 in R.
  destruct (len (if b0 =? 0 then r else b0 :: r) =? 0) eqn:Ez.
  - destruct (Fz eq_refl) as [Hz Hr]. rewrite Hr, Hz. cbn [andb].
    rewrite (prim_decode_eq _ _ _ _ R). reflexivity.
  - rewrite (Fnz eq_refl) in R.
    destruct (in_range false w (tc_val (b0 :: r))); cbn [negb andb] in *;
      rewrite (prim_decode_eq _ _ _ _ R); [rewrite Hv|]; reflexivity.
Qed.

Lemma remaining_src r l : remaining (mkSrc r (Some l) None) = (Ok l, mkSrc r (Some l) None).
Proof. reflexivity. Qed.

Theorem u8_from_primitive_spec c : octets_ok c = true ->
  prim_decode u8_from_primitive c = int_dec_spec false 1 c.
Proof.
  intros Hok. unfold int_dec_spec.
  destruct (minimal c) eqn:Hm.
  2:{ cbn [andb].
      assert (R : u8_from_primitive (full c) = (CErr, full c)).
      { unfold u8_from_primitive.
        rewrite (bind_cerr uns_check_head _ _ (full c)) by (rewrite uns_check_head_run, Hm; trivial).
        reflexivity. }
      rewrite (prim_decode_eq _ _ _ _ R). reflexivity. }
  destruct (nonneg_head c) eqn:Hn.
  2:{ rewrite (neg_head_out_of_range c 1 Hok) by (destruct c; [discriminate|congruence] || assumption).
      cbn [andb].
      assert (R : u8_from_primitive (full c) = (CErr, full c)).
      { unfold u8_from_primitive.
        rewrite (bind_cerr uns_check_head _ _ (full c)) by (rewrite uns_check_head_run, Hm, Hn; trivial).
        reflexivity. }
      rewrite (prim_decode_eq _ _ _ _ R). reflexivity. }
  pose proof (unsigned_fits c 1 Hok Hm Hn) as F.
  assert (U : forall (k : M Z), (uns_check_head ;;; k) (full c) = k (full c)).
  { intro k. rewrite (bind_ok uns_check_head _ _ tt (full c)) by (rewrite uns_check_head_run, Hm, Hn; trivial).
    reflexivity. }
  unfold u8_from_primitive. unfold prim_decode. change (pure_src c (Some (len c))) with (full c).
  destruct c as [|b0 [|b1 [|b2 r]]]; [discriminate| | |]; cbv zeta in F; destruct F as (Hv & Fz & Fnz).
  - (* one octet *)
    cbn [nonneg_head] in Hn.
    unfold bind at 1. rewrite U. rewrite (bind_ok remaining _ _ 1 (full [b0])) by reflexivity.
    change (1 =? 1) with true. cbv iota.
    rewrite (bind_ok take_u8 _ _ b0 (full [])) by apply take_u8_full.
    cbn [ret bind src_exhausted full len length N.of_nat lim fst].
    replace (in_range false 1 (tc_val [b0])) with true.
    + cbn [andb]. rewrite tc_val_cons. cbn [length be_valZ be_acc]. rewrite pw_0. unfold sbyte.
      replace (b0 <? 128) with true by lia. f_equal. lia.
    + symmetry. unfold in_range. rewrite tc_val_cons. cbn [length be_valZ be_acc]. rewrite pw_0. unfold sbyte.
      replace (b0 <? 128) with true by lia. change (pw 1) with 256%Z. lia.
  - (* two octets *)
    cbn [nonneg_head] in Hn. pose proof Hok as Hok'. apply octets_ok_cons in Hok' as [Hb0 Hok'].
    apply octets_ok_cons in Hok' as [Hb1 _].
    unfold bind at 1. rewrite U. rewrite (bind_ok remaining _ _ 2 (full [b0; b1])) by reflexivity.
    change (2 =? 1) with false. change (2 =? 2) with true. cbv iota.
    rewrite (bind_ok take_u8 _ _ b0 (full [b1])) by apply take_u8_full.
    destruct (b0 =? 0) eqn:E0.
    + cbn [negb]. rewrite (bind_ok take_u8 _ _ b1 (full [])) by apply take_u8_full.
      cbn [ret bind src_exhausted full len length N.of_nat lim fst].
      assert (b0 = 0) as -> by lia.
      replace (in_range false 1 (tc_val [0; b1])) with true.
      * cbn [andb]. rewrite Hv. cbn [be_valZ be_acc]. f_equal; lia.
      * symmetry. unfold in_range. rewrite Hv. cbn [be_valZ be_acc]. change (pw 1) with 256%Z. lia.
    + cbn [negb]. cbn [cerr bind fst].
      rewrite !len_cons in Fnz. cbn [len length N.of_nat] in Fnz.
      specialize (Fnz ltac:(lia)).
      replace (in_range false 1 (tc_val [b0; b1])) with false
        by (symmetry; apply negb_true_iff; rewrite <- Fnz; cbn; lia).
      reflexivity.
  - (* three or more octets *)
    unfold bind at 1. rewrite U.
    rewrite (bind_ok remaining _ _ (len (b0 :: b1 :: b2 :: r)) (full (b0 :: b1 :: b2 :: r))) by reflexivity.
    rewrite !len_cons.
    replace (1 + (1 + (1 + len r)) =? 1) with false by lia.
    replace (1 + (1 + (1 + len r)) =? 2) with false by lia.
    cbn [cerr fst].
    assert (Hl : (len (if b0 =? 0 then b1 :: b2 :: r else b0 :: b1 :: b2 :: r) =? 0) = false)
      by (destruct (b0 =? 0); rewrite !len_cons; lia).
    specialize (Fnz Hl).
    replace (in_range false 1 (tc_val (b0 :: b1 :: b2 :: r))) with false.
    + reflexivity.
    + symmetry. apply negb_true_iff. rewrite <- Fnz. destruct (b0 =? 0); rewrite !len_cons; cbn; lia.
Qed.

Lemma lor_shift8 a b : b < 256 -> N.lor (N.shiftl a 8) b = a * 256 + b.
Proof. intro H. rewrite lor_shiftl by (cbn; lia). reflexivity. Qed.

Theorem u16_from_primitive_spec c : octets_ok c = true ->
  prim_decode u16_from_primitive c = int_dec_spec false 2 c.
Proof.
  intros Hok. unfold int_dec_spec.
  destruct (minimal c) eqn:Hm.
  2:{ cbn [andb].
      assert (R : u16_from_primitive (full c) = (CErr, full c)).
      { unfold u16_from_primitive.
        rewrite (bind_cerr uns_check_head _ _ (full c)) by (rewrite uns_check_head_run, Hm; trivial).
        reflexivity. }
      rewrite (prim_decode_eq _ _ _ _ R). reflexivity. }
  destruct (nonneg_head c) eqn:Hn.
  2:{ rewrite (neg_head_out_of_range c 2 Hok) by (destruct c; [discriminate|congruence] || assumption).
      cbn [andb].
      assert (R : u16_from_primitive (full c) = (CErr, full c)).
      { unfold u16_from_primitive.
        rewrite (bind_cerr uns_check_head _ _ (full c)) by (rewrite uns_check_head_run, Hm, Hn; trivial).
        reflexivity. }
      rewrite (prim_decode_eq _ _ _ _ R). reflexivity. }
  pose proof (unsigned_fits c 2 Hok Hm Hn) as F.
  assert (U : forall (k : M Z), (uns_check_head ;;; k) (full c) = k (full c)).
  { intro k. rewrite (bind_ok uns_check_head _ _ tt (full c)) by (rewrite uns_check_head_run, Hm, Hn; trivial).
    reflexivity. }
  unfold u16_from_primitive. unfold prim_decode. change (pure_src c (Some (len c))) with (full c).
  destruct c as [|b0 [|b1 [|b2 [|b3 r]]]]; [discriminate| | | |]; cbv zeta in F; destruct F as (Hv & Fz & Fnz).
  - (* one octet *)
    cbn [nonneg_head] in Hn.
    unfold bind at 1. rewrite U. rewrite (bind_ok remaining _ _ 1 (full [b0])) by reflexivity.
    change (1 =? 1) with true. cbv iota.
    rewrite (bind_ok take_u8 _ _ b0 (full [])) by apply take_u8_full.
    cbn [ret bind src_exhausted full len length N.of_nat lim fst].
    replace (in_range false 2 (tc_val [b0])) with true.
    + cbn [andb]. rewrite tc_val_cons. cbn [length be_valZ be_acc]. rewrite pw_0. unfold sbyte.
      replace (b0 <? 128) with true by lia. f_equal. lia.
    + symmetry. unfold in_range. rewrite tc_val_cons. cbn [length be_valZ be_acc]. rewrite pw_0. unfold sbyte.
      replace (b0 <? 128) with true by lia. change (pw 2) with 65536%Z. lia.
  - (* two octets: always in range *)
    cbn [nonneg_head] in Hn. pose proof Hok as Hok'. apply octets_ok_cons in Hok' as [Hb0 Hok'].
    apply octets_ok_cons in Hok' as [Hb1 _].
    unfold bind at 1. rewrite U. rewrite (bind_ok remaining _ _ 2 (full [b0; b1])) by reflexivity.
    change (2 =? 1) with false. change (2 =? 2) with true. cbv iota.
    rewrite (bind_ok take_u8 _ _ b0 (full [b1])) by apply take_u8_full.
    rewrite (bind_ok take_u8 _ _ b1 (full [])) by apply take_u8_full.
    cbn [ret bind src_exhausted full len length N.of_nat lim fst].
    rewrite lor_shift8 by exact Hb1.
    assert (Hval : tc_val [b0; b1] = Z.of_N (b0 * 256 + b1)).
    { rewrite tc_val_cons. cbn [length be_valZ be_acc]. unfold sbyte.
      replace (b0 <? 128) with true by lia. change (pw 1) with 256%Z. lia. }
    replace (in_range false 2 (tc_val [b0; b1])) with true
      by (symmetry; unfold in_range; rewrite Hval; change (pw 2) with 65536%Z; lia).
    cbn [andb]. rewrite Hval. reflexivity.
  - (* three octets *)
    cbn [nonneg_head] in Hn. pose proof Hok as Hok'. apply octets_ok_cons in Hok' as [Hb0 Hok'].
    apply octets_ok_cons in Hok' as [Hb1 Hok']. apply octets_ok_cons in Hok' as [Hb2 _].
    unfold bind at 1. rewrite U. rewrite (bind_ok remaining _ _ 3 (full [b0; b1; b2])) by reflexivity.
    change (3 =? 1) with false. change (3 =? 2) with false. change (3 =? 3) with true. cbv iota.
    rewrite (bind_ok take_u8 _ _ b0 (full [b1; b2])) by apply take_u8_full.
    destruct (b0 =? 0) eqn:E0.
    + cbn [negb]. assert (b0 = 0) as -> by lia.
      rewrite (bind_ok take_u8 _ _ b1 (full [b2])) by apply take_u8_full.
      rewrite (bind_ok take_u8 _ _ b2 (full [])) by apply take_u8_full.
      rewrite lor_shift8 by exact Hb2. cbn [minimal] in Hm.
      replace (b1 * 256 + b2 <? 32768) with false by lia.
      cbn [ret bind src_exhausted full len length N.of_nat lim fst].
      assert (Hval : tc_val [0; b1; b2] = Z.of_N (b1 * 256 + b2)).
      { rewrite Hv. rewrite be_valZ_cons. cbn [length be_valZ be_acc]. change (pw 1) with 256%Z. lia. }
      replace (in_range false 2 (tc_val [0; b1; b2])) with true
        by (symmetry; unfold in_range; rewrite Hval; change (pw 2) with 65536%Z; lia).
      cbn [andb]. rewrite Hval. reflexivity.
    + cbn [negb cerr bind fst].
      rewrite !len_cons in Fnz. cbn [len length N.of_nat] in Fnz. specialize (Fnz ltac:(lia)).
      replace (in_range false 2 (tc_val [b0; b1; b2])) with false
        by (symmetry; apply negb_true_iff; rewrite <- Fnz; cbn; lia).
      reflexivity.
  - (* four or more octets *)
    unfold bind at 1. rewrite U.
    rewrite (bind_ok remaining _ _ (len (b0 :: b1 :: b2 :: b3 :: r)) (full (b0 :: b1 :: b2 :: b3 :: r))) by reflexivity.
    rewrite !len_cons.
    replace (1 + (1 + (1 + (1 + len r))) =? 1) with false by lia.
    replace (1 + (1 + (1 + (1 + len r))) =? 2) with false by lia.
    replace (1 + (1 + (1 + (1 + len r))) =? 3) with false by lia.
    cbn [cerr fst].
    assert (Hl : (len (if b0 =? 0 then b1 :: b2 :: b3 :: r else b0 :: b1 :: b2 :: b3 :: r) =? 0) = false)
      by (destruct (b0 =? 0); rewrite !len_cons; lia).
    specialize (Fnz Hl).
    replace (in_range false 2 (tc_val (b0 :: b1 :: b2 :: b3 :: r))) with false.
    + reflexivity.
    + symmetry. apply negb_true_iff. rewrite <- Fnz. destruct (b0 =? 0); rewrite !len_cons; cbn; lia.
Qed.

(* all ten accessors at once *)
Theorem int_accessor_spec ty c : ty < 10 -> octets_ok c = true ->
  prim_decode (int_accessor ty) c = int_dec_spec (ty_signed ty) (ty_width ty) c.
Proof.
  intros Hty Hok.
  assert (H : ty = 0 \/ ty = 1 \/ ty = 2 \/ ty = 3 \/ ty = 4 \/ ty = 5 \/ ty = 6 \/ ty = 7
              \/ ty = 8 \/ ty = 9) by lia.
  destruct H as [-> | [-> | [-> | [-> | [-> | [-> | [-> | [-> | [-> | ->]]]]]]]]];
    first [ apply i8_from_primitive_spec; exact Hok
          | apply signed_from_primitive_spec; [exact Hok|cbn; lia]
          | apply u8_from_primitive_spec; exact Hok
          | apply u16_from_primitive_spec; exact Hok
          | apply unsigned_from_primitive_spec; exact Hok ].
Qed.

(* consequences in the words of the property *)
Corollary int_accessor_sound ty c v : ty < 10 -> octets_ok c = true ->
  prim_decode (int_accessor ty) c = Ok v ->
  minimal c = true /\ tc_val c = v /\ in_range (ty_signed ty) (ty_width ty) v = true.
Proof.
  intros Hty Hok. rewrite (int_accessor_spec ty c Hty Hok). unfold int_dec_spec.
  destruct (minimal c); [|discriminate].
  destruct (in_range _ _ (tc_val c)) eqn:E; [|discriminate].
  intros [= <-]. repeat split; assumption.
Qed.
Corollary int_accessor_total ty c : ty < 10 -> octets_ok c = true ->
  (exists v, prim_decode (int_accessor ty) c = Ok v) \/ prim_decode (int_accessor ty) c = CErr.
Proof.
  intros Hty Hok. rewrite (int_accessor_spec ty c Hty Hok). unfold int_dec_spec.
  destruct (_ && _); [left; eexists; reflexivity|right; reflexivity].
Qed.

(* ---------- BOOLEAN and NULL ---------- *)
Theorem to_bool_spec m c : octets_ok c = true ->
  prim_decode (to_bool m) c =
    match c with
    | [b] => if mode_eqb m Ber then Ok (negb (b =? 0))
             else if b =? 0 then Ok false else if b =? 255 then Ok true else CErr
    | _ => CErr
    end.
Proof.
  intros Hok. unfold prim_decode, to_bool. change (pure_src c (Some (len c))) with (full c).
  destruct c as [|b [|b1 r]].
  - reflexivity.
  - unfold bind at 1. rewrite (bind_ok take_u8 _ _ b (full [])) by apply take_u8_full.
    destruct (mode_eqb m Ber); cbn [negb]; [reflexivity|].
    destruct (b =? 0); [reflexivity|]. destruct (b =? 255); reflexivity.
  - unfold bind at 1. rewrite (bind_ok take_u8 _ _ b (full (b1 :: r))) by apply take_u8_full.
    assert (E : forall v, fst ((src_exhausted ;;; ret v) (full (b1 :: r))) = @CErr bool).
    { intro v. unfold bind, src_exhausted, full. cbn [lim]. rewrite len_cons.
      destruct (1 + len r) eqn:E; [lia|reflexivity]. }
    destruct (mode_eqb m Ber); cbn [negb]; [apply E|].
    destruct (b =? 0); [apply E|]. destruct (b =? 255); [apply E|reflexivity].
Qed.

Theorem to_null_spec c : prim_decode to_null c = match c with [] => Ok tt | _ => CErr end.
Proof.
  unfold prim_decode, to_null. change (pure_src c (Some (len c))) with (full c).
  unfold bind at 1. rewrite (bind_ok remaining _ _ (len c) (full c)) by reflexivity.
  destruct c as [|b r]; [reflexivity|]. rewrite len_cons.
  replace (0 <? 1 + len r) with true by lia. reflexivity.
Qed.

(* value-matching helpers: succeed exactly when the decoded value equals the
   expected one *)
Theorem skip_u8_if_spec e c : octets_ok c = true ->
  prim_decode (v <- u8_from_primitive ;; if (v =? e)%Z then ret tt else cerr) c =
    if minimal c && in_range false 1 (tc_val c) && (tc_val c =? e)%Z then Ok tt else CErr.
Proof.
  intros Hok. pose proof (u8_from_primitive_spec c Hok) as S. unfold int_dec_spec in S.
  unfold prim_decode in *. change (pure_src c (Some (len c))) with (full c) in *.
  unfold bind in *.
  destruct (u8_from_primitive (full c)) as [[v| | | |] s1]; cbn [fst] in S;
    try (destruct (minimal c && in_range false 1 (tc_val c)); cbn [andb]; congruence).
  destruct (src_exhausted s1) as [[[]| | | |] s2] eqn:X; unfold ret in S; cbn [fst] in S;
    destruct (minimal c && in_range false 1 (tc_val c)); cbn [andb]; try congruence.
  - injection S as ->. destruct (tc_val c =? e)%Z; [unfold ret|unfold cerr]; rewrite ?X; reflexivity.
  - destruct (v =? e)%Z; [unfold ret|unfold cerr]; rewrite ?X; reflexivity.
  - destruct (minimal c && in_range false 1 (tc_val c)); cbn [andb fst] in *; congruence.
Qed.

(* ====================================================================== *)
(* C15: arbitrary-size integers                                            *)
(* ====================================================================== *)
Definition valid_int (c : list N) : Prop := octets_ok c = true /\ minimal c = true.

Lemma N_compare_Z x y : (x ?= y) = (Z.of_N x ?= Z.of_N y)%Z.
Proof. symmetry. apply N2Z.inj_compare. Qed.

(* lexicographic order on equal-length octet strings is numeric order *)
Lemma lex_cmp_be a b : length a = length b -> octets_ok a = true -> octets_ok b = true ->
  lex_cmp a b = (be_valZ a ?= be_valZ b)%Z.
Proof.
  revert b. induction a as [|x a IH]; intros [|y b] Hl Ha Hb; try discriminate.
  - reflexivity.
  - cbn [length] in Hl. apply octets_ok_cons in Ha as [Hx Ha]. apply octets_ok_cons in Hb as [Hy Hb].
    assert (Hl' : length a = length b) by lia.
    cbn [lex_cmp]. rewrite !be_valZ_cons.
    pose proof (be_valZ_bound a Ha). pose proof (be_valZ_bound b Hb).
    rewrite <- Hl' in *.
    pose proof (pw_pos (length a)).
    rewrite N_compare_Z.
    destruct (Z.of_N x ?= Z.of_N y)%Z eqn:E.
    + apply Z.compare_eq in E. rewrite E, (IH b) by (assumption || lia).
      destruct (be_valZ a ?= be_valZ b)%Z eqn:E2; symmetry.
      * apply Z.compare_eq in E2. apply Z.compare_eq_iff. lia.
      * rewrite Z.compare_lt_iff in *. lia.
      * rewrite Z.compare_gt_iff in *. lia.
    + symmetry. rewrite Z.compare_lt_iff in *. nia.
    + symmetry. rewrite Z.compare_gt_iff in *. nia.
Qed.
Lemma zip_cmp_lex a b : length a = length b -> zip_cmp a b = lex_cmp a b.
Proof.
  revert b. induction a as [|x a IH]; intros [|y b] Hl; try discriminate; [reflexivity|].
  cbn [zip_cmp lex_cmp]. destruct (x ?= y); [apply IH; cbn in Hl; lia|reflexivity|reflexivity].
Qed.

Lemma land128_eq0 b : b < 256 -> (N.land b 128 =? 0) = (b <? 128).
Proof. intro H. rewrite land_128. lia. Qed.
Lemma land128_eq128 b : b < 256 -> (N.land b 128 =? 128) = (128 <=? b).
Proof. intro H. rewrite land_128. lia. Qed.

Lemma valid_nonempty c : valid_int c -> exists b r, c = b :: r.
Proof. intros [_ Hm]. destruct c as [|b r]; [discriminate|eauto]. Qed.

Lemma tc_val_pos_iff b r : valid_int (b :: r) ->
  ((0 < tc_val (b :: r))%Z <-> (b < 128 /\ ~ (b = 0 /\ r = []))).
Proof.
  intros [Hok Hm]. pose proof Hok as Hok'. apply octets_ok_cons in Hok' as [Hb Hr].
  rewrite tc_val_cons. pose proof (be_valZ_bound r Hr). pose proof (pw_pos (length r)).
  unfold sbyte. destruct (b <? 128) eqn:E.
  - split.
    + intro Hp. split; [lia|]. intros [-> ->]. cbn in Hp. lia.
    + intros [_ Hnz]. destruct (N.eq_dec b 0) as [->|Hb0].
      * destruct r as [|b1 r']; [exfalso; apply Hnz; split; reflexivity|].
        cbn [minimal] in Hm. apply octets_ok_cons in Hr as [Hb1 Hr'].
        rewrite be_valZ_cons. pose proof (be_valZ_bound r' Hr'). pose proof (pw_pos (length r')). nia.
      * nia.
  - split; [nia|lia].
Qed.

Theorem int_predicates_spec c : valid_int c ->
  int_is_zero c = Ok (tc_val c =? 0)%Z /\
  int_is_positive c = Ok (0 <? tc_val c)%Z /\
  int_is_negative c = Ok (tc_val c <? 0)%Z.
Proof.
  intro Hv. destruct (valid_nonempty c Hv) as (b & r & ->).
  pose proof (tc_val_pos_iff b r Hv) as Hp. destruct Hv as [Hok Hm].
  pose proof (tc_val_sign b r Hok) as Hs.
  pose proof Hok as Hok'. apply octets_ok_cons in Hok' as [Hb Hr].
  unfold int_is_zero, int_is_positive, int_is_negative.
  rewrite land128_eq128 by exact Hb. split; [|split].
  - destruct r as [|b1 r'].
    + f_equal. rewrite tc_val_cons. cbn [length be_valZ be_acc]. rewrite pw_0. unfold sbyte.
      destruct (b <? 128) eqn:E; lia.
    + f_equal. symmetry. apply Z.eqb_neq.
      destruct (N.ltb_spec b 128) as [Hlt|Hge]; [|lia].
      assert (0 < tc_val (b :: b1 :: r'))%Z by (apply Hp; split; [lia|intros [_ H]; discriminate]). lia.
  - destruct r as [|b1 r'].
    + destruct (b =? 0) eqn:E0.
      * f_equal. symmetry. apply Z.ltb_ge. assert (b = 0) as -> by lia. change (tc_val [0]) with 0%Z. lia.
      * rewrite land128_eq0 by exact Hb. f_equal.
        destruct (b <? 128) eqn:E; symmetry; [apply Z.ltb_lt; apply Hp; split; [lia|intros [H _]; lia]|].
        apply Z.ltb_ge. lia.
    + rewrite land128_eq0 by exact Hb. f_equal.
      destruct (b <? 128) eqn:E; symmetry; [apply Z.ltb_lt; apply Hp; split; [lia|intros [_ H]; discriminate]|].
      apply Z.ltb_ge. lia.
  - f_equal. destruct (128 <=? b) eqn:E; symmetry; [apply Z.ltb_lt|apply Z.ltb_ge]; lia.
Qed.

Lemma len_compare {A} (a b : list A) : (len a ?= len b) = Nat.compare (length a) (length b).
Proof. unfold len. symmetry. apply Nnat.Nat2N.inj_compare. Qed.

Theorem int_cmp_spec a b : valid_int a -> valid_int b ->
  int_cmp a b = Ok (tc_val a ?= tc_val b)%Z.
Proof.
  intros Ha Hb. unfold int_cmp.
  destruct (int_predicates_spec a Ha) as (_ & -> & _).
  destruct (int_predicates_spec b Hb) as (_ & -> & _).
  destruct (valid_nonempty a Ha) as (x & a' & ->). destruct (valid_nonempty b Hb) as (y & b' & ->).
  destruct Ha as [Oa Ma], Hb as [Ob Mb].
  pose proof (tc_val_bound (x :: a') Oa ltac:(congruence)) as Ba.
  pose proof (tc_val_bound (y :: b') Ob ltac:(congruence)) as Bb.
  assert (La : (2 <= length (x :: a'))%nat ->
     (tc_val (x :: a') < - (128 * pw (length (x :: a') - 2)) \/ 128 * pw (length (x :: a') - 2) <= tc_val (x :: a'))%Z)
    by (apply minimal_lower; assumption).
  assert (Lb : (2 <= length (y :: b'))%nat ->
     (tc_val (y :: b') < - (128 * pw (length (y :: b') - 2)) \/ 128 * pw (length (y :: b') - 2) <= tc_val (y :: b'))%Z)
    by (apply minimal_lower; assumption).
  set (va := tc_val (x :: a')) in *. set (vb := tc_val (y :: b')) in *.
  destruct (0 <? va)%Z eqn:Pa, (0 <? vb)%Z eqn:Pb.
  - (* both positive *)
    rewrite len_compare. destruct (Nat.compare_spec (length (x :: a')) (length (y :: b'))) as [E|E|E].
    + f_equal. rewrite zip_cmp_lex by exact E. rewrite lex_cmp_be by assumption.
      assert (x < 128 /\ y < 128) as [Hx Hy].
      { pose proof (tc_val_sign x a' Oa). pose proof (tc_val_sign y b' Ob). fold va in H. fold vb in H0. lia. }
      subst va vb. rewrite !tc_val_cons.
      unfold sbyte. replace (x <? 128) with true by lia. replace (y <? 128) with true by lia.
      rewrite !be_valZ_cons. reflexivity.
    + f_equal. symmetry. apply Z.compare_lt_iff.
      assert (pw (length (x :: a') - 1) <= pw (length (y :: b') - 2))%Z by (apply pw_mono; lia).
      pose proof (pw_pos (length (y :: b') - 2)). specialize (Lb ltac:(cbn [length] in *; lia)). lia.
    + f_equal. symmetry. apply Z.compare_gt_iff.
      assert (pw (length (y :: b') - 1) <= pw (length (x :: a') - 2))%Z by (apply pw_mono; lia).
      pose proof (pw_pos (length (x :: a') - 2)). specialize (La ltac:(cbn [length] in *; lia)). lia.
  - f_equal. symmetry. apply Z.compare_gt_iff. lia.
  - f_equal. symmetry. apply Z.compare_lt_iff. lia.
  - (* both non-positive *)
    rewrite len_compare. destruct (Nat.compare_spec (length (x :: a')) (length (y :: b'))) as [E|E|E].
    + cbn [length] in E. assert (El : length a' = length b') by lia.
      pose proof Oa as Oa'. apply octets_ok_cons in Oa' as [Hx Oa'].
      pose proof Ob as Ob'. apply octets_ok_cons in Ob' as [Hy Ob'].
      pose proof (be_valZ_bound a' Oa'). pose proof (be_valZ_bound b' Ob').
      pose proof (pw_pos (length a')).
      subst va vb. rewrite !tc_val_cons in *. rewrite <- El in *.
      destruct (sbyte x ?= sbyte y)%Z eqn:C.
      * apply Z.compare_eq in C. rewrite C. f_equal. rewrite lex_cmp_be by assumption.
        destruct (be_valZ a' ?= be_valZ b')%Z eqn:C2; symmetry.
        -- apply Z.compare_eq in C2. apply Z.compare_eq_iff. lia.
        -- rewrite Z.compare_lt_iff in *. lia.
        -- rewrite Z.compare_gt_iff in *. lia.
      * f_equal. symmetry. rewrite Z.compare_lt_iff in *. nia.
      * f_equal. symmetry. rewrite Z.compare_gt_iff in *. nia.
    + (* a shorter: b is the smaller number *)
      cbn [CompOpp]. f_equal. symmetry. apply Z.compare_gt_iff.
      assert (pw (length (x :: a') - 1) <= pw (length (y :: b') - 2))%Z by (apply pw_mono; lia).
      pose proof (pw_pos (length (y :: b') - 2)). specialize (Lb ltac:(cbn [length] in *; lia)). lia.
    + cbn [CompOpp]. f_equal. symmetry. apply Z.compare_lt_iff.
      assert (pw (length (y :: b') - 1) <= pw (length (x :: a') - 2))%Z by (apply pw_mono; lia).
      pose proof (pw_pos (length (x :: a') - 2)). specialize (La ltac:(cbn [length] in *; lia)). lia.
Qed.

Lemma lex_cmp_eq a b : lex_cmp a b = Eq -> a = b.
Proof.
  revert b. induction a as [|x a IH]; intros [|y b]; cbn [lex_cmp]; try discriminate; [reflexivity|].
  destruct (x ?= y) eqn:E; try discriminate. apply N.compare_eq in E. subst y.
  intro H. f_equal. apply IH. exact H.
Qed.

(* equal numbers have identical contents: equality and hashing agree with the
   mathematical values *)
Theorem int_eq_spec a b : valid_int a -> valid_int b ->
  (int_eq a b = true <-> tc_val a = tc_val b) /\
  (tc_val a = tc_val b -> int_hash_input a = int_hash_input b).
Proof.
  intros Ha Hb.
  assert (Inj : tc_val a = tc_val b -> a = b).
  { intro E. pose proof (int_cmp_spec a b Ha Hb) as C. rewrite E, Z.compare_refl in C.
    unfold int_cmp in C.
    destruct (int_predicates_spec a Ha) as (_ & Pa & _). destruct (int_predicates_spec b Hb) as (_ & Pb & _).
    rewrite Pa, Pb in C. rewrite E in C.
    destruct (valid_nonempty a Ha) as (x & a' & ->). destruct (valid_nonempty b Hb) as (y & b' & ->).
    destruct Ha as [Oa _], Hb as [Ob _].
    apply octets_ok_cons in Oa as [Hx _]. apply octets_ok_cons in Ob as [Hy _].
    rewrite len_compare in C.
    destruct (0 <? tc_val (y :: b'))%Z.
    - destruct (Nat.compare_spec (length (x :: a')) (length (y :: b'))) as [El|El|El]; try discriminate.
      injection C as C. apply lex_cmp_eq. rewrite <- zip_cmp_lex by exact El. exact C.
    - destruct (Nat.compare_spec (length (x :: a')) (length (y :: b'))) as [El|El|El]; try discriminate.
      destruct (sbyte x ?= sbyte y)%Z eqn:S; try discriminate. injection C as C.
      apply Z.compare_eq in S. apply lex_cmp_eq in C. subst b'. f_equal.
      unfold sbyte in S. destruct (x <? 128) eqn:E1, (y <? 128) eqn:E2; lia. }
  split; [split|].
  - intro H. unfold int_eq in H. f_equal.
    revert b Hb Inj H. clear Ha. induction a as [|x a IH]; intros [|y b] Hb Inj H; try discriminate; [reflexivity|].
    cbn [list_eqb] in H. apply andb_true_iff in H as [H1 H2]. apply N.eqb_eq in H1. subst y.
    f_equal. clear IH Inj Hb. revert b H2. induction a as [|z a IH2]; intros [|w b] H2; try discriminate; [reflexivity|].
    cbn [list_eqb] in H2. apply andb_true_iff in H2 as [H1 H2]. apply N.eqb_eq in H1. subst w. f_equal. apply IH2. exact H2.
  - intro E. rewrite (Inj E). unfold int_eq. clear. induction b as [|y b IH]; [reflexivity|].
    cbn [list_eqb]. rewrite N.eqb_refl, IH. reflexivity.
  - intro E. rewrite (Inj E). reflexivity.
Qed.

(* conversions to the ten fixed-width types succeed exactly when the number
   fits, and preserve it *)
Theorem int_try_from_spec ty c : ty < 10 -> valid_int c ->
  int_try_from ty c =
    if in_range (ty_signed ty) (ty_width ty) (tc_val c) then Ok (tc_val c) else CErr.
Proof.
  intros Hty [Hok Hm]. unfold int_try_from.
  assert (Hw : (1 <= ty_width ty)%nat).
  { assert (H : ty = 0 \/ ty = 1 \/ ty = 2 \/ ty = 3 \/ ty = 4 \/ ty = 5 \/ ty = 6 \/ ty = 7
              \/ ty = 8 \/ ty = 9) by lia.
    destruct H as [-> | [-> | [-> | [-> | [-> | [-> | [-> | [-> | [-> | ->]]]]]]]]]; cbn; lia. }
  destruct (ty_signed ty).
  - unfold slice_signed. rewrite (signed_fits c _ Hok Hm Hw).
    destruct (in_range true (ty_width ty) (tc_val c)); cbn [negb]; [|reflexivity].
    destruct c; [discriminate|reflexivity].
  - destruct (nonneg_head c) eqn:Hn.
    + pose proof (unsigned_fits c (ty_width ty) Hok Hm Hn) as F.
      destruct c as [|b0 r]; [discriminate|]. cbv zeta in F. destruct F as (Hv & Fz & Fnz).
      unfold slice_unsigned.
      assert (Hb8 : bit8 b0 = false).
      { apply octets_ok_cons in Hok as [Hb0 _]. rewrite bit8_ge by exact Hb0. cbn in Hn. lia. }
      rewrite Hb8.
      destruct (len (if b0 =? 0 then r else b0 :: r) =? 0) eqn:Ez.
      * destruct (Fz eq_refl) as [Hz Hr]. rewrite Hr, Hz. reflexivity.
      * rewrite (Fnz eq_refl).
        destruct (in_range false (ty_width ty) (tc_val (b0 :: r))); cbn [negb]; [rewrite Hv|]; reflexivity.
    + rewrite (neg_head_out_of_range c _ Hok) by (destruct c; [discriminate|congruence] || assumption).
      destruct c as [|b0 r]; [discriminate|]. unfold slice_unsigned.
      apply octets_ok_cons in Hok as [Hb0 _]. rewrite bit8_ge by exact Hb0. cbn in Hn.
      replace (128 <=? b0) with true by lia. reflexivity.
Qed.

(* Unsigned::from_bytes: any non-empty big-endian magnitude, with or without
   leading zeros, zero included, gives that number in minimal form *)
Lemma drop_zeros_val l : be_valZ (drop_zeros l) = be_valZ l.
Proof.
  induction l as [|b r IH]; [reflexivity|]. cbn [drop_zeros].
  destruct b; [|reflexivity]. rewrite IH, be_valZ_cons. lia.
Qed.
Lemma drop_zeros_ok l : octets_ok l = true -> octets_ok (drop_zeros l) = true.
Proof.
  induction l as [|b r IH]; [reflexivity|]. intro H. cbn [drop_zeros].
  destruct b; [|exact H]. apply IH. apply octets_ok_cons in H as [_ H]. exact H.
Qed.
Lemma drop_zeros_hd l : hd 1 (drop_zeros l) <> 0.
Proof. induction l as [|b r IH]; [cbn; lia|]. cbn [drop_zeros]. destruct b; [exact IH|cbn; lia]. Qed.

Theorem unsigned_from_bytes_spec mag : octets_ok mag = true -> mag <> [] ->
  exists c, unsigned_from_bytes mag = Ok c /\ valid_int c /\ tc_val c = be_valZ mag.
Proof.
  intros Hok Hne. unfold unsigned_from_bytes. destruct mag as [|m0 mr]; [congruence|].
  set (mag := m0 :: mr) in *.
  pose proof (drop_zeros_val mag) as Hv. pose proof (drop_zeros_ok mag Hok) as Ho.
  pose proof (drop_zeros_hd mag) as Hh.
  destruct (drop_zeros mag) as [|v0 vr] eqn:D.
  - exists [0]. split; [reflexivity|]. split; [split; reflexivity|]. rewrite <- Hv. reflexivity.
  - cbn [hd] in Hh. pose proof Ho as Ho'. apply octets_ok_cons in Ho' as [Hv0 Hvr].
    rewrite land128_eq0 by exact Hv0.
    destruct (v0 <? 128) eqn:E.
    + exists (v0 :: vr). split; [reflexivity|]. split.
      * split; [exact Ho|]. destruct vr as [|v1 vr']; [reflexivity|]. cbn [minimal].
        replace (v0 =? 0) with false by lia. replace (v0 =? 255) with false by lia. reflexivity.
      * rewrite <- Hv. rewrite tc_val_cons, be_valZ_cons. unfold sbyte. rewrite E. reflexivity.
    + exists (0 :: v0 :: vr). split; [reflexivity|]. split.
      * split; [cbn [octets_ok forallb]; exact Ho|]. cbn [minimal].
        replace (v0 <? 128) with false by lia. reflexivity.
      * rewrite <- Hv. rewrite tc_val_cons. change (sbyte 0) with 0%Z. lia.
Qed.

(* ---------- Integer / Unsigned values from a primitive's content ---------- *)
Theorem integer_from_prim_spec c : octets_ok c = true ->
  prim_decode integer_from_primitive c = if minimal c then Ok c else CErr.
Proof.
  intro Hok. unfold prim_decode, integer_from_primitive. change (pure_src c (Some (len c))) with (full c).
  unfold bind at 1. rewrite (bind_ok take_all_lim _ _ c done_src) by apply take_all_full.
  destruct c as [|b0 [|b1 r]]; try reflexivity.
  apply octets_ok_cons in Hok as [H0 Hok]. apply octets_ok_cons in Hok as [H1 _].
  cbn [minimal]. rewrite (bit8_ge b1 H1).
  destruct (b0 =? 0) eqn:E0, (b0 =? 255) eqn:E1, (128 <=? b1) eqn:E2;
    cbn [andb orb negb]; try reflexivity;
    replace (b1 <? 128) with (negb (128 <=? b1)) by lia; rewrite E2; reflexivity.
Qed.

Theorem unsigned_int_from_prim_spec c : octets_ok c = true ->
  prim_decode unsigned_int_from_primitive c = if minimal c && nonneg_head c then Ok c else CErr.
Proof.
  intro Hok. pose proof (integer_from_prim_spec c Hok) as HI.
  unfold prim_decode, unsigned_int_from_primitive in *. change (pure_src c (Some (len c))) with (full c) in *.
  unfold bind at 1. unfold bind at 1. rewrite (uns_check_head_run c Hok).
  unfold bind at 1 in HI.
  destruct (minimal c) eqn:M; cbn [andb]; [|reflexivity].
  destruct (nonneg_head c); [exact HI|reflexivity].
Qed.

(* ---------- Eq and Ord are consistent; the order is a strict total order ---------- *)
Theorem int_eq_cmp_consistent a b : valid_int a -> valid_int b ->
  (int_eq a b = true <-> int_cmp a b = Ok Eq).
Proof.
  intros Ha Hb. rewrite (int_cmp_spec a b Ha Hb).
  destruct (int_eq_spec a b Ha Hb) as [He _]. rewrite He. rewrite <- Z.compare_eq_iff.
  split; [intros ->; reflexivity|intros [= ->]; reflexivity].
Qed.

Theorem int_cmp_antisym a b : valid_int a -> valid_int b ->
  forall o, int_cmp a b = Ok o -> int_cmp b a = Ok (CompOpp o).
Proof.
  intros Ha Hb o. rewrite (int_cmp_spec a b Ha Hb), (int_cmp_spec b a Hb Ha).
  intros [= <-]. rewrite Z.compare_antisym. reflexivity.
Qed.

Theorem int_cmp_trans a b c : valid_int a -> valid_int b -> valid_int c ->
  int_cmp a b = Ok Lt -> int_cmp b c = Ok Lt -> int_cmp a c = Ok Lt.
Proof.
  intros Ha Hb Hc. rewrite (int_cmp_spec a b Ha Hb), (int_cmp_spec b c Hb Hc), (int_cmp_spec a c Ha Hc).
  intros [= H1] [= H2]. f_equal. rewrite Z.compare_lt_iff in *. lia.
Qed.
