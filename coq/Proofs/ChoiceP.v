(* C04/C05: CHOICE. A CHOICE-typed value is read by trying the alternatives in order with expected-tag
   optional reads (take_opt_*_if) and taking the first that is present; X.680 requires the alternatives'
   tags to be pairwise distinct. The chosen alternative and its value round-trip, and in DER what the
   choice reader accepts is the encoding of the alternative it reports. *)
From Coq Require Import Lia ZifyBool ZifyN.
Require Import BV.Model.Base BV.Model.SrcB BV.Model.Length BV.Model.Tag BV.Model.Twos BV.Model.Int
               BV.Model.Content BV.Model.OctStr BV.Model.Encode BV.Model.Prog.
Require Import BV.Proofs.Bits BV.Proofs.SrcBP BV.Proofs.LengthP BV.Proofs.TagP BV.Proofs.ContentP BV.Proofs.OctGrammarP
               BV.Proofs.WinP BV.Proofs.TotalP BV.Proofs.DeltaP BV.Proofs.IntP BV.Proofs.IntEncP
               BV.Proofs.EncodeP BV.Proofs.GrammarP BV.Proofs.EncGrammarP BV.Proofs.TypedP BV.Proofs.SchemaP
               BV.Proofs.SchemaSoundP BV.Proofs.Schema2P BV.Proofs.Schema2SoundP.
Arguments N.add : simpl never. Arguments N.sub : simpl never.
Arguments N.ltb : simpl never. Arguments N.leb : simpl never. Arguments N.eqb : simpl never.

Fixpoint dec_choice (fuel : nat) (alts : list schema2) (c : cons) : M (option (nat * sval) * cons) :=
  match alts with
  | [] => ret (None, c)
  | a :: r =>
      x <- dec2 fuel a c ;; let '(o, c1) := x in
      match o with
      | Some v => ret (Some (0%nat, v), c1)
      | None => y <- dec_choice fuel r c1 ;; let '(o', c2) := y in
                ret (match o' with Some (i, v) => Some (S i, v) | None => None end, c2)
      end
  end.

Theorem choice_roundtrip alts : forall i a v e m d,
  nth_error alts i = Some a -> Forall ok2 alts -> NoDup (map tag_of alts) ->
  enc2 a v = Some e -> enc_write m e = Ok d ->
  forall fuel c rest l, Forall (fun x => (depth2 x <= fuel)%nat) alts -> reads m (cmd c) ->
    octets_ok (d ++ rest) = true -> lim_ge l (len d) -> ctx_ok c l ->
    dec_choice fuel alts c (mkSrc (d ++ rest) l None) = (Ok (Some (i, v), c), mkSrc rest (lim_sub l (len d)) None).
Proof.
  induction alts as [|a0 r IH]; intros i a v e m d Hn Hok Hnd He Hw fuel c rest l Hf Hm Ho Hl Hc.
  - destruct i; discriminate.
  - inversion Hok as [|? ? Hok0 Hokr]; subst. inversion Hnd as [|? ? Hnin Hndr]; subst.
    inversion Hf as [|? ? Hf0 Hfr]; subst. cbn [dec_choice].
    destruct i as [|i'].
    + injection Hn as ->. destruct (schema2_roundtrip a v e m d Hok0 He Hw) as (_ & _ & Hdec).
      rewrite (bind_ok _ _ _ _ _ (Hdec fuel c rest l Hf0 Hm Ho Hl Hc)). reflexivity.
    + cbn [nth_error] in Hn.
      assert (Hin : In a r) by (eapply nth_error_In; exact Hn).
      assert (Hoka : ok2 a) by (rewrite Forall_forall in Hokr; apply Hokr, Hin).
      destruct (schema2_roundtrip a v e m d Hoka He Hw) as (Hpos & (k & tl & Htag) & _).
      pose proof (ok2_tag a Hoka) as [Hleg _].
      assert (Hne : tag_of a <> tag_of a0).
      { intro E. apply Hnin. rewrite <- E. apply in_map, Hin. }
      assert (Hno : NoTag (tag_of a0) c (mkSrc (d ++ rest) l None)).
      { rewrite Htag, <- app_assoc. apply NoTag_peek; [exact Hleg|exact Hne| |].
        - eapply lim_ge_mono; [|exact Hl]. rewrite Htag, len_app. lia.
        - apply (may_start_of c l (len d) Hc Hl Hpos). }
      assert (Hd0 : dec2 fuel a0 c (mkSrc (d ++ rest) l None) = (Ok (None, c), mkSrc (d ++ rest) l None)).
      { pose proof (depth2_pos a0). destruct fuel as [|f']; [lia|].
        destruct a0 as [t0 k0|t0 fs0]; cbn [dec2 tag_of] in *; apply Hno. }
      rewrite (bind_ok _ _ _ _ _ Hd0). cbv iota beta.
      rewrite (bind_ok _ _ _ _ _ (IH i' a v e m d Hn Hokr Hndr He Hw fuel c rest l Hfr Hm Ho Hl Hc)).
      reflexivity.
Qed.

(* DER: what the choice reader accepts is the encoding of the alternative it reports; absence changes nothing *)
Theorem choice_sound alts : forall fuel c src o c' src',
  Forall ok2 alts -> Forall kinds_ok2 alts -> nf src -> octets_ok (rem src) = true -> cmd c = Der ->
  dec_choice fuel alts c src = (Ok (o, c'), src') ->
  nf src' /\ c' = c /\
  match o with
  | None => src' = src
  | Some (i, v) => exists a e d, nth_error alts i = Some a /\ enc2 a v = Some e /\ enc_write Der e = Ok d /\
                     rem src = d ++ rem src' /\ consumed src src' (len d)
  end.
Proof.
  induction alts as [|a0 r IH]; intros fuel c src o c' src' Hok Hk Hn Ho Hm H.
  - cbn [dec_choice] in H. injection H as <- <- <-. auto.
  - inversion Hok as [|? ? Hok0 Hokr]; subst. inversion Hk as [|? ? Hk0 Hkr]; subst.
    cbn [dec_choice] in H. apply bind_ok_inv in H as ([o0 c1] & s1 & H0 & H).
    destruct (schema2_sound a0 fuel c src o0 c1 s1 Hok0 Hk0 Hn Ho Hm H0) as (Hn1 & -> & Hres).
    destruct o0 as [v|].
    + injection H as <- <- <-. split; [exact Hn1|]. split; [reflexivity|].
      destruct Hres as (e & d & He & Hw & Hr & Hc). exists a0, e, d. auto.
    + subst s1. apply bind_ok_inv in H as ([o' c2] & s2 & H1 & H). injection H as <- <- <-.
      destruct (IH fuel c src o' c2 s2 Hokr Hkr Hn Ho Hm H1) as (Hn2 & -> & Hres2).
      split; [exact Hn2|]. split; [reflexivity|].
      destruct o' as [[i v]|]; [|exact Hres2].
      destruct Hres2 as (a & e & d & Hnth & He & Hw & Hr & Hc). exists a, e, d. auto.
Qed.

(* the two together: re-encoding what the DER choice reader reports reproduces the octets it consumed, and
   those octets decode back to the same alternative and value *)
Corollary choice_der_canonical alts fuel c src i v c' src' :
  Forall ok2 alts -> Forall kinds_ok2 alts -> NoDup (map tag_of alts) ->
  nf src -> octets_ok (rem src) = true -> cmd c = Der ->
  dec_choice fuel alts c src = (Ok (Some (i, v), c'), src') ->
  exists a e d, nth_error alts i = Some a /\ enc2 a v = Some e /\ enc_write Der e = Ok d /\
    rem src = d ++ rem src'.
Proof.
  intros Hok Hk Hnd Hn Ho Hm H.
  destruct (choice_sound alts fuel c src (Some (i, v)) c' src' Hok Hk Hn Ho Hm H) as (_ & _ & a & e & d & H1 & H2 & H3 & H4 & _).
  eauto 8.
Qed.

(* non-vacuity: CHOICE { a BOOLEAN, b INTEGER, c SEQUENCE { NULL } } holding alternative c *)
Example choice_example :
  let alts := [S2Leaf T_BOOLEAN LBool; S2Leaf T_INTEGER (LInt 2); S2Seq T_SEQUENCE [(false, S2Leaf T_NULL LNull)]] in
  fst (dec_choice 5 alts (mkCons Unbounded Der) (pure_src [48; 2; 5; 0; 1; 1; 255] None)) =
    Ok (Some (2%nat, VSeq [VNull]), mkCons Unbounded Der) /\
  fst (dec_choice 5 alts (mkCons Unbounded Der) (pure_src [2; 1; 7] None)) = Ok (Some (1%nat, VInt 7), mkCons Unbounded Der) /\
  fst (dec_choice 5 alts (mkCons Unbounded Der) (pure_src [4; 0] None)) = Ok (None, mkCons Unbounded Der).
Proof. vm_compute. repeat split; reflexivity. Qed.
