(* C01, model half: no decoding routine reaches a Panic of the model (an
   unwrap of None, an index out of range, an advance beyond the data, an
   assertion) on any input, on sources that do not fail.

   Safe P m Q is a Hoare triple for the state/error monad that additionally
   forbids Panic: from every fault-free state satisfying P, m does not panic,
   and if it returns a value a in state s' then Q a s'. The only state
   invariant the code relies on is whether a limit is set (`lk`): primitives
   and definite-length constructed values always run under a limit. *)
From Coq Require Import Lia ZifyBool ZifyN.
Require Import BV.Model.Base BV.Model.SrcB BV.Model.Length BV.Model.Tag BV.Model.Content.
Require Import BV.Proofs.Bits BV.Proofs.SrcBP BV.Proofs.TagP BV.Proofs.ContentP.
Arguments N.add : simpl never. Arguments N.sub : simpl never.
Arguments N.ltb : simpl never. Arguments N.leb : simpl never. Arguments N.eqb : simpl never.
Arguments N.min : simpl never.

Definition Safe {A} (P : src -> Prop) (m : M A) (Q : A -> src -> Prop) : Prop :=
  forall s, nf s -> P s ->
    match m s with
    | (Ok a, s') => nf s' /\ Q a s'
    | (Panic, _) => False
    | _ => True
    end.

Lemma Safe_bind {A B} P (m : M A) Q (f : A -> M B) R :
  Safe P m Q -> (forall a, Safe (Q a) (f a) R) -> Safe P (bind m f) R.
Proof.
  intros Hm Hf s Hn Hp. specialize (Hm s Hn Hp). unfold bind.
  destruct (m s) as [[a| | | |] s']; try exact I; [|contradiction].
  destruct Hm as [Hn' Hq]. apply (Hf a s' Hn' Hq).
Qed.

Lemma Safe_conseq {A} (P P' : src -> Prop) (m : M A) (Q Q' : A -> src -> Prop) :
  Safe P m Q -> (forall s, P' s -> P s) -> (forall a s, Q a s -> Q' a s) -> Safe P' m Q'.
Proof.
  intros H Hp Hq s Hn Hp'. specialize (H s Hn (Hp s Hp')).
  destruct (m s) as [[a| | | |] s']; auto. destruct H. split; auto.
Qed.

Lemma Safe_ret {A} (P : src -> Prop) (a : A) (Q : A -> src -> Prop) :
  (forall s, P s -> Q a s) -> Safe P (ret a) Q.
Proof. intros H s Hn Hp. cbn. auto. Qed.
Lemma Safe_cerr {A} P (Q : A -> src -> Prop) : Safe P cerr Q.
Proof. intros s _ _. exact I. Qed.
Lemma Safe_nofuel {A} P (Q : A -> src -> Prop) : Safe P nofuel Q.
Proof. intros s _ _. exact I. Qed.
Lemma Safe_if {A} P (c : bool) (m1 m2 : M A) Q :
  Safe P m1 Q -> Safe P m2 Q -> Safe P (if c then m1 else m2) Q.
Proof. destruct c; auto. Qed.
(* a pure fact in the precondition *)
Lemma Safe_pure {A} (F : Prop) (P : src -> Prop) (m : M A) Q :
  (F -> Safe P m Q) -> Safe (fun s => F /\ P s) m Q.
Proof. intros H s Hn [Hf Hp]. apply (H Hf s Hn Hp). Qed.

(* ---- is a limit in force? ---- *)
Definition lk (s : src) : bool := match lim s with Some _ => true | None => false end.
Definition L (b : bool) (s : src) : Prop := lk s = b.

Ltac nfs := match goal with H : nf ?s |- _ => destruct s as [d l f]; unfold nf in H; cbn in H; subst f end.

Lemma Safe_tick b : Safe (L b) tick (fun _ => L b).
Proof. intros s Hn Hp. nfs. cbn. split; [reflexivity|exact Hp]. Qed.

Lemma Safe_take_u8 b : Safe (L b) take_u8 (fun _ => L b).
Proof.
  intros s Hn Hp. nfs. unfold take_u8, bind, tick. cbn [flt rem lim].
  unfold L, lk in *. cbn [lim] in *.
  destruct l as [[|p]|], d as [|x d]; cbn; auto; split; reflexivity || exact Hp.
Qed.
Lemma Safe_take_opt_u8 b : Safe (L b) take_opt_u8 (fun _ => L b).
Proof.
  intros s Hn Hp. nfs. unfold take_opt_u8, bind, tick. cbn [flt rem lim].
  unfold L, lk in *. cbn [lim] in *.
  destruct l as [[|p]|], d as [|x d]; cbn; auto; split; reflexivity || exact Hp.
Qed.

(* request-then-advance never advances beyond the data or the limit *)
Lemma Safe_need_advance b n : Safe (L b) (need n ;;; advance n) (fun _ => L b).
Proof.
  intros s Hn Hp. nfs. unfold need, bind, tick, advance, avail. cbn [flt rem lim].
  unfold L, lk in *. cbn [lim] in *.
  destruct l as [x|].
  - destruct (N.min x (len d) <? n) eqn:E; [exact I|]. cbv beta iota. cbn [rem lim flt].
    replace (len d <? n) with false by lia. replace (x <? n) with false by lia.
    cbv beta iota. split; [reflexivity|exact Hp].
  - destruct (len d <? n) eqn:E; [exact I|]. cbv beta iota. cbn [rem lim flt]. rewrite E.
    cbv beta iota. split; [reflexivity|exact Hp].
Qed.

Lemma Safe_get_lim b : Safe (L b) get_lim (fun o s => L b s /\ lim s = o).
Proof. intros s Hn Hp. cbn. auto. Qed.
Lemma Safe_set_limit P l0 : Safe P (set_limit l0) (fun _ s => lim s = l0).
Proof. intros s Hn Hp. nfs. cbn. split; reflexivity. Qed.

Lemma Safe_src_exhausted b : Safe (L b) src_exhausted (fun _ => L b).
Proof.
  intros s Hn Hp. nfs. unfold src_exhausted, bind, tick. cbn [flt rem lim].
  destruct l as [[|p]|]; cbn; auto; [split; [reflexivity|exact Hp]|].
  destruct d; cbn; auto. split; [reflexivity|exact Hp].
Qed.

(* under a limit: take_all / skip_all / slice_all (limit.unwrap() is fine) *)
Lemma Safe_take_all : Safe (L true) take_all_lim (fun _ => L true).
Proof.
  intros s Hn Hp. nfs. unfold L, lk in Hp. cbn [lim] in Hp. destruct l as [x|]; [|discriminate].
  unfold take_all_lim. cbn [lim]. unfold need, bind, tick, advance, avail, get, ret. cbn [flt rem lim].
  destruct (N.min x (len d) <? x) eqn:E; [exact I|]. cbv beta iota. cbn [rem lim flt].
  replace (len d <? x) with false by lia. replace (x <? x) with false by lia. cbv beta iota. split; reflexivity.
Qed.
Lemma Safe_skip_all : Safe (L true) skip_all_lim (fun _ => L true).
Proof.
  intros s Hn Hp. nfs. unfold L, lk in Hp. cbn [lim] in Hp. destruct l as [x|]; [|discriminate].
  unfold skip_all_lim. cbn [lim]. unfold need, bind, tick, advance, avail. cbn [flt rem lim].
  destruct (N.min x (len d) <? x) eqn:E; [exact I|]. cbv beta iota. cbn [rem lim flt].
  replace (len d <? x) with false by lia. replace (x <? x) with false by lia. cbv beta iota. split; reflexivity.
Qed.
Lemma Safe_slice_all : Safe (L true) slice_all_lim (fun _ => L true).
Proof.
  intros s Hn Hp. nfs. unfold L, lk in Hp. cbn [lim] in Hp. destruct l as [x|]; [|discriminate].
  unfold slice_all_lim. cbn [lim]. unfold need, bind, tick, avail, get, ret. cbn [flt rem lim].
  destruct (N.min x (len d) <? x) eqn:E; [exact I|]. cbv beta iota. split; reflexivity.
Qed.

(* ---- identifier and length octets ---- *)
Ltac safe_auto b :=
  repeat first
    [ apply Safe_cerr
    | apply Safe_ret; intros; assumption
    | apply Safe_if
    | eapply Safe_bind; [apply (Safe_take_u8 b)|intros ?]
    | eapply Safe_bind; [apply (Safe_take_opt_u8 b)|intros ?]
    | eapply Safe_bind; [apply (Safe_tick b)|intros ?] ].

Lemma Safe_length b m : Safe (L b) (length_take_from m) (fun _ => L b).
Proof. unfold length_take_from. safe_auto b. Qed.

Lemma Safe_tag_opt b : Safe (L b) tag_take_opt_from (fun _ => L b).
Proof.
  unfold tag_take_opt_from. eapply Safe_bind; [apply (Safe_take_opt_u8 b)|]. intros [x|]; safe_auto b.
Qed.
Lemma Safe_tag b : Safe (L b) tag_take_from (fun _ => L b).
Proof.
  unfold tag_take_from. eapply Safe_bind; [apply (Safe_tag_opt b)|]. intros [x|]; safe_auto b.
Qed.

(* the peek-then-advance of take_from_if stays inside what it has seen *)
Lemma Safe_tag_if b e : Safe (L b) (tag_take_from_if e) (fun _ => L b).
Proof.
  intros s Hn Hp. rewrite (tag_take_from_if_peek_gen e s Hn).
  destruct (peek_tag (visible s)) as [[[[t c] k]|]|]; [|exact I|auto].
  destruct (tag_eqb t e); [|auto]. split; [reflexivity|].
  unfold L, lk in *. cbn [lim]. destruct (lim s); cbn [lim_sub]; exact Hp.
Qed.

(* ---- end checks ---- *)
Lemma Safe_cons_exhausted b c : Safe (L b) (cons_exhausted c) (fun _ => L b).
Proof.
  unfold cons_exhausted. destruct (cst c); try (apply Safe_ret; auto); [apply Safe_src_exhausted|].
  eapply Safe_bind; [apply (Safe_tag b)|]. intros [t k].
  apply Safe_if; [apply Safe_cerr|]. eapply Safe_bind; [apply (Safe_length b)|]. intro l.
  apply Safe_if; [apply Safe_ret; auto|apply Safe_cerr].
Qed.
Lemma Safe_content_exhausted b ct : Safe (L b) (content_exhausted ct) (fun _ => L b).
Proof. destruct ct; [apply Safe_src_exhausted|apply Safe_cons_exhausted]. Qed.

(* ---- the invariant of a constructed value / a content ---- *)
Definition inv (c : cons) (s : src) : Prop := cst c = Definite -> lk s = true.
Definition inv_ct (ct : content) (s : src) : Prop :=
  match ct with CPrim _ => lk s = true | CCons c => inv c s end.

Lemma Safe_is_exhausted c : Safe (inv c) (is_exhausted c) (fun _ => inv c).
Proof.
  intros s Hn Hp. unfold is_exhausted, inv in *. destruct (cst c) eqn:E.
  - specialize (Hp eq_refl). unfold lk in Hp. unfold bind, get_lim, ret, panic.
    destruct (lim s) eqn:El; [|discriminate]. split; [exact Hn|]. intros _. unfold lk. rewrite El. reflexivity.
  - split; [exact Hn|discriminate].
  - split; [exact Hn|discriminate].
  - split; [exact Hn|discriminate].
Qed.

(* a closure is well-behaved if, run on a content whose invariant holds, it
   does not panic and hands back a content whose invariant holds, without
   setting or clearing the limit (the public API offers no way to do that) *)
Definition SafeOp {T} (op : tag -> content -> M (T * content)) : Prop :=
  forall t ct b, Safe (fun s => inv_ct ct s /\ L b s) (op t ct)
                      (fun rc s => inv_ct (snd rc) s /\ L b s).

Theorem Safe_process_next_value {T} c exp (op : tag -> content -> M (T * content)) b :
  SafeOp op ->
  Safe (fun s => inv c s /\ L b s) (process_next_value c exp op)
       (fun rc s => inv (snd rc) s /\ L b s).
Proof.
  intros Hop. unfold process_next_value.
  (* inv c and the limit kind together are a pure fact about b *)
  apply Safe_conseq with (P := fun s => (cst c = Definite -> b = true) /\ L b s)
                         (Q := fun rc s => inv (snd rc) s /\ L b s); [| |auto].
  2:{ intros s [Hi Hl]. split; [|exact Hl]. intro E. rewrite <- Hl. apply (Hi E). }
  apply Safe_pure. intro Hcb.
  assert (Hinv : forall s', L b s' -> inv c s' /\ L b s').
  { intros s' Hl. split; [|exact Hl]. intro E. rewrite Hl. auto. }
  eapply Safe_bind with (Q := fun _ => L b).
  { intros s Hn Hl. pose proof (Safe_is_exhausted c s Hn (proj1 (Hinv s Hl))) as H.
    assert (Hs : forall r s0, is_exhausted c s = (r, s0) -> s0 = s) by (intros; eapply is_exhausted_state; eauto).
    destruct (is_exhausted c s) as [[a| | | |] s0] eqn:E; auto.
    rewrite (Hs _ _ eq_refl). split; [exact Hn|exact Hl]. }
  intro ex.
  apply Safe_if; [apply Safe_ret; intros s Hl; apply Hinv, Hl|].
  eapply Safe_bind with (Q := fun _ => L b).
  { destruct exp as [e|].
    - eapply Safe_bind; [apply Safe_tag_if|]. intro o. apply Safe_ret; auto.
    - apply Safe_if; [apply Safe_tag_opt|].
      eapply Safe_bind; [apply Safe_tag|]. intro r. apply Safe_ret; auto. }
  intros [[t k]|]; [|apply Safe_ret; intros s Hl; apply Hinv, Hl].
  eapply Safe_bind; [apply Safe_length|]. intro l.
  apply Safe_if.
  { destruct (cst c) eqn:E; try apply Safe_cerr.
    apply Safe_if; [apply Safe_cerr|]. apply Safe_if; [apply Safe_cerr|].
    apply Safe_ret. intros s Hl. split; [|exact Hl]. unfold inv, with_state. cbn. discriminate. }
  destruct l as [n|].
  - (* definite length *)
    eapply Safe_bind; [apply Safe_get_lim|]. intro old.
    (* what the limit kind says about `old`, as a pure fact *)
    apply Safe_conseq with (P := fun s => (b = true <-> old <> None) /\ True)
                           (Q := fun rc s => inv (snd rc) s /\ L b s); [| |auto].
    2:{ intros s [Hl Ho]. split; [|exact I]. unfold L, lk in Hl. rewrite Ho in Hl.
        destruct old; split; intro; try discriminate; try congruence. }
    apply Safe_pure. intro Hold.
    eapply Safe_bind with (Q := fun _ _ => True).
    { destruct old as [li|]; [apply Safe_if; [apply Safe_cerr|]|]; apply Safe_ret; auto. }
    intros _.
    eapply Safe_bind with (Q := fun _ s => lim s = Some n); [apply Safe_set_limit|]. intros _.
    eapply Safe_bind with (Q := fun _ s => lim s = Some n).
    { apply Safe_if; [apply Safe_cerr|apply Safe_ret; auto]. }
    intros _. cbv zeta.
    eapply Safe_bind with (Q := fun rc s => inv_ct (snd rc) s /\ L true s).
    { eapply Safe_conseq; [apply (Hop t _ true)| |auto].
      intros s Hl. unfold L, lk. rewrite Hl. split; [|reflexivity].
      destruct k; cbn; [unfold inv, lk; rewrite Hl; auto|unfold lk; rewrite Hl; reflexivity]. }
    intros [r ct'].
    eapply Safe_bind with (Q := fun _ _ => True).
    { eapply Safe_conseq; [apply (Safe_content_exhausted true ct')| |auto]. intros s [_ Hl]. exact Hl. }
    intros _.
    eapply Safe_bind; [apply Safe_set_limit|]. intro u.
    apply Safe_ret. intros s Hl. cbn [snd]. apply Hinv. unfold L, lk. rewrite Hl.
    destruct old as [li|]; cbn [lim_sub].
    + symmetry. apply Hold. discriminate.
    + destruct b; [|reflexivity]. exfalso. apply (proj1 Hold eq_refl). reflexivity.
  - (* indefinite length *)
    apply Safe_if; [apply Safe_cerr|].
    eapply Safe_bind with (Q := fun rc s => inv_ct (snd rc) s /\ L b s).
    { eapply Safe_conseq; [apply (Hop t _ b)| |auto].
      intros s Hl. split; [|exact Hl]. cbn. unfold inv. cbn. discriminate. }
    intros [r ct'].
    eapply Safe_bind with (Q := fun _ s => L b s).
    { eapply Safe_conseq; [apply (Safe_content_exhausted b ct')| |auto]. intros s [_ Hl]. exact Hl. }
    intros _. apply Safe_ret. intros s Hl. cbn [snd]. apply Hinv, Hl.
Qed.

(* ---- the generic reader: any input, any nesting ---- *)
Theorem Safe_read_all fuel : forall c b,
  Safe (fun s => inv c s /\ L b s) (read_all fuel c) (fun rc s => inv (snd rc) s /\ L b s).
Proof.
  induction fuel as [|f IH]; intros c b; cbn [read_all]; [apply Safe_nofuel|].
  eapply Safe_bind.
  - apply Safe_process_next_value. intros t [m|c'] b'; cbn [inv_ct].
    + eapply Safe_bind with (Q := fun _ s => L true s /\ b' = true).
      { intros s Hn [Hk Hl]. pose proof (Safe_take_all s Hn Hk) as H.
        destruct (take_all_lim s) as [[a| | | |] s']; auto. destruct H as [H1 H2]. split; [exact H1|].
        split; [exact H2|]. unfold L in *. congruence. }
      intro bs. apply Safe_ret. intros s [Hl Hb]. cbn [snd inv_ct]. subst b'. split; exact Hl.
    + eapply Safe_bind; [apply (IH c' b')|]. intros [kids c'']. apply Safe_ret. auto.
  - intros [[v|] c']; [|apply Safe_ret; auto].
    eapply Safe_bind; [apply (IH c' b)|]. intros [vs c'']. apply Safe_ret. auto.
Qed.

(* decoding a whole input with the generic reader never panics *)
Theorem read_all_never_panics fuel m d :
  fst (decode_src m (read_all fuel) (pure_src d None)) <> Panic.
Proof.
  assert (H : Safe (fun s => L false s) (decode_src m (read_all fuel)) (fun _ _ => True)).
  { unfold decode_src. eapply Safe_bind with (Q := fun rc s => L false s).
    - eapply Safe_conseq; [apply (Safe_read_all fuel (mkCons Unbounded m) false)| |].
      + intros s Hl. split; [|exact Hl]. unfold inv. cbn. discriminate.
      + intros a s [_ Hl]. exact Hl.
    - intros [r c]. eapply Safe_bind; [apply (Safe_cons_exhausted false c)|]. intro u.
      apply Safe_ret. auto. }
  specialize (H (pure_src d None) eq_refl eq_refl).
  destruct (decode_src m (read_all fuel) (pure_src d None)) as [[a| | | |] s']; cbn; try discriminate.
  contradiction.
Qed.

(* ---- skipping: the explicit stack of enclosing limits ---- *)
Definition is_some {A} (o : option A) : bool := match o with Some _ => true | None => false end.
(* will a limit be in force once every open value on the stack is closed? *)
Fixpoint fl (st : stack) (cur : bool) : bool :=
  match st with
  | [] => cur
  | None :: st' => fl st' cur
  | Some l :: st' => fl st' (is_some l)
  end.
Definition FL (st : stack) (b0 : bool) (s : src) : Prop := fl st (lk s) = b0.

Lemma Safe_skip_unwind fuel : forall st b0,
  Safe (FL st b0) (skip_unwind fuel st)
       (fun o s => match o with None => lk s = b0 | Some st' => FL st' b0 s end).
Proof.
  induction fuel as [|fu IH]; intros st b0; cbn [skip_unwind]; [apply Safe_nofuel|].
  destruct st as [|top st']; [apply Safe_ret; auto|].
  eapply Safe_bind with (Q := fun li s => FL (top :: st') b0 s /\ lim s = li).
  { intros s Hn Hp. cbn. auto. }
  intros [[|p]|]; try (apply Safe_ret; intros s [H _]; exact H).
  destruct top as [lo|]; [|apply Safe_cerr].
  eapply Safe_bind with (Q := fun _ s => FL st' b0 s).
  { intros s Hn [Hp Hl]. nfs. cbn. split; [reflexivity|]. unfold FL, lk in *. cbn [lim fl] in *.
    destruct lo; exact Hp. }
  intros _. apply IH.
Qed.

Lemma Safe_ext {A} P (m m' : M A) Q : (forall s, m s = m' s) -> Safe P m Q -> Safe P m' Q.
Proof. intros E H s Hn Hp. rewrite <- E. apply (H s Hn Hp). Qed.
Lemma bind_assoc {A B C} (m : M A) (f : A -> M B) (g : B -> M C) s :
  bind (bind m f) g s = bind m (fun a => bind (f a) g) s.
Proof. unfold bind. destruct (m s) as [[] ?]; reflexivity. Qed.

Theorem Safe_skip_loop fuel : forall c flt_ st tr b0,
  Safe (FL st b0) (skip_loop fuel c flt_ st tr)
       (fun r s => lk s = b0 /\ (cst (snd (fst r)) = Definite -> cst c = Definite)) /\
  Safe (FL st b0) (skip_after fuel c flt_ st tr)
       (fun r s => lk s = b0 /\ (cst (snd (fst r)) = Definite -> cst c = Definite)).
Proof.
  induction fuel as [|fu IH]; intros c flt_ st tr b0; cbn [skip_loop skip_after];
    [split; apply Safe_nofuel|].
  assert (Keep : forall A (m : M A), (forall b, Safe (L b) m (fun _ => L b)) ->
                 Safe (FL st b0) m (fun _ => FL st b0)).
  { intros A m Hm s Hn Hp. specialize (Hm (lk s) s Hn eq_refl).
    destruct (m s) as [[a| | | |] s']; auto. destruct Hm as [Hn' Hl]. split; [exact Hn'|].
    unfold FL, L in *. rewrite Hl. exact Hp. }
  split.
  - eapply Safe_bind with (Q := fun hdr s => FL st b0 s /\ (hdr = None -> st = [])).
    { destruct st as [|x st']; [destruct (cstate_eqb (cst c) Unbounded)|].
      - eapply Safe_conseq; [apply Keep; intro; apply Safe_tag_opt|auto|auto].
      - eapply Safe_bind; [apply Keep; intro; apply Safe_tag|]. intro. apply Safe_ret; auto.
      - eapply Safe_bind; [apply Keep; intro; apply Safe_tag|]. intro. apply Safe_ret.
        intros s Hp. split; [exact Hp|discriminate]. }
    intros [[t k]|].
    2:{ apply Safe_ret. intros s [Hp He]. rewrite (He eq_refl) in Hp. split; [exact Hp|auto]. }
    apply Safe_conseq with (P := FL st b0)
      (Q := fun r s => lk s = b0 /\ (cst (snd (fst r)) = Definite -> cst c = Definite));
      [|intros s [H _]; exact H|auto].
    eapply Safe_bind; [apply Keep; intro; apply Safe_length|]. intro l.
    apply Safe_if.
    + apply Safe_if.
      * apply Safe_if; [apply Safe_cerr|].
        destruct st as [|[x|] st'].
        -- destruct (cst c); try apply Safe_cerr. apply Safe_ret.
           intros s Hp. split; [exact Hp|cbn; discriminate].
        -- apply Safe_cerr.
        -- apply (IH c flt_ st' tr b0).
      * destruct l as [n|]; [|apply Safe_cerr].
        apply Safe_if; [apply Safe_cerr|].
        eapply Safe_ext; [intro s; apply bind_assoc|].
        eapply Safe_bind; [apply Keep; intro; apply Safe_need_advance|]. intro u. apply IH.
    + apply Safe_if; [apply Safe_cerr|].
      destruct l as [n|].
      * apply Safe_if; [apply Safe_cerr|]. apply Safe_if; [apply Safe_cerr|].
        eapply Safe_bind with (Q := fun ol s => FL st b0 s /\ lim s = ol).
        { intros s Hn Hp. cbn. auto. }
        intros [li|].
        -- apply Safe_if; [apply Safe_cerr|].
           eapply Safe_bind with (Q := fun _ s => FL (Some (Some (li - n)) :: st) b0 s).
           { intros s Hn [Hp Hl]. nfs. cbn. split; [reflexivity|]. unfold FL, lk in *. cbn [lim fl is_some] in *.
             subst l. exact Hp. }
           intros _. apply IH.
        -- eapply Safe_bind with (Q := fun _ s => FL (Some None :: st) b0 s).
           { intros s Hn [Hp Hl]. nfs. cbn. split; [reflexivity|]. unfold FL, lk in *. cbn [lim fl is_some] in *.
             subst l. exact Hp. }
           intros _. apply IH.
      * apply Safe_if; [apply Safe_cerr|]. apply Safe_if; [apply Safe_cerr|].
        apply (IH c flt_ (None :: st)).
  - eapply Safe_bind; [apply Safe_skip_unwind|].
    intros [st'|]; [apply IH|apply Safe_ret; auto].
Qed.

Theorem Safe_skip_opt fuel c flt_ b :
  Safe (fun s => inv c s /\ L b s) (skip_opt fuel c flt_) (fun r s => inv (snd (fst r)) s /\ L b s).
Proof.
  unfold skip_opt.
  apply Safe_conseq with (P := fun s => (cst c = Definite -> b = true) /\ L b s)
                         (Q := fun r s => inv (snd (fst r)) s /\ L b s); [| |auto].
  2:{ intros s [Hi Hl]. split; [|exact Hl]. intro E. rewrite <- Hl. apply (Hi E). }
  apply Safe_pure. intro Hcb.
  eapply Safe_bind with (Q := fun _ => L b).
  { intros s Hn Hl. assert (Hi : inv c s) by (intro E; rewrite Hl; auto).
    pose proof (Safe_is_exhausted c s Hn Hi) as H.
    assert (Hs : forall r s0, is_exhausted c s = (r, s0) -> s0 = s) by (intros; eapply is_exhausted_state; eauto).
    destruct (is_exhausted c s) as [[a| | | |] s0] eqn:E; auto.
    rewrite (Hs _ _ eq_refl). split; [exact Hn|exact Hl]. }
  intro ex. apply Safe_if.
  - apply Safe_ret. intros s Hl. cbn [fst snd]. split; [|exact Hl]. intro E. rewrite Hl. auto.
  - eapply Safe_conseq; [apply (proj1 (Safe_skip_loop fuel c flt_ [] [] b))|auto|].
    intros [[o c'] tr] s [Hl Hc]. cbn [fst snd] in *. split; [|exact Hl].
    intro E. rewrite Hl. apply Hcb, Hc, E.
Qed.

(* ---- typed leaves on a primitive's content (a limit is in force) ---- *)
Require Import BV.Model.Twos BV.Model.Int BV.Model.BitStr BV.Model.Oid.

Definition V (s : src) : Prop := lk s = true /\ visible s <> [].

Lemma Safe_remaining : Safe (L true) remaining (fun _ => L true).
Proof.
  intros s Hn Hp. unfold remaining. unfold L, lk in *. destruct (lim s) eqn:E; [|discriminate].
  split; [exact Hn|]. rewrite E. reflexivity.
Qed.

Lemma Safe_int_check_head : Safe (L true) int_check_head (fun _ => V).
Proof.
  intros s Hn Hp. unfold int_check_head, bind. rewrite (tick_nf s Hn).
  destruct (visible s) as [|b0 [|b1 v]] eqn:E; [exact I| |].
  - split; [exact Hn|]. split; [exact Hp|]. rewrite E. discriminate.
  - destruct (((b0 =? 0) && negb (bit8 b1)) || ((b0 =? 255) && bit8 b1)); [exact I|].
    split; [exact Hn|]. split; [exact Hp|]. rewrite E. discriminate.
Qed.
Lemma Safe_uns_check_head : Safe (L true) uns_check_head (fun _ => V).
Proof.
  unfold uns_check_head. eapply Safe_bind; [apply Safe_int_check_head|]. intro.
  intros s Hn [Hl Hv]. destruct (visible s) as [|b0 v] eqn:E; [congruence|].
  destruct (bit8 b0); [exact I|]. split; [exact Hn|]. split; [exact Hl|]. rewrite E. discriminate.
Qed.

(* with_slice_all: the closure sees the whole content *)
Lemma Safe_with_slice_all_gen {T} (P : list N -> Prop) (op : list N -> res T) :
  (forall c, P c -> op c <> Panic) ->
  Safe (fun s => lk s = true /\ P (visible s)) (with_slice_all op) (fun _ => L true).
Proof.
  intros Hop s Hn [Hl Hv]. nfs. unfold lk in Hl. cbn [lim] in Hl. destruct l as [x|]; [|discriminate].
  rewrite visible_eq in Hv. cbn [lim rem] in Hv.
  unfold with_slice_all, slice_all_lim. cbn [lim]. unfold bind at 1. unfold bind at 1.
  unfold need, bind, tick, avail, get, ret. cbn [flt rem lim].
  destruct (N.min x (len d) <? x) eqn:E; [exact I|]. cbv beta iota. cbn [rem].
  specialize (Hop (firstN x d) Hv).
  assert (Hlen : len (firstN x d) = x) by (unfold len, firstN in *; rewrite firstn_length; lia).
  destruct (op (firstN x d)) as [v| | | |]; try exact I; [|congruence].
  unfold advance. cbn [rem lim flt]. rewrite Hlen.
  replace (len d <? x) with false by lia. replace (x <? x) with false by lia.
  cbv beta iota. split; reflexivity.
Qed.
Lemma Safe_with_slice_all {T} (op : list N -> res T) :
  (forall c, c <> [] -> op c <> Panic) -> Safe V (with_slice_all op) (fun _ => L true).
Proof. intro H. apply (Safe_with_slice_all_gen (fun c => c <> []) op H). Qed.
Lemma Safe_with_slice_all_total {T} (op : list N -> res T) :
  (forall c, op c <> Panic) -> Safe (L true) (with_slice_all op) (fun _ => L true).
Proof.
  intro H. eapply Safe_conseq; [apply (Safe_with_slice_all_gen (fun _ => True) op); intros c _; apply H| |auto].
  intros s Hl. split; [exact Hl|exact I].
Qed.

Lemma slice_signed_np w c : c <> [] -> slice_signed w c <> Panic.
Proof. intro H. unfold slice_signed. destruct (N.of_nat w <? len c); [discriminate|]. destruct c; [congruence|discriminate]. Qed.
Lemma slice_unsigned_np w c : c <> [] -> slice_unsigned w c <> Panic.
Proof.
  intro H. unfold slice_unsigned. destruct c as [|b0 r]; [congruence|].
  destruct (bit8 b0); [discriminate|]. destruct (len (if b0 =? 0 then r else b0 :: r) =? 0); [discriminate|].
  destruct (N.of_nat w <? len (if b0 =? 0 then r else b0 :: r)); discriminate.
Qed.

Lemma V_L s : V s -> L true s. Proof. intros [H _]. exact H. Qed.

Theorem Safe_int_accessor ty : Safe (L true) (int_accessor ty) (fun _ => L true).
Proof.
  assert (Hs : forall w, Safe (L true) (signed_from_primitive w) (fun _ => L true)).
  { intro w. unfold signed_from_primitive. eapply Safe_bind; [apply Safe_int_check_head|]. intro.
    apply Safe_with_slice_all, slice_signed_np. }
  assert (Hu : forall w, Safe (L true) (unsigned_from_primitive w) (fun _ => L true)).
  { intro w. unfold unsigned_from_primitive. eapply Safe_bind; [apply Safe_uns_check_head|]. intro.
    apply Safe_with_slice_all, slice_unsigned_np. }
  assert (Hrem : forall A (k : N -> M A), (forall r, Safe (L true) (k r) (fun _ => L true)) ->
                 Safe V (r <- remaining ;; k r) (fun _ => L true)).
  { intros A k Hk. eapply Safe_bind with (Q := fun _ => L true).
    - eapply Safe_conseq; [apply Safe_remaining|apply V_L|auto].
    - intro r. apply Hk. }
  unfold int_accessor.
  destruct ty as [|p]; [|destruct p as [p|p|]; [destruct p as [p|p|]; [destruct p as [p|p|]| destruct p as [p|p|]|]
                                              |destruct p as [p|p|]; [destruct p as [p|p|]| destruct p as [p|p|]|]|]];
    try apply Hs; try apply Hu.
  all: try (unfold u8_from_primitive, u16_from_primitive, i8_from_primitive).
  all: try (eapply Safe_bind; [apply Safe_uns_check_head|]; intro; apply Hrem; intro r; safe_auto true).
  all: try (destruct p; apply Hu).
  eapply Safe_bind; [apply Safe_int_check_head|]. intro.
  eapply Safe_bind with (Q := fun _ => L true).
  - eapply Safe_conseq; [apply (Safe_take_u8 true)|apply V_L|auto].
  - intro. apply Safe_ret. auto.
Qed.

Require Import BV.Model.Prog.

Lemma Safe_integer_from_primitive : Safe (L true) integer_from_primitive (fun _ => L true).
Proof.
  unfold integer_from_primitive. eapply Safe_bind; [apply Safe_take_all|]. intros [|b0 [|b1 r]];
    [apply Safe_cerr|apply Safe_ret; auto|].
  apply Safe_if; [apply Safe_cerr|]. apply Safe_if; [apply Safe_cerr|apply Safe_ret; auto].
Qed.

Theorem Safe_typed_prim ty m : Safe (L true) (typed_prim ty m) (fun _ => L true).
Proof.
  assert (Hdef : Safe (L true) (v <- int_accessor ty;; ret [v]) (fun _ => L true)).
  { eapply Safe_bind; [apply Safe_int_accessor|]. intro. apply Safe_ret. auto. }
  assert (Hbit : forall A (k : N -> M A), (forall u, Safe (L true) (k u) (fun _ => L true)) ->
            Safe (L true) (r <- remaining;; if mode_eqb m Cer && (1000 <? r) then cerr else
                           unused <- take_u8;; if 7 <? unused then cerr else
                           r2 <- remaining;; if (r2 =? 0) && (0 <? unused) then cerr else k unused) (fun _ => L true)).
  { intros A k Hk. eapply Safe_bind; [apply Safe_remaining|]. intro r. apply Safe_if; [apply Safe_cerr|].
    eapply Safe_bind; [apply (Safe_take_u8 true)|]. intro u. apply Safe_if; [apply Safe_cerr|].
    eapply Safe_bind; [apply Safe_remaining|]. intro r2. apply Safe_if; [apply Safe_cerr|apply Hk]. }
  unfold typed_prim.
  destruct ty as [|p]; [exact Hdef|].
  do 5 (try destruct p as [p|p|]); try exact Hdef.
  all: (eapply Safe_bind with (Q := fun _ => L true); [|intro; apply Safe_ret; auto]).
  all: try (unfold bit_skip_prim; apply (Hbit _ (fun _ => skip_all_lim)); intro; apply Safe_skip_all).
  all: try (unfold bit_from_prim; apply (Hbit _ (fun unused => bits <- take_all_lim;; ret (unused, bits))); intro;
            eapply Safe_bind; [apply Safe_take_all|]; intro; apply Safe_ret; auto).
  all: try (unfold to_null; eapply Safe_bind; [apply Safe_remaining|]; intro r; apply Safe_if; [apply Safe_cerr|apply Safe_ret; auto]).
  all: try (unfold unsigned_int_from_primitive; eapply Safe_bind; [apply Safe_uns_check_head|]; intro;
            eapply Safe_conseq; [apply Safe_integer_from_primitive|apply V_L|auto]).
  all: try (unfold to_bool; solve [safe_auto true]).
  all: try apply Safe_integer_from_primitive.
  - unfold oid_skip_prim. apply Safe_with_slice_all_total. intro c. unfold oid_check_content.
    destruct (rev c) as [|n ?]; [discriminate|]. destruct (negb (N.land n 128 =? 0)); discriminate.
  - unfold oid_from_prim. eapply Safe_bind; [apply Safe_take_all|]. intro c.
    destruct (oid_check_content c); try apply Safe_cerr. apply Safe_ret; auto.
Qed.

(* ---- skip_one / skip / skip_all ---- *)
Definition IL (c : cons) (b : bool) (s : src) : Prop := inv c s /\ L b s.

Lemma Safe_skip_one fuel c b : Safe (IL c b) (skip_one fuel c) (fun r s => IL (snd r) b s).
Proof.
  unfold skip_one. eapply Safe_bind; [apply Safe_skip_opt|]. intros [[o c'] tr]. apply Safe_ret. auto.
Qed.
Lemma Safe_skip_mand fuel c fl_ b : Safe (IL c b) (skip_mand fuel c fl_) (fun r s => IL (fst r) b s).
Proof.
  unfold skip_mand. eapply Safe_bind; [apply Safe_skip_opt|]. intros [[o c'] tr].
  destruct o; [apply Safe_cerr|apply Safe_ret; auto].
Qed.
Lemma Safe_skip_all_loop fuel : forall c n b, Safe (IL c b) (skip_all fuel c n) (fun r s => IL (snd r) b s).
Proof.
  induction fuel as [|fu IH]; intros c n b; [apply Safe_nofuel|].
  change (skip_all (S fu) c n) with (r <- skip_one (S fu) c;; let '(o, c') := r in
            match o with SkNone => ret (n, c') | SkSome => skip_all fu c' (n + 1) end).
  eapply Safe_bind; [apply Safe_skip_one|]. intros [o c']. destruct o; [apply Safe_ret; auto|apply IH].
Qed.

(* ---- every decoding program without raw Source scripts and captures ---- *)
Fixpoint plain_p (n : nat) (p : prog) : bool :=
  match n with
  | O => false
  | S k =>
    match p with
    | PTake _ _ _ b => plain_b k b
    | PSkip _ _ _ _ | PReadAll | PSetMode _ => true
    | PCapture _ | PCaptureOne | PCaptureAll => false
    end
  end
with plain_b (n : nat) (b : body) : bool :=
  match n with
  | O => false
  | S k =>
    match b with
    | BGeneric | BNop | BTyped _ => true
    | BProg ps => forallb (plain_p k) ps
    | BScript _ => false
    | BSetModeThen _ b' => plain_b k b'
    end
  end.

Theorem Safe_exec fuel : forall n,
  (forall ps c lg b, forallb (plain_p n) ps = true ->
     Safe (IL c b) (exec fuel ps c lg) (fun r s => IL (snd r) b s)) /\
  (forall bd ct b, plain_b n bd = true ->
     Safe (fun s => inv_ct ct s /\ L b s) (exec_body fuel bd ct) (fun r s => inv_ct (snd r) s /\ L b s)).
Proof.
  induction fuel as [|fu IH]; intro n; [split; intros; apply Safe_nofuel|].
  split.
  - intros ps c lg b Hpl. cbn [exec]. destruct ps as [|p rest]; [apply Safe_ret; auto|].
    cbn [forallb] in Hpl. apply andb_prop in Hpl as [Hp Hrest].
    eapply Safe_bind with (Q := fun r s => IL (snd r) b s).
    2:{ intros [lg' c']. apply (proj1 (IH n)), Hrest. }
    destruct n as [|k]; [discriminate|]. cbn [plain_p] in Hp.
    destruct p as [opt kind ex bd|variant fk fa fb|qs| | | |m]; try discriminate.
    + (* PTake *)
      eapply Safe_bind.
      * apply Safe_process_next_value. intros t ct b'.
        assert (Hb : Safe (fun s => inv_ct ct s /\ L b' s)
                  (r <- exec_body fu bd ct;; let '(l, ct') := r in
                   ret (ltag t match ct with CCons _ => true | CPrim _ => false end ++ l, ct'))
                  (fun rc s => inv_ct (snd rc) s /\ L b' s)).
        { eapply Safe_bind; [apply (proj2 (IH k)), Hp|]. intros [l ct']. apply Safe_ret. auto. }
        destruct kind as [|[q|q|]]; try exact Hb; destruct ct; try exact Hb; try apply Safe_cerr;
          destruct q; try exact Hb; apply Safe_cerr.
      * intros [[l|] c']; [apply Safe_ret; auto|]. destruct opt; [apply Safe_ret; auto|apply Safe_cerr].
    + (* PSkip *)
      destruct variant as [|[q|q|]].
      * eapply Safe_bind; [apply Safe_skip_opt|]. intros [[o c'] tr]. apply Safe_ret. auto.
      * eapply Safe_bind; [apply Safe_skip_all_loop|]. intros [k' c']. apply Safe_ret. auto.
      * destruct q.
        -- eapply Safe_bind; [apply Safe_skip_all_loop|]. intros [k' c']. apply Safe_ret. auto.
        -- eapply Safe_bind; [apply Safe_skip_all_loop|]. intros [k' c']. apply Safe_ret. auto.
        -- eapply Safe_bind; [apply Safe_skip_one|]. intros [o c']. apply Safe_ret. auto.
      * eapply Safe_bind; [apply Safe_skip_mand|]. intros [c' tr]. apply Safe_ret. auto.
    + (* PReadAll *)
      eapply Safe_bind; [apply Safe_read_all|]. intros [ts c']. apply Safe_ret. auto.
    + (* PSetMode *)
      apply Safe_ret. intros s [Hi Hl]. split; [|exact Hl]. exact Hi.
  - intros bd ct b Hpl. cbn [exec_body]. destruct n as [|k]; [discriminate|]. cbn [plain_b] in Hpl.
    destruct bd as [|ps|sc| |ty|m bd']; try discriminate; destruct ct as [md|c].
    + (* BGeneric, primitive *)
      eapply Safe_bind with (Q := fun _ s => L true s /\ b = true).
      { intros s Hn [Hk Hl]. cbn in Hk. pose proof (Safe_take_all s Hn Hk) as H.
        destruct (take_all_lim s) as [[a| | | |] s']; auto. destruct H as [H1 H2]. split; [exact H1|].
        split; [exact H2|]. unfold L in *. congruence. }
      intro bs. apply Safe_ret. intros s [Hl Hb]. subst b. split; exact Hl.
    + eapply Safe_bind; [apply Safe_read_all|]. intros [ts c']. apply Safe_ret. auto.
    + apply Safe_cerr.
    + eapply Safe_bind; [apply (proj1 (IH k)), Hpl|]. intros [l c']. apply Safe_ret. auto.
    + apply Safe_ret. auto.
    + apply Safe_ret. auto.
    + (* BTyped, primitive *)
      eapply Safe_bind with (Q := fun _ s => L true s /\ b = true).
      { intros s Hn [Hk Hl]. cbn in Hk. pose proof (Safe_typed_prim ty md s Hn Hk) as H.
        destruct (typed_prim ty md s) as [[a| | | |] s']; auto. destruct H as [H1 H2]. split; [exact H1|].
        split; [exact H2|]. unfold L in *. congruence. }
      intro l. apply Safe_ret. intros s [Hl Hb]. subst b. split; exact Hl.
    + apply Safe_cerr.
    + eapply Safe_conseq; [apply (proj2 (IH k) bd' (CPrim (mode_of_n m)) b Hpl)|auto|auto].
    + eapply Safe_conseq; [apply (proj2 (IH k) bd' (CCons (mkCons (cst c) (mode_of_n m))) b Hpl)|auto|auto].
Qed.

(* decoding a whole input with any plain program never panics *)
Theorem program_never_panics fuel n m ps d : forallb (plain_p n) ps = true ->
  fst (decode_src m (fun c => exec fuel ps c []) (pure_src d None)) <> Panic.
Proof.
  intro Hpl.
  assert (H : Safe (fun s => L false s) (decode_src m (fun c => exec fuel ps c [])) (fun _ _ => True)).
  { unfold decode_src. eapply Safe_bind with (Q := fun rc s => L false s).
    - eapply Safe_conseq; [apply (proj1 (Safe_exec fuel n) ps (mkCons Unbounded m) [] false Hpl)| |].
      + intros s Hl. split; [|exact Hl]. unfold inv. cbn. discriminate.
      + intros a s [_ Hl]. exact Hl.
    - intros [r c]. eapply Safe_bind; [apply (Safe_cons_exhausted false c)|]. intro u.
      apply Safe_ret. auto. }
  specialize (H (pure_src d None) eq_refl eq_refl).
  destruct (decode_src m (fun c => exec fuel ps c []) (pure_src d None)) as [[a| | | |] s']; cbn; try discriminate.
  contradiction.
Qed.

(* the same inside any enclosing position: a limit may or may not be in force,
   the data may be shorter than the limit says (truncated input) *)
Theorem program_never_panics_anywhere fuel n ps c lg s : forallb (plain_p n) ps = true ->
  nf s -> inv c s -> fst (exec fuel ps c lg s) <> Panic.
Proof.
  intros Hpl Hn Hi.
  pose proof (proj1 (Safe_exec fuel n) ps c lg (lk s) Hpl s Hn (conj Hi eq_refl)) as H.
  destruct (exec fuel ps c lg s) as [[a| | | |] s']; cbn; try discriminate. contradiction.
Qed.

Lemma plain_example :
  forallb (plain_p 5) [PTake true 0 None (BProg [PTake false 1 None (BTyped 3); PSkip 0 0 0 0]); PReadAll] = true.
Proof. reflexivity. Qed.

(* ---- an accepted OID iterates without the "illegal object identifier" panic ---- *)
Fixpoint ends_clear (s : list N) : bool :=
  match s with
  | [] => true
  | [b] => N.land b 128 =? 0
  | _ :: r => ends_clear r
  end.

Lemma ends_clear_of_check c : oid_check_content c = Ok tt -> c <> [] /\ ends_clear c = true.
Proof.
  unfold oid_check_content. intro H. split; [intro E; subst c; discriminate|].
  induction c as [|b r IH]; [reflexivity|].
  destruct r as [|b' r'].
  - cbn in *. destruct (negb (N.land b 128 =? 0)) eqn:E; [discriminate|].
    destruct (N.land b 128 =? 0); [reflexivity|discriminate].
  - change (ends_clear (b :: b' :: r')) with (ends_clear (b' :: r')). apply IH.
    change (rev (b :: b' :: r')) with (rev (b' :: r') ++ [b]) in H.
    destruct (rev (b' :: r')) as [|l t] eqn:E; [|exact H].
    exfalso. apply (f_equal (@length N)) in E. rewrite rev_length in E. discriminate.
Qed.

Lemma split_component_ok s : s <> [] -> ends_clear s = true ->
  exists c t, split_component s = Some (c, t) /\ ends_clear t = true /\ (length t < length s)%nat.
Proof.
  induction s as [|b r IH]; [congruence|]. intros _ He. cbn [split_component].
  destruct (N.land b 128 =? 0) eqn:E.
  - exists [b], r. split; [reflexivity|]. split; [|cbn; lia]. destruct r; [reflexivity|exact He].
  - destruct r as [|b' r']; [cbn in He; congruence|].
    destruct (IH ltac:(discriminate) He) as (c & t & Hs & Ht & Hl).
    rewrite Hs. exists (b :: c), t. split; [reflexivity|]. split; [exact Ht|]. cbn [length] in *. lia.
Qed.

Lemma oid_iter_total fuel : forall pos s, ends_clear s = true ->
  (length s + (match pos with First => 1 | _ => 0 end) < fuel)%nat ->
  exists l, oid_iter fuel pos s = Ok l.
Proof.
  induction fuel as [|fu IH]; intros pos s He Hf; [lia|]. cbn [oid_iter].
  destruct s as [|b r] eqn:Es; [eexists; reflexivity|]. rewrite <- Es in *.
  destruct (split_component_ok s ltac:(subst s; discriminate) He) as (c & t & Hs & Ht & Hl).
  rewrite Hs.
  destruct (IH (match pos with First => Second | _ => Other end) (match pos with First => s | _ => t end)) as [l Hl'].
  - destruct pos; assumption.
  - destruct pos; lia.
  - rewrite Hl'. eexists; reflexivity.
Qed.

Theorem accepted_oid_iterates c : oid_check_content c = Ok tt ->
  exists l, oid_components c = Ok l /\ exists d, oid_display c = Ok d.
Proof.
  intro H. destruct (ends_clear_of_check c H) as [_ He].
  destruct (oid_iter_total (S (S (length c))) First c He ltac:(cbv beta iota; lia)) as [l Hl].
  exists l. split; [exact Hl|]. unfold oid_display, oid_components in *. rewrite Hl. eexists; reflexivity.
Qed.
