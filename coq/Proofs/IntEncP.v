(* The integer encoders of encode/primitive.rs produce the minimal
   two's-complement octets of the value (C14), decoding them gives the value
   back (C04) and DER decoding is canonical for the integer types (C05). *)
From Coq Require Import Lia ZifyBool ZifyN.
Require Import BV.Model.Base BV.Model.SrcB BV.Model.Length BV.Model.Twos BV.Model.Int.
Require Import BV.Proofs.Bits BV.Proofs.SrcBP BV.Proofs.TwosP BV.Proofs.IntP.
Arguments N.add : simpl never. Arguments N.sub : simpl never.
Arguments N.ltb : simpl never. Arguments N.leb : simpl never. Arguments N.eqb : simpl never.
Arguments N.land : simpl never.
Local Open Scope Z_scope.

(* ---------- big-endian bytes of v modulo 256^w ---------- *)
Lemma be_bytes_length w v : length (be_bytes w v) = w.
Proof. revert v. induction w as [|k IH]; intro v; cbn [be_bytes]; [reflexivity|]. rewrite app_length, IH. cbn. lia. Qed.

Lemma be_bytes_ok w v : octets_ok (be_bytes w v) = true.
Proof.
  revert v. induction w as [|k IH]; intro v; cbn [be_bytes]; [reflexivity|].
  rewrite octets_ok_app, IH. cbn [octets_ok forallb andb]. unfold octet_ok.
  assert (0 <= v mod 256 < 256) by (apply Z.mod_pos_bound; lia). lia.
Qed.

Lemma be_bytes_val w v : be_valZ (be_bytes w v) = v mod pw w.
Proof.
  revert v. induction w as [|k IH]; intro v; cbn [be_bytes].
  - rewrite pw_0, Z.mod_1_r. reflexivity.
  - rewrite be_valZ_app, IH. cbn [length]. change (pw 1) with 256.
    unfold be_valZ at 1. cbn [be_acc].
    assert (H : 0 <= v mod 256 < 256) by (apply Z.mod_pos_bound; lia).
    rewrite Z2N.id by lia. rewrite pw_S.
    pose proof (pw_pos k).
    rewrite (Z.mul_comm 256 (pw k)).
    (* v mod (pw k * 256) *)
    replace (pw k * 256) with (256 * pw k) by lia.
    rewrite Z.rem_mul_r by lia. lia.
Qed.

(* ---------- stripping leading 0xFF octets ---------- *)
Lemma drop_ff_spec l : octets_ok l = true ->
  let r := drop_ff l in
  (length r <= length l)%nat /\ octets_ok r = true /\ hd 0%N r <> 255%N /\
  be_valZ l = (pw (length l - length r) - 1) * pw (length r) + be_valZ r.
Proof.
  induction l as [|b t IH]; intro Hok; cbv zeta.
  - cbn [drop_ff length hd]. split; [lia|]. split; [reflexivity|]. split; [discriminate|].
    rewrite Nat.sub_diag, pw_0. reflexivity.
  - apply octets_ok_cons in Hok as Hok'. destruct Hok' as [Hb Ht].
    destruct (N.eq_dec b 255) as [->|Hne].
    + cbn [drop_ff]. specialize (IH Ht). cbv zeta in IH. destruct IH as (Hl & Ho & Hh & Hv).
      repeat split; try assumption; [cbn [length]; lia|].
      rewrite be_valZ_cons, Hv. cbn [length].
      replace (S (length t) - length (drop_ff t))%nat with (S (length t - length (drop_ff t))) by lia.
      rewrite pw_S.
      assert (E : pw (length t) = pw (length t - length (drop_ff t)) * pw (length (drop_ff t))).
      { rewrite <- pw_add. f_equal. lia. }
      rewrite E. change (Z.of_N 255) with 255. ring.
    + assert (E : drop_ff (b :: t) = b :: t).
      { destruct b as [|p]; [reflexivity|]. cbn [drop_ff].
        do 8 (destruct p as [p|p|]; try reflexivity). congruence. }
      rewrite E. split; [lia|]. split; [exact Hok|]. split; [cbn [hd]; exact Hne|].
      rewrite Nat.sub_diag, pw_0. lia.
Qed.

Lemma drop_zeros_len l : (length (drop_zeros l) <= length l)%nat.
Proof. induction l as [|b t IH]; [cbn; lia|]. cbn [drop_zeros]. destruct b; cbn [length]; lia. Qed.
Lemma drop_zeros_hd0 l : hd 1%N (drop_zeros l) <> 0%N.
Proof. apply drop_zeros_hd. Qed.

Lemma hd_bit8_spec b r : (b < 256)%N -> hd_bit8 (b :: r) = (128 <=? b)%N.
Proof. intro H. unfold hd_bit8. apply land128_eq128. exact H. Qed.

(* ---------- the unsigned ladder ---------- *)
Lemma pos_value_encoding bs v : octets_ok bs = true -> hd 1%N bs <> 0%N -> be_valZ bs = v -> 0 < v ->
  let c := if hd_bit8 bs then 0%N :: bs else bs in
  valid_int c /\ tc_val c = v.
Proof.
  intros Hok Hh Hv Hpos. destruct bs as [|b r]; [cbn in Hv; lia|]. cbn [hd] in Hh.
  apply octets_ok_cons in Hok as Hok'. destruct Hok' as [Hb Hr].
  rewrite (hd_bit8_spec b r Hb). destruct (128 <=? b)%N eqn:E; cbv zeta.
  - split; [split|].
    + cbn [octets_ok forallb]. exact Hok.
    + cbn [minimal]. replace (b <? 128)%N with false by lia. reflexivity.
    + rewrite tc_val_cons. change (sbyte 0) with 0. lia.
  - split; [split|].
    + exact Hok.
    + destruct r as [|b1 r']; [reflexivity|]. cbn [minimal].
      replace (b =? 0)%N with false by lia. replace (b =? 255)%N with false by lia. reflexivity.
    + rewrite tc_val_cons, <- Hv, be_valZ_cons. unfold sbyte. replace (b <? 128)%N with true by lia. reflexivity.
Qed.

Theorem enc_unsigned_correct w v : 0 <= v < pw w ->
  valid_int (enc_unsigned w v) /\ tc_val (enc_unsigned w v) = v.
Proof.
  intros Hr. unfold enc_unsigned. destruct (v =? 0) eqn:E0.
  - assert (v = 0) as -> by lia. split; [split; reflexivity|reflexivity].
  - apply pos_value_encoding.
    + apply drop_zeros_ok. apply be_bytes_ok.
    + apply drop_zeros_hd0.
    + rewrite drop_zeros_val, be_bytes_val. apply Z.mod_small. lia.
    + lia.
Qed.

(* ---------- the signed ladder ---------- *)
Theorem enc_signed_correct w v : (1 <= w)%nat -> in_range true w v = true ->
  valid_int (enc_signed w v) /\ tc_val (enc_signed w v) = v.
Proof.
  intros Hw Hr. unfold in_range in Hr. apply andb_true_iff in Hr as [Hlo Hhi].
  assert (Hpw : pw w = 256 * pw (w - 1)).
  { replace w with (S (w - 1)) at 1 by lia. apply pw_S. }
  pose proof (pw_pos (w - 1)) as Hp.
  unfold enc_signed. destruct (v =? 0) eqn:E0.
  { assert (v = 0) as -> by lia. split; [split; reflexivity|reflexivity]. }
  destruct (v =? -1) eqn:E1.
  { assert (v = -1) as -> by lia. split; [split; reflexivity|reflexivity]. }
  destruct (v <? 0) eqn:En.
  - (* negative *)
    pose proof (be_bytes_ok w v) as Hok.
    destruct (drop_ff_spec (be_bytes w v) Hok) as (Hl & Ho & Hh & Hv). cbv zeta in *.
    set (r := drop_ff (be_bytes w v)) in *.
    rewrite be_bytes_val, be_bytes_length in Hv.
    assert (Hmod : v mod pw w = v + pw w).
    { symmetry. apply Z.mod_unique with (q := -1); lia. }
    rewrite Hmod in Hv.
    assert (Hk : pw (w - length r) * pw (length r) = pw w).
    { rewrite <- pw_add. f_equal. rewrite be_bytes_length in Hl. lia. }
    assert (Hbr : be_valZ r = v + pw (length r)) by nia.
    destruct r as [|b r'] eqn:Er.
    { cbn in Hbr. lia. }
    cbn [hd] in Hh. apply octets_ok_cons in Ho as Ho'. destruct Ho' as [Hb Hr'].
    rewrite (hd_bit8_spec b r' Hb). cbn [length] in Hbr. rewrite pw_S in Hbr.
    destruct (128 <=? b)%N eqn:E.
    + split; [split|].
      * exact Ho.
      * destruct r' as [|b1 r'']; [reflexivity|]. cbn [minimal].
        replace (b =? 0)%N with false by lia. replace (b =? 255)%N with false by lia. reflexivity.
      * rewrite tc_val_cons. rewrite be_valZ_cons in Hbr. unfold sbyte.
        replace (b <? 128)%N with false by lia. lia.
    + split; [split|].
      * cbn [octets_ok forallb]. exact Ho.
      * cbn [minimal]. replace (128 <=? b)%N with false by lia. rewrite andb_false_r. reflexivity.
      * rewrite tc_val_cons. cbn [length]. rewrite pw_S. change (sbyte 255) with (-1). lia.
  - (* positive *)
    apply pos_value_encoding.
    + apply drop_zeros_ok. apply be_bytes_ok.
    + apply drop_zeros_hd0.
    + rewrite drop_zeros_val, be_bytes_val. apply Z.mod_small. lia.
    + lia.
Qed.

Theorem enc_int_correct ty v : (ty < 10)%N -> in_range (ty_signed ty) (ty_width ty) v = true ->
  valid_int (enc_int ty v) /\ tc_val (enc_int ty v) = v.
Proof.
  intros Hty Hr.
  assert (H : (ty = 0 \/ ty = 1 \/ ty = 2 \/ ty = 3 \/ ty = 4 \/ ty = 5 \/ ty = 6 \/ ty = 7
              \/ ty = 8 \/ ty = 9)%N) by lia.
  destruct H as [-> | [-> | [-> | [-> | [-> | [-> | [-> | [-> | [-> | ->]]]]]]]]];
    cbn [enc_int ty_width] in *;
    match type of Hr with context [ty_signed ?k] =>
      let b := eval vm_compute in (ty_signed k) in change (ty_signed k) with b in * end;
    cbv iota in *.
  - (* i8 *)
    unfold in_range in Hr. change (pw (1 - 1)) with 1 in Hr. unfold enc_i8.
    assert (Hm : 0 <= v mod 256 < 256) by (apply Z.mod_pos_bound; lia).
    split; [split; [cbn [octets_ok forallb]; unfold octet_ok; lia|reflexivity]|].
    rewrite tc_val_cons. cbn [length be_valZ be_acc]. rewrite pw_0. unfold sbyte.
    destruct (Z.to_N (v mod 256) <? 128)%N eqn:E.
    + assert (v mod 256 = v); [|lia]. apply Z.mod_small.
      destruct (Z.ltb_spec v 0); [|lia]. exfalso.
      assert (v mod 256 = v + 256) by (symmetry; apply Z.mod_unique with (q := -1); lia). lia.
    + assert (v mod 256 = v + 256); [|lia].
      destruct (Z.ltb_spec v 0); [symmetry; apply Z.mod_unique with (q := -1); lia|].
      exfalso. rewrite Z.mod_small in E by lia. lia.
  - apply enc_signed_correct; [lia|exact Hr].
  - apply enc_signed_correct; [lia|exact Hr].
  - apply enc_signed_correct; [lia|exact Hr].
  - apply enc_signed_correct; [lia|exact Hr].
  - (* u8 *)
    unfold in_range in Hr. change (pw 1) with 256 in Hr. unfold enc_u8.
    destruct (127 <? v) eqn:E.
    + split; [split; [cbn [octets_ok forallb]; unfold octet_ok; lia|cbn [minimal]; lia]|].
      rewrite tc_val_cons. cbn [length be_valZ be_acc]. change (sbyte 0) with 0. lia.
    + split; [split; [cbn [octets_ok forallb]; unfold octet_ok; lia|reflexivity]|].
      rewrite tc_val_cons. cbn [length be_valZ be_acc]. rewrite pw_0. unfold sbyte.
      replace (Z.to_N v <? 128)%N with true by lia. lia.
  - apply enc_unsigned_correct. unfold in_range in Hr. lia.
  - apply enc_unsigned_correct. unfold in_range in Hr. lia.
  - apply enc_unsigned_correct. unfold in_range in Hr. lia.
  - apply enc_unsigned_correct. unfold in_range in Hr. lia.
Qed.

Local Close Scope Z_scope.

(* C04 leaf law: decoding what the encoder wrote gives the value back *)
Theorem int_roundtrip ty v : ty < 10 -> in_range (ty_signed ty) (ty_width ty) v = true ->
  prim_decode (int_accessor ty) (enc_int ty v) = Ok v.
Proof.
  intros Hty Hr. destruct (enc_int_correct ty v Hty Hr) as [[Hok Hm] Hv].
  rewrite (int_accessor_spec ty _ Hty Hok). unfold int_dec_spec. rewrite Hm, Hv, Hr. reflexivity.
Qed.

(* C05 leaf law: whatever the accessor accepts re-encodes to the same octets,
   so two different contents never decode to the same value *)
Theorem int_der_canonical ty c v : ty < 10 -> octets_ok c = true ->
  prim_decode (int_accessor ty) c = Ok v -> enc_int ty v = c.
Proof.
  intros Hty Hok Hd. destruct (int_accessor_sound ty c v Hty Hok Hd) as (Hm & Hv & Hr).
  destruct (enc_int_correct ty v Hty Hr) as [Hvalid Hv2].
  assert (Hvc : valid_int c) by (split; assumption).
  destruct (int_eq_spec (enc_int ty v) c Hvalid Hvc) as [[_ H] _].
  specialize (H ltac:(congruence)). unfold int_eq in H.
  clear -H. revert c H. induction (enc_int ty v) as [|x a IH]; intros [|y b] H; try discriminate; [reflexivity|].
  cbn [list_eqb] in H. apply andb_true_iff in H as [H1 H2]. apply N.eqb_eq in H1. subst. f_equal. apply IH. exact H2.
Qed.

(* and the encoder output is the minimal two's-complement form of the value (C14) *)
Theorem int_encoder_minimal ty v : ty < 10 -> in_range (ty_signed ty) (ty_width ty) v = true ->
  minimal (enc_int ty v) = true /\ tc_val (enc_int ty v) = v /\ octets_ok (enc_int ty v) = true.
Proof.
  intros Hty Hr. destruct (enc_int_correct ty v Hty Hr) as [[Hok Hm] Hv]. repeat split; assumption.
Qed.

(* BOOLEAN and NULL *)
Theorem bool_roundtrip m b : prim_decode (to_bool m) (enc_bool b) = Ok b.
Proof. destruct m, b; reflexivity. Qed.
Theorem bool_der_canonical c b : octets_ok c = true ->
  prim_decode (to_bool Der) c = Ok b -> enc_bool b = c.
Proof.
  intros Hok. rewrite to_bool_spec by exact Hok. destruct c as [|x [|y r]]; try discriminate.
  cbn [mode_eqb]. destruct (x =? 0) eqn:E0; [intros [= <-]; cbn; f_equal; lia|].
  destruct (x =? 255) eqn:E1; [intros [= <-]; cbn; f_equal; lia|discriminate].
Qed.
Theorem null_roundtrip : prim_decode to_null [] = Ok tt. Proof. reflexivity. Qed.
